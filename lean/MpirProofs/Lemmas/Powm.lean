/- Helper lemmas for C08 (Mpir/Model/Powm.lean): scalar code, limb access, the sliding window,
   the kernels used by mpz_powm (mpn_sub), REDC. -/
import MpirProofs.Lemmas.Base
import MpirProofs.Lemmas.Kernels
import Mpir.Model.Powm
import Mathlib.Tactic.Ring
import Mathlib.Tactic.Linarith
import Mathlib.Tactic.IntervalCases
import Mathlib.Algebra.Group.Basic
import Mathlib.Data.Nat.ModEq
import Mathlib.Data.Int.ModEq
import Mathlib.Data.List.Basic
import Mathlib.Data.Nat.GCD.Basic
import Mathlib.Data.Nat.ChineseRemainder
namespace Mpir.Powm
open Mpir

/-! ### powers of two -/

theorem B_eq_two_pow : B = 2 ^ 64 := rfl

theorem two_pow_pos (n : Nat) : 0 < 2 ^ n := Nat.pos_of_ne_zero (by positivity)

theorem B_split (s : Nat) (hs : s ≤ 64) : B = 2 ^ s * 2 ^ (64 - s) := by
  rw [B_eq_two_pow, ← pow_add]; congr 1; omega

/-! ### count_trailing_zeros -/

theorem ctzAux_spec : ∀ (f x : Nat), x ≠ 0 → x < 2 ^ f →
    x = 2 ^ ctzAux f x * (x / 2 ^ ctzAux f x) ∧ (x / 2 ^ ctzAux f x) % 2 = 1
  | 0, x, h0, hlt => by simp at hlt; exact absurd hlt h0
  | f + 1, x, h0, hlt => by
    unfold ctzAux
    by_cases hodd : x % 2 = 1
    · simp [hodd]
    · simp only [hodd, if_false]
      have hx2 : x / 2 ≠ 0 := by omega
      have hlt2 : x / 2 < 2 ^ f := by rw [pow_succ] at hlt; omega
      obtain ⟨h1, h2⟩ := ctzAux_spec f (x / 2) hx2 hlt2
      have hdiv : x / 2 ^ (1 + ctzAux f (x / 2)) = x / 2 / 2 ^ ctzAux f (x / 2) := by
        rw [pow_add, pow_one, Nat.div_div_eq_div_mul]
      rw [hdiv]
      refine ⟨?_, h2⟩
      have hx : x = 2 * (x / 2) := by omega
      calc x = 2 * (x / 2) := hx
        _ = 2 * (2 ^ ctzAux f (x / 2) * (x / 2 / 2 ^ ctzAux f (x / 2))) := by rw [← h1]
        _ = _ := by rw [pow_add, pow_one]; ring

/-- `x = 2^ctz · odd` for a non-zero limb. -/
theorem ctz_spec (x : Nat) (h0 : x ≠ 0) (hlt : x < 2 ^ 64) :
    x = 2 ^ ctz x * (x >>> ctz x) ∧ (x >>> ctz x) % 2 = 1 := by
  unfold ctz; simp only [h0, if_false, Nat.shiftRight_eq_div_pow]
  exact ctzAux_spec 64 x h0 hlt

/-! ### limb access -/

theorem val_drop_div (p : List Nat) (hp : Limbs p) (i : Nat) : val p / B ^ i = val (p.drop i) := by
  by_cases hi : i ≤ p.length
  · have h := val_take_drop p i hi
    have hlt := val_lt (p.take i) (Limbs_take hp i)
    rw [List.length_take, Nat.min_eq_left hi] at hlt
    rw [h, Nat.add_mul_div_left _ _ (Nat.pow_pos B_pos), Nat.div_eq_of_lt hlt, Nat.zero_add]
  · have hlt := val_lt p hp
    have : B ^ p.length ≤ B ^ i := Nat.pow_le_pow_right B_pos (by omega)
    rw [List.drop_eq_nil_of_le (by omega), Nat.div_eq_of_lt (by omega)]; rfl

theorem val_take_mod (p : List Nat) (hp : Limbs p) (i : Nat) : val p % B ^ i = val (p.take i) := by
  by_cases hi : i ≤ p.length
  · have h := val_take_drop p i hi
    have hlt := val_lt (p.take i) (Limbs_take hp i)
    rw [List.length_take, Nat.min_eq_left hi] at hlt
    rw [h, Nat.add_mul_mod_self_left, Nat.mod_eq_of_lt hlt]
  · have hlt := val_lt p hp
    have : B ^ p.length ≤ B ^ i := Nat.pow_le_pow_right B_pos (by omega)
    rw [List.take_of_length_le (by omega), Nat.mod_eq_of_lt (by omega)]

theorem val_drop_getD (p : List Nat) (i : Nat) : val (p.drop i) = p.getD i 0 + B * val (p.drop (i + 1)) := by
  induction p generalizing i with
  | nil => simp
  | cons x xs ih =>
    cases i with
    | zero => simp
    | succ j => simpa using ih j

theorem getD_lt (p : List Nat) (hp : Limbs p) (i : Nat) : p.getD i 0 < B := by
  rw [List.getD_eq_getElem?_getD]
  cases h : p[i]? with
  | none => simpa using B_pos
  | some x => exact hp x (List.mem_of_getElem? h)

/-- the value shifted right by `64·i + s` bits, in terms of limb `i` and the limbs above it. -/
theorem val_shift (p : List Nat) (hp : Limbs p) (j : Nat) :
    val p / 2 ^ j = p.getD (j / 64) 0 / 2 ^ (j % 64) + 2 ^ (64 - j % 64) * val (p.drop (j / 64 + 1)) := by
  have hs : j % 64 ≤ 64 := by omega
  have hj : 2 ^ j = B ^ (j / 64) * 2 ^ (j % 64) := by
    rw [B_eq_two_pow, ← pow_mul, ← pow_add]; congr 1; omega
  rw [hj, ← Nat.div_div_eq_div_mul, val_drop_div p hp, val_drop_getD, B_split _ hs, Nat.mul_assoc,
    Nat.add_mul_div_left _ _ (two_pow_pos _)]

/-! ### getbit / getbits -/

theorem getbit_spec (p : List Nat) (hp : Limbs p) (bi : Nat) :
    getbit p bi = (val p / 2 ^ (bi - 1)) % 2 := by
  unfold getbit
  rw [Nat.and_one_is_mod, Nat.shiftRight_eq_div_pow, val_shift p hp]
  have : 2 ^ (64 - (bi - 1) % 64) = 2 * 2 ^ (63 - (bi - 1) % 64) := by
    rw [← pow_succ']; congr 1; omega
  rw [this, Nat.mul_assoc, Nat.add_mul_mod_self_left]

theorem getbits_spec (p : List Nat) (hp : Limbs p) (bi nbits : Nat) (hn : nbits ≤ 63) :
    getbits p bi nbits = if bi < nbits then val p % 2 ^ bi else (val p / 2 ^ (bi - nbits)) % 2 ^ nbits := by
  unfold getbits
  by_cases hlt : bi < nbits
  · simp only [hlt, if_true]
    rw [Nat.one_shiftLeft, Nat.and_two_pow_sub_one_eq_mod]
    have hb : bi ≤ 64 := by omega
    -- p[0] % 2^bi = val p % 2^bi
    have h0 := val_shift p hp 0
    simp only [Nat.zero_div, Nat.zero_mod, pow_zero, Nat.div_one, Nat.sub_zero, Nat.zero_add] at h0
    rw [h0]
    have : 2 ^ 64 = 2 ^ bi * 2 ^ (64 - bi) := by rw [← pow_add]; congr 1; omega
    rw [this, Nat.mul_assoc, Nat.add_mul_mod_self_left]
  · simp only [hlt, if_false]
    rw [Nat.one_shiftLeft, Nat.and_two_pow_sub_one_eq_mod, val_shift p hp]
    generalize hj : bi - nbits = j
    have hs : j % 64 < 64 := Nat.mod_lt _ (by decide)
    generalize hs' : j % 64 = s at *
    generalize p.getD (j / 64) 0 = x0
    by_cases hc : 64 - s < nbits
    · simp only [hc, if_true]
      rw [val_drop_getD]
      generalize p.getD (j / 64 + 1) 0 = x1
      generalize val (p.drop (j / 64 + 1 + 1)) = rest
      have hB : B = 2 ^ nbits * 2 ^ (64 - nbits) := B_split _ (by omega)
      rw [Nat.shiftRight_eq_div_pow, Nat.shiftLeft_eq]
      -- reduce `% B % 2^nbits`
      have hd : 2 ^ nbits ∣ B := ⟨_, hB⟩
      rw [Nat.mod_mod_of_dvd _ hd]
      have e1 : (x0 / 2 ^ s + x1 * 2 ^ (64 - s) % B) % 2 ^ nbits = (x0 / 2 ^ s + x1 * 2 ^ (64 - s)) % 2 ^ nbits := by
        rw [Nat.add_mod, Nat.mod_mod_of_dvd _ hd, ← Nat.add_mod]
      rw [e1]
      have e2 : 2 ^ (64 - s) * (x1 + B * rest) = x1 * 2 ^ (64 - s) + 2 ^ nbits * (2 ^ (64 - nbits) * 2 ^ (64 - s) * rest) := by
        rw [hB]; ring
      rw [e2, ← Nat.add_assoc, Nat.add_mul_mod_self_left]
    · simp only [hc, if_false]
      have : 2 ^ (64 - s) = 2 ^ nbits * 2 ^ (64 - s - nbits) := by rw [← pow_add]; congr 1; omega
      rw [Nat.shiftRight_eq_div_pow, this, Nat.mul_assoc, Nat.add_mul_mod_self_left]


/-! ### MPN_SIZEINBASE_2EXP -/

theorem sizeinbase2_spec (ep : List Nat) (hl : Limbs ep) (hne : ep ≠ []) (htop : ep.getLast hne ≠ 0) :
    1 ≤ sizeinbase2 ep ∧ 2 ^ (sizeinbase2 ep - 1) ≤ val ep ∧ val ep < 2 ^ sizeinbase2 ep := by
  have hdec := List.dropLast_concat_getLast hne
  generalize ep.getLast hne = top at *
  generalize ep.dropLast = ini at *
  subst hdec
  have htl : top < B := hl top (by simp)
  have hini : Limbs ini := (Limbs_append.mp hl).1
  have hv : val (ini ++ [top]) = val ini + B ^ ini.length * top := by rw [val_append]; simp
  have hil := val_lt ini hini
  have hlog1 : top < 2 ^ (top.log2 + 1) := Nat.lt_log2_self
  have hlog2 : 2 ^ top.log2 ≤ top := Nat.log2_self_le htop
  have hlog3 : top.log2 < 64 := (Nat.log2_lt htop).mpr htl
  have hsz : sizeinbase2 (ini ++ [top]) = 64 * ini.length + top.log2 + 1 := by
    unfold sizeinbase2 clz; simp; omega
  rw [hsz, hv]
  have hB : B ^ ini.length = 2 ^ (64 * ini.length) := by rw [B_eq_two_pow, ← pow_mul]
  refine ⟨by omega, ?_, ?_⟩
  · have : 64 * ini.length + top.log2 + 1 - 1 = 64 * ini.length + top.log2 := by omega
    rw [this, pow_add, ← hB]
    have := Nat.mul_le_mul_left (B ^ ini.length) hlog2
    omega
  · have e : 64 * ini.length + top.log2 + 1 = 64 * ini.length + (top.log2 + 1) := by omega
    rw [e, pow_add, ← hB]
    have h1 : B ^ ini.length * (top + 1) ≤ B ^ ini.length * 2 ^ (top.log2 + 1) := Nat.mul_le_mul_left _ hlog1
    have h2 : B ^ ini.length * (top + 1) = B ^ ini.length * top + B ^ ini.length := by ring
    omega

/-! ### the window extraction arithmetic -/

/-- One window: the `w'` bits of `e` below bit position `ebi` (1-based, bit `ebi` set) split as
    `2^c · odd`; dropping the `c` low zero bits leaves `E·2^(w'-c) + odd` above position `ebi - w' + c`. -/
theorem window_extract' (e ebi w' : Nat) (hw1 : 1 ≤ w') (hw63 : w' ≤ 63) (hle : w' ≤ ebi)
    (hbit : (e / 2 ^ (ebi - 1)) % 2 = 1) (bits : Nat) (hb : bits = (e / 2 ^ (ebi - w')) % 2 ^ w') :
    ctz bits < w' ∧ bits >>> ctz bits < 2 ^ w' ∧ (bits >>> ctz bits) % 2 = 1 ∧
    e / 2 ^ (ebi - w' + ctz bits) = (e / 2 ^ ebi) * 2 ^ (w' - ctz bits) + (bits >>> ctz bits) := by
  have hblt : bits < 2 ^ w' := by rw [hb]; exact Nat.mod_lt _ (two_pow_pos _)
  have hsplit : 2 ^ w' = 2 ^ (w' - 1) * 2 := by rw [← pow_succ]; congr 1; omega
  -- top bit of the window
  have htopbit : bits / 2 ^ (w' - 1) = 1 := by
    rw [hb, hsplit, Nat.mod_mul_right_div_self, Nat.div_div_eq_div_mul, ← pow_add]
    have : ebi - w' + (w' - 1) = ebi - 1 := by omega
    rw [this, hbit]
  have hbge : 2 ^ (w' - 1) ≤ bits := by
    by_contra hlt
    rw [Nat.div_eq_of_lt (by omega)] at htopbit; omega
  have hb0 : bits ≠ 0 := by have := two_pow_pos (w' - 1); omega
  have h64 : bits < 2 ^ 64 := lt_of_lt_of_le hblt (Nat.pow_le_pow_right (by decide) (by omega))
  obtain ⟨hc1, hc2⟩ := ctz_spec bits hb0 h64
  generalize ctz bits = c at *
  generalize bits >>> c = od at *
  have hod0 : 0 < od := by omega
  have hclt : c < w' := by
    by_contra hge
    have : 2 ^ w' ≤ 2 ^ c := Nat.pow_le_pow_right (by decide) (by omega)
    have : 2 ^ c ≤ 2 ^ c * od := Nat.le_mul_of_pos_right _ hod0
    omega
  have hodlt : od < 2 ^ w' := by
    have : od ≤ 2 ^ c * od := Nat.le_mul_of_pos_left _ (two_pow_pos c)
    omega
  refine ⟨hclt, hodlt, hc2, ?_⟩
  -- e / 2^lo = E * 2^w' + bits
  have hE : e / 2 ^ (ebi - w') = (e / 2 ^ ebi) * 2 ^ w' + bits := by
    have h := Nat.div_add_mod (e / 2 ^ (ebi - w')) (2 ^ w')
    rw [Nat.div_div_eq_div_mul, ← pow_add] at h
    have : ebi - w' + w' = ebi := by omega
    rw [this, ← hb] at h
    rw [← h]; ring
  rw [pow_add, ← Nat.div_div_eq_div_mul, hE, hc1]
  have hw : 2 ^ w' = 2 ^ c * 2 ^ (w' - c) := by rw [← pow_add]; congr 1; omega
  rw [hw]
  have : e / 2 ^ ebi * (2 ^ c * 2 ^ (w' - c)) + 2 ^ c * od = 2 ^ c * (e / 2 ^ ebi * 2 ^ (w' - c) + od) := by ring
  rw [this, Nat.mul_div_cancel_left _ (two_pow_pos c)]


/-! ### the sliding window, for any arithmetic related to exponents by `Rel r k` ("r represents b^k") -/

section Window
variable {α : Type} (sqr : α → α) (mul : α → α → α) (table : Nat → α) (Rel : α → Nat → Prop)

theorem sqrDo_rel (hsqr : ∀ r k, Rel r k → Rel (sqr r) (2 * k)) :
    ∀ (tw : Nat) (r : α) (k : Nat), 1 ≤ tw → Rel r k → Rel (sqrDo sqr tw r) (k * 2 ^ tw)
  | 0, _, _, h, _ => by omega
  | 1, r, k, _, hr => by
    have := hsqr r k hr
    simpa [sqrDo, Nat.mul_comm] using this
  | tw + 2, r, k, _, hr => by
    have := sqrDo_rel hsqr (tw + 1) (sqr r) (2 * k) (by omega) (hsqr r k hr)
    have e : 2 * k * 2 ^ (tw + 1) = k * 2 ^ (tw + 2) := by rw [pow_succ 2 (tw + 1)]; ring
    rw [e] at this
    simpa [sqrDo] using this

/-- what one window contributes, in the shape the model's `let`s have. -/
theorem window_step (ep : List Nat) (hl : Limbs ep) (w ebi : Nat) (hw : 1 ≤ w) (hw63 : w ≤ 63) (hebi : 1 ≤ ebi)
    (hbit : (val ep / 2 ^ (ebi - 1)) % 2 = 1) :
    let expbits := getbits ep ebi w
    let tw := if ebi < w then w - (w - ebi) else w
    let lo := if ebi < w then 0 else ebi - w
    let cnt := ctz expbits
    1 ≤ tw - cnt ∧ lo + cnt < ebi ∧ (expbits >>> cnt) >>> 1 < 2 ^ (w - 1) ∧
    val ep / 2 ^ (lo + cnt) = (val ep / 2 ^ ebi) * 2 ^ (tw - cnt) + (2 * ((expbits >>> cnt) >>> 1) + 1) := by
  intro expbits tw lo cnt
  show 1 ≤ tw - ctz expbits ∧ lo + ctz expbits < ebi ∧ (expbits >>> ctz expbits) >>> 1 < 2 ^ (w - 1) ∧
    val ep / 2 ^ (lo + ctz expbits) =
      (val ep / 2 ^ ebi) * 2 ^ (tw - ctz expbits) + (2 * ((expbits >>> ctz expbits) >>> 1) + 1)
  have hexp : expbits = getbits ep ebi w := rfl
  clear_value expbits
  have hgb := getbits_spec ep hl ebi w hw63
  by_cases hlt : ebi < w
  · have htw : tw = ebi := by simp only [tw, hlt, if_true]; omega
    have hlo : lo = ebi - ebi := by simp only [lo, hlt, if_true]; omega
    have hb : expbits = (val ep / 2 ^ (ebi - ebi)) % 2 ^ ebi := by
      rw [hexp, hgb]; simp only [hlt, if_true, Nat.sub_self, pow_zero, Nat.div_one]
    obtain ⟨h1, h2, h3, h4⟩ := window_extract' (val ep) ebi ebi hebi (by omega) (le_refl _) hbit expbits hb
    rw [htw, hlo]
    refine ⟨by omega, by omega, ?_, ?_⟩
    · rw [Nat.shiftRight_eq_div_pow _ 1, pow_one]
      have : 2 ^ ebi ≤ 2 ^ w := Nat.pow_le_pow_right (by decide) (by omega)
      have hw' : 2 ^ w = 2 * 2 ^ (w - 1) := by rw [← pow_succ']; congr 1; omega
      omega
    · rw [h4, Nat.shiftRight_eq_div_pow _ 1, pow_one]; omega
  · have htw : tw = w := by simp only [tw, hlt, if_false]
    have hlo : lo = ebi - w := by simp only [lo, hlt, if_false]
    have hb : expbits = (val ep / 2 ^ (ebi - w)) % 2 ^ w := by
      rw [hexp, hgb]; simp only [hlt, if_false]
    obtain ⟨h1, h2, h3, h4⟩ := window_extract' (val ep) ebi w hw hw63 (by omega) hbit expbits hb
    rw [htw, hlo]
    refine ⟨by omega, by omega, ?_, ?_⟩
    · rw [Nat.shiftRight_eq_div_pow _ 1, pow_one]
      have hw' : 2 ^ w = 2 * 2 ^ (w - 1) := by rw [← pow_succ']; congr 1; omega
      omega
    · rw [h4, Nat.shiftRight_eq_div_pow _ 1, pow_one]; omega

theorem windowLoop_rel (ep : List Nat) (hl : Limbs ep) (w : Nat) (hw : 1 ≤ w) (hw63 : w ≤ 63)
    (hsqr : ∀ r k, Rel r k → Rel (sqr r) (2 * k))
    (hmul : ∀ r k i, i < 2 ^ (w - 1) → Rel r k → Rel (mul r (table i)) (k + (2 * i + 1))) :
    ∀ (fuel : Nat) (r : α) (ebi : Nat), ebi < fuel → Rel r (val ep / 2 ^ ebi) →
      Rel (windowLoop sqr mul table ep w fuel r ebi) (val ep)
  | 0, _, _, h, _ => by omega
  | fuel + 1, r, ebi, hf, hr => by
    unfold windowLoop
    by_cases h0 : ebi = 0
    · simpa [h0] using hr
    · simp only [h0, if_false]
      have hhalf : val ep / 2 ^ ebi = val ep / 2 ^ (ebi - 1) / 2 := by
        rw [Nat.div_div_eq_div_mul, ← pow_succ]; congr 2; omega
      by_cases hb : getbit ep ebi = 0
      · simp only [hb, if_true]
        apply windowLoop_rel ep hl w hw hw63 hsqr hmul fuel _ _ (by omega)
        rw [getbit_spec ep hl] at hb
        have : val ep / 2 ^ (ebi - 1) = 2 * (val ep / 2 ^ ebi) := by omega
        rw [this]; exact hsqr _ _ hr
      · simp only [hb, if_false]
        have hbit : (val ep / 2 ^ (ebi - 1)) % 2 = 1 := by
          rw [getbit_spec ep hl] at hb; omega
        obtain ⟨h1, h2, h3, h4⟩ := window_step ep hl w ebi hw hw63 (by omega) hbit
        apply windowLoop_rel ep hl w hw hw63 hsqr hmul fuel _ _ (by omega)
        rw [h4]
        exact hmul _ _ _ h3 (sqrDo_rel sqr Rel hsqr _ _ _ h1 hr)

/-- The whole recoding (first window + INNERLOOP): if the table holds the odd powers and the
    arithmetic respects `Rel`, the result represents `b^e`, `e = val ep`. -/
theorem windowExp_rel (ep : List Nat) (hl : Limbs ep) (hne : ep ≠ []) (htop : ep.getLast hne ≠ 0)
    (w : Nat) (hw : 1 ≤ w) (hw63 : w ≤ 63)
    (hsqr : ∀ r k, Rel r k → Rel (sqr r) (2 * k))
    (hmul : ∀ r k i, i < 2 ^ (w - 1) → Rel r k → Rel (mul r (table i)) (k + (2 * i + 1)))
    (htab : ∀ i, i < 2 ^ (w - 1) → Rel (table i) (2 * i + 1)) :
    Rel (windowExp sqr mul table ep (sizeinbase2 ep) w) (val ep) := by
  obtain ⟨hs1, hs2, hs3⟩ := sizeinbase2_spec ep hl hne htop
  generalize sizeinbase2 ep = ebi at *
  have hbit : (val ep / 2 ^ (ebi - 1)) % 2 = 1 := by
    have h2 : 2 ^ ebi = 2 ^ (ebi - 1) * 2 := by rw [← pow_succ]; congr 1; omega
    have : val ep / 2 ^ (ebi - 1) = 1 := by
      apply Nat.div_eq_of_lt_le <;> omega
    rw [this]
  obtain ⟨h1, h2, h3, h4⟩ := window_step ep hl w ebi hw hw63 hs1 hbit
  have hz : val ep / 2 ^ ebi = 0 := Nat.div_eq_of_lt hs3
  rw [hz, Nat.zero_mul, Nat.zero_add] at h4
  unfold windowExp windowInit
  simp only
  apply windowLoop_rel sqr mul table Rel ep hl w hw hw63 hsqr hmul _ _ _ (by omega)
  rw [h4]
  exact htab _ h3

end Window


/-! ### mpn_sub (kernel model)

Note: these are proved with the `induction` tactic, not by equation-compiler recursion: a recursive
theorem whose statement mentions `u + B - v` makes the kernel unfold `u + 2^64` when it checks the
structural recursion. -/

theorem subNC_cons (u v cy : Nat) (us vs : List Nat) :
    subNC (u :: us) (v :: vs) cy =
      ((((u + B - v) % B + B - cy) % B) :: (subNC us vs (boolToNat (decide ((u + B - v) % B > u)) ||| boolToNat (decide (((u + B - v) % B + B - cy) % B > (u + B - v) % B)))).1,
       (subNC us vs (boolToNat (decide ((u + B - v) % B > u)) ||| boolToNat (decide (((u + B - v) % B + B - cy) % B > (u + B - v) % B)))).2) := by
  rw [subNC]

/-- one limb of sub_n: the C's borrow tests compute the true borrow -/
theorem sub_limb (u v cy : Nat) (hu : u < B) (hv : v < B) (hc : cy ≤ 1) :
    ((u + B - v) % B + B - cy) % B + v + cy
      = u + B * (boolToNat (decide ((u + B - v) % B > u)) ||| boolToNat (decide (((u + B - v) % B + B - cy) % B > (u + B - v) % B))) ∧
    (boolToNat (decide ((u + B - v) % B > u)) ||| boolToNat (decide (((u + B - v) % B + B - cy) % B > (u + B - v) % B))) ≤ 1 ∧
    ((u + B - v) % B + B - cy) % B < B := by
  rw [lor_bool]
  simp only [B_eq] at *
  split <;> omega

theorem subNC_val (u : List Nat) : ∀ (v : List Nat) (cy : Nat), Limbs u → Limbs v → u.length = v.length → cy ≤ 1 →
    val (subNC u v cy).1 + val v + cy = val u + B ^ u.length * (subNC u v cy).2 ∧
    (subNC u v cy).2 ≤ 1 ∧ Limbs (subNC u v cy).1 ∧ (subNC u v cy).1.length = u.length := by
  induction u with
  | nil =>
    intro v cy _ _ hl hc
    cases v with
    | nil => simp [subNC, hc, Limbs_nil]
    | cons _ _ => simp at hl
  | cons u us ih =>
    intro v cy hu hv hl hc
    cases v with
    | nil => simp at hl
    | cons v vs =>
      have ⟨hu0, hus⟩ := Limbs_cons.mp hu
      have ⟨hv0, hvs⟩ := Limbs_cons.mp hv
      have ⟨e, c1, r1⟩ := sub_limb u v cy hu0 hv0 hc
      obtain ⟨ihv, ihc, ihl, ihn⟩ := ih vs _ hus hvs (by simpa using hl) c1
      rw [subNC_cons]
      simp only [val_cons, List.length_cons, pow_succ]
      refine ⟨?_, ihc, Limbs_cons.mpr ⟨r1, ihl⟩, by rw [ihn]⟩
      generalize (boolToNat (decide ((u + B - v) % B > u)) ||| boolToNat (decide (((u + B - v) % B + B - cy) % B > (u + B - v) % B))) = c at *
      generalize ((u + B - v) % B + B - cy) % B = rl at *
      generalize (subNC us vs c) = res at *
      have h2 : B * (val res.1 + val vs + c) = B * (val us + B ^ us.length * res.2) := by rw [ihv]
      linarith [h2, e]

theorem decr_cons (x : Nat) (xs : List Nat) :
    decr (x :: xs) = if x < 1 then ((x + B - 1) % B :: (decr xs).1, (decr xs).2) else ((x + B - 1) % B :: xs, 0) := by
  rw [decr]

theorem decr_val (x : List Nat) : Limbs x →
    val (decr x).1 + 1 = val x + B ^ x.length * (decr x).2 ∧ (decr x).2 ≤ 1 ∧
    Limbs (decr x).1 ∧ (decr x).1.length = x.length := by
  induction x with
  | nil => intro _; simp [decr, Limbs_nil]
  | cons x xs ih =>
    intro h
    have ⟨hx, hxs⟩ := Limbs_cons.mp h
    rw [decr_cons]
    by_cases h0 : x < 1
    · have hx0 : x = 0 := by omega
      subst hx0
      obtain ⟨iv, ic, il, iln⟩ := ih hxs
      simp only [Nat.lt_one_iff, if_true, val_cons, List.length_cons, pow_succ]
      have hm : (0 + B - 1) % B = B - 1 := by simp only [B_eq]
      rw [hm]
      refine ⟨?_, ic, Limbs_cons.mpr ⟨by have := B_pos; omega, il⟩, by rw [iln]⟩
      have hB := B_pos
      generalize decr xs = res at *
      have h2 : B * (val res.1 + 1) = B * (val xs + B ^ xs.length * res.2) := by rw [iv]
      have h3 : B - 1 + 1 = B := by omega
      linarith [h2, h3]
    · simp only [h0, if_false, val_cons, List.length_cons]
      have hm : (x + B - 1) % B = x - 1 := by simp only [B_eq] at *; omega
      rw [hm]
      exact ⟨by omega, by omega, Limbs_cons.mpr ⟨by omega, hxs⟩, by simp⟩

/-- mpn_sub (xsize ≥ ysize): value identity with the returned borrow. -/
theorem sub_val (x y : List Nat) (hx : Limbs x) (hy : Limbs y) (hlen : y.length ≤ x.length) :
    val (sub x y).1 + val y = val x + B ^ x.length * (sub x y).2 ∧ (sub x y).2 ≤ 1 ∧
    Limbs (sub x y).1 ∧ (sub x y).1.length = x.length := by
  have htl : (x.take y.length).length = y.length := by rw [List.length_take]; omega
  obtain ⟨sv, sc, sl, sn⟩ := subNC_val (x.take y.length) y 0 (Limbs_take hx _) hy htl (by omega)
  have hsplit := val_take_drop x y.length hlen
  have hdl : (x.drop y.length).length = x.length - y.length := List.length_drop
  rw [htl] at sv sn
  have hp : B ^ x.length = B ^ y.length * B ^ (x.length - y.length) := by
    rw [← pow_add]; congr 1; omega
  have hdef : sub x y = if (subNC (x.take y.length) y 0).2 != 0
      then ((subNC (x.take y.length) y 0).1 ++ (decr (x.drop y.length)).1, (decr (x.drop y.length)).2)
      else ((subNC (x.take y.length) y 0).1 ++ x.drop y.length, 0) := by
    unfold sub sub_n; rfl
  rw [hdef]
  generalize subNC (x.take y.length) y 0 = lo at *
  obtain ⟨lo1, cy⟩ := lo
  simp only at sv sc sl sn ⊢
  by_cases hc : cy = 0
  · subst hc
    have hif : ((0 : Nat) != 0) = false := rfl
    simp only [hif, Bool.false_eq_true, if_false, val_append, sn]
    refine ⟨by omega, by omega, Limbs_append.mpr ⟨sl, Limbs_drop hx _⟩, ?_⟩
    rw [List.length_append, sn, hdl]; omega
  · have hc1 : cy = 1 := by omega
    subst hc1
    obtain ⟨dv, dc, dl, dn⟩ := decr_val (x.drop y.length) (Limbs_drop hx _)
    generalize decr (x.drop y.length) = hi at *
    obtain ⟨hi1, c⟩ := hi
    have hif : ((1 : Nat) != 0) = true := rfl
    simp only [hif, if_true, val_append, sn] at dv dc dl dn ⊢
    refine ⟨?_, dc, Limbs_append.mpr ⟨sl, dl⟩, ?_⟩
    · rw [hdl] at dv
      rw [hp]
      generalize B ^ y.length = P at *
      generalize B ^ (x.length - y.length) = Q at *
      have h2 : P * (val hi1 + 1) = P * (val (x.drop y.length) + Q * c) := by rw [dv]
      linarith [sv, h2, hsplit]
    · rw [List.length_append, sn, dn, hdl]; omega

/-- mpn_sub with `y ≤ x`: no borrow, the result is the difference. -/
theorem sub_exact (x y : List Nat) (hx : Limbs x) (hy : Limbs y) (hlen : y.length ≤ x.length)
    (hle : val y ≤ val x) :
    val (sub x y).1 = val x - val y ∧ Limbs (sub x y).1 ∧ (sub x y).1.length = x.length := by
  obtain ⟨hv, hc, hl, hn⟩ := sub_val x y hx hy hlen
  refine ⟨?_, hl, hn⟩
  have hlt := val_lt _ hl
  rw [hn] at hlt
  have hxl := val_lt x hx
  by_cases h0 : (sub x y).2 = 0
  · rw [h0] at hv; omega
  · have h1 : (sub x y).2 = 1 := by omega
    rw [h1] at hv; omega


/-! ### natLimbs, toLimbs, normal form -/

theorem natLimbs_zero : natLimbs 0 = [] := by rw [natLimbs]; simp

theorem natLimbs_pos (v : Nat) (h : v ≠ 0) : natLimbs v = v % B :: natLimbs (v / B) := by
  rw [natLimbs]; simp [h]

theorem natLimbs_eq_nil (v : Nat) : natLimbs v = [] ↔ v = 0 := by
  constructor
  · intro h; by_contra h0; rw [natLimbs_pos v h0] at h; simp at h
  · intro h; rw [h, natLimbs_zero]

theorem val_natLimbs (v : Nat) : val (natLimbs v) = v := by
  induction v using Nat.strong_induction_on with
  | _ v ih =>
    by_cases h : v = 0
    · rw [h, natLimbs_zero]; rfl
    · rw [natLimbs_pos v h, val_cons, ih (v / B) (Nat.div_lt_self (Nat.pos_of_ne_zero h) (by decide))]
      exact Nat.mod_add_div v B

theorem Limbs_natLimbs (v : Nat) : Limbs (natLimbs v) := by
  induction v using Nat.strong_induction_on with
  | _ v ih =>
    by_cases h : v = 0
    · rw [h, natLimbs_zero]; exact Limbs_nil
    · rw [natLimbs_pos v h]
      exact Limbs_cons.mpr ⟨Nat.mod_lt _ B_pos, ih (v / B) (Nat.div_lt_self (Nat.pos_of_ne_zero h) (by decide))⟩

/-- normal form of an mpz limb vector: proper limbs, top limb non-zero. -/
def Norm (l : List Nat) : Prop := Limbs l ∧ ∀ h : l ≠ [], l.getLast h ≠ 0

theorem Norm_natLimbs (v : Nat) : Norm (natLimbs v) := by
  refine ⟨Limbs_natLimbs v, ?_⟩
  induction v using Nat.strong_induction_on with
  | _ v ih =>
    intro hne
    have h : v ≠ 0 := fun h0 => hne ((natLimbs_eq_nil v).mpr h0)
    have hlt : v / B < v := Nat.div_lt_self (Nat.pos_of_ne_zero h) (by decide)
    simp only [natLimbs_pos v h]
    by_cases hq : v / B = 0
    · have hnil : natLimbs (v / B) = [] := (natLimbs_eq_nil _).mpr hq
      simp only [hnil, List.getLast_singleton]
      have : v < B := by
        by_contra hge
        have := Nat.div_pos (Nat.le_of_not_lt hge) B_pos
        omega
      rw [Nat.mod_eq_of_lt this]; exact h
    · have hne' : natLimbs (v / B) ≠ [] := fun h0 => hq ((natLimbs_eq_nil _).mp h0)
      rw [List.getLast_cons hne']
      exact ih (v / B) hlt hne'

/-- a non-empty normal-form vector of `n` limbs is at least `B^(n-1)`. -/
theorem Norm_ge (l : List Nat) (hn : Norm l) (hne : l ≠ []) : B ^ (l.length - 1) ≤ val l := by
  have htop := hn.2 hne
  have hdec := List.dropLast_concat_getLast hne
  generalize l.getLast hne = top at *
  generalize l.dropLast = ini at *
  subst hdec
  rw [val_append]
  simp only [List.length_append, List.length_singleton, Nat.add_sub_cancel, val_cons, val_nil, Nat.mul_zero, Nat.add_zero]
  have : B ^ ini.length * 1 ≤ B ^ ini.length * top := Nat.mul_le_mul_left _ (by omega)
  omega

theorem Norm_pos (l : List Nat) (hn : Norm l) (hne : l ≠ []) : 0 < val l :=
  lt_of_lt_of_le (Nat.pow_pos B_pos) (Norm_ge l hn hne)

theorem toLimbs_length : ∀ (n v : Nat), (toLimbs n v).length = n
  | 0, _ => rfl
  | n + 1, v => by simp [toLimbs, toLimbs_length n]

theorem Limbs_toLimbs : ∀ (n v : Nat), Limbs (toLimbs n v)
  | 0, _ => Limbs_nil
  | n + 1, v => by
    unfold toLimbs
    exact Limbs_cons.mpr ⟨Nat.mod_lt _ B_pos, Limbs_toLimbs n _⟩

theorem val_toLimbs : ∀ (n v : Nat), val (toLimbs n v) = v % B ^ n
  | 0, v => by simp [toLimbs, Nat.mod_one]
  | n + 1, v => by
    unfold toLimbs
    rw [val_cons, val_toLimbs n, pow_succ', Nat.mod_mul, Nat.add_comm]

theorem val_toLimbs_lt (n v : Nat) (h : v < B ^ n) : val (toLimbs n v) = v := by
  rw [val_toLimbs, Nat.mod_eq_of_lt h]

/-! ### MPN_NORMALIZE -/

theorem val_take_succ (p : List Nat) (n : Nat) :
    val (p.take (n + 1)) = val (p.take n) + B ^ n * p.getD n 0 := by
  induction p generalizing n with
  | nil => simp
  | cons x xs ih =>
    cases n with
    | zero => simp
    | succ k =>
      simp only [List.take_succ_cons, val_cons, List.getD_cons_succ]
      rw [ih k, pow_succ]; ring

theorem mpnNormalize_le (p : List Nat) : ∀ n, mpnNormalize p n ≤ n
  | 0 => by simp [mpnNormalize]
  | n + 1 => by
    unfold mpnNormalize
    split
    · exact Nat.le_succ_of_le (mpnNormalize_le p n)
    · exact le_refl _

/-- the size MPN_NORMALIZE leaves has a non-zero top limb (or is zero). -/
theorem mpnNormalize_top (p : List Nat) : ∀ n, mpnNormalize p n ≠ 0 → p.getD (mpnNormalize p n - 1) 0 ≠ 0
  | 0 => by simp [mpnNormalize]
  | n + 1 => by
    unfold mpnNormalize
    split
    · exact mpnNormalize_top p n
    · intro _; simpa using ‹¬p.getD n 0 = 0›

/-- MPN_NORMALIZE does not change the value. -/
theorem mpnNormalize_val (p : List Nat) : ∀ n, val (p.take (mpnNormalize p n)) = val (p.take n)
  | 0 => by simp [mpnNormalize]
  | n + 1 => by
    unfold mpnNormalize
    split
    · rename_i h0
      rw [mpnNormalize_val p n, val_take_succ, h0]; simp
    · rfl

theorem mpnNormalize_eq_zero (p : List Nat) (n : Nat) (h : mpnNormalize p n = 0) : val (p.take n) = 0 := by
  rw [← mpnNormalize_val p n, h]; rfl

theorem getD_ne_zero_lt (p : List Nat) (i : Nat) (h : p.getD i 0 ≠ 0) : i < p.length := by
  by_contra hge
  rw [List.getD_eq_getElem?_getD, List.getElem?_eq_none (by omega)] at h
  exact h rfl

/-- whatever vector `rp`, the pair `(rp, MPN_NORMALIZE (rp, n))` is a well-formed result. -/
theorem wf_normalize (rp : List Nat) (n : Nat) : (Res.mk rp (mpnNormalize rp n)).wf = true := by
  unfold Res.wf
  by_cases h0 : mpnNormalize rp n = 0
  · simp [h0]
  · have ht := mpnNormalize_top rp n h0
    have hl := getD_ne_zero_lt rp _ ht
    simp only [Bool.or_eq_true, beq_iff_eq, Bool.and_eq_true, decide_eq_true_eq, bne_iff_ne, ne_eq]
    exact Or.inr ⟨by omega, ht⟩


/-! ### the early `b^1 mod m` path of mpz_powm -/

theorem neg_emod_nat (b m : Nat) (hm : 0 < m) :
    (-(b : Int)) % (m : Int) = if b % m = 0 then 0 else ((m - b % m : Nat) : Int) := by
  have hb : (b : Int) = (m : Int) * ((b / m : Nat) : Int) + ((b % m : Nat) : Int) := by
    exact_mod_cast (Nat.div_add_mod b m).symm
  have hr : b % m < m := Nat.mod_lt _ hm
  generalize b / m = q at *
  generalize b % m = r at *
  by_cases h0 : r = 0
  · subst h0
    simp only [if_true, hb, Nat.cast_zero, add_zero]
    rw [← mul_neg, Int.mul_emod_right]
  · simp only [h0, if_false]
    have e : -(b : Int) = ((m - r : Nat) : Int) + (m : Int) * (-(q : Int) - 1) := by
      rw [hb, Nat.cast_sub (le_of_lt hr)]; ring
    rw [e, Int.add_mul_emod_self_left]
    apply Int.emod_eq_of_lt
    · exact Int.natCast_nonneg _
    · exact_mod_cast (by omega : m - r < m)

theorem val_take_pos_of_getD (p : List Nat) (i : Nat) (h : p.getD i 0 ≠ 0) : 0 < val (p.take (i + 1)) := by
  rw [val_take_succ]
  have : 0 < B ^ i * p.getD i 0 := Nat.mul_pos (Nat.pow_pos B_pos) (Nat.pos_of_ne_zero h)
  omega

theorem take_length_eq (p : List Nat) (n : Nat) (h : p.length = n) : p.take n = p := by
  rw [← h]; exact List.take_length

/-- value of `{rp, MPN_NORMALIZE (rp, n)}` when `rp` has exactly `n` limbs. -/
theorem normalize_val_full (rp : List Nat) (n : Nat) (h : rp.length = n) :
    val (rp.take (mpnNormalize rp n)) = val rp := by
  rw [mpnNormalize_val, take_length_eq rp n h]

/-- powm.c:118-151.  For a base `{bp,bn}` and modulus `{mp,n}` in normal form (both non-zero) the early
    path returns a well-formed object whose value is `(±b) mod m` in `[0,m)`. -/
theorem powmE1_correct (bneg : Bool) (bp mp : List Nat) (hb : Norm bp) (hbne : bp ≠ []) (hm : Norm mp)
    (hmne : mp ≠ []) :
    (Res.mk (powmE1 bneg bp mp).1 (powmE1 bneg bp mp).2).wf = true ∧
    ((val ((powmE1 bneg bp mp).1.take (powmE1 bneg bp mp).2) : Nat) : Int)
      = (if bneg then -(val bp : Int) else (val bp : Int)) % (val mp : Int) := by
  have hmpos : 0 < val mp := Norm_pos mp hm hmne
  have hbpos : 0 < val bp := Norm_pos bp hb hbne
  have hmlt := val_lt mp hm.1
  unfold powmE1
  simp only
  by_cases hge : bp.length ≥ mp.length
  · simp only [hge, if_true]
    -- the remainder vector
    have hr0 : val bp % val mp < B ^ mp.length := lt_trans (Nat.mod_lt _ hmpos) hmlt
    have hrl : (toLimbs mp.length (val bp % val mp)).length = mp.length := toLimbs_length _ _
    have hrv : val (toLimbs mp.length (val bp % val mp)) = val bp % val mp := val_toLimbs_lt _ _ hr0
    have hrL := Limbs_toLimbs mp.length (val bp % val mp)
    generalize toLimbs mp.length (val bp % val mp) = rp at *
    have hnv := normalize_val_full rp mp.length hrl
    by_cases hc : (bneg && mpnNormalize rp mp.length != 0) = true
    · simp only [hc, if_true]
      simp only [Bool.and_eq_true, bne_iff_ne, ne_eq] at hc
      obtain ⟨hneg, hrn⟩ := hc
      have hle : val (rp.take (mpnNormalize rp mp.length)) ≤ val mp := by
        rw [hnv, hrv]; exact le_of_lt (Nat.mod_lt _ hmpos)
      have hlen : (rp.take (mpnNormalize rp mp.length)).length ≤ mp.length := by
        rw [List.length_take]; exact le_trans (Nat.min_le_left _ _) (mpnNormalize_le _ _)
      obtain ⟨sv, sl, sn⟩ := sub_exact mp _ hm.1 (Limbs_take hrL _) hlen hle
      refine ⟨wf_normalize _ _, ?_⟩
      rw [normalize_val_full _ _ sn, sv, hnv, hrv, hneg]
      simp only [if_true]
      rw [neg_emod_nat _ _ hmpos]
      have hpos : 0 < val (rp.take (mpnNormalize rp mp.length)) := by
        have := val_take_pos_of_getD rp _ (mpnNormalize_top rp mp.length hrn)
        have e : mpnNormalize rp mp.length - 1 + 1 = mpnNormalize rp mp.length := by omega
        rwa [e] at this
      rw [hnv, hrv] at hpos
      simp only [Nat.ne_of_gt hpos, if_false]
    · simp only [hc, Bool.false_eq_true, if_false]
      refine ⟨wf_normalize _ _, ?_⟩
      rw [hnv, hrv]
      cases bneg with
      | false => simp only [Bool.false_eq_true, if_false]; exact Int.natCast_mod _ _
      | true =>
        simp only [Bool.true_and, bne_iff_ne, ne_eq, Decidable.not_not] at hc
        have hz := mpnNormalize_eq_zero rp mp.length hc
        rw [take_length_eq rp _ hrl, hrv] at hz
        simp only [if_true]
        rw [neg_emod_nat _ _ hmpos, hz]; simp
  · simp only [hge, if_false]
    have hlt : bp.length < mp.length := by omega
    -- a shorter base in normal form is smaller than the modulus
    have hbm : val bp < val mp := by
      have h1 := val_lt bp hb.1
      have h2 := Norm_ge mp hm hmne
      have h3 : B ^ bp.length ≤ B ^ (mp.length - 1) := Nat.pow_le_pow_right B_pos (by omega)
      omega
    cases bneg with
    | true =>
      simp only [if_true]
      obtain ⟨sv, sl, sn⟩ := sub_exact mp bp hm.1 hb.1 (le_of_lt hlt) (le_of_lt hbm)
      refine ⟨wf_normalize _ _, ?_⟩
      rw [normalize_val_full _ _ sn, sv, neg_emod_nat _ _ hmpos, Nat.mod_eq_of_lt hbm]
      simp only [Nat.ne_of_gt hbpos, if_false]
    | false =>
      simp only [Bool.false_eq_true, if_false]
      have hbl : 0 < bp.length := List.length_pos_of_ne_nil hbne
      refine ⟨?_, ?_⟩
      · unfold Res.wf
        have hlast : (bp ++ zeros (mp.length - bp.length)).getD (bp.length - 1) 0 = bp.getLast hbne := by
          rw [List.getD_eq_getElem?_getD, List.getElem?_append_left (by omega), List.getLast_eq_getElem]
          simp [List.getElem?_eq_getElem (show bp.length - 1 < bp.length by omega)]
        simp only [Bool.or_eq_true, beq_iff_eq, Bool.and_eq_true, decide_eq_true_eq, bne_iff_ne, ne_eq]
        refine Or.inr ⟨by simp, ?_⟩
        rw [hlast]; exact hb.2 hbne
      · rw [List.take_left' rfl]
        rw [Int.emod_eq_of_lt (Int.natCast_nonneg _) (by exact_mod_cast hbm)]


/-! ### mpz_powm: well-formedness on every path, and the paths that do not reach mpn_powm -/

theorem powmMain_wf (bneg : Bool) (bp ep mp : List Nat) :
    (Res.mk (powmMain bneg bp ep mp).1 (powmMain bneg bp ep mp).2).wf = true := by
  unfold powmMain
  simp only
  split_ifs <;> exact wf_normalize _ _

theorem natLimbs_length_eq_zero (v : Nat) : (natLimbs v).length = 0 ↔ v = 0 := by
  rw [List.length_eq_zero_iff, natLimbs_eq_nil]

/-- `n == 1 && mp[0] == 1` recognises `|m| = 1`. -/
theorem natLimbs_is_one (v : Nat) :
    ((natLimbs v).length != 1 || (natLimbs v).headD 0 != 1) = true ↔ v ≠ 1 := by
  constructor
  · intro h h1
    subst h1
    have : natLimbs 1 = [1] := by
      rw [natLimbs_pos 1 (by decide)]
      have : (1 : Nat) / B = 0 := by simp [B_eq]
      rw [this, natLimbs_zero]; simp [B_eq]
    rw [this] at h; simp at h
  · intro h1
    by_contra hc
    simp only [Bool.or_eq_true, bne_iff_ne, ne_eq, not_or, Decidable.not_not] at hc
    obtain ⟨hl, hh⟩ := hc
    have hv := val_natLimbs v
    match hm : natLimbs v, hl, hh with
    | [x], _, hh =>
      rw [hm] at hv
      simp at hh hv
      omega

theorem modInv_zero (m : Nat) (hm : m ≠ 1) : modInv? 0 m = none := by
  have h : xgcdAux 0 1 m 0 = (m, 0) := by rw [xgcdAux.eq_def]
  unfold modInv?
  simp [h, hm]


/-! ### CRT recombination for even moduli -/

theorem coprime_two_pow_odd (t modd : Nat) (hodd : modd % 2 = 1) : Nat.Coprime (2 ^ t) modd := by
  apply Nat.Coprime.pow_left
  rw [Nat.Coprime, Nat.gcd_rec, hodd]; simp

/-- The CRT recombination of mpz_powm (powm.c:245-264), on values.
    `N = B^ncnt` is the precision of the power-of-two side, `2^t ∣ N`; `inv·modd ≡ 1 (mod N)`;
    `d ≡ r2 − rodd (mod N)`; `x = (inv·d mod N) mod 2^t`; the result `x·modd + rodd` is `P mod 2^t·modd`
    whenever `rodd = P mod modd` and `r2 ≡ P (mod 2^t)`. -/
theorem crt_value (P modd t N inv r2 rodd d : Nat) (hodd : modd % 2 = 1) (hN : 2 ^ t ∣ N)
    (hinv : (inv * modd) % N = 1 % N) (hrodd : rodd = P % modd) (hr2 : r2 % 2 ^ t = P % 2 ^ t)
    (hd : (d + rodd % N) % N = r2 % N) :
    (inv * d) % N % 2 ^ t * modd + rodd = P % (2 ^ t * modd) := by
  have hmpos : 0 < modd := by omega
  have htpos : 0 < 2 ^ t := two_pow_pos t
  set x := (inv * d) % N % 2 ^ t with hx
  have hxlt : x < 2 ^ t := Nat.mod_lt _ htpos
  have hrlt : rodd < modd := by rw [hrodd]; exact Nat.mod_lt _ hmpos
  -- range
  have hlt : x * modd + rodd < 2 ^ t * modd := by
    have : (x + 1) * modd ≤ 2 ^ t * modd := Nat.mul_le_mul_right _ hxlt
    have e : (x + 1) * modd = x * modd + modd := by ring
    omega
  -- congruence modulo modd
  have h1 : x * modd + rodd ≡ P [MOD modd] := by
    unfold Nat.ModEq
    rw [Nat.add_comm, Nat.add_mul_mod_self_right, hrodd, Nat.mod_mod]
  -- congruence modulo 2^t
  have h2 : x * modd + rodd ≡ P [MOD 2 ^ t] := by
    have hxe : x ≡ inv * d [MOD 2 ^ t] := by
      rw [hx]
      exact (Nat.mod_modEq _ _).trans ((Nat.mod_modEq _ N).of_dvd hN)
    have hinv' : inv * modd ≡ 1 [MOD 2 ^ t] := by
      have : inv * modd ≡ 1 [MOD N] := hinv
      exact this.of_dvd hN
    have hd' : d + rodd ≡ r2 [MOD 2 ^ t] := by
      have h0 : d + rodd % N ≡ r2 [MOD N] := hd
      have h3 : d + rodd % N ≡ d + rodd [MOD N] := Nat.ModEq.add_left d (Nat.mod_modEq _ _)
      exact (h3.symm.trans h0).of_dvd hN
    have hr2' : r2 ≡ P [MOD 2 ^ t] := hr2
    calc x * modd + rodd ≡ inv * d * modd + rodd [MOD 2 ^ t] := (hxe.mul_right modd).add_right rodd
      _ = (inv * modd) * d + rodd := by ring
      _ ≡ 1 * d + rodd [MOD 2 ^ t] := (hinv'.mul_right d).add_right rodd
      _ = d + rodd := by ring
      _ ≡ r2 [MOD 2 ^ t] := hd'
      _ ≡ P [MOD 2 ^ t] := hr2'
  have h3 : x * modd + rodd ≡ P [MOD 2 ^ t * modd] :=
    (Nat.modEq_and_modEq_iff_modEq_mul (coprime_two_pow_odd t modd hodd)).1 ⟨h2, h1⟩
  have h4 : x * modd + rodd ≡ P % (2 ^ t * modd) [MOD 2 ^ t * modd] := h3.trans (Nat.mod_modEq _ _).symm
  exact h4.eq_of_lt_of_lt hlt (Nat.mod_lt _ (Nat.mul_pos htpos hmpos))


/-! ### mpn_add (kernel model) -/

theorem incr_val (x : List Nat) : Limbs x →
    val (incr x).1 + B ^ x.length * (incr x).2 = val x + 1 ∧ (incr x).2 ≤ 1 ∧
    Limbs (incr x).1 ∧ (incr x).1.length = x.length := by
  induction x with
  | nil => intro _; simp [incr, Limbs_nil]
  | cons x xs ih =>
    intro h
    have ⟨hx, hxs⟩ := Limbs_cons.mp h
    unfold incr
    by_cases h0 : (x + 1) % B < 1
    · have hx0 : x = B - 1 := by simp only [B_eq] at *; omega
      obtain ⟨iv, ic, il, iln⟩ := ih hxs
      have hm : (x + 1) % B = 0 := by omega
      simp only [hm, show (0 : Nat) < 1 by decide, if_true, val_cons, List.length_cons, pow_succ]
      refine ⟨?_, ic, Limbs_cons.mpr ⟨B_pos, il⟩, by rw [iln]⟩
      have hB := B_pos
      generalize incr xs = res at *
      have h2 : B * (val res.1 + B ^ xs.length * res.2) = B * (val xs + 1) := by rw [iv]
      have h3 : x + 1 = B := by omega
      linarith [h2, h3]
    · simp only [h0, if_false, val_cons, List.length_cons]
      have hm : (x + 1) % B = x + 1 := by simp only [B_eq] at *; omega
      rw [hm]
      exact ⟨by omega, by omega, Limbs_cons.mpr ⟨by simp only [B_eq] at *; omega, hxs⟩, by simp⟩

/-- mpn_add (xsize ≥ ysize): value identity with the returned carry. -/
theorem add_val (x y : List Nat) (hx : Limbs x) (hy : Limbs y) (hlen : y.length ≤ x.length) :
    val (add x y).1 + B ^ x.length * (add x y).2 = val x + val y ∧ (add x y).2 ≤ 1 ∧
    Limbs (add x y).1 ∧ (add x y).1.length = x.length := by
  have htl : (x.take y.length).length = y.length := by rw [List.length_take]; omega
  obtain ⟨sv, sc, sl, sn⟩ := addNC_val (x.take y.length) y 0 (Limbs_take hx _) hy htl (by omega)
  have hsplit := val_take_drop x y.length hlen
  have hdl : (x.drop y.length).length = x.length - y.length := List.length_drop
  rw [htl] at sv sn
  have hp : B ^ x.length = B ^ y.length * B ^ (x.length - y.length) := by
    rw [← pow_add]; congr 1; omega
  have hdef : add x y = if (addNC (x.take y.length) y 0).2 != 0
      then ((addNC (x.take y.length) y 0).1 ++ (incr (x.drop y.length)).1, (incr (x.drop y.length)).2)
      else ((addNC (x.take y.length) y 0).1 ++ x.drop y.length, 0) := by
    unfold add add_n; rfl
  rw [hdef]
  generalize addNC (x.take y.length) y 0 = lo at *
  obtain ⟨lo1, cy⟩ := lo
  simp only at sv sc sl sn ⊢
  by_cases hc : cy = 0
  · subst hc
    have hif : ((0 : Nat) != 0) = false := rfl
    simp only [hif, Bool.false_eq_true, if_false, val_append, sn]
    refine ⟨by omega, by omega, Limbs_append.mpr ⟨sl, Limbs_drop hx _⟩, ?_⟩
    rw [List.length_append, sn, hdl]; omega
  · have hc1 : cy = 1 := by omega
    subst hc1
    obtain ⟨dv, dc, dl, dn⟩ := incr_val (x.drop y.length) (Limbs_drop hx _)
    generalize incr (x.drop y.length) = hi at *
    obtain ⟨hi1, c⟩ := hi
    have hif : ((1 : Nat) != 0) = true := rfl
    simp only [hif, if_true, val_append, sn] at dv dc dl dn ⊢
    refine ⟨?_, dc, Limbs_append.mpr ⟨sl, dl⟩, ?_⟩
    · rw [hdl] at dv
      rw [hp]
      generalize B ^ y.length = P at *
      generalize B ^ (x.length - y.length) = Q at *
      have h2 : P * (val hi1 + Q * c) = P * (val (x.drop y.length) + 1) := by rw [dv]
      linarith [sv, h2, hsplit]
    · rw [List.length_append, sn, dn, hdl]; omega

/-- mpn_add whose sum fits: no carry. -/
theorem add_exact (x y : List Nat) (hx : Limbs x) (hy : Limbs y) (hlen : y.length ≤ x.length)
    (hfit : val x + val y < B ^ x.length) :
    val (add x y).1 = val x + val y ∧ Limbs (add x y).1 ∧ (add x y).1.length = x.length := by
  obtain ⟨hv, hc, hl, hn⟩ := add_val x y hx hy hlen
  refine ⟨?_, hl, hn⟩
  by_cases h0 : (add x y).2 = 0
  · rw [h0] at hv; omega
  · have h1 : (add x y).2 = 1 := by omega
    rw [h1] at hv; omega


/-! ### mpn_addmul_1 (kernel model) and mpn_redc_1 -/

/-- one limb of addmul_1, `p = u·vl` -/
theorem addmul_limb (r p cl : Nat) (hr : r < B) (hp : p ≤ (B - 1) * (B - 1)) (hc : cl < B) :
    (r + (p % B + cl) % B) % B +
      B * (((boolToNat (decide ((p % B + cl) % B < cl)) + p / B) % B +
              boolToNat (decide ((r + (p % B + cl) % B) % B < r))) % B) = r + p + cl ∧
    (((boolToNat (decide ((p % B + cl) % B < cl)) + p / B) % B +
              boolToNat (decide ((r + (p % B + cl) % B) % B < r))) % B) < B ∧
    (r + (p % B + cl) % B) % B < B := by
  simp only [boolToNat, B_eq] at *
  split <;> split <;> simp only [decide_eq_true_eq] at * <;> omega

theorem addmul1C_cons (r u vl cl : Nat) (rs us : List Nat) :
    addmul1C (r :: rs) (u :: us) vl cl =
      ((r + ((u * vl) % B + cl) % B) % B ::
        (addmul1C rs us vl (((boolToNat (decide (((u * vl) % B + cl) % B < cl)) + (u * vl) / B) % B +
              boolToNat (decide ((r + ((u * vl) % B + cl) % B) % B < r))) % B)).1,
       (addmul1C rs us vl (((boolToNat (decide (((u * vl) % B + cl) % B < cl)) + (u * vl) / B) % B +
              boolToNat (decide ((r + ((u * vl) % B + cl) % B) % B < r))) % B)).2) := by
  rw [addmul1C]; rfl

theorem addmul1C_val (r : List Nat) : ∀ (u : List Nat) (vl cl : Nat), Limbs r → Limbs u → r.length = u.length →
    vl < B → cl < B →
    val (addmul1C r u vl cl).1 + B ^ r.length * (addmul1C r u vl cl).2 = val r + val u * vl + cl ∧
    (addmul1C r u vl cl).2 < B ∧ Limbs (addmul1C r u vl cl).1 ∧ (addmul1C r u vl cl).1.length = r.length := by
  induction r with
  | nil =>
    intro u vl cl _ _ hl _ hc
    cases u with
    | nil => simp [addmul1C, hc, Limbs_nil]
    | cons _ _ => simp at hl
  | cons r rs ih =>
    intro u vl cl hr hu hl hv hc
    cases u with
    | nil => simp at hl
    | cons u us =>
      have ⟨hr0, hrs⟩ := Limbs_cons.mp hr
      have ⟨hu0, hus⟩ := Limbs_cons.mp hu
      have hp : u * vl ≤ (B - 1) * (B - 1) := Nat.mul_le_mul (by omega) (by omega)
      have ⟨e, c1, r1⟩ := addmul_limb r (u * vl) cl hr0 hp hc
      obtain ⟨ihv, ihc, ihl, ihn⟩ := ih us vl _ hrs hus (by simpa using hl) hv c1
      rw [addmul1C_cons]
      simp only [val_cons, List.length_cons, pow_succ]
      refine ⟨?_, ihc, Limbs_cons.mpr ⟨r1, ihl⟩, by rw [ihn]⟩
      generalize (((boolToNat (decide (((u * vl) % B + cl) % B < cl)) + (u * vl) / B) % B +
              boolToNat (decide ((r + ((u * vl) % B + cl) % B) % B < r))) % B) = c at *
      generalize (r + ((u * vl) % B + cl) % B) % B = lo at *
      generalize addmul1C rs us vl c = res at *
      have h2 : B * (val res.1 + B ^ rs.length * res.2) = B * (val rs + val us * vl + c) := by rw [ihv]
      linarith [h2, e]

theorem addmul_1_val (r u : List Nat) (vl : Nat) (hr : Limbs r) (hu : Limbs u) (hl : r.length = u.length) (hv : vl < B) :
    val (addmul_1 r u vl).1 + B ^ r.length * (addmul_1 r u vl).2 = val r + val u * vl ∧
    (addmul_1 r u vl).2 < B ∧ Limbs (addmul_1 r u vl).1 ∧ (addmul_1 r u vl).1.length = r.length := by
  have := addmul1C_val r u vl 0 hr hu hl hv B_pos
  simpa [addmul_1] using this


/-- the quotient limb `q = t0·invm mod B` clears the low limb when `invm·m0 ≡ −1 (mod B)`. -/
theorem redc_low_zero (t0 m0 invm : Nat) (hinv : (invm * m0) % B = B - 1) :
    (t0 + m0 * ((t0 * invm) % B)) % B = 0 := by
  have h1 : (1 + invm * m0) % B = 0 := by
    rw [Nat.add_mod, hinv]; simp [B_eq]
  have h2 : (t0 + m0 * ((t0 * invm) % B)) % B = (t0 * (1 + invm * m0)) % B := by
    have : t0 * (1 + invm * m0) = t0 + m0 * (t0 * invm) := by ring
    rw [this, Nat.add_mod, Nat.mul_mod m0 ((t0 * invm) % B), Nat.mod_mod, ← Nat.mul_mod, ← Nat.add_mod]
  rw [h2, Nat.mul_mod, h1]; simp

theorem headD_eq_val_mod (l : List Nat) (hl : Limbs l) : l.headD 0 = val l % B := by
  cases l with
  | nil => simp
  | cons x xs =>
    have := (Limbs_cons.mp hl).1
    simp only [List.headD_cons, val_cons]
    rw [Nat.add_mul_mod_self_left, Nat.mod_eq_of_lt this]

theorem val_tail (l : List Nat) : val l = l.headD 0 + B * val l.tail := by
  cases l <;> simp

/-- The loop of mpn_redc_1: after `k` rounds from a window `t` of `n + k` limbs,
    `val t + Q·m = B^k · val t' + B^n · val (new carries)` with `Q < B^k` — the low `k` limbs have been
    cleared and each round's carry-out has been parked in the limb left behind. -/
theorem redc1Loop_inv (mp : List Nat) (invm : Nat) (hmp : Limbs mp) (hn : 1 ≤ mp.length)
    (hinv : (invm * mp.headD 0) % B = B - 1) :
    ∀ (k : Nat) (cs t : List Nat), Limbs t → t.length = mp.length + k →
    ∃ Q cn t', redc1Loop mp mp.length invm k cs t = (cs ++ cn, t') ∧ Q < B ^ k ∧ Limbs cn ∧ cn.length = k ∧
      Limbs t' ∧ t'.length = mp.length ∧
      val t + Q * val mp = B ^ k * val t' + B ^ mp.length * val cn := by
  intro k
  induction k with
  | zero =>
    intro cs t ht hlen
    exact ⟨0, [], t, by simp [redc1Loop], by simp, Limbs_nil, rfl, ht, by simpa using hlen, by simp⟩
  | succ k ih =>
    intro cs t ht hlen
    set n := mp.length with hndef
    set q := (t.headD 0 * invm) % B with hq
    have hqlt : q < B := Nat.mod_lt _ B_pos
    have htake : (t.take n).length = n := by rw [List.length_take]; omega
    obtain ⟨av, ac, aL, an⟩ := addmul_1_val (t.take n) mp q (Limbs_take ht _) hmp htake hqlt
    rw [htake] at av an
    have hsplit := val_take_drop t n (by omega)
    -- low limb of the addmul result is zero
    have hr0 : (addmul_1 (t.take n) mp q).1.headD 0 = 0 := by
      rw [headD_eq_val_mod _ aL]
      have h1 : val (addmul_1 (t.take n) mp q).1 % B = (val (t.take n) + val mp * q) % B := by
        rw [← av]
        have : B ^ n = B * B ^ (n - 1) := by rw [← pow_succ']; congr 1; omega
        rw [this, Nat.mul_assoc, Nat.add_mul_mod_self_left]
      rw [h1, Nat.add_mod, ← headD_eq_val_mod _ (Limbs_take ht _), Nat.mul_mod, ← headD_eq_val_mod _ hmp]
      have hth : (t.take n).headD 0 = t.headD 0 := by
        cases t with
        | nil => simp
        | cons x xs =>
          have : n = (n - 1) + 1 := by omega
          rw [this]; simp
      rw [hth, Nat.mod_mod, Nat.add_mod_mod]
      exact redc_low_zero _ _ _ hinv
    generalize hres : addmul_1 (t.take n) mp q = res at *
    obtain ⟨r, c⟩ := res
    simp only at av ac aL an hr0
    have hrt := val_tail r
    rw [hr0, Nat.zero_add] at hrt
    -- the next window
    have ht1L : Limbs (r.tail ++ t.drop n) :=
      Limbs_append.mpr ⟨fun x hx => aL x (List.mem_of_mem_tail hx), Limbs_drop ht _⟩
    have ht1n : (r.tail ++ t.drop n).length = n + k := by
      rw [List.length_append, List.length_tail, List.length_drop, an]; omega
    obtain ⟨Q', cn', t', hloop, hQ', hcnL, hcnn, ht'L, ht'n, hv⟩ := ih (cs ++ [c]) (r.tail ++ t.drop n) ht1L ht1n
    refine ⟨q + B * Q', c :: cn', t', ?_, ?_, Limbs_cons.mpr ⟨ac, hcnL⟩, by simp [hcnn], ht'L, ht'n, ?_⟩
    · rw [redc1Loop]
      simp only [← hq, hres]
      rw [hloop, List.append_assoc]; rfl
    · rw [pow_succ]
      have : B * Q' + B ≤ B * B ^ k := by
        have := Nat.mul_le_mul_left B (Nat.succ_le_of_lt hQ')
        rw [Nat.mul_succ] at this; exact this
      rw [Nat.mul_comm (B ^ k) B]; omega
    · rw [val_append, List.length_tail, an] at hv
      have hpn : B ^ n = B * B ^ (n - 1) := by rw [← pow_succ']; congr 1; omega
      rw [val_cons, pow_succ]
      generalize val t' = vt' at *
      generalize val cn' = vc at *
      generalize val (t.drop n) = vd at *
      generalize val (t.take n) = vlo at *
      generalize val r.tail = vr at *
      generalize val mp = m at *
      rw [hpn] at av hsplit hv ⊢
      generalize B ^ (n - 1) = Pn at *
      generalize B ^ k = Pk at *
      rw [hsplit, hrt] at *
      have h2 : B * (Pn * vd + vr + Q' * m) = B * (Pk * vt' + B * Pn * vc) := by
        have : vr + Pn * vd + Q' * m = Pk * vt' + B * Pn * vc := hv
        rw [← this]; ring
      linarith [h2, av]


/-- mpn_redc_1: the exact identity.  `B^n·r + k·B^n·m = T + Q·m` with `Q < B^n` and `k ∈ {0,1}`
    (`k = 1` iff the final conditional subtraction ran). -/
theorem redc_1_identity (tp mp : List Nat) (invm : Nat) (hn : 1 ≤ mp.length) (htp : Limbs tp) (hmp : Limbs mp)
    (hlen : tp.length = 2 * mp.length) (hinv : (invm * mp.headD 0) % B = B - 1) :
    ∃ Q k, Q < B ^ mp.length ∧ k ≤ 1 ∧
      B ^ mp.length * val (redc_1 tp mp invm) + k * (B ^ mp.length * val mp) = val tp + Q * val mp ∧
      Limbs (redc_1 tp mp invm) ∧ (redc_1 tp mp invm).length = mp.length := by
  obtain ⟨Q, cn, t', hloop, hQ, hcnL, hcnn, ht'L, ht'n, hv⟩ :=
    redc1Loop_inv mp invm hmp hn hinv mp.length [] tp htp (by omega)
  have hdef : redc_1 tp mp invm =
      if (addNC t' cn 0).2 != 0 then (subNC (addNC t' cn 0).1 mp 0).1 else (addNC t' cn 0).1 := by
    unfold redc_1
    simp only [hloop, List.nil_append, add_n, sub_n]
  rw [hdef]
  obtain ⟨av, ac, aL, an⟩ := addNC_val t' cn 0 ht'L hcnL (by omega) (by omega)
  rw [ht'n] at av an
  have hmlt := val_lt mp hmp
  have htlt := val_lt tp htp
  rw [hlen] at htlt
  generalize addNC t' cn 0 = res at *
  obtain ⟨cp, cy⟩ := res
  simp only at av ac aL an ⊢
  set N := B ^ mp.length with hN
  have hNpos : 0 < N := Nat.pow_pos B_pos
  have hT : val tp < N * N := by rw [hN, ← pow_add]; have : mp.length + mp.length = 2 * mp.length := by omega
                                 rw [this]; exact htlt
  -- S = val t' + val cn < N + m
  have hS : val t' + val cn < N + val mp := by
    have h1 : N * (val t' + val cn) < N * (N + val mp) := by
      have : Q * val mp ≤ N * val mp := Nat.mul_le_mul_right _ (le_of_lt hQ)
      have e : N * (val t' + val cn) = val tp + Q * val mp := by rw [hv]; ring
      rw [e, Nat.mul_add]; omega
    exact Nat.lt_of_mul_lt_mul_left h1
  by_cases hc : cy = 0
  · subst hc
    have hif : ((0 : Nat) != 0) = false := rfl
    simp only [hif, Bool.false_eq_true, if_false]
    refine ⟨Q, 0, hQ, by omega, ?_, aL, an⟩
    have : val cp = val t' + val cn := by omega
    rw [this, hv]; ring
  · have hc1 : cy = 1 := by omega
    subst hc1
    have hif : ((1 : Nat) != 0) = true := rfl
    simp only [hif, if_true]
    obtain ⟨sv, sc, sL, sn⟩ := subNC_val cp mp 0 aL hmp an (by omega)
    rw [an] at sv sn
    generalize subNC cp mp 0 = sres at *
    obtain ⟨out, bw⟩ := sres
    simp only at sv sc sL sn ⊢
    have houtlt := val_lt out sL
    rw [sn] at houtlt
    -- val cp < m, so the subtraction borrows
    have hcp : val cp < val mp := by omega
    have hbw : bw = 1 := by
      by_contra h
      have : bw = 0 := by omega
      subst this
      omega
    subst hbw
    refine ⟨Q, 1, hQ, le_refl _, ?_, sL, sn⟩
    have e1 : val out + val mp = val t' + val cn := by omega
    have e2 : N * (val out + val mp) = val tp + Q * val mp := by rw [e1, hv]; ring
    rw [← e2]; ring


/-! ### the even-modulus part of mpz_powm (powm.c:196-268) -/

theorem zeros_length (k : Nat) : (zeros k).length = k := by simp [zeros]
theorem Limbs_zeros (k : Nat) : Limbs (zeros k) := by
  intro x hx; simp [zeros] at hx; rw [hx.2]; exact B_pos
theorem val_zeros (k : Nat) : val (zeros k) = 0 := by
  induction k with
  | zero => rfl
  | succ k ih => simp [zeros, List.replicate_succ] at *; exact Or.inr ih
theorem val_append_zeros (l : List Nat) (k : Nat) : val (l ++ zeros k) = val l := by
  rw [val_append, val_zeros]; simp

/-- the low-zero-bit count of an even limb that powm.c:224 computes: `(0x1213 >> ((b & 7) << 1)) & 3`. -/
theorem bcnt_spec (b0 : Nat) (hev : b0 % 2 = 0) :
    2 ^ ((0x1213 >>> ((b0 &&& 7) <<< 1)) &&& 3) ∣ b0 := by
  have h7 : b0 &&& 7 = b0 % 8 := Nat.and_two_pow_sub_one_eq_mod b0 3
  rw [h7]
  have h8 : b0 % 8 = 0 ∨ b0 % 8 = 2 ∨ b0 % 8 = 4 ∨ b0 % 8 = 6 := by omega
  rcases h8 with h | h | h | h <;> rw [h] <;> simp <;> omega

/-- if `2^z ∣ b` and `t ≤ z·e` then `b^e ≡ 0 (mod 2^t)`. -/
theorem pow_mod_two_pow_zero (b e z t : Nat) (hz : 2 ^ z ∣ b) (ht : t ≤ z * e) : b ^ e % 2 ^ t = 0 := by
  apply Nat.mod_eq_zero_of_dvd
  have h1 : (2 ^ z) ^ e ∣ b ^ e := pow_dvd_pow_of_dvd hz e
  rw [← pow_mul] at h1
  exact (Nat.pow_dvd_pow 2 ht).trans h1


/-- number of low zero bits of `m` as powm.c:221 computes it from (ncnt, cnt). -/
def tbits (ncnt cnt : Nat) : Nat := (ncnt - (if cnt != 0 then 1 else 0)) * 64 + cnt

theorem tbits_eq (ncnt cnt : Nat) : tbits ncnt cnt = if cnt = 0 then ncnt * 64 else (ncnt - 1) * 64 + cnt := by
  unfold tbits
  by_cases h : cnt = 0 <;> simp [h]

theorem tbits_le (ncnt cnt : Nat) (hncnt : 1 ≤ ncnt) (hcnt : cnt < 64) : tbits ncnt cnt ≤ ncnt * 64 := by
  rw [tbits_eq]; split <;> omega

theorem tbits_dvd (ncnt cnt : Nat) (hncnt : 1 ≤ ncnt) (hcnt : cnt < 64) : 2 ^ tbits ncnt cnt ∣ B ^ ncnt := by
  rw [B_eq_two_pow, ← pow_mul]
  apply Nat.pow_dvd_pow
  have := tbits_le ncnt cnt hncnt hcnt; omega

/-- the choice of `r2` in powm.c:212-234 (`mpn_powlo`, or zero when the base is even and the
    exponent is large enough): congruent to `b^e` modulo `2^t`. -/
theorem r2_choice (bp ep : List Nat) (ncnt cnt : Nat) (hbp : Limbs bp) (hbne : bp ≠ []) (hep : Norm ep) (hepne : ep ≠ [])
    (hncnt : 1 ≤ ncnt) (hcnt : cnt < 64) (hsz : ncnt * 64 < B)
    (hpowlo : ∀ bq, Limbs bq → val (mpn_powlo bq ep ncnt) = val bq ^ val ep % B ^ ncnt) :
    let bpl := if bp.length < ncnt then bp ++ zeros (ncnt - bp.length) else bp
    let r2 := if bpl.headD 0 % 2 = 0 then
        if ep.length > 1 then zeros ncnt
        else
          if (ep.headD 0 * ((0x1213 >>> ((bpl.headD 0 &&& 7) <<< 1)) &&& 3)) % B ≥ tbits ncnt cnt
          then zeros ncnt else mpn_powlo bpl ep ncnt
      else mpn_powlo bpl ep ncnt
    Limbs r2 ∧ r2.length = ncnt ∧ val r2 % 2 ^ tbits ncnt cnt = val bp ^ val ep % 2 ^ tbits ncnt cnt := by
  intro bpl r2
  have hdvd := tbits_dvd ncnt cnt hncnt hcnt
  have hbplL : Limbs bpl := by
    simp only [bpl]; split
    · exact Limbs_append.mpr ⟨hbp, Limbs_zeros _⟩
    · exact hbp
  have hbplv : val bpl = val bp := by
    simp only [bpl]; split
    · exact val_append_zeros _ _
    · rfl
  have hhead : bpl.headD 0 = bp.headD 0 := by
    simp only [bpl]; split
    · cases bp with
      | nil => exact absurd rfl hbne
      | cons x xs => rfl
    · rfl
  have hpl : Limbs (mpn_powlo bpl ep ncnt) ∧ (mpn_powlo bpl ep ncnt).length = ncnt ∧
      val (mpn_powlo bpl ep ncnt) % 2 ^ tbits ncnt cnt = val bp ^ val ep % 2 ^ tbits ncnt cnt := by
    refine ⟨Limbs_toLimbs _ _, toLimbs_length _ _, ?_⟩
    rw [hpowlo bpl hbplL, hbplv, Nat.mod_mod_of_dvd _ hdvd]
  have hzero : 2 ^ tbits ncnt cnt ∣ val bp ^ val ep →
      Limbs (zeros ncnt) ∧ (zeros ncnt).length = ncnt ∧
      val (zeros ncnt) % 2 ^ tbits ncnt cnt = val bp ^ val ep % 2 ^ tbits ncnt cnt := by
    intro h
    refine ⟨Limbs_zeros _, zeros_length _, ?_⟩
    rw [val_zeros, Nat.mod_eq_zero_of_dvd h]; simp
  -- b = b0 + B·rest
  have hb0 : ∀ z, z ≤ 64 → 2 ^ z ∣ bp.headD 0 → 2 ^ z ∣ val bp := by
    intro z hz hd
    cases bp with
    | nil => exact absurd rfl hbne
    | cons x xs =>
      simp only [List.headD_cons] at hd
      rw [val_cons]
      have : 2 ^ z ∣ B := by rw [B_eq_two_pow]; exact Nat.pow_dvd_pow 2 hz
      exact Nat.dvd_add hd (Dvd.dvd.mul_right this _)
  have htle : tbits ncnt cnt ≤ ncnt * 64 := tbits_le ncnt cnt hncnt hcnt
  simp only [r2]
  by_cases hev : bpl.headD 0 % 2 = 0
  · simp only [hev, if_true]
    by_cases hen : ep.length > 1
    · simp only [hen, if_true]
      apply hzero
      -- e ≥ B > t, and 2 ∣ b
      have h2 : 2 ^ 1 ∣ val bp := hb0 1 (by omega) (by rw [← hhead, pow_one]; exact Nat.dvd_of_mod_eq_zero hev)
      have hge : B ^ (ep.length - 1) ≤ val ep := Norm_ge ep hep hepne
      have hB1 : B ^ 1 ≤ B ^ (ep.length - 1) := Nat.pow_le_pow_right B_pos (by omega)
      have := pow_mod_two_pow_zero (val bp) (val ep) 1 (tbits ncnt cnt) h2 (by rw [pow_one] at hB1; omega)
      exact Nat.dvd_of_mod_eq_zero this
    · simp only [hen, if_false]
      by_cases hge : (ep.headD 0 * ((0x1213 >>> ((bpl.headD 0 &&& 7) <<< 1)) &&& 3)) % B ≥ tbits ncnt cnt
      · simp only [hge, if_true]
        apply hzero
        -- en = 1: e = ep[0]
        have he : val ep = ep.headD 0 := by
          match ep, hepne, hen with
          | [x], _, _ => simp
          | x :: y :: l, _, h => simp at h
        have hz := bcnt_spec (bpl.headD 0) hev
        generalize hzz : ((0x1213 >>> ((bpl.headD 0 &&& 7) <<< 1)) &&& 3) = z at *
        have hz3 : z ≤ 64 := by
          rw [← hzz]
          have : (0x1213 >>> ((bpl.headD 0 &&& 7) <<< 1)) &&& 3 ≤ 3 := Nat.and_le_right
          omega
        have hzb : 2 ^ z ∣ val bp := hb0 z hz3 (by rw [← hhead]; exact hz)
        have hle : (ep.headD 0 * z) % B ≤ ep.headD 0 * z := Nat.mod_le _ _
        have htt : tbits ncnt cnt ≤ z * val ep := by
          rw [he, Nat.mul_comm]; omega
        exact Nat.dvd_of_mod_eq_zero (pow_mod_two_pow_zero _ _ z _ hzb htt)
      · simp only [hge, if_false]
        exact hpl
  · simp only [hev, if_false]
    exact hpl


theorem powmEven_tbits (n : Nat) (bp ep modd : List Nat) (nodd ncnt cnt : Nat) (rodd : List Nat) :
    powmEven n bp ep modd nodd ncnt cnt rodd =
    (let bpl := if bp.length < ncnt then bp ++ zeros (ncnt - bp.length) else bp
     let r2 := if bpl.headD 0 % 2 = 0 then
        if ep.length > 1 then zeros ncnt
        else
          if (ep.headD 0 * ((0x1213 >>> ((bpl.headD 0 &&& 7) <<< 1)) &&& 3)) % B ≥ tbits ncnt cnt
          then zeros ncnt else mpn_powlo bpl ep ncnt
      else mpn_powlo bpl ep ncnt
     let mpl := if nodd < ncnt then modd ++ zeros (ncnt - nodd) else modd
     let odd_inv := binvert (val (mpl.take ncnt)) ncnt
     let d := (sub r2 (rodd.take (min nodd ncnt))).1
     let x := (odd_inv * val d) % B ^ ncnt
     let x := if cnt != 0 then x % 2 ^ ((ncnt - 1) * 64 + cnt) else x
     let yp := toLimbs (ncnt + nodd) (x * val modd)
     (add (yp.take n) rodd).1) := rfl

/-- powm.c:196-268 — CRT recombination for an even modulus `m = 2^t · modd`
    (`t = tbits ncnt cnt` low zero bits: `ncnt` limbs of which the top one holds `cnt` bits when `cnt ≠ 0`).
    Given the odd-part result `rodd = b^e mod modd` (what mpn_powm returns) and the specifications of the
    two callees (`mpn_powlo` computes `b^e mod B^ncnt`, `mpn_binvert` the inverse modulo `B^ncnt`),
    the limbs left in `rp[0..n)` are `b^e mod m`, for every base (odd, even with any number of low zero
    bits — including the two shortcuts that skip mpn_powlo) and every exponent `> 1`. -/
theorem powmEven_correct (n : Nat) (bp ep modd rodd : List Nat) (nodd ncnt cnt : Nat)
    (hbp : Limbs bp) (hbne : bp ≠ []) (hep : Norm ep) (hepne : ep ≠ [])
    (hmodd : Limbs modd) (hml : modd.length = nodd) (hodd : val modd % 2 = 1)
    (hncnt : 1 ≤ ncnt) (hcnt : cnt < 64) (hn1 : nodd ≤ n) (hn2 : n ≤ nodd + ncnt)
    (hfit : 2 ^ tbits ncnt cnt * val modd < B ^ n) (hsz : ncnt * 64 < B)
    (hrodd : rodd = toLimbs nodd (val bp ^ val ep % val modd))
    (hpowlo : ∀ bq, Limbs bq → val (mpn_powlo bq ep ncnt) = val bq ^ val ep % B ^ ncnt)
    (hbinv : ∀ u, u % 2 = 1 → (binvert u ncnt * u) % B ^ ncnt = 1) :
    val (powmEven n bp ep modd nodd ncnt cnt rodd) = val bp ^ val ep % (2 ^ tbits ncnt cnt * val modd) ∧
    Limbs (powmEven n bp ep modd nodd ncnt cnt rodd) ∧ (powmEven n bp ep modd nodd ncnt cnt rodd).length = n := by
  rw [powmEven_tbits]
  obtain ⟨hr2L, hr2n, hr2v⟩ := r2_choice bp ep ncnt cnt hbp hbne hep hepne hncnt hcnt hsz hpowlo
  simp only at hr2L hr2n hr2v ⊢
  generalize (if (if bp.length < ncnt then bp ++ zeros (ncnt - bp.length) else bp).headD 0 % 2 = 0 then _ else _ : List Nat) = r2 at *
  set P := val bp ^ val ep with hP
  set N := B ^ ncnt with hN
  have hNpos : 0 < N := Nat.pow_pos B_pos
  have hdvd := tbits_dvd ncnt cnt hncnt hcnt
  have hmpos : 0 < val modd := by omega
  have hmlt : val modd < B ^ nodd := by rw [← hml]; exact val_lt modd hmodd
  -- rodd
  have hroddv : val rodd = P % val modd := by
    rw [hrodd]; exact val_toLimbs_lt _ _ (lt_trans (Nat.mod_lt _ hmpos) hmlt)
  have hroddL : Limbs rodd := by rw [hrodd]; exact Limbs_toLimbs _ _
  have hroddn : rodd.length = nodd := by rw [hrodd]; exact toLimbs_length _ _
  -- the low part of rodd that is subtracted
  have hy : val (rodd.take (min nodd ncnt)) = val rodd % N := by
    by_cases h : nodd ≤ ncnt
    · rw [Nat.min_eq_left h, take_length_eq rodd nodd hroddn]
      have : B ^ nodd ≤ N := Nat.pow_le_pow_right B_pos h
      have h2 := val_lt rodd hroddL
      rw [hroddn] at h2
      rw [Nat.mod_eq_of_lt (by omega)]
    · rw [Nat.min_eq_right (by omega), val_take_mod rodd hroddL]
  have hylen : (rodd.take (min nodd ncnt)).length ≤ r2.length := by
    rw [List.length_take, hr2n]; exact le_trans (Nat.min_le_left _ _) (Nat.min_le_right _ _)
  obtain ⟨sv, _, sL, sn⟩ := sub_val r2 _ hr2L (Limbs_take hroddL _) hylen
  rw [hy, hr2n] at sv
  rw [hr2n] at sn
  generalize (sub r2 (rodd.take (min nodd ncnt))).1 = d at *
  generalize (sub r2 (rodd.take (min nodd ncnt))).2 = bw at *
  have hd : (val d + val rodd % N) % N = val r2 % N := by
    rw [sv, Nat.add_mul_mod_self_left]
  -- the inverse
  have hmplv : val ((if nodd < ncnt then modd ++ zeros (ncnt - nodd) else modd).take ncnt) = val modd % N := by
    split
    · rename_i h
      rw [take_length_eq _ _ (by rw [List.length_append, hml, zeros_length]; omega), val_append_zeros]
      have : B ^ nodd ≤ N := Nat.pow_le_pow_right B_pos (le_of_lt h)
      rw [Nat.mod_eq_of_lt (by omega)]
    · rw [val_take_mod modd hmodd]
  rw [hmplv]
  have hBeven : N % 2 = 0 := by
    rw [hN, B_eq_two_pow, ← pow_mul]
    have : 64 * ncnt = (64 * ncnt - 1) + 1 := by omega
    rw [this, pow_succ]; simp
  have hmodN : (val modd % N) % 2 = 1 := by
    rw [Nat.mod_mod_of_dvd _ (Nat.dvd_of_mod_eq_zero hBeven)]; exact hodd
  have hinv0 := hbinv (val modd % N) hmodN
  generalize binvert (val modd % N) ncnt = inv at *
  have h1N : 1 < N := by
    have : B ^ 1 ≤ N := Nat.pow_le_pow_right B_pos hncnt
    simp only [pow_one, B_eq] at this; omega
  have hinv : (inv * val modd) % N = 1 % N := by
    rw [Nat.mod_eq_of_lt h1N, Nat.mul_mod, ← hinv0, Nat.mul_mod inv (val modd % N), Nat.mod_mod]
  -- the masked quotient
  have hx : (if (cnt != 0) = true then (inv * val d) % N % 2 ^ ((ncnt - 1) * 64 + cnt) else (inv * val d) % N)
      = (inv * val d) % N % 2 ^ tbits ncnt cnt := by
    rw [tbits_eq]
    by_cases hc : cnt = 0
    · have hNt : N = 2 ^ (ncnt * 64) := by rw [hN, B_eq_two_pow, ← pow_mul, Nat.mul_comm]
      simp only [hc, bne_self_eq_false, Bool.false_eq_true, if_false, if_true]
      rw [← hNt, Nat.mod_mod]
    · simp [hc]
  rw [hx]
  have hcrt := crt_value P (val modd) (tbits ncnt cnt) N inv (val r2) (val rodd) (val d) hodd hdvd hinv hroddv hr2v hd
  generalize (inv * val d) % N % 2 ^ tbits ncnt cnt = x at *
  have hlt : x * val modd + val rodd < B ^ n := by
    rw [hcrt]
    exact lt_trans (Nat.mod_lt _ (Nat.mul_pos (two_pow_pos _) hmpos)) hfit
  have hypv : val ((toLimbs (ncnt + nodd) (x * val modd)).take n) = x * val modd := by
    rw [← val_take_mod _ (Limbs_toLimbs _ _), val_toLimbs]
    have hle : B ^ n ≤ B ^ (ncnt + nodd) := Nat.pow_le_pow_right B_pos (by omega)
    have hxm : x * val modd < B ^ n := Nat.lt_of_le_of_lt (Nat.le_add_right _ _) hlt
    rw [Nat.mod_eq_of_lt (lt_of_lt_of_le hxm hle), Nat.mod_eq_of_lt hxm]
  have hypn : ((toLimbs (ncnt + nodd) (x * val modd)).take n).length = n := by
    rw [List.length_take, toLimbs_length]; omega
  have hypL : Limbs ((toLimbs (ncnt + nodd) (x * val modd)).take n) := Limbs_take (Limbs_toLimbs _ _) _
  generalize (toLimbs (ncnt + nodd) (x * val modd)).take n = yp at *
  obtain ⟨av, aL, an⟩ := add_exact yp rodd hypL hroddL (by omega) (by rw [hypv, hypn]; exact hlt)
  exact ⟨by rw [av, hypv, hcrt], aL, by rw [an, hypn]⟩



/-! ### modlimb_invert and mpn_binvert (Newton lifting) -/

/-- Newton step for a 2-adic inverse: if `x·u ≡ 1 (mod M)` then `x·(2 − u·x)·u ≡ 1 (mod M²)`. -/
theorem newton_step (M x u : Int) (h : x * u ≡ 1 [ZMOD M]) : x * (2 - u * x) * u ≡ 1 [ZMOD M * M] := by
  obtain ⟨c, hc⟩ := (Int.modEq_iff_dvd.mp h)
  -- 1 - x u = M c
  apply Int.modEq_iff_dvd.mpr
  refine ⟨c * c, ?_⟩
  have e : 1 - x * (2 - u * x) * u = (1 - x * u) * (1 - x * u) := by ring
  rw [e, hc]; ring

theorem minvTab_spec : ∀ i, i < 128 → (minvTab i * (2 * i + 1)) % 256 = 1 := by decide +kernel

/-- `minvStep` is `2·inv − inv²·n` modulo `B`. -/
theorem minvStep_modEq (inv n : Nat) : (minvStep inv n : Int) ≡ (inv : Int) * (2 - (n : Int) * inv) [ZMOD (B : Int)] := by
  unfold minvStep
  have h1 : ((inv * inv % B * n) % B : Nat) ≤ B := le_of_lt (Nat.mod_lt _ B_pos)
  have e : ((2 * inv + B - (inv * inv % B * n) % B : Nat) : Int) = 2 * (inv : Int) + B - ((inv * inv % B * n % B : Nat) : Int) := by
    rw [Nat.cast_sub (by omega)]; push_cast; ring
  have h2 : ((inv * inv % B * n % B : Nat) : Int) ≡ (inv : Int) * inv * n [ZMOD (B : Int)] := by
    have : (inv * inv % B * n % B : Nat) ≡ inv * inv * n [MOD B] :=
      (Nat.mod_modEq _ _).trans ((Nat.mod_modEq _ _).mul_right n)
    exact_mod_cast (Int.natCast_modEq_iff.mpr this)
  have h3 : ((((2 * inv + B - (inv * inv % B * n) % B) % B : Nat)) : Int) ≡ ((2 * inv + B - (inv * inv % B * n) % B : Nat) : Int) [ZMOD (B : Int)] := by
    exact_mod_cast (Int.natCast_modEq_iff.mpr (Nat.mod_modEq _ B))
  refine h3.trans ?_
  rw [e]
  have h4 : 2 * (inv : Int) + B - ((inv * inv % B * n % B : Nat) : Int) ≡ 2 * (inv : Int) + 0 - (inv : Int) * inv * n [ZMOD (B : Int)] := by
    apply Int.ModEq.sub _ h2
    apply Int.ModEq.add_left
    exact Int.modEq_iff_dvd.mpr ⟨-1, by ring⟩
  refine h4.trans ?_
  have : 2 * (inv : Int) + 0 - (inv : Int) * inv * n = (inv : Int) * (2 - (n : Int) * inv) := by ring
  rw [this]


theorem minvStep_lift (inv n k : Nat) (hk : 2 * k ≤ 64) (h : (inv : Int) * n ≡ 1 [ZMOD ((2 ^ k : Nat) : Int)]) :
    (minvStep inv n : Int) * n ≡ 1 [ZMOD ((2 ^ (2 * k) : Nat) : Int)] := by
  have h1 := (minvStep_modEq inv n).mul_right (n : Int)
  have hd : ((2 ^ (2 * k) : Nat) : Int) ∣ (B : Int) := by
    have : 2 ^ (2 * k) ∣ B := by rw [B_eq_two_pow]; exact Nat.pow_dvd_pow 2 hk
    exact_mod_cast this
  have h2 := h1.of_dvd hd
  have h3 := newton_step _ _ _ h
  have e : ((2 ^ (2 * k) : Nat) : Int) = ((2 ^ k : Nat) : Int) * ((2 ^ k : Nat) : Int) := by
    push_cast; rw [← pow_add]; congr 1; omega
  rw [e] at h2 ⊢
  exact h2.trans h3

/-- modlimb_invert (gmp-impl.h:3087): the inverse of an odd limb modulo `B`. -/
theorem modlimb_invert_spec (n : Nat) (hodd : n % 2 = 1) : (modlimb_invert n * n) % B = 1 := by
  have h8 : ((minvTab ((n / 2) % 128) : Nat) : Int) * n ≡ 1 [ZMOD ((2 ^ 8 : Nat) : Int)] := by
    have ht := minvTab_spec ((n / 2) % 128) (Nat.mod_lt _ (by decide))
    have hn : n ≡ 2 * ((n / 2) % 128) + 1 [MOD 256] := by unfold Nat.ModEq; omega
    have : minvTab ((n / 2) % 128) * n ≡ 1 [MOD 2 ^ 8] :=
      (hn.mul_left _).trans (by unfold Nat.ModEq; rw [ht])
    exact_mod_cast (Int.natCast_modEq_iff.mpr this)
  have h16 := minvStep_lift _ n 8 (by decide) h8
  have h32 := minvStep_lift _ n 16 (by decide) h16
  have h64 := minvStep_lift _ n 32 (by decide) h32
  have : modlimb_invert n * n ≡ 1 [MOD 2 ^ 64] := by
    apply Int.natCast_modEq_iff.mp
    push_cast
    unfold modlimb_invert
    exact_mod_cast h64
  have hB : (1 : Nat) % B = 1 := by simp [B_eq]
  rw [← hB]; exact this

/-- the `Nprim` mpn_powm passes to redc_1: `−m0⁻¹ mod B`. -/
theorem neg_modlimb_invert_spec (m0 : Nat) (hodd : m0 % 2 = 1) :
    (((B - modlimb_invert m0) % B) * m0) % B = B - 1 := by
  have h := modlimb_invert_spec m0 hodd
  have hlt : modlimb_invert m0 % B < B := Nat.mod_lt _ B_pos
  -- work modulo B with x = minv % B
  have hx : (modlimb_invert m0 % B * m0) % B = 1 := by rw [Nat.mul_mod, Nat.mod_mod, ← Nat.mul_mod]; exact h
  have hsub : (B - modlimb_invert m0) % B = (B - modlimb_invert m0 % B) % B := by
    have hminv : modlimb_invert m0 < B := by
      unfold modlimb_invert minvStep; exact Nat.mod_lt _ B_pos
    rw [Nat.mod_eq_of_lt hminv]
  rw [hsub]
  generalize modlimb_invert m0 % B = x at *
  have hx0 : x ≠ 0 := by
    intro h0; subst h0; simp [B_eq] at hx
  rw [Nat.mod_eq_of_lt (show B - x < B by omega)]
  have e : (B - x) * m0 + x * m0 = B * m0 := by rw [← Nat.add_mul]; congr 1; omega
  have h2 : ((B - x) * m0 + x * m0) % B = 0 := by rw [e]; exact Nat.mul_mod_right _ _
  have h3 := Nat.mod_lt ((B - x) * m0) B_pos
  rw [Nat.add_mod, hx] at h2
  have : ((B - x) * m0 % B + 1) % B = 0 := h2
  by_contra hne
  have : (B - x) * m0 % B + 1 < B := by omega
  rw [Nat.mod_eq_of_lt this] at h2; omega


theorem natCast_mod_modEq (a P : Nat) : ((a % P : Nat) : Int) ≡ (a : Int) [ZMOD (P : Int)] :=
  Int.natCast_modEq_iff.mpr (Nat.mod_modEq a P)

/-- the Newton step of `binvertLoop`, as an integer congruence modulo `P`. -/
theorem binvStep_modEq (u x P : Nat) (hP : 0 < P) :
    (((x * (2 * P + 2 - (u * x) % P)) % P : Nat) : Int) ≡ (x : Int) * (2 - (u : Int) * x) [ZMOD (P : Int)] := by
  refine (natCast_mod_modEq _ P).trans ?_
  have hlt : (u * x) % P < P := Nat.mod_lt _ hP
  have e : ((x * (2 * P + 2 - (u * x) % P) : Nat) : Int) = (x : Int) * (2 * (P : Int) + 2 - ((u * x % P : Nat) : Int)) := by
    rw [Nat.cast_mul, Nat.cast_sub (by omega)]; push_cast; ring
  rw [e]
  apply Int.ModEq.mul_left
  have h1 : ((u * x % P : Nat) : Int) ≡ (u : Int) * x [ZMOD (P : Int)] := by
    have := natCast_mod_modEq (u * x) P
    push_cast at this ⊢; exact this
  have h2 : 2 * (P : Int) + 2 ≡ 2 [ZMOD (P : Int)] := Int.modEq_iff_dvd.mpr ⟨-2, by ring⟩
  exact h2.sub h1

theorem binvertLoop_spec (u n : Nat) : ∀ (fuel x prec : Nat), 1 ≤ prec → n ≤ prec * 2 ^ fuel →
    (x : Int) * u ≡ 1 [ZMOD ((B ^ prec : Nat) : Int)] →
    ((binvertLoop u n fuel x prec : Nat) : Int) * u ≡ 1 [ZMOD ((B ^ n : Nat) : Int)] := by
  intro fuel
  induction fuel with
  | zero =>
    intro x prec _ hn h
    simp only [pow_zero, Nat.mul_one] at hn
    unfold binvertLoop
    have hd : ((B ^ n : Nat) : Int) ∣ ((B ^ prec : Nat) : Int) := by exact_mod_cast Nat.pow_dvd_pow B hn
    exact ((natCast_mod_modEq x (B ^ n)).mul_right _).trans (h.of_dvd hd)
  | succ f ih =>
    intro x prec hp hn h
    unfold binvertLoop
    by_cases hge : prec ≥ n
    · simp only [hge, if_true]
      have hd : ((B ^ n : Nat) : Int) ∣ ((B ^ prec : Nat) : Int) := by exact_mod_cast Nat.pow_dvd_pow B hge
      exact ((natCast_mod_modEq x (B ^ n)).mul_right _).trans (h.of_dvd hd)
    · simp only [hge, if_false]
      apply ih _ (2 * prec) (by omega) (by rw [pow_succ] at hn; linarith)
      have hPpos : 0 < B ^ (2 * prec) := Nat.pow_pos B_pos
      have h1 := (binvStep_modEq u x (B ^ (2 * prec)) hPpos).mul_right (u : Int)
      have h2 := newton_step _ _ _ h
      have e : ((B ^ (2 * prec) : Nat) : Int) = ((B ^ prec : Nat) : Int) * ((B ^ prec : Nat) : Int) := by
        push_cast; rw [← pow_add]; congr 1; omega
      rw [e] at h1 ⊢
      exact h1.trans h2

/-- mpn_binvert (value level): `binvert u n · u ≡ 1 (mod B^n)` for odd `u`, `n ≥ 1`. -/
theorem binvert_spec (u n : Nat) (hn : 1 ≤ n) (hodd : u % 2 = 1) : (binvert u n * u) % B ^ n = 1 := by
  unfold binvert
  have hBn : B ∣ B ^ n := by
    have : B ^ 1 ∣ B ^ n := Nat.pow_dvd_pow B hn
    simpa using this
  -- starting value
  have hu0 : (u % B) % 2 = 1 := by
    rw [Nat.mod_mod_of_dvd _ (by rw [B_eq_two_pow]; exact Dvd.intro_left (2 ^ 63) rfl)]; exact hodd
  have h0 : ((modlimb_invert (u % B) : Nat) : Int) * ((u % B ^ n : Nat) : Int) ≡ 1 [ZMOD ((B ^ 1 : Nat) : Int)] := by
    have hs := modlimb_invert_spec (u % B) hu0
    have h1 : modlimb_invert (u % B) * (u % B ^ n) ≡ modlimb_invert (u % B) * (u % B) [MOD B] := by
      apply Nat.ModEq.mul_left
      unfold Nat.ModEq
      rw [Nat.mod_mod_of_dvd _ hBn, Nat.mod_mod]
    have h2 : modlimb_invert (u % B) * (u % B) ≡ 1 [MOD B] := by
      unfold Nat.ModEq; rw [hs]; simp [B_eq]
    have := h1.trans h2
    rw [pow_one]
    exact_mod_cast (Int.natCast_modEq_iff.mpr this)
  have hfuel : n ≤ 1 * 2 ^ n := by rw [Nat.one_mul]; exact le_of_lt Nat.lt_two_pow_self
  have h := binvertLoop_spec (u % B ^ n) n n _ 1 (le_refl _) hfuel h0
  -- back to u and to Nat
  have h3 : ((binvertLoop (u % B ^ n) n n (modlimb_invert (u % B)) 1 : Nat) : Int) * (u : Int) ≡ 1 [ZMOD ((B ^ n : Nat) : Int)] :=
    ((natCast_mod_modEq u (B ^ n)).symm.mul_left _).trans h
  have h4 : binvertLoop (u % B ^ n) n n (modlimb_invert (u % B)) 1 * u ≡ 1 [MOD B ^ n] := by
    apply Int.natCast_modEq_iff.mp; push_cast; exact h3
  have h1lt : 1 < B ^ n := by
    have h1 : B ^ 1 ≤ B ^ n := Nat.pow_le_pow_right B_pos hn
    rw [pow_one] at h1
    have hB : 1 < B := by simp [B_eq]
    omega
  unfold Nat.ModEq at h4
  rw [h4, Nat.mod_eq_of_lt h1lt]



/-! ### window sizes, the table of odd powers, mpn_powlo -/

theorem win_size_bounds (eb : Nat) : 1 ≤ win_size eb ∧ win_size eb ≤ 63 := by
  unfold win_size winTab
  simp only [winScan]
  split_ifs <;> omega

/-- for exponents `> 1` powlo.c's window size table gives the same width as powm.c's. -/
theorem win_size_lo_eq (eb : Nat) (h : 2 ≤ eb) : win_size_lo eb = win_size eb := by
  unfold win_size_lo win_size
  rw [winScan]
  simp only [show eb > 1 by omega, if_true]

theorem win_size_lo_bounds (eb : Nat) (h : 2 ≤ eb) : 1 ≤ win_size_lo eb ∧ win_size_lo eb ≤ 63 := by
  rw [win_size_lo_eq eb h]; exact win_size_bounds eb

theorem oddPowers_rel {α : Type} (mul : α → α → α) (b2 : α) (Rel : α → Nat → Prop)
    (hstep : ∀ x k, Rel x k → Rel (mul x b2) (k + 2)) (d : α) :
    ∀ (c : Nat) (x : α) (k : Nat), Rel x k → ∀ i, i ≤ c → Rel ((oddPowers mul b2 c x).getD i d) (k + 2 * i) := by
  intro c
  induction c with
  | zero =>
    intro x k hx i hi
    have : i = 0 := by omega
    subst this
    simpa [oddPowers] using hx
  | succ c ih =>
    intro x k hx i hi
    cases i with
    | zero => simpa [oddPowers] using hx
    | succ j =>
      have := ih (mul x b2) (k + 2) (hstep x k hx) j (by omega)
      have e : k + 2 + 2 * j = k + 2 * (j + 1) := by ring
      rw [e] at this
      simpa [oddPowers] using this

theorem sizeinbase2_ge_two (ep : List Nat) (hep : Norm ep) (hne : ep ≠ []) (h2 : 2 ≤ val ep) : 2 ≤ sizeinbase2 ep := by
  obtain ⟨h1, _, h3⟩ := sizeinbase2_spec ep hep.1 hne (hep.2 hne)
  by_contra hlt
  have : sizeinbase2 ep = 1 := by omega
  rw [this] at h3; simp at h3; omega

/-- mpn_powlo (value level model of powlo.c): `b^e mod B^n` for every `b`, every exponent `> 1` in normal form. -/
theorem mpn_powlo_val_spec (bp ep : List Nat) (n : Nat) (hbp : Limbs bp) (hep : Norm ep) (hne : ep ≠ [])
    (h2 : 2 ≤ val ep) : mpn_powlo_val bp ep n = val bp ^ val ep % B ^ n := by
  unfold mpn_powlo_val
  simp only
  set Bn := B ^ n with hBn
  set b := val (bp.take n) % Bn with hb
  have hbb : b = val bp % Bn := by rw [hb, ← val_take_mod bp hbp, Nat.mod_mod]
  obtain ⟨hw1, hw63⟩ := win_size_lo_bounds _ (sizeinbase2_ge_two ep hep hne h2)
  set w := win_size_lo (sizeinbase2 ep) with hw
  let Rel : Nat → Nat → Prop := fun x k => x = b ^ k % Bn
  have hsqr : ∀ r k, Rel r k → Rel ((r * r) % Bn) (2 * k) := by
    intro r k hr
    show (r * r) % Bn = b ^ (2 * k) % Bn
    rw [hr, ← Nat.mul_mod, ← pow_add]; congr 2; omega
  have hmulg : ∀ x y j k, Rel x j → Rel y k → Rel ((x * y) % Bn) (j + k) := by
    intro x y j k hx hy
    show (x * y) % Bn = b ^ (j + k) % Bn
    rw [hx, hy, ← Nat.mul_mod, ← pow_add]
  have hb1 : Rel b 1 := by show b = b ^ 1 % Bn; rw [pow_one, hb, Nat.mod_mod]
  have hb2 : Rel ((b * b) % Bn) 2 := hmulg b b 1 1 hb1 hb1
  have htab : ∀ i, i < 2 ^ (w - 1) →
      Rel ((oddPowers (fun x y => (x * y) % Bn) ((b * b) % Bn) (2 ^ (w - 1) - 1) b).getD i 0) (2 * i + 1) := by
    intro i hi
    have := oddPowers_rel (fun x y => (x * y) % Bn) ((b * b) % Bn) Rel
      (fun x k hx => hmulg x _ k 2 hx hb2) 0 (2 ^ (w - 1) - 1) b 1 hb1 i (by omega)
    rwa [Nat.add_comm] at this
  have hres := windowExp_rel (fun x => (x * x) % Bn) (fun x y => (x * y) % Bn)
    (fun i => (oddPowers (fun x y => (x * y) % Bn) ((b * b) % Bn) (2 ^ (w - 1) - 1) b).getD i 0) Rel
    ep hep.1 hne (hep.2 hne) w hw1 hw63 hsqr
    (fun r k i hi hr => hmulg r _ k (2 * i + 1) hr (htab i hi)) htab
  have : windowExp (fun x => (x * x) % Bn) (fun x y => (x * y) % Bn)
    (fun i => (oddPowers (fun x y => (x * y) % Bn) ((b * b) % Bn) (2 ^ (w - 1) - 1) b).getD i 0) ep (sizeinbase2 ep) w
      = b ^ val ep % Bn := hres
  rw [this, hbb, ← Nat.pow_mod]

theorem mpn_powlo_spec (bp ep : List Nat) (n : Nat) (hbp : Limbs bp) (hep : Norm ep) (hne : ep ≠ [])
    (h2 : 2 ≤ val ep) : val (mpn_powlo bp ep n) = val bp ^ val ep % B ^ n := by
  unfold mpn_powlo
  rw [val_toLimbs, mpn_powlo_val_spec bp ep n hbp hep hne h2, Nat.mod_mod]



/-! ### mpn_redc_n, the reducer of mpn_powm, mpn_powm -/

/-- mpn_redc_n (value level): result below `B^n`, `result·B^n ≡ u (mod m)`, and `≤ m` for `u < B^n`. -/
theorem redc_n_spec (u m n ip : Nat) (hm : 0 < m) (hmn : m < B ^ n) (hu : u < B ^ n * B ^ n)
    (hip : (ip * m) % B ^ n = 1 % B ^ n) :
    redc_n u m n ip < B ^ n ∧ (redc_n u m n ip * B ^ n ≡ u [MOD m]) ∧ (u < B ^ n → redc_n u m n ip ≤ m) := by
  unfold redc_n
  simp only
  set Bn := B ^ n with hBn
  have hBpos : 0 < Bn := Nat.pow_pos B_pos
  set X := (u % Bn * ip) % Bn with hX
  have hXlt : X < Bn := Nat.mod_lt _ hBpos
  -- low halves agree
  have hlow : (X * m) % Bn = u % Bn := by
    have h1 : X * m ≡ u % Bn * ip * m [MOD Bn] := (Nat.mod_modEq _ _).mul_right m
    have h2 : u % Bn * ip * m = u % Bn * (ip * m) := by ring
    have h3 : u % Bn * (ip * m) ≡ u % Bn * 1 [MOD Bn] := Nat.ModEq.mul_left _ hip
    have h4 : X * m ≡ u % Bn [MOD Bn] := by rw [h2] at h1; simpa using h1.trans h3
    unfold Nat.ModEq at h4; rw [h4, Nat.mod_mod]
  have huh : u / Bn % Bn = u / Bn := Nat.mod_eq_of_lt (Nat.div_lt_of_lt_mul hu)
  rw [huh]
  have hyh : X * m / Bn < m := by
    apply Nat.div_lt_of_lt_mul
    exact Nat.mul_lt_mul_of_pos_right hXlt hm
  have hu_split := Nat.div_add_mod u Bn
  have hy_split := Nat.div_add_mod (X * m) Bn
  rw [hlow] at hy_split
  generalize u / Bn = uh at *
  generalize X * m / Bn = yh at *
  generalize u % Bn = ul at *
  by_cases hlt : uh < yh
  · simp only [hlt, if_true]
    have hr : (uh + Bn - yh + m) % Bn = uh + m - yh := by
      have : uh + Bn - yh + m = (uh + m - yh) + Bn := by omega
      rw [this, Nat.add_mod_right, Nat.mod_eq_of_lt (by omega)]
    rw [hr]
    refine ⟨by omega, ?_, fun _ => by omega⟩
    -- (uh + m - yh)·Bn + X·m = u + m·Bn
    have e : (uh + m - yh) * Bn + X * m = u + Bn * m := by
      have h1 : (uh + m - yh) * Bn + yh * Bn = (uh + m) * Bn := by rw [← Nat.add_mul]; congr 1; omega
      nlinarith [h1, hu_split, hy_split]
    have h1 : (uh + m - yh) * Bn + X * m ≡ (uh + m - yh) * Bn [MOD m] := by
      unfold Nat.ModEq; rw [Nat.add_mul_mod_self_right]
    have h2 : u + Bn * m ≡ u [MOD m] := by unfold Nat.ModEq; rw [Nat.add_mul_mod_self_right]
    exact h1.symm.trans (e ▸ h2)
  · simp only [hlt, if_false]
    refine ⟨by have : uh < Bn := by rw [← huh]; exact Nat.mod_lt _ hBpos
               omega, ?_, ?_⟩
    · have e : (uh - yh) * Bn + X * m = u := by
        have h1 : (uh - yh) * Bn + yh * Bn = uh * Bn := by rw [← Nat.add_mul]; congr 1; omega
        nlinarith [h1, hu_split, hy_split]
      have h1 : (uh - yh) * Bn + X * m ≡ (uh - yh) * Bn [MOD m] := by
        unfold Nat.ModEq; rw [Nat.add_mul_mod_self_right]
      exact h1.symm.trans (by rw [e])
    · intro hul
      have : uh = 0 := by
        by_contra h0
        have : Bn * 1 ≤ Bn * uh := Nat.mul_le_mul_left _ (by omega)
        omega
      omega


theorem val_mod_two (l : List Nat) : val l % 2 = l.headD 0 % 2 := by
  cases l with
  | nil => simp
  | cons x xs =>
    simp only [val_cons, List.headD_cons]
    have : B = 2 * 2 ^ 63 := by rw [B_eq_two_pow]; rfl
    rw [this, Nat.mul_assoc, Nat.add_mul_mod_self_left]

/-- the reduction used by mpn_powm (redc_1 below the threshold, redc_n above): on `x < B^(2n)` it returns
    a residue `< B^n` with `red x · B^n ≡ x (mod m)`; on `x < B^n` the result is `≤ m`. -/
theorem reducer_spec (thr : Nat) (mp : List Nat) (hmp : Limbs mp) (hn : 1 ≤ mp.length) (hodd : val mp % 2 = 1) :
    ∀ x, x < B ^ mp.length * B ^ mp.length →
      reducer thr mp x < B ^ mp.length ∧ (reducer thr mp x * B ^ mp.length ≡ x [MOD val mp]) ∧
      (x < B ^ mp.length → reducer thr mp x ≤ val mp) := by
  intro x hx
  have hm0 : mp.headD 0 % 2 = 1 := by rw [← val_mod_two]; exact hodd
  have hmlt := val_lt mp hmp
  unfold reducer
  simp only
  by_cases hthr : mp.length < thr
  · simp only [hthr, if_true]
    have hhd : mp.headD 1 = mp.headD 0 := by
      cases mp with
      | nil => simp at hn
      | cons a l => rfl
    have hinv := neg_modlimb_invert_spec (mp.headD 0) hm0
    rw [← hhd] at hinv
    rw [hhd] at hinv
    have hx2 : x < B ^ (2 * mp.length) := by rw [two_mul, pow_add]; exact hx
    have htv : val (toLimbs (2 * mp.length) x) = x := val_toLimbs_lt _ _ hx2
    obtain ⟨Q, k, hQ, hk, he, hL, hlen⟩ := redc_1_identity (toLimbs (2 * mp.length) x) mp
      ((B - modlimb_invert (mp.headD 1)) % B) hn (Limbs_toLimbs _ _) hmp (toLimbs_length _ _) (by rw [hhd]; exact hinv)
    rw [htv] at he
    have hlt := val_lt _ hL
    rw [hlen] at hlt
    generalize val (redc_1 (toLimbs (2 * mp.length) x) mp ((B - modlimb_invert (mp.headD 1)) % B)) = r at *
    set N := B ^ mp.length with hN
    have hNpos : 0 < N := Nat.pow_pos B_pos
    refine ⟨hlt, ?_, ?_⟩
    · have e : r * N + (k * N) * val mp = x + Q * val mp := by rw [← he]; ring
      have h2 : r * N + (k * N) * val mp ≡ r * N [MOD val mp] := by
        unfold Nat.ModEq; rw [Nat.add_mul_mod_self_right]
      have h3 : x + Q * val mp ≡ x [MOD val mp] := by
        unfold Nat.ModEq; rw [Nat.add_mul_mod_self_right]
      exact h2.symm.trans (e ▸ h3)
    · intro hxN
      have h1 : N * (r + k * val mp) < N * (1 + val mp) := by
        have e : N * (r + k * val mp) = x + Q * val mp := by rw [← he]; ring
        have : Q * val mp ≤ N * val mp := Nat.mul_le_mul_right _ (le_of_lt hQ)
        rw [e, Nat.mul_add, Nat.mul_one]; omega
      have := Nat.lt_of_mul_lt_mul_left h1
      have hk0 : 0 ≤ k * val mp := Nat.zero_le _
      omega
  · simp only [hthr, if_false]
    have hip := binvert_spec (val mp) mp.length hn hodd
    have h1lt : 1 < B ^ mp.length := by
      have h1 : B ^ 1 ≤ B ^ mp.length := Nat.pow_le_pow_right B_pos hn
      rw [pow_one] at h1
      have hB : 1 < B := by simp [B_eq]
      omega
    exact redc_n_spec x (val mp) mp.length _ (by omega) hmlt hx (by rw [hip, Nat.mod_eq_of_lt h1lt])

/-- mpn_powm (value-level model of mpn/generic/powm.c over the limb-level redc_1): for every odd modulus
    of `n ≥ 1` limbs, every base, every exponent `> 1` in normal form and every REDC threshold, the
    result is `b^e mod m`. -/
theorem mpn_powm_val_spec (thr : Nat) (bp ep mp : List Nat) (hep : Norm ep) (hne : ep ≠ [])
    (hmp : Limbs mp) (hn : 1 ≤ mp.length) (hodd : val mp % 2 = 1) :
    mpn_powm_val thr bp ep mp = val bp ^ val ep % val mp := by
  have hred := reducer_spec thr mp hmp hn hodd
  unfold mpn_powm_val
  simp only
  set red := reducer thr mp with hredd
  set N := B ^ mp.length with hN
  set m := val mp with hm
  set b := val bp with hb
  have hNpos : 0 < N := Nat.pow_pos B_pos
  have hmpos : 0 < m := by omega
  have hmlt : m < N := val_lt mp hmp
  have hcop : Nat.gcd m N = 1 := by
    have : N = 2 ^ (64 * mp.length) := by rw [hN, B_eq_two_pow, ← pow_mul]
    rw [this]; exact (coprime_two_pow_odd _ m hodd).symm
  obtain ⟨hw1, hw63⟩ := win_size_bounds (sizeinbase2 ep)
  set w := win_size (sizeinbase2 ep) with hw
  let Rel : Nat → Nat → Prop := fun x k => x < N ∧ x ≡ b ^ k * N [MOD m]
  have hmulg : ∀ x y j k, Rel x j → Rel y k → Rel (red (x * y)) (j + k) := by
    intro x y j k hx hy
    have hxy : x * y < N * N := Nat.mul_lt_mul'' hx.1 hy.1
    obtain ⟨h1, h2, _⟩ := hred (x * y) hxy
    refine ⟨h1, ?_⟩
    have h3 : x * y ≡ (b ^ j * N) * (b ^ k * N) [MOD m] := hx.2.mul hy.2
    have h4 : (b ^ j * N) * (b ^ k * N) = (b ^ (j + k) * N) * N := by rw [pow_add]; ring
    rw [h4] at h3
    exact Nat.ModEq.cancel_right_of_coprime hcop (h2.trans h3)
  have hsqr : ∀ r k, Rel r k → Rel (red (r * r)) (2 * k) := by
    intro r k hr
    have := hmulg r r k k hr hr
    rwa [← two_mul] at this
  have hpp0 : Rel ((b * N) % m) 1 := by
    refine ⟨lt_trans (Nat.mod_lt _ hmpos) hmlt, ?_⟩
    rw [pow_one]; exact Nat.mod_modEq _ _
  have hb2 : Rel (red ((b * N) % m * ((b * N) % m))) 2 := hmulg _ _ 1 1 hpp0 hpp0
  set pp0 := (b * N) % m with hpp0d
  set b2 := red (pp0 * pp0) with hb2d
  have htab : ∀ i, i < 2 ^ (w - 1) →
      Rel ((oddPowers (fun x y => red (x * y)) b2 (2 ^ (w - 1) - 1) pp0).getD i 0) (2 * i + 1) := by
    intro i hi
    have := oddPowers_rel (fun x y => red (x * y)) b2 Rel
      (fun x k hx => hmulg x _ k 2 hx hb2) 0 (2 ^ (w - 1) - 1) pp0 1 hpp0 i (by omega)
    rwa [Nat.add_comm] at this
  have hres := windowExp_rel (fun x => red (x * x)) (fun x y => red (x * y))
    (fun i => (oddPowers (fun x y => red (x * y)) b2 (2 ^ (w - 1) - 1) pp0).getD i 0) Rel
    ep hep.1 hne (hep.2 hne) w hw1 hw63 hsqr
    (fun r k i hi hr => hmulg r _ k (2 * i + 1) hr (htab i hi)) htab
  generalize windowExp (fun x => red (x * x)) (fun x y => red (x * y))
    (fun i => (oddPowers (fun x y => red (x * y)) b2 (2 ^ (w - 1) - 1) pp0).getD i 0) ep (sizeinbase2 ep) w = r at *
  obtain ⟨hrlt, hrc⟩ := hres
  obtain ⟨_, h2', h3'⟩ := hred r (lt_of_lt_of_le hrlt (Nat.le_mul_of_pos_left _ hNpos))
  have hle := h3' hrlt
  have hc : red r ≡ b ^ val ep [MOD m] := Nat.ModEq.cancel_right_of_coprime hcop (h2'.trans hrc)
  by_cases hge : red r ≥ m
  · simp only [hge, if_true]
    have : red r = m := by omega
    rw [this] at hc ⊢
    unfold Nat.ModEq at hc
    rw [← hc]; simp
  · simp only [hge, if_false]
    unfold Nat.ModEq at hc
    rw [← hc, Nat.mod_eq_of_lt (by omega)]



/-! ### mpn_rshift (kernel model) and the stripping of the modulus -/

/-- one limb of mpn_rshift: `(x >> cnt) | ((y << (64-cnt)) mod B) = x/2^cnt + 2^(64-cnt)·(y mod 2^cnt)`. -/
theorem rshift_limb (x y cnt : Nat) (hx : x < B) (hc1 : 1 ≤ cnt) (hc : cnt ≤ 63) :
    (x >>> cnt) ||| ((y <<< (64 - cnt)) % B) = x / 2 ^ cnt + 2 ^ (64 - cnt) * (y % 2 ^ cnt) := by
  have hB : B = 2 ^ cnt * 2 ^ (64 - cnt) := B_split cnt (by omega)
  have h1 : (y <<< (64 - cnt)) % B = (y % 2 ^ cnt) <<< (64 - cnt) := by
    rw [Nat.shiftLeft_eq, Nat.shiftLeft_eq, hB, Nat.mul_mod_mul_right]
  have h2 : x >>> cnt < 2 ^ (64 - cnt) := by
    rw [Nat.shiftRight_eq_div_pow]
    apply Nat.div_lt_of_lt_mul
    rw [← hB]; exact hx
  rw [h1, Nat.or_comm, ← Nat.shiftLeft_add_eq_or_of_lt h2, Nat.shiftLeft_eq, Nat.shiftRight_eq_div_pow]
  ring

theorem rshiftGo_val (cnt : Nat) (hc1 : 1 ≤ cnt) (hc : cnt ≤ 63) :
    ∀ (l : List Nat), Limbs l →
      val (rshiftGo cnt l) = val l / 2 ^ cnt ∧ Limbs (rshiftGo cnt l) ∧ (rshiftGo cnt l).length = l.length
  | [], _ => by simp [rshiftGo, Limbs_nil]
  | [x], h => by
    have hx := (Limbs_cons.mp h).1
    simp only [rshiftGo, val_cons, val_nil, Nat.mul_zero, Nat.add_zero, List.length_singleton, Nat.shiftRight_eq_div_pow]
    exact ⟨trivial, Limbs_cons.mpr ⟨lt_of_le_of_lt (Nat.div_le_self _ _) hx, Limbs_nil⟩, trivial⟩
  | x :: y :: ys, h => by
    have ⟨hx, hys⟩ := Limbs_cons.mp h
    have hy := (Limbs_cons.mp hys).1
    obtain ⟨iv, iL, il⟩ := rshiftGo_val cnt hc1 hc (y :: ys) hys
    have hB : B = 2 ^ cnt * 2 ^ (64 - cnt) := B_split cnt (by omega)
    have hpos : 0 < 2 ^ cnt := two_pow_pos _
    simp only [rshiftGo, val_cons, List.length_cons] at iv il ⊢
    rw [rshift_limb x y cnt hx hc1 hc]
    refine ⟨?_, Limbs_cons.mpr ⟨?_, iL⟩, by rw [il]⟩
    · rw [iv]
      -- (x + B (y + B v)) / 2^c = x/2^c + 2^(64-c) (y + B v)
      have e1 : (x + B * (y + B * val ys)) / 2 ^ cnt = x / 2 ^ cnt + 2 ^ (64 - cnt) * (y + B * val ys) := by
        rw [hB, Nat.mul_assoc, Nat.add_mul_div_left _ _ hpos]
      have e2 : (y + B * val ys) / 2 ^ cnt = y / 2 ^ cnt + 2 ^ (64 - cnt) * val ys := by
        rw [hB, Nat.mul_assoc, Nat.add_mul_div_left _ _ hpos]
      rw [e1, e2]
      have hy' := Nat.div_add_mod y (2 ^ cnt)
      generalize y / 2 ^ cnt = yq at *
      generalize y % 2 ^ cnt = yr at *
      generalize x / 2 ^ cnt = xq at *
      rw [← hy', hB]; ring
    · have h1 : x / 2 ^ cnt < 2 ^ (64 - cnt) := by
        apply Nat.div_lt_of_lt_mul; rw [← hB]; exact hx
      have h2 : y % 2 ^ cnt < 2 ^ cnt := Nat.mod_lt _ hpos
      have h3 : 2 ^ (64 - cnt) * (y % 2 ^ cnt + 1) ≤ 2 ^ (64 - cnt) * 2 ^ cnt := Nat.mul_le_mul_left _ h2
      rw [hB, Nat.mul_comm (2 ^ cnt)]
      rw [Nat.mul_add, Nat.mul_one] at h3
      omega

theorem rshift_val (l : List Nat) (cnt : Nat) (hl : Limbs l) (hc1 : 1 ≤ cnt) (hc : cnt ≤ 63) :
    val (rshift l cnt).1 = val l / 2 ^ cnt ∧ Limbs (rshift l cnt).1 ∧ (rshift l cnt).1.length = l.length :=
  rshiftGo_val cnt hc1 hc l hl


/-- stripping the low zero limbs: `mp = 0^k ++ rest`, the head of `rest` is non-zero. -/
theorem strip_zero_limbs (l : List Nat) :
    val l = B ^ (l.takeWhile (· == 0)).length * val (l.drop (l.takeWhile (· == 0)).length) ∧
    (l.takeWhile (· == 0)).length ≤ l.length ∧
    (∀ x xs, l.drop (l.takeWhile (· == 0)).length = x :: xs → x ≠ 0) := by
  induction l with
  | nil => simp
  | cons a l ih =>
    by_cases ha : a = 0
    · subst ha
      obtain ⟨h1, h2, h3⟩ := ih
      simp only [List.takeWhile_cons, beq_self_eq_true, if_true, List.length_cons, List.drop_succ_cons, val_cons,
        Nat.zero_add, pow_succ]
      refine ⟨?_, by omega, h3⟩
      rw [h1]; ring
    · have : (a == 0) = false := by simpa using ha
      simp only [List.takeWhile_cons, this, Bool.false_eq_true, if_false, List.length_nil, List.drop_zero, pow_zero, Nat.one_mul]
      refine ⟨trivial, Nat.zero_le _, ?_⟩
      intro x xs h; injection h with h1 _; rw [← h1]; exact ha

/-- powm.c:153-171.  For a modulus in normal form: the odd part `modd = mp'[0..nodd)`, and the number of
    low zero bits `t = tbits ncnt cnt` when `ncnt ≠ 0`. -/
theorem stripM_spec (mp : List Nat) (hm : Norm mp) (hne : mp ≠ []) :
    let modd := (stripM mp).1.take (stripM mp).2.1
    let nodd := (stripM mp).2.1
    let ncnt := (stripM mp).2.2.1
    let cnt := (stripM mp).2.2.2
    Limbs modd ∧ modd.length = nodd ∧ 1 ≤ nodd ∧ val modd % 2 = 1 ∧ cnt < 64 ∧ nodd ≤ mp.length ∧
    mp.length ≤ nodd + ncnt ∧ ncnt ≤ mp.length ∧
    (ncnt = 0 → val modd = val mp) ∧ (ncnt ≠ 0 → val mp = 2 ^ tbits ncnt cnt * val modd) := by
  obtain ⟨hz1, hz2, hz3⟩ := strip_zero_limbs mp
  have hmpos := Norm_pos mp hm hne
  unfold stripM
  simp only
  generalize hk : (mp.takeWhile (· == 0)).length = k at *
  -- the rest is non-empty with non-zero head
  have hrest : mp.drop k ≠ [] := by
    intro h; rw [h] at hz1; simp at hz1; omega
  obtain ⟨m0, rest, hmr⟩ := List.exists_cons_of_ne_nil hrest
  have hm0 : m0 ≠ 0 := hz3 m0 rest hmr
  have hdL : Limbs (mp.drop k) := Limbs_drop hm.1 _
  have hm0lt : m0 < B := by rw [hmr] at hdL; exact (Limbs_cons.mp hdL).1
  have hdlen : (mp.drop k).length = mp.length - k := List.length_drop
  have hklt : k < mp.length := by
    have : 0 < (mp.drop k).length := List.length_pos_of_ne_nil hrest
    omega
  have hhead : (mp.drop k).headD 1 = m0 := by rw [hmr]; rfl
  rw [hhead]
  by_cases hev : m0 % 2 = 0
  · simp only [hev, if_true]
    obtain ⟨hc1, hc2⟩ := ctz_spec m0 hm0 (by rw [← B_eq_two_pow]; exact hm0lt)
    have hcpos : 1 ≤ ctz m0 := by
      by_contra h0
      have : ctz m0 = 0 := by omega
      rw [this] at hc1 hc2; simp at hc1 hc2; omega
    have hc63 : ctz m0 ≤ 63 := by
      by_contra hge
      have h1 : 2 ^ 64 ≤ 2 ^ ctz m0 := Nat.pow_le_pow_right (by decide) (by omega)
      have hq : 0 < m0 >>> ctz m0 := by
        rcases Nat.eq_zero_or_pos (m0 >>> ctz m0) with h | h
        · rw [h] at hc2; simp at hc2
        · exact h
      have h2 : 2 ^ ctz m0 ≤ 2 ^ ctz m0 * (m0 >>> ctz m0) := Nat.le_mul_of_pos_right _ hq
      rw [B_eq_two_pow] at hm0lt
      generalize 2 ^ ctz m0 * (m0 >>> ctz m0) = prod at *
      omega
    generalize ctz m0 = cnt at *
    obtain ⟨rv, rL, rl⟩ := rshift_val (mp.drop k) cnt hdL hcpos hc63
    generalize (rshift (mp.drop k) cnt).1 = newmp at *
    rw [hdlen] at rl
    -- val newmp is odd
    have hpos : 0 < 2 ^ cnt := two_pow_pos _
    have hB : B = 2 ^ cnt * 2 ^ (64 - cnt) := B_split cnt (by omega)
    have hnv : val newmp = (m0 >>> cnt) + 2 ^ (64 - cnt) * val rest := by
      rw [rv, hmr, val_cons, hB, Nat.mul_assoc, Nat.add_mul_div_left _ _ hpos, Nat.shiftRight_eq_div_pow]
    have hnodd : val newmp % 2 = 1 := by
      have : 2 ^ (64 - cnt) = 2 * 2 ^ (63 - cnt) := by rw [← pow_succ']; congr 1; omega
      rw [hnv, this, Nat.mul_assoc, Nat.add_mul_mod_self_left]; exact hc2
    have hdiv : val (mp.drop k) = 2 ^ cnt * val newmp := by
      rw [hnv, hmr, val_cons, Nat.mul_add, ← hc1, ← Nat.mul_assoc, ← hB]
    -- dropping a zero top limb does not change the value
    set nodd0 := mp.length - k with hnodd0
    have htake : val (newmp.take (nodd0 - (if newmp.getD (nodd0 - 1) 0 = 0 then 1 else 0))) = val newmp := by
      split
      · rename_i h0
        have h1 := val_take_succ newmp (nodd0 - 1)
        have e : nodd0 - 1 + 1 = nodd0 := by omega
        rw [e, h0, Nat.mul_zero, Nat.add_zero, take_length_eq newmp nodd0 rl] at h1
        exact h1.symm
      · simp only [Nat.sub_zero]; rw [take_length_eq newmp nodd0 rl]
    have hnz : newmp.getD (nodd0 - 1) 0 = 0 → 2 ≤ nodd0 := by
      intro h0
      by_contra hlt
      have h1 : nodd0 = 1 := by omega
      rw [h1] at h0
      -- newmp[0] = val newmp % B is odd
      have : newmp.getD 0 0 = newmp.headD 0 := by cases newmp <;> rfl
      rw [this] at h0
      have := val_mod_two newmp
      rw [h0] at this; omega
    refine ⟨Limbs_take rL _, ?_, ?_, by rw [htake]; exact hnodd, by omega, ?_, ?_, by omega, by omega, ?_⟩
    · rw [List.length_take, rl]; split <;> omega
    · split
      · rename_i h0; have := hnz h0; omega
      · omega
    · split <;> omega
    · split <;> omega
    · intro _
      rw [htake, hz1, hdiv, tbits_eq]
      have hc0 : cnt ≠ 0 := by omega
      simp only [hc0, if_false, Nat.add_sub_cancel]
      rw [B_eq_two_pow, ← pow_mul, pow_add, Nat.mul_comm 64 k]; ring
  · simp only [hev, if_false]
    have hodd : m0 % 2 = 1 := by omega
    have htake : (mp.drop k).take (mp.length - k) = mp.drop k := take_length_eq _ _ hdlen
    rw [htake]
    have hvodd : val (mp.drop k) % 2 = 1 := by rw [val_mod_two, hmr]; exact hodd
    refine ⟨hdL, hdlen, by omega, hvodd, by omega, by omega, by omega, by omega, ?_, ?_⟩
    · intro h0; subst h0; rfl
    · intro _
      rw [hz1, tbits_eq]; simp only [if_true]
      rw [B_eq_two_pow, ← pow_mul, Nat.mul_comm 64 k]



/-! ### the main path of mpz_powm -/

/-- the tail of mpz_powm (powm.c:270-277): normalise, then `m − r` for a negative base and odd exponent. -/
theorem negfix_correct (c : Bool) (rp mp : List Nat) (hrL : Limbs rp) (hrl : rp.length = mp.length)
    (hm : Limbs mp) (hlt : val rp < val mp) :
    let rn := mpnNormalize rp mp.length
    let p := if (c && rn != 0) = true then ((sub mp (rp.take rn)).1, mpnNormalize (sub mp (rp.take rn)).1 mp.length)
             else (rp, rn)
    (Res.mk p.1 p.2).wf = true ∧
    ((val (p.1.take p.2) : Nat) : Int) = (if c then -(val rp : Int) else (val rp : Int)) % (val mp : Int) := by
  intro rn p
  have hmpos : 0 < val mp := by omega
  have hnv := normalize_val_full rp mp.length hrl
  by_cases hc : (c && rn != 0) = true
  · have hp : p = ((sub mp (rp.take rn)).1, mpnNormalize (sub mp (rp.take rn)).1 mp.length) := by
      simp only [p, hc, if_true]
    rw [hp]
    simp only [Bool.and_eq_true, bne_iff_ne, ne_eq] at hc
    obtain ⟨hneg, hrn⟩ := hc
    have hle : val (rp.take rn) ≤ val mp := by rw [hnv]; omega
    have hlen : (rp.take rn).length ≤ mp.length := by
      rw [List.length_take]; exact le_trans (Nat.min_le_left _ _) (mpnNormalize_le _ _)
    obtain ⟨sv, sl, sn⟩ := sub_exact mp _ hm (Limbs_take hrL _) hlen hle
    refine ⟨wf_normalize _ _, ?_⟩
    simp only
    rw [normalize_val_full _ _ sn, sv, hnv, hneg]
    simp only [if_true]
    rw [neg_emod_nat _ _ hmpos, Nat.mod_eq_of_lt hlt]
    have hpos : 0 < val (rp.take rn) := by
      have := val_take_pos_of_getD rp _ (mpnNormalize_top rp mp.length hrn)
      have e : mpnNormalize rp mp.length - 1 + 1 = mpnNormalize rp mp.length := by omega
      rwa [e] at this
    rw [hnv] at hpos
    simp only [Nat.ne_of_gt hpos, if_false]
  · have hp : p = (rp, rn) := by simp only [p, hc, Bool.false_eq_true, if_false]
    rw [hp]
    refine ⟨wf_normalize _ _, ?_⟩
    simp only
    rw [hnv]
    cases c with
    | false =>
      simp only [Bool.false_eq_true, if_false]
      rw [Int.emod_eq_of_lt (Int.natCast_nonneg _) (by exact_mod_cast hlt)]
    | true =>
      simp only [Bool.true_and, bne_iff_ne, ne_eq, Decidable.not_not] at hc
      have hz := mpnNormalize_eq_zero rp mp.length hc
      rw [take_length_eq rp _ hrl] at hz
      simp only [if_true]
      rw [hz]; simp


/-- the vector `rp[0..n)` before normalisation in the main path: `b^e mod m`, `n` proper limbs. -/
theorem powmMain_rp (bp ep mp : List Nat) (hb : Limbs bp) (hbne : bp ≠ []) (hep : Norm ep) (hepne : ep ≠ [])
    (h2 : 2 ≤ val ep) (hm : Norm mp) (hmne : mp ≠ []) (hsz : mp.length * 64 < B) :
    let modd := (stripM mp).1.take (stripM mp).2.1
    let rodd := mpn_powm bp ep modd
    let rp := if ((stripM mp).2.2.1 != 0) = true
      then powmEven mp.length bp ep modd (stripM mp).2.1 (stripM mp).2.2.1 (stripM mp).2.2.2 rodd else rodd
    val rp = val bp ^ val ep % val mp ∧ Limbs rp ∧ rp.length = mp.length := by
  obtain ⟨hL, hlen, hn1, hodd, hcnt, hle, hle2, hle3, h0, h1⟩ := stripM_spec mp hm hmne
  simp only at hL hlen hn1 hodd hcnt hle hle2 hle3 h0 h1 ⊢
  have hmpos := Norm_pos mp hm hmne
  generalize (stripM mp).1.take (stripM mp).2.1 = modd at *
  generalize (stripM mp).2.1 = nodd at *
  generalize (stripM mp).2.2.1 = ncnt at *
  generalize (stripM mp).2.2.2 = cnt at *
  have hmoddpos : 0 < val modd := by omega
  have hmoddlt : val modd < B ^ nodd := by rw [← hlen]; exact val_lt modd hL
  have hroddeq : mpn_powm bp ep modd = toLimbs nodd (val bp ^ val ep % val modd) := by
    unfold mpn_powm
    rw [mpn_powm_val_spec _ bp ep modd hep hepne hL (by omega) hodd, hlen]
  by_cases hz : ncnt = 0
  · subst hz
    have : ((0 : Nat) != 0) = false := rfl
    simp only [this, Bool.false_eq_true, if_false]
    have hn : nodd = mp.length := by omega
    rw [hroddeq, val_toLimbs_lt _ _ (lt_trans (Nat.mod_lt _ hmoddpos) hmoddlt), h0 rfl]
    exact ⟨rfl, Limbs_toLimbs _ _, by rw [toLimbs_length, hn]⟩
  · have : (ncnt != 0) = true := by simpa using hz
    simp only [this, if_true]
    have hfit : 2 ^ tbits ncnt cnt * val modd < B ^ mp.length := by rw [← h1 hz]; exact val_lt mp hm.1
    obtain ⟨ev, eL, el⟩ := powmEven_correct mp.length bp ep modd (mpn_powm bp ep modd) nodd ncnt cnt hb hbne hep hepne
      hL hlen hodd (by omega) hcnt hle hle2 hfit (by omega) hroddeq
      (fun bq hbq => mpn_powlo_spec bq ep ncnt hbq hep hepne h2)
      (fun u hu => binvert_spec u ncnt (by omega) hu)
    rw [h1 hz]
    exact ⟨ev, eL, el⟩

theorem powmMain_correct (bneg : Bool) (bp ep mp : List Nat) (hb : Limbs bp) (hbne : bp ≠ []) (hep : Norm ep)
    (hepne : ep ≠ []) (h2 : 2 ≤ val ep) (hm : Norm mp) (hmne : mp ≠ []) (hsz : mp.length * 64 < B) :
    (Res.mk (powmMain bneg bp ep mp).1 (powmMain bneg bp ep mp).2).wf = true ∧
    ((val ((powmMain bneg bp ep mp).1.take (powmMain bneg bp ep mp).2) : Nat) : Int) =
      (if (decide (ep.headD 0 % 2 = 1) && bneg) = true then -((val bp ^ val ep % val mp : Nat) : Int)
       else ((val bp ^ val ep % val mp : Nat) : Int)) % (val mp : Int) := by
  obtain ⟨rv, rL, rl⟩ := powmMain_rp bp ep mp hb hbne hep hepne h2 hm hmne hsz
  have hmpos := Norm_pos mp hm hmne
  have hdef : powmMain bneg bp ep mp =
      (let modd := (stripM mp).1.take (stripM mp).2.1
       let rodd := mpn_powm bp ep modd
       let rp := if ((stripM mp).2.2.1 != 0) = true
         then powmEven mp.length bp ep modd (stripM mp).2.1 (stripM mp).2.2.1 (stripM mp).2.2.2 rodd else rodd
       let rn := mpnNormalize rp mp.length
       if ((decide (ep.headD 0 % 2 = 1) && bneg) && rn != 0) = true
       then ((sub mp (rp.take rn)).1, mpnNormalize (sub mp (rp.take rn)).1 mp.length) else (rp, rn)) := rfl
  rw [hdef]
  simp only
  generalize (if ((stripM mp).2.2.1 != 0) = true then _ else _ : List Nat) = rp at *
  have hlt : val rp < val mp := by rw [rv]; exact Nat.mod_lt _ hmpos
  have := negfix_correct (decide (ep.headD 0 % 2 = 1) && bneg) rp mp rL rl hm.1 hlt
  simp only at this
  rw [rv] at this
  exact this


theorem norm_val_ge_two (ep : List Nat) (hep : Norm ep) (hne : ep ≠ [])
    (hnot : ¬ (ep.length = 1 ∧ ep.headD 0 = 1)) : 2 ≤ val ep := by
  have hge := Norm_ge ep hep hne
  match ep, hne with
  | [x], _ =>
    have hx : x ≠ 0 := by simpa using hep.2 (by simp)
    simp at hnot ⊢; omega
  | x :: y :: l, _ =>
    simp only [List.length_cons] at hge
    have : B ^ 1 ≤ B ^ (l.length + 1 + 1 - 1) := Nat.pow_le_pow_right B_pos (by omega)
    rw [pow_one] at this
    have hB : 2 ≤ B := by simp [B_eq]
    omega

/-- powm.c:104-284 after the exponent's sign has been dealt with: `(±x)^e mod m` for `e ≥ 1`. -/
theorem powmGo_correct (ep mp : List Nat) (bneg : Bool) (x : Nat) (hep : Norm ep) (hepne : ep ≠ [])
    (hm : Norm mp) (hmne : mp ≠ []) (hsz : mp.length * 64 < B) :
    (powmGo ep mp bneg (natLimbs x)).value? =
      some ((if bneg then -(x : Int) else (x : Int)) ^ val ep % (val mp : Int)) ∧
    (powmGo ep mp bneg (natLimbs x)).wf = true := by
  have hepos : 0 < val ep := Norm_pos ep hep hepne
  have hmpos : 0 < val mp := Norm_pos mp hm hmne
  unfold powmGo
  by_cases hx : x = 0
  · subst hx
    simp only [natLimbs_zero, List.length_nil, if_true, Res.value?, Res.wf, List.take_nil, val_nil]
    refine ⟨?_, by simp⟩
    have : (if bneg then -((0 : Nat) : Int) else ((0 : Nat) : Int)) = 0 := by cases bneg <;> simp
    rw [this, zero_pow (Nat.ne_of_gt hepos)]; simp
  · have hbne : natLimbs x ≠ [] := fun h => hx ((natLimbs_eq_nil _).mp h)
    have hl : (natLimbs x).length ≠ 0 := fun h => hbne (List.length_eq_zero_iff.mp h)
    simp only [hl, if_false]
    have hbN := Norm_natLimbs x
    by_cases he1 : (ep.length = 1 && ep.headD 0 = 1) = true
    · simp only [he1, if_true]
      have hv1 : val ep = 1 := by
        simp only [Bool.and_eq_true, decide_eq_true_eq] at he1
        match ep, he1 with
        | [y], ⟨_, h⟩ => simp at h; simp [h]
      obtain ⟨hw, hv⟩ := powmE1_correct bneg (natLimbs x) mp hbN hbne hm hmne
      refine ⟨?_, hw⟩
      unfold Res.value?
      simp only [Option.some.injEq]
      rw [hv, val_natLimbs, hv1, pow_one]
    · simp only [he1, Bool.false_eq_true, if_false]
      have h2 : 2 ≤ val ep := norm_val_ge_two ep hep hepne (by simpa using he1)
      obtain ⟨hw, hv⟩ := powmMain_correct bneg (natLimbs x) ep mp hbN.1 hbne hep hepne h2 hm hmne hsz
      refine ⟨?_, hw⟩
      unfold Res.value?
      simp only [Option.some.injEq]
      rw [hv, val_natLimbs]
      have hpar : ep.headD 0 % 2 = val ep % 2 := (val_mod_two ep).symm
      have hPm : ((x ^ val ep % val mp : Nat) : Int) ≡ (x : Int) ^ val ep [ZMOD (val mp : Int)] := by
        have := natCast_mod_modEq (x ^ val ep) (val mp)
        push_cast at this ⊢; exact this
      cases bneg with
      | false =>
        simp only [Bool.and_false, Bool.false_eq_true, if_false]
        exact hPm
      | true =>
        simp only [Bool.and_true, decide_eq_true_eq, if_true]
        by_cases hodd : ep.headD 0 % 2 = 1
        · simp only [hodd, if_true]
          have ho : Odd (val ep) := Nat.odd_iff.mpr (by omega)
          rw [ho.neg_pow]
          exact hPm.neg
        · simp only [hodd, if_false]
          have hev : Even (val ep) := Nat.even_iff.mpr (by omega)
          rw [hev.neg_pow]
          exact hPm



/-! ### mpz_n_pow_ui -/

/-- left-to-right square-and-multiply over a list of bits (most significant first). -/
theorem sqrMulLoop_spec (b : Nat) : ∀ (bits : List Bool) (r h : Nat), r = b ^ h →
    sqrMulLoop b bits r = b ^ (bits.foldl (fun a bit => 2 * a + (if bit then 1 else 0)) h)
  | [], r, h, hr => by simpa [sqrMulLoop] using hr
  | bit :: rest, r, h, hr => by
    simp only [sqrMulLoop, List.foldl_cons]
    apply sqrMulLoop_spec b rest
    cases bit with
    | true => simp only [if_true]; rw [hr, ← pow_add, ← pow_succ]; congr 1; omega
    | false => simp only [Bool.false_eq_true, if_false]; rw [hr, ← pow_add]; congr 1; omega

/-- the bits of `e` below position `L`, most significant first, fold back to `e mod 2^L`. -/
theorem lowerBits_fold (e : Nat) : ∀ (L h : Nat),
    ((List.range L).reverse.map (fun i => e.testBit i)).foldl (fun a bit => 2 * a + (if bit then 1 else 0)) h
      = h * 2 ^ L + e % 2 ^ L
  | 0, h => by simp [Nat.mod_one]
  | L + 1, h => by
    rw [List.range_succ, List.reverse_append, List.reverse_singleton, List.singleton_append, List.map_cons,
      List.foldl_cons, lowerBits_fold e L]
    have hbit : (if e.testBit L = true then 1 else 0) = e / 2 ^ L % 2 := by
      rw [Nat.testBit_eq_decide_div_mod_eq]
      by_cases h1 : e / 2 ^ L % 2 = 1
      · simp [h1]
      · have : e / 2 ^ L % 2 = 0 := by omega
        simp [this]
    rw [hbit, Nat.mod_pow_succ (k := L), pow_succ]; ring

theorem lowerBits_spec (e : Nat) (he : e ≠ 0) :
    (lowerBits e).foldl (fun a bit => 2 * a + (if bit then 1 else 0)) 1 = e := by
  unfold lowerBits
  rw [lowerBits_fold, Nat.one_mul]
  have h1 : 2 ^ e.log2 ≤ e := Nat.log2_self_le he
  have h2 : e < 2 ^ (e.log2 + 1) := Nat.lt_log2_self
  rw [pow_succ] at h2
  have : e % 2 ^ e.log2 = e - 2 ^ e.log2 := by
    rw [Nat.mod_eq_sub_mod h1, Nat.mod_eq_of_lt (by omega)]
  omega

/-- the bit loops of mpz_n_pow_ui compute the power. -/
theorem sqrMul_pow (b e : Nat) (he : e ≠ 0) : sqrMulLoop b (lowerBits e) b = b ^ e := by
  rw [sqrMulLoop_spec b (lowerBits e) b 1 (by simp), lowerBits_spec e he]


/-- n_pow_ui.c:206-218: powering inside one limb never wraps and keeps `rl · blimb^e`. -/
theorem smallPow_spec : ∀ (f blimb rl e : Nat), 1 ≤ blimb → blimb < B → rl ≤ blimb → 1 ≤ e → e < 2 ^ f →
    let r := smallPow f blimb rl e
    r.2.1 * r.1 ^ r.2.2 = rl * blimb ^ e ∧ r.1 < B ∧ 1 ≤ r.1 ∧ r.2.1 < B ∧ (r.2.2 = 0 ∨ GMP_NUMB_HALFMAX < r.1)
  | 0, blimb, rl, e, _, _, _, he1, he => by simp at he; omega
  | f + 1, blimb, rl, e, hb1, hbB, hrl, he1, he => by
    unfold smallPow
    by_cases hsm : blimb ≤ GMP_NUMB_HALFMAX
    · simp only [hsm, if_true]
      have hH : GMP_NUMB_HALFMAX = 4294967295 := by unfold GMP_NUMB_HALFMAX; norm_num
      have hsq : blimb * blimb ≤ 4294967295 * 4294967295 := Nat.mul_le_mul (by omega) (by omega)
      have hrb : rl * blimb ≤ blimb * blimb := Nat.mul_le_mul_right _ hrl
      have hsqB : blimb * blimb < B := by simp only [B_eq]; omega
      have hm1 : (rl * blimb) % B = rl * blimb := Nat.mod_eq_of_lt (by omega)
      have hm2 : (blimb * blimb) % B = blimb * blimb := Nat.mod_eq_of_lt hsqB
      have hsplit : blimb ^ e = blimb ^ (e % 2) * (blimb * blimb) ^ (e / 2) := by
        rw [← pow_two, ← pow_mul, ← pow_add]; congr 1; omega
      by_cases he2 : e / 2 = 0
      · simp only [he2, if_true]
        have : e = 1 := by omega
        subst this
        simp only [Nat.one_mod, if_true, hm1, pow_zero, Nat.mul_one, pow_one, true_or, and_true]
        exact ⟨trivial, hbB, hb1, by omega⟩
      · simp only [he2, if_false]
        rw [hm2]
        have hb1' : 1 ≤ blimb * blimb := Nat.mul_pos hb1 hb1
        have hrl' : (if e % 2 = 1 then (rl * blimb) % B else rl) ≤ blimb * blimb := by
          split
          · rw [hm1]; exact hrb
          · exact le_trans hrl (Nat.le_mul_of_pos_left _ hb1)
        have he' : e / 2 < 2 ^ f := by rw [pow_succ] at he; omega
        have ih := smallPow_spec f (blimb * blimb) _ (e / 2) hb1' hsqB hrl' (by omega) he'
        simp only at ih ⊢
        obtain ⟨i1, i2, i3, i4, i5⟩ := ih
        refine ⟨?_, i2, i3, i4, i5⟩
        rw [i1, hsplit]
        by_cases hodd : e % 2 = 1
        · simp only [hodd, if_true, hm1, pow_one]; ring
        · have : e % 2 = 0 := by omega
          simp only [this, show ¬ (0 = 1) by decide, if_false, pow_zero]; ring
    · simp only [hsm, if_false]
      exact ⟨trivial, hbB, hb1, by omega, Or.inr (by omega)⟩


/-- the one-limb path of mpz_n_pow_ui: `r · 2^tb' = blimb^e · 2^tb`. -/
theorem npuOneLimb_spec (blimb e tb : Nat) (hb1 : 1 ≤ blimb) (hbB : blimb < B) (he1 : 1 ≤ e) (heB : e < B)
    (htb : tb < 64) :
    (npuOneLimb blimb e tb).1 * 2 ^ (npuOneLimb blimb e tb).2 = blimb ^ e * 2 ^ tb := by
  have hs := smallPow_spec 64 blimb 1 e hb1 hbB hb1 he1 (by rw [← B_eq_two_pow]; exact heB)
  simp only at hs
  obtain ⟨h1, h2, h3, h4, h5⟩ := hs
  unfold npuOneLimb
  generalize smallPow 64 blimb 1 e = sp at *
  obtain ⟨bl', rl, e'⟩ := sp
  simp only at h1 h2 h3 h4 h5 ⊢
  rw [Nat.one_mul] at h1
  -- the merge of rtwos_bits into rl
  have hmerge : ∀ p : Nat × Nat,
      p = (if (tb != 0 && rl != 1 && rl >>> (64 - tb) == 0) = true then ((rl <<< tb) % B, 0) else (rl, tb)) →
      p.1 * 2 ^ p.2 = rl * 2 ^ tb := by
    intro p hp
    by_cases hc : (tb != 0 && rl != 1 && rl >>> (64 - tb) == 0) = true
    · rw [if_pos hc] at hp
      simp only [Bool.and_eq_true, bne_iff_ne, ne_eq, beq_iff_eq] at hc
      obtain ⟨⟨htb0, _⟩, hsh⟩ := hc
      rw [Nat.shiftRight_eq_div_pow] at hsh
      have hlt : rl < 2 ^ (64 - tb) := by
        by_contra hge
        have := Nat.div_pos (Nat.le_of_not_lt hge) (two_pow_pos _)
        omega
      have hfit : rl * 2 ^ tb < B := by
        have : rl * 2 ^ tb < 2 ^ (64 - tb) * 2 ^ tb := Nat.mul_lt_mul_of_pos_right hlt (two_pow_pos _)
        rw [← pow_add] at this
        have e64 : 64 - tb + tb = 64 := by omega
        rw [e64] at this; rw [B_eq_two_pow]; exact this
      rw [hp]; simp only [pow_zero, Nat.mul_one]
      rw [Nat.shiftLeft_eq, Nat.mod_eq_of_lt hfit]
    · rw [if_neg hc] at hp; rw [hp]
  generalize hp : (if (tb != 0 && rl != 1 && rl >>> (64 - tb) == 0) = true then ((rl <<< tb) % B, 0) else (rl, tb)) = p
  have hm := hmerge p hp.symm
  obtain ⟨rl', tb'⟩ := p
  simp only at hm ⊢
  by_cases he0 : e' = 0
  · subst he0
    simp only [if_true]
    rw [hm, ← h1]; simp
  · simp only [he0, if_false]
    rw [sqrMul_pow bl' e' he0]
    have : (if (rl' != 1) = true then bl' ^ e' * rl' else bl' ^ e') = bl' ^ e' * rl' := by
      by_cases h : rl' = 1
      · simp [h]
      · simp [h]
    rw [this, Nat.mul_assoc, hm, ← h1]; ring


/-- the three size cases of mpz_n_pow_ui after the twos have been stripped (n_pow_ui.c:204-316, 393-467). -/
def npuCore (bp : List Nat) (btwos e tb : Nat) : Nat × Nat :=
  let blimb := bp.headD 1 >>> btwos
  if bp.length = 1 then npuOneLimb blimb e tb
  else if bp.length = 2 then
    let bsecond := bp.getD 1 0
    let blimb := if btwos != 0 then blimb ||| ((bsecond <<< (64 - btwos)) % B) else blimb
    let bsecond := bsecond >>> btwos
    if bsecond = 0 then npuOneLimb blimb e tb
    else
      let b := blimb + B * bsecond
      (sqrMulLoop b (lowerBits e) b, tb)
  else
    let b := val bp >>> btwos
    (sqrMulLoop b (lowerBits e) b, tb)

theorem n_pow_ui_eq (bneg : Bool) (bp : List Nat) (e : Nat) :
    n_pow_ui bneg bp e =
      if e = 0 then 1 else if bp.length = 0 then 0 else
      (let zl := (bp.takeWhile (· == 0)).length
       let bp' := bp.drop zl
       let btwos := ctz (bp'.headD 1)
       let X := (e * btwos) % B
       let p := npuCore bp' btwos e (X % 64)
       let r := (p.1 <<< p.2) * B ^ (zl * e + X / 64)
       if (bneg && decide (e % 2 = 1)) = true then -(r : Int) else (r : Int)) := rfl

theorem npuCore_spec (bp : List Nat) (btwos e tb : Nat) (hL : Limbs bp) (m0 : Nat) (rest : List Nat)
    (hbp : bp = m0 :: rest) (hm0 : m0 ≠ 0) (hbt : btwos = ctz m0) (he1 : 1 ≤ e) (heB : e < B) (htb : tb < 64) :
    (npuCore bp btwos e tb).1 * 2 ^ (npuCore bp btwos e tb).2 = (val bp / 2 ^ btwos) ^ e * 2 ^ tb ∧
    val bp = 2 ^ btwos * (val bp / 2 ^ btwos) ∧ btwos ≤ 63 := by
  have hm0lt : m0 < B := by rw [hbp] at hL; exact (Limbs_cons.mp hL).1
  obtain ⟨hc1, hc2⟩ := ctz_spec m0 hm0 (by rw [← B_eq_two_pow]; exact hm0lt)
  rw [← hbt] at hc1 hc2
  have hq : 0 < m0 >>> btwos := by
    rcases Nat.eq_zero_or_pos (m0 >>> btwos) with h | h
    · rw [h] at hc2; simp at hc2
    · exact h
  have hc63 : btwos ≤ 63 := by
    by_contra hge
    have h1 : 2 ^ 64 ≤ 2 ^ btwos := Nat.pow_le_pow_right (by decide) (by omega)
    have h2 : 2 ^ btwos ≤ 2 ^ btwos * (m0 >>> btwos) := Nat.le_mul_of_pos_right _ hq
    rw [B_eq_two_pow] at hm0lt
    generalize 2 ^ btwos * (m0 >>> btwos) = prod at *
    omega
  have hpos : 0 < 2 ^ btwos := two_pow_pos _
  have hB : B = 2 ^ btwos * 2 ^ (64 - btwos) := B_split btwos (by omega)
  have hqlt : m0 >>> btwos < B := by
    rw [Nat.shiftRight_eq_div_pow]; exact lt_of_le_of_lt (Nat.div_le_self _ _) hm0lt
  -- the odd part of the whole vector
  have hdivv : val bp / 2 ^ btwos = (m0 >>> btwos) + 2 ^ (64 - btwos) * val rest := by
    rw [hbp, val_cons, hB, Nat.mul_assoc, Nat.add_mul_div_left _ _ hpos, Nat.shiftRight_eq_div_pow]
  have hexact : val bp = 2 ^ btwos * (val bp / 2 ^ btwos) := by
    rw [hdivv, hbp, val_cons, Nat.mul_add, ← hc1, ← Nat.mul_assoc, ← hB]
  refine ⟨?_, hexact, hc63⟩
  have hhead : bp.headD 1 = m0 := by rw [hbp]; rfl
  unfold npuCore
  simp only [hhead]
  by_cases h1 : bp.length = 1
  · simp only [h1, if_true]
    have hrest : rest = [] := by rw [hbp] at h1; simpa using h1
    rw [hdivv, hrest, val_nil, Nat.mul_zero, Nat.add_zero]
    exact npuOneLimb_spec _ e tb hq hqlt he1 heB htb
  · simp only [h1, if_false]
    by_cases h2 : bp.length = 2
    · simp only [h2, if_true]
      obtain ⟨m1, hrest⟩ : ∃ m1, rest = [m1] := by
        rw [hbp] at h2
        match rest, h2 with
        | [y], _ => exact ⟨y, rfl⟩
      have hm1 : bp.getD 1 0 = m1 := by rw [hbp, hrest]; rfl
      have hm1lt : m1 < B := by
        rw [hbp, hrest] at hL; exact (Limbs_cons.mp (Limbs_cons.mp hL).2).1
      rw [hm1]
      -- the combined low limb
      have hlow : (if (btwos != 0) = true then m0 >>> btwos ||| ((m1 <<< (64 - btwos)) % B) else m0 >>> btwos)
          = m0 / 2 ^ btwos + 2 ^ (64 - btwos) * (m1 % 2 ^ btwos) % B ∧
          (if (btwos != 0) = true then m0 >>> btwos ||| ((m1 <<< (64 - btwos)) % B) else m0 >>> btwos) < B := by
        by_cases hb0 : btwos = 0
        · subst hb0
          simp only [bne_self_eq_false, Bool.false_eq_true, if_false, Nat.shiftRight_zero, pow_zero, Nat.div_one,
            Nat.mod_one, Nat.mul_zero, Nat.zero_mod, Nat.add_zero]
          exact ⟨trivial, hm0lt⟩
        · have hne : (btwos != 0) = true := by simpa using hb0
          simp only [hne, if_true]
          rw [rshift_limb m0 m1 btwos hm0lt (by omega) hc63]
          have h1' : m0 / 2 ^ btwos < 2 ^ (64 - btwos) := by
            apply Nat.div_lt_of_lt_mul; rw [← hB]; exact hm0lt
          have h2' : m1 % 2 ^ btwos < 2 ^ btwos := Nat.mod_lt _ hpos
          have h3' : 2 ^ (64 - btwos) * (m1 % 2 ^ btwos + 1) ≤ 2 ^ (64 - btwos) * 2 ^ btwos := Nat.mul_le_mul_left _ h2'
          rw [Nat.mul_add, Nat.mul_one, Nat.mul_comm (2 ^ (64 - btwos)) (2 ^ btwos), ← hB] at h3'
          have hlt2 : 2 ^ (64 - btwos) * (m1 % 2 ^ btwos) < B := by omega
          rw [Nat.mod_eq_of_lt hlt2]
          exact ⟨rfl, by omega⟩
      obtain ⟨hlv, hllt⟩ := hlow
      generalize (if (btwos != 0) = true then m0 >>> btwos ||| ((m1 <<< (64 - btwos)) % B) else m0 >>> btwos) = bl at *
      -- bodd = bl + B * (m1 >> btwos)
      have hbodd : val bp / 2 ^ btwos = bl + B * (m1 >>> btwos) := by
        rw [hdivv, hrest, val_cons, val_nil, Nat.mul_zero, Nat.add_zero, hlv, Nat.shiftRight_eq_div_pow,
          Nat.shiftRight_eq_div_pow]
        by_cases hb0 : btwos = 0
        · subst hb0; simp [Nat.mod_one, B_eq_two_pow]
        · have hlt2 : 2 ^ (64 - btwos) * (m1 % 2 ^ btwos) < B := by
            have h2' : m1 % 2 ^ btwos < 2 ^ btwos := Nat.mod_lt _ hpos
            have h3' : 2 ^ (64 - btwos) * (m1 % 2 ^ btwos + 1) ≤ 2 ^ (64 - btwos) * 2 ^ btwos := Nat.mul_le_mul_left _ h2'
            rw [Nat.mul_add, Nat.mul_one, Nat.mul_comm (2 ^ (64 - btwos)) (2 ^ btwos), ← hB] at h3'
            have := two_pow_pos (64 - btwos)
            omega
          rw [Nat.mod_eq_of_lt hlt2]
          have hm := Nat.div_add_mod m1 (2 ^ btwos)
          generalize m1 / 2 ^ btwos = a at *
          generalize m1 % 2 ^ btwos = c at *
          rw [← hm, hB]; ring
      by_cases hs0 : m1 >>> btwos = 0
      · simp only [hs0, if_true]
        rw [hbodd, hs0, Nat.mul_zero, Nat.add_zero]
        have hbl1 : 1 ≤ bl := by
          rw [hlv]
          have : 0 < m0 / 2 ^ btwos := by rw [← Nat.shiftRight_eq_div_pow]; exact hq
          omega
        exact npuOneLimb_spec bl e tb hbl1 hllt he1 heB htb
      · simp only [hs0, if_false]
        rw [sqrMul_pow _ e (by omega), hbodd]
    · simp only [h2, if_false]
      rw [sqrMul_pow _ e (by omega), Nat.shiftRight_eq_div_pow]


/-- mpz_n_pow_ui (value-level model of mpz/n_pow_ui.c): the exact power, `0^0 = 1`.
    `hfeas`: for `|b| ≥ 2` the result has at least `e` bits, so `e` must be below `2^58` for the result to be
    addressable; this is what keeps `rtwos_bits = e * btwos` (unsigned long) from wrapping. -/
theorem n_pow_ui_correct (bneg : Bool) (bp : List Nat) (e : Nat) (hb : Norm bp) (heB : e < B)
    (hfeas : 2 ≤ val bp → e * 64 < B) :
    n_pow_ui bneg bp e = (if bneg then -(val bp : Int) else (val bp : Int)) ^ e := by
  rw [n_pow_ui_eq]
  by_cases he0 : e = 0
  · simp [he0]
  · simp only [he0, if_false]
    by_cases hb0 : bp.length = 0
    · have : bp = [] := List.length_eq_zero_iff.mp hb0
      subst this
      simp only [List.length_nil, if_true, val_nil, Nat.cast_zero, neg_zero, ite_self]
      rw [zero_pow he0]
    · simp only [hb0, if_false]
      have hbne : bp ≠ [] := fun h => hb0 (by rw [h]; rfl)
      have hbpos := Norm_pos bp hb hbne
      obtain ⟨hz1, hz2, hz3⟩ := strip_zero_limbs bp
      generalize hk : (bp.takeWhile (· == 0)).length = zl at *
      have hrest : bp.drop zl ≠ [] := by
        intro h; rw [h] at hz1; simp at hz1; omega
      obtain ⟨m0, rest, hmr⟩ := List.exists_cons_of_ne_nil hrest
      have hm0 : m0 ≠ 0 := hz3 m0 rest hmr
      have hhead : (bp.drop zl).headD 1 = m0 := by rw [hmr]; rfl
      rw [hhead]
      have hX64 : (e * ctz m0) % B % 64 < 64 := Nat.mod_lt _ (by decide)
      obtain ⟨hcore, hexact, hc63⟩ := npuCore_spec (bp.drop zl) (ctz m0) e ((e * ctz m0) % B % 64)
        (Limbs_drop hb.1 _) m0 rest hmr hm0 rfl (by omega) heB hX64
      -- no wrap in e * btwos
      have hnowrap : (e * ctz m0) % B = e * ctz m0 := by
        apply Nat.mod_eq_of_lt
        by_cases hc0 : ctz m0 = 0
        · rw [hc0, Nat.mul_zero]; exact B_pos
        · have h2 : 2 ≤ val bp := by
            have h1 : 2 ^ 1 ≤ 2 ^ ctz m0 := Nat.pow_le_pow_right (by decide) (by omega)
            have hq : 0 < val (bp.drop zl) / 2 ^ ctz m0 := by
              rcases Nat.eq_zero_or_pos (val (bp.drop zl) / 2 ^ ctz m0) with h | h
              · rw [h, Nat.mul_zero] at hexact
                rw [hexact, Nat.mul_zero] at hz1; omega
              · exact h
            have h3 : 2 ^ ctz m0 ≤ 2 ^ ctz m0 * (val (bp.drop zl) / 2 ^ ctz m0) := Nat.le_mul_of_pos_right _ hq
            have h4 : val (bp.drop zl) ≤ B ^ zl * val (bp.drop zl) := Nat.le_mul_of_pos_left _ (Nat.pow_pos B_pos)
            omega
          have := hfeas h2
          have : e * ctz m0 ≤ e * 63 := Nat.mul_le_mul_left _ hc63
          omega
      rw [hnowrap] at hcore ⊢
      generalize npuCore (bp.drop zl) (ctz m0) e (e * ctz m0 % 64) = p at *
      generalize val (bp.drop zl) / 2 ^ ctz m0 = q at *
      -- the magnitude
      have hmag : (p.1 <<< p.2) * B ^ (zl * e + e * ctz m0 / 64) = val bp ^ e := by
        rw [Nat.shiftLeft_eq, hcore, hz1, hexact, mul_pow, mul_pow, ← pow_mul, ← pow_mul, pow_add]
        have h64 : 2 ^ (ctz m0 * e) = 2 ^ (e * ctz m0 % 64) * B ^ (e * ctz m0 / 64) := by
          rw [B_eq_two_pow, ← pow_mul, ← pow_add]; congr 1
          have := Nat.div_add_mod (e * ctz m0) 64
          rw [Nat.mul_comm (ctz m0) e]; omega
        rw [h64]; ring
      rw [hmag]
      cases bneg with
      | false => simp
      | true =>
        simp only [Bool.true_and, decide_eq_true_eq, if_true]
        by_cases hodd : e % 2 = 1
        · simp only [hodd, if_true]
          rw [(Nat.odd_iff.mpr hodd).neg_pow]; push_cast; rfl
        · simp only [hodd, if_false]
          rw [(Nat.even_iff.mpr (by omega)).neg_pow]; push_cast; rfl



/-! ### mpz_powm_ui -/

/-- `tn = k; tn -= (top limb == 0)`: a value below `B^k` is below `B^(dropTop v k)`. -/
theorem dropTop_spec (v k : Nat) (hv : v < B ^ k) : v < B ^ dropTop v k ∧ dropTop v k ≤ k := by
  unfold dropTop
  by_cases h0 : v / B ^ (k - 1) = 0
  · simp only [h0, if_true]
    exact ⟨(Nat.div_eq_zero_iff_lt (Nat.pow_pos B_pos)).mp h0, by omega⟩
  · simp only [h0, if_false]
    exact ⟨hv, by omega⟩

/-- the state invariant of mpz_powm_ui's loop: `x` fits `xn ≤ mn` limbs and is `≡ b^h (mod ms)`. -/
def PuiInv (ms mn b h x xn : Nat) : Prop := x < B ^ xn ∧ xn ≤ mn ∧ x ≡ b ^ h [MOD ms]

theorem puiReduce_spec (ms mn t tn : Nat) (hms1 : B ^ (mn - 1) ≤ ms) (hms2 : ms < B ^ mn) (hmn : 1 ≤ mn)
    (ht : t < B ^ tn) :
    (puiReduce ms mn t tn).1 < B ^ (puiReduce ms mn t tn).2 ∧ (puiReduce ms mn t tn).2 ≤ mn ∧
    ((puiReduce ms mn t tn).1 ≡ t [MOD ms]) ∧ (puiReduce ms mn t tn).1 < ms := by
  unfold puiReduce
  by_cases h : tn < mn
  · simp only [h, if_true]
    refine ⟨ht, by omega, Nat.ModEq.refl _, ?_⟩
    have : B ^ tn ≤ B ^ (mn - 1) := Nat.pow_le_pow_right B_pos (by omega)
    omega
  · simp only [h, if_false]
    have hpos : 0 < ms := lt_of_lt_of_le (Nat.pow_pos B_pos) hms1
    have := Nat.mod_lt t hpos
    exact ⟨by omega, le_refl _, Nat.mod_modEq _ _, this⟩

theorem puiLoop_spec (ms mn b bn : Nat) (hms1 : B ^ (mn - 1) ≤ ms) (hms2 : ms < B ^ mn) (hmn : 1 ≤ mn)
    (hb : b < B ^ bn) :
    ∀ (bits : List Bool) (x xn h : Nat), PuiInv ms mn b h x xn →
      PuiInv ms mn b (bits.foldl (fun a bit => 2 * a + (if bit then 1 else 0)) h)
        (puiLoop ms mn b bn bits x xn).1 (puiLoop ms mn b bn bits x xn).2 ∧
      (bits ≠ [] → (puiLoop ms mn b bn bits x xn).1 < ms)
  | [], x, xn, h, hI => by simpa [puiLoop] using hI
  | bit :: rest, x, xn, h, hI => by
    obtain ⟨hx, hxn, hc⟩ := hI
    have ht : x * x < B ^ (2 * xn) := by rw [two_mul, pow_add]; exact Nat.mul_lt_mul'' hx hx
    obtain ⟨d1, _⟩ := dropTop_spec (x * x) (2 * xn) ht
    obtain ⟨r1, r2, r3, r4⟩ := puiReduce_spec ms mn (x * x) (dropTop (x * x) (2 * xn)) hms1 hms2 hmn d1
    have hc1 : (puiReduce ms mn (x * x) (dropTop (x * x) (2 * xn))).1 ≡ b ^ (2 * h) [MOD ms] := by
      have : b ^ (2 * h) = b ^ h * b ^ h := by rw [← pow_add]; congr 1; omega
      rw [this]; exact r3.trans (hc.mul hc)
    rw [puiLoop]
    simp only [List.foldl_cons]
    generalize puiReduce ms mn (x * x) (dropTop (x * x) (2 * xn)) = p1 at *
    obtain ⟨x1, xn1⟩ := p1
    simp only at r1 r2 r3 r4 hc1 ⊢
    cases bit with
    | false =>
      simp only [Bool.false_eq_true, if_false, Nat.add_zero]
      obtain ⟨i1, i2⟩ := puiLoop_spec ms mn b bn hms1 hms2 hmn hb rest x1 xn1 (2 * h) ⟨r1, r2, hc1⟩
      refine ⟨i1, fun _ => ?_⟩
      by_cases hr : rest = []
      · subst hr; simpa [puiLoop] using r4
      · exact i2 hr
    | true =>
      simp only [if_true]
      have ht2 : x1 * b < B ^ (xn1 + bn) := by rw [pow_add]; exact Nat.mul_lt_mul'' r1 hb
      obtain ⟨d2, _⟩ := dropTop_spec (x1 * b) (xn1 + bn) ht2
      obtain ⟨s1, s2, s3, s4⟩ := puiReduce_spec ms mn (x1 * b) (dropTop (x1 * b) (xn1 + bn)) hms1 hms2 hmn d2
      have hc2 : (puiReduce ms mn (x1 * b) (dropTop (x1 * b) (xn1 + bn))).1 ≡ b ^ (2 * h + 1) [MOD ms] := by
        rw [pow_succ]; exact s3.trans (hc1.mul_right b)
      generalize puiReduce ms mn (x1 * b) (dropTop (x1 * b) (xn1 + bn)) = p2 at *
      obtain ⟨x2, xn2⟩ := p2
      simp only at s1 s2 s3 s4 hc2 ⊢
      obtain ⟨i1, i2⟩ := puiLoop_spec ms mn b bn hms1 hms2 hmn hb rest x2 xn2 (2 * h + 1) ⟨s1, s2, hc2⟩
      refine ⟨i1, fun _ => ?_⟩
      by_cases hr : rest = []
      · subst hr; simpa [puiLoop] using s4
      · exact i2 hr


/-- the tail of mpz_powm_ui (powm_ui.c:258-266): normalise from `xn`, then `m − x` for a negative base
    and odd exponent. -/
theorem negfix_k (c : Bool) (xp mp : List Nat) (k : Nat) (hL : Limbs xp) (hlen : xp.length = mp.length)
    (hxk : val xp < B ^ k) (hm : Limbs mp) (hlt : val xp < val mp) :
    let rn := mpnNormalize xp k
    let p := if (c && rn != 0) = true then ((sub mp (xp.take rn)).1, mpnNormalize (sub mp (xp.take rn)).1 mp.length)
             else (xp, rn)
    (Res.mk p.1 p.2).wf = true ∧
    ((val (p.1.take p.2) : Nat) : Int) = (if c then -(val xp : Int) else (val xp : Int)) % (val mp : Int) := by
  intro rn p
  have hmpos : 0 < val mp := by omega
  have hnv : val (xp.take rn) = val xp := by
    show val (xp.take (mpnNormalize xp k)) = val xp
    rw [mpnNormalize_val, ← val_take_mod xp hL, Nat.mod_eq_of_lt hxk]
  by_cases hc : (c && rn != 0) = true
  · have hp : p = ((sub mp (xp.take rn)).1, mpnNormalize (sub mp (xp.take rn)).1 mp.length) := by
      simp only [p, hc, if_true]
    rw [hp]
    simp only [Bool.and_eq_true, bne_iff_ne, ne_eq] at hc
    obtain ⟨hneg, hrn⟩ := hc
    have hle : val (xp.take rn) ≤ val mp := by rw [hnv]; omega
    have hlen' : (xp.take rn).length ≤ mp.length := by
      rw [List.length_take, hlen]; exact Nat.min_le_right _ _
    obtain ⟨sv, sl, sn⟩ := sub_exact mp _ hm (Limbs_take hL _) hlen' hle
    refine ⟨wf_normalize _ _, ?_⟩
    simp only
    rw [normalize_val_full _ _ sn, sv, hnv, hneg]
    simp only [if_true]
    rw [neg_emod_nat _ _ hmpos, Nat.mod_eq_of_lt hlt]
    have hpos : 0 < val (xp.take rn) := by
      have := val_take_pos_of_getD xp _ (mpnNormalize_top xp k hrn)
      have e : mpnNormalize xp k - 1 + 1 = mpnNormalize xp k := by
        have : mpnNormalize xp k ≠ 0 := hrn
        omega
      rwa [e] at this
    rw [hnv] at hpos
    simp only [Nat.ne_of_gt hpos, if_false]
  · have hp : p = (xp, rn) := by simp only [p, hc, Bool.false_eq_true, if_false]
    rw [hp]
    refine ⟨wf_normalize _ _, ?_⟩
    simp only
    rw [hnv]
    cases c with
    | false =>
      simp only [Bool.false_eq_true, if_false]
      rw [Int.emod_eq_of_lt (Int.natCast_nonneg _) (by exact_mod_cast hlt)]
    | true =>
      simp only [Bool.true_and, bne_iff_ne, ne_eq, Decidable.not_not] at hc
      have hz : val (xp.take rn) = 0 := by rw [hc]; rfl
      rw [hnv] at hz
      simp only [if_true]
      rw [hz]; simp

/-- the modulus shifted left by `count_leading_zeros` of its top limb is normalised. -/
theorem shifted_modulus (M : Nat) (hM : M ≠ 0) :
    let mp0 := natLimbs M
    let ms := M <<< clz (mp0.getLastD 1)
    B ^ (mp0.length - 1) ≤ ms ∧ ms < B ^ mp0.length ∧ 1 ≤ mp0.length ∧ clz (mp0.getLastD 1) ≤ 63 ∧ M ≤ ms ∧
    B ^ mp0.length ≤ 2 * ms := by
  intro mp0 ms
  have hN := Norm_natLimbs M
  have hne : mp0 ≠ [] := fun h => hM ((natLimbs_eq_nil M).mp h)
  have hv : val mp0 = M := val_natLimbs M
  have hge := Norm_ge mp0 hN hne
  obtain ⟨s1, s2, s3⟩ := sizeinbase2_spec mp0 hN.1 hne (hN.2 hne)
  have hlen : 1 ≤ mp0.length := List.length_pos_of_ne_nil hne
  have hclz : clz (mp0.getLastD 1) ≤ 63 := by unfold clz; omega
  have hsz : sizeinbase2 mp0 + clz (mp0.getLastD 1) = mp0.length * 64 := by
    unfold sizeinbase2; omega
  rw [hv] at hge s3
  have hms : ms = M * 2 ^ clz (mp0.getLastD 1) := Nat.shiftLeft_eq _ _
  have hle : M ≤ ms := by rw [hms]; exact Nat.le_mul_of_pos_right _ (two_pow_pos _)
  rw [hv] at s2
  have hBn : B ^ mp0.length = 2 ^ (mp0.length * 64) := by rw [B_eq_two_pow, ← pow_mul, Nat.mul_comm 64]
  refine ⟨le_trans hge hle, ?_, hlen, hclz, hle, ?_⟩
  · rw [hms]
    have : M * 2 ^ clz (mp0.getLastD 1) < 2 ^ sizeinbase2 mp0 * 2 ^ clz (mp0.getLastD 1) :=
      Nat.mul_lt_mul_of_pos_right s3 (two_pow_pos _)
    rw [← pow_add, hsz] at this
    rw [hBn]; exact this
  · rw [hms, hBn]
    have h1 : 2 ^ (sizeinbase2 mp0 - 1) * 2 ^ clz (mp0.getLastD 1) ≤ M * 2 ^ clz (mp0.getLastD 1) :=
      Nat.mul_le_mul_right _ s2
    rw [← pow_add] at h1
    have e : mp0.length * 64 = (sizeinbase2 mp0 - 1 + clz (mp0.getLastD 1)) + 1 := by omega
    rw [e, pow_succ]; omega

theorem natLimbs_length_le (v k : Nat) (h : v < B ^ k) : (natLimbs v).length ≤ k := by
  by_cases h0 : v = 0
  · rw [h0, natLimbs_zero]; exact Nat.zero_le _
  · have hne : natLimbs v ≠ [] := fun h' => h0 ((natLimbs_eq_nil v).mp h')
    have hge := Norm_ge (natLimbs v) (Norm_natLimbs v) hne
    rw [val_natLimbs] at hge
    by_contra hlt
    have : B ^ k ≤ B ^ ((natLimbs v).length - 1) := Nat.pow_le_pow_right B_pos (by omega)
    omega


theorem puiX_spec (M ms mn zc bv bn el : Nat) (hM : 0 < M) (hms : ms = M * 2 ^ zc) (hms1 : B ^ (mn - 1) ≤ ms)
    (hms2 : ms < B ^ mn) (hms3 : B ^ mn ≤ 2 * ms) (hmn : 1 ≤ mn) (hzc : zc ≤ 63) (hbv : bv < B ^ bn) (hbn : bn ≤ mn)
    (hel : 1 ≤ el) :
    (puiX ms mn zc bv bn el).1 < M ∧ (puiX ms mn zc bv bn el).1 < B ^ (puiX ms mn zc bv bn el).2 ∧
    (puiX ms mn zc bv bn el).2 ≤ mn ∧ ((puiX ms mn zc bv bn el).1 ≡ bv ^ el [MOD M]) := by
  have hMdvd : M ∣ ms := ⟨2 ^ zc, hms⟩
  -- the state after the power loop: below ms, ≡ bv^el mod ms
  have hp : ∀ p : Nat × Nat,
      p = (if el = 1 then (if (decide (bn = mn) && decide (bv ≥ ms)) = true then (bv - ms, bn) else (bv, bn))
           else puiLoop ms mn bv bn (lowerBits el) bv bn) →
      p.1 < ms ∧ p.1 < B ^ p.2 ∧ p.2 ≤ mn ∧ (p.1 ≡ bv ^ el [MOD ms]) := by
    intro p hpd
    by_cases h1 : el = 1
    · rw [if_pos h1] at hpd
      subst h1
      rw [pow_one]
      by_cases hc : (decide (bn = mn) && decide (bv ≥ ms)) = true
      · rw [if_pos hc] at hpd; subst hpd
        simp only [Bool.and_eq_true, decide_eq_true_eq] at hc
        obtain ⟨hbm, hge⟩ := hc
        subst hbm
        have h2 : B ^ bn ≤ 2 * ms := hms3
        refine ⟨by simp only; omega, by simp only; omega, le_refl _, ?_⟩
        simp only
        have : bv = (bv - ms) + ms := by omega
        unfold Nat.ModEq
        conv_rhs => rw [this]
        rw [Nat.add_mod_right]
      · rw [if_neg hc] at hpd; subst hpd
        simp only [Bool.and_eq_true, decide_eq_true_eq, not_and, not_le] at hc
        refine ⟨?_, hbv, hbn, Nat.ModEq.refl _⟩
        simp only
        by_cases hbm : bn = mn
        · exact hc hbm
        · have : B ^ bn ≤ B ^ (mn - 1) := Nat.pow_le_pow_right B_pos (by omega)
          omega
    · rw [if_neg h1] at hpd
      have hI : PuiInv ms mn bv 1 bv bn := ⟨hbv, hbn, by rw [pow_one]⟩
      obtain ⟨⟨i1, i2, i3⟩, i4⟩ := puiLoop_spec ms mn bv bn hms1 hms2 hmn hbv (lowerBits el) bv bn 1 hI
      rw [lowerBits_spec el (by omega)] at i3
      have hne : lowerBits el ≠ [] := by
        unfold lowerBits
        have : 1 ≤ el.log2 := by
          by_contra hlt
          have h0 : el.log2 = 0 := by omega
          have := @Nat.lt_log2_self el
          rw [h0] at this; simp at this; omega
        intro h
        have := congrArg List.length h
        simp at this; omega
      rw [hpd]
      exact ⟨i4 hne, i1, i2, i3⟩
  unfold puiX
  simp only
  generalize hpe : (if el = 1 then (if (decide (bn = mn) && decide (bv ≥ ms)) = true then (bv - ms, bn) else (bv, bn))
           else puiLoop ms mn bv bn (lowerBits el) bv bn) = p
  obtain ⟨p1, p2, p3, p4⟩ := hp p hpe.symm
  by_cases hz : zc = 0
  · subst hz
    have : ((0 : Nat) != 0) = false := rfl
    simp only [this, Bool.false_eq_true, if_false]
    have : ms = M := by rw [hms]; simp
    rw [this] at p1 p4
    exact ⟨p1, p2, p3, p4⟩
  · have hzt : (zc != 0) = true := by simpa using hz
    simp only [hzt, if_true]
    rw [Nat.shiftLeft_eq]
    -- t = p.1 · 2^zc fits tn limbs
    have hpos2 : 0 < 2 ^ zc := two_pow_pos _
    have htn : p.1 * 2 ^ zc < B ^ (p.2 + (if (p.1 * 2 ^ zc / B ^ p.2 != 0) = true then 1 else 0)) := by
      by_cases h0 : p.1 * 2 ^ zc / B ^ p.2 = 0
      · simp only [h0, bne_self_eq_false, Bool.false_eq_true, if_false, Nat.add_zero]
        exact (Nat.div_eq_zero_iff_lt (Nat.pow_pos B_pos)).mp h0
      · have : (p.1 * 2 ^ zc / B ^ p.2 != 0) = true := by simpa using h0
        simp only [this, if_true]
        rw [pow_succ]
        have h2 : 2 ^ zc < B := by rw [B_eq_two_pow]; exact Nat.pow_lt_pow_right (by decide) (by omega)
        exact Nat.mul_lt_mul'' p2 h2
    obtain ⟨r1, r2, r3, r4⟩ := puiReduce_spec ms mn _ _ hms1 hms2 hmn htn
    generalize puiReduce ms mn (p.1 * 2 ^ zc) (p.2 + (if (p.1 * 2 ^ zc / B ^ p.2 != 0) = true then 1 else 0)) = q at *
    rw [Nat.shiftRight_eq_div_pow]
    -- q.1 ≡ p.1·2^zc (mod M·2^zc) and is a multiple of 2^zc
    have hq : ∃ y, q.1 = y * 2 ^ zc ∧ y < M ∧ y ≡ p.1 [MOD M] := by
      have hd : 2 ^ zc ∣ q.1 := by
        have h1 : (2 ^ zc) ∣ ms := ⟨M, by rw [hms, Nat.mul_comm]⟩
        have h2 : q.1 ≡ p.1 * 2 ^ zc [MOD 2 ^ zc] := r3.of_dvd h1
        have h3 : p.1 * 2 ^ zc ≡ 0 [MOD 2 ^ zc] := by unfold Nat.ModEq; simp
        exact (Nat.modEq_zero_iff_dvd).mp (h2.trans h3)
      obtain ⟨y, hy⟩ := hd
      refine ⟨y, by rw [hy, Nat.mul_comm], ?_, ?_⟩
      · rw [hy, hms, Nat.mul_comm] at r4
        exact Nat.lt_of_mul_lt_mul_right r4
      · rw [hy, hms, Nat.mul_comm (2 ^ zc) y] at r3
        exact Nat.ModEq.mul_right_cancel' (Nat.ne_of_gt hpos2) r3
    obtain ⟨y, hy1, hy2, hy3⟩ := hq
    rw [hy1, Nat.mul_div_cancel _ hpos2]
    refine ⟨hy2, ?_, r2, hy3.trans (p4.of_dvd hMdvd)⟩
    have : y ≤ q.1 := by rw [hy1]; exact Nat.le_mul_of_pos_right _ hpos2
    omega


/-- `mn == 1 && mp[0] == 1` recognises `|m| = 1` (powm_ui.c:134). -/
theorem natLimbs_is_one' (v : Nat) :
    (decide ((natLimbs v).length = 1) && decide ((natLimbs v).headD 0 = 1)) = true ↔ v = 1 := by
  have h := natLimbs_is_one v
  constructor
  · intro hc
    by_contra hne
    have := h.mpr hne
    simp only [Bool.and_eq_true, decide_eq_true_eq] at hc
    rw [hc.1, hc.2] at this
    exact absurd this (by decide)
  · intro h1
    by_contra hc
    apply (h.mp ?_) h1
    simp only [Bool.and_eq_true, decide_eq_true_eq, not_and] at hc
    simp only [Bool.or_eq_true, bne_iff_ne, ne_eq]
    by_cases hl : (natLimbs v).length = 1
    · exact Or.inr (hc hl)
    · exact Or.inl hl

/-- mpz_powm_ui (value-level model of mpz/powm_ui.c for `el < 20`, mpz_powm otherwise). -/
theorem mpz_powm_ui_small (b : Int) (el : Nat) (m : Int) (h20 : el < 20) :
    (mpz_powm_ui b el m).value? = powmSpec b (el : Int) m ∧ (mpz_powm_ui b el m).wf = true := by
  unfold mpz_powm_ui
  · simp only [h20, if_true]
    by_cases hm0 : m = 0
    · subst hm0; simp [natLimbs_zero, Res.value?, Res.wf, powmSpec]
    · have hmn : m.natAbs ≠ 0 := Int.natAbs_ne_zero.mpr hm0
      have hn : (natLimbs m.natAbs).length ≠ 0 := fun h => hmn ((natLimbs_length_eq_zero _).mp h)
      simp only [hn, if_false]
      have hspec : powmSpec b (el : Int) m = some (b ^ el % (m.natAbs : Int)) := by
        unfold powmSpec; simp [hm0]
      rw [hspec]
      by_cases he0 : el = 0
      · subst he0
        simp only [if_true, pow_zero]
        by_cases h1 : m.natAbs = 1
        · have hc := (natLimbs_is_one' m.natAbs).mpr h1
          simp only [hc, if_true, Res.value?, Res.wf, List.take_zero, val_nil]
          rw [h1]; exact ⟨rfl, rfl⟩
        · have hc := (natLimbs_is_one' m.natAbs).not.mpr h1
          simp only [Bool.not_eq_true] at hc
          have h2 : (1 : Int) % (m.natAbs : Int) = 1 := Int.emod_eq_of_lt (by omega) (by omega)
          simp only [hc, Bool.false_eq_true, if_false, Res.value?, Res.wf, h2]
          exact ⟨rfl, rfl⟩
      · simp only [he0, if_false]
        obtain ⟨s1, s2, s3, s4, s5, s6⟩ := shifted_modulus m.natAbs hmn
        generalize hzc : clz ((natLimbs m.natAbs).getLastD 1) = zc at *
        generalize hms : m.natAbs <<< zc = ms at *
        have hmsM : ms = m.natAbs * 2 ^ zc := by rw [← hms, Nat.shiftLeft_eq]
        have hMdvd : m.natAbs ∣ ms := ⟨2 ^ zc, hmsM⟩
        set mn := (natLimbs m.natAbs).length with hmnd
        -- the (possibly reduced) base
        have hbb : ∀ bb : Nat × Nat,
            bb = (if (natLimbs b.natAbs).length > mn then (b.natAbs % ms, (natLimbs (b.natAbs % ms)).length)
                  else (b.natAbs, (natLimbs b.natAbs).length)) →
            bb.1 < B ^ bb.2 ∧ bb.2 ≤ mn ∧ (bb.1 ≡ b.natAbs [MOD m.natAbs]) ∧ (bb.2 = 0 → bb.1 = 0) := by
          intro bb hbd
          have hmspos : 0 < ms := lt_of_lt_of_le (Nat.pow_pos B_pos) s1
          by_cases hgt : (natLimbs b.natAbs).length > mn
          · rw [if_pos hgt] at hbd; subst hbd
            simp only
            have hlt := Nat.mod_lt b.natAbs hmspos
            refine ⟨?_, natLimbs_length_le _ _ (lt_trans hlt s2), (Nat.mod_modEq _ _).of_dvd hMdvd, ?_⟩
            · have := val_lt _ (Limbs_natLimbs (b.natAbs % ms))
              rwa [val_natLimbs] at this
            · intro h; exact (natLimbs_length_eq_zero _).mp h
          · rw [if_neg hgt] at hbd; subst hbd
            simp only
            refine ⟨?_, by omega, Nat.ModEq.refl _, fun h => (natLimbs_length_eq_zero _).mp h⟩
            have := val_lt _ (Limbs_natLimbs b.natAbs)
            rwa [val_natLimbs] at this
        generalize hbe : (if (natLimbs b.natAbs).length > mn then (b.natAbs % ms, (natLimbs (b.natAbs % ms)).length)
                  else (b.natAbs, (natLimbs b.natAbs).length)) = bb
        obtain ⟨b1, b2, b3, b4⟩ := hbb bb hbe.symm
        have helpos : 0 < el := Nat.pos_of_ne_zero he0
        by_cases hbn0 : bb.2 = 0
        · simp only [hbn0, if_true, Res.value?, Res.wf, List.take_nil, val_nil]
          refine ⟨?_, by simp⟩
          -- |b| ≡ 0 (mod |m|), hence b^el ≡ 0
          have hz : b.natAbs ≡ 0 [MOD m.natAbs] := by rw [← b4 hbn0]; exact b3.symm
          have hd : (m.natAbs : Int) ∣ b := by
            have := (Nat.modEq_zero_iff_dvd).mp hz
            exact Int.natCast_dvd.mpr this
          have : (m.natAbs : Int) ∣ b ^ el := dvd_pow hd he0
          rw [Int.emod_eq_zero_of_dvd this]; rfl
        · simp only [hbn0, if_false]
          obtain ⟨x1, x2, x3, x4⟩ := puiX_spec m.natAbs ms mn zc bb.1 bb.2 el (Nat.pos_of_ne_zero hmn) hmsM s1 s2 s6 s3 s4
            b1 b2 helpos
          generalize puiX ms mn zc bb.1 bb.2 el = q at *
          have hMlt : m.natAbs < B ^ mn := lt_of_le_of_lt s5 s2
          have hxv : val (toLimbs mn q.1) = q.1 := val_toLimbs_lt _ _ (lt_trans x1 hMlt)
          have hnf := negfix_k (decide (el % 2 = 1) && decide (b < 0)) (toLimbs mn q.1) (natLimbs m.natAbs) q.2
            (Limbs_toLimbs _ _) (toLimbs_length _ _) (by rw [hxv]; exact x2) (Limbs_natLimbs _)
            (by rw [hxv, val_natLimbs]; exact x1)
          simp only at hnf
          obtain ⟨hw, hv⟩ := hnf
          refine ⟨?_, hw⟩
          unfold Res.value?
          simp only [Option.some.injEq]
          rw [hv, hxv, val_natLimbs]
          -- q.1 ≡ |b|^el (mod |m|)
          have hq : (q.1 : Int) ≡ (b.natAbs : Int) ^ el [ZMOD (m.natAbs : Int)] := by
            have : q.1 ≡ b.natAbs ^ el [MOD m.natAbs] := x4.trans (b3.pow el)
            have := Int.natCast_modEq_iff.mpr this
            simpa only [Nat.cast_pow] using this
          by_cases hneg : b < 0
          · have hb : b = -(b.natAbs : Int) := by omega
            simp only [hneg, decide_true, Bool.and_true, decide_eq_true_eq]
            by_cases hodd : el % 2 = 1
            · simp only [hodd, if_true]
              rw [hb, (Nat.odd_iff.mpr hodd).neg_pow]
              exact hq.neg
            · simp only [hodd, if_false]
              rw [hb, (Nat.even_iff.mpr (by omega)).neg_pow]
              exact hq
          · have hb : b = (b.natAbs : Int) := by omega
            simp only [hneg, decide_false, Bool.and_false, Bool.false_eq_true, if_false]
            rw [hb]; exact hq



/-! ### the specification's modular inverse -/

theorem xgcdAux_spec (a : Int) (m : Nat) : ∀ (r : Nat) (s : Int) (r' : Nat) (s' : Int),
    (r : Int) ≡ s * a [ZMOD (m : Int)] → (r' : Int) ≡ s' * a [ZMOD (m : Int)] →
    ((xgcdAux r s r' s').1 : Int) ≡ (xgcdAux r s r' s').2 * a [ZMOD (m : Int)] ∧
    (xgcdAux r s r' s').1 = Nat.gcd r r' := by
  intro r
  induction r using Nat.strong_induction_on with
  | _ r ih =>
    intro s r' s' h1 h2
    cases r with
    | zero =>
      rw [xgcdAux.eq_def]
      simp only [Nat.gcd_zero_left]
      exact ⟨h2, trivial⟩
    | succ k =>
      rw [xgcdAux.eq_def]
      simp only
      have hlt : r' % (k + 1) < k + 1 := Nat.mod_lt _ (Nat.succ_pos _)
      have h3 : ((r' % (k + 1) : Nat) : Int) ≡ (s' - ((r' / (k + 1) : Nat) : Int) * s) * a [ZMOD (m : Int)] := by
        have e : ((r' % (k + 1) : Nat) : Int) = (r' : Int) - ((r' / (k + 1) : Nat) : Int) * ((k + 1 : Nat) : Int) := by
          have := Nat.div_add_mod r' (k + 1)
          have h' : ((r' : Nat) : Int) = ((k + 1 : Nat) : Int) * ((r' / (k + 1) : Nat) : Int) + ((r' % (k + 1) : Nat) : Int) := by
            exact_mod_cast this.symm
          rw [h']; ring
        rw [e]
        have : (s' - ((r' / (k + 1) : Nat) : Int) * s) * a = s' * a - ((r' / (k + 1) : Nat) : Int) * (s * a) := by ring
        rw [this]
        exact h2.sub (h1.mul_left _)
      obtain ⟨i1, i2⟩ := ih (r' % (k + 1)) hlt _ (k + 1) s h3 h1
      refine ⟨i1, ?_⟩
      rw [i2, Nat.gcd_rec (k + 1) r']

theorem modInv_eq (a : Int) (m : Nat) :
    modInv? a m = if (xgcdAux (a % (m : Int)).toNat 1 m 0).1 = 1
      then some ((xgcdAux (a % (m : Int)).toNat 1 m 0).2 % (m : Int)).toNat else none := rfl

/-- `modInv?` returns the inverse in `[0,m)` when it returns something … -/
theorem modInv_sound (a : Int) (m : Nat) (hm : 0 < m) (x : Nat) (h : modInv? a m = some x) :
    x < m ∧ (a * x) % (m : Int) = 1 % (m : Int) := by
  rw [modInv_eq] at h
  have hmi : (0 : Int) < m := by exact_mod_cast hm
  have h1 : (((a % (m : Int)).toNat : Nat) : Int) ≡ 1 * a [ZMOD (m : Int)] := by
    rw [Int.toNat_of_nonneg (Int.emod_nonneg _ (ne_of_gt hmi)), one_mul]
    exact Int.mod_modEq _ _
  have h2 : ((m : Nat) : Int) ≡ 0 * a [ZMOD (m : Int)] := by
    rw [zero_mul]; exact Int.modEq_zero_iff_dvd.mpr (dvd_refl _)
  obtain ⟨s1, s2⟩ := xgcdAux_spec a m _ 1 m 0 h1 h2
  generalize xgcdAux (a % (m : Int)).toNat 1 m 0 = res at *
  obtain ⟨g, s⟩ := res
  simp only at h s1 s2
  by_cases hg : g = 1
  · simp only [hg, if_true, Option.some.injEq] at h
    subst h
    have hnn : 0 ≤ s % (m : Int) := Int.emod_nonneg _ (ne_of_gt hmi)
    have hlt : s % (m : Int) < m := Int.emod_lt_of_pos _ hmi
    refine ⟨by omega, ?_⟩
    rw [Int.toNat_of_nonneg hnn]
    have : a * (s % (m : Int)) ≡ 1 [ZMOD (m : Int)] := by
      have h3 : a * (s % (m : Int)) ≡ a * s [ZMOD (m : Int)] := (Int.mod_modEq _ _).mul_left _
      rw [hg] at s1
      have h4 : a * s = s * a := by ring
      rw [h4] at h3
      exact h3.trans (by exact_mod_cast s1.symm)
    exact this
  · simp [hg] at h

/-- … and returns nothing only when `a` is not invertible modulo `m`. -/
theorem modInv_none (a : Int) (m : Nat) (hm : 0 < m) (h : modInv? a m = none) : Int.gcd a m ≠ 1 := by
  rw [modInv_eq] at h
  have hmi : (0 : Int) < m := by exact_mod_cast hm
  have h1 : (((a % (m : Int)).toNat : Nat) : Int) ≡ 1 * a [ZMOD (m : Int)] := by
    rw [Int.toNat_of_nonneg (Int.emod_nonneg _ (ne_of_gt hmi)), one_mul]
    exact Int.mod_modEq _ _
  have h2 : ((m : Nat) : Int) ≡ 0 * a [ZMOD (m : Int)] := by
    rw [zero_mul]; exact Int.modEq_zero_iff_dvd.mpr (dvd_refl _)
  obtain ⟨_, s2⟩ := xgcdAux_spec a m _ 1 m 0 h1 h2
  generalize xgcdAux (a % (m : Int)).toNat 1 m 0 = res at *
  obtain ⟨g, s⟩ := res
  simp only at h s2
  by_cases hg : g = 1
  · simp [hg] at h
  · intro hgcd
    apply hg
    rw [s2]
    -- gcd ((a % m).toNat) m = gcd a m
    have e : Int.gcd a m = Nat.gcd (a % (m : Int)).toNat m := by
      have h3 : Int.gcd a m = Int.gcd (a % (m : Int)) m := (Int.gcd_emod a m).symm
      rw [h3]
      have hnn : 0 ≤ a % (m : Int) := Int.emod_nonneg _ (ne_of_gt hmi)
      conv_lhs => rw [← Int.toNat_of_nonneg hnn]
      exact Int.gcd_natCast_natCast _ _
    rw [← e]; exact hgcd



/-! ### mpn_pow_1 -/

/-- `v` occupies exactly `k` limbs. -/
def Sz (v k : Nat) : Prop := B ^ (k - 1) ≤ v ∧ v < B ^ k ∧ 1 ≤ k

theorem Sz_mul (r rn b bn : Nat) (hr : Sz r rn) (hb : Sz b bn) :
    B ^ (rn + bn - 2) ≤ r * b ∧ r * b < B ^ (rn + bn) := by
  obtain ⟨r1, r2, r3⟩ := hr
  obtain ⟨b1, b2, b3⟩ := hb
  constructor
  · have : B ^ (rn + bn - 2) = B ^ (rn - 1) * B ^ (bn - 1) := by rw [← pow_add]; congr 1; omega
    rw [this]; exact Nat.mul_le_mul r1 b1
  · rw [pow_add]; exact Nat.mul_lt_mul'' r2 b2

theorem pow1Loop_spec (b bn : Nat) (hb : Sz b bn) :
    ∀ (bits : List Bool) (r rn h : Nat), bits ≠ [] → r = b ^ (2 * h) → Sz r rn →
      (pow1Loop b bn bits r rn).1 = b ^ (bits.foldl (fun a bit => 2 * a + (if bit then 1 else 0)) h) ∧
      Sz (pow1Loop b bn bits r rn).1 (pow1Loop b bn bits r rn).2
  | [], _, _, _, hne, _, _ => absurd rfl hne
  | bit :: rest, r, rn, h, _, hr, hs => by
    -- after the optional multiplication
    have hstep : ∀ p : Nat × Nat,
        p = (if bit = true then
              (if bn = 1 then (r * b, rn + (if (r * b / B ^ rn != 0) = true then 1 else 0))
               else (r * b, rn + bn - (if r * b / B ^ (rn + bn - 1) = 0 then 1 else 0)))
             else (r, rn)) →
        p.1 = b ^ (2 * h + (if bit then 1 else 0)) ∧ Sz p.1 p.2 := by
      intro p hp
      cases bit with
      | false =>
        simp only [Bool.false_eq_true, if_false] at hp; subst hp
        exact ⟨by simpa using hr, hs⟩
      | true =>
        simp only [if_true] at hp
        obtain ⟨m1, m2⟩ := Sz_mul r rn b bn hs hb
        have hv : r * b = b ^ (2 * h + 1) := by rw [hr, pow_succ]
        obtain ⟨_, _, hrn⟩ := hs
        obtain ⟨_, _, hbn⟩ := hb
        by_cases h1 : bn = 1
        · rw [if_pos h1] at hp; subst hp; subst h1
          refine ⟨hv, ?_⟩
          simp only
          by_cases hc : r * b / B ^ rn = 0
          · have : (r * b / B ^ rn != 0) = false := by simp [hc]
            simp only [this, Bool.false_eq_true, if_false, Nat.add_zero]
            have hlt := (Nat.div_eq_zero_iff_lt (Nat.pow_pos B_pos)).mp hc
            have e : rn + 1 - 2 = rn - 1 := by omega
            rw [e] at m1
            exact ⟨m1, hlt, hrn⟩
          · have : (r * b / B ^ rn != 0) = true := by simpa using hc
            simp only [this, if_true]
            have hge : B ^ rn ≤ r * b := by
              by_contra hlt
              exact hc ((Nat.div_eq_zero_iff_lt (Nat.pow_pos B_pos)).mpr (by omega))
            exact ⟨by simpa using hge, m2, by omega⟩
        · rw [if_neg h1] at hp; subst hp
          refine ⟨hv, ?_⟩
          simp only
          by_cases hc : r * b / B ^ (rn + bn - 1) = 0
          · simp only [hc, if_true]
            have hlt := (Nat.div_eq_zero_iff_lt (Nat.pow_pos B_pos)).mp hc
            have e : rn + bn - 1 - 1 = rn + bn - 2 := by omega
            exact ⟨by rw [e]; exact m1, hlt, by omega⟩
          · simp only [hc, if_false, Nat.sub_zero]
            have hge : B ^ (rn + bn - 1) ≤ r * b := by
              by_contra hlt
              exact hc ((Nat.div_eq_zero_iff_lt (Nat.pow_pos B_pos)).mpr (by omega))
            exact ⟨hge, m2, by omega⟩
    rw [pow1Loop]
    simp only [List.foldl_cons]
    generalize hpe : (if bit = true then
              (if bn = 1 then (r * b, rn + (if (r * b / B ^ rn != 0) = true then 1 else 0))
               else (r * b, rn + bn - (if r * b / B ^ (rn + bn - 1) = 0 then 1 else 0)))
             else (r, rn)) = p
    obtain ⟨p1, p2⟩ := hstep p hpe.symm
    obtain ⟨x, xn⟩ := p
    simp only at p1 p2 ⊢
    cases rest with
    | nil => simpa using ⟨p1, p2⟩
    | cons c cs =>
      simp only
      have hsq : Sz (x * x) (dropTop (x * x) (2 * xn)) := by
        obtain ⟨m1, m2⟩ := Sz_mul x xn x xn p2 p2
        obtain ⟨_, _, hxn⟩ := p2
        have e2 : xn + xn = 2 * xn := by omega
        rw [e2] at m1 m2
        unfold dropTop
        by_cases hc : x * x / B ^ (2 * xn - 1) = 0
        · simp only [hc, if_true]
          have hlt := (Nat.div_eq_zero_iff_lt (Nat.pow_pos B_pos)).mp hc
          have e : 2 * xn - 1 - 1 = 2 * xn - 2 := by omega
          exact ⟨by rw [e]; exact m1, hlt, by omega⟩
        · simp only [hc, if_false, Nat.sub_zero]
          have hge : B ^ (2 * xn - 1) ≤ x * x := by
            by_contra hlt
            exact hc ((Nat.div_eq_zero_iff_lt (Nat.pow_pos B_pos)).mpr (by omega))
          exact ⟨hge, m2, by omega⟩
      have hx2 : x * x = b ^ (2 * (2 * h + (if bit then 1 else 0))) := by
        rw [p1, ← pow_add]; congr 1; omega
      exact pow1Loop_spec b bn hb (c :: cs) (x * x) _ _ (by simp) hx2 hsq

/-- mpn_pow_1 (value-level model of mpn/generic/pow_1.c): the returned `rn` limbs hold `b^exp` exactly and
    `rn` is the normalised size (top limb non-zero). -/
theorem mpn_pow_1_spec (bp : List Nat) (exp : Nat) (hb : Norm bp) (hne : bp ≠ []) :
    val (mpn_pow_1 bp exp) = val bp ^ exp ∧ Limbs (mpn_pow_1 bp exp) ∧
    B ^ ((mpn_pow_1 bp exp).length - 1) ≤ val (mpn_pow_1 bp exp) := by
  unfold mpn_pow_1
  by_cases h0 : exp = 0
  · subst h0; simp [Limbs_cons, Limbs_nil, B_eq]
  · simp only [h0, if_false]
    by_cases h1 : exp = 1
    · subst h1; simp only [if_true, pow_one]
      exact ⟨trivial, hb.1, Norm_ge bp hb hne⟩
    · simp only [h1, if_false]
      have hbs : Sz (val bp) bp.length := ⟨Norm_ge bp hb hne, val_lt bp hb.1, List.length_pos_of_ne_nil hne⟩
      have hsq : Sz (val bp * val bp) (dropTop (val bp * val bp) (2 * bp.length)) := by
        obtain ⟨m1, m2⟩ := Sz_mul _ _ _ _ hbs hbs
        obtain ⟨_, _, hxn⟩ := hbs
        have e2 : bp.length + bp.length = 2 * bp.length := by omega
        rw [e2] at m1 m2
        unfold dropTop
        by_cases hc : val bp * val bp / B ^ (2 * bp.length - 1) = 0
        · simp only [hc, if_true]
          have hlt := (Nat.div_eq_zero_iff_lt (Nat.pow_pos B_pos)).mp hc
          have e : 2 * bp.length - 1 - 1 = 2 * bp.length - 2 := by omega
          exact ⟨by rw [e]; exact m1, hlt, by omega⟩
        · simp only [hc, if_false, Nat.sub_zero]
          have hge : B ^ (2 * bp.length - 1) ≤ val bp * val bp := by
            by_contra hlt
            exact hc ((Nat.div_eq_zero_iff_lt (Nat.pow_pos B_pos)).mpr (by omega))
          exact ⟨hge, m2, by omega⟩
      have hne' : lowerBits exp ≠ [] := by
        unfold lowerBits
        have : 1 ≤ exp.log2 := by
          by_contra hlt
          have h0' : exp.log2 = 0 := by omega
          have := @Nat.lt_log2_self exp
          rw [h0'] at this; simp at this; omega
        intro h
        have := congrArg List.length h
        simp at this; omega
      obtain ⟨l1, l2⟩ := pow1Loop_spec (val bp) bp.length hbs (lowerBits exp) (val bp * val bp) _ 1 hne'
        (by rw [← pow_two]) hsq
      rw [lowerBits_spec exp h0] at l1
      generalize pow1Loop (val bp) bp.length (lowerBits exp) (val bp * val bp) (dropTop (val bp * val bp) (2 * bp.length)) = p at *
      obtain ⟨s1, s2, s3⟩ := l2
      rw [val_toLimbs_lt _ _ s2, toLimbs_length]
      exact ⟨l1, Limbs_toLimbs _ _, s1⟩


end Mpir.Powm
