/- mpz_cdiv_r_2exp / mpz_fdiv_r_2exp on the pointer-level model: early `up = PTR (u)` valid on the truncating side (no
   realloc when w = u), re-fetched on the negate side; mask and strip of the high limb. -/
import MpirProofs.Lemmas.AliasIor
namespace Mpir.AliasMem
open Mpir
open Mpir.DivZ (sizeNat siz sameSign)

theorem setBlk_same (s : St) {p : Nat} {b : List Nat} (hb : s.blk p = some b) : s.setBlk p (some b) = s := by
  cases s with
  | mk nv vars blk next =>
    simp only [St.setBlk, St.mk.injEq, true_and, and_true]
    funext q
    by_cases e : q = p
    · rw [if_pos e, e]; exact hb.symm
    · rw [if_neg e]

theorem mask_arith (a x lc c : Nat) (ha : a < B ^ lc) :
    (a + B ^ lc * x) % (B ^ lc * 2 ^ c) = a + B ^ lc * (x % 2 ^ c) := by
  rw [Nat.mod_mul, Nat.add_mul_mod_self_left, Nat.mod_eq_of_lt ha, Nat.add_mul_div_left _ _ (DivZ.Bpow_pos _),
    Nat.div_eq_of_lt ha, Nat.zero_add]

/-- the masking tail on a state whose block of `w` is `B1` -/
theorem cfdivRMask_ok {s1 : St} (h : Inv s1) {w : Nat} (hw : w < s1.nv) (B1 : List Nat) (hB1 : B1.length = s1.alloc w)
    (hB1L : Limbs B1) (lc c : Nat) (hlc : lc + 1 ≤ B1.length) (neg : Bool) :
    ∃ s', cfdivRMask w (s1.ptr w) lc c neg (s1.setBlk (s1.ptr w) (some B1)) = .ok s' ∧ Inv s' ∧ Upd s1 s' w ∧
      s'.value w = (if neg then -((val (B1.take (lc + 1)) % (B ^ lc * 2 ^ c) : Nat) : Int)
        else ((val (B1.take (lc + 1)) % (B ^ lc * 2 ^ c) : Nat) : Int)) := by
  unfold cfdivRMask
  simp only [bind, Except.bind, pure, Except.pure]
  have hl : (s1.setBlk (s1.ptr w) (some B1)).load (s1.ptr w) (lc + 1) = .ok (B1.take (lc + 1)) := by
    unfold St.load; rw [setBlk_blk_self]; simp only []; rw [if_pos hlc]
  rw [hl]; simp only []
  rw [storeAt_ok (setBlk_blk_self _ _ _) (by simp; omega), setBlk_setBlk]
  simp only []
  set x := (B1.take (lc + 1)).getD lc 0 with hx
  set a := val (B1.take lc) with ha
  have halt : a < B ^ lc := by
    have := val_lt _ (Limbs_take hB1L lc)
    have hl : (B1.take lc).length = lc := by simp; omega
    rwa [hl] at this
  have hxB1 : x = B1.getD lc 0 := by
    rw [hx, List.getD_eq_getElem?_getD, List.getD_eq_getElem?_getD, List.getElem?_take_of_lt (by omega)]
  have hsplit : B1.take (lc + 1) = B1.take lc ++ [x] := by
    rw [hxB1, List.take_add_one]
    have hlt : lc < B1.length := by omega
    simp [List.getD_eq_getElem?_getD, List.getElem?_eq_getElem hlt]
  have hvfull : val (B1.take (lc + 1)) = a + B ^ lc * x := by
    rw [hsplit, val_append]; simp only [val_cons, val_nil, Nat.mul_zero, Nat.add_zero]
    have hl : (B1.take lc).length = lc := by simp; omega
    rw [hl]
  set v := val (B1.take (lc + 1)) % (B ^ lc * 2 ^ c) with hv
  have hvval : v = a + B ^ lc * (x % 2 ^ c) := by rw [hv, hvfull, mask_arith a x lc c halt]
  set B2 := wrAt B1 lc [x % 2 ^ c] with hB2
  have hxm : x % 2 ^ c < B := by
    have : x < B := by
      rw [hxB1]
      have hlt : lc < B1.length := by omega
      rw [List.getD_eq_getElem?_getD, List.getElem?_eq_getElem hlt]; exact hB1L _ (List.getElem_mem hlt)
    exact Nat.lt_of_le_of_lt (Nat.mod_le _ _) this
  have hB2L : Limbs B2 := Limbs_wrAt hB1L (by intro y hy; simp at hy; rw [hy]; exact hxm)
  have hB2len : B2.length = s1.alloc w := by rw [hB2, wrAt_length (by simp; omega)]; exact hB1
  have hB2take : B2.take (lc + 1) = B1.take lc ++ [x % 2 ^ c] := by
    rw [hB2]; unfold wrAt
    exact List.take_left' (by simp; omega)
  have hB2val : val (B2.take (lc + 1)) = v := by
    rw [hB2take, val_append]; simp only [val_cons, val_nil, Nat.mul_zero, Nat.add_zero]
    have hl : (B1.take lc).length = lc := by simp; omega
    rw [hl, hvval]
  have hvlt : v < B ^ (lc + 1) := by
    rw [← hB2val]
    have := val_lt _ (Limbs_take hB2L (lc + 1))
    have hl : (B2.take (lc + 1)).length = lc + 1 := by simp; omega
    rwa [hl] at this
  have hk : sizeNat v ≤ lc + 1 := (DivZ.sizeNat_le_iff _ _).mpr hvlt
  have p := put_upd h hw B2 v neg hB2len hB2L (by omega)
    (by have e : B2.take (sizeNat v) = (B2.take (lc + 1)).take (sizeNat v) := by rw [List.take_take, Nat.min_eq_left hk]
        rw [e, val_take_eq_mod (Limbs_take hB2L _) _ (by simp; omega), hB2val]
        exact Nat.mod_eq_of_lt (DivZ.lt_B_pow_sizeNat v))
  exact ⟨_, rfl, p.1, p.2.1, p.2.2⟩

/-- the side of mpz_cdiv_r_2exp / mpz_fdiv_r_2exp that rounds towards zero (cfdiv_r_2exp.c:59-84 and the exit :44-48) -/
theorem cfdiv_r_2exp_trunc_ok {s : St} (h : Inv s) {w u : Nat} (hw : w < s.nv) (hu : u < s.nv) (cnt : Nat) (dir : Int)
    (htr : s.size u = 0 ∨ ¬ sameSign (s.size u) dir) :
    ∃ s', cfdiv_r_2exp w u cnt dir s = .ok s' ∧ Res s s' w (DivZ.tdivR (s.value u) ((2 ^ cnt : Nat) : Int)) := by
  unfold cfdiv_r_2exp
  simp only [bind, Except.bind, pure, Except.pure]
  set n := (s.size u).natAbs with hn
  set lc := cnt / 64 with hlc
  set c := cnt % 64 with hc
  set N := s.mag u with hN
  have hspec : DivZ.tdivR (s.value u) ((2 ^ cnt : Nat) : Int) =
      if decide (s.size u < 0) = true then -((N % 2 ^ cnt : Nat) : Int) else ((N % 2 ^ cnt : Nat) : Int) := by
    unfold DivZ.tdivR
    rw [DivZ.tmod_natCast, value_natAbs]
    have := h.size_neg_iff hu
    by_cases h0 : s.size u < 0
    · rw [if_neg (by omega), if_pos (by simpa using h0)]
    · rw [if_pos (by omega), if_neg (by simpa using h0)]
  rw [hspec]
  by_cases hz : s.size u = 0
  · rw [if_pos hz]
    have hm0 : N = 0 := h.mag_zero hu hz
    obtain ⟨i2, u2, v2⟩ := setSize_zero_spec h hw
    exact ⟨_, rfl, i2, u2.nv, by rw [v2, hm0]; simp, fun i hi hiw => u2.value_o h hw hi hiw⟩
  · rw [if_neg hz]
    have hns : ¬ sameSign (s.size u) dir := by rcases htr with e | e; exact absurd e hz; exact e
    rw [if_pos hns]
    have hNlt : N < B ^ n := h.mag_lt hu
    have h2cnt : B ^ lc ≤ 2 ^ cnt := by
      rw [← DivZ.pow_split cnt, ← hlc]; exact Nat.le_mul_of_pos_right _ (Nat.pow_pos (by decide))
    have hsmall : n ≤ lc → N % 2 ^ cnt = N := fun hle => by
      have : B ^ n ≤ B ^ lc := Nat.pow_le_pow_right B_pos hle
      exact Nat.mod_eq_of_lt (by omega)
    have hmod : ∀ L : Nat, L = N % B ^ (lc + 1) → L % (B ^ lc * 2 ^ c) = N % 2 ^ cnt := fun L e => by
      rw [e]; exact DivZ.mod_Bsucc_mod N cnt
    by_cases hwu : w = u
    · subst hwu
      simp only [if_true]
      by_cases hle : n ≤ lc
      · rw [if_pos hle]
        refine ⟨s, rfl, h, rfl, ?_, fun _ _ _ => rfl⟩
        rw [hsmall hle, value_eq_sgnv]; unfold sgnv
        by_cases h0 : s.size w < 0
        · rw [if_pos h0, if_pos (by simpa using h0)]
        · rw [if_neg h0, if_neg (by simpa using h0)]
      · rw [if_neg hle]
        obtain ⟨b, hb, hbl, hbL⟩ := h.live w hw
        have hf := h.fits w hw
        obtain ⟨s', e', i', u', v'⟩ := cfdivRMask_ok h hw b hbl hbL lc c (by omega) (decide (s.size w < 0))
        rw [setBlk_same s hb] at e'
        refine ⟨s', e', i', u'.nv, ?_, fun i hi hiw => u'.value_o h hw hi hiw⟩
        rw [v']
        have htk : b.take (lc + 1) = (s.limbs w).take (lc + 1) := by
          unfold St.limbs; rw [hb]; simp only [Option.getD_some]
          rw [List.take_take, Nat.min_eq_left (by omega)]
        rw [htk, hmod _ (val_limbs_take h hw (lc + 1) (by omega))]
    · rw [if_neg hwu]
      set i := min n (lc + 1) with hi
      obtain ⟨i1, nv1, size1, val1, a1, _⟩ := realloc_spec h hw i
      set s1 := s.mpzRealloc w i with hs1
      have hw1 : w < s1.nv := by rw [nv1]; exact hw
      have hu1 : u < s1.nv := by rw [nv1]; exact hu
      have hpu : s1.ptr u = s.ptr u := by rw [hs1, realloc_ptr]; simp [Ne.symm hwu]
      have hmag : s1.mag u = N := by
        show s1.mag u = s.mag u
        rw [← value_natAbs, ← value_natAbs, val1 u hu]
      rw [← hpu]
      by_cases hle : n ≤ lc
      · have hin : i = n := by omega
        obtain ⟨X, e1, e2, hXs, _, p⟩ := copy_low_ok i1 hw1 hu1 hwu i (by rw [size1]; omega) a1
          (by rw [hmag, hin, Nat.mod_eq_of_lt hNlt]; exact (h.size_natAbs hu).symm) (decide (s.size u < 0))
        rw [e1]; simp only []
        rw [e2]; simp only []
        rw [if_pos hle]
        have hsz : s.size u = (if decide (s.size u < 0) = true then -(i : Int) else (i : Int)) := by
          by_cases h0 : s.size u < 0
          · rw [if_pos (by simpa using h0)]; omega
          · rw [if_neg (by simpa using h0)]; omega
        have hNi : N % B ^ i = N % 2 ^ cnt := by rw [hin, Nat.mod_eq_of_lt hNlt, hsmall hle]
        rw [hmag, hNi] at p
        have hXeq : X.setSize w (s.size u) = X.setSize w (if decide (s.size u < 0) = true then -(i : Int) else (i : Int)) := by
          rw [← hsz]
        rw [hXeq]
        exact ⟨_, rfl, p.1, p.2.1.trans nv1, p.2.2.1, fun j hj hjw => (p.2.2.2 j (by rw [nv1]; exact hj) hjw).trans (val1 j hj)⟩
      · have hin : i = lc + 1 := by omega
        obtain ⟨bw, hbw, hbwl, hbwL⟩ := i1.live w hw1
        have hld := loadAt_var_low i1 hu1 i (by rw [size1]; omega)
        rw [hld]; simp only []
        have hLlen : ((s1.limbs u).take i).length = i := by simp [(i1.limbs_spec hu1).1, size1]; omega
        rw [storeAt_ok hbw (by rw [hLlen]; omega)]; simp only []
        rw [if_neg hle]
        obtain ⟨s', e', i', u', v'⟩ := cfdivRMask_ok i1 hw1 (wrAt bw 0 ((s1.limbs u).take i))
          (by rw [wrAt_length (by rw [hLlen]; omega)]; exact hbwl)
          (Limbs_wrAt hbwL (Limbs_take (i1.limbs_spec hu1).2 _)) lc c
          (by rw [wrAt_length (by rw [hLlen]; omega)]; omega) (decide (s.size u < 0))
        refine ⟨s', e', i', u'.nv.trans nv1, ?_, fun j hj hjw =>
          (u'.value_o i1 hw1 (by rw [nv1]; exact hj) hjw).trans (val1 j hj)⟩
        rw [v']
        have htk : (wrAt bw 0 ((s1.limbs u).take i)).take (lc + 1) = (s1.limbs u).take (lc + 1) := by
          rw [wrAt_zero, List.take_append_of_le_length (by have := hLlen; omega),
            List.take_take, Nat.min_eq_left (by omega)]
        rw [htk, hmod _ (by rw [val_limbs_take i1 hu1 (lc + 1) (by rw [size1]; omega), hmag])]

/-- the side that rounds away from zero (cfdiv_r_2exp.c:85-123): zero when the low cnt bits of u are zero, else the two's
    complement `2^cnt - (|u| mod 2^cnt)` with the opposite sign -/
theorem cfdiv_r_2exp_away_ok {s : St} (h : Inv s) {w u : Nat} (hw : w < s.nv) (hu : u < s.nv) (cnt : Nat) (dir : Int)
    (hz : s.size u ≠ 0) (hss : sameSign (s.size u) dir) :
    ∃ s', cfdiv_r_2exp w u cnt dir s = .ok s' ∧
      Res s s' w (if s.mag u % 2 ^ cnt = 0 then 0
        else if s.size u ≥ 0 then -((2 ^ cnt - s.mag u % 2 ^ cnt : Nat) : Int) else ((2 ^ cnt - s.mag u % 2 ^ cnt : Nat) : Int)) := by
  unfold cfdiv_r_2exp
  simp only [bind, Except.bind, pure, Except.pure]
  set n := (s.size u).natAbs with hn
  set lc := cnt / 64 with hlc
  set c := cnt % 64 with hc
  set N := s.mag u with hN
  rw [if_neg hz, if_neg (not_not.mpr hss)]
  have hNlt : N < B ^ n := h.mag_lt hu
  have hN0 : N ≠ 0 := fun e => by
    have := h.size_natAbs hu; rw [← hN, e, DivZ.sizeNat_eq_zero.mpr rfl] at this; omega
  have h2cnt : B ^ lc ≤ 2 ^ cnt := by
    rw [← DivZ.pow_split cnt, ← hlc]; exact Nat.le_mul_of_pos_right _ (Nat.pow_pos (by decide))
  -- the test for "some low bit is set"
  have hneed : ∃ nb : Bool, cfdivRNeedNeg (s.ptr u) n lc c s = Except.ok nb ∧ (nb = true ↔ N % 2 ^ cnt ≠ 0) := by
    unfold cfdivRNeedNeg
    simp only [bind, Except.bind, pure, Except.pure]
    by_cases hle : n ≤ lc
    · rw [if_pos hle]
      refine ⟨true, rfl, ?_⟩
      have : B ^ n ≤ B ^ lc := Nat.pow_le_pow_right B_pos hle
      rw [Nat.mod_eq_of_lt (by omega)]; simp [hN0]
    · rw [if_neg hle, loadAt_var_low h hu lc (by omega)]; simp only []
      rw [val_limbs_take h hu lc (by omega)]
      have hlow := DivZ.low_bits_ne_zero_iff N cnt
      rw [← hlc, ← hc] at hlow
      by_cases hl0 : N % B ^ lc ≠ 0
      · rw [if_pos hl0]
        exact ⟨true, rfl, by simp; exact hlow.mp (Or.inl hl0)⟩
      · rw [if_neg hl0, limbAt_var h hu lc (by omega)]; simp only []
        rw [DivZ.limb_mod]
        refine ⟨_, rfl, ?_⟩
        rw [decide_eq_true_iff, ← hlow]
        constructor
        · intro hx; exact Or.inr hx
        · rintro (hx | hx)
          · exact absurd hx hl0
          · exact hx
  obtain ⟨nb, enb, hnb⟩ := hneed
  rw [enb]; simp only []
  cases nb
  · have hr0 : N % 2 ^ cnt = 0 := by
      by_contra hcon
      exact absurd (hnb.mpr hcon) (by simp)
    simp only [Bool.not_false, if_true]
    rw [if_pos hr0]
    obtain ⟨i2, u2, v2⟩ := setSize_zero_spec h hw
    exact ⟨_, rfl, i2, u2.nv, v2, fun i hi hiw => u2.value_o h hw hi hiw⟩
  · have hr : N % 2 ^ cnt ≠ 0 := hnb.mp rfl
    simp only [Bool.not_true, Bool.false_eq_true, if_false]
    rw [if_neg hr]
    unfold cfdivRNegate
    simp only [bind, Except.bind, pure, Except.pure]
    obtain ⟨i1, nv1, size1, val1, a1, _⟩ := realloc_spec h hw (lc + 1)
    set s1 := s.mpzRealloc w (lc + 1) with hs1
    have hw1 : w < s1.nv := by rw [nv1]; exact hw
    have hu1 : u < s1.nv := by rw [nv1]; exact hu
    have hmag : s1.mag u = N := by
      show s1.mag u = s.mag u
      rw [← value_natAbs, ← value_natAbs, val1 u hu]
    set i := min n (lc + 1) with hi
    rw [loadAt_var_low i1 hu1 i (by rw [size1]; omega)]; simp only []
    obtain ⟨hL0, hnegmod⟩ := DivZ.neg_mod_pow hr
    have hLval : val ((s1.limbs u).take i) = N % B ^ (lc + 1) := by
      rw [val_limbs_take i1 hu1 i (by rw [size1]; omega), hmag]
      by_cases hle : n ≤ lc
      · have hin : i = n := by omega
        have : B ^ n ≤ B ^ (lc + 1) := Nat.pow_le_pow_right B_pos (by omega)
        rw [hin, Nat.mod_eq_of_lt hNlt, Nat.mod_eq_of_lt (by omega)]
      · have hin : i = lc + 1 := by omega
        rw [hin]
    rw [hLval]
    set L := N % B ^ (lc + 1) with hLdef
    have hLlt : L < B ^ (lc + 1) := Nat.mod_lt _ (DivZ.Bpow_pos _)
    obtain ⟨bw, hbw, hbwl, hbwL⟩ := i1.live w hw1
    have hTlen : (toLimbs (lc + 1) (B ^ (lc + 1) - L)).length = lc + 1 := toLimbs_length _ _
    rw [storeAt_ok hbw (by rw [hTlen]; omega)]; simp only []
    obtain ⟨s', e', i', u', v'⟩ := cfdivRMask_ok i1 hw1 (wrAt bw 0 (toLimbs (lc + 1) (B ^ (lc + 1) - L)))
      (by rw [wrAt_length (by rw [hTlen]; omega)]; exact hbwl)
      (Limbs_wrAt hbwL (Limbs_toLimbs _ _)) lc c
      (by rw [wrAt_length (by rw [hTlen]; omega)]; omega) (decide (s.size u ≥ 0))
    refine ⟨s', e', i', u'.nv.trans nv1, ?_, fun j hj hjw =>
      (u'.value_o i1 hw1 (by rw [nv1]; exact hj) hjw).trans (val1 j hj)⟩
    rw [v']
    have htk : (wrAt bw 0 (toLimbs (lc + 1) (B ^ (lc + 1) - L))).take (lc + 1) = toLimbs (lc + 1) (B ^ (lc + 1) - L) := by
      rw [wrAt_zero, List.take_append_of_le_length (by rw [hTlen]), List.take_of_length_le (by rw [hTlen])]
    rw [htk, val_toLimbs_lt (by omega), hnegmod]
    by_cases h0 : s.size u ≥ 0
    · rw [if_pos (by simpa using h0), if_pos h0]
    · rw [if_neg (by simpa using h0), if_neg h0]

theorem cfdiv_r_2exp_ok {s : St} (h : Inv s) {w u : Nat} (hw : w < s.nv) (hu : u < s.nv) (cnt : Nat) (dir : Int)
    (hdir : dir = 1 ∨ dir = -1) :
    ∃ s', cfdiv_r_2exp w u cnt dir s = .ok s' ∧ Res s s' w (DivZ.specR dir (s.value u) ((2 ^ cnt : Nat) : Int)) := by
  have hpos : (2 ^ cnt : Nat) ≠ 0 := (Nat.pow_pos (by decide)).ne'
  obtain ⟨_, hR⟩ := DivZ.spec_ui dir (by rcases hdir with e | e <;> simp [e]) (s.value u) (2 ^ cnt) hpos
  have hmabs : (s.value u).natAbs = s.mag u := value_natAbs s u
  have hsiz : siz (s.value u) = s.size u := (h.norm u hu).symm
  have hneg := h.size_neg_iff hu
  rw [hmabs, hsiz] at hR
  rw [hR]
  by_cases hz : s.size u = 0
  · obtain ⟨s', e', hres⟩ := cfdiv_r_2exp_trunc_ok h hw hu cnt dir (Or.inl hz)
    refine ⟨s', e', ?_⟩
    have hm0 : s.mag u = 0 := h.mag_zero hu hz
    have hv0 : s.value u = 0 := (h.size_eq_zero_iff hu).mp hz
    rw [hv0] at hres
    rw [hm0]; simpa [DivZ.tdivR] using hres
  · by_cases hss : sameSign (s.size u) dir
    · obtain ⟨s', e', hres⟩ := cfdiv_r_2exp_away_ok h hw hu cnt dir hz hss
      refine ⟨s', e', ?_⟩
      by_cases hr : s.mag u % 2 ^ cnt = 0
      · rw [if_pos hr] at hres ⊢; exact hres
      · rw [if_neg hr] at hres ⊢
        have hadj : DivZ.uiAdjust dir (s.mag u % 2 ^ cnt) (s.size u) := by
          unfold DivZ.uiAdjust sameSign at *
          rcases hdir with e | e <;> subst e <;> simp at hss ⊢ <;> omega
        rw [if_pos hadj]
        unfold DivZ.uiRem
        rcases hdir with e | e <;> subst e
        · have h0 : s.size u ≥ 0 := by unfold sameSign at hss; simp at hss; omega
          rw [if_pos h0] at hres; simpa using hres
        · have h0 : ¬ s.size u ≥ 0 := by unfold sameSign at hss; simp at hss; omega
          rw [if_neg h0] at hres; simpa using hres
    · obtain ⟨s', e', hres⟩ := cfdiv_r_2exp_trunc_ok h hw hu cnt dir (Or.inr hss)
      refine ⟨s', e', ?_⟩
      unfold DivZ.tdivR at hres
      rw [DivZ.tmod_natCast, hmabs] at hres
      by_cases hr : s.mag u % 2 ^ cnt = 0
      · rw [if_pos hr]; rw [hr] at hres; simpa using hres
      · rw [if_neg hr]
        have hadj : ¬ DivZ.uiAdjust dir (s.mag u % 2 ^ cnt) (s.size u) := by
          unfold DivZ.uiAdjust sameSign at *
          rcases hdir with e | e <;> subst e <;> simp at hss ⊢ <;> omega
        rw [if_neg hadj]
        unfold DivZ.uiRem
        rcases hdir with e | e <;> subst e
        · have h0 : ¬ (0 ≤ s.value u) := by unfold sameSign at hss; simp at hss; omega
          rw [if_neg h0] at hres; simpa using hres
        · have h0 : 0 ≤ s.value u := by unfold sameSign at hss; simp at hss; omega
          rw [if_pos h0] at hres; simpa using hres

end Mpir.AliasMem
