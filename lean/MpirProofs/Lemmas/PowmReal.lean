/- mpn_powm on memory over an arbitrary reduction meeting `RedOK` (the proof of `mpnPowmMem_correct`, generic in `red`). -/
import MpirProofs.Lemmas.PowmLimb
import Mpir.Model.PowmReal
namespace Mpir.PowmL
open Mpir Mpir.Powm Mpir.PowmR

theorem mpnPowmMemG_correct (red : List Nat → List Nat × Bool) (thr : Nat) (binvItch : Nat → Nat) (itch : Nat)
    (bp ep mp : List Nat) (hred : RedOK red mp)
    (hep : Norm ep) (hne : ep ≠ []) (hmp : Limbs mp) (hn : 1 ≤ mp.length) (hodd : val mp % 2 = 1)
    (hitch : 2 * mp.length ≤ itch) (hbinv : thr ≤ mp.length → binvItch mp.length ≤ itch) :
    (mpnPowmMemG red thr binvItch itch bp ep mp).2 = true ∧
    (mpnPowmMemG red thr binvItch itch bp ep mp).1 = toLimbs mp.length (val bp ^ val ep % val mp) := by
  set m := val mp with hmd
  set b := val bp with hbd
  have hmpos : 0 < m := by omega
  have hmlt : m < B ^ mp.length := val_lt mp hmp
  have hcop : Nat.gcd m (B ^ mp.length) = 1 := by
    have : B ^ mp.length = 2 ^ (64 * mp.length) := by rw [B_eq_two_pow, ← pow_mul]
    rw [this]; exact (coprime_two_pow_odd _ m hodd).symm
  obtain ⟨hw1, hw63⟩ := win_size_bounds (sizeinbase2 ep)
  set w := win_size (sizeinbase2 ep) with hw
  have h2w : 1 ≤ 2 ^ (w - 1) := Nat.one_le_two_pow
  -- the flag of mpn_binvert
  have hok0 : (if mp.length < thr then true else decide (binvItch mp.length ≤ itch)) = true := by
    by_cases h : mp.length < thr
    · simp [h]
    · simp only [h, if_false, decide_eq_true_eq]; exact hbinv (by omega)
  -- the table
  have htpl : (zeros itch).length = itch := zeros_length _
  set pp0 := (List.replicate (2 ^ (w - 1)) (zeros mp.length)).set 0 (toLimbs mp.length ((b * B ^ mp.length) % m)) with hpp0
  have hpp0l : pp0.length = 2 ^ (w - 1) := by rw [hpp0, List.length_set, List.length_replicate]
  have he0 : pp0.getD 0 (zeros mp.length) = toLimbs mp.length ((b * B ^ mp.length) % m) := by
    rw [hpp0, getD_set_list _ _ _ _ _ (by rw [List.length_replicate]; omega)]; simp
  have hg0 : Good b mp (toLimbs mp.length ((b * B ^ mp.length) % m)) 1 := by
    refine ⟨Limbs_toLimbs _ _, toLimbs_length _ _, ?_⟩
    rw [val_toLimbs_lt _ _ (lt_trans (Nat.mod_lt _ hmpos) hmlt), pow_one]
    exact Nat.mod_modEq _ _
  obtain ⟨q1, q2, q3⟩ := good_mul red mp hred b hcop (zeros itch) _ _ 1 1 (by rw [htpl]; exact hitch) hg0 hg0
  have htab := precomp_spec red mp hred b w hcop _ q3 (2 ^ (w - 1) - 1) 0 pp0
    (mulRed red mp.length (zeros itch) (toLimbs mp.length ((b * B ^ mp.length) % m)) (toLimbs mp.length ((b * B ^ mp.length) % m))).2.1
    ((if mp.length < thr then true else decide (binvItch mp.length ≤ itch)) && inPP mp.length w 0 &&
      (mulRed red mp.length (zeros itch) (toLimbs mp.length ((b * B ^ mp.length) % m)) (toLimbs mp.length ((b * B ^ mp.length) % m))).2.2)
    hpp0l (by omega) (by rw [q2, htpl]; exact hitch)
    (by rw [hok0, inPP_of_lt mp.length w 0 (by omega), q1]; rfl)
    (by
      intro i hi
      have : i = 0 := by omega
      subst this
      rw [he0]; exact hg0)
  have htdef : powmTable red mp.length w (zeros itch) (if mp.length < thr then true else decide (binvItch mp.length ≤ itch)) b m =
      precomp red mp.length w (mulRed red mp.length (zeros itch) (toLimbs mp.length ((b * B ^ mp.length) % m)) (toLimbs mp.length ((b * B ^ mp.length) % m))).1
        (2 ^ (w - 1) - 1) 0 pp0
        (mulRed red mp.length (zeros itch) (toLimbs mp.length ((b * B ^ mp.length) % m)) (toLimbs mp.length ((b * B ^ mp.length) % m))).2.1
        ((if mp.length < thr then true else decide (binvItch mp.length ≤ itch)) && inPP mp.length w 0 &&
          (mulRed red mp.length (zeros itch) (toLimbs mp.length ((b * B ^ mp.length) % m)) (toLimbs mp.length ((b * B ^ mp.length) % m))).2.2) := by
    unfold powmTable
    simp only [← hpp0, he0]
  rw [← htdef] at htab
  obtain ⟨t1, t2, t3⟩ := htab
  rw [q2, htpl] at t2
  set T := powmTable red mp.length w (zeros itch) (if mp.length < thr then true else decide (binvItch mp.length ≤ itch)) b m with hTd
  -- the window loop
  let Rel : St → Nat → Prop := fun s k => s.ok = true ∧ s.tp.length = itch ∧ Good b mp s.rp k
  have hsqr : ∀ s k, Rel s k → Rel (sqrSt red mp.length s) (2 * k) := by
    intro s k ⟨h1, h2, h3⟩
    obtain ⟨g1, g2, g3⟩ := good_mul red mp hred b hcop s.tp s.rp s.rp k k (by rw [h2]; exact hitch) h3 h3
    refine ⟨?_, ?_, ?_⟩
    · simp only [sqrSt, h1, g1]; rfl
    · simp only [sqrSt]; rw [g2, h2]
    · simp only [sqrSt]; rw [two_mul]; exact g3
  have hmul : ∀ s k i, i < 2 ^ (w - 1) → Rel s k →
      Rel (mulSt red mp.length s (tableSt mp.length w T.1 T.2.1 T.2.2 i)) (k + (2 * i + 1)) := by
    intro s k i hi ⟨h1, h2, h3⟩
    obtain ⟨g1, g2, g3⟩ := good_mul red mp hred b hcop s.tp s.rp (T.1.getD i (zeros mp.length)) k (2 * i + 1)
      (by rw [h2]; exact hitch) h3 (t3 i hi)
    refine ⟨?_, ?_, ?_⟩
    · simp only [mulSt, tableSt, h1, g1, t1, inPP_of_lt mp.length w i hi]; rfl
    · simp only [mulSt, tableSt]; rw [g2, h2]
    · simp only [mulSt, tableSt]; exact g3
  have htabR : ∀ i, i < 2 ^ (w - 1) → Rel (tableSt mp.length w T.1 T.2.1 T.2.2 i) (2 * i + 1) := by
    intro i hi
    refine ⟨?_, t2, t3 i hi⟩
    simp only [tableSt, t1, inPP_of_lt mp.length w i hi]; rfl
  have hres := windowExp_rel (sqrSt red mp.length) (mulSt red mp.length) (tableSt mp.length w T.1 T.2.1 T.2.2) Rel
    ep hep.1 hne (hep.2 hne) w hw1 hw63 hsqr hmul htabR
  obtain ⟨f1, f2, f3⟩ := hres
  have hfin := powmFinish_spec red mp hred hmp hn b (val ep) hcop hmpos _ f1 (by rw [f2]; exact hitch) f3
  unfold mpnPowmMemG
  exact hfin

end Mpir.PowmL
