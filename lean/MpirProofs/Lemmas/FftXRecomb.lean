/- One coefficient of mpir_fft_mulmod_2expp1 (Mpir/Model/FftMulmod.lean, `recombine`): the number stored by
   mulmod_2expp1.c:127-139 and the sign correction of :153-167 give back the coefficient. -/
import MpirProofs.Lemmas.FftXNegConv
import Mpir.Model.FftMulmod
set_option linter.unusedSimpArgs false
namespace Mpir.FftX
open Mpir

theorem getD_zero_eq_val_mod (l : List Nat) (hl : Limbs l) (hne : 1 ≤ l.length) : l.getD 0 0 = val l % B := by
  cases l with
  | nil => simp at hne
  | cons x xs =>
    have hx : x < B := hl x (by simp)
    simp only [List.getD_cons_zero, val_cons]
    rw [Nat.add_mul_mod_self_left, Nat.mod_eq_of_lt hx]

theorem recombine_spec (L : Nat) (hL : 1 ≤ L) (c : Int) (v : List Nat) (rj : Nat)
    (hvl : v.length = L + 1) (hvL : Limbs v)
    (hvn : Fft.top v = 0 ∨ (Fft.top v = 1 ∧ val (Fft.lo v) = 0))
    (hcv : c ≡ Fft.rval v [ZMOD (B : Int) ^ L + 1]) (hr : (rj : Int) = c % B)
    (hlo : -((B : Int) ^ (L + 1)) ≤ 2 * c) (hhi : 2 * c < (B : Int) ^ (L + 1)) :
    ((recombine L v rj).1 : Int) -
        (if (recombine L v rj).2 ≠ 0 then (B : Int)
         else if (recombine L v rj).1 / B ^ L ≥ B / 2 then (B : Int) + (B : Int) ^ (L + 1) else 0) = c ∧
    (recombine L v rj).1 < B ^ (L + 1) ∧ (recombine L v rj).2 ≤ 1 := by
  obtain ⟨lo, t, rfl, hlol⟩ := Fft.exists_snoc v L hvl
  simp only [Fft.top_snoc, Fft.lo_snoc] at hvn
  have hloL : Limbs lo := (Fft.Limbs_snoc.mp hvL).1
  have hBpos : 0 < B := by unfold B; norm_num
  have hB2 : B / 2 * 2 = B := by unfold B; norm_num
  have hBL : 0 < B ^ L := Nat.pow_pos hBpos
  have hlov : val lo < B ^ L := by rw [← hlol]; exact val_lt lo hloL
  have hps : B ^ (L + 1) = B ^ L * B := pow_succ B L
  have hpsI : (B : Int) ^ (L + 1) = (B : Int) ^ L * B := pow_succ _ L
  -- the residue as a number in [0, B^L]
  have ht1 : t ≤ 1 := by rcases hvn with h | ⟨h, _⟩ <;> omega
  have hrv : Fft.rval (lo ++ [t]) = ((val lo + t * B ^ L : Nat) : Int) := by
    rw [Fft.rval_snoc, hlol, Fft.sint_of_small t (by unfold B; omega)]; push_cast; ring
  have hvN1 : val lo + t * B ^ L ≤ B ^ L := by
    rcases hvn with h | ⟨h, h0⟩
    · rw [h]; omega
    · rw [h, h0]; omega
  -- its low limb
  have hv0 : (lo ++ [t]).getD 0 0 = (val lo + t * B ^ L) % B := by
    have hne : 1 ≤ lo.length := by omega
    have : (lo ++ [t]).getD 0 0 = lo.getD 0 0 := by
      cases lo with
      | nil => simp at hne
      | cons x xs => rfl
    rw [this, getD_zero_eq_val_mod lo hloL hne]
    obtain ⟨L', rfl⟩ : ∃ L', L = L' + 1 := ⟨L - 1, by omega⟩
    rw [pow_succ, ← Nat.mul_assoc, Nat.add_mul_mod_self_right]
  set vN := val lo + t * B ^ L with hvN
  -- τ as an integer
  have hrj : rj < B := by
    have h1 : c % (B : Int) < B := Int.emod_lt_of_pos _ (by exact_mod_cast hBpos)
    have : (rj : Int) < B := by rw [hr]; exact h1
    exact_mod_cast this
  have htau : (((rj + B - (lo ++ [t]).getD 0 0) % B : Nat) : Int) = (c % B - (vN : Int) % B) % B := by
    rw [hv0]
    have hlt : vN % B < B := Nat.mod_lt _ hBpos
    have e : ((rj + B - vN % B : Nat) : Int) = (rj : Int) + B - ((vN % B : Nat) : Int) := by
      rw [Nat.cast_sub (by omega)]; push_cast; ring
    rw [Int.natCast_mod, e, hr, Int.natCast_mod]
    rw [show c % (B : Int) + B - (vN : Int) % B = (c % B - (vN : Int) % B) + B by ring, Int.add_emod_right]
  -- the stored number
  obtain ⟨C1, C2⟩ := negacyclic_crt_lemma L hL c (vN : Int) (by positivity) (by exact_mod_cast hvN1)
    (by rw [← hrv]; exact hcv) hlo hhi
  unfold recombine
  simp only [Fft.top_snoc, Fft.lo_snoc]
  set tau := (rj + B - (lo ++ [t]).getD 0 0) % B with htau'
  have hWn : val lo + tau * B ^ L + tau + t * B ^ L = vN + tau * (B ^ L + 1) := by rw [hvN]; ring
  rw [hWn]
  have hWI : ((vN + tau * (B ^ L + 1) : Nat) : Int) = (vN : Int) + ((c % B - (vN : Int) % B) % B) * ((B : Int) ^ L + 1) := by
    push_cast; rw [← htau]
  generalize hW : vN + tau * (B ^ L + 1) = W at *
  have hhalf : (B : Int) ^ (L + 1) = 2 * ((B / 2 : Nat) : Int) * (B : Int) ^ L := by
    rw [hpsI]; have : ((B / 2 : Nat) : Int) * 2 = (B : Int) := by exact_mod_cast hB2
    linear_combination (-(B : Int) ^ L) * this
  by_cases hc : 0 ≤ c
  · -- c ≥ 0: W = c
    have hWc : (W : Int) = c := by rw [hWI]; exact C1 hc
    have hWlt : 2 * W < B ^ (L + 1) := by
      have : 2 * (W : Int) < (B : Int) ^ (L + 1) := by rw [hWc]; exact hhi
      exact_mod_cast this
    have hmod : W % B ^ (L + 1) = W := Nat.mod_eq_of_lt (by omega)
    have hdiv : W / B ^ (L + 1) = 0 := Nat.div_eq_of_lt (by omega)
    have hsign : ¬ (W / B ^ L ≥ B / 2) := by
      intro h
      have : B / 2 * B ^ L ≤ W := by
        calc B / 2 * B ^ L ≤ W / B ^ L * B ^ L := Nat.mul_le_mul_right _ h
          _ ≤ W := Nat.div_mul_le_self _ _
      have e : B ^ (L + 1) = 2 * (B / 2 * B ^ L) := by rw [hps]; nlinarith
      omega
    rw [hmod, hdiv]
    refine ⟨by rw [if_neg (by simp), if_neg hsign, hWc]; ring, by omega, by omega⟩
  · have hc' : c < 0 := by omega
    have hWc : (W : Int) = c + B * ((B : Int) ^ L + 1) := by rw [hWI]; exact C2 hc'
    by_cases hcb : 0 ≤ c + B
    · -- small negative: overflow word set
      obtain ⟨k, hk⟩ : ∃ k : Nat, (k : Int) = c + B := ⟨(c + B).toNat, Int.toNat_of_nonneg hcb⟩
      have hkB : k < B := by have : (k : Int) < B := by rw [hk]; omega
                             exact_mod_cast this
      have hWk : W = B ^ (L + 1) + k := by
        have : (W : Int) = ((B ^ (L + 1) + k : Nat) : Int) := by rw [hWc]; push_cast; rw [hk, hpsI]; ring
        exact_mod_cast this
      have hkl : k < B ^ (L + 1) := by
        calc k < B := hkB
          _ ≤ B ^ L * B := Nat.le_mul_of_pos_left _ hBL
          _ = B ^ (L + 1) := hps.symm
      have hmod : W % B ^ (L + 1) = k := by rw [hWk, Nat.add_mod_left, Nat.mod_eq_of_lt hkl]
      have hdiv : W / B ^ (L + 1) = 1 := by
        rw [hWk, Nat.add_div_left _ (Nat.pow_pos hBpos), Nat.div_eq_of_lt hkl]
      rw [hmod, hdiv]
      refine ⟨by rw [if_pos (by norm_num), hk]; ring, hkl, le_refl _⟩
    · -- negative: no overflow, sign bit of the top limb set
      have hcb' : c + B < 0 := by omega
      have eB : (B : Int) * ((B : Int) ^ L + 1) = (B : Int) ^ (L + 1) + B := by rw [hpsI]; ring
      have hWlt : W < B ^ (L + 1) := by
        have : (W : Int) < (B : Int) ^ (L + 1) := by rw [hWc, eB]; linarith
        exact_mod_cast this
      have hWge : B / 2 * B ^ L ≤ W := by
        have : ((B / 2 * B ^ L : Nat) : Int) ≤ (W : Int) := by
          rw [hWc, eB]; push_cast
          have hB0 : (0 : Int) ≤ B := by exact_mod_cast (Nat.zero_le B)
          have h2 : (B : Int) ^ (L + 1) = 2 * (((B / 2 : Nat) : Int) * (B : Int) ^ L) := by rw [hhalf]; ring
          push_cast at h2
          linarith
        exact_mod_cast this
      have hmod : W % B ^ (L + 1) = W := Nat.mod_eq_of_lt hWlt
      have hdiv : W / B ^ (L + 1) = 0 := Nat.div_eq_of_lt hWlt
      have hsign : W / B ^ L ≥ B / 2 := (Nat.le_div_iff_mul_le hBL).mpr hWge
      rw [hmod, hdiv]
      refine ⟨by rw [if_neg (by simp), if_pos hsign, hWc, hpsI]; ring, hWlt, by omega⟩

end Mpir.FftX

namespace Mpir.FftX
open Mpir Finset

/-- The negacyclic convolution evaluated at X is the product of the two polynomials evaluated at X, modulo X^m + 1
    (over the integers: the coefficients of the plain product from m on are folded back with a minus sign). -/
theorem negconv_eval_modEq (a b : List Int) (m : Nat) (ha : ∀ i, m ≤ i → el a i = 0) (hb : ∀ i, m ≤ i → el b i = 0) (X : Int) :
    ∑ k ∈ range m, el (negconv a b m) k * X ^ k ≡
      (∑ i ∈ range m, el a i * X ^ i) * (∑ j ∈ range m, el b j * X ^ j) [ZMOD X ^ m + 1] := by
  have h2 := cauchy_range (fun i => el a i) (fun i => el b i) X (2 * m) m m ha hb (by omega)
  have ea : ∑ i ∈ range (2 * m), el a i * X ^ i = ∑ i ∈ range m, el a i * X ^ i := by
    symm; apply sum_subset (range_subset_range.mpr (by omega))
    intro i _ hi; have : m ≤ i := by simpa using hi
    rw [ha i this]; ring
  have eb : ∑ i ∈ range (2 * m), el b i * X ^ i = ∑ i ∈ range m, el b i * X ^ i := by
    symm; apply sum_subset (range_subset_range.mpr (by omega))
    intro i _ hi; have : m ≤ i := by simpa using hi
    rw [hb i this]; ring
  rw [ea, eb] at h2
  rw [← h2, two_mul m, sum_range_add]
  apply Int.modEq_iff_dvd.mpr
  refine ⟨∑ k ∈ range m, (∑ i ∈ range (m + k + 1), el a i * el b (m + k - i)) * X ^ k, ?_⟩
  rw [mul_sum, ← sum_add_distrib, ← sum_sub_distrib]
  apply sum_congr rfl; intro k hk
  rw [el_negconv _ _ _ _ (mem_range.mp hk), pow_add]; ring

end Mpir.FftX
