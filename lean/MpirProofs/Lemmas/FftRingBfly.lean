/- FFT ring layer: mpn_sumdiff_n and the limb-shift butterflies with x = 0 (the radix-2 butterflies). -/
import MpirProofs.Lemmas.FftRingShift
import Mathlib.Tactic.SplitIfs
namespace Mpir.Fft
open Mpir

/-- the signed top limb lies in [-2^62, 2^62): sums and differences of two such limbs do not overflow -/
def TopSmall (x : List Nat) : Prop :=
  -4611686018427387904 < sint (top x) ∧ sint (top x) < 4611686018427387904

theorem topSmall_rval (xs : List Nat) (h : Nat) (hx : Limbs (xs ++ [h])) (ht : TopSmall (xs ++ [h])) :
    -(4611686018427387904 * (B : Int) ^ xs.length) ≤ rval (xs ++ [h]) ∧
    rval (xs ++ [h]) < 4611686018427387904 * (B : Int) ^ xs.length := by
  have ⟨hxs, _⟩ := Limbs_snoc.mp hx
  have hv0 : (0 : Int) ≤ val xs := by positivity
  have hv1 := valZ_lt xs hxs
  unfold TopSmall at ht; simp only [top_snoc] at ht
  have hP := BZpow_pos xs.length
  rw [rval_snoc]
  constructor <;> nlinarith

/-! ### signed readings of limb expressions -/

theorem sint_ladd (a b : Nat) (ha : a < B) (hb : b < B)
    (h1 : -9223372036854775808 ≤ sint a + sint b) (h2 : sint a + sint b < 9223372036854775808) :
    sint (ladd a b) = sint a + sint b := by
  have ea := sint_def a; have eb := sint_def b; have ec := sint_def (ladd a b)
  unfold ladd at *; simp only [B_eq] at *
  split_ifs at ea eb ec <;> omega

theorem sint_lsub (a b : Nat) (ha : a < B) (hb : b < B)
    (h1 : -9223372036854775808 ≤ sint a - sint b) (h2 : sint a - sint b < 9223372036854775808) :
    sint (lsub a b) = sint a - sint b := by
  have ea := sint_def a; have eb := sint_def b; have ec := sint_def (lsub a b)
  unfold lsub at *; simp only [B_eq] at *
  split_ifs at ea eb ec <;> omega

theorem sint_bit (b : Nat) (hb : b ≤ 1) : sint b = b := by
  rw [sint_def]; split <;> omega

theorem sint_lneg_bit (b : Nat) (hb : b ≤ 1) : sint (lneg b) = -(b : Int) := by
  have : b < B := by have := B_eq; omega
  rw [sint_lneg b this (by have := B_eq; omega), sint_bit b hb]

theorem sint_half : sint (B / 2) = -9223372036854775808 := by
  rw [sint_def]; simp only [B_eq]; norm_num

theorem ne_half (c : Nat) (h : -9223372036854775808 < sint c) : c ≠ B / 2 := by
  intro hc; rw [hc, sint_half] at h; omega

/-- `-(b) + (h2 - h1)` (butterfly_lshB.c:56) -/
theorem sint_u (h1 h2 b : Nat) (hh1 : h1 < B) (hh2 : h2 < B) (hb : b ≤ 1)
    (t1 : -4611686018427387904 < sint h1 ∧ sint h1 < 4611686018427387904)
    (t2 : -4611686018427387904 < sint h2 ∧ sint h2 < 4611686018427387904) :
    sint (ladd (lneg b) (lsub h2 h1)) = -(b : Int) + (sint h2 - sint h1) := by
  have x1 := sint_lneg_bit b hb
  have x2 := sint_lsub h2 h1 hh2 hh1 (by omega) (by omega)
  rw [sint_ladd _ _ (lneg_lt _) (lsub_lt _ _) (by omega) (by omega), x1, x2]

/-- `-(h1 + h2)` (butterfly_lshB.c:58) -/
theorem sint_t (h1 h2 : Nat) (hh1 : h1 < B) (hh2 : h2 < B)
    (t1 : -4611686018427387904 < sint h1 ∧ sint h1 < 4611686018427387904)
    (t2 : -4611686018427387904 < sint h2 ∧ sint h2 < 4611686018427387904) :
    sint (lneg (ladd h1 h2)) = -(sint h1 + sint h2) := by
  have x1 := sint_ladd h1 h2 hh1 hh2 (by omega) (by omega)
  rw [sint_lneg _ (ladd_lt _ _) (ne_half _ (by omega)), x1]

/-! ### mpn_sumdiff_n -/

theorem sumdiff_spec (x y : List Nat) (hx : Limbs x) (hy : Limbs y) (hl : x.length = y.length) :
    val (sumdiff_n x y).1 + B ^ x.length * ((sumdiff_n x y).2.2 / 2) = val x + val y ∧
    val (sumdiff_n x y).2.1 + val y = val x + B ^ x.length * ((sumdiff_n x y).2.2 % 2) ∧
    (sumdiff_n x y).2.2 / 2 ≤ 1 ∧ (sumdiff_n x y).2.2 % 2 ≤ 1 ∧
    Limbs (sumdiff_n x y).1 ∧ Limbs (sumdiff_n x y).2.1 ∧
    (sumdiff_n x y).1.length = x.length ∧ (sumdiff_n x y).2.1.length = x.length := by
  obtain ⟨a1, a2, a3, a4⟩ := addNC_val x y 0 hx hy hl (by omega)
  obtain ⟨s1, s2, s3, s4⟩ := subNC_val x y 0 hx hy hl (by omega)
  have e : sumdiff_n x y = ((add_n x y).1, (sub_n x y).1, 2 * (add_n x y).2 + (sub_n x y).2) := rfl
  rw [e]; unfold add_n sub_n
  simp only
  have e1 : (2 * (addNC x y 0).2 + (subNC x y 0).2) / 2 = (addNC x y 0).2 := by omega
  have e2 : (2 * (addNC x y 0).2 + (subNC x y 0).2) % 2 = (subNC x y 0).2 := by omega
  rw [e1, e2]
  exact ⟨by omega, by omega, a2, s2, a3, s3, a4, s4⟩

theorem fits_sum (P a b : Int) (_hP : 0 < P)
    (ha1 : -(4611686018427387904 * P) ≤ a) (ha2 : a < 4611686018427387904 * P)
    (hb1 : -(4611686018427387904 * P) ≤ b) (hb2 : b < 4611686018427387904 * P) :
    (-(P * (B : Int)) ≤ 2 * (a + b) ∧ 2 * (a + b) < P * (B : Int)) ∧
    (-(P * (B : Int)) ≤ 2 * (a - b) ∧ 2 * (a - b) < P * (B : Int)) := by
  rw [BZ_eq]; refine ⟨⟨?_, ?_⟩, ?_, ?_⟩ <;> linarith

/-- sumdiff over the whole residues (butterfly_lshB.c:47, butterfly_rshB.c:43): exact sum and difference -/
theorem sumdiff_full (A C : List Nat) (h1 h2 : Nat) (hA : Limbs (A ++ [h1])) (hC : Limbs (C ++ [h2]))
    (hl : A.length = C.length) (t1 : TopSmall (A ++ [h1])) (t2 : TopSmall (C ++ [h2])) :
    ∃ ts tg us ug, (sumdiff_n (A ++ [h1]) (C ++ [h2])).1 = ts ++ [tg] ∧
      (sumdiff_n (A ++ [h1]) (C ++ [h2])).2.1 = us ++ [ug] ∧
      ts.length = A.length ∧ us.length = A.length ∧ Limbs (ts ++ [tg]) ∧ Limbs (us ++ [ug]) ∧
      rval (ts ++ [tg]) = rval (A ++ [h1]) + rval (C ++ [h2]) ∧
      rval (us ++ [ug]) = rval (A ++ [h1]) - rval (C ++ [h2]) := by
  obtain ⟨sa, sd, _, _, la, ld, na, nd⟩ := sumdiff_spec (A ++ [h1]) (C ++ [h2]) hA hC (by simp [hl])
  simp only [List.length_append, List.length_cons, List.length_nil] at sa sd na nd
  generalize (sumdiff_n (A ++ [h1]) (C ++ [h2])).2.2 / 2 = c1 at *
  generalize (sumdiff_n (A ++ [h1]) (C ++ [h2])).2.2 % 2 = c2 at *
  obtain ⟨ts, tg, e1, l1⟩ := exists_snoc _ A.length na
  obtain ⟨us, ug, e2, l2⟩ := exists_snoc _ A.length nd
  rw [e1] at sa la; rw [e2] at sd ld
  refine ⟨ts, tg, us, ug, e1, e2, l1, l2, la, ld, ?_, ?_⟩
  all_goals
    have r1 := rval_eq_val A h1
    have r2 := rval_eq_val C h2
    have b1 := topSmall_rval A h1 hA t1
    have b2 := topSmall_rval C h2 hC t2
    rw [← hl] at r2 b2
    have hf := fits_sum _ _ _ (BZpow_pos A.length) b1.1 b1.2 b2.1 b2.2
    have sa' := congrArg (fun z : Nat => (z : Int)) sa
    have sd' := congrArg (fun z : Nat => (z : Int)) sd
    push_cast at sa' sd'
  · apply rval_of_eq ts tg la _
      ((if h1 < B / 2 then 0 else 1) + (if h2 < B / 2 then 0 else 1) - (c1 : Int))
    · rw [l1, r1, r2]; linear_combination sa'
    · rw [l1, pow_succ]; exact hf.1.1
    · rw [l1, pow_succ]; exact hf.1.2
  · apply rval_of_eq us ug ld _
      ((if h1 < B / 2 then 0 else 1) - (if h2 < B / 2 then 0 else 1) + (c2 : Int))
    · rw [l2, r1, r2]; linear_combination sd'
    · rw [l2, pow_succ]; exact hf.2.1
    · rw [l2, pow_succ]; exact hf.2.2

theorem sl_prefix (a b : List Nat) : sl (a ++ b) 0 a.length = a := by unfold sl; simp

theorem lshB_x0_unfold (i1 i2 : List Nat) (y : Nat) (hy : y ≠ 0) :
    butterfly_lshB i1 i2 0 y =
      let limbs := i1.length - 1
      let sd1 := sumdiff_n (sl i1 0 (limbs - y)) (sl i2 0 (limbs - y))
      let sd2 := sumdiff_n (sl i2 (limbs - y) limbs) (sl i1 (limbs - y) limbs)
      (addmod1 (sd1.1 ++ (add_1 (sd2.1 ++ [sd2.2.2 / 2]) (sd1.2.2 / 2)).1) (lneg (ladd (top i1) (top i2))),
       sd2.2.1 ++ addmod1 (sd1.2.1 ++ [lneg (sd1.2.2 % 2)]) (ladd (lneg (sd2.2.2 % 2)) (lsub (top i2) (top i1)))) := by
  unfold butterfly_lshB
  simp only [hy, ↓reduceIte]

theorem limb_split (c : Nat) : (c : Int) = sint c + (B : Int) * (if c < B / 2 then 0 else 1) := sint_eq c

theorem fits_t (P v s : Int) (hP : (B : Int) ≤ P) (hv0 : 0 ≤ v) (hv1 : v < 2 * P)
    (hs1 : -9223372036854775808 ≤ s) (hs2 : s < 9223372036854775808) :
    -(P * (B : Int)) ≤ 2 * (v - s) ∧ 2 * (v - s) < P * (B : Int) := by
  rw [BZ_eq] at *; constructor <;> linarith

theorem fits_rot2 (P X v w s : Int) (hX : X * (B : Int) ≤ P) (hX0 : 0 < X) (hv0 : -P < v) (hv1 : v < P)
    (hw0 : -X < w) (hw1 : w < X) (hs1 : -9223372036854775808 < s) (hs2 : s < 9223372036854775808) :
    -(P * (B : Int)) ≤ 2 * (v - w - X * s) ∧ 2 * (v - w - X * s) < P * (B : Int) := by
  rw [BZ_eq] at *
  have h1 : X * (-9223372036854775807) ≤ X * s := mul_le_mul_of_nonneg_left (by omega) (le_of_lt hX0)
  have h2 : X * s ≤ X * 9223372036854775807 := mul_le_mul_of_nonneg_left (by omega) (le_of_lt hX0)
  constructor <;> linarith

/-- butterfly_lshB.c:50-59 (x = 0, 0 < y < limbs): t = i1 + i2, u = (i1 - i2)·B^y -/
theorem lshB_x0_y_spec (A1 A2 C1 C2 : List Nat) (h1 h2 : Nat)
    (hA : Limbs (A1 ++ A2 ++ [h1])) (hC : Limbs (C1 ++ C2 ++ [h2]))
    (hl1 : A1.length = C1.length) (hl2 : A2.length = C2.length) (hm : 1 ≤ A1.length) (hy : 1 ≤ A2.length)
    (t1 : TopSmall (A1 ++ A2 ++ [h1])) (t2 : TopSmall (C1 ++ C2 ++ [h2])) :
    ∃ ts tg us ug, butterfly_lshB (A1 ++ A2 ++ [h1]) (C1 ++ C2 ++ [h2]) 0 A2.length = (ts ++ [tg], us ++ [ug]) ∧
      ts.length = A1.length + A2.length ∧ us.length = A1.length + A2.length ∧
      Limbs (ts ++ [tg]) ∧ Limbs (us ++ [ug]) ∧
      rval (ts ++ [tg]) = (val (A1 ++ A2) : Int) + val (C1 ++ C2) - (sint h1 + sint h2) ∧
      rval (us ++ [ug]) = (B : Int) ^ A2.length * ((val A1 : Int) - val C1) - ((val A2 : Int) - val C2)
        - (B : Int) ^ A2.length * (sint h1 - sint h2) := by
  have ⟨hA12, hh1⟩ := Limbs_snoc.mp hA
  have ⟨hC12, hh2⟩ := Limbs_snoc.mp hC
  have ⟨hA1, hA2⟩ := Limbs_append.mp hA12
  have ⟨hC1, hC2⟩ := Limbs_append.mp hC12
  unfold TopSmall at t1 t2; simp only [top_snoc] at t1 t2
  rw [lshB_x0_unfold _ _ _ (by omega)]
  have hlen : (A1 ++ A2 ++ [h1]).length - 1 = A1.length + A2.length := by simp
  simp only [hlen, Nat.add_sub_cancel, top_snoc]
  have e1 : sl (A1 ++ A2 ++ [h1]) 0 A1.length = A1 := by rw [List.append_assoc]; exact sl_prefix _ _
  have e2 : sl (C1 ++ C2 ++ [h2]) 0 A1.length = C1 := by rw [List.append_assoc, hl1]; exact sl_prefix _ _
  have e3 : sl (A1 ++ A2 ++ [h1]) A1.length (A1.length + A2.length) = A2 := sl_mid _ _ _
  have e4 : sl (C1 ++ C2 ++ [h2]) A1.length (A1.length + A2.length) = C2 := by rw [hl1, hl2]; exact sl_mid _ _ _
  rw [e1, e2, e3, e4]
  obtain ⟨sa1, sd1, ca1, cb1, la1, ld1, na1, nd1⟩ := sumdiff_spec A1 C1 hA1 hC1 hl1
  obtain ⟨sa2, sd2, ca2, cb2, la2, ld2, na2, nd2⟩ := sumdiff_spec C2 A2 hC2 hA2 hl2.symm
  generalize (sumdiff_n A1 C1).2.2 / 2 = a1 at *
  generalize (sumdiff_n A1 C1).2.2 % 2 = b1 at *
  generalize (sumdiff_n C2 A2).2.2 / 2 = a2 at *
  generalize (sumdiff_n C2 A2).2.2 % 2 = b2 at *
  generalize (sumdiff_n A1 C1).1 = tA at *
  generalize (sumdiff_n A1 C1).2.1 = uB at *
  generalize (sumdiff_n C2 A2).1 = tC at *
  generalize (sumdiff_n C2 A2).2.1 = uD at *
  have hB := B_eq
  -- add_1 on tC ++ [a2]
  have hlc : Limbs (tC ++ [a2]) := Limbs_snoc.mpr ⟨la2, by omega⟩
  obtain ⟨av, _, al, an⟩ := add_1_spec (tC ++ [a2]) a1 hlc (by simp) (by omega)
  generalize (add_1 (tC ++ [a2]) a1).1 = tCt at *
  generalize (add_1 (tC ++ [a2]) a1).2 = cc at *
  have s_u := sint_u h1 h2 b2 hh1 hh2 cb2 t1 t2
  have s_t := sint_t h1 h2 hh1 hh2 t1 t2
  -- the two addmod1
  have hlu : Limbs (uB ++ [lneg b1]) := Limbs_snoc.mpr ⟨ld1, lneg_lt _⟩
  obtain ⟨⟨k1, hk1⟩, ul, un⟩ := addmod1_spec' (uB ++ [lneg b1]) _ hlu (by simp) (ladd_lt (lneg b2) (lsub h2 h1))
  have hlt : Limbs (tA ++ tCt) := Limbs_append.mpr ⟨la1, al⟩
  obtain ⟨⟨k2, hk2⟩, tl, tn⟩ := addmod1_spec' (tA ++ tCt) _ hlt (by simp [an]) (lneg_lt (ladd h1 h2))
  rw [s_u] at hk1; rw [s_t] at hk2
  generalize addmod1 (uB ++ [lneg b1]) (ladd (lneg b2) (lsub h2 h1)) = uwin at *
  generalize addmod1 (tA ++ tCt) (lneg (ladd h1 h2)) = t at *
  simp only [List.length_append, List.length_cons, List.length_nil] at an un tn na1 nd1 na2 nd2
  obtain ⟨ts, tg, et, lt'⟩ := exists_snoc t (A1.length + A2.length) (by rw [tn, na1, an, na2]; omega)
  obtain ⟨us, ug, eu, lu'⟩ := exists_snoc (uD ++ uwin) (A1.length + A2.length) (by simp [nd2, un, nd1]; omega)
  have hLt : Limbs (ts ++ [tg]) := et ▸ tl
  have hLu : Limbs (us ++ [ug]) := eu ▸ Limbs_append.mpr ⟨ld2, ul⟩
  refine ⟨ts, tg, us, ug, by rw [et, eu], lt', lu', hLt, hLu, ?_, ?_⟩
  · -- t
    have hk2' := hk2
    have sa1' := congrArg (fun z : Nat => (z : Int)) sa1
    have sa2' := congrArg (fun z : Nat => (z : Int)) sa2
    have av' := congrArg (fun z : Nat => (z : Int)) av
    simp only [List.length_append, List.length_cons, List.length_nil, val_append, val_cons, val_nil, na1, na2, an, ← hl2] at hk2' av' sa2'
    push_cast at sa1' sa2' av' hk2'
    have hv0 : (0 : Int) ≤ (val (A1 ++ A2) : Int) + val (C1 ++ C2) := by positivity
    have hvA := valZ_lt _ hA12
    have hvC := valZ_lt _ hC12
    simp only [List.length_append, ← hl1, ← hl2] at hvA hvC
    have hP := B_le_pow (A1.length + A2.length) (by omega)
    have hf := fits_t _ _ (sint h1 + sint h2) hP hv0 (by linarith only [hvA, hvC]) (by linarith only [t1.1, t2.1]) (by linarith only [t1.2, t2.2])
    apply rval_of_eq ts tg hLt _ (k2 - cc)
    · rw [← et, lt', val_append A1 A2, val_append C1 C2, ← hl1]; push_cast
      linear_combination hk2' + sa1' + (B : Int) ^ A1.length * av' + (B : Int) ^ A1.length * sa2'
    · rw [lt', pow_succ]; exact hf.1
    · rw [lt', pow_succ]; exact hf.2
  · -- u
    have hk1' := hk1
    have sd1' := congrArg (fun z : Nat => (z : Int)) sd1
    have sd2' := congrArg (fun z : Nat => (z : Int)) sd2
    have hsp := limb_split (lneg b1)
    rw [sint_lneg_bit b1 cb1] at hsp
    simp only [List.length_append, List.length_cons, List.length_nil, val_snoc, nd1, ← hl2] at hk1' sd2'
    push_cast at sd1' sd2' hk1'
    have hvu : (val (us ++ [ug]) : Int) = val uD + (B : Int) ^ A2.length * val uwin := by
      rw [← eu, val_append, nd2, ← hl2]; push_cast; ring
    have hA1v := valZ_lt _ hA1
    have hC1v := valZ_lt _ hC1
    have hA2v := valZ_lt _ hA2
    have hC2v := valZ_lt _ hC2
    rw [← hl1] at hC1v; rw [← hl2] at hC2v
    have hX := BZpow_pos A2.length
    have hPX : (B : Int) ^ (A1.length + A2.length) = (B : Int) ^ A2.length * (B : Int) ^ A1.length := by
      rw [← pow_add]; congr 1; omega
    have hBL := B_le_pow A1.length hm
    have p0A : (0 : Int) ≤ val A1 := by positivity
    have p0C : (0 : Int) ≤ val C1 := by positivity
    have p0A2 : (0 : Int) ≤ val A2 := by positivity
    have p0C2 : (0 : Int) ≤ val C2 := by positivity
    have hf := fits_rot2 ((B : Int) ^ (A1.length + A2.length)) ((B : Int) ^ A2.length)
      ((B : Int) ^ A2.length * ((val A1 : Int) - val C1)) ((val A2 : Int) - val C2) (sint h1 - sint h2)
      (by rw [hPX]; exact mul_le_mul_of_nonneg_left hBL (le_of_lt hX)) hX
      (by rw [hPX, ← mul_neg]; exact mul_lt_mul_of_pos_left (by linarith only [hC1v, p0A]) hX)
      (by rw [hPX]; exact mul_lt_mul_of_pos_left (by linarith only [hA1v, p0C]) hX)
      (by linarith only [hC2v, p0A2]) (by linarith only [hA2v, p0C2])
      (by linarith only [t1.1, t2.2]) (by linarith only [t1.2, t2.1])
    apply rval_of_eq us ug hLu _ ((if lneg b1 < B / 2 then 0 else 1) + k1)
    · rw [lu', hvu]
      linear_combination sd2' + (B : Int) ^ A2.length * hk1' + (B : Int) ^ A2.length * sd1' +
        ((B : Int) ^ A2.length * (B : Int) ^ A1.length) * hsp
    · rw [lu', pow_succ]; exact hf.1
    · rw [lu', pow_succ]; exact hf.2

/-! ### butterfly_rshB with x = 0 -/

theorem sint_bit_add (a h : Nat) (ha : a ≤ 1) (hh : h < B)
    (t : -4611686018427387904 < sint h ∧ sint h < 4611686018427387904) : sint (ladd a h) = (a : Int) + sint h := by
  have x := sint_bit a ha
  rw [sint_ladd a h (by have := B_eq; omega) hh (by omega) (by omega), x]

theorem sint_sub_bit (h b : Nat) (hb : b ≤ 1) (hh : h < B)
    (t : -4611686018427387904 < sint h ∧ sint h < 4611686018427387904) : sint (lsub h b) = sint h - (b : Int) := by
  have x := sint_bit b hb
  rw [sint_lsub h b hh (by have := B_eq; omega) (by omega) (by omega), x]

theorem sint_negbit_sub (b h : Nat) (hb : b ≤ 1) (hh : h < B)
    (t : -4611686018427387904 < sint h ∧ sint h < 4611686018427387904) :
    sint (lsub (lneg b) h) = -(b : Int) - sint h := by
  have x := sint_lneg_bit b hb
  rw [sint_lsub _ h (lneg_lt _) hh (by omega) (by omega), x]

theorem rshB_x0_unfold (i1 i2 : List Nat) (y : Nat) (hy : y ≠ 0) :
    butterfly_rshB i1 i2 0 y =
      let limbs := i1.length - 1
      let sd1 := sumdiff_n (sl i1 0 (limbs - y)) (sl i2 y limbs)
      let sd2 := sumdiff_n (sl i1 (limbs - y) limbs) (sl i2 0 y)
      (sd1.1 ++ addmod1 (sd2.2.1 ++ [lsub (top i1) (sd2.2.2 % 2)]) (ladd (sd1.2.2 / 2) (top i2)),
       sd1.2.1 ++ addmod1 (sd2.1 ++ [ladd (sd2.2.2 / 2) (top i1)]) (lsub (lneg (sd1.2.2 % 2)) (top i2)), i1, i2) := by
  unfold butterfly_rshB
  simp only [hy, ↓reduceIte]

theorem fits_rsh (P X a c v s : Int) (hX : X * (B : Int) ≤ P) (hX0 : 0 < X)
    (ha1 : -(4611686018427387904 * P) ≤ a) (ha2 : a < 4611686018427387904 * P)
    (hc0 : 0 ≤ c) (hc1 : c < X) (hv0 : 0 ≤ v) (hv1 : v < P)
    (hs1 : -4611686018427387904 < s) (hs2 : s < 4611686018427387904) :
    (-(P * (B : Int)) ≤ 2 * (a + (c - v + X * s)) ∧ 2 * (a + (c - v + X * s)) < P * (B : Int)) ∧
    (-(P * (B : Int)) ≤ 2 * (a - (c - v + X * s)) ∧ 2 * (a - (c - v + X * s)) < P * (B : Int)) := by
  rw [BZ_eq] at *
  have h1 : X * (-4611686018427387903) ≤ X * s := mul_le_mul_of_nonneg_left (by omega) (le_of_lt hX0)
  have h2 : X * s ≤ X * 4611686018427387903 := mul_le_mul_of_nonneg_left (by omega) (le_of_lt hX0)
  refine ⟨⟨?_, ?_⟩, ?_, ?_⟩ <;> linarith

/-- butterfly_rshB.c:47-54 (x = 0, y > 0): t = i1 + i2/B^y, u = i1 - i2/B^y, with
    i2/B^y ≡ W = C2 - B^m·C1 + B^m·h2 for i2 = C1 ++ C2 ++ [h2], |C1| = y, |C2| = m -/
theorem rshB_x0_y_spec (A1 A2 C1 C2 : List Nat) (h1 h2 : Nat)
    (hA : Limbs (A1 ++ A2 ++ [h1])) (hC : Limbs (C1 ++ C2 ++ [h2]))
    (hl1 : A1.length = C2.length) (hl2 : A2.length = C1.length) (hy : 1 ≤ A2.length)
    (t1 : TopSmall (A1 ++ A2 ++ [h1])) (t2 : TopSmall (C1 ++ C2 ++ [h2])) :
    ∃ ts tg us ug, butterfly_rshB (A1 ++ A2 ++ [h1]) (C1 ++ C2 ++ [h2]) 0 A2.length =
        (ts ++ [tg], us ++ [ug], A1 ++ A2 ++ [h1], C1 ++ C2 ++ [h2]) ∧
      ts.length = A1.length + A2.length ∧ us.length = A1.length + A2.length ∧
      Limbs (ts ++ [tg]) ∧ Limbs (us ++ [ug]) ∧
      rval (ts ++ [tg]) = rval (A1 ++ A2 ++ [h1]) +
        ((val C2 : Int) - (B : Int) ^ A1.length * val C1 + (B : Int) ^ A1.length * sint h2) ∧
      rval (us ++ [ug]) = rval (A1 ++ A2 ++ [h1]) -
        ((val C2 : Int) - (B : Int) ^ A1.length * val C1 + (B : Int) ^ A1.length * sint h2) := by
  have ⟨hA12, hh1⟩ := Limbs_snoc.mp hA
  have ⟨hC12, hh2⟩ := Limbs_snoc.mp hC
  have ⟨hA1, hA2⟩ := Limbs_append.mp hA12
  have ⟨hC1, hC2⟩ := Limbs_append.mp hC12
  have bA := topSmall_rval _ _ hA t1
  unfold TopSmall at t1 t2; simp only [top_snoc] at t1 t2
  rw [rshB_x0_unfold _ _ _ (by omega)]
  have hlen : (A1 ++ A2 ++ [h1]).length - 1 = A1.length + A2.length := by simp
  simp only [hlen, Nat.add_sub_cancel, top_snoc]
  have e1 : sl (A1 ++ A2 ++ [h1]) 0 A1.length = A1 := by rw [List.append_assoc]; exact sl_prefix _ _
  have e2 : sl (C1 ++ C2 ++ [h2]) A2.length (A1.length + A2.length) = C2 := by
    rw [hl1, hl2, Nat.add_comm]; exact sl_mid _ _ _
  have e3 : sl (A1 ++ A2 ++ [h1]) A1.length (A1.length + A2.length) = A2 := sl_mid _ _ _
  have e4 : sl (C1 ++ C2 ++ [h2]) 0 A2.length = C1 := by rw [List.append_assoc, hl2]; exact sl_prefix _ _
  rw [e1, e2, e3, e4]
  obtain ⟨sa1, sd1, ca1, cb1, la1, ld1, na1, nd1⟩ := sumdiff_spec A1 C2 hA1 hC2 hl1
  obtain ⟨sa2, sd2, ca2, cb2, la2, ld2, na2, nd2⟩ := sumdiff_spec A2 C1 hA2 hC1 hl2
  generalize (sumdiff_n A1 C2).2.2 / 2 = a1 at *
  generalize (sumdiff_n A1 C2).2.2 % 2 = b1 at *
  generalize (sumdiff_n A2 C1).2.2 / 2 = a2 at *
  generalize (sumdiff_n A2 C1).2.2 % 2 = b2 at *
  generalize (sumdiff_n A1 C2).1 = tt1 at *
  generalize (sumdiff_n A1 C2).2.1 = u1 at *
  generalize (sumdiff_n A2 C1).1 = u2 at *
  generalize (sumdiff_n A2 C1).2.1 = tt2 at *
  have s_tt := sint_sub_bit h1 b2 cb2 hh1 t1
  have s_ut := sint_bit_add a2 h1 ca2 hh1 t1
  have s_ct := sint_bit_add a1 h2 ca1 hh2 t2
  have s_cu := sint_negbit_sub b1 h2 cb1 hh2 t2
  have hlt : Limbs (tt2 ++ [lsub h1 b2]) := Limbs_snoc.mpr ⟨ld2, lsub_lt _ _⟩
  have hlu : Limbs (u2 ++ [ladd a2 h1]) := Limbs_snoc.mpr ⟨la2, ladd_lt _ _⟩
  obtain ⟨⟨k1, hk1⟩, tl, tn⟩ := addmod1_spec' (tt2 ++ [lsub h1 b2]) _ hlt (by simp) (ladd_lt a1 h2)
  obtain ⟨⟨k2, hk2⟩, ul, un⟩ := addmod1_spec' (u2 ++ [ladd a2 h1]) _ hlu (by simp) (lsub_lt (lneg b1) h2)
  rw [s_ct] at hk1; rw [s_cu] at hk2
  have sp_t := limb_split (lsub h1 b2)
  have sp_u := limb_split (ladd a2 h1)
  rw [s_tt] at sp_t; rw [s_ut] at sp_u
  generalize addmod1 (tt2 ++ [lsub h1 b2]) (ladd a1 h2) = twin at *
  generalize addmod1 (u2 ++ [ladd a2 h1]) (lsub (lneg b1) h2) = uwin at *
  simp only [List.length_append, List.length_cons, List.length_nil] at tn un na1 nd1 na2 nd2
  obtain ⟨ts, tg, et, lt'⟩ := exists_snoc (tt1 ++ twin) (A1.length + A2.length) (by simp [na1, tn, nd2]; omega)
  obtain ⟨us, ug, eu, lu'⟩ := exists_snoc (u1 ++ uwin) (A1.length + A2.length) (by simp [nd1, un, na2]; omega)
  have hLt : Limbs (ts ++ [tg]) := et ▸ Limbs_append.mpr ⟨la1, tl⟩
  have hLu : Limbs (us ++ [ug]) := eu ▸ Limbs_append.mpr ⟨ld1, ul⟩
  refine ⟨ts, tg, us, ug, by rw [et, eu], lt', lu', hLt, hLu, ?_, ?_⟩
  all_goals
    have sa1' := congrArg (fun z : Nat => (z : Int)) sa1
    have sd1' := congrArg (fun z : Nat => (z : Int)) sd1
    have sa2' := congrArg (fun z : Nat => (z : Int)) sa2
    have sd2' := congrArg (fun z : Nat => (z : Int)) sd2
    simp only [List.length_append, List.length_cons, List.length_nil, val_append, val_cons, val_nil, na2, nd2] at hk1 hk2
    push_cast at sa1' sd1' sa2' sd2' hk1 hk2
    have hC1v := valZ_lt _ hC1
    have hC2v := valZ_lt _ hC2
    rw [← hl1] at hC2v; rw [← hl2] at hC1v
    have hX := BZpow_pos A1.length
    have hPX : (B : Int) ^ (A1.length + A2.length) = (B : Int) ^ A1.length * (B : Int) ^ A2.length := by
      rw [← pow_add]
    have hBL := B_le_pow A2.length hy
    have p0C1 : (0 : Int) ≤ val C1 := by positivity
    have p0C2 : (0 : Int) ≤ val C2 := by positivity
    have hlen2 : (A1 ++ A2).length = A1.length + A2.length := by simp
    rw [hlen2] at bA
    have hf := fits_rsh ((B : Int) ^ (A1.length + A2.length)) ((B : Int) ^ A1.length)
      (rval (A1 ++ A2 ++ [h1])) (val C2) ((B : Int) ^ A1.length * val C1) (sint h2)
      (by rw [hPX]; exact mul_le_mul_of_nonneg_left hBL (le_of_lt hX)) hX bA.1 bA.2 p0C2 hC2v
      (mul_nonneg (le_of_lt hX) p0C1) (by rw [hPX]; exact mul_lt_mul_of_pos_left hC1v hX) t2.1 t2.2
    have hra : rval (A1 ++ A2 ++ [h1]) = (val A1 : Int) + (B : Int) ^ A1.length * val A2 +
        (B : Int) ^ A1.length * (B : Int) ^ A2.length * sint h1 := by
      rw [rval_snoc, val_append, hlen2, hPX]; push_cast; ring
  · apply rval_of_eq ts tg hLt _ ((if lsub h1 b2 < B / 2 then 0 else 1) + k1)
    · rw [← et, lt', val_append, na1, hra]; push_cast
      linear_combination sa1' + (B : Int) ^ A1.length * hk1 + (B : Int) ^ A1.length * sd2' +
        ((B : Int) ^ A1.length * (B : Int) ^ A2.length) * sp_t
    · rw [lt', pow_succ]; exact hf.1.1
    · rw [lt', pow_succ]; exact hf.1.2
  · apply rval_of_eq us ug hLu _ ((if ladd a2 h1 < B / 2 then 0 else 1) + k2)
    · rw [← eu, lu', val_append, nd1, hra]; push_cast
      linear_combination sd1' + (B : Int) ^ A1.length * hk2 + (B : Int) ^ A1.length * sa2' +
        ((B : Int) ^ A1.length * (B : Int) ^ A2.length) * sp_u
    · rw [lu', pow_succ]; exact hf.2.1
    · rw [lu', pow_succ]; exact hf.2.2

/-! ### the x = 0 butterflies, all y -/

theorem lshB_00 (i1 i2 : List Nat) :
    butterfly_lshB i1 i2 0 0 = ((sumdiff_n i1 i2).1, (sumdiff_n i1 i2).2.1) := by
  unfold butterfly_lshB; simp only [↓reduceIte]

theorem rshB_00 (i1 i2 : List Nat) :
    butterfly_rshB i1 i2 0 0 = ((sumdiff_n i1 i2).1, (sumdiff_n i1 i2).2.1, i1, i2) := by
  unfold butterfly_rshB; simp only [↓reduceIte]

theorem split_at (A : List Nat) (y : Nat) (hy : y ≤ A.length) :
    ∃ A1 A2, A = A1 ++ A2 ∧ A1.length = A.length - y ∧ A2.length = y :=
  ⟨A.take (A.length - y), A.drop (A.length - y), (List.take_append_drop _ _).symm, by simp, by simp; omega⟩

theorem lshB_x0_spec (A C : List Nat) (h1 h2 y : Nat) (hA : Limbs (A ++ [h1])) (hC : Limbs (C ++ [h2]))
    (hl : A.length = C.length) (hy : y < A.length)
    (t1 : TopSmall (A ++ [h1])) (t2 : TopSmall (C ++ [h2])) :
    ∃ ts tg us ug, butterfly_lshB (A ++ [h1]) (C ++ [h2]) 0 y = (ts ++ [tg], us ++ [ug]) ∧
      ts.length = A.length ∧ us.length = A.length ∧ Limbs (ts ++ [tg]) ∧ Limbs (us ++ [ug]) ∧
      rval (ts ++ [tg]) ≡ rval (A ++ [h1]) + rval (C ++ [h2]) [ZMOD pmod A.length] ∧
      rval (us ++ [ug]) ≡ (rval (A ++ [h1]) - rval (C ++ [h2])) * (B : Int) ^ y [ZMOD pmod A.length] := by
  by_cases hy0 : y = 0
  · subst hy0
    obtain ⟨ts, tg, us, ug, e1, e2, l1, l2, la, ld, r1, r2⟩ := sumdiff_full A C h1 h2 hA hC hl t1 t2
    refine ⟨ts, tg, us, ug, by rw [lshB_00, e1, e2], l1, l2, la, ld, by rw [r1], by rw [r2]; simp⟩
  · obtain ⟨A1, A2, eA, lA1, lA2⟩ := split_at A y (by omega)
    obtain ⟨C1, C2, eC, lC1, lC2⟩ := split_at C y (by omega)
    subst eA eC
    simp only [List.length_append] at hl hy lA1 lC1
    have hl1 : A1.length = C1.length := by omega
    have hl2 : A2.length = C2.length := by omega
    obtain ⟨ts, tg, us, ug, e, l1, l2, la, ld, r1, r2⟩ :=
      lshB_x0_y_spec A1 A2 C1 C2 h1 h2 hA hC hl1 hl2 (by omega) (by omega) t1 t2
    rw [lA2] at e
    refine ⟨ts, tg, us, ug, e, by simp [l1], by simp [l2], la, ld, ?_, ?_⟩
    · rw [modEq_pmod_iff]; refine ⟨-(sint h1 + sint h2), ?_⟩
      rw [r1, rval_snoc, rval_snoc]; simp only [List.length_append, ← hl1, ← hl2]; ring
    · rw [modEq_pmod_iff]
      refine ⟨-(((val A2 : Int) - val C2) + (B : Int) ^ A2.length * (sint h1 - sint h2)), ?_⟩
      rw [r2, rval_snoc, rval_snoc, val_append, val_append]
      simp only [List.length_append, ← hl1, ← hl2, ← lA2]; push_cast
      rw [pow_add]; ring

/-- mpir_fft_butterfly: (s, t) = (a + b, (a - b)·2^(i·w)) -/
theorem fft_butterfly_spec (A C : List Nat) (h1 h2 i w : Nat) (hA : Limbs (A ++ [h1])) (hC : Limbs (C ++ [h2]))
    (hl : A.length = C.length) (hiw : i * w < 64 * A.length)
    (t1 : TopSmall (A ++ [h1])) (t2 : TopSmall (C ++ [h2])) :
    ∃ ss sg ts tg, fft_butterfly (A ++ [h1]) (C ++ [h2]) i w = (ss ++ [sg], ts ++ [tg]) ∧
      ss.length = A.length ∧ ts.length = A.length ∧ Limbs (ss ++ [sg]) ∧ Limbs (ts ++ [tg]) ∧
      rval (ss ++ [sg]) ≡ rval (A ++ [h1]) + rval (C ++ [h2]) [ZMOD pmod A.length] ∧
      rval (ts ++ [tg]) ≡ (rval (A ++ [h1]) - rval (C ++ [h2])) * 2 ^ (i * w) [ZMOD pmod A.length] := by
  have hd : i * w % 64 < 64 := Nat.mod_lt _ (by norm_num)
  obtain ⟨ss, sg, us, ug, e, l1, l2, la, ld, r1, r2⟩ :=
    lshB_x0_spec A C h1 h2 (i * w / 64) hA hC hl (by omega) t1 t2
  obtain ⟨ts, tg, m1, m2, m3, m4⟩ := mul_2expmod_cong us ug (i * w % 64) ld (by omega) hd
  refine ⟨ss, sg, ts, tg, ?_, l1, by rw [m2, l2], la, m3, r1, ?_⟩
  · unfold fft_butterfly; simp only [e, m1]
  · rw [l2] at m4
    refine m4.trans ?_
    have e2 : (2 : Int) ^ (i * w) = (B : Int) ^ (i * w / 64) * 2 ^ (i * w % 64) := by
      rw [B_pow_two, ← pow_add]; congr 1; omega
    rw [e2, ← mul_assoc]
    exact Int.ModEq.mul_right _ r2

/-- div_2expmod for every d < 64 (d = 0 copies); small top limbs stay small -/
theorem div_2expmod_cong (xs : List Nat) (h d : Nat) (hx : Limbs (xs ++ [h])) (hn : 1 ≤ xs.length) (hd : d < 64)
    (ht : TopSmall (xs ++ [h])) :
    ∃ ys g, div_2expmod (xs ++ [h]) d = ys ++ [g] ∧ ys.length = xs.length ∧ Limbs (ys ++ [g]) ∧
      rval (ys ++ [g]) * 2 ^ d ≡ rval (xs ++ [h]) [ZMOD pmod xs.length] ∧ TopSmall (ys ++ [g]) := by
  by_cases hd0 : d = 0
  · subst hd0
    refine ⟨xs, h, by simp [div_2expmod], rfl, hx, by simp, ht⟩
  · obtain ⟨ys, g, h1, h2, h3, h4, h5, h6⟩ := div_2expmod_spec xs h d hx hn (by omega) (by omega)
    refine ⟨ys, g, h1, h2, h3, h4, ?_⟩
    unfold TopSmall at ht ⊢; simp only [top_snoc] at ht ⊢
    have ⟨_, hh⟩ := Limbs_snoc.mp hx
    have hpos : (0 : Int) < 2 ^ d := by positivity
    have h2d : (2 : Int) ≤ 2 ^ d := by
      calc (2 : Int) = 2 ^ 1 := by norm_num
        _ ≤ 2 ^ d := pow_le_pow_right₀ (by norm_num) (by omega)
    have b1 : -2305843009213693952 ≤ sint h / 2 ^ d := by
      apply Int.le_ediv_of_mul_le hpos; nlinarith
    have b2 : sint h / 2 ^ d < 2305843009213693952 := by
      apply Int.ediv_lt_of_lt_mul hpos; nlinarith
    rw [← h2] at h5 h6
    have tb := top_bounds ys g h3 (sint h / 2 ^ d - 1) (sint h / 2 ^ d) (le_of_lt h5) h6
    omega

theorem split_at' (C : List Nat) (y : Nat) (hy : y ≤ C.length) :
    ∃ C1 C2, C = C1 ++ C2 ∧ C1.length = y ∧ C2.length = C.length - y :=
  ⟨C.take y, C.drop y, (List.take_append_drop _ _).symm, by simp; omega, by simp⟩

theorem rshB_x0_spec (A C : List Nat) (h1 h2 y : Nat) (hA : Limbs (A ++ [h1])) (hC : Limbs (C ++ [h2]))
    (hl : A.length = C.length) (hn : 1 ≤ A.length) (hy : y ≤ A.length)
    (t1 : TopSmall (A ++ [h1])) (t2 : TopSmall (C ++ [h2])) :
    ∃ ts tg us ug, butterfly_rshB (A ++ [h1]) (C ++ [h2]) 0 y = (ts ++ [tg], us ++ [ug], A ++ [h1], C ++ [h2]) ∧
      ts.length = A.length ∧ us.length = A.length ∧ Limbs (ts ++ [tg]) ∧ Limbs (us ++ [ug]) ∧
      rval (ts ++ [tg]) * (B : Int) ^ y ≡ rval (A ++ [h1]) * (B : Int) ^ y + rval (C ++ [h2]) [ZMOD pmod A.length] ∧
      rval (us ++ [ug]) * (B : Int) ^ y ≡ rval (A ++ [h1]) * (B : Int) ^ y - rval (C ++ [h2]) [ZMOD pmod A.length] := by
  by_cases hy0 : y = 0
  · subst hy0
    obtain ⟨ts, tg, us, ug, e1, e2, l1, l2, la, ld, r1, r2⟩ := sumdiff_full A C h1 h2 hA hC hl t1 t2
    refine ⟨ts, tg, us, ug, by rw [rshB_00, e1, e2], l1, l2, la, ld, by rw [r1]; simp, by rw [r2]; simp⟩
  · obtain ⟨A1, A2, eA, lA1, lA2⟩ := split_at A y hy
    obtain ⟨C1, C2, eC, lC1, lC2⟩ := split_at' C y (by omega)
    subst eA eC
    simp only [List.length_append] at hl hy lA1 lC2 hn
    have hl1 : A1.length = C2.length := by omega
    have hl2 : A2.length = C1.length := by omega
    obtain ⟨ts, tg, us, ug, e, l1, l2, la, ld, r1, r2⟩ :=
      rshB_x0_y_spec A1 A2 C1 C2 h1 h2 hA hC hl1 hl2 (by omega) t1 t2
    rw [lA2] at e
    refine ⟨ts, tg, us, ug, e, by simp [l1], by simp [l2], la, ld, ?_, ?_⟩
    · rw [modEq_pmod_iff]; refine ⟨-(val C1 : Int), ?_⟩
      rw [r1, rval_snoc (C1 ++ C2), val_append]
      simp only [List.length_append, ← hl1, ← hl2, ← lA2]; push_cast
      rw [pow_add]; ring
    · rw [modEq_pmod_iff]; refine ⟨(val C1 : Int), ?_⟩
      rw [r2, rval_snoc (C1 ++ C2), val_append]
      simp only [List.length_append, ← hl1, ← hl2, ← lA2]; push_cast
      rw [pow_add]; ring

/-- mpir_ifft_butterfly: (s, t) = (a + b/2^(i·w), a - b/2^(i·w)) -/
theorem ifft_butterfly_spec (A C : List Nat) (h1 h2 i w : Nat) (hA : Limbs (A ++ [h1])) (hC : Limbs (C ++ [h2]))
    (hl : A.length = C.length) (hiw : i * w < 64 * A.length)
    (t1 : TopSmall (A ++ [h1])) (t2 : TopSmall (C ++ [h2])) :
    ∃ ss sg ts tg i2', ifft_butterfly (A ++ [h1]) (C ++ [h2]) i w = (ss ++ [sg], ts ++ [tg], i2') ∧
      ss.length = A.length ∧ ts.length = A.length ∧ Limbs (ss ++ [sg]) ∧ Limbs (ts ++ [tg]) ∧
      rval (ss ++ [sg]) * 2 ^ (i * w) ≡ rval (A ++ [h1]) * 2 ^ (i * w) + rval (C ++ [h2]) [ZMOD pmod A.length] ∧
      rval (ts ++ [tg]) * 2 ^ (i * w) ≡ rval (A ++ [h1]) * 2 ^ (i * w) - rval (C ++ [h2]) [ZMOD pmod A.length] := by
  have hd : i * w % 64 < 64 := Nat.mod_lt _ (by norm_num)
  have hn : 1 ≤ A.length := by omega
  obtain ⟨ds, dg, d1, d2, d3, d4, d5⟩ := div_2expmod_cong C h2 (i * w % 64) hC (by omega) hd t2
  obtain ⟨ss, sg, ts, tg, e, l1, l2, la, ld, r1, r2⟩ :=
    rshB_x0_spec A ds h1 dg (i * w / 64) hA d3 (by omega) hn (by omega) t1 d5
  refine ⟨ss, sg, ts, tg, ds ++ [dg], ?_, l1, l2, la, ld, ?_, ?_⟩
  · unfold ifft_butterfly; simp only [d1, e]
  all_goals
    have e2 : (2 : Int) ^ (i * w) = (B : Int) ^ (i * w / 64) * 2 ^ (i * w % 64) := by
      rw [B_pow_two, ← pow_add]; congr 1; omega
    rw [← hl] at d4
  · have step1 := r1.mul_right (2 ^ (i * w % 64))
    rw [add_mul] at step1
    rw [e2, ← mul_assoc, ← mul_assoc]
    exact step1.trans ((Int.ModEq.refl _).add d4)
  · have step1 := r2.mul_right (2 ^ (i * w % 64))
    rw [sub_mul] at step1
    rw [e2, ← mul_assoc, ← mul_assoc]
    exact step1.trans ((Int.ModEq.refl _).sub d4)

end Mpir.Fft
