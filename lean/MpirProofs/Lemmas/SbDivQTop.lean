/-
  Lemmas for C02 part c02_sbq (mpn_sb_divappr_q): the first (exact) loop, the list bookkeeping of the top-level
  function and the final error budget.  Property theorems: MpirProofs/Props/C02_sbq.lean.
-/
import MpirProofs.Lemmas.SbDivQLoop
namespace Mpir.SbDivQ
open Mpir Mpir.DivWord Mpir.SbDiv

/-- one iteration of the first loop: below B·d the test `cy == d1 && n1 == d0` selects the same path as the test of
    the truncating loop, so the step is an exact division step -/
theorem daStep1_spec (dlo a : List Nat) (d0 d1 dinv n1 cy : Nat) (ha : a.length = dlo.length + 1)
    (hdlo : Limbs dlo) (hal : Limbs a) (hd0 : d0 < B) (hd1 : d1 < B) (hn1 : n1 < B) (hcy : cy < B)
    (hnorm : B / 2 ≤ d1) (hdinv : dinv = invert_pi1 d1 d0)
    (hW : val a + B ^ (dlo.length + 1) * (n1 + B * cy) < B * (val dlo + B ^ dlo.length * (d0 + B * d1))) :
    ∃ q w cy' n1', daStep1 (dlo ++ [d0, d1]) d1 d0 dinv a cy n1 = (q, w, cy', n1') ∧
      val a + B ^ (dlo.length + 1) * (n1 + B * cy)
        = q * (val dlo + B ^ dlo.length * (d0 + B * d1)) + (val w + B ^ dlo.length * (n1' + B * cy')) ∧
      val w + B ^ dlo.length * (n1' + B * cy') < val dlo + B ^ dlo.length * (d0 + B * d1) ∧
      q < B ∧ Limbs w ∧ w.length = dlo.length ∧ n1' < B ∧ cy' < B := by
  have hB := B_pos
  have htop : cy * B + n1 ≤ d0 + B * d1 := by
    have hvm := val_take_top a dlo.length ha
    have := top2_le (B ^ dlo.length) (val (a.take dlo.length)) (val dlo) (d0 + B * d1) (a.getD dlo.length 0) n1 cy
      (by positivity) (val_lt dlo hdlo)
      (by
        rw [← hvm, pow_succ] at hW
        have e : val (a.take dlo.length) + B ^ dlo.length * (a.getD dlo.length 0 + B * n1) + B ^ dlo.length * B * B * cy
            = val (a.take dlo.length) + B ^ dlo.length * a.getD dlo.length 0 + B ^ dlo.length * B * (n1 + B * cy) := by ring
        rw [e]; exact hW)
    exact this
  have hst := daStep2_spec dlo a d0 d1 dinv n1 cy ha hdlo hal hd0 hd1 hn1 hcy hnorm hdinv hW
  have e : daStep1 (dlo ++ [d0, d1]) d1 d0 dinv a cy n1 =
      daFix ((dlo ++ [d0, d1]).take dlo.length) d1 d0
        (if cy ≥ d1 ∧ n1 ≥ d0 then daSpecial (dlo ++ [d0, d1]) (a ++ [n1]) cy
         else daRegular ((dlo ++ [d0, d1]).take dlo.length) d1 d0 dinv (a.take dlo.length) (a.getD dlo.length 0) n1 cy) := by
    unfold daStep1
    simp only [List.length_append, List.length_cons, List.length_nil, Nat.add_sub_cancel]
    by_cases h : cy = d1 ∧ n1 = d0
    · rw [if_pos h, if_pos (by omega)]
    · rw [if_neg h, if_neg (by simp only [B_eq] at *; omega)]
  rw [e]; exact hst

theorem daLoop1_cons (dp : List Nat) (d1 d0 dinv x : Nat) (xs w : List Nat) (cy n1 : Nat) (qs : List Nat) :
    daLoop1 dp d1 d0 dinv (x :: xs) w cy n1 qs =
      daLoop1 dp d1 d0 dinv xs (daStep1 dp d1 d0 dinv (x :: w) cy n1).2.1 (daStep1 dp d1 d0 dinv (x :: w) cy n1).2.2.1
        (daStep1 dp d1 d0 dinv (x :: w) cy n1).2.2.2 ((daStep1 dp d1 d0 dinv (x :: w) cy n1).1 :: qs) := rfl

/-- invariant of the first loop (sb_divappr_q.c:83-116): exact schoolbook division of the limbs it consumes -/
theorem daLoop1_spec (dlo : List Nat) (d0 d1 dinv : Nat) (hdlo : Limbs dlo) (hd0 : d0 < B) (hd1 : d1 < B)
    (hnorm : B / 2 ≤ d1) (hdinv : dinv = invert_pi1 d1 d0) :
    ∀ (xs w : List Nat) (cy n1 : Nat) (qs : List Nat), Limbs xs → Limbs w → w.length = dlo.length → n1 < B → cy < B →
      val w + B ^ dlo.length * (n1 + B * cy) < val dlo + B ^ dlo.length * (d0 + B * d1) →
      ∃ ql w' cy' n1', daLoop1 (dlo ++ [d0, d1]) d1 d0 dinv xs w cy n1 qs = (ql ++ qs, w', cy', n1') ∧
        ql.length = xs.length ∧ Limbs ql ∧
        val xs.reverse + B ^ xs.length * (val w + B ^ dlo.length * (n1 + B * cy))
          = val ql * (val dlo + B ^ dlo.length * (d0 + B * d1)) + (val w' + B ^ dlo.length * (n1' + B * cy')) ∧
        val w' + B ^ dlo.length * (n1' + B * cy') < val dlo + B ^ dlo.length * (d0 + B * d1) ∧
        Limbs w' ∧ w'.length = dlo.length ∧ n1' < B ∧ cy' < B
  | [], w, cy, n1, qs, _, hw, hwl, hn1, hcy, hR => by
    refine ⟨[], w, cy, n1, rfl, rfl, Limbs_nil, by simp, hR, hw, hwl, hn1, hcy⟩
  | x :: xs, w, cy, n1, qs, hxs, hw, hwl, hn1, hcy, hR => by
    have ⟨hx, hxs'⟩ := Limbs_cons.mp hxs
    have ha : Limbs (x :: w) := Limbs_cons.mpr ⟨hx, hw⟩
    have hW : val (x :: w) + B ^ (dlo.length + 1) * (n1 + B * cy)
        < B * (val dlo + B ^ dlo.length * (d0 + B * d1)) := by
      rw [val_cons, pow_succ]
      have : B * (val w + B ^ dlo.length * (n1 + B * cy) + 1) ≤ B * (val dlo + B ^ dlo.length * (d0 + B * d1)) :=
        Nat.mul_le_mul_left _ hR
      have e : x + B * val w + B ^ dlo.length * B * (n1 + B * cy) + B
          = B * (val w + B ^ dlo.length * (n1 + B * cy) + 1) + x := by ring
      omega
    obtain ⟨q, w1, cy1, n1a, es, h1, h2, hq, hw1, hw1l, hn1a, hcy1⟩ :=
      daStep1_spec dlo (x :: w) d0 d1 dinv n1 cy (by simp [hwl]) hdlo ha hd0 hd1 hn1 hcy hnorm hdinv hW
    obtain ⟨ql, w', cy', n1', el, hqll, hql, h3, h4, hw', hw'l, hn1', hcy'⟩ :=
      daLoop1_spec dlo d0 d1 dinv hdlo hd0 hd1 hnorm hdinv xs w1 cy1 n1a (q :: qs) hxs' hw1 hw1l hn1a hcy1 h2
    rw [daLoop1_cons, es]
    simp only []
    rw [el]
    refine ⟨ql ++ [q], w', cy', n1', by simp, by simp [hqll], Limbs_snoc hql hq, ?_, h4, hw', hw'l, hn1', hcy'⟩
    rw [List.reverse_cons, val_top1, val_top1, List.length_reverse, hqll, List.length_cons, pow_succ]
    rw [val_cons, pow_succ] at h1
    have e : val xs.reverse + B ^ xs.length * x + B ^ xs.length * B * (val w + B ^ dlo.length * (n1 + B * cy))
        = val xs.reverse + B ^ xs.length * (x + B * val w + B ^ dlo.length * B * (n1 + B * cy)) := by ring
    rw [e, h1]
    have e2 : (val ql + B ^ xs.length * q) * (val dlo + B ^ dlo.length * (d0 + B * d1))
          + (val w' + B ^ dlo.length * (n1' + B * cy'))
        = B ^ xs.length * (q * (val dlo + B ^ dlo.length * (d0 + B * d1)))
          + (val ql * (val dlo + B ^ dlo.length * (d0 + B * d1)) + (val w' + B ^ dlo.length * (n1' + B * cy'))) := by ring
    rw [e2, ← h3]; ring

theorem rev_take_mid (nlow mid : List Nat) (x : Nat) :
    ((nlow ++ x :: mid).reverse).take mid.length = mid.reverse := by
  rw [List.reverse_append, List.reverse_cons, List.append_assoc]
  exact List.take_left' (by simp)

theorem rev_getD_mid (nlow mid : List Nat) (x : Nat) :
    ((nlow ++ x :: mid).reverse).getD mid.length 0 = x := by
  rw [List.reverse_append, List.reverse_cons, List.append_assoc]
  simp [List.getD_eq_getElem?_getD]

/-- `daCore` on a dividend written as (ignored low limbs) ++ x :: (limbs of the first loop ++ top dn limbs) -/
theorem daCore_eq (nlow mid hi dlo : List Nat) (x d0 d1 dinv : Nat) (hhi : hi.length = dlo.length + 2) :
    daCore (nlow ++ x :: (mid ++ hi)) (dlo ++ [d0, d1]) (mid.length + dlo.length + 1) dinv =
      (let qh := if cmp hi (dlo ++ [d0, d1]) ≥ 0 then 1 else 0
       let hi' := if qh ≠ 0 then (sub_n hi (dlo ++ [d0, d1])).1 else hi
       let s := daLoop1 (dlo ++ [d0, d1]) d1 d0 dinv mid.reverse (hi'.take dlo.length)
         (hi'.getD (dlo.length + 1) 0) (hi'.getD dlo.length 0) []
       let r := daLoop2 d1 d0 dinv dlo.length (dlo ++ [d0, d1]) (x :: s.2.1) s.2.2.1 s.2.2.2 s.1
       (r.1, r.2, qh)) := by
  have e0 : (dlo ++ [d0, d1]).length = dlo.length + 2 := by simp
  have e1 : (nlow ++ x :: (mid ++ hi)).length - (dlo.length + 2) = (nlow ++ x :: mid).length := by
    simp [hhi]; omega
  have e2 : nlow ++ x :: (mid ++ hi) = (nlow ++ x :: mid) ++ hi := by simp
  unfold daCore
  simp only [e0, e1]
  rw [e2, List.drop_left' rfl, List.take_left' rfl]
  simp only [show dlo.length + 2 - 1 = dlo.length + 1 from rfl, show dlo.length + 2 - 2 = dlo.length from rfl,
    getD_top0, getD_top1, show mid.length + dlo.length + 1 + 1 - (dlo.length + 2) = mid.length by omega,
    rev_take_mid, rev_getD_mid]

theorem core_arith (Bk W V Qt Qhi X k1 : Nat)
    (hl1 : B * Bk * (W + 1) ≤ (Qt + 1) * (0 + B * V))
    (hl2 : Qt * (0 + B * V) ≤ B * Bk * W + k1 * (B * Bk * B))
    (hX : X = W + B * (Qhi * V)) :
    Bk * (X + 1) ≤ (Qt + B * Bk * Qhi + 1) * V ∧ (Qt + B * Bk * Qhi) * V ≤ Bk * X + k1 * (Bk * B) := by
  have hB := B_pos
  have a : Bk * (W + 1) ≤ (Qt + 1) * V := by
    apply Nat.le_of_mul_le_mul_left _ hB
    calc B * (Bk * (W + 1)) = B * Bk * (W + 1) := by ring
      _ ≤ (Qt + 1) * (0 + B * V) := hl1
      _ = B * ((Qt + 1) * V) := by ring
  have b : Qt * V ≤ Bk * W + k1 * (Bk * B) := by
    apply Nat.le_of_mul_le_mul_left _ hB
    calc B * (Qt * V) = Qt * (0 + B * V) := by ring
      _ ≤ B * Bk * W + k1 * (B * Bk * B) := hl2
      _ = B * (Bk * W + k1 * (Bk * B)) := by ring
  subst hX
  constructor
  · calc Bk * (W + B * (Qhi * V) + 1) = Bk * (W + 1) + B * Bk * Qhi * V := by ring
      _ ≤ (Qt + 1) * V + B * Bk * Qhi * V := Nat.add_le_add_right a _
      _ = (Qt + B * Bk * Qhi + 1) * V := by ring
  · calc (Qt + B * Bk * Qhi) * V = Qt * V + B * Bk * Qhi * V := by ring
      _ ≤ Bk * W + k1 * (Bk * B) + B * Bk * Qhi * V := Nat.add_le_add_right b _
      _ = Bk * (W + B * (Qhi * V)) + k1 * (Bk * B) := by ring

/-- mpn_sb_divappr_q after the cut of the divisor, relative to the divisor limbs it uses (value V, k+2 limbs) and the
    dividend limbs it reads (X = ⌊N / B^f⌋): the returned Q' = qh·B^qn + q satisfies
    B^k·(X+1) ≤ (Q'+1)·V and Q'·V ≤ B^k·X + (k+1)·B^(k+1) -/
theorem daCore_explicit (nlow mid hi dlo : List Nat) (x d0 d1 dinv : Nat) (hhi : hi.length = dlo.length + 2)
    (hmid : Limbs mid) (hhil : Limbs hi) (hx : x < B) (hdlo : Limbs dlo) (hd0 : d0 < B) (hd1 : d1 < B)
    (hnorm : B / 2 ≤ d1) (hdinv : dinv = invert_pi1 d1 d0) :
    ∃ q r3 qh, daCore (nlow ++ x :: (mid ++ hi)) (dlo ++ [d0, d1]) (mid.length + dlo.length + 1) dinv = (q, r3, qh) ∧
      q.length = mid.length + dlo.length + 1 ∧ Limbs q ∧ qh ≤ 1 ∧
      B ^ dlo.length * (x + B * (val mid + B ^ mid.length * val hi) + 1)
        ≤ (qh * B ^ (mid.length + dlo.length + 1) + val q + 1) * (val dlo + B ^ dlo.length * (d0 + B * d1)) ∧
      (qh * B ^ (mid.length + dlo.length + 1) + val q) * (val dlo + B ^ dlo.length * (d0 + B * d1))
        ≤ B ^ dlo.length * (x + B * (val mid + B ^ mid.length * val hi)) + (dlo.length + 1) * B ^ (dlo.length + 1) := by
  have hB := B_pos
  have hd : Limbs (dlo ++ [d0, d1]) := Limbs_append.mpr ⟨hdlo, Limbs_pair hd0 hd1⟩
  have hdl : (dlo ++ [d0, d1]).length = dlo.length + 2 := by simp
  have eV : val (dlo ++ [d0, d1]) = val dlo + B ^ dlo.length * (d0 + B * d1) := val_top2 _ _ _
  obtain ⟨qh, hi', e1, e2, hqh, hv, hlt, hl', hll'⟩ :=
    sb_init hi (dlo ++ [d0, d1]) hhil hd (by rw [hdl]; exact hhi) (by rw [hdl]; exact norm_pow dlo d0 d1 hnorm)
  rw [daCore_eq _ _ _ _ _ _ _ _ hhi]
  simp only []
  rw [e1, e2]
  rw [hdl] at hll'
  have hsp := split_top2_val hi' dlo.length hll'
  rw [eV] at hv hlt
  obtain ⟨ql1, w1, cy1, n11, el1, hql1l, hql1, h3, h4, hw1, hw1l, hn11, hcy1⟩ :=
    daLoop1_spec dlo d0 d1 dinv hdlo hd0 hd1 hnorm hdinv mid.reverse (hi'.take dlo.length)
      (hi'.getD (dlo.length + 1) 0) (hi'.getD dlo.length 0) [] (Limbs_reverse hmid) (Limbs_take hl' _)
      (by rw [List.length_take, hll']; omega) (limb_getD hl' _) (limb_getD hl' _) (by rw [hsp]; exact hlt)
  rw [el1]
  simp only [List.append_nil]
  rw [hsp, List.reverse_reverse, List.length_reverse] at h3
  rw [List.length_reverse] at hql1l
  obtain ⟨ql, r3, el2, hqll, hql, i1, i2⟩ :=
    daLoop2_spec d0 d1 dinv hd0 hd1 hnorm hdinv dlo.length dlo (x :: w1) cy1 n11 0 ql1 rfl (by simp [hw1l]) hdlo
      (Limbs_cons.mpr ⟨hx, hw1⟩) hn11 hcy1 hB (by
        rw [val_cons, pow_succ]
        have : B * (val w1 + B ^ dlo.length * (n11 + B * cy1) + 1)
            ≤ B * (val dlo + B ^ dlo.length * (d0 + B * d1)) := Nat.mul_le_mul_left _ h4
        have e : x + B * val w1 + B ^ dlo.length * B * (n11 + B * cy1) + B
            = B * (val w1 + B ^ dlo.length * (n11 + B * cy1) + 1) + x := by ring
        omega)
  rw [el2]
  refine ⟨ql ++ ql1, r3, qh, rfl, by simp [hqll, hql1l]; omega, Limbs_append.mpr ⟨hql, hql1⟩, hqh, ?_, ?_⟩
  all_goals
    rw [val_append, hqll]
    have hX : x + B * (val mid + B ^ mid.length * val hi)
        = (val (x :: w1) + B ^ (dlo.length + 1) * (n11 + B * cy1))
          + B * ((val ql1 + B ^ mid.length * qh) * (val dlo + B ^ dlo.length * (d0 + B * d1))) := by
      rw [hv, val_cons, pow_succ]
      have : B * (val mid + B ^ mid.length * val hi') = B * (val ql1 * (val dlo + B ^ dlo.length * (d0 + B * d1))
          + (val w1 + B ^ dlo.length * (n11 + B * cy1))) := by rw [h3]
      linarith
    generalize val (x :: w1) + B ^ (dlo.length + 1) * (n11 + B * cy1) = Wv at i1 i2 hX
    have ep2 : B ^ (dlo.length + 2) = B * B ^ dlo.length * B := by rw [pow_succ, pow_succ]; ring
    rw [ep2] at i2
    rw [pow_succ (n := dlo.length)] at i1 i2
    have ec : B ^ dlo.length * B = B * B ^ dlo.length := Nat.mul_comm _ _
    rw [ec] at i1 i2
    obtain ⟨c1, c2⟩ := core_arith (B ^ dlo.length) _ _ (val ql) (val ql1 + B ^ mid.length * qh) _ (dlo.length + 1)
      i1 i2 hX
    have eQ : qh * B ^ (mid.length + dlo.length + 1) + (val ql + B ^ (dlo.length + 1) * val ql1)
        = val ql + B * B ^ dlo.length * (val ql1 + B ^ mid.length * qh) := by
      rw [show mid.length + dlo.length + 1 = mid.length + (dlo.length + 1) from rfl, pow_add, pow_succ (n := dlo.length)]
      ring
    rw [eQ]
  · exact c1
  · rw [pow_succ (n := dlo.length)]; exact c2

/-- the error budget: with the ignored low parts of dividend (Nlow) and divisor (Dlow) the quotient of the truncated
    operands is ⌊N/D⌋ or ⌊N/D⌋ + 1 -/
theorem divappr_budget (N D V Dlow Nlow X Q S Bk k : Nat) (hBk : 0 < Bk) (hN : N = Nlow + S * Bk * X)
    (hNlow : Nlow < S * Bk) (hD : D = Dlow + S * V) (hDlow : Dlow < S)
    (c1 : Bk * (X + 1) ≤ (Q + 1) * V) (c2 : Q * V ≤ Bk * X + (k + 1) * (Bk * B))
    (hV : Bk * B * B ≤ 2 * V) (hQD : Q * Dlow ≤ 2 * (S * (Bk * B))) (hk : 2 * (k + 3) ≤ B) :
    Q = N / D ∨ Q = N / D + 1 := by
  have hB := B_pos
  have hS : 0 < S := by omega
  have hVpos : 0 < V := by
    have : 0 < Bk * B * B := by positivity
    omega
  have hD0 : 0 < D := by
    have : 0 < S * V := Nat.mul_pos hS hVpos
    omega
  have low : N < (Q + 1) * D := by
    have a : S * (Bk * (X + 1)) ≤ S * ((Q + 1) * V) := Nat.mul_le_mul_left _ c1
    have b := Nat.zero_le ((Q + 1) * Dlow)
    subst hN hD
    nlinarith
  have high : Q * D ≤ N + D := by
    have a : S * (Q * V) ≤ S * (Bk * X + (k + 1) * (Bk * B)) := Nat.mul_le_mul_left _ c2
    have b : 2 * (k + 3) * (S * (Bk * B)) ≤ B * (S * (Bk * B)) := Nat.mul_le_mul_right _ hk
    have c : S * (Bk * B * B) ≤ S * (2 * V) := Nat.mul_le_mul_left _ hV
    subst hN hD
    nlinarith
  have h1 : N / D < Q + 1 := (Nat.div_lt_iff_lt_mul hD0).mpr low
  have h2 : Q < N / D + 2 := by
    have hdm := Nat.div_add_mod N D
    have hm := Nat.mod_lt N hD0
    have : Q * D < (N / D + 2) * D := by nlinarith
    exact Nat.lt_of_mul_lt_mul_right this
  omega

theorem getD_drop (l : List Nat) (s i : Nat) : (l.drop s).getD i 0 = l.getD (s + i) 0 := by
  simp [List.getD_eq_getElem?_getD, List.getElem?_drop]

theorem split_dividend (n : List Nat) (f c1 : Nat) (hf : f < n.length) :
    n = n.take f ++ n.getD f 0 :: ((n.drop (f + 1)).take c1 ++ n.drop (f + 1 + c1)) := by
  have h1 : n = n.take f ++ n.drop f := (List.take_append_drop f n).symm
  have h2 : n.drop f = n.getD f 0 :: n.drop (f + 1) := by
    rw [List.drop_eq_getElem_cons hf]
    simp [List.getD_eq_getElem?_getD, hf]
  have h3 : n.drop (f + 1) = (n.drop (f + 1)).take c1 ++ n.drop (f + 1 + c1) := by
    conv_lhs => rw [← List.take_append_drop c1 (n.drop (f + 1))]
    rw [List.drop_drop]
  rw [← h3, ← h2]; exact h1

/-- full specification of the model of mpn_sb_divappr_q -/
theorem sb_divappr_q_spec (n d : List Nat) (dinv : Nat) (hdn : 3 ≤ d.length) (hnn : d.length < n.length)
    (hnorm : B / 2 ≤ d.getD (d.length - 1) 0) (hn : Limbs n) (hd : Limbs d)
    (hdinv : dinv = invert_pi1 (d.getD (d.length - 1) 0) (d.getD (d.length - 2) 0))
    (hsize : 2 * d.length + 2 ≤ B) :
    ∃ q r3 qh, sb_divappr_q n d dinv = (q, r3, qh) ∧ q.length = n.length - d.length ∧ Limbs q ∧ qh ≤ 1 ∧
      (qh * B ^ (n.length - d.length) + val q = val n / val d ∨
       qh * B ^ (n.length - d.length) + val q = val n / val d + 1) := by
  have hB := B_pos
  obtain ⟨qn0, hqn0⟩ : ∃ qn0, n.length = d.length + qn0 := ⟨n.length - d.length, by omega⟩
  have hq1 : 1 ≤ qn0 := by omega
  -- the cut
  obtain ⟨s, dn, hsd, hdn2, hdnq, hcase, ecut⟩ : ∃ s dn, s + dn = d.length ∧ 2 ≤ dn ∧ dn ≤ qn0 + 1 ∧
      (s = 0 ∨ dn = qn0 + 1) ∧
      (if qn0 + 1 < d.length then d.drop (d.length - (qn0 + 1)) else d) = d.drop s := by
    by_cases hc : qn0 + 1 < d.length
    · exact ⟨d.length - (qn0 + 1), qn0 + 1, by omega, by omega, le_refl _, Or.inr rfl, by rw [if_pos hc]⟩
    · exact ⟨0, d.length, by omega, by omega, by omega, Or.inl rfl, by rw [if_neg hc]; rfl⟩
  obtain ⟨k, rfl⟩ : ∃ k, dn = k + 2 := ⟨dn - 2, by omega⟩
  have hdpl : (d.drop s).length = k + 2 := by rw [List.length_drop]; omega
  have hdsplit := split_top2 (d.drop s) k hdpl
  have hdlo : Limbs ((d.drop s).take k) := Limbs_take (Limbs_drop hd _) _
  have hdlol : ((d.drop s).take k).length = k := by rw [List.length_take, hdpl]; omega
  have e_d0 : (d.drop s).getD k 0 = d.getD (d.length - 2) 0 := by rw [getD_drop]; congr 1; omega
  have e_d1 : (d.drop s).getD (k + 1) 0 = d.getD (d.length - 1) 0 := by rw [getD_drop]; congr 1; omega
  have hd0 := limb_getD hd (d.length - 2)
  have hd1 := limb_getD hd (d.length - 1)
  have hvd := val_take_drop d s (by omega)
  have hDlow := val_lt (d.take s) (Limbs_take hd _)
  rw [List.length_take, Nat.min_eq_left (by omega)] at hDlow
  rw [e_d0, e_d1] at hdsplit
  generalize d.getD (d.length - 2) 0 = d0 at *
  generalize d.getD (d.length - 1) 0 = d1 at *
  generalize (d.drop s).take k = dlo at *
  -- the dividend
  have hf : s + k < n.length := by omega
  have hnsplit := split_dividend n (s + k) (qn0 - k - 1) hf
  have hx := limb_getD hn (s + k)
  have hmid : Limbs ((n.drop (s + k + 1)).take (qn0 - k - 1)) := Limbs_take (Limbs_drop hn _) _
  have hmidl : ((n.drop (s + k + 1)).take (qn0 - k - 1)).length = qn0 - k - 1 := by
    rw [List.length_take, List.length_drop]; omega
  have hhil : Limbs (n.drop (s + k + 1 + (qn0 - k - 1))) := Limbs_drop hn _
  have hhill : (n.drop (s + k + 1 + (qn0 - k - 1))).length = k + 2 := by rw [List.length_drop]; omega
  have hnlow := val_lt (n.take (s + k)) (Limbs_take hn _)
  have hnlowl : (n.take (s + k)).length = s + k := by rw [List.length_take]; omega
  rw [hnlowl] at hnlow
  generalize n.take (s + k) = nlow at *
  generalize n.getD (s + k) 0 = x at *
  generalize (n.drop (s + k + 1)).take (qn0 - k - 1) = mid at *
  generalize n.drop (s + k + 1 + (qn0 - k - 1)) = hi at *
  have hqn : qn0 = mid.length + dlo.length + 1 := by omega
  have hnd : n.length - d.length = qn0 := by omega
  unfold sb_divappr_q
  simp only []
  rw [hnd, ecut, hdsplit, hnsplit, hqn]
  obtain ⟨q, r3, qh, e, hql, hq, hqh, c1, c2⟩ := daCore_explicit nlow mid hi dlo x d0 d1 dinv
    (by rw [hhill, hdlol]) hmid hhil hx hdlo hd0 hd1 hnorm hdinv
  refine ⟨q, r3, qh, e, hql, hq, hqh, ?_⟩
  -- values
  have eN : val (nlow ++ x :: (mid ++ hi))
      = val nlow + B ^ s * B ^ dlo.length * (x + B * (val mid + B ^ mid.length * val hi)) := by
    rw [val_append, val_cons, val_append, hnlowl, hdlol, pow_add]
  have eD : val d = val (d.take s) + B ^ s * (val dlo + B ^ dlo.length * (d0 + B * d1)) := by
    rw [hvd, hdsplit, val_top2]
  rw [eN, eD]
  have hQlt := val_lt q hq
  rw [hql] at hQlt
  apply divappr_budget _ _ _ _ _ _ _ (B ^ s) (B ^ dlo.length) dlo.length (by positivity) rfl
    (by rw [← pow_add, hdlol]; exact hnlow) rfl hDlow c1
    (by rw [pow_succ] at c2; exact c2)
  · -- normalisation
    have : B ≤ 2 * d1 := by simp only [B_eq] at *; omega
    have h2 : B ^ dlo.length * B * B ≤ B ^ dlo.length * B * (2 * d1) := Nat.mul_le_mul_left _ this
    have e : 2 * (val dlo + B ^ dlo.length * (d0 + B * d1))
        = B ^ dlo.length * B * (2 * d1) + (2 * val dlo + 2 * (B ^ dlo.length * d0)) := by ring
    omega
  · rcases hcase with h0 | h1
    · subst h0
      simp
    · have hqk : mid.length = 0 := by omega
      have hQ2 : qh * B ^ (mid.length + dlo.length + 1) + val q ≤ 2 * (B ^ dlo.length * B) := by
        rw [hqk, Nat.zero_add, pow_succ] at hQlt ⊢
        have : qh * (B ^ dlo.length * B) ≤ 1 * (B ^ dlo.length * B) := Nat.mul_le_mul_right _ hqh
        omega
      calc (qh * B ^ (mid.length + dlo.length + 1) + val q) * val (d.take s)
          ≤ (2 * (B ^ dlo.length * B)) * B ^ s := Nat.mul_le_mul hQ2 hDlow.le
        _ = 2 * (B ^ s * (B ^ dlo.length * B)) := by ring
  · rw [hdlol]; omega

end Mpir.SbDivQ
