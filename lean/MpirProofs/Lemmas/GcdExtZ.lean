/-
  C07 — mpz_gcdext / mpz_invert at the mpz layer.

  From the documented contract of mpn_gcdext (first cofactor only) derive the manual's acceptance
  predicate `gcdextOk` for mpz_gcdext (identity, normalisation of BOTH cofactors, all special cases),
  then the contract of mpz_invert, and uniqueness of the triple described by the manual.
-/
import MpirProofs.Lemmas.GcdSize
import Mathlib.Tactic.LinearCombination
import Mathlib.Tactic.NormNum
import Mathlib.Tactic.Positivity
import Mathlib.Algebra.Order.Ring.Abs
import Mathlib.Algebra.Order.Group.Int
import Mathlib.Algebra.Order.Group.Unbundled.Int
namespace Mpir.Gcd
open Mpir

/-- what the mpz layer assumes of mpn_gcdext: its documented contract on every call satisfying the
    C's ASSERTs (an ≥ n > 0, V's top limb non-zero) -/
def MpnGcdextContract : Prop :=
  ∀ U V : Nat, 0 < V → nlimbs V ≤ nlimbs U →
    mpnGcdextOk U V (mpn_gcdext U (nlimbs U) V (nlimbs V)).1 (mpn_gcdext U (nlimbs U) V (nlimbs V)).2

/-! ### the mathematical heart: the second cofactor of a coprime pair -/

/-- u, v > 0, u ≠ v, u S + v T = 1, S normalised w.r.t. v  ⇒  T normalised w.r.t. u.
    (No assumption u ≥ v.) -/
theorem cofactor_coprime (u v S T : Int) (hu : 0 < u) (hv : 0 < v) (huv : u ≠ v)
    (hid : u * S + v * T = 1)
    (h1 : v = 2 → S = 1) (h2 : v ≠ 2 → 2 * |S| < v) (h0 : S = 0 ↔ v = 1) :
    (u = 2 → T = 1) ∧ (u ≠ 2 → 2 * |T| < u) ∧ (T = 0 ↔ u = 1) := by
  -- T = 0 when u = 1
  have hT0 : u = 1 → T = 0 := by
    intro h; subst h
    by_cases hv2 : v = 2
    · have := h1 hv2; subst hv2; omega
    · have hS := h2 hv2
      have hv3 : 3 ≤ v := by omega
      by_contra hT
      rcases lt_or_gt_of_ne hT with hT | hT
      · have : v * T ≤ v * (-1) := mul_le_mul_of_nonneg_left (by omega) (by omega)
        cases abs_cases S <;> omega
      · have : v * 1 ≤ v * T := mul_le_mul_of_nonneg_left (by omega) (by omega)
        cases abs_cases S <;> omega
  refine ⟨?_, ?_, ?_, hT0⟩
  · intro h; subst h
    by_cases hv1 : v = 1
    · have := h0.mpr hv1; subst hv1; omega
    by_cases hv2 : v = 2
    · subst hv2; omega
    have hS := h2 hv2
    have hv3 : 3 ≤ v := by omega
    have hT1 : T ≤ 1 := by
      by_contra hT
      have : v * 2 ≤ v * T := mul_le_mul_of_nonneg_left (by omega) (by omega)
      cases abs_cases S <;> omega
    have hT2 : 0 ≤ T := by
      by_contra hT
      have : v * T ≤ v * (-1) := mul_le_mul_of_nonneg_left (by omega) (by omega)
      cases abs_cases S <;> omega
    have : T ≠ 0 := by intro h; subst h; omega
    omega
  · intro hu2
    by_cases hu1 : u = 1
    · rw [hT0 hu1, hu1]; norm_num
    have hu3 : 3 ≤ u := by omega
    by_cases hv1 : v = 1
    · have hS := h0.mpr hv1; subst hv1; subst hS
      have : T = 1 := by omega
      subst this; norm_num; omega
    by_cases hv2 : v = 2
    · have hS := h1 hv2; subst hv2; subst hS
      cases abs_cases T <;> omega
    have hS := h2 hv2
    have hv3 : 3 ≤ v := by omega
    have hS1 : -(v - 1) ≤ 2 * S ∧ 2 * S ≤ v - 1 := by
      cases abs_cases S <;> omega
    have e1 : u * (2 * S) ≤ u * (v - 1) := mul_le_mul_of_nonneg_left hS1.2 (by omega)
    have e2 : u * (-(v - 1)) ≤ u * (2 * S) := mul_le_mul_of_nonneg_left hS1.1 (by omega)
    have hT1 : 2 * T < u := by
      by_contra hT
      have : v * u ≤ v * (2 * T) := mul_le_mul_of_nonneg_left (by omega) (by omega)
      nlinarith
    have hT2 : -u < 2 * T := by
      by_contra hT
      have : v * (2 * T) ≤ v * (-u) := mul_le_mul_of_nonneg_left (by omega) (by omega)
      nlinarith
    cases abs_cases T <;> omega
  · intro hT; subst hT
    have : u * S = 1 := by linarith
    exact Int.eq_one_of_mul_eq_one_right (by omega) this

/-! ### structure of the model -/

/-- mpz/gcdext.c after the operand swap. -/
def gcdextCore (a b : Int) : Int × Int × Int :=
  if nlimbs b.natAbs = 0 then
    ((a.natAbs : Int), (if a ≥ 0 then (if nlimbs a.natAbs ≠ 0 then 1 else 0) else -1), 0)
  else
    let r := mpn_gcdext a.natAbs (nlimbs a.natAbs) b.natAbs (nlimbs b.natAbs)
    let s : Int := if a ≥ 0 then r.2 else -r.2
    ((r.1 : Int), s, ((r.1 : Int) - s * a) / b)

theorem mpz_gcdext_eq (a b : Int) :
    mpz_gcdext a b =
      if nlimbs a.natAbs < nlimbs b.natAbs then
        ((gcdextCore b a).1, (gcdextCore b a).2.2, (gcdextCore b a).2.1)
      else gcdextCore a b := by
  by_cases h : nlimbs a.natAbs < nlimbs b.natAbs
  · simp only [mpz_gcdext, gcdextCore, h, decide_true, if_true]
  · simp only [mpz_gcdext, gcdextCore, h, decide_false, Bool.false_eq_true, ↓reduceIte]

/-! ### scaling by G -/

/-- From the mpn contract for S (w.r.t. V) and the identity U S + V T = G: the manual's conditions
    on S and the same conditions on T (w.r.t. U).  U < V is allowed. -/
theorem mpn_key (U V G : Nat) (S T : Int) (hU : 0 < U) (hV : 0 < V) (hne : U ≠ V)
    (hok : mpnGcdextOk U V G S) (hid : (U : Int) * S + V * T = G) :
    (((V : Int) = 2 * G → S = 1) ∧ ((V : Int) ≠ 2 * G → 2 * (G : Int) * S.natAbs < V) ∧
      (S = 0 ↔ (G : Int) = V)) ∧
    (((U : Int) = 2 * G → T = 1) ∧ ((U : Int) ≠ 2 * G → 2 * (G : Int) * T.natAbs < U) ∧
      (T = 0 ↔ (G : Int) = U)) := by
  obtain ⟨hG, _, hS, h0⟩ := hok
  have hS : S = 1 ∨ 2 * (G : Int) * S.natAbs < V := by
    rcases hS with hS | hS
    · exact Or.inl hS
    · exact Or.inr (by exact_mod_cast hS)
  have hGU : G ∣ U := hG ▸ Nat.gcd_dvd_left U V
  have hGV : G ∣ V := hG ▸ Nat.gcd_dvd_right U V
  obtain ⟨u, hu⟩ := hGU
  obtain ⟨v, hv⟩ := hGV
  have hGpos : 0 < G := Nat.pos_of_ne_zero (by rintro rfl; simp at hu; omega)
  have hupos : 0 < u := Nat.pos_of_ne_zero (by rintro rfl; simp at hu; omega)
  have hvpos : 0 < v := Nat.pos_of_ne_zero (by rintro rfl; simp at hv; omega)
  have hGi : (0 : Int) < G := by exact_mod_cast hGpos
  have huv : (u : Int) ≠ v := by
    intro h; have : u = v := by exact_mod_cast h
    subst this; exact hne (hu.trans hv.symm)
  have hUi : (U : Int) = G * u := by exact_mod_cast hu
  have hVi : (V : Int) = G * v := by exact_mod_cast hv
  have hid' : (u : Int) * S + v * T = 1 := by
    have : (G : Int) * (u * S + v * T) = G * 1 := by rw [hUi, hVi] at hid; linarith
    exact mul_left_cancel₀ (ne_of_gt hGi) this
  -- S = 0 ↔ v = 1
  have h0' : S = 0 ↔ (v : Int) = 1 := by
    rw [h0]
    constructor
    · intro hmod
      have hVU : V ∣ U := Nat.dvd_of_mod_eq_zero hmod
      rw [hu, hv] at hVU
      have hvu : v ∣ u := Nat.dvd_of_mul_dvd_mul_left hGpos hVU
      have hvu' : (v : Int) ∣ u := by exact_mod_cast hvu
      have : (v : Int) ∣ 1 := by
        rw [← hid']; exact dvd_add (Dvd.dvd.mul_right hvu' S) (dvd_mul_right _ _)
      exact Int.eq_one_of_dvd_one (by positivity) this
    · intro h1
      have : v = 1 := by exact_mod_cast h1
      subst this
      apply Nat.mod_eq_zero_of_dvd
      rw [hu, hv, Nat.mul_one]; exact Nat.dvd_mul_right _ _
  have habsS : ((S.natAbs : Nat) : Int) = |S| := Int.natCast_natAbs S
  have habsT : ((T.natAbs : Nat) : Int) = |T| := Int.natCast_natAbs T
  have hv2 : (V : Int) = 2 * G ↔ (v : Int) = 2 := by
    rw [hVi]; constructor
    · intro h; exact mul_left_cancel₀ (ne_of_gt hGi) (by linarith)
    · intro h; rw [h]; ring
  have hu2 : (U : Int) = 2 * G ↔ (u : Int) = 2 := by
    rw [hUi]; constructor
    · intro h; exact mul_left_cancel₀ (ne_of_gt hGi) (by linarith)
    · intro h; rw [h]; ring
  have hscale : ∀ (x w : Int), 2 * (G : Int) * x < G * w ↔ 2 * x < w := by
    intro x w
    rw [show 2 * (G : Int) * x = G * (2 * x) by ring]
    exact mul_lt_mul_iff_right₀ hGi
  have h1 : (v : Int) = 2 → S = 1 := by
    intro hv2'
    rcases hS with hS | hS
    · exact hS
    · exfalso
      rw [hVi, hscale, habsS, hv2'] at hS
      have : S = 0 := by cases abs_cases S <;> omega
      have := h0'.mp this
      omega
  have h2 : (v : Int) ≠ 2 → 2 * |S| < v := by
    intro hv2'
    rcases hS with hS | hS
    · have hv1 : (v : Int) ≠ 1 := fun h => by have := h0'.mpr h; omega
      have : (0 : Int) < v := by exact_mod_cast hvpos
      rw [hS]; norm_num; omega
    · rwa [hVi, hscale, habsS] at hS
  obtain ⟨k1, k2, k3⟩ := cofactor_coprime u v S T (by exact_mod_cast hupos) (by exact_mod_cast hvpos)
    huv hid' h1 h2 h0'
  have hG1 : ∀ w : Int, (G : Int) = G * w ↔ w = 1 := by
    intro w; constructor
    · intro h; exact (mul_left_cancel₀ (ne_of_gt hGi) (by linarith : (G : Int) * w = G * 1))
    · intro h; rw [h, mul_one]
  refine ⟨⟨fun h => h1 (hv2.mp h), fun h => ?_, ?_⟩, ⟨fun h => k1 (hu2.mp h), fun h => ?_, ?_⟩⟩
  · rw [hVi, hscale, habsS]; exact h2 (fun h' => h (hv2.mpr h'))
  · rw [h0', hVi, hG1]
  · rw [hUi, hscale, habsT]; exact k2 (fun h' => h (hu2.mpr h'))
  · rw [k3, hUi, hG1]

/-! ### signs -/

theorem sgn_ne_zero {a : Int} (ha : a ≠ 0) : sgn a ≠ 0 := by
  unfold sgn; split
  · omega
  · split <;> omega

theorem sgn_mul_self {a : Int} (ha : a ≠ 0) : sgn a * sgn a = 1 := by
  unfold sgn; split
  · omega
  · split <;> omega

theorem natAbs_sgn_mul {a : Int} (ha : a ≠ 0) (x : Int) : (sgn a * x).natAbs = x.natAbs := by
  unfold sgn; split
  · simp
  · split
    · simp
    · omega

theorem sgn_mul_eq_zero {a : Int} (ha : a ≠ 0) (x : Int) : sgn a * x = 0 ↔ x = 0 := by
  rw [mul_eq_zero]; constructor
  · rintro (h | h)
    · exact absurd h (sgn_ne_zero ha)
    · exact h
  · exact Or.inr

/-- attach the signs: both orders of the operands at once. -/
theorem gcdextOk_assemble (a b : Int) (G : Nat) (S T : Int) (ha : a ≠ 0) (hb : b ≠ 0)
    (hne : a.natAbs ≠ b.natAbs) (hG : G = Nat.gcd a.natAbs b.natAbs)
    (hid : (a.natAbs : Int) * S + b.natAbs * T = G)
    (hkey : (((b.natAbs : Int) = 2 * G → S = 1) ∧
        ((b.natAbs : Int) ≠ 2 * G → 2 * (G : Int) * S.natAbs < b.natAbs) ∧
        (S = 0 ↔ (G : Int) = b.natAbs)) ∧
      (((a.natAbs : Int) = 2 * G → T = 1) ∧
        ((a.natAbs : Int) ≠ 2 * G → 2 * (G : Int) * T.natAbs < a.natAbs) ∧
        (T = 0 ↔ (G : Int) = a.natAbs))) :
    gcdextOk a b G (sgn a * S) (sgn b * T) ∧ gcdextOk b a G (sgn b * T) (sgn a * S) := by
  obtain ⟨⟨s1, s2, s3⟩, ⟨t1, t2, t3⟩⟩ := hkey
  have hida : a * (sgn a * S) + b * (sgn b * T) = G := by
    rw [← hid]
    have e1 := sgn_mul_natAbs a
    have e2 := sgn_mul_natAbs b
    have e1' := sgn_mul_self ha
    have e2' := sgn_mul_self hb
    linear_combination (-(sgn a * S)) * e1 + ((a.natAbs : Int) * S) * e1' +
      (-(sgn b * T)) * e2 + ((b.natAbs : Int) * T) * e2'
  have condS : (if b = 0 ∨ (b.natAbs : Int) = 2 * G then sgn a * S = sgn a
      else 2 * (G : Int) * (sgn a * S).natAbs < b.natAbs) := by
    split
    · next h =>
      rcases h with h | h
      · exact absurd h hb
      · rw [s1 h, mul_one]
    · next h =>
      rw [natAbs_sgn_mul ha]; exact s2 (fun h' => h (Or.inr h'))
  have condT : (if a = 0 ∨ (a.natAbs : Int) = 2 * G then sgn b * T = sgn b
      else 2 * (G : Int) * (sgn b * T).natAbs < a.natAbs) := by
    split
    · next h =>
      rcases h with h | h
      · exact absurd h ha
      · rw [t1 h, mul_one]
    · next h =>
      rw [natAbs_sgn_mul hb]; exact t2 (fun h' => h (Or.inr h'))
  constructor
  · refine ⟨?_, hida, ?_, ?_⟩
    · rw [hG]; rfl
    · rw [if_neg hne]; exact ⟨condS, condT⟩
    · rw [sgn_mul_eq_zero ha, s3]
  · refine ⟨?_, by linarith, ?_, ?_⟩
    · rw [hG, Nat.gcd_comm]; rfl
    · rw [if_neg (Ne.symm hne)]; exact ⟨condT, condS⟩
    · rw [sgn_mul_eq_zero hb, t3]

/-! ### mpz_gcdext -/

theorem natAbs_mul_sgn (a : Int) : a * sgn a = (a.natAbs : Int) := by
  unfold sgn; split
  · omega
  · split <;> omega

/-- general case: both operands non-zero, different magnitudes; both operand orders. -/
theorem gcdextCore_spec_ne (hc : MpnGcdextContract) (a b : Int) (hb : b ≠ 0)
    (hsz : nlimbs b.natAbs ≤ nlimbs a.natAbs) (hne : a.natAbs ≠ b.natAbs) :
    gcdextOk a b (gcdextCore a b).1 (gcdextCore a b).2.1 (gcdextCore a b).2.2 ∧
    gcdextOk b a (gcdextCore a b).1 (gcdextCore a b).2.2 (gcdextCore a b).2.1 := by
  have hV : 0 < b.natAbs := Int.natAbs_pos.mpr hb
  have hnb : nlimbs b.natAbs ≠ 0 := (nlimbs_pos hV).ne'
  have ha : a ≠ 0 := by
    intro h; subst h
    simp only [Int.natAbs_zero, nlimbs_zero] at hsz; omega
  have hU : 0 < a.natAbs := Int.natAbs_pos.mpr ha
  have hok := hc a.natAbs b.natAbs hV hsz
  unfold gcdextCore
  rw [if_neg hnb]
  rcases hr : mpn_gcdext a.natAbs (nlimbs a.natAbs) b.natAbs (nlimbs b.natAbs) with ⟨G, S⟩
  rw [hr] at hok
  simp only [] at hok ⊢
  have hs : (if a ≥ 0 then S else -S) = sgn a * S := by
    unfold sgn
    rcases lt_or_gt_of_ne ha with h | h
    · rw [if_neg (by omega), if_neg (by omega), if_pos h]; ring
    · rw [if_pos (by omega), if_pos h]; ring
  rw [hs]
  have e1 := sgn_mul_natAbs a
  have e2 := sgn_mul_natAbs b
  have e1' := sgn_mul_self ha
  have e2' := sgn_mul_self hb
  have hsa : sgn a * S * a = (a.natAbs : Int) * S := by
    linear_combination (-(sgn a * S)) * e1 + ((a.natAbs : Int) * S) * e1'
  have hdvd : b ∣ (G : Int) - sgn a * S * a := by
    rw [hsa]; exact Int.natAbs_dvd.mp (Int.dvd_of_emod_eq_zero hok.2.1)
  have hbt : b * (((G : Int) - sgn a * S * a) / b) = (G : Int) - sgn a * S * a :=
    Int.mul_ediv_cancel' hdvd
  generalize ((G : Int) - sgn a * S * a) / b = t at hbt ⊢
  have hT : sgn b * (sgn b * t) = t := by rw [← mul_assoc, e2', one_mul]
  have hid : (a.natAbs : Int) * S + b.natAbs * (sgn b * t) = G := by
    rw [← hsa]
    linear_combination hbt + t * e2
  have hkey := mpn_key a.natAbs b.natAbs G S (sgn b * t) hU hV hne hok hid
  have := gcdextOk_assemble a b G S (sgn b * t) ha hb hne hok.1 hid hkey
  rw [hT] at this
  exact this

/-- |a| = |b| ≠ 0: S = 0, T = 1. -/
theorem gcdextCore_spec_eq (hc : MpnGcdextContract) (a b : Int) (hb : b ≠ 0)
    (heq : a.natAbs = b.natAbs) :
    gcdextOk a b (gcdextCore a b).1 (gcdextCore a b).2.1 (gcdextCore a b).2.2 := by
  have hV : 0 < b.natAbs := Int.natAbs_pos.mpr hb
  have hnb : nlimbs b.natAbs ≠ 0 := (nlimbs_pos hV).ne'
  have hok := hc a.natAbs b.natAbs hV (by rw [heq])
  unfold gcdextCore
  rw [if_neg hnb]
  rcases hr : mpn_gcdext a.natAbs (nlimbs a.natAbs) b.natAbs (nlimbs b.natAbs) with ⟨G, S⟩
  rw [hr] at hok
  simp only [] at hok ⊢
  obtain ⟨hG, _, _, h0⟩ := hok
  have hS : S = 0 := h0.mpr (by rw [heq]; exact Nat.mod_self _)
  subst hS
  rw [heq, Nat.gcd_self] at hG
  subst hG
  have ht : ((b.natAbs : Int) - (if a ≥ 0 then (0 : Int) else -0) * a) / b = sgn b := by
    have : (if a ≥ 0 then (0 : Int) else -0) = 0 := by split <;> rfl
    rw [this, zero_mul, sub_zero, ← natAbs_mul_sgn b]
    exact Int.mul_ediv_cancel_left _ hb
  rw [ht]
  have hs : (if a ≥ 0 then (0 : Int) else -0) = 0 := by split <;> rfl
  rw [hs]
  refine ⟨?_, ?_, ?_, ?_⟩
  · show (b.natAbs : Int) = ((Nat.gcd a.natAbs b.natAbs : Nat) : Int)
    rw [heq, Nat.gcd_self]
  · rw [mul_zero, zero_add]; exact natAbs_mul_sgn b
  · rw [if_pos heq]; exact ⟨rfl, rfl⟩
  · simp

/-- second operand zero (after the swap): both operand orders. -/
theorem gcdextCore_spec_zero (a : Int) :
    gcdextOk a 0 (gcdextCore a 0).1 (gcdextCore a 0).2.1 (gcdextCore a 0).2.2 ∧
    (a ≠ 0 → gcdextOk 0 a (gcdextCore a 0).1 (gcdextCore a 0).2.2 (gcdextCore a 0).2.1) := by
  have hcore : gcdextCore a 0 = ((a.natAbs : Int), sgn a, 0) := by
    unfold gcdextCore
    rw [if_pos (by simp [nlimbs_zero])]
    congr 2
    unfold sgn
    rcases lt_trichotomy a 0 with h | h | h
    · rw [if_neg (by omega), if_neg (by omega), if_pos h]
    · subst h; simp [nlimbs_zero]
    · have : nlimbs a.natAbs ≠ 0 := (nlimbs_pos (Int.natAbs_pos.mpr (by omega))).ne'
      rw [if_pos (by omega), if_pos this, if_pos h]
  rw [hcore]
  simp only []
  constructor
  · refine ⟨?_, ?_, ?_, ?_⟩
    · rw [Int.gcd_zero_right]
    · rw [zero_mul, add_zero]; exact natAbs_mul_sgn a
    · by_cases ha : a = 0
      · subst ha; simp [sgn_zero]
      · have hne : a.natAbs ≠ (0 : Int).natAbs := by simpa using ha
        rw [if_neg hne, if_pos (Or.inl rfl)]
        refine ⟨rfl, ?_⟩
        have hpos : (0 : Int) < a.natAbs := by exact_mod_cast Int.natAbs_pos.mpr ha
        rw [if_neg (by rintro (h | h) <;> omega)]
        simpa using hpos
    · by_cases ha : a = 0
      · subst ha; simp [sgn_zero]
      · have := sgn_ne_zero ha
        simp [this, ha]
  · intro ha
    have hpos : (0 : Int) < a.natAbs := by exact_mod_cast Int.natAbs_pos.mpr ha
    refine ⟨?_, ?_, ?_, ?_⟩
    · rw [Int.gcd_zero_left]
    · rw [mul_zero, zero_add]; exact natAbs_mul_sgn a
    · have hne : (0 : Int).natAbs ≠ a.natAbs := by rw [Int.natAbs_zero]; omega
      rw [if_neg hne, if_pos (Or.inl rfl), if_neg (by rintro (h | h) <;> omega)]
      exact ⟨by simpa using hpos, rfl⟩
    · simp

/-- **mpz_gcdext meets the manual's contract** (identity, normalisation of both cofactors, all the
    special cases), given only the documented contract of mpn_gcdext for the first cofactor. -/
theorem mpz_gcdext_spec (hc : MpnGcdextContract) (a b : Int) :
    gcdextOk a b (mpz_gcdext a b).1 (mpz_gcdext a b).2.1 (mpz_gcdext a b).2.2 := by
  rw [mpz_gcdext_eq]
  split
  · next h =>
    simp only []
    have hb : b ≠ 0 := by
      intro hb; subst hb; simp only [Int.natAbs_zero, nlimbs_zero] at h; omega
    have hne : b.natAbs ≠ a.natAbs := by intro e; rw [e] at h; omega
    by_cases ha : a = 0
    · subst ha
      exact (gcdextCore_spec_zero b).2 hb
    · exact (gcdextCore_spec_ne hc b a ha (le_of_lt h) hne).2
  · next h =>
    by_cases hb : b = 0
    · subst hb; exact (gcdextCore_spec_zero a).1
    · by_cases heq : a.natAbs = b.natAbs
      · exact gcdextCore_spec_eq hc a b hb heq
      · exact (gcdextCore_spec_ne hc a b hb (by omega) heq).1

example : gcdextOk 240 46 2 (-9) 47 := by decide
example : gcdextOk (-240) 46 2 9 47 := by decide
example : gcdextOk 46 240 2 47 (-9) := by decide
example : gcdextOk 6 4 2 1 (-1) := by decide
example : gcdextOk 7 (-7) 7 0 (-1) := by decide
example : ¬ gcdextOk 240 46 2 14 (-73) := by decide
example : mpnGcdextOk 240 46 2 (-9) := by decide
-- the executable model on concrete operands (kernel evaluation, no native code)
example : mpz_gcdext 240 46 = (2, -9, 47) := by decide +kernel
example : mpz_gcdext 46 240 = (2, 47, -9) := by decide +kernel
example : mpz_gcdext (-240) 46 = (2, 9, 47) := by decide +kernel
example : mpnGcdextOk 240 46 (mpn_gcdext 240 (nlimbs 240) 46 (nlimbs 46)).1
    (mpn_gcdext 240 (nlimbs 240) 46 (nlimbs 46)).2 := by decide +kernel

/-! ### mpz_invert -/

theorem mpz_invert_eq (x n : Int) :
    mpz_invert x n =
      if x = 0 ∨ n.natAbs = 1 then none
      else if (mpz_gcdext x n).1 ≠ 1 then none
      else if (mpz_gcdext x n).2.1 < 0 then
        (if n < 0 then some ((mpz_gcdext x n).2.1 - n) else some ((mpz_gcdext x n).2.1 + n))
      else some (mpz_gcdext x n).2.1 := rfl

/-- **mpz_invert**: returns non-zero iff gcd(a, m) = 1, and then the result r satisfies
    0 ≤ r < |m| and a r ≡ 1 (mod m). -/
theorem invert_spec (hc : MpnGcdextContract) (a m : Int) (hm : 1 < m.natAbs) :
    match mpz_invert a m with
    | none => invertOk a m 0 0
    | some r => invertOk a m 1 r := by
  have hnone : Int.gcd a m ≠ 1 → invertOk a m 0 0 := fun h =>
    ⟨⟨fun h' => absurd rfl h', fun h' => absurd h' h⟩, fun h' => absurd rfl h'⟩
  rw [mpz_invert_eq]
  by_cases h : a = 0 ∨ m.natAbs = 1
  · rw [if_pos h]
    show invertOk a m 0 0
    rcases h with h | h
    · subst h
      apply hnone
      rw [Int.gcd_zero_left]; omega
    · omega
  · rw [if_neg h]
    obtain ⟨hg, hid, hcond, _⟩ := mpz_gcdext_spec hc a m
    generalize (mpz_gcdext a m).1 = g at *
    generalize (mpz_gcdext a m).2.1 = s at *
    generalize (mpz_gcdext a m).2.2 = t at *
    by_cases hg1 : g ≠ 1
    · rw [if_pos hg1]
      show invertOk a m 0 0
      apply hnone
      intro h; rw [h] at hg; exact hg1 (by simpa using hg)
    · rw [if_neg hg1]
      have hg1 : g = 1 := not_not.mp hg1
      subst hg1
      have hgcd : Int.gcd a m = 1 := by exact_mod_cast hg.symm
      have hmpos : (1 : Int) < m.natAbs := by exact_mod_cast hm
      -- |s| < |m|
      have hsb : (s.natAbs : Int) < m.natAbs := by
        split at hcond
        · rw [hcond.1]; simp; omega
        · have h1 := hcond.1
          split at h1
          · next hh =>
            rcases hh with hh | hh
            · subst hh; simp at hm
            · rw [h1, hh]; unfold sgn; split
              · simp
              · split <;> simp
          · omega
      have hdiv : ∀ k : Int, (a * (s + k * m) - 1) % m = 0 := by
        intro k
        apply Int.emod_eq_zero_of_dvd
        exact ⟨a * k - t, by linear_combination hid⟩
      have hflag : ((1 : Int) ≠ 0 ↔ Int.gcd a m = 1) := ⟨fun _ => hgcd, fun _ => one_ne_zero⟩
      have hmabs : (m.natAbs : Int) = if m < 0 then -m else m := by split <;> omega
      by_cases hs : s < 0
      · rw [if_pos hs]
        by_cases hneg : m < 0
        · rw [if_pos hneg]
          show invertOk a m 1 (s - m)
          refine ⟨hflag, fun _ => ⟨by omega, by omega, ?_⟩⟩
          have := hdiv (-1); rwa [show s + -1 * m = s - m by ring] at this
        · rw [if_neg hneg]
          show invertOk a m 1 (s + m)
          refine ⟨hflag, fun _ => ⟨by omega, by omega, ?_⟩⟩
          have := hdiv 1; rwa [one_mul] at this
      · rw [if_neg hs]
        show invertOk a m 1 s
        refine ⟨hflag, fun _ => ⟨by omega, by omega, ?_⟩⟩
        have := hdiv 0; rwa [zero_mul, add_zero] at this

example : invertOk 3 7 1 5 := by decide
example : invertOk (-3) (-7) 1 2 := by decide
example : invertOk 6 9 0 0 := by decide
example : ¬ invertOk 3 7 1 12 := by decide
example : mpz_invert 3 7 = some 5 := by decide +kernel
example : mpz_invert (-3) (-7) = some 2 := by decide +kernel
example : mpz_invert 6 9 = none := by decide +kernel

/-! ### uniqueness: the manual's conditions determine the triple -/

theorem gcdextOk_unique (a b g s t g' s' t' : Int) :
    gcdextOk a b g s t → gcdextOk a b g' s' t' → g = g' ∧ s = s' ∧ t = t' := by
  rintro ⟨hg, hid, hc, hz⟩ ⟨hg', hid', hc', hz'⟩
  have hgg : g = g' := hg.trans hg'.symm
  subst hgg
  refine ⟨rfl, ?_⟩
  by_cases heq : a.natAbs = b.natAbs
  · rw [if_pos heq] at hc hc'
    exact ⟨hc.1.trans hc'.1.symm, hc.2.trans hc'.2.symm⟩
  rw [if_neg heq] at hc hc'
  obtain ⟨hs, ht⟩ := hc
  obtain ⟨hs', ht'⟩ := hc'
  have hgnn : 0 ≤ g := by rw [hg]; positivity
  have hss : s = s' := by
    by_cases hcase : b = 0 ∨ (b.natAbs : Int) = 2 * g
    · rw [if_pos hcase] at hs hs'; exact hs.trans hs'.symm
    · rw [if_neg hcase] at hs hs'
      have hb : b ≠ 0 := fun h => hcase (Or.inl h)
      have hgpos : g ≠ 0 := by
        intro h0; rw [h0] at hg
        have : Int.gcd a b = 0 := by exact_mod_cast hg.symm
        exact hb (Int.gcd_eq_zero_iff.mp this).2
      have hdvd : (b.natAbs : Int) ∣ g * (s - s') :=
        Int.natAbs_dvd.mpr ⟨t' * s - t * s', by linear_combination s' * hid - s * hid'⟩
      have habs : |g * (s - s')| < (b.natAbs : Int) := by
        rw [abs_mul, abs_of_nonneg hgnn]
        have h1 : |s - s'| ≤ |s| + |s'| := abs_sub s s'
        have h2 : g * |s - s'| ≤ g * (|s| + |s'|) := mul_le_mul_of_nonneg_left h1 hgnn
        rw [Int.natCast_natAbs] at hs hs'
        have : (b.natAbs : Int) = |b| := Int.natCast_natAbs b
        rw [this]
        nlinarith
      have := Int.eq_zero_of_abs_lt_dvd hdvd habs
      rcases mul_eq_zero.mp this with h | h
      · exact absurd h hgpos
      · linarith
  subst hss
  refine ⟨rfl, ?_⟩
  by_cases hb : b = 0
  · subst hb
    have ha : a ≠ 0 := by intro h; subst h; exact heq rfl
    have hga : g = (a.natAbs : Int) := by rw [hg, Int.gcd_zero_right]
    have hpos : (0 : Int) < a.natAbs := by exact_mod_cast Int.natAbs_pos.mpr ha
    have hcase : ¬ (a = 0 ∨ (a.natAbs : Int) = 2 * g) := by rintro (h | h) <;> omega
    rw [if_neg hcase] at ht ht'
    rw [hga] at ht ht'
    have e1 : t.natAbs = 0 := by
      by_contra h
      have : (1 : Int) ≤ t.natAbs := by omega
      nlinarith
    have e2 : t'.natAbs = 0 := by
      by_contra h
      have : (1 : Int) ≤ t'.natAbs := by omega
      nlinarith
    rw [Int.natAbs_eq_zero] at e1 e2
    rw [e1, e2]
  · have : b * t = b * t' := by linarith
    exact mul_left_cancel₀ hb this

example : gcdextOk 240 46 2 (-9) 47 ∧ ¬ gcdextOk 240 46 2 14 (-73) := by decide

end Mpir.Gcd
