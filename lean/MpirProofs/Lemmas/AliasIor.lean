/- mpz_ior on the pointer-level model: the allocation requests of ior.c (MIN (sizes) in the -,- case, the size of the
   negative operand in the mixed case) are enough because `x & (y - 1) + 1` cannot carry out of the limbs of `y`. -/
import MpirProofs.Lemmas.AliasUi2
namespace Mpir.AliasMem
open Mpir
open Mpir.DivZ (sizeNat siz sameSign)

theorem val_zipWith_le_right (f : Nat → Nat → Nat) (hf : ∀ a b, f a b ≤ b) :
    ∀ x y : List Nat, val (List.zipWith f x y) ≤ val y
  | [], y => by simp
  | _ :: _, [] => by simp
  | a :: x, b :: y => by
    simp only [List.zipWith_cons_cons, val_cons]
    have := val_zipWith_le_right f hf x y
    have := hf a b
    nlinarith [B_pos]

theorem val_zipWith_le_left (f : Nat → Nat → Nat) (hf : ∀ a b, f a b ≤ a) :
    ∀ x y : List Nat, val (List.zipWith f x y) ≤ val x
  | [], y => by simp
  | _ :: _, [] => by simp
  | a :: x, b :: y => by
    simp only [List.zipWith_cons_cons, val_cons]
    have := val_zipWith_le_left f hf x y
    have := hf a b
    nlinarith [B_pos]

theorem val_zipWith_append_le (f : Nat → Nat → Nat) (hf : ∀ a b, f a b ≤ a) :
    ∀ x y : List Nat, y.length ≤ x.length → val (List.zipWith f x y ++ x.drop y.length) ≤ val x
  | x, [], _ => by simp
  | [], _ :: _, h => by simp at h
  | a :: x, b :: y, h => by
    simp only [List.zipWith_cons_cons, List.cons_append, val_cons, List.length_cons, List.drop_succ_cons]
    have := val_zipWith_append_le f hf x y (by simpa using h)
    have := hf a b
    nlinarith [B_pos]

theorem Limbs_zipWith_right (f : Nat → Nat → Nat) (hf : ∀ a b, f a b ≤ b) {x y : List Nat} (hy : Limbs y) :
    Limbs (List.zipWith f x y) := by
  intro z hz
  rw [List.mem_iff_getElem] at hz
  obtain ⟨i, hi, rfl⟩ := hz
  simp only [List.getElem_zipWith]
  simp only [List.length_zipWith] at hi
  exact Nat.lt_of_le_of_lt (hf _ _) (hy _ (List.getElem_mem (by omega)))

theorem Limbs_zipWith_left (f : Nat → Nat → Nat) (hf : ∀ a b, f a b ≤ a) {x y : List Nat} (hx : Limbs x) :
    Limbs (List.zipWith f x y) := by
  intro z hz
  rw [List.mem_iff_getElem] at hz
  obtain ⟨i, hi, rfl⟩ := hz
  simp only [List.getElem_zipWith]
  simp only [List.length_zipWith] at hi
  exact Nat.lt_of_le_of_lt (hf _ _) (hx _ (List.getElem_mem (by omega)))

/-- no carry out of `r + 1`: the limb count stays -/
theorem addOneGrow_len_eq {r : List Nat} (hL : Limbs r) (hne : r ≠ []) (h : val r + 1 < B ^ r.length) :
    (Bits.addOneGrow r).length = r.length := by
  obtain ⟨h1, h2, _, h4⟩ := Bits.addLimb_spec r hL 1 (by rw [B_eq]; decide) hne
  unfold Bits.addOneGrow
  have hcy : (Bits.addLimb r 1).2 = 0 := by
    by_contra hc
    have : (Bits.addLimb r 1).2 = 1 := by omega
    rw [this] at h1; omega
  split
  rename_i s cy heq
  have e1 : s = (Bits.addLimb r 1).1 := by rw [heq]
  have e2 : cy = (Bits.addLimb r 1).2 := by rw [heq]
  rw [e2, hcy]; simp [e1, h4]

theorem scanTop_le (l : List Nat) : Bits.scanTop l ≤ l.length := by
  unfold Bits.scanTop
  calc (l.reverse.dropWhile (· == 0)).length ≤ l.reverse.length := (List.dropWhile_sublist _).length_le
    _ = l.length := List.length_reverse


theorem and_le_right' (a b : Nat) : a &&& b ≤ b := Nat.and_le_right
theorem and_le_left' (a b : Nat) : a &&& b ≤ a := Nat.and_le_left
theorem andn_le_left (a b : Nat) : a &&& Bits.lnotL b ≤ a := Nat.and_le_left

theorem dropTopZero_cases (l : List Nat) : Bits.dropTopZero l = l ∨ (Bits.dropTopZero l).length + 1 = l.length := by
  unfold Bits.dropTopZero
  split
  · right
    cases l with
    | nil => simp at *
    | cons a as => simp
  · left; rfl

theorem iorNN_fit (a b : List Nat) (ha : Limbs a) (hb : Limbs b) (hane : a ≠ []) (hbne : b ≠ [])
    (ha1 : 1 ≤ val a) (hb1 : 1 ≤ val b) : (Bits.iorNN a b).mag.length ≤ min a.length b.length := by
  unfold Bits.iorNN
  simp only []
  set n := min a.length b.length with hn
  have hn1 : 1 ≤ n := by
    have : 1 ≤ a.length := by cases a <;> simp at hane ⊢
    have : 1 ≤ b.length := by cases b <;> simp at hbne ⊢
    omega
  set o1 := (Bits.subLimb (a.take n) 1).1 with ho1
  set o2 := (Bits.subLimb (b.take n) 1).1 with ho2
  have hl1 : o1.length = n := by rw [ho1, subLimb_len]; simp [hn]
  have hl2 : o2.length = n := by rw [ho2, subLimb_len]; simp [hn]
  have hrsle : Bits.scanTop (Bits.and_n o1 o2) ≤ n := by
    refine Nat.le_trans (scanTop_le _) ?_
    simp [Bits.and_n, hl1, hl2]
  set rs := Bits.scanTop (Bits.and_n o1 o2) with hrsdef
  have hlen : (Bits.and_n (o1.take rs) (o2.take rs)).length = rs := by
    simp [Bits.and_n, hl1, hl2]; omega
  split
  · rename_i hrs
    by_cases hlt : rs < n
    · refine Nat.le_trans (addOneGrow_len_le _) ?_
      rw [hlen]; omega
    · -- the scan kept all n limbs: no carry, because the shorter operand minus one is below B^n - 1
      have hrsn : rs = n := by omega
      have hr : Bits.and_n (o1.take rs) (o2.take rs) = Bits.and_n o1 o2 := by
        rw [hrsn, List.take_of_length_le (by omega), List.take_of_length_le (by omega)]
      rw [hr]
      have hrl : (Bits.and_n o1 o2).length = n := by simp [Bits.and_n, hl1, hl2]
      have hbound : val (Bits.and_n o1 o2) + 1 < B ^ n := by
        by_cases hab : a.length ≤ b.length
        · -- a is the shorter: a.take n = a
          have hta : a.take n = a := List.take_of_length_le (by omega)
          obtain ⟨hv, _, _⟩ := Bits.subLimb_noborrow a ha 1 (by rw [B_eq]; decide) hane ha1
          have h1 : val (Bits.and_n o1 o2) ≤ val o1 := val_zipWith_le_left _ and_le_left' _ _
          have h2 : val o1 = val a - 1 := by rw [ho1, hta]; exact hv
          have h3 := val_lt a ha
          have h4 : B ^ a.length = B ^ n := by congr 1; omega
          omega
        · have htb : b.take n = b := List.take_of_length_le (by omega)
          obtain ⟨hv, _, _⟩ := Bits.subLimb_noborrow b hb 1 (by rw [B_eq]; decide) hbne hb1
          have h1 : val (Bits.and_n o1 o2) ≤ val o2 := val_zipWith_le_right _ and_le_right' _ _
          have h2 : val o2 = val b - 1 := by rw [ho2, htb]; exact hv
          have h3 := val_lt b hb
          have h4 : B ^ b.length = B ^ n := by congr 1; omega
          omega
      have hLo2 : Limbs o2 := by
        rw [ho2]
        cases hbt : b.take n with
        | nil =>
          have : (b.take n).length = n := by simp [hn]
          rw [hbt] at this; simp at this; omega
        | cons x xs =>
          exact (Bits.subLimb_val x xs 1 (by rw [← hbt]; exact Limbs_take hb _) (by rw [B_eq]; decide)).2.2.1
      have hA := addOneGrow_len_eq (r := Bits.and_n o1 o2) (Limbs_zipWith_right _ and_le_right' hLo2)
        (by intro e; rw [e] at hrl; simp at hrl; omega) (by rw [hrl]; exact hbound)
      show (Bits.addOneGrow (Bits.and_n o1 o2)).length ≤ n
      rw [hA, hrl]
  · simp; omega

theorem iorPN_fit (a b : List Nat) (ha : Limbs a) (hb : Limbs b) (hbne : b ≠ []) (hb1 : 1 ≤ val b) :
    (Bits.iorPN a b).mag.length ≤ b.length := by
  unfold Bits.iorPN
  simp only []
  obtain ⟨hv, hLf, hlf⟩ := Bits.subLimb_noborrow b hb 1 (by rw [B_eq]; decide) hbne hb1
  set o2f := (Bits.subLimb b 1).1 with ho2f
  set o2 := Bits.dropTopZero o2f with ho2
  have hlb1 : 1 ≤ b.length := by cases b <;> simp at hbne ⊢
  have hblt := val_lt b hb
  have ho2len : o2.length ≤ b.length := by rw [← hlf]; exact dropTopZero_len_le _
  have hfull : o2.length = b.length → o2 = o2f := fun e => by
    rcases dropTopZero_cases o2f with h | h
    · exact h
    · rw [ho2] at e; omega
  split
  · rename_i hge
    set rs := Bits.scanTop (Bits.andn_n o2 a) with hrs
    have hrsle : rs ≤ o2.length := by
      refine Nat.le_trans (scanTop_le _) ?_
      simp [Bits.andn_n]; try omega
    have hlen : (Bits.andn_n (o2.take rs) (a.take rs)).length = rs := by
      simp [Bits.andn_n]; try omega
    split
    · by_cases hlt : rs < b.length
      · refine Nat.le_trans (addOneGrow_len_le _) ?_
        rw [hlen]; omega
      · have hrsb : rs = b.length := by omega
        have ho : o2 = o2f := hfull (by omega)
        have h1 : val (Bits.andn_n (o2.take rs) (a.take rs)) ≤ val (o2.take rs) :=
          val_zipWith_le_left _ andn_le_left _ _
        have h2 : o2.take rs = o2f := by rw [ho, List.take_of_length_le (by omega)]
        have h3 : val (o2.take rs) = val b - 1 := by rw [h2, hv]
        have hA := addOneGrow_len_eq (r := Bits.andn_n (o2.take rs) (a.take rs))
          (Limbs_zipWith_left _ andn_le_left (by rw [h2]; exact hLf))
          (by intro e; rw [e] at hlen; simp at hlen; omega)
          (by have hpow : B ^ rs = B ^ b.length := by rw [hrsb]
              rw [hlen, hpow]; omega)
        show (Bits.addOneGrow (Bits.andn_n (o2.take rs) (a.take rs))).length ≤ b.length
        rw [hA, hlen]; omega
    · simp; omega
  · rename_i hlt
    have hla : a.length < o2.length := by omega
    have hrlen : (Bits.andn_n o2 a ++ o2.drop a.length).length = o2.length := by
      simp [Bits.andn_n]; omega
    by_cases hsh : o2.length < b.length
    · refine Nat.le_trans (addOneGrow_len_le _) ?_
      rw [hrlen]; omega
    · have ho : o2 = o2f := hfull (by omega)
      have h1 : val (Bits.andn_n o2 a ++ o2.drop a.length) ≤ val o2 :=
        val_zipWith_append_le _ andn_le_left o2 a (by omega)
      have h3 : val o2 = val b - 1 := by rw [ho, hv]
      have hLo2 : Limbs o2 := by rw [ho]; exact hLf
      have hA := addOneGrow_len_eq (r := Bits.andn_n o2 a ++ o2.drop a.length)
        (Limbs_append.mpr ⟨Limbs_zipWith_left _ andn_le_left hLo2, Limbs_drop hLo2 _⟩)
        (by intro e; rw [e] at hrlen; simp at hrlen; omega)
        (by rw [hrlen]; have : o2.length = b.length := by omega
            rw [this]; omega)
      show (Bits.addOneGrow (Bits.andn_n o2 a ++ o2.drop a.length)).length ≤ b.length
      rw [hA, hrlen]; omega

theorem ior_fit (x y : Bits.Z) (hx : x.WF) (hy : y.WF) :
    (Bits.mpz_ior x y).mag.length ≤ (iorPlan x.neg x.mag y.neg y.mag).need := by
  obtain ⟨xn, xm⟩ := x
  obtain ⟨yn, ym⟩ := y
  unfold iorPlan Bits.mpz_ior
  cases xn <;> cases yn <;>
    simp only [Bool.and_true, Bool.and_false, Bool.false_eq_true, if_false, if_true, Bool.and_self, Bool.not_true,
      Bool.not_false]
  · unfold Bits.iorPP
    split
    · show (Bits.ior_n xm ym ++ xm.drop ym.length).length ≤ max xm.length ym.length
      simp only [Bits.ior_n, List.length_append, List.length_zipWith, List.length_drop]; omega
    · show (Bits.ior_n xm ym ++ ym.drop xm.length).length ≤ max xm.length ym.length
      simp only [Bits.ior_n, List.length_append, List.length_zipWith, List.length_drop]; omega
  · exact iorPN_fit xm ym hx.1 hy.1 (hy.2.2 rfl) (Bits.Z.WF.pos hy rfl)
  · exact iorPN_fit ym xm hy.1 hx.1 (hx.2.2 rfl) (Bits.Z.WF.pos hx rfl)
  · exact iorNN_fit xm ym hx.1 hy.1 (hx.2.2 rfl) (hy.2.2 rfl) (Bits.Z.WF.pos hx rfl) (Bits.Z.WF.pos hy rfl)

theorem mpz_ior_ok {s : St} (h : Inv s) {res op1 op2 : Nat} (hr : res < s.nv) (h1 : op1 < s.nv) (h2 : op2 < s.nv) :
    ∃ s', mpz_ior res op1 op2 s = .ok s' ∧ Res s s' res (Int.lor (s.value op1) (s.value op2)) := by
  have := logic_ok iorPlan Bits.mpz_ior (fun n1 a n2 b => by unfold iorPlan; split <;> [rfl; (split <;> [rfl; (split <;> rfl)])])
    (fun x y hx hy => (Bits.mpz_ior_lor x y hx hy).2) ior_fit h hr h1 h2
  rw [(Bits.mpz_ior_lor _ _ (Zof_WF h h1) (Zof_WF h h2)).1, Zof_toInt, Zof_toInt, Bits.lor_eq] at this
  exact this

end Mpir.AliasMem
