/- hgcd_matrix_apply (hgcd_reduce.c): the products are taken modulo B^modn - 1 (mpn_mulmod_bnm1) after folding the
   operands with an end-around carry; the difference with end-around borrow is nevertheless the EXACT entry of
   M⁻¹(a; b), because that entry is positive and shorter than modn limbs. -/
import MpirProofs.Lemmas.HgcdMatrix
import Mathlib.Data.Nat.ModEq
namespace Mpir.Hgcd
open Mpir Mpir.Gcd

theorem pow_modn_ge (modn : Nat) (hm : 1 ≤ modn) : 2 ≤ B ^ modn := by
  have h1 : B ^ 1 ≤ B ^ modn := Nat.pow_le_pow_right B_pos hm
  have h2 : 2 ≤ B := by rw [B_eq]; norm_num
  rw [pow_one] at h1; omega

/-- P ≡ 1 (mod P - 1) -/
theorem modEq_P (P : Nat) (hP : 2 ≤ P) : P ≡ 1 [MOD P - 1] := by
  have : P = 1 + (P - 1) := by omega
  conv_lhs => rw [this]
  exact Nat.add_modEq_right

/-- the fold `cy = mpn_add (ap, ap, modn, ap + modn, n - modn); MPN_INCR_U (ap, modn, cy)` (n ≤ 2·modn): the
    result fits modn limbs and is congruent to a modulo B^modn - 1 -/
theorem foldBnm1_spec (a modn : Nat) (hm : 1 ≤ modn) (ha : a < B ^ modn * B ^ modn) :
    foldBnm1 a modn < B ^ modn ∧ foldBnm1 a modn ≡ a [MOD B ^ modn - 1] := by
  have hP := pow_modn_ge modn hm
  unfold foldBnm1
  simp only
  generalize B ^ modn = P at *
  have hlo : a % P < P := Nat.mod_lt _ (by omega)
  have hhi : a / P < P := Nat.div_lt_of_lt_mul ha
  have hda : a = a % P + P * (a / P) := (Nat.mod_add_div a P).symm
  generalize a % P = lo at *
  generalize a / P = hi at *
  have h1 : P ≡ 1 [MOD P - 1] := modEq_P P hP
  have hcong : lo + hi ≡ a [MOD P - 1] := by
    rw [hda]
    have : P * hi ≡ 1 * hi [MOD P - 1] := Nat.ModEq.mul_right hi h1
    rw [Nat.one_mul] at this
    exact Nat.ModEq.add_left lo this.symm
  by_cases hlt : lo + hi < P
  · have e1 : (lo + hi) % P = lo + hi := Nat.mod_eq_of_lt hlt
    have e2 : (lo + hi) / P = 0 := Nat.div_eq_of_lt hlt
    rw [e1, e2, Nat.add_zero, e1]
    exact ⟨hlt, hcong⟩
  · have e2 : (lo + hi) / P = 1 := by
      apply Nat.div_eq_of_lt_le <;> omega
    have e1 : (lo + hi) % P = lo + hi - P := by
      have := Nat.div_add_mod (lo + hi) P
      rw [e2] at this; omega
    rw [e1, e2]
    have hlt2 : lo + hi - P + 1 < P := by omega
    rw [Nat.mod_eq_of_lt hlt2]
    refine ⟨hlt2, ?_⟩
    have : lo + hi = (lo + hi - P + 1) + (P - 1) := by omega
    have hc2 : lo + hi - P + 1 ≡ lo + hi [MOD P - 1] := by
      conv_rhs => rw [this]
      exact Nat.add_modEq_right.symm
    exact hc2.trans hcong

/-- **wrap-around exactness**: t, s are ANY representatives (below B^modn) of X, Y modulo B^modn - 1 — what
    mpn_mulmod_bnm1 leaves for the two products —, X - Y = x with 0 < x < B^modn - 1.  Then
    `cy = mpn_sub_n (tp, tp, sp, modn); MPN_DECR_U (tp, modn, cy)` produces x itself. -/
theorem wrap_exact (t s modn X Y x : Nat) (hm : 1 ≤ modn) (ht : t < B ^ modn) (hs : s < B ^ modn)
    (hX : t ≡ X [MOD B ^ modn - 1]) (hY : s ≡ Y [MOD B ^ modn - 1]) (hx : X = Y + x) (hx0 : 0 < x)
    (hxP : x < B ^ modn - 1) : subBnm1 t s modn = x := by
  have hP := pow_modn_ge modn hm
  unfold subBnm1
  generalize B ^ modn = P at *
  have h1 : P ≡ 1 [MOD P - 1] := modEq_P P hP
  -- the result r satisfies r + s ≡ t and r ≤ P - 1
  have key : ∀ r, r + s ≡ t [MOD P - 1] → r ≤ P - 1 → r = x := by
    intro r hr hle
    have h2 : r + s ≡ x + s [MOD P - 1] := by
      have : t ≡ Y + x [MOD P - 1] := by rw [← hx]; exact hX
      have h3 : Y + x ≡ s + x [MOD P - 1] := Nat.ModEq.add_right x hY.symm
      rw [Nat.add_comm s x] at h3
      exact hr.trans (this.trans h3)
    have h4 : r ≡ x [MOD P - 1] := Nat.ModEq.add_right_cancel' s h2
    by_cases hrP : r = P - 1
    · exfalso
      rw [hrP] at h4
      have : (P - 1) % (P - 1) = x % (P - 1) := h4
      rw [Nat.mod_self, Nat.mod_eq_of_lt hxP] at this
      omega
    · have : r % (P - 1) = x % (P - 1) := h4
      rw [Nat.mod_eq_of_lt (by omega), Nat.mod_eq_of_lt hxP] at this
      exact this
  split
  · rename_i hle
    apply key
    · rw [Nat.sub_add_cancel hle]
    · omega
  · rename_i hle
    have e : t + P - s + P - 1 = (t + P - s - 1) + P := by omega
    rw [e, Nat.add_mod_right, Nat.mod_eq_of_lt (by omega)]
    apply key
    · have : t + P - s - 1 + s = t + (P - 1) := by omega
      rw [this]
      exact Nat.add_modEq_right
    · omega

end Mpir.Hgcd
