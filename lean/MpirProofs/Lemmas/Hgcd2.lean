/- mpn_hgcd2 (model `hgcd2` of mpn/generic/hgcd2.c) satisfies the contract the Lehmer loops need
   (`Hgcd2Contract`): the returned matrix M is unimodular, not the identity, and M⁻¹ applied to ANY
   pair whose (normalised) top two limbs are the inputs stays positive and loses at most one limb.

   Structure (follows hgcd2.c):
   * `MRel m x y X Y`: M·(x; y) = (X; Y) with det M = 1 — the exact relation kept by the double
     precision loop on the 128-bit values (each iteration multiplies M by (1 q; 0 1) or (1 0; q 1)).
   * `trunc_lift`: if N·(s; t) = (S; T) on truncated values, then N⁻¹ applied to any extension
     (K·S + r_S; K·T + r_T) by lower digits is still non-negative and ≥ K·(s - n01), K·(t - n10)
     (the error terms are bounded by the matrix entries).  Used twice: single precision phase →
     128-bit values (K = 2^32), and 128-bit values → the full numbers (K = B^(n-2)).
   * `hgcd2Loop_post`: the four program points keep their invariants and every exit yields `Post`:
     M·(x; y) = (A₀; B₀) exactly for some x, y ≥ 3·2^63, row sums of M below 2^63 (no wrap-around).
   * `top2_spec`: the normalised top two limbs are ⌊a·2^s / B^(n-2)⌋.
-/
import MpirProofs.Lemmas.GcdLehmer2
import MpirProofs.Lemmas.GcdDiv
import Mathlib.Tactic.LinearCombination
import Mathlib.Tactic.Zify
namespace Mpir.Gcd
open Mpir

/-! ### the exact matrix relation -/

/-- M·(x; y) = (X; Y) and det M = 1 -/
def MRel (m : M1) (x y X Y : Nat) : Prop :=
  m.u00 * m.u11 = m.u01 * m.u10 + 1 ∧ X = m.u00 * x + m.u01 * y ∧ Y = m.u10 * x + m.u11 * y

/-- a -= q·b, M := M·(1 q; 0 1) -/
theorem mrel_subA {m : M1} {x y X Y : Nat} (q : Nat) (h : MRel m x y X Y) (hq : q * y ≤ x) :
    MRel ⟨m.u00, m.u01 + q * m.u00, m.u10, m.u11 + q * m.u10⟩ (x - q * y) y X Y := by
  obtain ⟨hd, hX, hY⟩ := h
  obtain ⟨x', rfl⟩ : ∃ x', x = x' + q * y := ⟨x - q * y, by omega⟩
  rw [Nat.add_sub_cancel]
  refine ⟨?_, ?_, ?_⟩
  · show m.u00 * (m.u11 + q * m.u10) = (m.u01 + q * m.u00) * m.u10 + 1
    rw [Nat.mul_add, hd]; ring
  · show X = m.u00 * x' + (m.u01 + q * m.u00) * y
    rw [hX]; ring
  · show Y = m.u10 * x' + (m.u11 + q * m.u10) * y
    rw [hY]; ring

/-- b -= q·a, M := M·(1 0; q 1) -/
theorem mrel_subB {m : M1} {x y X Y : Nat} (q : Nat) (h : MRel m x y X Y) (hq : q * x ≤ y) :
    MRel ⟨m.u00 + q * m.u01, m.u01, m.u10 + q * m.u11, m.u11⟩ x (y - q * x) X Y := by
  obtain ⟨hd, hX, hY⟩ := h
  obtain ⟨y', rfl⟩ : ∃ y', y = y' + q * x := ⟨y - q * x, by omega⟩
  rw [Nat.add_sub_cancel]
  refine ⟨?_, ?_, ?_⟩
  · show (m.u00 + q * m.u01) * m.u11 = m.u01 * (m.u10 + q * m.u11) + 1
    rw [Nat.add_mul, hd]; ring
  · show X = (m.u00 + q * m.u01) * x + m.u01 * y'
    rw [hX]; ring
  · show Y = (m.u10 + q * m.u11) * x + m.u11 * y'
    rw [hY]; ring

theorem mrel_pos {m : M1} {x y X Y : Nat} (h : MRel m x y X Y) : 1 ≤ m.u00 ∧ 1 ≤ m.u11 := by
  obtain ⟨hd, _, _⟩ := h
  constructor
  · rcases Nat.eq_zero_or_pos m.u00 with h | h
    · rw [h] at hd; simp at hd
    · exact h
  · rcases Nat.eq_zero_or_pos m.u11 with h | h
    · rw [h] at hd; simp at hd
    · exact h

theorem mrel_le {m : M1} {x y X Y : Nat} (h : MRel m x y X Y) : x ≤ X ∧ y ≤ Y := by
  obtain ⟨h0, h1⟩ := mrel_pos h
  obtain ⟨_, hX, hY⟩ := h
  constructor
  · calc x ≤ m.u00 * x := Nat.le_mul_of_pos_left _ h0
      _ ≤ X := by omega
  · calc y ≤ m.u11 * y := Nat.le_mul_of_pos_left _ h1
      _ ≤ Y := by omega

/-- entries of M are below L when x, y ≥ K and X, Y < L·K -/
theorem mrel_entries_lt {m : M1} {x y X Y K L : Nat} (h : MRel m x y X Y) (hx : K ≤ x) (hy : K ≤ y)
    (hX : X < L * K) (hY : Y < L * K) :
    m.u00 + m.u01 < L ∧ m.u10 + m.u11 < L := by
  obtain ⟨_, eX, eY⟩ := h
  constructor
  · by_contra hc
    have h1 : L * K ≤ (m.u00 + m.u01) * K := Nat.mul_le_mul_right _ (by omega)
    have h2 : m.u00 * K ≤ m.u00 * x := Nat.mul_le_mul_left _ hx
    have h3 : m.u01 * K ≤ m.u01 * y := Nat.mul_le_mul_left _ hy
    rw [Nat.add_mul] at h1
    omega
  · by_contra hc
    have h1 : L * K ≤ (m.u10 + m.u11) * K := Nat.mul_le_mul_right _ (by omega)
    have h2 : m.u10 * K ≤ m.u10 * x := Nat.mul_le_mul_left _ hx
    have h3 : m.u11 * K ≤ m.u11 * y := Nat.mul_le_mul_left _ hy
    rw [Nat.add_mul] at h1
    omega

/-- matrix product -/
def mmul (m n : M1) : M1 :=
  ⟨m.u00 * n.u00 + m.u01 * n.u10, m.u00 * n.u01 + m.u01 * n.u11,
   m.u10 * n.u00 + m.u11 * n.u10, m.u10 * n.u01 + m.u11 * n.u11⟩

theorem mrel_comp {m n : M1} {x y X Y X' Y' : Nat} (h1 : MRel m X Y X' Y') (h2 : MRel n x y X Y) :
    MRel (mmul m n) x y X' Y' := by
  obtain ⟨d1, eX', eY'⟩ := h1
  obtain ⟨d2, eX, eY⟩ := h2
  refine ⟨?_, ?_, ?_⟩
  · show (m.u00 * n.u00 + m.u01 * n.u10) * (m.u10 * n.u01 + m.u11 * n.u11)
      = (m.u00 * n.u01 + m.u01 * n.u11) * (m.u10 * n.u00 + m.u11 * n.u10) + 1
    zify at d1 d2 ⊢
    linear_combination ((n.u00 : ℤ) * n.u11 - n.u01 * n.u10) * d1 + d2
  · show X' = (m.u00 * n.u00 + m.u01 * n.u10) * x + (m.u00 * n.u01 + m.u01 * n.u11) * y
    rw [eX', eX, eY]; ring
  · show Y' = (m.u10 * n.u00 + m.u11 * n.u10) * x + (m.u10 * n.u01 + m.u11 * n.u11) * y
    rw [eY', eX, eY]; ring

/-- Truncation: N·(s; t) = (S; T), and (X; Y) = (K·S + rS; K·T + rT) extends (S; T) by lower digits.
    If the off-diagonal entries are below s resp. t, then N⁻¹·(X; Y) is non-negative, with explicit
    lower bounds. -/
theorem trunc_lift {n : M1} {s t S T : Nat} (K rS rT : Nat) (h : MRel n s t S T)
    (hrS : rS ≤ K) (hrT : rT ≤ K) (h1 : n.u01 ≤ s) (h2 : n.u10 ≤ t) :
    ∃ x y, MRel n x y (K * S + rS) (K * T + rT) ∧ K * (s - n.u01) ≤ x ∧ K * (t - n.u10) ≤ y ∧
      x + n.u01 * rT = K * s + n.u11 * rS ∧ y + n.u10 * rS = K * t + n.u00 * rT := by
  obtain ⟨hd, eS, eT⟩ := h
  have b1 : n.u01 * rT ≤ K * s := by
    calc n.u01 * rT ≤ s * K := Nat.mul_le_mul h1 hrT
      _ = K * s := Nat.mul_comm _ _
  have b2 : n.u10 * rS ≤ K * t := by
    calc n.u10 * rS ≤ t * K := Nat.mul_le_mul h2 hrS
      _ = K * t := Nat.mul_comm _ _
  obtain ⟨x, hx⟩ : ∃ x, x + n.u01 * rT = K * s + n.u11 * rS := ⟨K * s + n.u11 * rS - n.u01 * rT, by omega⟩
  obtain ⟨y, hy⟩ : ∃ y, y + n.u10 * rS = K * t + n.u00 * rT := ⟨K * t + n.u00 * rT - n.u10 * rS, by omega⟩
  refine ⟨x, y, ⟨hd, ?_, ?_⟩, ?_, ?_, hx, hy⟩
  · rw [eS]; zify at hd hx hy ⊢
    linear_combination (-(n.u00 : ℤ)) * hx - n.u01 * hy - rS * hd
  · rw [eT]; zify at hd hx hy ⊢
    linear_combination (-(n.u10 : ℤ)) * hx - n.u11 * hy - rT * hd
  · have : K * (s - n.u01) + n.u01 * rT ≤ K * s := by
      have e : K * s = K * (s - n.u01) + K * n.u01 := by rw [← Nat.mul_add]; congr 1; omega
      have : n.u01 * rT ≤ n.u01 * K := Nat.mul_le_mul_left _ hrT
      rw [Nat.mul_comm n.u01 K] at this
      omega
    omega
  · have : K * (t - n.u10) + n.u10 * rS ≤ K * t := by
      have e : K * t = K * (t - n.u10) + K * n.u10 := by rw [← Nat.mul_add]; congr 1; omega
      have : n.u10 * rS ≤ n.u10 * K := Nat.mul_le_mul_left _ hrS
      rw [Nat.mul_comm n.u10 K] at this
      omega
    omega

theorem mrel_inverse {m : M1} {x y X Y : Nat} (h : MRel m x y X Y) :
    m.u11 * X = m.u01 * Y + x ∧ m.u00 * Y = m.u10 * X + y := by
  obtain ⟨hd, eX, eY⟩ := h
  constructor
  · rw [eX, eY]; zify at hd ⊢; linear_combination (x : ℤ) * hd
  · rw [eX, eY]; zify at hd ⊢; linear_combination (y : ℤ) * hd

/-! ### invariants of the four program points -/

def NonId (m : M1) : Prop := m.u01 ≠ 0 ∨ m.u10 ≠ 0

/-- what every `return 1` of mpn_hgcd2 guarantees for the 128-bit inputs (A0, B0): the matrix has
    determinant 1, is not the identity, M·(x; y) = (A0; B0) EXACTLY for naturals x, y ≥ 3·2^63, and
    the row sums are below 2^63 (entries fit GMP_LIMB_BITS - 1 bits; in particular none ever wrapped). -/
def Post (A0 B0 : Nat) (m : M1) : Prop :=
  ∃ x y, MRel m x y A0 B0 ∧ 3 * 2 ^ 63 ≤ x ∧ 3 * 2 ^ 63 ≤ y ∧ NonId m ∧
    m.u00 + m.u01 < 2 ^ 63 ∧ m.u10 + m.u11 < 2 ^ 63

/-- double precision loop: (a; b) = M⁻¹(A0; B0) exactly, both at least two limbs + 1 bit -/
def DInv (A0 B0 a b : Nat) (m : M1) : Prop :=
  MRel m a b A0 B0 ∧ 2 * B ≤ a ∧ 2 * B ≤ b ∧ NonId m

/-- single precision loop: M = M₁·N where M₁ is the matrix at the switch, (a1; b1) = M₁⁻¹(A0; B0)
    the exact values at the switch (below 2^96), and N·(as; bs) = the truncated values
    (a1 >> 32; b1 >> 32), as, bs ≥ 2^33. -/
def SInv (A0 B0 as bs : Nat) (m : M1) : Prop :=
  ∃ (m1 n : M1) (a1 b1 : Nat), MRel m1 a1 b1 A0 B0 ∧ a1 < 2 ^ 96 ∧ b1 < 2 ^ 96 ∧
    MRel n as bs (a1 / 2 ^ 32) (b1 / 2 ^ 32) ∧ m = mmul m1 n ∧ 2 ^ 33 ≤ as ∧ 2 ^ 33 ≤ bs ∧ NonId m

def HInv (A0 B0 : Nat) : HPt → Nat → Nat → M1 → Prop
  | .dA, a, b, m => DInv A0 B0 a b m ∧ b / B ≤ a / B
  | .dB, a, b, m => DInv A0 B0 a b m ∧ a / B ≤ b / B
  | .sA, a, b, m => SInv A0 B0 a b m ∧ b ≤ a
  | .sB, a, b, m => SInv A0 B0 a b m ∧ a ≤ b

theorem dinv_post {A0 B0 a b : Nat} {m : M1} (hA : A0 < B * B) (hB : B0 < B * B)
    (h : DInv A0 B0 a b m) : Post A0 B0 m := by
  obtain ⟨hr, ha, hb, hn⟩ := h
  obtain ⟨e1, e2⟩ := mrel_entries_lt (L := 2 ^ 63) hr ha hb (by rw [B_eq] at hA ⊢; omega) (by rw [B_eq] at hB ⊢; omega)
  refine ⟨a, b, hr, ?_, ?_, hn, e1, e2⟩ <;> (simp only [B_eq] at ha hb; omega)

/-- row sums of M₁·N: (n00 + n01)·2^65 ≤ a1 and (n10 + n11)·2^65 ≤ b1 because the truncated single
    precision values never drop below 2^33 -/
theorem sinv_rows {m1 n : M1} {a1 b1 as bs A0 B0 : Nat} (hA : A0 < B * B) (hB : B0 < B * B)
    (hr1 : MRel m1 a1 b1 A0 B0) (hrn : MRel n as bs (a1 / 2 ^ 32) (b1 / 2 ^ 32))
    (has : 2 ^ 33 ≤ as) (hbs : 2 ^ 33 ≤ bs) :
    (mmul m1 n).u00 + (mmul m1 n).u01 < 2 ^ 63 ∧ (mmul m1 n).u10 + (mmul m1 n).u11 < 2 ^ 63 := by
  obtain ⟨_, eS, eT⟩ := hrn
  obtain ⟨_, eA, eB⟩ := hr1
  have sa : 2 ^ 65 * (n.u00 + n.u01) ≤ a1 := by
    have h1 : 2 ^ 33 * n.u00 ≤ n.u00 * as := by rw [Nat.mul_comm]; exact Nat.mul_le_mul_left _ has
    have h2 : 2 ^ 33 * n.u01 ≤ n.u01 * bs := by rw [Nat.mul_comm]; exact Nat.mul_le_mul_left _ hbs
    omega
  have sb : 2 ^ 65 * (n.u10 + n.u11) ≤ b1 := by
    have h1 : 2 ^ 33 * n.u10 ≤ n.u10 * as := by rw [Nat.mul_comm]; exact Nat.mul_le_mul_left _ has
    have h2 : 2 ^ 33 * n.u11 ≤ n.u11 * bs := by rw [Nat.mul_comm]; exact Nat.mul_le_mul_left _ hbs
    omega
  rw [B_eq] at hA hB
  constructor
  · show m1.u00 * n.u00 + m1.u01 * n.u10 + (m1.u00 * n.u01 + m1.u01 * n.u11) < 2 ^ 63
    have h1 : m1.u00 * (2 ^ 65 * (n.u00 + n.u01)) ≤ m1.u00 * a1 := Nat.mul_le_mul_left _ sa
    have h2 : m1.u01 * (2 ^ 65 * (n.u10 + n.u11)) ≤ m1.u01 * b1 := Nat.mul_le_mul_left _ sb
    have e : 2 ^ 65 * (m1.u00 * n.u00 + m1.u01 * n.u10 + (m1.u00 * n.u01 + m1.u01 * n.u11))
        = m1.u00 * (2 ^ 65 * (n.u00 + n.u01)) + m1.u01 * (2 ^ 65 * (n.u10 + n.u11)) := by ring
    omega
  · show m1.u10 * n.u00 + m1.u11 * n.u10 + (m1.u10 * n.u01 + m1.u11 * n.u11) < 2 ^ 63
    have h1 : m1.u10 * (2 ^ 65 * (n.u00 + n.u01)) ≤ m1.u10 * a1 := Nat.mul_le_mul_left _ sa
    have h2 : m1.u11 * (2 ^ 65 * (n.u10 + n.u11)) ≤ m1.u11 * b1 := Nat.mul_le_mul_left _ sb
    have e : 2 ^ 65 * (m1.u10 * n.u00 + m1.u11 * n.u10 + (m1.u10 * n.u01 + m1.u11 * n.u11))
        = m1.u10 * (2 ^ 65 * (n.u00 + n.u01)) + m1.u11 * (2 ^ 65 * (n.u10 + n.u11)) := by ring
    omega

theorem sinv_post {A0 B0 as bs : Nat} {m : M1} (hA : A0 < B * B) (hB : B0 < B * B)
    (h : SInv A0 B0 as bs m) : Post A0 B0 m := by
  obtain ⟨m1, n, a1, b1, hr1, ha1, hb1, hrn, rfl, has, hbs, hn⟩ := h
  obtain ⟨r1, r2⟩ := sinv_rows hA hB hr1 hrn has hbs
  have hS : a1 / 2 ^ 32 < 2 ^ 31 * 2 ^ 33 := by omega
  have hT : b1 / 2 ^ 32 < 2 ^ 31 * 2 ^ 33 := by omega
  obtain ⟨e1, e2⟩ := mrel_entries_lt hrn has hbs hS hT
  obtain ⟨x, y, hxy, hx, hy, _, _⟩ := trunc_lift (2 ^ 32) (a1 % 2 ^ 32) (b1 % 2 ^ 32) hrn
    (le_of_lt (Nat.mod_lt _ (by norm_num))) (le_of_lt (Nat.mod_lt _ (by norm_num))) (by omega) (by omega)
  rw [Nat.div_add_mod, Nat.div_add_mod] at hxy
  refine ⟨x, y, mrel_comp hr1 hxy, ?_, ?_, hn, r1, r2⟩
  · have : 2 ^ 32 * (2 ^ 33 - 2 ^ 31) ≤ 2 ^ 32 * (as - n.u01) := Nat.mul_le_mul_left _ (by omega)
    omega
  · have : 2 ^ 32 * (2 ^ 33 - 2 ^ 31) ≤ 2 ^ 32 * (bs - n.u10) := Nat.mul_le_mul_left _ (by omega)
    omega

theorem post_entries {A0 B0 : Nat} {m : M1} (h : Post A0 B0 m) :
    m.u00 + m.u01 < B ∧ m.u10 + m.u11 < B := by
  obtain ⟨x, y, _, _, _, _, r1, r2⟩ := h
  rw [B_eq]; omega

/-- the C's wrapping update of the second column is the exact one -/
theorem updA_eq {A0 B0 : Nat} {m : M1} {q : Nat}
    (h : Post A0 B0 ⟨m.u00, m.u01 + q * m.u00, m.u10, m.u11 + q * m.u10⟩) :
    ({ m with u01 := (m.u01 + q * m.u00) % B, u11 := (m.u11 + q * m.u10) % B } : M1)
      = ⟨m.u00, m.u01 + q * m.u00, m.u10, m.u11 + q * m.u10⟩ := by
  obtain ⟨e1, e2⟩ := post_entries h
  simp only at e1 e2
  rw [Nat.mod_eq_of_lt (by omega), Nat.mod_eq_of_lt (by omega)]

theorem updB_eq {A0 B0 : Nat} {m : M1} {q : Nat}
    (h : Post A0 B0 ⟨m.u00 + q * m.u01, m.u01, m.u10 + q * m.u11, m.u11⟩) :
    ({ m with u00 := (m.u00 + q * m.u01) % B, u10 := (m.u10 + q * m.u11) % B } : M1)
      = ⟨m.u00 + q * m.u01, m.u01, m.u10 + q * m.u11, m.u11⟩ := by
  obtain ⟨e1, e2⟩ := post_entries h
  simp only at e1 e2
  rw [Nat.mod_eq_of_lt (by omega), Nat.mod_eq_of_lt (by omega)]

theorem nonId_subA {m : M1} (q : Nat) (h : NonId m) :
    NonId ⟨m.u00, m.u01 + q * m.u00, m.u10, m.u11 + q * m.u10⟩ := by
  rcases h with h | h
  · left; show m.u01 + q * m.u00 ≠ 0; omega
  · right; exact h

theorem nonId_subB {m : M1} (q : Nat) (h : NonId m) :
    NonId ⟨m.u00 + q * m.u01, m.u01, m.u10 + q * m.u11, m.u11⟩ := by
  rcases h with h | h
  · left; exact h
  · right; show m.u10 + q * m.u11 ≠ 0; omega

theorem dinv_subA {A0 B0 a b : Nat} {m : M1} (q : Nat) (h : DInv A0 B0 a b m) (hq : q * b ≤ a)
    (hT : 2 * B ≤ a - q * b) :
    DInv A0 B0 (a - q * b) b ⟨m.u00, m.u01 + q * m.u00, m.u10, m.u11 + q * m.u10⟩ := by
  obtain ⟨hr, _, hb, hn⟩ := h
  exact ⟨mrel_subA q hr hq, hT, hb, nonId_subA q hn⟩

theorem dinv_subB {A0 B0 a b : Nat} {m : M1} (q : Nat) (h : DInv A0 B0 a b m) (hq : q * a ≤ b)
    (hT : 2 * B ≤ b - q * a) :
    DInv A0 B0 a (b - q * a) ⟨m.u00 + q * m.u01, m.u01, m.u10 + q * m.u11, m.u11⟩ := by
  obtain ⟨hr, ha, _, hn⟩ := h
  exact ⟨mrel_subB q hr hq, ha, hT, nonId_subB q hn⟩

theorem mmul_subA (m1 n : M1) (q : Nat) :
    (⟨(mmul m1 n).u00, (mmul m1 n).u01 + q * (mmul m1 n).u00, (mmul m1 n).u10,
      (mmul m1 n).u11 + q * (mmul m1 n).u10⟩ : M1)
      = mmul m1 ⟨n.u00, n.u01 + q * n.u00, n.u10, n.u11 + q * n.u10⟩ := by
  simp only [mmul, M1.mk.injEq]
  refine ⟨trivial, ?_, trivial, ?_⟩ <;> ring

theorem mmul_subB (m1 n : M1) (q : Nat) :
    (⟨(mmul m1 n).u00 + q * (mmul m1 n).u01, (mmul m1 n).u01, (mmul m1 n).u10 + q * (mmul m1 n).u11,
      (mmul m1 n).u11⟩ : M1)
      = mmul m1 ⟨n.u00 + q * n.u01, n.u01, n.u10 + q * n.u11, n.u11⟩ := by
  simp only [mmul, M1.mk.injEq]
  refine ⟨?_, trivial, ?_, trivial⟩ <;> ring

theorem sinv_subA {A0 B0 a b : Nat} {m : M1} (q : Nat) (h : SInv A0 B0 a b m) (hq : q * b ≤ a)
    (hT : 2 ^ 33 ≤ a - q * b) :
    SInv A0 B0 (a - q * b) b ⟨m.u00, m.u01 + q * m.u00, m.u10, m.u11 + q * m.u10⟩ := by
  obtain ⟨m1, n, a1, b1, hr1, ha1, hb1, hrn, rfl, _, hbs, hn⟩ := h
  exact ⟨m1, _, a1, b1, hr1, ha1, hb1, mrel_subA q hrn hq, mmul_subA m1 n q, hT, hbs, nonId_subA q hn⟩

theorem sinv_subB {A0 B0 a b : Nat} {m : M1} (q : Nat) (h : SInv A0 B0 a b m) (hq : q * a ≤ b)
    (hT : 2 ^ 33 ≤ b - q * a) :
    SInv A0 B0 a (b - q * a) ⟨m.u00 + q * m.u01, m.u01, m.u10 + q * m.u11, m.u11⟩ := by
  obtain ⟨m1, n, a1, b1, hr1, ha1, hb1, hrn, rfl, has, _, hn⟩ := h
  exact ⟨m1, _, a1, b1, hr1, ha1, hb1, mrel_subB q hrn hq, mmul_subB m1 n q, has, hT, nonId_subB q hn⟩

theorem sinv_lt {A0 B0 a b : Nat} {m : M1} (h : SInv A0 B0 a b m) : a < B ∧ b < B := by
  obtain ⟨m1, n, a1, b1, _, ha1, hb1, hrn, _, _, _, _⟩ := h
  obtain ⟨l1, l2⟩ := mrel_le hrn
  rw [B_eq]; omega

/-- "switch to single precision" (hgcd2.c:269, 312) -/
theorem dinv_switch {A0 B0 a b : Nat} {m : M1} (h : DInv A0 B0 a b m) (ha : a / B < HALF) (hb : b / B < HALF) :
    SInv A0 B0 (((a / B) <<< 32) + ((a % B) >>> 32)) (((b / B) <<< 32) + ((b % B) >>> 32)) m := by
  have ea : ((a / B) <<< 32) + ((a % B) >>> 32) = a / 2 ^ 32 := by
    rw [Nat.shiftLeft_eq, Nat.shiftRight_eq_div_pow, B_eq]; omega
  have eb : ((b / B) <<< 32) + ((b % B) >>> 32) = b / 2 ^ 32 := by
    rw [Nat.shiftLeft_eq, Nat.shiftRight_eq_div_pow, B_eq]; omega
  rw [ea, eb]
  obtain ⟨hr, h2a, h2b, hn⟩ := h
  simp only [B_eq, HALF] at ha hb h2a h2b
  refine ⟨m, ⟨1, 0, 0, 1⟩, a, b, hr, by omega, by omega, ⟨rfl, by simp, by simp⟩, ?_, by omega, by omega, hn⟩
  cases m; simp [mmul]

/-- division facts used at each `div1`/`div2` call: x' = x - y (already subtracted once), then
    q = x' / y, r = x' % y -/
theorem divstep_facts (x y : Nat) (hy : 0 < y) (hle : y ≤ x) :
    ((x - y) / y) * y ≤ x ∧ x - ((x - y) / y) * y = (x - y) % y + y ∧
    ((x - y) / y + 1) * y ≤ x ∧ x - ((x - y) / y + 1) * y = (x - y) % y ∧ (x - y) % y < y := by
  have e := Nat.div_add_mod (x - y) y
  have hr := Nat.mod_lt (x - y) hy
  generalize (x - y) / y = q at *
  generalize (x - y) % y = r at *
  have e1 : (q + 1) * y = y * q + y := by ring
  have e2 : q * y = y * q := Nat.mul_comm _ _
  omega

/-! ### the loop -/

section loop
variable {A0 B0 : Nat} (hA : A0 < B * B) (hB : B0 < B * B)
include hA hB

theorem hinv_post {pt : HPt} {a b : Nat} {m : M1} (h : HInv A0 B0 pt a b m) : Post A0 B0 m := by
  cases pt
  · exact dinv_post hA hB h.1
  · exact dinv_post hA hB h.1
  · exact sinv_post hA hB h.1
  · exact sinv_post hA hB h.1

theorem loop_dA {f a b : Nat} {m : M1}
    (ih : ∀ pt a b m, HInv A0 B0 pt a b m → Post A0 B0 (hgcd2Loop f pt a b m))
    (h : HInv A0 B0 .dA a b m) : Post A0 B0 (hgcd2Loop (f + 1) .dA a b m) := by
  obtain ⟨hd, hord⟩ := h
  have hd' := hd
  obtain ⟨hr, h2a, h2b, hn⟩ := hd'
  obtain ⟨la, lb⟩ := mrel_le hr
  have haBB : a < B * B := lt_of_le_of_lt la hA
  have hbBB : b < B * B := lt_of_le_of_lt lb hB
  unfold hgcd2Loop
  dsimp only
  by_cases e1 : a / B = b / B
  · rw [if_pos e1]; exact dinv_post hA hB hd
  rw [if_neg e1]
  have hlt : b < a := Nat.lt_of_div_lt_div (by omega : b / B < a / B)
  by_cases e2 : a / B < HALF
  · rw [if_pos e2]
    exact ih .sA _ _ _ ⟨dinv_switch hd e2 (by omega), by
      have : b / 2 ^ 32 ≤ a / 2 ^ 32 := Nat.div_le_div_right (le_of_lt hlt)
      rw [Nat.shiftLeft_eq, Nat.shiftRight_eq_div_pow, Nat.shiftLeft_eq, Nat.shiftRight_eq_div_pow]
      simp only [B_eq] at *; omega⟩
  rw [if_neg e2]
  by_cases e3 : (a - b) / B < 2
  · rw [if_pos e3]; exact dinv_post hA hB hd
  rw [if_neg e3]
  have h2ab : 2 * B ≤ a - b := by simp only [B_eq] at *; omega
  by_cases e4 : (a - b) / B ≤ b / B
  · rw [if_pos e4]
    have hd1 := dinv_subA 1 hd (by omega) (by rw [Nat.one_mul]; exact h2ab)
    simp only [Nat.one_mul] at hd1
    have hu := updA_eq (q := 1) (by simp only [Nat.one_mul]; exact dinv_post hA hB hd1)
    simp only [Nat.one_mul] at hu
    rw [hu]
    exact ih .dB _ _ _ ⟨hd1, e4⟩
  rw [if_neg e4]
  have hb0 : B ≤ b := by omega
  have hdiv := div2_spec (a - b) b (by omega) hb0 hbBB
  rw [show div2 (a - b) b = ((a - b) / b, (a - b) % b) from Prod.ext hdiv.1 hdiv.2]
  dsimp only
  obtain ⟨f1, f2, f3, f4, f5⟩ := divstep_facts a b (lt_of_lt_of_le B_pos hb0) (le_of_lt hlt)
  by_cases e5 : (a - b) % b / B < 2
  · rw [if_pos e5]
    have hd1 := dinv_subA ((a - b) / b) hd f1 (by rw [f2]; exact Nat.le_trans h2b (Nat.le_add_left _ _))
    rw [updA_eq (dinv_post hA hB hd1)]
    exact dinv_post hA hB hd1
  · rw [if_neg e5]
    have hq : (a - b) / b + 1 < B := by
      have : (a - b) / b ≤ (a - b) / (2 * B) := Nat.div_le_div_left h2b (by rw [B_eq]; norm_num)
      simp only [B_eq] at *; omega
    rw [Nat.mod_eq_of_lt hq]
    have hd1 := dinv_subA ((a - b) / b + 1) hd f3 (by rw [f4]; simp only [B_eq] at *; omega)
    rw [updA_eq (dinv_post hA hB hd1)]
    rw [f4] at hd1
    exact ih .dB _ _ _ ⟨hd1, Nat.div_le_div_right (le_of_lt f5)⟩

theorem loop_dB {f a b : Nat} {m : M1}
    (ih : ∀ pt a b m, HInv A0 B0 pt a b m → Post A0 B0 (hgcd2Loop f pt a b m))
    (h : HInv A0 B0 .dB a b m) : Post A0 B0 (hgcd2Loop (f + 1) .dB a b m) := by
  obtain ⟨hd, hord⟩ := h
  have hd' := hd
  obtain ⟨hr, h2a, h2b, hn⟩ := hd'
  obtain ⟨la, lb⟩ := mrel_le hr
  have haBB : a < B * B := lt_of_le_of_lt la hA
  have hbBB : b < B * B := lt_of_le_of_lt lb hB
  unfold hgcd2Loop
  dsimp only
  by_cases e1 : a / B = b / B
  · rw [if_pos e1]; exact dinv_post hA hB hd
  rw [if_neg e1]
  have hlt : a < b := Nat.lt_of_div_lt_div (by omega : a / B < b / B)
  by_cases e2 : b / B < HALF
  · rw [if_pos e2]
    exact ih .sB _ _ _ ⟨dinv_switch hd (by omega) e2, by
      have : a / 2 ^ 32 ≤ b / 2 ^ 32 := Nat.div_le_div_right (le_of_lt hlt)
      rw [Nat.shiftLeft_eq, Nat.shiftRight_eq_div_pow, Nat.shiftLeft_eq, Nat.shiftRight_eq_div_pow]
      simp only [B_eq] at *; omega⟩
  rw [if_neg e2]
  by_cases e3 : (b - a) / B < 2
  · rw [if_pos e3]; exact dinv_post hA hB hd
  rw [if_neg e3]
  have h2ab : 2 * B ≤ b - a := by simp only [B_eq] at *; omega
  by_cases e4 : (b - a) / B ≤ a / B
  · rw [if_pos e4]
    have hd1 := dinv_subB 1 hd (by omega) (by rw [Nat.one_mul]; exact h2ab)
    simp only [Nat.one_mul] at hd1
    have hu := updB_eq (q := 1) (by simp only [Nat.one_mul]; exact dinv_post hA hB hd1)
    simp only [Nat.one_mul] at hu
    rw [hu]
    exact ih .dA _ _ _ ⟨hd1, e4⟩
  rw [if_neg e4]
  have ha0 : B ≤ a := by omega
  have hdiv := div2_spec (b - a) a (by omega) ha0 haBB
  rw [show div2 (b - a) a = ((b - a) / a, (b - a) % a) from Prod.ext hdiv.1 hdiv.2]
  dsimp only
  obtain ⟨f1, f2, f3, f4, f5⟩ := divstep_facts b a (lt_of_lt_of_le B_pos ha0) (le_of_lt hlt)
  by_cases e5 : (b - a) % a / B < 2
  · rw [if_pos e5]
    have hd1 := dinv_subB ((b - a) / a) hd f1 (by rw [f2]; exact Nat.le_trans h2a (Nat.le_add_left _ _))
    rw [updB_eq (dinv_post hA hB hd1)]
    exact dinv_post hA hB hd1
  · rw [if_neg e5]
    have hq : (b - a) / a + 1 < B := by
      have : (b - a) / a ≤ (b - a) / (2 * B) := Nat.div_le_div_left h2a (by rw [B_eq]; norm_num)
      simp only [B_eq] at *; omega
    rw [Nat.mod_eq_of_lt hq]
    have hd1 := dinv_subB ((b - a) / a + 1) hd f3 (by rw [f4]; simp only [B_eq] at *; omega)
    rw [updB_eq (dinv_post hA hB hd1)]
    rw [f4] at hd1
    exact ih .dA _ _ _ ⟨hd1, Nat.div_le_div_right (le_of_lt f5)⟩

theorem loop_sA {f a b : Nat} {m : M1}
    (ih : ∀ pt a b m, HInv A0 B0 pt a b m → Post A0 B0 (hgcd2Loop f pt a b m))
    (h : HInv A0 B0 .sA a b m) : Post A0 B0 (hgcd2Loop (f + 1) .sA a b m) := by
  obtain ⟨hs, hord⟩ := h
  obtain ⟨haB, hbB⟩ := sinv_lt hs
  have h2b : 2 ^ 33 ≤ b := by obtain ⟨_, _, _, _, _, _, _, _, _, _, h, _⟩ := hs; exact h
  unfold hgcd2Loop
  dsimp only
  by_cases e3 : a - b < 2 * HALF
  · rw [if_pos e3]; exact sinv_post hA hB hs
  rw [if_neg e3]
  have h2ab : 2 ^ 33 ≤ a - b := by simp only [HALF] at e3; omega
  by_cases e4 : a - b ≤ b
  · rw [if_pos e4]
    have hs1 := sinv_subA 1 hs (by omega) (by rw [Nat.one_mul]; exact h2ab)
    simp only [Nat.one_mul] at hs1
    have hu := updA_eq (q := 1) (by simp only [Nat.one_mul]; exact sinv_post hA hB hs1)
    simp only [Nat.one_mul] at hu
    rw [hu]
    exact ih .sB _ _ _ ⟨hs1, e4⟩
  rw [if_neg e4]
  have hdiv := div1_spec (a - b) b (by omega) (by omega) hbB
  rw [show div1 (a - b) b = ((a - b) / b, (a - b) % b) from Prod.ext hdiv.1 hdiv.2]
  dsimp only
  obtain ⟨f1, f2, f3, f4, f5⟩ := divstep_facts a b (by omega) hord
  by_cases e5 : (a - b) % b < 2 * HALF
  · rw [if_pos e5]
    have hs1 := sinv_subA ((a - b) / b) hs f1 (by rw [f2]; omega)
    rw [updA_eq (sinv_post hA hB hs1)]
    exact sinv_post hA hB hs1
  · rw [if_neg e5]
    have hq : (a - b) / b + 1 < B := by
      have : (a - b) / b ≤ (a - b) / 2 ^ 33 := Nat.div_le_div_left h2b (by norm_num)
      simp only [B_eq] at *; omega
    rw [Nat.mod_eq_of_lt hq]
    have hs1 := sinv_subA ((a - b) / b + 1) hs f3 (by rw [f4]; simp only [HALF] at e5; omega)
    rw [updA_eq (sinv_post hA hB hs1)]
    rw [f4] at hs1
    exact ih .sB _ _ _ ⟨hs1, le_of_lt f5⟩

theorem loop_sB {f a b : Nat} {m : M1}
    (ih : ∀ pt a b m, HInv A0 B0 pt a b m → Post A0 B0 (hgcd2Loop f pt a b m))
    (h : HInv A0 B0 .sB a b m) : Post A0 B0 (hgcd2Loop (f + 1) .sB a b m) := by
  obtain ⟨hs, hord⟩ := h
  obtain ⟨haB, hbB⟩ := sinv_lt hs
  have h2a : 2 ^ 33 ≤ a := by obtain ⟨_, _, _, _, _, _, _, _, _, h, _, _⟩ := hs; exact h
  unfold hgcd2Loop
  dsimp only
  by_cases e3 : b - a < 2 * HALF
  · rw [if_pos e3]; exact sinv_post hA hB hs
  rw [if_neg e3]
  have h2ab : 2 ^ 33 ≤ b - a := by simp only [HALF] at e3; omega
  by_cases e4 : b - a ≤ a
  · rw [if_pos e4]
    have hs1 := sinv_subB 1 hs (by omega) (by rw [Nat.one_mul]; exact h2ab)
    simp only [Nat.one_mul] at hs1
    have hu := updB_eq (q := 1) (by simp only [Nat.one_mul]; exact sinv_post hA hB hs1)
    simp only [Nat.one_mul] at hu
    rw [hu]
    exact ih .sA _ _ _ ⟨hs1, e4⟩
  rw [if_neg e4]
  have hdiv := div1_spec (b - a) a (by omega) (by omega) haB
  rw [show div1 (b - a) a = ((b - a) / a, (b - a) % a) from Prod.ext hdiv.1 hdiv.2]
  dsimp only
  obtain ⟨f1, f2, f3, f4, f5⟩ := divstep_facts b a (by omega) hord
  by_cases e5 : (b - a) % a < 2 * HALF
  · rw [if_pos e5]
    have hs1 := sinv_subB ((b - a) / a) hs f1 (by rw [f2]; omega)
    rw [updB_eq (sinv_post hA hB hs1)]
    exact sinv_post hA hB hs1
  · rw [if_neg e5]
    have hq : (b - a) / a + 1 < B := by
      have : (b - a) / a ≤ (b - a) / 2 ^ 33 := Nat.div_le_div_left h2a (by norm_num)
      simp only [B_eq] at *; omega
    rw [Nat.mod_eq_of_lt hq]
    have hs1 := sinv_subB ((b - a) / a + 1) hs f3 (by rw [f4]; simp only [HALF] at e5; omega)
    rw [updB_eq (sinv_post hA hB hs1)]
    rw [f4] at hs1
    exact ih .sA _ _ _ ⟨hs1, le_of_lt f5⟩

/-- every program point keeps its invariant; whatever the loop returns (including on fuel
    exhaustion, which therefore needs no separate termination argument) satisfies `Post`. -/
theorem hgcd2Loop_post : ∀ (f : Nat) (pt : HPt) (a b : Nat) (m : M1),
    HInv A0 B0 pt a b m → Post A0 B0 (hgcd2Loop f pt a b m)
  | 0, pt, a, b, m, h => by
    have : hgcd2Loop 0 pt a b m = m := by unfold hgcd2Loop; rfl
    rw [this]; exact hinv_post hA hB h
  | f + 1, .dA, a, b, m, h => loop_dA hA hB (hgcd2Loop_post f) h
  | f + 1, .dB, a, b, m, h => loop_dB hA hB (hgcd2Loop_post f) h
  | f + 1, .sA, a, b, m, h => loop_sA hA hB (hgcd2Loop_post f) h
  | f + 1, .sB, a, b, m, h => loop_sB hA hB (hgcd2Loop_post f) h

end loop

theorem two_limb_facts (ah al bh bl : Nat) (hal : al < B) (hbl : bl < B) :
    (ah * B + al) / B = ah ∧ (bh * B + bl) / B = bh ∧
    (ah > bh ∨ (ah = bh ∧ al > bl) ↔ bh * B + bl < ah * B + al) ∧
    (2 ≤ ah → 2 * B ≤ ah * B + al) := by
  rw [B_eq] at *
  refine ⟨by omega, by omega, by omega, by omega⟩

/-- mpn_hgcd2 on limbs: a returned matrix satisfies `Post` for the two-limb values. -/
theorem hgcd2_post (ah al bh bl : Nat) (m : M1) (hah : ah < B) (hal : al < B) (hbh : bh < B) (hbl : bl < B)
    (h : hgcd2 ah al bh bl = some m) : Post (ah * B + al) (bh * B + bl) m := by
  have hA : ah * B + al < B * B := by
    have : (ah + 1) * B ≤ B * B := Nat.mul_le_mul_right _ hah
    rw [Nat.add_mul] at this; omega
  have hB : bh * B + bl < B * B := by
    have : (bh + 1) * B ≤ B * B := Nat.mul_le_mul_right _ hbh
    rw [Nat.add_mul] at this; omega
  obtain ⟨dA, dB, hcmp, h2A⟩ := two_limb_facts ah al bh bl hal hbl
  obtain ⟨_, _, _, h2B⟩ := two_limb_facts bh bl ah al hbl hal
  unfold hgcd2 at h
  by_cases e0 : ah < 2 ∨ bh < 2
  · rw [if_pos e0] at h; exact absurd h (by simp)
  rw [if_neg e0] at h
  dsimp only at h
  have h2A := h2A (by omega)
  have h2B := h2B (by omega)
  generalize ah * B + al = a at *
  generalize bh * B + bl = b at *
  by_cases e1 : ah > bh ∨ (ah = bh ∧ al > bl)
  · rw [if_pos e1] at h
    have hlt : b < a := hcmp.mp e1
    by_cases e2 : (a - b) / B < 2
    · rw [if_pos e2] at h; exact absurd h (by simp)
    rw [if_neg e2] at h
    have hd : DInv a b (a - b) b ⟨1, 1, 0, 1⟩ :=
      ⟨⟨by simp, by simp only; omega, by simp⟩, by rw [B_eq] at *; omega, h2B, Or.inl (by simp)⟩
    simp only [Option.some.injEq] at h
    rw [← h, ← dB]
    split
    · exact hgcd2Loop_post hA hB _ _ _ _ _ ⟨hd, by omega⟩
    · exact hgcd2Loop_post hA hB _ _ _ _ _ ⟨hd, by omega⟩
  · rw [if_neg e1] at h
    have hlt : a ≤ b := by
      by_contra hc; exact e1 (hcmp.mpr (by omega))
    by_cases e2 : (b - a) / B < 2
    · rw [if_pos e2] at h; exact absurd h (by simp)
    rw [if_neg e2] at h
    have hd : DInv a b a (b - a) ⟨1, 0, 1, 1⟩ :=
      ⟨⟨by simp, by simp, by simp only; omega⟩, h2A, by rw [B_eq] at *; omega, Or.inr (by simp)⟩
    simp only [Option.some.injEq] at h
    rw [← h, ← dA]
    split
    · exact hgcd2Loop_post hA hB _ _ _ _ _ ⟨hd, by omega⟩
    · exact hgcd2Loop_post hA hB _ _ _ _ _ ⟨hd, by omega⟩

/-! ### from the 128-bit values to the full numbers -/

/-- Lehmer/Jebelean: a matrix with `Post` for (A0, B0) works for EVERY pair (X, Y) extending
    (A0, B0) by lower digits: M⁻¹(X; Y) is non-negative and at least W·2^63 in both components. -/
theorem post_extend {A0 B0 : Nat} {m : M1} (hA : A0 < B * B) (hB : B0 < B * B) (h : Post A0 B0 m)
    (W rx ry : Nat) (hrx : rx < W) (hry : ry < W) :
    ∃ x y, MRel m x y (W * A0 + rx) (W * B0 + ry) ∧ W * 2 ^ 63 ≤ x ∧ W * 2 ^ 63 ≤ y := by
  obtain ⟨x, y, hr, hx, hy, _⟩ := h
  have hA' : A0 < 12297829382473034411 * (3 * 2 ^ 63) := by rw [B_eq] at hA; omega
  have hB' : B0 < 12297829382473034411 * (3 * 2 ^ 63) := by rw [B_eq] at hB; omega
  obtain ⟨e1, e2⟩ := mrel_entries_lt hr hx hy hA' hB'
  obtain ⟨x', y', hr', hx', hy', _, _⟩ := trunc_lift W rx ry hr (le_of_lt hrx) (le_of_lt hry) (by omega) (by omega)
  refine ⟨x', y', hr', le_trans (Nat.mul_le_mul_left _ (by omega)) hx', le_trans (Nat.mul_le_mul_left _ (by omega)) hy'⟩

/-- the conclusion of `Hgcd2Contract` from the extension property, for a, b scaled by 2^s -/
theorem contract_of_mrel {m : M1} {a b s W x y : Nat} (hs : s ≤ 63) (h : MRel m x y (a * 2 ^ s) (b * 2 ^ s))
    (hx : W * 2 ^ 63 ≤ x) (hy : W * 2 ^ 63 ≤ y) (hW : 0 < W) :
    lehmerOk m a b ∧ 0 < m.u11 * a - m.u01 * b ∧ 0 < m.u00 * b - m.u10 * a ∧
    W ≤ m.u11 * a - m.u01 * b ∧ W ≤ m.u00 * b - m.u10 * a := by
  obtain ⟨i1, i2⟩ := mrel_inverse h
  have hp : 0 < 2 ^ s := by positivity
  have hle : 2 ^ s ≤ 2 ^ 63 := Nat.pow_le_pow_right (by norm_num) hs
  have k1 : (m.u11 * a - m.u01 * b) * 2 ^ s = x := by
    rw [Nat.sub_mul, Nat.mul_assoc, Nat.mul_assoc, i1]; omega
  have k2 : (m.u00 * b - m.u10 * a) * 2 ^ s = y := by
    rw [Nat.sub_mul, Nat.mul_assoc, Nat.mul_assoc, i2]; omega
  have w1 : W ≤ m.u11 * a - m.u01 * b := by
    apply Nat.le_of_mul_le_mul_right _ hp
    rw [k1]; exact le_trans (Nat.mul_le_mul_left _ hle) hx
  have w2 : W ≤ m.u00 * b - m.u10 * a := by
    apply Nat.le_of_mul_le_mul_right _ hp
    rw [k2]; exact le_trans (Nat.mul_le_mul_left _ hle) hy
  refine ⟨⟨h.1, ?_, ?_⟩, by omega, by omega, w1, w2⟩ <;> omega

/-! ### the normalised top two limbs (gcd.c:204, gcdext_lehmer.c:175) -/

theorem limbAt_eq (x i : Nat) : limbAt x i = x / B ^ i % B := by
  unfold limbAt
  have hB : B = 2 ^ 64 := rfl
  rw [Nat.shiftRight_eq_div_pow, Nat.pow_mul, ← hB]

/-- MPN_EXTRACT_NUMB as arithmetic: with c = 2^s, d = 2^(64-s) (c·d = B) -/
theorem extractNumb_eq (s h l : Nat) (hs1 : 1 ≤ s) (hs : s ≤ 63) (hl : l < B) :
    extractNumb s h l = (h % 2 ^ (64 - s)) * 2 ^ s + l / 2 ^ (64 - s) := by
  have hB : B = 2 ^ (64 - s) * 2 ^ s := by
    rw [← Nat.pow_add]; have : 64 - s + s = 64 := by omega
    rw [this]; rfl
  unfold extractNumb
  rw [Nat.shiftLeft_eq, Nat.shiftRight_eq_div_pow]
  have e1 : h * 2 ^ s % B = (h % 2 ^ (64 - s)) * 2 ^ s := by
    rw [hB]; exact Nat.mul_mod_mul_right _ _ _
  have e2 : l / 2 ^ (64 - s) < 2 ^ s := Nat.div_lt_of_lt_mul (by rw [← hB]; exact hl)
  rw [e1, ← Nat.shiftLeft_eq, Nat.shiftLeft_add_eq_or_of_lt e2]

theorem shl_mod_eq (s l : Nat) (hs : s ≤ 63) : (l <<< s) % B = (l % 2 ^ (64 - s)) * 2 ^ s := by
  have hB : B = 2 ^ (64 - s) * 2 ^ s := by
    rw [← Nat.pow_add]; have : 64 - s + s = 64 := by omega
    rw [this]; rfl
  rw [Nat.shiftLeft_eq, hB]; exact Nat.mul_mod_mul_right _ _ _

/-- arithmetic core: shifting three digits (l2, l1, l0 base B = c·d, l2 < d) left by c and dropping
    the lowest digit. -/
theorem shift3 (c d l2 l1 l0 P r : Nat) (h2 : l2 < d) (hd : 0 < d) (hc : 0 < c) (hr : r < P) :
    ∃ rx, rx < (c * d) * P ∧
      (((l2 * (c * d) + l1) * (c * d) + l0) * P + r) * c
        = ((c * d) * P) * (((l2 % d) * c + l1 / d) * (c * d) + ((l1 % d) * c + l0 / d)) + rx := by
  refine ⟨(l0 % d) * c * P + r * c, ?_, ?_⟩
  · have h0 : l0 % d + 1 ≤ d := Nat.mod_lt _ hd
    have h1 : (l0 % d + 1) * c * P ≤ d * c * P := Nat.mul_le_mul_right _ (Nat.mul_le_mul_right _ h0)
    have h3 : (r + 1) * c ≤ P * c := Nat.mul_le_mul_right _ hr
    have e1 : (l0 % d + 1) * c * P = (l0 % d) * c * P + P * c := by ring
    have e2 : (r + 1) * c = r * c + c := by ring
    have e3 : d * c * P = c * d * P := by ring
    omega
  · have e2 := Nat.mod_eq_of_lt h2
    have e1 := Nat.div_add_mod l1 d
    have e0 := Nat.div_add_mod l0 d
    rw [e2]
    generalize l1 / d = k1 at *
    generalize l1 % d = m1 at *
    generalize l0 / d = k0 at *
    generalize l0 % d = m0 at *
    subst e1 e0
    ring

theorem B_split (s : Nat) (hs : s ≤ 63) : B = 2 ^ s * 2 ^ (64 - s) := by
  rw [← Nat.pow_add]; have : s + (64 - s) = 64 := by omega
  rw [this]; rfl

theorem extractNumb_lt (s h l : Nat) (hs1 : 1 ≤ s) (hs : s ≤ 63) (hl : l < B) : extractNumb s h l < B := by
  rw [extractNumb_eq s h l hs1 hs hl]
  have hB := B_split s hs
  have hd : 0 < 2 ^ (64 - s) := by positivity
  have e2 : l / 2 ^ (64 - s) < 2 ^ s := Nat.div_lt_of_lt_mul (by rw [Nat.mul_comm, ← hB]; exact hl)
  have h0 : h % 2 ^ (64 - s) + 1 ≤ 2 ^ (64 - s) := Nat.mod_lt _ hd
  have h1 : (h % 2 ^ (64 - s) + 1) * 2 ^ s ≤ 2 ^ (64 - s) * 2 ^ s := Nat.mul_le_mul_right _ h0
  rw [Nat.add_mul, Nat.one_mul, Nat.mul_comm (2 ^ (64 - s)), ← hB] at h1
  omega

/-- top limbs without shift -/
theorem top_noshift (x k : Nat) (hx : x < B ^ (k + 2)) :
    limbAt x (k + 1) < B ∧ limbAt x k < B ∧
    x * 2 ^ 0 = B ^ k * (limbAt x (k + 1) * B + limbAt x k) + x % B ^ k := by
  rw [limbAt_eq, limbAt_eq]
  refine ⟨Nat.mod_lt _ B_pos, Nat.mod_lt _ B_pos, ?_⟩
  have ht : x / B ^ k < B * B := by
    apply Nat.div_lt_of_lt_mul
    have : B ^ (k + 2) = B ^ k * (B * B) := by ring
    rw [← this]; exact hx
  rw [pow_succ, ← Nat.div_div_eq_div_mul, Nat.mod_eq_of_lt (Nat.div_lt_of_lt_mul ht)]
  rw [Nat.div_add_mod' (x / B ^ k) B, Nat.div_add_mod]
  simp

/-- two limbs, shifted (n = 2) -/
theorem top_shift2 (x s : Nat) (hs1 : 1 ≤ s) (hs : s ≤ 63) (hx : x < B ^ 2) (ht : limbAt x 1 < 2 ^ (64 - s)) :
    extractNumb s (limbAt x 1) (limbAt x 0) < B ∧ (limbAt x 0 <<< s) % B < B ∧
    x * 2 ^ s = B ^ 0 * (extractNumb s (limbAt x 1) (limbAt x 0) * B + (limbAt x 0 <<< s) % B) + 0 := by
  have hl0 : limbAt x 0 < B := by rw [limbAt_eq]; exact Nat.mod_lt _ B_pos
  refine ⟨extractNumb_lt _ _ _ hs1 hs hl0, Nat.mod_lt _ B_pos, ?_⟩
  rw [extractNumb_eq _ _ _ hs1 hs hl0, shl_mod_eq _ _ hs, Nat.mod_eq_of_lt ht]
  have ex : x = limbAt x 1 * B + limbAt x 0 := by
    rw [limbAt_eq, limbAt_eq, pow_one, pow_zero, Nat.div_one]
    rw [Nat.mod_eq_of_lt (Nat.div_lt_of_lt_mul (by rw [← pow_two]; exact hx))]
    exact (Nat.div_add_mod' x B).symm
  have hB := B_split s hs
  have e0 := Nat.div_add_mod (limbAt x 0) (2 ^ (64 - s))
  generalize limbAt x 1 = l1 at *
  generalize limbAt x 0 = l0 at *
  generalize l0 / 2 ^ (64 - s) = k0 at *
  generalize l0 % 2 ^ (64 - s) = m0 at *
  generalize 2 ^ (64 - s) = d at *
  generalize 2 ^ s = c at *
  rw [ex, hB, ← e0]
  ring

/-- three limbs, shifted (n ≥ 3) -/
theorem top_shift3 (x k s : Nat) (hs1 : 1 ≤ s) (hs : s ≤ 63) (hx : x < B ^ (k + 3))
    (ht : limbAt x (k + 2) < 2 ^ (64 - s)) :
    extractNumb s (limbAt x (k + 2)) (limbAt x (k + 1)) < B ∧
    extractNumb s (limbAt x (k + 1)) (limbAt x k) < B ∧
    ∃ rx, rx < B ^ (k + 1) ∧
      x * 2 ^ s = B ^ (k + 1) * (extractNumb s (limbAt x (k + 2)) (limbAt x (k + 1)) * B
                                  + extractNumb s (limbAt x (k + 1)) (limbAt x k)) + rx := by
  have hl0 : limbAt x k < B := by rw [limbAt_eq]; exact Nat.mod_lt _ B_pos
  have hl1 : limbAt x (k + 1) < B := by rw [limbAt_eq]; exact Nat.mod_lt _ B_pos
  refine ⟨extractNumb_lt _ _ _ hs1 hs hl1, extractNumb_lt _ _ _ hs1 hs hl0, ?_⟩
  rw [extractNumb_eq _ _ _ hs1 hs hl0, extractNumb_eq _ _ _ hs1 hs hl1]
  have hB := B_split s hs
  have ht3 : x / B ^ k < B * B * B := by
    apply Nat.div_lt_of_lt_mul
    have : B ^ (k + 3) = B ^ k * (B * B * B) := by ring
    rw [← this]; exact hx
  have ex : x = ((limbAt x (k + 2) * B + limbAt x (k + 1)) * B + limbAt x k) * B ^ k + x % B ^ k := by
    rw [limbAt_eq, limbAt_eq, limbAt_eq]
    have p2 : B ^ (k + 2) = B ^ k * B * B := by ring
    rw [p2, pow_succ, ← Nat.div_div_eq_div_mul, ← Nat.div_div_eq_div_mul]
    have : x / B ^ k / B / B < B := Nat.div_lt_of_lt_mul (Nat.div_lt_of_lt_mul (by
      have : B * (B * B) = B * B * B := by ring
      rw [this]; exact ht3))
    rw [Nat.mod_eq_of_lt this, Nat.div_add_mod' (x / B ^ k / B) B, Nat.div_add_mod' (x / B ^ k) B,
      Nat.div_add_mod' x (B ^ k)]
  have hr : x % B ^ k < B ^ k := Nat.mod_lt _ (pow_pos B_pos _)
  obtain ⟨rx, hrx, e⟩ := shift3 (2 ^ s) (2 ^ (64 - s)) (limbAt x (k + 2)) (limbAt x (k + 1)) (limbAt x k)
    (B ^ k) (x % B ^ k) ht (by positivity) (by positivity) hr
  rw [← hB] at hrx e
  have p1 : B ^ (k + 1) = B * B ^ k := by ring
  refine ⟨rx, by rw [p1]; exact hrx, ?_⟩
  rw [p1, ← e, ← ex]

/-- the shift count chosen from the mask of the two top limbs -/
theorem clz_mask (ta tb : Nat) (hm : ¬ 2 ^ 63 ≤ ta ||| tb) :
    1 ≤ clz (ta ||| tb) ∧ clz (ta ||| tb) ≤ 63 ∧
    ta < 2 ^ (64 - clz (ta ||| tb)) ∧ tb < 2 ^ (64 - clz (ta ||| tb)) := by
  have h1 : ta ≤ ta ||| tb := Nat.left_le_or
  have h2 : tb ≤ ta ||| tb := Nat.right_le_or
  generalize ta ||| tb = mask at *
  have hlog : mask.log2 < 63 := by
    rcases Nat.eq_zero_or_pos mask with h | h
    · subst h; simp
    · exact (Nat.log2_lt (by omega)).mpr (by omega)
  have hlt : mask < 2 ^ (mask.log2 + 1) := Nat.lt_log2_self
  unfold clz
  have e : 64 - (63 - mask.log2) = mask.log2 + 1 := by omega
  rw [e]
  refine ⟨by omega, by omega, by omega, by omega⟩

/-- The four limbs `top2` hands to mpn_hgcd2 are ⌊a·2^s / B^(n-2)⌋ and ⌊b·2^s / B^(n-2)⌋ as two-limb
    values, for one common shift 0 ≤ s ≤ 63. -/
theorem top2_spec (a b n : Nat) (hn : 2 ≤ n) (ha : a < B ^ n) (hb : b < B ^ n) :
    ∃ s rx ry, s ≤ 63 ∧ rx < B ^ (n - 2) ∧ ry < B ^ (n - 2) ∧
      (top2 a b n).1 < B ∧ (top2 a b n).2.1 < B ∧ (top2 a b n).2.2.1 < B ∧ (top2 a b n).2.2.2 < B ∧
      a * 2 ^ s = B ^ (n - 2) * ((top2 a b n).1 * B + (top2 a b n).2.1) + rx ∧
      b * 2 ^ s = B ^ (n - 2) * ((top2 a b n).2.2.1 * B + (top2 a b n).2.2.2) + ry := by
  unfold top2
  dsimp only
  by_cases hm : 2 ^ 63 ≤ limbAt a (n - 1) ||| limbAt b (n - 1)
  · rw [if_pos hm]
    obtain ⟨k, rfl⟩ : ∃ k, n = k + 2 := ⟨n - 2, by omega⟩
    have e1 : k + 2 - 1 = k + 1 := rfl
    have e2 : k + 2 - 2 = k := rfl
    rw [e1, e2]
    obtain ⟨a1, a2, a3⟩ := top_noshift a k ha
    obtain ⟨b1, b2, b3⟩ := top_noshift b k hb
    exact ⟨0, a % B ^ k, b % B ^ k, by omega, Nat.mod_lt _ (pow_pos B_pos _), Nat.mod_lt _ (pow_pos B_pos _),
      a1, a2, b1, b2, a3, b3⟩
  · rw [if_neg hm]
    obtain ⟨hs1, hs, hta, htb⟩ := clz_mask _ _ hm
    generalize clz (limbAt a (n - 1) ||| limbAt b (n - 1)) = s at *
    by_cases h2 : n = 2
    · rw [if_pos h2]
      subst h2
      obtain ⟨a1, a2, a3⟩ := top_shift2 a s hs1 hs ha hta
      obtain ⟨b1, b2, b3⟩ := top_shift2 b s hs1 hs hb htb
      exact ⟨s, 0, 0, hs, by simp, by simp, a1, a2, b1, b2, a3, b3⟩
    · rw [if_neg h2]
      obtain ⟨k, rfl⟩ : ∃ k, n = k + 3 := ⟨n - 3, by omega⟩
      have e1 : k + 3 - 1 = k + 2 := rfl
      have e2 : k + 3 - 2 = k + 1 := rfl
      have e3 : k + 3 - 3 = k := rfl
      rw [e1] at hta htb
      rw [e1, e2, e3]
      obtain ⟨a1, a2, rx, a3, a4⟩ := top_shift3 a k s hs1 hs ha hta
      obtain ⟨b1, b2, ry, b3, b4⟩ := top_shift3 b k s hs1 hs hb htb
      exact ⟨s, rx, ry, hs, a3, b3, a1, a2, b1, b2, a4, b4⟩

/-- **The contract of mpn_hgcd2** as used by the Lehmer loops of mpn_gcd and mpn_gcdext_lehmer_n,
    for the executable model `hgcd2` (bit-exact mirror of mpn/generic/hgcd2.c): whenever it returns
    a matrix for the normalised top two limbs of (a, b), M has determinant 1, is not the identity,
    M⁻¹(a; b) is positive in both components, and one of them (in fact both) keeps ≥ n - 1 limbs. -/
theorem hgcd2_contract : Hgcd2Contract := by
  intro a b n m hinv hn h
  obtain ⟨h0a, h0b, haB, hbB, _, _⟩ := hinv
  obtain ⟨s, rx, ry, hs, hrx, hry, t1, t2, t3, t4, ea, eb⟩ := top2_spec a b n hn haB hbB
  have hp := hgcd2_post _ _ _ _ m t1 t2 t3 t4 h
  have hA : (top2 a b n).1 * B + (top2 a b n).2.1 < B * B := by
    have : ((top2 a b n).1 + 1) * B ≤ B * B := Nat.mul_le_mul_right _ t1
    rw [Nat.add_mul] at this; omega
  have hB : (top2 a b n).2.2.1 * B + (top2 a b n).2.2.2 < B * B := by
    have : ((top2 a b n).2.2.1 + 1) * B ≤ B * B := Nat.mul_le_mul_right _ t3
    rw [Nat.add_mul] at this; omega
  have hne : NonId m := by obtain ⟨_, _, _, _, _, h, _⟩ := hp; exact h
  obtain ⟨x, y, hr, hx, hy⟩ := post_extend hA hB hp (B ^ (n - 2)) rx ry hrx hry
  rw [← ea, ← eb] at hr
  obtain ⟨c1, c2, c3, c4, _⟩ := contract_of_mrel hs hr hx hy (pow_pos B_pos _)
  exact ⟨c1, hne, c2, c3, Or.inl c4⟩

end Mpir.Gcd
