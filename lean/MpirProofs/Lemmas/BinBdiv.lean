/-
  Lemmas for C16 part binsmall: mpz_bdiv_bin_uiui (mpz/bin_uiui.c:242-358) — the divisor / dividend accumulation loops,
  the size bookkeeping `nn += (np[nn-1] >= kp[kn-1]); nn -= kn`, the exact 2-adic division (mpn_sb_bdiv_q replaced by its
  meaning N·D⁻¹ mod B^nn) and the final shift.
-/
import MpirProofs.Lemmas.BinSmall
namespace Mpir.Numth
open Mpir Mpir.Gen.NumthTabs Nat

/-! ## one chunk: mulN, count_trailing_zeros, shift -/

theorem mulfunc_lt (w m : ℕ) (hw1 : 1 ≤ w) (hw8 : w ≤ 8) (hm : m < B) : mulfunc w m < B := by
  have hB := B_pos
  interval_cases w <;> first | exact hm | exact Nat.mod_lt _ hB

theorem chunk_spec (w m : ℕ) (hw1 : 1 ≤ w) (hw8 : w ≤ 8) (hm : 1 ≤ m) (hfit : (m + w - 1) ^ w < B) :
    (mulfunc w m >>> ctz (mulfunc w m)) * 2 ^ (tcnt (w - 1) + ctz (mulfunc w m)) = m.ascFactorial w ∧
    (mulfunc w m >>> ctz (mulfunc w m)) % 2 = 1 ∧ mulfunc w m >>> ctz (mulfunc w m) < B := by
  have hs := mulfunc_spec w m hw1 hw8 hfit
  have hmB : m < B := by
    have h1 : m ≤ (m + w - 1) ^ 1 := by rw [pow_one]; omega
    exact lt_of_le_of_lt h1 (pow_le_of_fit (by omega) hw1 hfit)
  have hlt := mulfunc_lt w m hw1 hw8 hmB
  have hpos : 0 < m.ascFactorial w := by
    have := Nat.ascFactorial_pos (m - 1) w
    rwa [Nat.sub_add_cancel hm] at this
  have hne : mulfunc w m ≠ 0 := by
    intro h; rw [h] at hs; omega
  generalize mulfunc w m = raw at *
  obtain ⟨e1, e2⟩ := ctzAux_spec 64 raw hne (by rw [B_eq] at hlt; norm_num; exact hlt)
  unfold ctz
  refine ⟨?_, e2, lt_of_le_of_lt ?_ hlt⟩
  · rw [← hs, add_comm (tcnt (w - 1)), pow_add, ← mul_assoc, ← e1]
  · rw [Nat.shiftRight_eq_div_pow]; exact Nat.div_le_self _ _

theorem odd_mul_odd {a b : ℕ} (ha : a % 2 = 1) (hb : b % 2 = 1) : a * b % 2 = 1 := by
  rw [Nat.mul_mod, ha, hb]

/-- `cy = mpn_mul_1 (p, p, nn, x); p[nn] = cy; nn += cy != 0` keeps `B^(nn-1) ≤ p < B^nn` -/
theorem size_step {p x nn : ℕ} (h1 : 1 ≤ nn) (hlo : B ^ (nn - 1) ≤ p) (hhi : p < B ^ nn) (hx1 : 1 ≤ x) (hx : x < B) :
    1 ≤ nn + (if p * x / B ^ nn ≠ 0 then 1 else 0) ∧
    B ^ (nn + (if p * x / B ^ nn ≠ 0 then 1 else 0) - 1) ≤ p * x ∧ p * x < B ^ (nn + (if p * x / B ^ nn ≠ 0 then 1 else 0)) := by
  have hBn : 0 < B ^ nn := Nat.pow_pos B_pos
  have hup : p * x < B ^ (nn + 1) := by
    rw [pow_succ]; exact Nat.mul_lt_mul'' hhi hx
  have hdn : B ^ (nn - 1) ≤ p * x := le_trans hlo (Nat.le_mul_of_pos_right p hx1)
  by_cases h : p * x / B ^ nn ≠ 0
  · simp only [if_pos h]
    refine ⟨by omega, ?_, hup⟩
    rw [Nat.add_sub_cancel]
    by_contra hc
    exact h (Nat.div_eq_of_lt (by omega))
  · simp only [if_neg h, Nat.add_zero]
    refine ⟨h1, hdn, ?_⟩
    have : p * x / B ^ nn = 0 := of_not_not h
    rcases Nat.div_eq_zero_iff.mp this with h' | h'
    · omega
    · exact h'

/-- upper-bound-only version for the dividend (its top limb may be zero after a division) -/
theorem size_step_hi {p x nn : ℕ} (hhi : p < B ^ nn) (hx : x < B) :
    p * x < B ^ (nn + (if p * x / B ^ nn ≠ 0 then 1 else 0)) := by
  have hBn : 0 < B ^ nn := Nat.pow_pos B_pos
  have hup : p * x < B ^ (nn + 1) := by
    rw [pow_succ]
    rcases Nat.eq_zero_or_pos x with h0 | h0
    · subst h0; rw [Nat.mul_zero, ← pow_succ]; exact Nat.pow_pos B_pos
    · exact Nat.mul_lt_mul'' hhi hx
  by_cases h : p * x / B ^ nn ≠ 0
  · simp only [if_pos h]; exact hup
  · simp only [if_neg h, Nat.add_zero]
    have : p * x / B ^ nn = 0 := of_not_not h
    rcases Nat.div_eq_zero_iff.mp this with h' | h'
    · omega
    · exact h'

/-! ## the divisor loop (bin_uiui.c:292-304) -/

def KInv (k W O0 kp kn j j2 kmax : ℕ) : Prop :=
  O0 * kp * 2 ^ j2 = (j - 1)! ∧ kp % 2 = 1 ∧ 1 ≤ kn ∧ B ^ (kn - 1) ≤ kp ∧ kp < B ^ kn ∧ 1 ≤ j ∧ j + kmax ≤ k + 1 ∧
    kmax ≤ W ∧ (kmax = 0 → j = k + 1)

theorem bdivK_spec (k W O0 : ℕ) (hW8 : W ≤ 8) (hWfit : k ^ W < B) (hkB : k + 1 < B) :
    ∀ fuel kp kn j j2 kmax, KInv k W O0 kp kn j j2 kmax →
      KInv k W O0 (bdivK k fuel kp kn j j2 kmax).1 (bdivK k fuel kp kn j j2 kmax).2.1 (bdivK k fuel kp kn j j2 kmax).2.2.1
        (bdivK k fuel kp kn j j2 kmax).2.2.2.1 (bdivK k fuel kp kn j j2 kmax).2.2.2.2 ∧
      j ≤ (bdivK k fuel kp kn j j2 kmax).2.2.1 := by
  intro fuel
  induction fuel with
  | zero => intro kp kn j j2 kmax h; exact ⟨h, le_refl _⟩
  | succ fuel ih =>
    intro kp kn j j2 kmax h
    unfold bdivK
    by_cases hc : kmax ≠ 0 ∧ kn < SOME_THRESHOLD
    · rw [if_pos hc]
      simp only [Nat.add_assoc j2]
      obtain ⟨i1, i2, i3, i4, i5, i6, i7, i8, i9⟩ := h
      have hkm1 : 1 ≤ kmax := by omega
      have hfit : (j + kmax - 1) ^ kmax < B :=
        lt_of_le_of_lt (Nat.pow_le_pow_left (by omega) kmax) (pow_fit_le hWfit i8)
      obtain ⟨c1, c2, c3⟩ := chunk_spec kmax j hkm1 (by omega) i6 hfit
      have hj' : (j + kmax) % B = j + kmax := Nat.mod_eq_of_lt (by omega)
      rw [hj']
      have ht : (k + B - (j + kmax) + 1) % B = k + 1 - (j + kmax) := by
        have : k + B - (j + kmax) + 1 = (k + 1 - (j + kmax)) + B := by omega
        rw [this, Nat.add_mod_right, Nat.mod_eq_of_lt (by omega)]
      rw [ht]
      generalize mulfunc kmax j >>> ctz (mulfunc kmax j) = o at c1 c2 c3 ⊢
      generalize tcnt (kmax - 1) + ctz (mulfunc kmax j) = tw at c1 ⊢
      have ho1 : 1 ≤ o := by omega
      obtain ⟨s1, s2, s3⟩ := size_step i3 i4 i5 ho1 c3
      have := ih (kp * o) (kn + (if kp * o / B ^ kn ≠ 0 then 1 else 0)) (j + kmax) (j2 + tw)
        (min kmax (k + 1 - (j + kmax))) ⟨by
          rw [pow_add, show O0 * (kp * o) * (2 ^ j2 * 2 ^ tw) = O0 * kp * 2 ^ j2 * (o * 2 ^ tw) by ring, i1, c1,
            Nat.factorial_mul_ascFactorial' j kmax (by omega)], odd_mul_odd i2 c2, s1, s2, s3, by omega,
          by have := Nat.min_le_right kmax (k + 1 - (j + kmax)); omega,
          le_trans (Nat.min_le_left _ _) i8,
          by intro h0
             by_cases hle : kmax ≤ k + 1 - (j + kmax)
             · rw [Nat.min_eq_left hle] at h0; omega
             · rw [Nat.min_eq_right (by omega)] at h0; omega⟩
      exact ⟨this.1, by omega⟩
    · rw [if_neg hc]
      exact ⟨h, le_refl _⟩

/-! ## the dividend loop (bin_uiui.c:307-319) -/

theorem bdivN_spec (n a O0 nmax : ℕ) (ha : 1 ≤ a) (hn : n < B) (h1 : 1 ≤ nmax) (h8 : nmax ≤ 8) (hfit : n ^ nmax < B) :
    ∀ fuel numfac np nn i i2 c, numfac ≤ fuel → i = (a + c) % B → O0 * np * 2 ^ i2 = a.ascFactorial c → np % 2 = 1 →
      1 ≤ nn → np < B ^ nn → a + c + numfac ≤ n + 1 →
      (bdivN nmax fuel numfac np nn i i2).2.2.1 = (a + c + numfac) % B ∧
      O0 * (bdivN nmax fuel numfac np nn i i2).1 * 2 ^ (bdivN nmax fuel numfac np nn i i2).2.2.2 = a.ascFactorial (c + numfac) ∧
      (bdivN nmax fuel numfac np nn i i2).1 % 2 = 1 ∧ 1 ≤ (bdivN nmax fuel numfac np nn i i2).2.1 ∧
      (bdivN nmax fuel numfac np nn i i2).1 < B ^ (bdivN nmax fuel numfac np nn i i2).2.1 := by
  intro fuel
  induction fuel with
  | zero =>
    intro numfac np nn i i2 c g1 g2 g3 g4 g5 g6 _
    have : numfac = 0 := by omega
    subst this
    simp only [bdivN, Nat.add_zero]
    exact ⟨g2, g3, g4, g5, g6⟩
  | succ fuel ih =>
    intro numfac np nn i i2 c g1 g2 g3 g4 g5 g6 g7
    unfold bdivN
    by_cases h0 : numfac = 0
    · subst h0; simp only [if_true, Nat.add_zero]; exact ⟨g2, g3, g4, g5, g6⟩
    · simp only [h0, if_false, Nat.add_assoc i2]
      have hw1 : 1 ≤ min nmax numfac := by simp only [Nat.le_min]; omega
      have hwm : min nmax numfac ≤ nmax := Nat.min_le_left _ _
      have hwf : min nmax numfac ≤ numfac := Nat.min_le_right _ _
      generalize min nmax numfac = w at hw1 hwm hwf ⊢
      have hi : i = a + c := by rw [g2, Nat.mod_eq_of_lt (by omega)]
      have hf : (i + w - 1) ^ w < B :=
        lt_of_le_of_lt (Nat.pow_le_pow_left (by omega) w) (pow_fit_le hfit hwm)
      obtain ⟨c1, c2, c3⟩ := chunk_spec w i hw1 (by omega) (by omega) hf
      generalize mulfunc w i >>> ctz (mulfunc w i) = o at c1 c2 c3 ⊢
      generalize tcnt (w - 1) + ctz (mulfunc w i) = tw at c1 ⊢
      have := ih (numfac - w) (np * o) (nn + (if np * o / B ^ nn ≠ 0 then 1 else 0)) ((i + w) % B) (i2 + tw) (c + w)
        (by omega) (by rw [hi]; congr 1; omega)
        (by rw [pow_add, show O0 * (np * o) * (2 ^ i2 * 2 ^ tw) = O0 * np * 2 ^ i2 * (o * 2 ^ tw) by ring, g3, c1, hi,
              Nat.ascFactorial_mul_ascFactorial])
        (odd_mul_odd g4 c2) (by omega) (size_step_hi g6 c3) (by omega)
      rw [show a + (c + w) + (numfac - w) = a + c + numfac by omega, show c + w + (numfac - w) = c + numfac by omega] at this
      exact this

/-! ## the quotient size `nn += (np[nn-1] >= kp[kn-1]); nn -= kn` -/

theorem quot_size {N D Q nn kn : ℕ} (h : N = D * Q) (hQ : 1 ≤ Q) (hN : N < B ^ nn) (hnn : 1 ≤ nn) (hkn : 1 ≤ kn)
    (hDlo : B ^ (kn - 1) ≤ D) (hDhi : D < B ^ kn) :
    kn < nn + (if topLimb N nn ≥ topLimb D kn then 1 else 0) ∧
    Q < B ^ (nn + (if topLimb N nn ≥ topLimb D kn then 1 else 0) - kn) := by
  have hB := B_pos
  have hBk : 0 < B ^ (kn - 1) := Nat.pow_pos B_pos
  have hDN : D ≤ N := by rw [h]; exact Nat.le_mul_of_pos_right D hQ
  have hkn_le : kn ≤ nn := by
    have : B ^ (kn - 1) < B ^ nn := lt_of_le_of_lt (le_trans hDlo hDN) hN
    have := (Nat.pow_lt_pow_iff_right (by rw [B_eq]; norm_num : 1 < B)).mp this
    omega
  have htD : topLimb D kn = D / B ^ (kn - 1) := by
    unfold topLimb
    apply Nat.mod_eq_of_lt
    apply Nat.div_lt_of_lt_mul
    rw [← pow_succ]; rwa [Nat.sub_add_cancel hkn]
  have htN : topLimb N nn = N / B ^ (nn - 1) := by
    unfold topLimb
    apply Nat.mod_eq_of_lt
    apply Nat.div_lt_of_lt_mul
    rw [← pow_succ]; rwa [Nat.sub_add_cancel hnn]
  rw [htD, htN]
  by_cases hc : N / B ^ (nn - 1) ≥ D / B ^ (kn - 1)
  · simp only [hc, if_true]
    refine ⟨by omega, ?_⟩
    -- B^(kn-1)·Q ≤ D·Q = N < B^nn
    have h1 : B ^ (kn - 1) * Q < B ^ (kn - 1) * B ^ (nn + 1 - kn) := by
      rw [← pow_add, show kn - 1 + (nn + 1 - kn) = nn by omega]
      exact lt_of_le_of_lt (by rw [h]; exact Nat.mul_le_mul_right Q hDlo) hN
    exact Nat.lt_of_mul_lt_mul_left h1
  · simp only [hc, if_false, Nat.add_zero]
    have hlt : N / B ^ (nn - 1) < D / B ^ (kn - 1) := by omega
    -- N < (tN + 1)·B^(nn-1) ≤ tD·B^(nn-1),  tD·B^(kn-1) ≤ D
    have hBn : 0 < B ^ (nn - 1) := Nat.pow_pos B_pos
    have h1 : N < (N / B ^ (nn - 1) + 1) * B ^ (nn - 1) := by
      have := Nat.div_add_mod N (B ^ (nn - 1))
      have := Nat.mod_lt N hBn
      rw [Nat.add_mul, Nat.one_mul, mul_comm]; omega
    have h2 : N < D / B ^ (kn - 1) * B ^ (nn - 1) :=
      lt_of_lt_of_le h1 (Nat.mul_le_mul_right _ (by omega))
    have h3 : D / B ^ (kn - 1) * B ^ (kn - 1) ≤ D := Nat.div_mul_le_self D _
    have h4 : D / B ^ (kn - 1) * B ^ (kn - 1) * Q ≤ N := by rw [h]; exact Nat.mul_le_mul_right Q h3
    have htpos : 0 < D / B ^ (kn - 1) := Nat.div_pos hDlo hBk
    have h5 : D / B ^ (kn - 1) * (B ^ (kn - 1) * Q) < D / B ^ (kn - 1) * B ^ (nn - 1) := by
      rw [← mul_assoc]; omega
    have h6 : B ^ (kn - 1) * Q < B ^ (nn - 1) := Nat.lt_of_mul_lt_mul_left h5
    have h7 : B ^ (kn - 1) < B ^ (nn - 1) := lt_of_le_of_lt (Nat.le_mul_of_pos_right _ hQ) h6
    have h8 := (Nat.pow_lt_pow_iff_right (by rw [B_eq]; norm_num : 1 < B)).mp h7
    refine ⟨by omega, ?_⟩
    have h9 : B ^ (kn - 1) * Q < B ^ (kn - 1) * B ^ (nn - kn) := by
      rw [← pow_add, show kn - 1 + (nn - kn) = nn - 1 by omega]; exact h6
    exact Nat.lt_of_mul_lt_mul_left h9

/-! ## the divisor inverse of mpn_sb_bdiv_q: `invPow2` (Newton / Hensel lifting) -/

theorem inv_step (d x bits g : ℕ) (hg : g ≤ bits) (h : ((2 ^ g : ℕ) : ℤ) ∣ (d : ℤ) * x - 1) :
    ((2 ^ (min (2 * g) bits) : ℕ) : ℤ) ∣ (d : ℤ) * ((x * (2 * 2 ^ bits + 2 - d * x % 2 ^ bits) % 2 ^ bits : ℕ) : ℤ) - 1 := by
  generalize hmd : 2 ^ bits = md
  have hmdpos : 0 < md := by rw [← hmd]; positivity
  have hr : d * x % md < md := Nat.mod_lt _ hmdpos
  generalize hrr : d * x % md = r at hr
  have hq : r + md * (d * x / md) = d * x := by rw [← hrr]; exact Nat.mod_add_div _ _
  generalize d * x / md = q at hq
  generalize hss : 2 * md + 2 - r = s
  have hs : s + r = 2 * md + 2 := by omega
  have ht : x * s % md + md * (x * s / md) = x * s := Nat.mod_add_div _ _
  generalize x * s / md = t at ht
  generalize x * s % md = x' at ht
  have hqz : (d : ℤ) * x = r + md * q := by exact_mod_cast hq.symm
  have hsz : (s : ℤ) = 2 * md + 2 - r := by have : (s : ℤ) + r = 2 * md + 2 := by exact_mod_cast hs
                                            linarith
  have htz : (x' : ℤ) = x * s - md * t := by have : (x' : ℤ) + md * t = x * s := by exact_mod_cast ht
                                             linarith
  have key : (d : ℤ) * x' - 1 = md * (2 * r + q * s - d * t) - (r - 1) ^ 2 := by
    rw [htz]
    have : (d : ℤ) * (x * s - md * t) = (d * x) * s - d * md * t := by ring
    rw [this, hqz, hsz]; ring
  rw [key]
  have hM1 : ((2 ^ (min (2 * g) bits) : ℕ) : ℤ) ∣ (md : ℤ) := by
    rw [← hmd]
    exact Int.natCast_dvd_natCast.mpr (Nat.pow_dvd_pow 2 (Nat.min_le_right _ _))
  have hM2 : ((2 ^ (min (2 * g) bits) : ℕ) : ℤ) ∣ ((r : ℤ) - 1) ^ 2 := by
    have h1 : ((2 ^ g : ℕ) : ℤ) ∣ (r : ℤ) - 1 := by
      have e : (r : ℤ) - 1 = (d * x - 1) - md * q := by rw [hqz]; ring
      rw [e]
      apply Dvd.dvd.sub h
      apply Dvd.dvd.mul_right
      rw [← hmd]
      exact Int.natCast_dvd_natCast.mpr (Nat.pow_dvd_pow 2 hg)
    have h2 : ((2 ^ g : ℕ) : ℤ) ^ 2 ∣ ((r : ℤ) - 1) ^ 2 := pow_dvd_pow_of_dvd h1 2
    refine Dvd.dvd.trans ?_ h2
    have : ((2 ^ g : ℕ) : ℤ) ^ 2 = ((2 ^ (2 * g) : ℕ) : ℤ) := by push_cast; ring
    rw [this]
    exact Int.natCast_dvd_natCast.mpr (Nat.pow_dvd_pow 2 (Nat.min_le_left _ _))
  exact Dvd.dvd.sub (Dvd.dvd.mul_right hM1 _) hM2

theorem invNewton_spec (d bits : ℕ) : ∀ (fuel x e : ℕ), ((2 ^ (min e bits) : ℕ) : ℤ) ∣ (d : ℤ) * (x : ℤ) - 1 →
    ((2 ^ (min (e * 2 ^ fuel) bits) : ℕ) : ℤ) ∣ (d : ℤ) * (invNewton d (2 ^ bits) fuel x : ℕ) - 1 := by
  intro fuel
  induction fuel with
  | zero => intro x e h; simpa [invNewton] using h
  | succ fuel ih =>
    intro x e h
    unfold invNewton
    have := inv_step d x bits (min e bits) (Nat.min_le_right _ _) h
    have h2 := ih _ (2 * e) (by
      rw [show min (2 * e) bits = min (2 * min e bits) bits by omega]; exact this)
    rw [show e * 2 ^ (fuel + 1) = 2 * e * 2 ^ fuel by rw [pow_succ]; ring]
    exact h2

theorem invPow2_spec (d bits : ℕ) (hd : d % 2 = 1) (hb : 1 ≤ bits) : d * invPow2 d bits % 2 ^ bits = 1 := by
  unfold invPow2
  have h0 : ((2 ^ (min 1 bits) : ℕ) : ℤ) ∣ (d : ℤ) * (1 : ℕ) - 1 := by
    rw [Nat.min_eq_left hb]
    have : (d : ℤ) = 2 * (d / 2 : ℕ) + 1 := by have : d = 2 * (d / 2) + 1 := by omega
                                               exact_mod_cast this
    rw [this]; push_cast; ring_nf; exact Dvd.intro_left _ rfl
  have h := invNewton_spec d bits (bits.log2 + 2) 1 1 h0
  have hlt : bits < 2 ^ (bits.log2 + 2) := by
    have := @Nat.lt_log2_self bits
    rw [pow_succ]; omega
  rw [Nat.min_eq_right (by omega)] at h
  generalize invNewton d (2 ^ bits) (bits.log2 + 2) 1 = y at h ⊢
  have hpos : 1 ≤ d * y := by
    rcases Nat.eq_zero_or_pos (d * y) with h0 | h0
    · rw [show (d : ℤ) * y = ((d * y : ℕ) : ℤ) by push_cast; ring, h0] at h
      have h2 : ((2 ^ bits : ℕ) : ℤ) ∣ 1 := by simpa using (Int.dvd_neg.mpr h)
      have := Int.natCast_dvd_natCast.mp (by simpa using h2 : ((2 ^ bits : ℕ) : ℤ) ∣ ((1 : ℕ) : ℤ))
      have := Nat.le_of_dvd (by omega) this
      have : 2 ^ 1 ≤ 2 ^ bits := Nat.pow_le_pow_right (by omega) hb
      omega
    · exact h0
  have h1 : (2 ^ bits : ℕ) ∣ d * y - 1 := by
    apply Int.natCast_dvd_natCast.mp
    rw [Nat.cast_sub hpos]; push_cast; push_cast at h; exact h
  obtain ⟨c, hc⟩ := h1
  have : d * y = 1 + 2 ^ bits * c := by omega
  rw [this, Nat.add_mul_mod_self_left]
  apply Nat.mod_eq_of_lt
  have : 2 ^ 1 ≤ 2 ^ bits := Nat.pow_le_pow_right (by omega) hb
  omega

/-- mpn_sb_bdiv_q (np, wp, np, nn, kp, MIN (kn, nn), dinv) when the division is exact and the quotient fits nn limbs -/
theorem bdiv_value (N D Q nn : ℕ) (h : N = D * Q) (hD : D % 2 = 1) (hnn : 1 ≤ nn) (hQ : Q < B ^ nn) :
    (N % B ^ nn) * invPow2 (D % B ^ nn) (64 * nn) % B ^ nn = Q := by
  have hmd : B ^ nn = 2 ^ (64 * nn) := by rw [show B = 2 ^ 64 by rw [B_eq]; norm_num, ← pow_mul]
  have h2 : 2 ∣ B ^ nn := by rw [hmd]; exact dvd_pow_self 2 (by omega)
  have hd : (D % B ^ nn) % 2 = 1 := by rw [Nat.mod_mod_of_dvd D h2]; exact hD
  have hinv := invPow2_spec (D % B ^ nn) (64 * nn) hd (by omega)
  rw [← hmd] at hinv
  generalize invPow2 (D % B ^ nn) (64 * nn) = inv at hinv ⊢
  rw [Nat.mod_mul_mod] at hinv
  rw [Nat.mod_mul_mod, h, show D * Q * inv = Q * (D * inv) by ring, Nat.mul_mod, hinv, Nat.mul_one, Nat.mod_mod,
    Nat.mod_eq_of_lt hQ]

/-! ## the outer loop (bin_uiui.c:285-340) -/

def LInv (k a W : ℕ) (st : BdivSt) : Prop :=
  ∃ O0, O0 * st.jjj * 2 ^ st.j2cnt = (st.j - 1)! ∧ O0 * st.np * 2 ^ st.i2cnt = a.ascFactorial (st.numfac - 1) ∧
    st.jjj % 2 = 1 ∧ st.jjj < B ∧ st.np % 2 = 1 ∧ 1 ≤ st.nn ∧ st.np < B ^ st.nn ∧ st.i = (a + (st.numfac - 1)) % B ∧
    1 ≤ st.numfac ∧ st.numfac ≤ st.j ∧ st.j ≤ k + 1 ∧ 1 ≤ st.kmax ∧ st.kmax ≤ W

def BdivPost (n k : ℕ) (r : BdivSt) : Prop :=
  r.ok = true → r.np * 2 ^ r.i2cnt = 2 ^ r.j2cnt * n.choose k ∧ r.np % 2 = 1

theorem odd_of_mul_odd {a b : ℕ} (h : a * b % 2 = 1) : b % 2 = 1 := by
  rw [Nat.mul_mod] at h
  rcases Nat.mod_two_eq_zero_or_one b with hb | hb
  · rw [hb] at h; simp at h
  · exact hb

theorem bdivLoop_spec (n k alloc : ℕ) (hk1 : 1 ≤ k) (h2k : 2 * k ≤ n) (hn : n < B) :
    ∀ fuel st, LInv k (n - k + 1) (log_n_max k) st → BdivPost n k (bdivLoop k (log_n_max n) alloc fuel st) := by
  obtain ⟨hWk1, hWk8, hWkfit⟩ := log_n_max_spec k (by omega)
  obtain ⟨hWn1, hWn8, hWnfit⟩ := log_n_max_spec n hn
  intro fuel
  induction fuel with
  | zero => intro st _ hok; simp [bdivLoop] at hok
  | succ fuel ih =>
    intro st hinv
    obtain ⟨O0, l1, l2, l3, l4, l5, l6, l7, l8, l9, l10, l11, l12, l13⟩ := hinv
    unfold bdivLoop
    have ht : (k + B - st.j + 1) % B = k + 1 - st.j := by
      have : k + B - st.j + 1 = (k + 1 - st.j) + B := by omega
      rw [this, Nat.add_mod_right, Nat.mod_eq_of_lt (by omega)]
    simp only [ht]
    have hK := bdivK_spec k (log_n_max k) O0 hWk8 hWkfit (by omega) k st.jjj 1 st.j st.j2cnt (min st.kmax (k + 1 - st.j))
      ⟨l1, l3, le_refl 1, by simp; omega, by simpa using l4, by omega,
        by have := Nat.min_le_right st.kmax (k + 1 - st.j); omega, le_trans (Nat.min_le_left _ _) l13,
        by intro h0
           by_cases hle : st.kmax ≤ k + 1 - st.j
           · rw [Nat.min_eq_left hle] at h0; omega
           · rw [Nat.min_eq_right (by omega)] at h0; omega⟩
    generalize bdivK k k st.jjj 1 st.j st.j2cnt (min st.kmax (k + 1 - st.j)) = rK at hK ⊢
    obtain ⟨kp, kn, j', j2', kmax'⟩ := rK
    simp only at hK ⊢
    obtain ⟨⟨k1, k2, k3, k4, k5, k6, k7, k8, k9⟩, hjle⟩ := hK
    have hN := bdivN_spec n (n - k + 1) O0 (log_n_max n) (by omega) hn hWn1 hWn8 hWnfit k (j' - st.numfac) st.np st.nn st.i
      st.i2cnt (st.numfac - 1) (by omega) l8 l2 l5 l6 l7 (by omega)
    generalize bdivN (log_n_max n) k (j' - st.numfac) st.np st.nn st.i st.i2cnt = rN at hN ⊢
    obtain ⟨np', nn', i', i2'⟩ := rN
    simp only at hN ⊢
    obtain ⟨n1, n2, n3, n4, n5⟩ := hN
    rw [show st.numfac - 1 + (j' - st.numfac) = j' - 1 by omega] at n2
    rw [show n - k + 1 + (st.numfac - 1) + (j' - st.numfac) = n - k + 1 + (j' - 1) by omega] at n1
    have hO0 : 0 < O0 := by
      rcases Nat.eq_zero_or_pos O0 with h | h
      · rw [h] at l1; simp at l1; exact absurd l1.symm (Nat.factorial_ne_zero _)
      · exact h
    have hkp : 0 < kp := by omega
    generalize hC : (n - k + 1 + (j' - 1) - 1).choose (j' - 1) = C' at *
    have hmain : np' * 2 ^ i2' = kp * (2 ^ j2' * C') := by
      have e := Nat.ascFactorial_eq_factorial_mul_choose' (n - k + 1) (j' - 1)
      rw [hC, ← k1] at e
      rw [e] at n2
      have : O0 * (np' * 2 ^ i2') = O0 * (kp * (2 ^ j2' * C')) := by rw [← mul_assoc, n2]; ring
      exact Nat.eq_of_mul_eq_mul_left hO0 this
    have hcop : Nat.Coprime kp (2 ^ i2') := by
      apply Nat.Coprime.pow_right
      rw [Nat.coprime_comm, Nat.Prime.coprime_iff_not_dvd Nat.prime_two]
      omega
    have hdvd : kp ∣ np' := hcop.dvd_of_dvd_mul_right ⟨_, hmain⟩
    obtain ⟨Q, hQ⟩ := hdvd
    have hQC : Q * 2 ^ i2' = 2 ^ j2' * C' := by
      rw [hQ, mul_assoc] at hmain
      exact Nat.eq_of_mul_eq_mul_left hkp hmain
    have hQodd : Q % 2 = 1 := odd_of_mul_odd (hQ ▸ n3)
    have hQ1 : 1 ≤ Q := by omega
    obtain ⟨s1, s2⟩ := quot_size hQ hQ1 n5 n4 k3 k4 k5
    generalize (if topLimb np' nn' ≥ topLimb kp kn then 1 else 0) = inc at s1 s2 ⊢
    have hval := bdiv_value np' kp Q (nn' + inc - kn) hQ k2 (by omega) s2
    rw [hval]
    by_cases hk0 : kmax' = 0
    · rw [if_pos hk0]
      intro _
      simp only
      have hj' : j' = k + 1 := k9 hk0
      rw [hj'] at hC
      rw [show n - k + 1 + (k + 1 - 1) - 1 = n by omega, show k + 1 - 1 = k by omega] at hC
      rw [hC]
      exact ⟨hQC, hQodd⟩
    · rw [if_neg hk0]
      apply ih
      have hkm1 : 1 ≤ kmax' := by omega
      have hfit : (j' + kmax' - 1) ^ kmax' < B :=
        lt_of_le_of_lt (Nat.pow_le_pow_left (by omega) kmax') (pow_fit_le hWkfit k8)
      obtain ⟨c1, c2, c3⟩ := chunk_spec kmax' j' hkm1 (by omega) k6 hfit
      refine ⟨O0 * kp, ?_, ?_, c2, c3, hQodd, (by show 1 ≤ nn' + inc - kn; omega), s2, ?_, k6, ?_, ?_, hkm1, k8⟩
      · simp only
        rw [Nat.mod_eq_of_lt (by omega), Nat.add_assoc j2', pow_add,
          show O0 * kp * (mulfunc kmax' j' >>> ctz (mulfunc kmax' j')) * (2 ^ j2' * 2 ^ (tcnt (kmax' - 1) + ctz (mulfunc kmax' j'))) =
            O0 * kp * 2 ^ j2' * ((mulfunc kmax' j' >>> ctz (mulfunc kmax' j')) * 2 ^ (tcnt (kmax' - 1) + ctz (mulfunc kmax' j'))) by ring,
          k1, c1, Nat.factorial_mul_ascFactorial' j' kmax' (by omega)]
      · simp only
        rw [← n2, hQ]; ring
      · simp only
        exact n1
      · simp only
        rw [Nat.mod_eq_of_lt (by omega)]; omega
      · simp only
        rw [Nat.mod_eq_of_lt (by omega)]; omega

/-! ## mpz_bdiv_bin_uiui -/

theorem bdiv_init_consts : ODD_FACTORIAL_TABLE_MAX * 2 ^ fac2cntTab (ODD_FACTORIAL_TABLE_LIMIT / 2 - 1) = (ODD_FACTORIAL_TABLE_LIMIT)! ∧
    ODD_FACTORIAL_TABLE_MAX % 2 = 1 ∧ ODD_FACTORIAL_TABLE_MAX < B ∧ ODD_FACTORIAL_TABLE_LIMIT = 25 := by
  decide +kernel

/-- value of mpz_bdiv_bin_uiui whenever the model's ASSERT flags (scratch size `nn < alloc`, loop fuel) hold -/
theorem bdiv_bin_uiui_some (n k : ℕ) (hk : ODD_FACTORIAL_TABLE_LIMIT < k) (h2k : 2 * k ≤ n) (hn : n < B) :
    bdiv_bin_uiui n k = none ∨ bdiv_bin_uiui n k = some (n.choose k) := by
  obtain ⟨b1, b2, b3, b4⟩ := bdiv_init_consts
  obtain ⟨hWk1, hWk8, _⟩ := log_n_max_spec k (by omega)
  unfold bdiv_bin_uiui
  simp only
  generalize (min (SOME_THRESHOLD - 1 + max (3 * (1 + n / 64) / 2) SOME_THRESHOLD) k + 1) = alloc
  have hpost := bdivLoop_spec n k alloc (by omega) h2k hn k
    { np := 1, nn := 1, i := n - k + 1, i2cnt := 0, j := ODD_FACTORIAL_TABLE_LIMIT + 1, jjj := ODD_FACTORIAL_TABLE_MAX,
      j2cnt := fac2cntTab (ODD_FACTORIAL_TABLE_LIMIT / 2 - 1), kmax := log_n_max k, numfac := 1, ok := true }
    ⟨1, by simp only [Nat.one_mul, Nat.add_sub_cancel]; exact b1, by simp, b2, b3, by simp, le_refl 1,
      by simp [B_eq], by simp only [Nat.sub_self, Nat.add_zero]; rw [Nat.mod_eq_of_lt (by omega)], le_refl 1,
      by simp only; omega, by simp only; omega, hWk1, le_refl _⟩
  generalize bdivLoop k (log_n_max n) alloc k _ = r at hpost ⊢
  by_cases hok : r.ok = true
  · right
    obtain ⟨e1, e2⟩ := hpost hok
    simp only [hok, Bool.not_true, Bool.false_eq_true, if_false]
    congr 1
    have hle : r.j2cnt ≤ r.i2cnt := by
      have hd : 2 ^ r.j2cnt ∣ r.np * 2 ^ r.i2cnt := ⟨_, e1⟩
      have hcop : Nat.Coprime (2 ^ r.j2cnt) r.np := by
        apply Nat.Coprime.pow_left
        rw [Nat.Prime.coprime_iff_not_dvd Nat.prime_two]; omega
      have := hcop.dvd_of_dvd_mul_left hd
      exact (Nat.pow_dvd_pow_iff_le_right (by omega)).mp this
    rw [Nat.shiftLeft_eq]
    have : r.np * 2 ^ (r.i2cnt - r.j2cnt) * 2 ^ r.j2cnt = n.choose k * 2 ^ r.j2cnt := by
      rw [mul_assoc, ← pow_add, Nat.sub_add_cancel hle, e1, mul_comm]
    exact Nat.eq_of_mul_eq_mul_right (by positivity) this
  · left
    simp [hok]

/-! ## the scratch area is large enough (`ASSERT (nn < alloc)`), the loop terminates -/

theorem bdivK_kn (k : ℕ) : ∀ fuel kp kn j j2 kmax, kn ≤ SOME_THRESHOLD → (bdivK k fuel kp kn j j2 kmax).2.1 ≤ SOME_THRESHOLD := by
  intro fuel
  induction fuel with
  | zero => intro kp kn j j2 kmax h; exact h
  | succ fuel ih =>
    intro kp kn j j2 kmax h
    unfold bdivK
    by_cases hc : kmax ≠ 0 ∧ kn < SOME_THRESHOLD
    · rw [if_pos hc]
      apply ih
      split <;> omega
    · rw [if_neg hc]; exact h

/-- limb count of the dividend: at most one more limb per chunk, and never more than one above the true size -/
theorem bdivN_size (n a nmax : ℕ) (ha : 1 ≤ a) (hn : n < B) (h1 : 1 ≤ nmax) (h8 : nmax ≤ 8) (hfit : n ^ nmax < B) :
    ∀ fuel numfac np nn i i2 c, numfac ≤ fuel → i = (a + c) % B → a + c + numfac ≤ n + 1 → B ^ nn ≤ np * B ^ 2 →
      (bdivN nmax fuel numfac np nn i i2).2.1 ≤ nn + numfac ∧
      B ^ (bdivN nmax fuel numfac np nn i i2).2.1 ≤ (bdivN nmax fuel numfac np nn i i2).1 * B ^ 2 := by
  intro fuel
  induction fuel with
  | zero =>
    intro numfac np nn i i2 c g1 _ _ g4
    simp only [bdivN]; exact ⟨by omega, g4⟩
  | succ fuel ih =>
    intro numfac np nn i i2 c g1 g2 g3 g4
    unfold bdivN
    by_cases h0 : numfac = 0
    · subst h0; simp only [if_true]; exact ⟨by omega, g4⟩
    · simp only [h0, if_false, Nat.add_assoc i2]
      have hw1 : 1 ≤ min nmax numfac := by simp only [Nat.le_min]; omega
      have hwm : min nmax numfac ≤ nmax := Nat.min_le_left _ _
      have hwf : min nmax numfac ≤ numfac := Nat.min_le_right _ _
      generalize min nmax numfac = w at hw1 hwm hwf ⊢
      have hi : i = a + c := by rw [g2, Nat.mod_eq_of_lt (by omega)]
      have hf : (i + w - 1) ^ w < B :=
        lt_of_le_of_lt (Nat.pow_le_pow_left (by omega) w) (pow_fit_le hfit hwm)
      obtain ⟨_, c2, _⟩ := chunk_spec w i hw1 (by omega) (by omega) hf
      generalize mulfunc w i >>> ctz (mulfunc w i) = o at c2 ⊢
      generalize tcnt (w - 1) + ctz (mulfunc w i) = tw
      have ho : 1 ≤ o := by omega
      have hB2 : 0 < B ^ 2 := Nat.pow_pos B_pos
      have hstep : B ^ (nn + (if np * o / B ^ nn ≠ 0 then 1 else 0)) ≤ np * o * B ^ 2 := by
        by_cases h : np * o / B ^ nn ≠ 0
        · rw [if_pos h]
          have hge : B ^ nn ≤ np * o := by
            by_contra hc
            exact h (Nat.div_eq_of_lt (by omega))
          calc B ^ (nn + 1) = B ^ nn * B := pow_succ _ _
            _ ≤ B ^ nn * B ^ 2 := Nat.mul_le_mul_left _ (by rw [pow_two]; exact Nat.le_mul_of_pos_right B B_pos)
            _ ≤ np * o * B ^ 2 := Nat.mul_le_mul_right _ hge
        · rw [if_neg h, Nat.add_zero]
          calc B ^ nn ≤ np * B ^ 2 := g4
            _ ≤ np * o * B ^ 2 := Nat.mul_le_mul_right _ (Nat.le_mul_of_pos_right np ho)
      have := ih (numfac - w) (np * o) (nn + (if np * o / B ^ nn ≠ 0 then 1 else 0)) ((i + w) % B) (i2 + tw) (c + w)
        (by omega) (by rw [hi]; congr 1; omega) (by omega) hstep
      refine ⟨le_trans this.1 ?_, this.2⟩
      split <;> omega

/-- the first chunk multiplies np = 1: no new limb -/
theorem bdivN_size_first (n a nmax : ℕ) (ha : 1 ≤ a) (hn : n < B) (h1 : 1 ≤ nmax) (h8 : nmax ≤ 8) (hfit : n ^ nmax < B)
    (fuel numfac i i2 c : ℕ) (g1 : numfac ≤ fuel) (g0 : 1 ≤ numfac) (g2 : i = (a + c) % B) (g3 : a + c + numfac ≤ n + 1) :
    (bdivN nmax fuel numfac 1 1 i i2).2.1 ≤ numfac := by
  obtain ⟨fuel, rfl⟩ : ∃ f, fuel = f + 1 := ⟨fuel - 1, by omega⟩
  unfold bdivN
  have h0 : numfac ≠ 0 := by omega
  simp only [h0, if_false, Nat.add_assoc i2]
  have hw1 : 1 ≤ min nmax numfac := by simp only [Nat.le_min]; omega
  have hwm : min nmax numfac ≤ nmax := Nat.min_le_left _ _
  have hwf : min nmax numfac ≤ numfac := Nat.min_le_right _ _
  generalize min nmax numfac = w at hw1 hwm hwf ⊢
  have hi : i = a + c := by rw [g2, Nat.mod_eq_of_lt (by omega)]
  have hf : (i + w - 1) ^ w < B :=
    lt_of_le_of_lt (Nat.pow_le_pow_left (by omega) w) (pow_fit_le hfit hwm)
  obtain ⟨_, c2, c3⟩ := chunk_spec w i hw1 (by omega) (by omega) hf
  generalize mulfunc w i >>> ctz (mulfunc w i) = o at c2 c3 ⊢
  generalize tcnt (w - 1) + ctz (mulfunc w i) = tw
  have hz : 1 * o / B ^ 1 = 0 := by rw [Nat.one_mul, pow_one]; exact Nat.div_eq_of_lt c3
  rw [hz]
  simp only [ne_eq, not_true_eq_false, if_false, Nat.add_zero]
  have := (bdivN_size n a nmax ha hn h1 h8 hfit fuel (numfac - w) (1 * o) 1 ((i + w) % B) (i2 + tw) (c + w) (by omega)
    (by rw [hi]; congr 1; omega) (by omega) (by
      rw [pow_one, Nat.one_mul, pow_two]
      calc B ≤ 1 * (B * B) := by rw [Nat.one_mul]; exact Nat.le_mul_of_pos_right B B_pos
        _ ≤ o * (B * B) := Nat.mul_le_mul_right _ (by omega))).1
  omega

theorem quot_denorm {N D Q nn kn : ℕ} (h : N = D * Q) (hnn : 1 ≤ nn) (_hN : N < B ^ nn) (hkn : 1 ≤ kn)
    (hDlo : B ^ (kn - 1) ≤ D) (hDhi : D < B ^ kn)
    (hden : B ^ nn ≤ N * B ^ 2) (hsz : kn < nn + (if topLimb N nn ≥ topLimb D kn then 1 else 0)) :
    B ^ (nn + (if topLimb N nn ≥ topLimb D kn then 1 else 0) - kn) ≤ Q * B ^ 2 := by
  have hBk : 0 < B ^ kn := Nat.pow_pos B_pos
  have hcancel : ∀ e, B ^ e * B ^ kn ≤ Q * B ^ 2 * B ^ kn → B ^ e ≤ Q * B ^ 2 := fun e he => Nat.le_of_mul_le_mul_right he hBk
  have hQD : Q * D ≤ Q * B ^ kn := Nat.mul_le_mul_left Q (le_of_lt hDhi)
  by_cases hc : topLimb N nn ≥ topLimb D kn
  · rw [if_pos hc] at hsz ⊢
    -- top limb of N is at least that of D ≥ 1, so N ≥ B^(nn-1)
    have htD : 1 ≤ topLimb D kn := by
      unfold topLimb
      have hlt : D / B ^ (kn - 1) < B := by
        apply Nat.div_lt_of_lt_mul; rw [← pow_succ]; rwa [Nat.sub_add_cancel hkn]
      rw [Nat.mod_eq_of_lt hlt]
      exact Nat.div_pos hDlo (Nat.pow_pos B_pos)
    have hNlo : B ^ (nn - 1) ≤ N := by
      by_contra hlt
      have : N / B ^ (nn - 1) = 0 := Nat.div_eq_of_lt (by omega)
      have : topLimb N nn = 0 := by unfold topLimb; rw [this, Nat.zero_mod]
      omega
    apply hcancel
    rw [← pow_add, show nn + 1 - kn + kn = nn - 1 + 2 by omega, pow_add]
    calc B ^ (nn - 1) * B ^ 2 ≤ N * B ^ 2 := Nat.mul_le_mul_right _ hNlo
      _ = Q * D * B ^ 2 := by rw [h]; ring
      _ ≤ Q * B ^ kn * B ^ 2 := Nat.mul_le_mul_right _ hQD
      _ = Q * B ^ 2 * B ^ kn := by ring
  · rw [if_neg hc] at hsz ⊢
    apply hcancel
    rw [← pow_add, show nn + 0 - kn + kn = nn by omega]
    calc B ^ nn ≤ N * B ^ 2 := hden
      _ = Q * D * B ^ 2 := by rw [h]; ring
      _ ≤ Q * B ^ kn * B ^ 2 := Nat.mul_le_mul_right _ hQD
      _ = Q * B ^ 2 * B ^ kn := by ring

/-- the exact quotient of the accumulated dividend by the accumulated divisor -/
theorem quot_exists {O0 kp np' j2' i2' a c : ℕ} (hO0 : 0 < O0) (k1 : O0 * kp * 2 ^ j2' = c !)
    (n2 : O0 * np' * 2 ^ i2' = a.ascFactorial c) (k2 : kp % 2 = 1) (n3 : np' % 2 = 1) :
    ∃ Q, np' = kp * Q ∧ Q * 2 ^ i2' = 2 ^ j2' * (a + c - 1).choose c ∧ Q % 2 = 1 ∧ Q ≤ (a + c - 1).choose c := by
  have hkp : 0 < kp := by omega
  have hmain : np' * 2 ^ i2' = kp * (2 ^ j2' * (a + c - 1).choose c) := by
    have e := Nat.ascFactorial_eq_factorial_mul_choose' a c
    rw [← k1] at e
    rw [e] at n2
    have : O0 * (np' * 2 ^ i2') = O0 * (kp * (2 ^ j2' * (a + c - 1).choose c)) := by rw [← mul_assoc, n2]; ring
    exact Nat.eq_of_mul_eq_mul_left hO0 this
  have hcop : Nat.Coprime kp (2 ^ i2') := by
    apply Nat.Coprime.pow_right
    rw [Nat.coprime_comm, Nat.Prime.coprime_iff_not_dvd Nat.prime_two]
    omega
  obtain ⟨Q, hQ⟩ := hcop.dvd_of_dvd_mul_right ⟨_, hmain⟩
  have hQC : Q * 2 ^ i2' = 2 ^ j2' * (a + c - 1).choose c := by
    rw [hQ, mul_assoc] at hmain
    exact Nat.eq_of_mul_eq_mul_left hkp hmain
  have hQodd : Q % 2 = 1 := odd_of_mul_odd (hQ ▸ n3)
  refine ⟨Q, hQ, hQC, hQodd, ?_⟩
  have hcop2 : Nat.Coprime Q (2 ^ j2') := by
    apply Nat.Coprime.pow_right
    rw [Nat.coprime_comm, Nat.Prime.coprime_iff_not_dvd Nat.prime_two]
    omega
  have hd : Q ∣ (a + c - 1).choose c := hcop2.dvd_of_dvd_mul_left ⟨_, hQC.symm⟩
  have hpos : 0 < (a + c - 1).choose c := by
    rcases Nat.eq_zero_or_pos ((a + c - 1).choose c) with h0 | h0
    · rw [h0, Nat.mul_zero] at hQC
      have : 0 < Q * 2 ^ i2' := Nat.mul_pos (by omega) (by positivity)
      omega
    · exact h0
  exact Nat.le_of_dvd hpos hd

def LInv2 (st : BdivSt) : Prop :=
  st.ok = true ∧ B ^ st.nn ≤ st.np * B ^ 2 ∧ (st.nn + 1 ≤ st.numfac ∨ (st.np = 1 ∧ st.nn = 1 ∧ st.numfac = 1 ∧ 2 ≤ st.j))

theorem some_threshold_eq : SOME_THRESHOLD = 20 := by decide

/-- every `ASSERT (nn < alloc)` of bin_uiui.c:321 holds, the quotient is never empty, and the loop ends within k passes -/
theorem bdivLoop_total (n k : ℕ) (hk1 : 1 ≤ k) (h2k : 2 * k ≤ n) (hn : n < B) :
    ∀ fuel st, LInv k (n - k + 1) (log_n_max k) st → LInv2 st → k + 1 - st.j < fuel →
      (bdivLoop k (log_n_max n) (min (SOME_THRESHOLD - 1 + max (3 * (1 + n / 64) / 2) SOME_THRESHOLD) k + 1) fuel st).ok = true := by
  obtain ⟨hWk1, hWk8, hWkfit⟩ := log_n_max_spec k (by omega)
  obtain ⟨hWn1, hWn8, hWnfit⟩ := log_n_max_spec n hn
  have hST := some_threshold_eq
  intro fuel
  induction fuel with
  | zero => intro st _ _ hf; omega
  | succ fuel ih =>
    intro st hinv hinv2 hfuel
    obtain ⟨O0, l1, l2, l3, l4, l5, l6, l7, l8, l9, l10, l11, l12, l13⟩ := hinv
    obtain ⟨m1, m2, m3⟩ := hinv2
    unfold bdivLoop
    have ht : (k + B - st.j + 1) % B = k + 1 - st.j := by
      have : k + B - st.j + 1 = (k + 1 - st.j) + B := by omega
      rw [this, Nat.add_mod_right, Nat.mod_eq_of_lt (by omega)]
    simp only [ht]
    have hK := bdivK_spec k (log_n_max k) O0 hWk8 hWkfit (by omega) k st.jjj 1 st.j st.j2cnt (min st.kmax (k + 1 - st.j))
      ⟨l1, l3, le_refl 1, by simp; omega, by simpa using l4, by omega,
        by have := Nat.min_le_right st.kmax (k + 1 - st.j); omega, le_trans (Nat.min_le_left _ _) l13,
        by intro h0
           by_cases hle : st.kmax ≤ k + 1 - st.j
           · rw [Nat.min_eq_left hle] at h0; omega
           · rw [Nat.min_eq_right (by omega)] at h0; omega⟩
    have hKn := bdivK_kn k k st.jjj 1 st.j st.j2cnt (min st.kmax (k + 1 - st.j)) (by omega)
    generalize bdivK k k st.jjj 1 st.j st.j2cnt (min st.kmax (k + 1 - st.j)) = rK at hK hKn ⊢
    obtain ⟨kp, kn, j', j2', kmax'⟩ := rK
    simp only at hK hKn ⊢
    obtain ⟨⟨k1, k2, k3, k4, k5, k6, k7, k8, k9⟩, hjle⟩ := hK
    have hN := bdivN_spec n (n - k + 1) O0 (log_n_max n) (by omega) hn hWn1 hWn8 hWnfit k (j' - st.numfac) st.np st.nn st.i
      st.i2cnt (st.numfac - 1) (by omega) l8 l2 l5 l6 l7 (by omega)
    have hS := bdivN_size n (n - k + 1) (log_n_max n) (by omega) hn hWn1 hWn8 hWnfit k (j' - st.numfac) st.np st.nn st.i
      st.i2cnt (st.numfac - 1) (by omega) l8 (by omega) m2
    have hS1 : (bdivN (log_n_max n) k (j' - st.numfac) st.np st.nn st.i st.i2cnt).2.1 + 1 ≤ j' := by
      rcases m3 with m3 | ⟨m3a, m3b, m3c, m3d⟩
      · have := hS.1; omega
      · rw [m3a, m3b]
        have := bdivN_size_first n (n - k + 1) (log_n_max n) (by omega) hn hWn1 hWn8 hWnfit k (j' - st.numfac) st.i st.i2cnt
          (st.numfac - 1) (by omega) (by omega) l8 (by omega)
        have h4 : j' - st.numfac + 1 ≤ j' := by omega
        exact le_trans (Nat.add_le_add_right this 1) h4
    generalize bdivN (log_n_max n) k (j' - st.numfac) st.np st.nn st.i st.i2cnt = rN at hN hS hS1 ⊢
    obtain ⟨np', nn', i', i2'⟩ := rN
    simp only at hN hS hS1 ⊢
    obtain ⟨n1, n2, n3, n4, n5⟩ := hN
    obtain ⟨_, hden⟩ := hS
    rw [show st.numfac - 1 + (j' - st.numfac) = j' - 1 by omega] at n2
    rw [show n - k + 1 + (st.numfac - 1) + (j' - st.numfac) = n - k + 1 + (j' - 1) by omega] at n1
    have hO0 : 0 < O0 := by
      rcases Nat.eq_zero_or_pos O0 with h | h
      · rw [h] at l1; simp at l1; exact absurd l1.symm (Nat.factorial_ne_zero _)
      · exact h
    obtain ⟨Q, hQ, hQC, hQodd, hQle⟩ := quot_exists hO0 k1 n2 k2 n3
    have hQ1 : 1 ≤ Q := by omega
    obtain ⟨s1, s2⟩ := quot_size hQ hQ1 n5 n4 k3 k4 k5
    have hden2 := quot_denorm hQ n4 n5 k3 k4 k5 hden s1
    -- ASSERT (nn < alloc)
    have halloc : nn' < min (SOME_THRESHOLD - 1 + max (3 * (1 + n / 64) / 2) SOME_THRESHOLD) k + 1 := by
      have hA : nn' ≤ k := by omega
      have hB' : nn' < (1 + n / 64) + 22 := by
        have hQlt : Q < B ^ (1 + n / 64) := by
          have h1 : (n - k + 1 + (j' - 1) - 1).choose (j' - 1) ≤ 2 ^ (n - k + 1 + (j' - 1) - 1) := Nat.choose_le_two_pow _ _
          have h2 : 2 ^ (n - k + 1 + (j' - 1) - 1) < 2 ^ (64 * (1 + n / 64)) :=
            Nat.pow_lt_pow_right (by omega) (by omega)
          have h3 : B ^ (1 + n / 64) = 2 ^ (64 * (1 + n / 64)) := by
            rw [show B = 2 ^ 64 by rw [B_eq]; norm_num, ← pow_mul]
          rw [h3]; omega
        have hkp20 : kp < B ^ 20 := lt_of_lt_of_le k5 (Nat.pow_le_pow_right B_pos (by omega))
        have hnp : np' < B ^ 20 * B ^ (1 + n / 64) := by rw [hQ]; exact Nat.mul_lt_mul'' hkp20 hQlt
        have : B ^ nn' < B ^ (1 + n / 64 + 22) := by
          calc B ^ nn' ≤ np' * B ^ 2 := hden
            _ < B ^ 20 * B ^ (1 + n / 64) * B ^ 2 := Nat.mul_lt_mul_of_pos_right hnp (Nat.pow_pos B_pos)
            _ = B ^ (1 + n / 64 + 22) := by rw [← pow_add, ← pow_add]; congr 1; omega
        exact (Nat.pow_lt_pow_iff_right (by rw [B_eq]; norm_num : 1 < B)).mp this
      rw [hST]
      omega
    have hinc : (if topLimb np' nn' ≥ topLimb kp kn then 1 else 0) ≤ 1 := by split <;> omega
    generalize (if topLimb np' nn' ≥ topLimb kp kn then 1 else 0) = inc at s1 s2 hden2 hinc ⊢
    have hval := bdiv_value np' kp Q (nn' + inc - kn) hQ k2 (by omega) s2
    rw [hval]
    have hok : (st.ok && decide (nn' < min (SOME_THRESHOLD - 1 + max (3 * (1 + n / 64) / 2) SOME_THRESHOLD) k + 1) &&
        decide (kn < nn' + inc)) = true := by
      simp only [Bool.and_eq_true, decide_eq_true_eq]; exact ⟨⟨m1, halloc⟩, s1⟩
    by_cases hk0 : kmax' = 0
    · rw [if_pos hk0]
      exact hok
    · rw [if_neg hk0]
      have hkm1 : 1 ≤ kmax' := by omega
      have hfit : (j' + kmax' - 1) ^ kmax' < B :=
        lt_of_le_of_lt (Nat.pow_le_pow_left (by omega) kmax') (pow_fit_le hWkfit k8)
      obtain ⟨c1, c2, c3⟩ := chunk_spec kmax' j' hkm1 (by omega) k6 hfit
      apply ih
      · refine ⟨O0 * kp, ?_, ?_, c2, c3, hQodd, (by show 1 ≤ nn' + inc - kn; omega), s2, ?_, k6, ?_, ?_, hkm1, k8⟩
        · simp only
          rw [Nat.mod_eq_of_lt (by omega), Nat.add_assoc j2', pow_add,
            show O0 * kp * (mulfunc kmax' j' >>> ctz (mulfunc kmax' j')) * (2 ^ j2' * 2 ^ (tcnt (kmax' - 1) + ctz (mulfunc kmax' j'))) =
              O0 * kp * 2 ^ j2' * ((mulfunc kmax' j' >>> ctz (mulfunc kmax' j')) * 2 ^ (tcnt (kmax' - 1) + ctz (mulfunc kmax' j'))) by ring,
            k1, c1, Nat.factorial_mul_ascFactorial' j' kmax' (by omega)]
        · simp only
          rw [← n2, hQ]; ring
        · simp only
          exact n1
        · simp only
          rw [Nat.mod_eq_of_lt (by omega)]; omega
        · simp only
          rw [Nat.mod_eq_of_lt (by omega)]; omega
      · refine ⟨hok, hden2, Or.inl ?_⟩
        show nn' + inc - kn + 1 ≤ j'
        omega
      · show k + 1 - (j' + kmax') % B < fuel
        rw [Nat.mod_eq_of_lt (by omega)]; omega

/-- **mpz_bdiv_bin_uiui (n, k) = binomial (n, k)** for every k > ODD_FACTORIAL_TABLE_LIMIT, 2k ≤ n < 2^64: the scratch
    area always suffices, every partial 2-adic division is exact and fits, the final shift count is ≥ 0. -/
theorem bdiv_bin_uiui_eq (n k : ℕ) (hk : ODD_FACTORIAL_TABLE_LIMIT < k) (h2k : 2 * k ≤ n) (hn : n < B) :
    bdiv_bin_uiui n k = some (n.choose k) := by
  rcases bdiv_bin_uiui_some n k hk h2k hn with h | h
  · exfalso
    obtain ⟨b1, b2, b3, b4⟩ := bdiv_init_consts
    obtain ⟨hWk1, hWk8, _⟩ := log_n_max_spec k (by omega)
    unfold bdiv_bin_uiui at h
    simp only at h
    have htot := bdivLoop_total n k (by omega) h2k hn k
      { np := 1, nn := 1, i := n - k + 1, i2cnt := 0, j := ODD_FACTORIAL_TABLE_LIMIT + 1, jjj := ODD_FACTORIAL_TABLE_MAX,
        j2cnt := fac2cntTab (ODD_FACTORIAL_TABLE_LIMIT / 2 - 1), kmax := log_n_max k, numfac := 1, ok := true }
      ⟨1, by simp only [Nat.one_mul, Nat.add_sub_cancel]; exact b1, by simp, b2, b3, by simp, le_refl 1,
        by simp [B_eq], by simp only [Nat.sub_self, Nat.add_zero]; rw [Nat.mod_eq_of_lt (by omega)], le_refl 1,
        by simp only; omega, by simp only; omega, hWk1, le_refl _⟩
      ⟨rfl, by simp only [pow_one, Nat.one_mul, pow_two]; exact Nat.le_mul_of_pos_right B B_pos, Or.inr ⟨rfl, rfl, rfl, by simp only; omega⟩⟩
      (by simp only; omega)
    rw [htot] at h
    simp at h
  · exact h

/-! ## `ASSERT (cnt < GMP_NUMB_BITS)` (bin_uiui.c:346): binomial (n, k) has fewer than 64 factors of two when n < 2^64 -/

theorem popc_succ_eq (f a : ℕ) : popc (f + 1) a = a % 2 + popc f (a / 2) := by
  rw [popc]
  by_cases h : a = 0
  · subst h; cases f <;> simp [popc]
  · simp [h]

/-- Kummer for p = 2, as an inequality: adding a + b (+ carry-in c) below 2^f produces at most f − 1 carries -/
theorem popc_add_le : ∀ f, 1 ≤ f → ∀ a b c, c ≤ 1 → a + b + c < 2 ^ f → popc f a + popc f b + c + 1 ≤ popc f (a + b + c) + f := by
  intro f hf
  induction f, hf using Nat.le_induction with
  | base =>
    intro a b c hc h
    have ha : a ≤ 1 := by omega
    have hb : b ≤ 1 := by omega
    interval_cases a <;> interval_cases b <;> interval_cases c <;> simp_all [popc]
  | succ f hf ih =>
    intro a b c hc h
    rw [pow_succ] at h
    have h2 : (a + b + c) / 2 = a / 2 + b / 2 + (a % 2 + b % 2 + c) / 2 := by omega
    have h3 : (a + b + c) % 2 = (a % 2 + b % 2 + c) % 2 := by omega
    have := ih (a / 2) (b / 2) ((a % 2 + b % 2 + c) / 2) (by omega) (by omega)
    rw [popc_succ_eq, popc_succ_eq, popc_succ_eq f (a + b + c), h2, h3]
    omega

theorem choose_not_dvd_two_pow_64 (n k : ℕ) (hn : n < B) (hk : k ≤ n) : ¬ 2 ^ 64 ∣ n.choose k := by
  intro hdvd
  obtain ⟨C', hC'⟩ := hdvd
  have h1 := factorial_two_adic n hn
  have h2 := factorial_two_adic k (by omega)
  have h3 := factorial_two_adic (n - k) (by omega)
  have hmul := Nat.choose_mul_factorial_mul_factorial hk
  have hle := popc_add_le 64 (by omega) k (n - k) 0 (le_refl _ |>.trans (by omega)) (by
    rw [B_eq] at hn; norm_num; omega)
  simp only [Nat.add_zero] at hle
  rw [show k + (n - k) = n by omega] at hle
  have hp1 := popc_le 64 k
  have hp2 := popc_le 64 (n - k)
  have hp3 := popc_le 64 n
  unfold popcount at h1 h2 h3
  generalize popc 64 k = sk at *
  generalize popc 64 (n - k) = sm at *
  generalize popc 64 n = sn at *
  -- 2^(64 + (k - sk) + (n-k - sm)) divides n! = 2^(n - sn) · odd
  have hd : 2 ^ (64 + (k - sk) + (n - k - sm)) ∣ 2 ^ (n - sn) * oddPart (n !) := by
    rw [← h1, ← hmul, hC', h2, h3]
    refine ⟨C' * oddPart (k !) * oddPart ((n - k)!), ?_⟩
    rw [pow_add, pow_add]; ring
  have hodd := (oddPart_spec (n !) (Nat.factorial_ne_zero n)).1
  have hcop : Nat.Coprime (2 ^ (64 + (k - sk) + (n - k - sm))) (oddPart (n !)) := by
    apply Nat.Coprime.pow_left
    rw [Nat.Prime.coprime_iff_not_dvd Nat.prime_two]; omega
  have := hcop.dvd_of_dvd_mul_right hd
  have := (Nat.pow_dvd_pow_iff_le_right (by omega : 1 < 2)).mp this
  omega

/-- the state in which the `while (1)` loop of mpz_bdiv_bin_uiui ends -/
def bdivFinal (n k : ℕ) : BdivSt :=
  bdivLoop k (log_n_max n) (min (SOME_THRESHOLD - 1 + max (3 * (1 + n / 64) / 2) SOME_THRESHOLD) k + 1) k
    { np := 1, nn := 1, i := n - k + 1, i2cnt := 0, j := ODD_FACTORIAL_TABLE_LIMIT + 1, jjj := ODD_FACTORIAL_TABLE_MAX,
      j2cnt := fac2cntTab (ODD_FACTORIAL_TABLE_LIMIT / 2 - 1), kmax := log_n_max k, numfac := 1, ok := true }

theorem bdiv_bin_uiui_unfold (n k : ℕ) : bdiv_bin_uiui n k =
    if !(bdivFinal n k).ok then none else some ((bdivFinal n k).np <<< ((bdivFinal n k).i2cnt - (bdivFinal n k).j2cnt)) := rfl

/-- `cnt = i2cnt - j2cnt` (bin_uiui.c:343) is a difference of naturals (no wrap) and satisfies `ASSERT (cnt < GMP_NUMB_BITS)`:
    mpn_lshift is called with a legal count -/
theorem bdiv_shift_count (n k : ℕ) (hk : ODD_FACTORIAL_TABLE_LIMIT < k) (h2k : 2 * k ≤ n) (hn : n < B) :
    (bdivFinal n k).j2cnt ≤ (bdivFinal n k).i2cnt ∧ (bdivFinal n k).i2cnt - (bdivFinal n k).j2cnt < 64 := by
  obtain ⟨b1, b2, b3, b4⟩ := bdiv_init_consts
  obtain ⟨hWk1, hWk8, _⟩ := log_n_max_spec k (by omega)
  have hinit : LInv k (n - k + 1) (log_n_max k)
      { np := 1, nn := 1, i := n - k + 1, i2cnt := 0, j := ODD_FACTORIAL_TABLE_LIMIT + 1, jjj := ODD_FACTORIAL_TABLE_MAX,
        j2cnt := fac2cntTab (ODD_FACTORIAL_TABLE_LIMIT / 2 - 1), kmax := log_n_max k, numfac := 1, ok := true } :=
    ⟨1, by simp only [Nat.one_mul, Nat.add_sub_cancel]; exact b1, by simp, b2, b3, by simp, le_refl 1,
      by simp [B_eq], by simp only [Nat.sub_self, Nat.add_zero]; rw [Nat.mod_eq_of_lt (by omega)], le_refl 1,
      by simp only; omega, by simp only; omega, hWk1, le_refl _⟩
  have htot := bdivLoop_total n k (by omega) h2k hn k _ hinit
    ⟨rfl, by simp only [pow_one, Nat.one_mul, pow_two]; exact Nat.le_mul_of_pos_right B B_pos, Or.inr ⟨rfl, rfl, rfl, by simp only; omega⟩⟩
    (by simp only; omega)
  have hpost := bdivLoop_spec n k (min (SOME_THRESHOLD - 1 + max (3 * (1 + n / 64) / 2) SOME_THRESHOLD) k + 1) (by omega) h2k hn k _ hinit
  obtain ⟨e1, e2⟩ := hpost htot
  change (bdivFinal n k).np * 2 ^ (bdivFinal n k).i2cnt = 2 ^ (bdivFinal n k).j2cnt * n.choose k at e1
  change (bdivFinal n k).np % 2 = 1 at e2
  generalize bdivFinal n k = r at e1 e2 ⊢
  have hle : r.j2cnt ≤ r.i2cnt := by
    have hd : 2 ^ r.j2cnt ∣ r.np * 2 ^ r.i2cnt := ⟨_, e1⟩
    have hcop : Nat.Coprime (2 ^ r.j2cnt) r.np := by
      apply Nat.Coprime.pow_left
      rw [Nat.Prime.coprime_iff_not_dvd Nat.prime_two]; omega
    exact (Nat.pow_dvd_pow_iff_le_right (by omega)).mp (hcop.dvd_of_dvd_mul_left hd)
  refine ⟨hle, ?_⟩
  by_contra hge
  have h64 : 64 ≤ r.i2cnt - r.j2cnt := by omega
  have hC : r.np * 2 ^ (r.i2cnt - r.j2cnt) = n.choose k := by
    have : r.np * 2 ^ (r.i2cnt - r.j2cnt) * 2 ^ r.j2cnt = n.choose k * 2 ^ r.j2cnt := by
      rw [mul_assoc, ← pow_add, Nat.sub_add_cancel hle, e1, mul_comm]
    exact Nat.eq_of_mul_eq_mul_right (by positivity) this
  apply choose_not_dvd_two_pow_64 n k hn (by omega)
  rw [← hC]
  exact Dvd.dvd.mul_left (Nat.pow_dvd_pow 2 h64) _

end Mpir.Numth
