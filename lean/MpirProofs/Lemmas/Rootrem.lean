import MpirProofs.Lemmas.Root
import Mpir.Model.Rootrem
