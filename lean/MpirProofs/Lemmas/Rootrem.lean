/- Helper lemmas for the `rootrem` part of C09 (Mpir/Model/Rootrem.lean): integer Newton iteration for n-th roots. -/
import MpirProofs.Lemmas.Root
import Mpir.Model.Rootrem
import Mathlib.Tactic.Ring
import Mathlib.Tactic.Linarith
import Mathlib.Tactic.Positivity
namespace Mpir.Rootrem
open Mpir Mpir.Root

/-! ### polynomial inequalities -/

/-- `(1 + d/s)^j ≤ s / (s − j·d)` without division. -/
theorem pow_add_mul_le (s d : Nat) : ∀ (j t : Nat), t + j * d ≤ s → (s + d) ^ j * t ≤ s ^ (j + 1)
  | 0, t, h => by simpa using h
  | j + 1, t, h => by
    have h' : (t + d) + j * d ≤ s := by rw [Nat.succ_mul] at h; omega
    have ih := pow_add_mul_le s d j (t + d) h'
    have ht : t ≤ s := by omega
    have h1 : (s + d) * t ≤ s * (t + d) := by nlinarith
    calc (s + d) ^ (j + 1) * t = (s + d) ^ j * ((s + d) * t) := by ring
      _ ≤ (s + d) ^ j * (s * (t + d)) := Nat.mul_le_mul_left _ h1
      _ = ((s + d) ^ j * (t + d)) * s := by ring
      _ ≤ s ^ (j + 1) * s := Nat.mul_le_mul_right _ ih
      _ = s ^ (j + 1 + 1) := by ring

/-- `(1 + d/s)^j ≤ 2` when `2·j·d ≤ s`. -/
theorem pow_add_le_two (s d j : Nat) (h : 2 * (j * d) ≤ s) : (s + d) ^ j ≤ 2 * s ^ j := by
  rcases Nat.eq_zero_or_pos s with hs | hs
  · subst hs
    rcases Nat.eq_zero_or_pos j with hj | hj
    · subst hj; simp
    · have hd : d = 0 := by
        by_contra hd
        have : 1 ≤ j * d := Nat.mul_pos hj (Nat.pos_of_ne_zero hd)
        omega
      subst hd; generalize 0 ^ j = z; omega
  · have h1 := pow_add_mul_le s d j (s - j * d) (by omega)
    have h2 : s ≤ 2 * (s - j * d) := by omega
    have h3 : (s + d) ^ j * s ≤ (2 * s ^ j) * s := by
      calc (s + d) ^ j * s ≤ (s + d) ^ j * (2 * (s - j * d)) := Nat.mul_le_mul_left _ h2
        _ = 2 * ((s + d) ^ j * (s - j * d)) := by ring
        _ ≤ 2 * s ^ (j + 1) := Nat.mul_le_mul_left _ h1
        _ = (2 * s ^ j) * s := by ring
    exact Nat.le_of_mul_le_mul_right h3 hs

/-- Newton's polynomial for `f(x) = x^n − a` at `x = y + d ≥ y` (`n = k + 2`):
    `0 ≤ y^n + (n−1)·x^n − n·y·x^(n−1) ≤ d²·n(n−1)/2·x^(n−2)`. -/
theorem newton_poly (y d : Nat) : ∀ k : Nat,
    (k + 2) * y * (y + d) ^ (k + 1) ≤ y ^ (k + 2) + (k + 1) * (y + d) ^ (k + 2) ∧
    2 * (y ^ (k + 2) + (k + 1) * (y + d) ^ (k + 2)) ≤
      2 * ((k + 2) * y * (y + d) ^ (k + 1)) + d ^ 2 * ((k + 2) * (k + 1)) * (y + d) ^ k
  | 0 => by
    constructor
    · have : 0 ≤ d * d := Nat.zero_le _
      simp only [Nat.zero_add, pow_one, pow_two, one_mul]; nlinarith
    · simp only [Nat.zero_add, pow_one, pow_two, pow_zero, one_mul, mul_one]; nlinarith
  | k + 1 => by
    obtain ⟨h1, h2⟩ := newton_poly y d k
    generalize hY : y ^ (k + 2) = Y at h1 h2
    generalize ha : (y + d) ^ k = a at h1 h2
    have e1 : (y + d) ^ (k + 1) = a * (y + d) := by rw [pow_succ, ha]
    have e2 : (y + d) ^ (k + 2) = a * (y + d) * (y + d) := by rw [pow_succ, e1]
    have e3 : (y + d) ^ (k + 1 + 2) = a * (y + d) * (y + d) * (y + d) := by rw [pow_succ, e2]
    have e4 : y ^ (k + 1 + 2) = Y * y := by rw [pow_succ, hY]
    have e5 : (y + d) ^ (k + 1 + 1) = a * (y + d) * (y + d) := e2
    rw [e1, e2] at h1 h2
    rw [e3, e4, e5, e1]
    have m1 := Nat.mul_le_mul_left y h1
    have m2 := Nat.mul_le_mul_left y h2
    have p1 : 0 ≤ (k + 2) * a * (y + d) * d ^ 2 := Nat.zero_le _
    have p2 : 0 ≤ (k + 2) * (k + 1) * a * d ^ 3 := Nat.zero_le _
    constructor
    · nlinarith [m1, p1]
    · nlinarith [m2, p2]


/-- Bernoulli: `(1 − c/W)^j ≥ 1 − j·c/W`. -/
theorem bernoulli_sub (W c : Nat) (hc : c ≤ W) : ∀ j : Nat, W ^ j * (W - j * c) ≤ W * (W - c) ^ j
  | 0 => by simp
  | j + 1 => by
    by_cases h : (j + 1) * c ≤ W
    · have ih := bernoulli_sub W c hc j
      obtain ⟨q, hq⟩ := Nat.exists_eq_add_of_le h
      have e1 : W - (j + 1) * c = q := by omega
      have e2 : W - j * c = q + c := by rw [Nat.succ_mul] at hq; omega
      have e3 : W - c = j * c + q := by rw [Nat.succ_mul] at hq; omega
      rw [e1]; rw [e2, e3] at ih; rw [e3]
      have h1 : W * q ≤ (q + c) * (j * c + q) := by rw [hq]; nlinarith [Nat.zero_le (j * c * c)]
      calc W ^ (j + 1) * q = W ^ j * (W * q) := by ring
        _ ≤ W ^ j * ((q + c) * (j * c + q)) := Nat.mul_le_mul_left _ h1
        _ = (W ^ j * (q + c)) * (j * c + q) := by ring
        _ ≤ (W * (j * c + q) ^ j) * (j * c + q) := Nat.mul_le_mul_right _ ih
        _ = W * (j * c + q) ^ (j + 1) := by ring
    · rw [Nat.sub_eq_zero_of_le (by omega)]; simp

/-! ### limb counts -/

theorem limbLen_le_iff (a n : Nat) : limbLen a ≤ n ↔ a < B ^ n := by
  have hB : B ^ n = 2 ^ (64 * n) := by unfold B; rw [← pow_mul]
  rw [hB]
  unfold limbLen
  rcases Nat.eq_zero_or_pos a with h0 | hp
  · subst h0; simp [bitLen]
  · obtain ⟨b1, b2, b3⟩ := bitLen_spec a hp
    constructor
    · intro h
      exact Nat.lt_of_lt_of_le b2 (Nat.pow_le_pow_right (by norm_num) (by omega))
    · intro h
      by_contra hc
      have : 2 ^ (64 * n) ≤ 2 ^ (bitLen a - 1) := Nat.pow_le_pow_right (by norm_num) (by omega)
      omega

theorem lt_pow_limbLen (a : Nat) : a < B ^ limbLen a := (limbLen_le_iff a _).mp (Nat.le_refl _)

theorem pow_limbLen_le (a : Nat) (ha : 0 < a) : B ^ (limbLen a - 1) ≤ a := by
  by_contra h
  have h1 := (limbLen_le_iff a (limbLen a - 1)).mpr (by omega)
  have h2 : limbLen a ≠ 0 := by
    intro h0
    have := lt_pow_limbLen a
    rw [h0] at this; simp at this; omega
  omega

theorem limbLen_mono {a b : Nat} (h : a ≤ b) : limbLen a ≤ limbLen b :=
  (limbLen_le_iff a _).mpr (Nat.lt_of_le_of_lt h (lt_pow_limbLen b))

theorem lt_limbLen_of_pow_le {a j : Nat} (h : B ^ j ≤ a) : j < limbLen a := by
  by_contra hc
  have := (limbLen_le_iff a j).mp (by omega)
  omega

/-! ### floor roots -/

theorem le_iroot {n U t : Nat} (hn : 0 < n) (h : t ^ n ≤ U) : t ≤ iroot n U := by
  by_contra hc
  have h1 : iroot n U + 1 ≤ t := by omega
  have := Nat.pow_le_pow_left h1 n
  have := (iroot_spec n U hn).2
  omega

theorem iroot_lt {n U t : Nat} (hn : 0 < n) (h : U < t ^ n) : iroot n U < t := by
  by_contra hc
  have h1 : t ≤ iroot n U := by omega
  have := Nat.pow_le_pow_left h1 n
  have := (iroot_spec n U hn).1
  omega

/-- the bit count the C derives for the root: `2^(xnb-1) ≤ root < 2^xnb` with `xnb = (bits(U) − 1)/n + 1`. -/
theorem iroot_bits (U n : Nat) (hU : 0 < U) (hn : 0 < n) :
    2 ^ ((bitLen U - 1) / n) ≤ iroot n U ∧ iroot n U < 2 ^ ((bitLen U - 1) / n + 1) := by
  obtain ⟨b1, b2, b3⟩ := bitLen_spec U hU
  have hdm := Nat.div_add_mod (bitLen U - 1) n
  have hml := Nat.mod_lt (bitLen U - 1) hn
  generalize (bitLen U - 1) / n = q at *
  generalize (bitLen U - 1) % n = r at *
  constructor
  · apply le_iroot hn
    rw [← pow_mul]
    exact Nat.le_trans (Nat.pow_le_pow_right (by norm_num) (by rw [Nat.mul_comm]; omega)) b1
  · apply iroot_lt hn
    rw [← pow_mul]
    refine Nat.lt_of_lt_of_le b2 (Nat.pow_le_pow_right (by norm_num) ?_)
    have : (q + 1) * n = n * q + n := by ring
    omega

/-! ### flipping a set bit -/

theorem xor_one_of_odd (y : Nat) (h : y % 2 = 1) : y ^^^ 1 = y - 1 := by
  have h1 : (y ^^^ 1) / 2 ^ 1 = y / 2 ^ 1 ^^^ 1 / 2 ^ 1 := Nat.xor_div_two_pow
  have h2 : (y ^^^ 1) % 2 ^ 1 = y % 2 ^ 1 ^^^ 1 % 2 ^ 1 := Nat.xor_mod_two_pow
  simp only [pow_one] at h1 h2
  rw [h] at h2
  have h3 : (1:Nat) / 2 = 0 := by norm_num
  rw [h3, Nat.xor_zero] at h1
  have h4 : (1:Nat) % 2 ^^^ 1 % 2 = 0 := by decide
  rw [h4] at h2
  omega

/-- flipping bit `b` of a number whose low `b+1` bits are all ones clears it. -/
theorem xor_flip (x b : Nat) (h : x % 2 ^ (b + 1) = 2 ^ (b + 1) - 1) :
    x ^^^ (1 <<< b) = x - 2 ^ b ∧ 2 ^ b ≤ x ∧ x % 2 ^ b = 2 ^ b - 1 ∧ (x - 2 ^ b) % 2 ^ b = 2 ^ b - 1 := by
  rw [Nat.one_shiftLeft]
  have hp : 0 < 2 ^ b := by positivity
  have hs : x % 2 ^ (b + 1) = x % 2 ^ b + 2 ^ b * (x / 2 ^ b % 2) := Nat.mod_pow_succ
  have hlt := Nat.mod_lt x hp
  have h2 : x / 2 ^ b % 2 < 2 := Nat.mod_lt _ (by norm_num)
  have hpw : 2 ^ (b + 1) = 2 * 2 ^ b := by ring
  have hodd : x / 2 ^ b % 2 = 1 := by
    rcases Nat.lt_succ_iff_lt_or_eq.mp h2 with h0 | h1
    · have : x / 2 ^ b % 2 = 0 := by omega
      rw [this] at hs; omega
    · exact h1
  rw [hodd] at hs
  have hlow : x % 2 ^ b = 2 ^ b - 1 := by omega
  have hdm := Nat.div_add_mod x (2 ^ b)
  have hq1 : 1 ≤ x / 2 ^ b := by
    generalize x / 2 ^ b = q at hodd ⊢
    omega
  have hge : 2 ^ b ≤ x := by
    calc 2 ^ b = 2 ^ b * 1 := by ring
      _ ≤ 2 ^ b * (x / 2 ^ b) := Nat.mul_le_mul_left _ hq1
      _ ≤ x := by omega
  have e1 : (x ^^^ 2 ^ b) / 2 ^ b = x / 2 ^ b ^^^ 2 ^ b / 2 ^ b := Nat.xor_div_two_pow
  have e2 : (x ^^^ 2 ^ b) % 2 ^ b = x % 2 ^ b ^^^ 2 ^ b % 2 ^ b := Nat.xor_mod_two_pow
  rw [Nat.div_self hp, xor_one_of_odd _ hodd] at e1
  rw [Nat.mod_self, Nat.xor_zero] at e2
  have hdm' := Nat.div_add_mod (x ^^^ 2 ^ b) (2 ^ b)
  rw [e1, e2] at hdm'
  have hmul : 2 ^ b * (x / 2 ^ b - 1) = 2 ^ b * (x / 2 ^ b) - 2 ^ b := by
    rw [Nat.mul_sub, Nat.mul_one]
  have hle : 2 ^ b ≤ 2 ^ b * (x / 2 ^ b) := by
    calc 2 ^ b = 2 ^ b * 1 := by ring
      _ ≤ _ := Nat.mul_le_mul_left _ hq1
  have hx' : x ^^^ 2 ^ b = x - 2 ^ b := by
    rw [← hdm', hmul]
    generalize 2 ^ b * (x / 2 ^ b) = c at *
    omega
  refine ⟨hx', hge, hlow, ?_⟩
  have : x - 2 ^ b = 2 ^ b * (x / 2 ^ b - 1) + x % 2 ^ b := by omega
  rw [this, Nat.mul_add_mod, Nat.mod_mod]; exact hlow


/-! ### the exact Newton iterate `⌊(⌊U / x^(n-1)⌋ + (n-1)·x) / n⌋` -/

def newtonTrue (U n x : Nat) : Nat := (U / x ^ (n - 1) + (n - 1) * x) / n

theorem newtonTrue_eq (U k x : Nat) (hx : 0 < x) :
    newtonTrue U (k + 2) x = (U + (k + 1) * x ^ (k + 2)) / ((k + 2) * x ^ (k + 1)) := by
  unfold newtonTrue
  have hD : 0 < x ^ (k + 1) := by positivity
  show (U / x ^ (k + 1) + (k + 1) * x) / (k + 2) = _
  rw [← Nat.add_mul_div_right _ _ hD, Nat.div_div_eq_div_mul]
  have e1 : (k + 1) * x * x ^ (k + 1) = (k + 1) * x ^ (k + 2) := by ring
  have e2 : x ^ (k + 1) * (k + 2) = (k + 2) * x ^ (k + 1) := by ring
  rw [e1, e2]

/-- the iterate never falls below the root (AM–GM), from any `x ≥ s`. -/
theorem newton_ge (U k s d : Nat) (hs : s ^ (k + 2) ≤ U) (hx : 0 < s + d) :
    s ≤ newtonTrue U (k + 2) (s + d) := by
  rw [newtonTrue_eq U k _ hx, Nat.le_div_iff_mul_le (by positivity)]
  have h := (newton_poly s d k).1
  calc s * ((k + 2) * (s + d) ^ (k + 1)) = (k + 2) * s * (s + d) ^ (k + 1) := by ring
    _ ≤ s ^ (k + 2) + (k + 1) * (s + d) ^ (k + 2) := h
    _ ≤ U + (k + 1) * (s + d) ^ (k + 2) := Nat.add_le_add_right hs _

/-- quadratic convergence from above: with `y = root + 1 ≤ x = y + d`, the new distance to `y` is at most any `e`
    with `d²·(n−1) ≤ 2·(e+1)·x`. -/
theorem newton_le (U k y d e : Nat) (hU : U < y ^ (k + 2)) (hx : 0 < y + d)
    (hde : d ^ 2 * (k + 1) ≤ 2 * (e + 1) * (y + d)) :
    newtonTrue U (k + 2) (y + d) ≤ y + e := by
  rw [newtonTrue_eq U k _ hx, ← Nat.lt_succ_iff, Nat.div_lt_iff_lt_mul (by positivity)]
  have h := (newton_poly y d k).2
  have h3 := Nat.mul_le_mul_right ((k + 2) * (y + d) ^ k) hde
  have e1 : (y + d) ^ (k + 1) = (y + d) ^ k * (y + d) := pow_succ _ _
  have e2 : (y + d) ^ (k + 2) = (y + d) ^ k * (y + d) * (y + d) := by rw [pow_succ, pow_succ]
  rw [e1, e2] at h
  rw [e1, e2]
  generalize (y + d) ^ k = a at *
  generalize y ^ (k + 2) = Y at *
  generalize y + d = x at *
  have h4 : 2 * (U + (k + 1) * (a * x * x)) < 2 * ((y + e).succ * ((k + 2) * (a * x))) := by
    have : 2 * (U + (k + 1) * (a * x * x)) < 2 * (Y + (k + 1) * (a * x * x)) := by omega
    have h5 : 2 * ((k + 2) * y * (a * x)) + d ^ 2 * ((k + 2) * (k + 1)) * a ≤
        2 * ((y + e).succ * ((k + 2) * (a * x))) := by
      have : d ^ 2 * ((k + 2) * (k + 1)) * a = d ^ 2 * (k + 1) * ((k + 2) * a) := by ring
      rw [this]
      have : 2 * ((y + e).succ * ((k + 2) * (a * x))) =
          2 * ((k + 2) * y * (a * x)) + 2 * (e + 1) * x * ((k + 2) * a) := by
        rw [Nat.succ_eq_add_one]; ring
      rw [this]
      exact Nat.add_le_add_left h3 _
    omega
  omega

/-- at the root itself (`x = root`, far enough above `2n`) the iterate is the root or one more. -/
theorem newton_le_root (U k x : Nat) (hU : U < (x + 1) ^ (k + 2)) (hx : 2 * (k + 2) ≤ x) :
    newtonTrue U (k + 2) x ≤ x + 1 := by
  have hx0 : 0 < x := by omega
  rw [newtonTrue_eq U k _ hx0, ← Nat.lt_succ_iff, Nat.div_lt_iff_lt_mul (by positivity)]
  have h1 := pow_add_mul_le x 1 (k + 2) (x - (k + 2)) (by omega)
  have h2 := pow_add_le_two x 1 (k + 2) (by omega)
  have key : (x + 1) ^ (k + 2) * x ≤ (x ^ (k + 2) + 2 * (k + 2) * x ^ (k + 1)) * x := by
    have hx' : x = (x - (k + 2)) + (k + 2) := by omega
    calc (x + 1) ^ (k + 2) * x = (x + 1) ^ (k + 2) * (x - (k + 2)) + (x + 1) ^ (k + 2) * (k + 2) := by
          rw [← Nat.mul_add, ← hx']
      _ ≤ x ^ (k + 2 + 1) + (2 * x ^ (k + 2)) * (k + 2) :=
          Nat.add_le_add h1 (Nat.mul_le_mul_right _ h2)
      _ = (x ^ (k + 2) + 2 * (k + 2) * x ^ (k + 1)) * x := by ring
  have key' := Nat.le_of_mul_le_mul_right key hx0
  calc U + (k + 1) * x ^ (k + 2) < (x + 1) ^ (k + 2) + (k + 1) * x ^ (k + 2) := by omega
    _ ≤ (x ^ (k + 2) + 2 * (k + 2) * x ^ (k + 1)) + (k + 1) * x ^ (k + 2) := Nat.add_le_add_right key' _
    _ = (x + 1).succ * ((k + 2) * x ^ (k + 1)) := by rw [Nat.succ_eq_add_one]; ring

/-- One exact Newton step under the invariant of the loop of mpn_rootrem_basecase:
    `s` the root, `s ≤ x`, `2^(m+L) ≤ s` with `n < 2^L`, `m ≥ 1`, distance `δ = x − s − 1` with `δ·2^v ≤ 2^(m+1)`.
    Then the iterate is again `≥ s`, its distance satisfies `δ'·2^(2v) ≤ 2^(m+1)`, and it is at most `max x (s+1)`. -/
theorem newton_step_true (U k s x m L v : Nat) (hnL : k + 2 < 2 ^ L) (hs1 : s ^ (k + 2) ≤ U)
    (hs2 : U < (s + 1) ^ (k + 2)) (hsx : s ≤ x) (hlow : 2 ^ (m + L) ≤ s) (hm : 1 ≤ m)
    (hd : (x - s - 1) * 2 ^ v ≤ 2 ^ (m + 1)) :
    s ≤ newtonTrue U (k + 2) x ∧ (newtonTrue U (k + 2) x - s - 1) * 2 ^ (2 * v) ≤ 2 ^ (m + 1) ∧
    (newtonTrue U (k + 2) x ≤ x ∨ newtonTrue U (k + 2) x ≤ s + 1) := by
  have h2n : 2 * (k + 2) ≤ s := by
    have : 2 ^ (m + L) = 2 ^ m * 2 ^ L := pow_add _ _ _
    have : 2 ^ 1 ≤ 2 ^ m := Nat.pow_le_pow_right (by norm_num) hm
    nlinarith
  have hspos : 0 < s := by omega
  obtain ⟨d0, hd0⟩ := Nat.exists_eq_add_of_le hsx
  have hge : s ≤ newtonTrue U (k + 2) x := by rw [hd0]; exact newton_ge U k s d0 hs1 (by omega)
  refine ⟨hge, ?_⟩
  rcases Nat.eq_zero_or_pos d0 with h0 | hpos
  · -- x = s
    have hxs : x = s := by omega
    have := newton_le_root U k x (by rw [hxs]; exact hs2) (by omega)
    have h1 : newtonTrue U (k + 2) x - s - 1 = 0 := by omega
    rw [h1]; exact ⟨by simp, Or.inr (by omega)⟩
  · -- x = (s+1) + d
    obtain ⟨d, hdd⟩ : ∃ d, x = (s + 1) + d := ⟨d0 - 1, by omega⟩
    have hδ : x - s - 1 = d := by omega
    rw [hδ] at hd
    obtain ⟨e, he⟩ : ∃ e, e = d ^ 2 / 2 ^ (m + 1) := ⟨_, rfl⟩
    have hp : 0 < 2 ^ (m + 1) := by positivity
    have he1 : e * 2 ^ (m + 1) ≤ d ^ 2 := by rw [he]; exact Nat.div_mul_le_self _ _
    have he2 : d ^ 2 < (e + 1) * 2 ^ (m + 1) := by
      have := Nat.lt_mul_div_succ (d ^ 2) hp
      rw [he, Nat.mul_comm]; exact this
    have hxlow : 2 ^ (m + L) ≤ x := by omega
    have hde : d ^ 2 * (k + 1) ≤ 2 * (e + 1) * (s + 1 + d) := by
      rw [← hdd]
      have a1 : d ^ 2 * (k + 1) ≤ d ^ 2 * 2 ^ L := Nat.mul_le_mul_left _ (by omega)
      have a2 : d ^ 2 * 2 ^ L ≤ ((e + 1) * 2 ^ (m + 1)) * 2 ^ L := Nat.mul_le_mul_right _ (by omega)
      have a3 : ((e + 1) * 2 ^ (m + 1)) * 2 ^ L = 2 * (e + 1) * 2 ^ (m + L) := by
        rw [pow_add, pow_succ, pow_add]; ring
      have a4 : 2 * (e + 1) * 2 ^ (m + L) ≤ 2 * (e + 1) * x := Nat.mul_le_mul_left _ hxlow
      omega
    have hup := newton_le U k (s + 1) d e hs2 (by omega) hde
    rw [← hdd] at hup
    -- e ≤ d and e * 2^(2v) ≤ 2^(m+1)
    have hv1 : 1 ≤ 2 ^ v := Nat.one_le_two_pow
    have hdle : d ≤ 2 ^ (m + 1) := by nlinarith
    have hed : e ≤ d := by
      have : e * 2 ^ (m + 1) ≤ d * 2 ^ (m + 1) := by
        calc e * 2 ^ (m + 1) ≤ d ^ 2 := he1
          _ = d * d := by ring
          _ ≤ d * 2 ^ (m + 1) := Nat.mul_le_mul_left _ hdle
      exact Nat.le_of_mul_le_mul_right this hp
    have hev : e * 2 ^ (2 * v) ≤ 2 ^ (m + 1) := by
      have : e * 2 ^ (2 * v) * 2 ^ (m + 1) ≤ 2 ^ (m + 1) * 2 ^ (m + 1) := by
        calc e * 2 ^ (2 * v) * 2 ^ (m + 1) = (e * 2 ^ (m + 1)) * 2 ^ (2 * v) := by ring
          _ ≤ d ^ 2 * 2 ^ (2 * v) := Nat.mul_le_mul_right _ he1
          _ = (d * 2 ^ v) * (d * 2 ^ v) := by rw [Nat.two_mul, pow_add]; ring
          _ ≤ 2 ^ (m + 1) * 2 ^ (m + 1) := Nat.mul_le_mul hd hd
      exact Nat.le_of_mul_le_mul_right this hp
    constructor
    · have : newtonTrue U (k + 2) x - s - 1 ≤ e := by omega
      exact Nat.le_trans (Nat.mul_le_mul_right _ this) hev
    · left; omega


/-! ### the Newton round of the C (limb buffers, the `un - pn == xn` test, saturation) -/

theorem quot_lt_pow (U P : Nat) (hP : 0 < P) (hPU : P ≤ U) :
    U / P < B ^ (limbLen U - limbLen P + 1) := by
  have h1 := lt_pow_limbLen U
  have h2 := pow_limbLen_le P hP
  have h3 := limbLen_mono hPU
  have hp1 : 1 ≤ limbLen P := by
    have := lt_limbLen_of_pow_le (a := P) (j := 0) (by rw [pow_zero]; exact hP); omega
  by_contra hc
  have hc' : B ^ (limbLen U - limbLen P + 1) ≤ U / P := by omega
  have h4 : B ^ (limbLen U - limbLen P + 1) * B ^ (limbLen P - 1) ≤ (U / P) * P := Nat.mul_le_mul hc' h2
  rw [← pow_add] at h4
  have h5 : limbLen U - limbLen P + 1 + (limbLen P - 1) = limbLen U := by omega
  rw [h5] at h4
  have := Nat.div_mul_le_self U P
  omega

theorem bcNewtonStep_eq (U n xn x : Nat) (hn : 2 ≤ n) (hnB : n < B)
    (hxlo : B ^ (xn - 1) ≤ x) (hxW : x < B ^ xn) (hxn : 1 ≤ xn)
    (hPU : x ^ (n - 1) ≤ U)
    (hstale : xn ≤ limbLen U - limbLen (x ^ (n - 1)) + 2)
    (hbig : B ^ xn ≤ U / x ^ (n - 1) → limbLen U - limbLen (x ^ (n - 1)) = xn)
    (hx' : newtonTrue U n x ≤ B ^ xn) :
    bcNewtonStep U (limbLen U) n xn x = some (min (newtonTrue U n x) (B ^ xn - 1)) := by
  have hxpos : 0 < x := Nat.lt_of_lt_of_le (pow_pos B_pos _) hxlo
  have hP : 0 < x ^ (n - 1) := pow_pos hxpos _
  have hpn := limbLen_mono hPU
  unfold bcNewtonStep pow1
  rw [if_pos hxlo]
  simp only [Option.bind_eq_bind, Option.bind_some]
  rw [if_neg (by omega), if_neg (by omega)]
  congr 1
  unfold newtonTrue at hx' ⊢
  have hQlt := quot_lt_pow U _ hP hPU
  generalize hun : limbLen U = un at *
  generalize hpn' : limbLen (x ^ (n - 1)) = pn at *
  generalize hQ : U / x ^ (n - 1) = Q at *
  generalize hW : B ^ xn = W at *
  have hWpos : 0 < W := by rw [← hW]; exact pow_pos B_pos _
  have hBW : B ≤ W := by
    rw [← hW]
    calc B = B ^ 1 := (pow_one _).symm
      _ ≤ B ^ xn := Nat.pow_le_pow_right B_pos hxn
  have hnpos : 0 < n := by omega
  -- T = Q + (n-1) x, T / n ≤ W
  obtain ⟨T, hT⟩ : ∃ T, T = Q + (n - 1) * x := ⟨_, rfl⟩
  rw [← hT] at hx' ⊢
  have hTlt : T < n * W + n := by
    have := Nat.lt_mul_div_succ T hnpos
    have h2 : n * (T / n + 1) ≤ n * (W + 1) := Nat.mul_le_mul_left _ (by omega)
    have : n * (W + 1) = n * W + n := by ring
    omega
  have hn1x : (n - 1) * x ≤ (n - 1) * W := Nat.mul_le_mul_left _ (Nat.le_of_lt hxW)
  have hn1x' : (n - 1) * x + x ≤ (n - 1) * W + (W - 1) := by omega
  have hnW : (n - 1) * W + W = n * W := by
    have : n = (n - 1) + 1 := by omega
    calc (n - 1) * W + W = ((n - 1) + 1) * W := by ring
      _ = n * W := by rw [← this]
  by_cases hQW : Q < W
  · -- the quotient fits in xn limbs
    have hQm : Q % W = Q := Nat.mod_eq_of_lt hQW
    have hQd : Q / W = 0 := Nat.div_eq_of_lt hQW
    rw [hQm, hQd, ← hT]
    have hTW : T < n * W := by
      have : (n - 1) * x < (n - 1) * W + 1 := by omega
      omega
    have hcy : T / W < n := (Nat.div_lt_iff_lt_mul hWpos).mpr hTW
    have hr : (if un - pn = xn then (if (T / W + 0 % B) % B = n then (W - 1, n - 1) else (T % W, (T / W + 0 % B) % B))
        else (T % W, T / W)) = (T % W, T / W) := by
      have e : (T / W + 0 % B) % B = T / W := by
        rw [Nat.zero_mod, Nat.add_zero]; exact Nat.mod_eq_of_lt (by omega)
      rw [e]
      split
      · rw [if_neg (by omega)]
      · rfl
    rw [hr]
    have hdm : T / W * W + T % W = T := by rw [Nat.mul_comm]; exact Nat.div_add_mod T W
    rw [hdm]
    have hTn : T / n < W := (Nat.div_lt_iff_lt_mul hnpos).mpr (by rw [Nat.mul_comm]; exact hTW)
    rw [Nat.mod_eq_of_lt hTn]
    exact (Nat.min_eq_left (by omega)).symm
  · -- the quotient has xn + 1 limbs: the C must see un - pn == xn
    have hQW' : W ≤ Q := by omega
    have hsz := hbig hQW'
    rw [hsz, pow_succ, hW] at hQlt
    have hQB : Q / W < B := by
      rw [Nat.div_lt_iff_lt_mul hWpos, Nat.mul_comm]; exact hQlt
    rw [if_pos hsz, Nat.mod_eq_of_lt hQB]
    obtain ⟨t, ht⟩ : ∃ t, t = Q % W + (n - 1) * x := ⟨_, rfl⟩
    rw [← ht]
    have hTt : T = t + (Q / W) * W := by
      have := Nat.div_add_mod Q W
      rw [hT, ht]; nlinarith
    have hdiv : t / W + Q / W = T / W := by
      rw [hTt, Nat.add_mul_div_right _ _ hWpos]
    have hmod : t % W = T % W := by rw [hTt, Nat.add_mul_mod_self_right]
    have hcyle : T / W ≤ n := by
      have : T < (n + 1) * W := by
        have : (n + 1) * W = n * W + W := by ring
        omega
      have := (Nat.div_lt_iff_lt_mul hWpos).mpr this
      omega
    have hTWB : T / W % B = T / W := Nat.mod_eq_of_lt (by omega)
    rw [hdiv, hTWB, hmod]
    by_cases hsat : T / W = n
    · rw [if_pos hsat]
      have hTge : n * W ≤ T := by
        have := Nat.div_mul_le_self T W
        rw [hsat] at this; exact this
      have e1 : (n - 1) * W + (W - 1) = n * (W - 1) + (n - 1) := by
        have : n * (W - 1) = n * W - n := by rw [Nat.mul_sub, Nat.mul_one]
        have : n ≤ n * W := Nat.le_mul_of_pos_right _ hWpos
        omega
      show ((n - 1) * W + (W - 1)) / n % W = _
      rw [e1, Nat.mul_add_div hnpos, Nat.div_eq_of_lt (by omega), Nat.add_zero, Nat.mod_eq_of_lt (by omega)]
      have : W ≤ T / n := (Nat.le_div_iff_mul_le hnpos).mpr (by rw [Nat.mul_comm]; exact hTge)
      exact (Nat.min_eq_right (by omega)).symm
    · rw [if_neg hsat]
      have hcy : T / W < n := by omega
      have hTW : T < n * W := by
        have := (Nat.div_lt_iff_lt_mul hWpos).mp hcy
        exact this
      show (T / W * W + T % W) / n % W = _
      have hdm : T / W * W + T % W = T := by rw [Nat.mul_comm]; exact Nat.div_add_mod T W
      rw [hdm]
      have hTn : T / n < W := (Nat.div_lt_iff_lt_mul hnpos).mpr (by rw [Nat.mul_comm]; exact hTW)
      rw [Nat.mod_eq_of_lt hTn]
      exact (Nat.min_eq_left (by omega)).symm

end Mpir.Rootrem
