/- The executable Lehmer model of mpn_gcdext (gcdextLehmerLoop with the cofactor hooks, the final
   mpn_gcdext_1 combination) returns the gcd and a valid first Bezout cofactor, given the hgcd2 contract. -/
import MpirProofs.Lemmas.GcdLehmer2
import MpirProofs.Lemmas.GcdExt1
namespace Mpir.Gcd
open Mpir

/-- the cofactor row (u0, u1) is consistent with the current pair (a, b) for inputs (A, Bv) -/
def CofOk (A Bv a b u0 u1 : Nat) : Prop := ∃ v0 v1, CofInv A Bv ⟨a, b, u0, u1⟩ v0 v1

theorem cofOk_a {A Bv a b u0 u1 : Nat} (h : CofOk A Bv a b u0 u1) : ∃ t : Int, (A : Int) * u1 + Bv * t = a := by
  obtain ⟨v0, v1, _, ca, _⟩ := h
  exact ⟨-(v1 : Int), by simp only at ca; rw [ca]; ring⟩

theorem cofOk_b {A Bv a b u0 u1 : Nat} (h : CofOk A Bv a b u0 u1) :
    ∃ t : Int, (A : Int) * (-(u0 : Int)) + Bv * t = b := by
  obtain ⟨v0, v1, _, _, cb⟩ := h
  exact ⟨(v0 : Int), by simp only at cb; rw [cb]; ring⟩

/-- b -= q·a : hook (q, d = 0) -/
theorem cofOk_sub_b {A Bv a b u0 u1 : Nat} (q : Nat) (h : CofOk A Bv a b u0 u1) (hq : q * a ≤ b) :
    CofOk A Bv a (b - q * a) (u0 + q * u1) u1 := by
  obtain ⟨v0, v1, hc⟩ := h
  have hs : StepOk ⟨1, 0, q, 1⟩ ⟨a, b, u0, u1⟩ ⟨a, b - q * a, u0 + q * u1, u1⟩ := by
    refine ⟨by simp, by simp, ?_, by simp [Nat.mul_comm], by simp⟩
    simp only; omega
  exact ⟨_, _, stepOk_cof hs hc⟩

/-- a -= q·b : hook (q, d = 1) -/
theorem cofOk_sub_a {A Bv a b u0 u1 : Nat} (q : Nat) (h : CofOk A Bv a b u0 u1) (hq : q * b ≤ a) :
    CofOk A Bv (a - q * b) b u0 (u1 + q * u0) := by
  obtain ⟨v0, v1, hc⟩ := h
  have hs : StepOk ⟨1, q, 0, 1⟩ ⟨a, b, u0, u1⟩ ⟨a - q * b, b, u0, u1 + q * u0⟩ := by
    refine ⟨by simp, ?_, by simp, by simp, by simp [Nat.mul_comm, Nat.add_comm]⟩
    simp only; omega
  exact ⟨_, _, stepOk_cof hs hc⟩

/-- the local view of mpn_gcd_subdiv_step: (la, lb) are the caller's (a, b), swapped iff `sw` -/
def LocOk (A Bv la lb : Nat) (sw : Bool) (w : Nat × Nat) : Prop :=
  CofOk A Bv (if sw then lb else la) (if sw then la else lb) w.1 w.2

theorem locOk_swap {A Bv la lb : Nat} {sw : Bool} {w : Nat × Nat} (h : LocOk A Bv la lb sw w) :
    LocOk A Bv lb la (!sw) w := by
  unfold LocOk at *
  cases sw <;> simpa using h

/-- what the hooks of one mpn_gcd_subdiv_step guarantee for the cofactors (`init` = cofactors on entry) -/
def HookOk (A Bv : Nat) (init : Nat × Nat) (r : Subdiv) : Prop :=
  (∀ g d, r.fin = some (g, d) →
      ∃ t : Int, (A : Int) * pickCofactor (r.qs.foldl hookQ init).1 (r.qs.foldl hookQ init).2 d + Bv * t = g) ∧
  (r.fin = none → CofOk A Bv r.a r.b (r.qs.foldl hookQ init).1 (r.qs.foldl hookQ init).2)

theorem pick_zero (u0 u1 : Nat) : pickCofactor u0 u1 0 = u1 := by
  unfold pickCofactor; simp
theorem pick_one (u0 u1 : Nat) : pickCofactor u0 u1 1 = -(u0 : Int) := by
  unfold pickCofactor; simp

/-- division step in the local view -/
theorem locOk_div {A Bv lo hi : Nat} {sw : Bool} {w : Nat × Nat} (h : LocOk A Bv lo hi sw w) :
    LocOk A Bv lo (hi % lo) sw (hookQ w (hi / lo, sw)) := by
  unfold LocOk hookQ at *
  have hq : hi / lo * lo ≤ hi := Nat.div_mul_le_self hi lo
  have hr : hi - hi / lo * lo = hi % lo := by
    have := Nat.div_add_mod hi lo; rw [Nat.mul_comm] at this; omega
  cases sw
  · simp only [Bool.false_eq_true, if_false] at h ⊢
    have := cofOk_sub_b (hi / lo) h hq
    rwa [hr] at this
  · simp only [if_true] at h ⊢
    have := cofOk_sub_a (hi / lo) h hq
    rwa [hr] at this

theorem subdivDivide_hook (A Bv la lb : Nat) (sw : Bool) (q1 : List (Nat × Bool)) (a b : Nat) (init : Nat × Nat)
    (h0a : 0 < la) (h0b : 0 < lb) (h : LocOk A Bv la lb sw (q1.foldl hookQ init)) :
    HookOk A Bv init (subdivDivide la lb sw q1 a b) := by
  have key : ∀ (lo hi : Nat) (s : Bool), 0 < lo → LocOk A Bv lo hi s (q1.foldl hookQ init) →
      HookOk A Bv init
        (if hi % lo = 0 then ⟨q1, some (lo, if s then 1 else 0), a, b, 0⟩
         else if s then ⟨q1 ++ [(hi / lo, s)], none, hi % lo, lo, nlimbs lo⟩
         else ⟨q1 ++ [(hi / lo, s)], none, lo, hi % lo, nlimbs lo⟩) := by
    intro lo hi s hlo hloc
    by_cases hr : hi % lo = 0
    · rw [if_pos hr]
      refine ⟨fun g d hfin => ?_, fun hfin => by simp at hfin⟩
      simp only [Option.some.injEq, Prod.mk.injEq] at hfin
      obtain ⟨hg, hd⟩ := hfin
      show ∃ t : Int, (A : Int) * pickCofactor (q1.foldl hookQ init).1 (q1.foldl hookQ init).2 d + Bv * t = g
      rw [← hg, ← hd]
      unfold LocOk at hloc
      cases s
      · simp only [Bool.false_eq_true, if_false] at hloc ⊢
        rw [pick_zero]; exact cofOk_a hloc
      · simp only [if_true] at hloc ⊢
        rw [pick_one]; exact cofOk_b hloc
    · rw [if_neg hr]
      have hd := locOk_div hloc
      unfold LocOk at hd
      cases s
      · simp only [Bool.false_eq_true, if_false] at hd ⊢
        refine ⟨fun g d hfin => by simp at hfin, fun _ => ?_⟩
        show CofOk A Bv lo (hi % lo) ((q1 ++ [(hi / lo, false)]).foldl hookQ init).1 ((q1 ++ [(hi / lo, false)]).foldl hookQ init).2
        rw [List.foldl_append]; exact hd
      · simp only [if_true] at hd ⊢
        refine ⟨fun g d hfin => by simp at hfin, fun _ => ?_⟩
        show CofOk A Bv (hi % lo) lo ((q1 ++ [(hi / lo, true)]).foldl hookQ init).1 ((q1 ++ [(hi / lo, true)]).foldl hookQ init).2
        rw [List.foldl_append]; exact hd
  unfold subdivDivide
  dsimp only
  by_cases hgt : la > lb
  · simp only [if_pos hgt]
    exact key lb la (!sw) h0b (locOk_swap h)
  · simp only [if_neg hgt]
    exact key la lb sw h0a h

theorem subdivOrdered_hook (A Bv la lb : Nat) (sw : Bool) (a b : Nat) (init : Nat × Nat)
    (h0a : 0 < la) (hlt : la < lb) (h : LocOk A Bv la lb sw init) :
    HookOk A Bv init (subdivOrdered la lb sw a b) := by
  unfold subdivOrdered
  rw [if_neg (by omega)]
  dsimp only
  by_cases he : la = lb - la
  · rw [if_pos he]
    refine ⟨fun g d hfin => ?_, fun hfin => by simp at hfin⟩
    simp only [Option.some.injEq, Prod.mk.injEq] at hfin
    obtain ⟨hg, hd⟩ := hfin
    show ∃ t : Int, (A : Int) * pickCofactor init.1 init.2 d + Bv * t = g
    rw [← hg, ← hd, ← he]
    unfold LocOk at h
    cases sw
    · simp only [Bool.false_eq_true, if_false] at h ⊢
      rw [pick_zero]; exact cofOk_a h
    · simp only [if_true] at h ⊢
      rw [pick_one]; exact cofOk_b h
  · rw [if_neg he]
    apply subdivDivide_hook A Bv la (lb - la) sw [(1, sw)] a b init h0a (by omega)
    -- the subtraction step lb -= la with hook (1, sw)
    show LocOk A Bv la (lb - la) sw (hookQ init (1, sw))
    unfold LocOk hookQ at *
    cases sw
    · simp only [Bool.false_eq_true, if_false] at h ⊢
      have := cofOk_sub_b 1 h (by omega)
      simpa using this
    · simp only [if_true] at h ⊢
      have := cofOk_sub_a 1 h (by omega)
      simpa using this

theorem subdivStep_hook (A Bv a b u0 u1 : Nat) (ha : 0 < a) (hb : 0 < b) (h : CofOk A Bv a b u0 u1) :
    HookOk A Bv (u0, u1) (subdivStep a b) := by
  unfold subdivStep
  by_cases hab : a = b
  · rw [if_pos hab]
    refine ⟨fun g d hfin => ?_, fun hfin => by simp at hfin⟩
    simp only [Option.some.injEq, Prod.mk.injEq] at hfin
    obtain ⟨hg, hd⟩ := hfin
    show ∃ t : Int, (A : Int) * pickCofactor u0 u1 d + Bv * t = g
    rw [← hg]
    rcases pickCofactor_cases u0 u1 d with e | e <;> rw [e]
    · rw [hab]; exact cofOk_b h
    · exact cofOk_a h
  · rw [if_neg hab]
    by_cases hgt : a > b
    · rw [if_pos hgt]
      exact subdivOrdered_hook A Bv b a true a b (u0, u1) hb hgt (by unfold LocOk; simpa using h)
    · rw [if_neg hgt]
      exact subdivOrdered_hook A Bv a b false a b (u0, u1) ha (by omega) (by unfold LocOk; simpa using h)

/-! ### the Lehmer loop of mpn_gcdext_lehmer_n -/

/-- an hgcd2 step keeps the loop invariant (new size from `shrinkN`) -/
theorem hgcd2_step_inv (a b n a' b' : Nat) (hinv : LInv a b n) (hn : 2 ≤ n)
    (hle1 : a' ≤ a) (hle2 : b' ≤ b) (hpa : 0 < a') (hpb : 0 < b')
    (hnorm : B ^ (n - 2) ≤ a' ∨ B ^ (n - 2) ≤ b') : LInv a' b' (shrinkN a' b' n) := by
  obtain ⟨h0a, h0b, haB, hbB, _, _⟩ := hinv
  have ha'B : a' < B ^ n := lt_of_le_of_lt hle1 haB
  have hb'B : b' < B ^ n := lt_of_le_of_lt hle2 hbB
  unfold shrinkN
  split
  · rename_i hz
    rw [Nat.or_eq_zero_iff] at hz
    have z1 := (limbAt_top_zero a' n (by omega) ha'B).mp hz.1
    have z2 := (limbAt_top_zero b' n (by omega) hb'B).mp hz.2
    refine ⟨hpa, hpb, z1, z2, ?_, by omega⟩
    have : n - 1 - 1 = n - 2 := by omega
    rw [this]; exact hnorm
  · rename_i hz
    refine ⟨hpa, hpb, ha'B, hb'B, ?_, by omega⟩
    by_contra hcon
    apply hz
    rw [Nat.or_eq_zero_iff]
    constructor
    · exact (limbAt_top_zero a' n (by omega) ha'B).mpr (by omega)
    · exact (limbAt_top_zero b' n (by omega) hb'B).mpr (by omega)

def ExtLoopOk (A Bv G : Nat) : (Nat × Nat × Nat × Nat) ⊕ (Nat × Int) → Prop
  | .inr (g, S) => g = G ∧ ∃ t : Int, (A : Int) * S + Bv * t = g
  | .inl (a', b', u0', u1') =>
      0 < a' ∧ 0 < b' ∧ a' < B ∧ b' < B ∧ Nat.gcd a' b' = G ∧ CofOk A Bv a' b' u0' u1'

theorem gcdextLehmerLoop_spec (hh : Hgcd2Contract) (A Bv : Nat) : ∀ (f a b n u0 u1 : Nat),
    LInv a b n → CofOk A Bv a b u0 u1 → a + b < f →
    ExtLoopOk A Bv (Nat.gcd a b) (gcdextLehmerLoop f a b n u0 u1)
  | 0, a, b, n, u0, u1, _, _, hf => by omega
  | f + 1, a, b, n, u0, u1, hinv, hcof, hf => by
    unfold gcdextLehmerLoop
    by_cases hn : n ≥ 2
    · rw [if_pos hn]
      have hc := hh a b n
      generalize top2 a b n = t at hc ⊢
      obtain ⟨uh, ul, vh, vl⟩ := t
      simp only at hc ⊢
      cases hm : hgcd2 uh ul vh vl with
      | some m =>
        simp only
        obtain ⟨hl, hne, hpa, hpb, hnorm⟩ := hc m hinv hn hm
        obtain ⟨hle1, hle2⟩ := lehmer_step_le m a b hl
        have hdec := lehmer_step_lt m a b hl hne hpa hpb
        have hg := lehmer_step_gcd m a b hl
        have hinv' := hgcd2_step_inv a b n _ _ hinv hn hle1 hle2 hpa hpb hnorm
        have hcof' : CofOk A Bv (m.u11 * a - m.u01 * b) (m.u00 * b - m.u10 * a)
            (u0 * m.u00 + u1 * m.u10) (u0 * m.u01 + u1 * m.u11) := by
          obtain ⟨v0, v1, hci⟩ := hcof
          exact ⟨_, _, stepOk_cof (lehmerOk_stepOk m ⟨a, b, u0, u1⟩ hl) hci⟩
        have ih := gcdextLehmerLoop_spec hh A Bv f _ _ _ _ _ hinv' hcof' (by omega)
        rw [hg] at ih
        exact ih
      | none =>
        simp only
        obtain ⟨h0a, h0b, _⟩ := hinv
        obtain ⟨s1, s2⟩ := subdivStep_spec a b h0a h0b
        obtain ⟨k1, k2⟩ := subdivStep_hook A Bv a b u0 u1 h0a h0b hcof
        generalize hw : (subdivStep a b).qs.foldl hookQ (u0, u1) = w at k1 k2 ⊢
        obtain ⟨w0, w1⟩ := w
        simp only at k1 k2 ⊢
        cases hfin : (subdivStep a b).fin with
        | some gd =>
          obtain ⟨g, d⟩ := gd
          simp only
          exact ⟨s1 g d hfin, k1 g d hfin⟩
        | none =>
          simp only
          obtain ⟨x1, x2, x3, x4, x5⟩ := s2 hfin
          have hmax : 0 < max (subdivStep a b).a (subdivStep a b).b := lt_of_lt_of_le x1 (le_max_left _ _)
          obtain ⟨y1, y2⟩ := nlimbs_bounds _ hmax
          have hinv' : LInv (subdivStep a b).a (subdivStep a b).b (subdivStep a b).n := by
            rw [x5]
            refine ⟨x1, x2, lt_of_le_of_lt (le_max_left _ _) y1, lt_of_le_of_lt (le_max_right _ _) y1, ?_, nlimbs_pos hmax⟩
            rcases le_total (subdivStep a b).a (subdivStep a b).b with h | h
            · right; rw [max_eq_right h] at y2 ⊢; exact y2
            · left; rw [max_eq_left h] at y2 ⊢; exact y2
          have ih := gcdextLehmerLoop_spec hh A Bv f _ _ _ _ _ hinv' (k2 hfin) (by omega)
          rw [x3] at ih
          exact ih
    · rw [if_neg hn]
      obtain ⟨h0a, h0b, haB, hbB, _, h1⟩ := hinv
      have : n = 1 := by omega
      subst this
      rw [pow_one] at haB hbB
      exact ⟨h0a, h0b, haB, hbB, rfl, hcof⟩

/-- mpn_gcdext_lehmer_n (model): the gcd and a valid first cofactor -/
theorem gcdext_lehmer_n_identity (hh : Hgcd2Contract) (a b n : Nat) (hinv : LInv a b n) :
    (gcdext_lehmer_n a b n).1 = Nat.gcd a b ∧
    ∃ t : Int, (a : Int) * (gcdext_lehmer_n a b n).2 + b * t = Nat.gcd a b := by
  have hc0 : CofOk a b a b 0 1 := ⟨1, 0, cofInv_init a b⟩
  have h := gcdextLehmerLoop_spec hh a b (a + b + 1) a b n 0 1 hinv hc0 (by omega)
  unfold gcdext_lehmer_n
  cases hr : gcdextLehmerLoop (a + b + 1) a b n 0 1 with
  | inr r =>
    obtain ⟨g, S⟩ := r
    rw [hr] at h
    obtain ⟨h1, t, ht⟩ := h
    exact ⟨h1, t, by rw [← h1]; exact ht⟩
  | inl q =>
    obtain ⟨a', b', u0', u1'⟩ := q
    rw [hr] at h
    obtain ⟨p1, p2, p3, p4, p5, p6⟩ := h
    simp only
    by_cases he : a' = b'
    · rw [if_pos he]
      simp only
      have hg : a' = Nat.gcd a b := by rw [← p5, ← he, Nat.gcd_self]
      refine ⟨hg, ?_⟩
      rcases pickCofactor_cases u0' u1' (-1) with e | e <;> rw [e, ← hg]
      · rw [he]; exact cofOk_b p6
      · exact cofOk_a p6
    · rw [if_neg he]
      obtain ⟨g1, g2, _⟩ := gcdext_1_spec a' b' p1 p2 p3 p4
      generalize gcdext_1 a' b' = r at g1 g2 ⊢
      obtain ⟨g, u, v⟩ := r
      simp only at g1 g2 ⊢
      refine ⟨by rw [g1, p5], ?_⟩
      obtain ⟨ta, hta⟩ := cofOk_a p6
      obtain ⟨tb, htb⟩ := cofOk_b p6
      refine ⟨u * ta + v * tb, ?_⟩
      rw [← p5, ← g2, ← hta, ← htb]; ring

/-- PARTIAL: identity only (no normalisation bound), Lehmer range only.  The model of mpn_gcdext below
    GCDEXT_DC_THRESHOLD returns G = gcd(U, V) and a cofactor S with V ∣ G - U·S, given the hgcd2 contract. -/
theorem mpn_gcdext_identity (hh : Hgcd2Contract) (U V : Nat) (hV0 : 0 < V) (hle : nlimbs V ≤ nlimbs U)
    (hlt : nlimbs V < GCDEXT_DC_THRESHOLD) :
    (mpn_gcdext U (nlimbs U) V (nlimbs V)).1 = Nat.gcd U V ∧
    (((mpn_gcdext U (nlimbs U) V (nlimbs V)).1 : Int) - U * (mpn_gcdext U (nlimbs U) V (nlimbs V)).2) % V = 0 := by
  have hnV := nlimbs_bounds V hV0
  unfold mpn_gcdext
  dsimp only
  by_cases hgt : nlimbs U > nlimbs V
  · simp only [if_pos hgt]
    have hg : Nat.gcd (U % V) V = Nat.gcd U V := by rw [Nat.gcd_comm U V, Nat.gcd_rec V U]
    by_cases hz : U % V = 0
    · rw [if_pos ⟨hgt, hz⟩]
      simp only
      refine ⟨by rw [← hg, hz, Nat.gcd_zero_left], ?_⟩
      simp
    · rw [if_neg (fun h => hz h.2), if_pos hlt]
      have hlt' : U % V < V := Nat.mod_lt _ hV0
      have hinv : LInv (U % V) V (nlimbs V) :=
        ⟨Nat.pos_of_ne_zero hz, hV0, lt_trans hlt' hnV.1, hnV.1, Or.inr hnV.2, nlimbs_pos hV0⟩
      obtain ⟨e1, t, e2⟩ := gcdext_lehmer_n_identity hh _ _ _ hinv
      refine ⟨by rw [e1, hg], ?_⟩
      rw [e1]
      generalize (gcdext_lehmer_n (U % V) V (nlimbs V)).2 = S at *
      apply Int.emod_eq_zero_of_dvd
      refine ⟨t - (U / V : Nat) * S, ?_⟩
      have hU : (U : Int) = (U % V : Nat) + V * (U / V : Nat) := by
        exact_mod_cast (Nat.mod_add_div U V).symm
      rw [← e2]
      conv_lhs => rw [hU]
      ring
  · have hn : nlimbs U = nlimbs V := by omega
    have hU0 : 0 < U := by
      rcases Nat.eq_zero_or_pos U with h | h
      · rw [h, nlimbs_zero] at hn; have := nlimbs_pos hV0; omega
      · exact h
    have hnU := nlimbs_bounds U hU0
    rw [hn] at hnU
    simp only [if_neg hgt]
    rw [if_neg (fun h => hgt h.1), if_pos hlt]
    have hinv : LInv U V (nlimbs V) := ⟨hU0, hV0, hnU.1, hnV.1, Or.inr hnV.2, nlimbs_pos hV0⟩
    obtain ⟨e1, t, e2⟩ := gcdext_lehmer_n_identity hh _ _ _ hinv
    refine ⟨e1, ?_⟩
    rw [e1]
    apply Int.emod_eq_zero_of_dvd
    exact ⟨t, by rw [← e2]; ring⟩

end Mpir.Gcd
