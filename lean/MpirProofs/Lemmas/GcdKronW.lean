/- The mixed-precision Kronecker wrappers (mpz_kronecker_ui/_si, mpz_ui_kronecker/mpz_si_kronecker)
   and mpz_jacobi return the Kronecker symbol `kronSym` for every sign / parity / zero combination. -/
import MpirProofs.Lemmas.Gcd
import MpirProofs.Lemmas.Gcd1
import MpirProofs.Lemmas.GcdSize
import MpirProofs.Lemmas.GcdKronDef
import MpirProofs.Lemmas.GcdJacobi
import Mathlib.NumberTheory.LegendreSymbol.JacobiSymbol
import Mathlib.NumberTheory.Padics.PadicVal.Basic
import Mathlib.Data.Nat.Bitwise
import Mathlib.Data.Nat.Log
import Mathlib.Tactic.Ring
import Mathlib.Tactic.Linarith
import Mathlib.Tactic.NormNum
namespace Mpir.Gcd
open Mpir

/-! ### limb-list facts -/

theorem div_B_lt (n : Nat) (h : n ≠ 0) : n / B < n :=
  Nat.div_lt_self (Nat.pos_of_ne_zero h) (by rw [B_eq]; norm_num)

theorem natLimbs_headD (n : Nat) : (natLimbs n).headD 0 = n % B := by
  by_cases h : n = 0
  · subst h; rw [natLimbs_zero]; rfl
  · rw [natLimbs_pos n h]; rfl

theorem natLimbs_length_eq_zero (n : Nat) : (natLimbs n).length = 0 ↔ n = 0 := by
  by_cases h : n = 0
  · subst h; rw [natLimbs_zero]; simp
  · rw [natLimbs_pos n h]; simp [h]

theorem natLimbs_length_eq_one (n : Nat) : (natLimbs n).length = 1 ↔ 0 < n ∧ n < B := by
  by_cases h : n = 0
  · subst h; rw [natLimbs_zero]; simp
  · rw [natLimbs_pos n h, List.length_cons]
    have h2 : (natLimbs (n / B)).length + 1 = 1 ↔ n / B = 0 := by
      rw [← natLimbs_length_eq_zero]; omega
    rw [h2, Nat.div_eq_zero_iff]
    have := B_pos
    omega

/-- JACOBI_STRIP_LOW_ZEROS: the dropped low zero limbs are a power of B. -/
theorem dropZeros_val (l : List Nat) : ∃ k, val l = B ^ k * val (l.dropWhile (· == 0)) := by
  induction l with
  | nil => exact ⟨0, by simp⟩
  | cons x xs ih =>
    by_cases hx : x = 0
    · subst hx
      obtain ⟨k, hk⟩ := ih
      refine ⟨k + 1, ?_⟩
      simp only [List.dropWhile_cons, beq_self_eq_true, if_true, val_cons, Nat.zero_add, hk, pow_succ]
      ring
    · refine ⟨0, ?_⟩
      have : (x == 0) = false := by simpa using hx
      simp [this]

theorem dropZeros_head (l : List Nat) (h : val l ≠ 0) : (l.dropWhile (· == 0)).headD 0 ≠ 0 := by
  induction l with
  | nil => simp at h
  | cons x xs ih =>
    by_cases hx : x = 0
    · subst hx
      simp only [List.dropWhile_cons, beq_self_eq_true, if_true]
      apply ih
      intro h0; apply h; simp [h0]
    · have : (x == 0) = false := by simpa using hx
      simp [this, hx]

theorem dropZeros_Limbs (l : List Nat) (h : Limbs l) : Limbs (l.dropWhile (· == 0)) :=
  fun x hx => h x ((List.dropWhile_sublist _).subset hx)

/-! ### Jacobi-symbol facts used by the wrappers -/

theorem jacobi_two_pm (b : Nat) (hb : b % 2 = 1) : jacobiSym 2 b = 1 ∨ jacobiSym 2 b = -1 := by
  rw [jacobi_two_eq b hb]; split_ifs <;> simp

theorem jacobi_two_pow64 (b : Nat) (hb : b % 2 = 1) : jacobiSym 2 b ^ 64 = 1 := by
  rcases jacobi_two_pm b hb with h | h <;> rw [h] <;> norm_num

/-- a whole limb is an even number of twos: (B/b) = 1 for odd b. -/
theorem jacobi_B (b : Nat) (hb : b % 2 = 1) : jacobiSym (B : ℤ) b = 1 := by
  have : (B : ℤ) = 2 ^ 64 := by unfold B; norm_cast
  rw [this, jacobiSym.pow_left, jacobi_two_pow64 b hb]

theorem jacobi_two_mod8 (b c : Nat) (hb : b % 2 = 1) (h : b % 8 = c % 8) :
    jacobiSym 2 b = jacobiSym 2 c := by
  rw [jacobi_two_eq b hb, jacobi_two_eq c (by omega)]
  have h1 : b / 4 % 2 = c / 4 % 2 := by omega
  have h2 : b / 2 % 2 = c / 2 % 2 := by omega
  rw [h1, h2]

theorem bit1ToPN_congr (x y : Nat) (h : x / 2 % 2 = y / 2 % 2) : bit1ToPN x = bit1ToPN y := by
  rw [bit1ToPN_eq, bit1ToPN_eq, testBit_one_eq, testBit_one_eq, h]

theorem bit1ToPN_and_congr (a x y : Nat) (h : x / 2 % 2 = y / 2 % 2) :
    bit1ToPN (a &&& x) = bit1ToPN (a &&& y) := by
  rw [bit1ToPN_eq, bit1ToPN_eq, Nat.testBit_and, Nat.testBit_and, testBit_one_eq x, testBit_one_eq y, h]

theorem bit1ToPN_zero_and (b : Nat) : bit1ToPN (0 &&& b) = 1 := by
  rw [Nat.zero_and]; rfl

theorem bit1ToPN_two_and (b : Nat) : bit1ToPN (2 &&& b) = bit1ToPN b := by
  rw [bit1ToPN_eq, bit1ToPN_eq, Nat.testBit_and]
  have : (2 : Nat).testBit 1 = true := by decide
  rw [this, Bool.true_and]

/-- bit 1 of an odd b is the sign (-1/b). -/
theorem bit1ToPN_odd (b : Nat) (hb : b % 2 = 1) : bit1ToPN b = jacobiSym (-1) b := by
  rw [jacobiSym.at_neg_one (Nat.odd_iff.mpr hb), ZMod.χ₄_nat_eq_if_mod_four, bit1ToPN_eq,
    testBit_one_eq]
  have : b % 4 = 1 ∨ b % 4 = 3 := by omega
  rcases this with h | h
  · have h1 : ¬ b / 2 % 2 = 1 := by omega
    simp [h, h1, hb]
  · have h1 : b / 2 % 2 = 1 := by omega
    simp [h, h1, hb]

theorem jacobi_neg_one_sq (b : Nat) : jacobiSym (-1) b * jacobiSym (-1) b = 1 := by
  rw [← jacobiSym.mul_left]; norm_num

/-- JACOBI_MOD_OR_MODEXACT_1_ODD: the residue r with r·B^n ≡ -A (mod d) has (r/d) = (-1/d)(A/d). -/
theorem modexact_jacobi (ap : List Nat) (d : Nat) (hd : d % 2 = 1) :
    bit1ToPN d * jacobiSym (modexact_1_odd ap d) d = jacobiSym (val ap) d := by
  obtain ⟨_, h⟩ := modexact_spec ap d hd
  generalize modexact_1_odd ap d = r at *
  have e1 : jacobiSym ((r : ℤ) * (B : ℤ) ^ ap.length) d = jacobiSym ((-1) * (val ap : ℤ)) d := by
    apply jacobiSym.mod_left'
    apply Int.emod_eq_emod_iff_emod_sub_eq_zero.mpr
    have : (r : ℤ) * (B : ℤ) ^ ap.length - (-1) * (val ap : ℤ) = ((r * B ^ ap.length + val ap : Nat) : ℤ) := by
      push_cast; ring
    rw [this]
    exact_mod_cast h
  rw [jacobiSym.mul_left, jacobiSym.pow_left, jacobi_B d hd, one_pow, mul_one, jacobiSym.mul_left] at e1
  rw [bit1ToPN_odd d hd, e1, ← mul_assoc, jacobi_neg_one_sq, one_mul]

theorem jacModBase_spec (bit : Nat) (ap : List Nat) (b : Nat) (hb : b % 2 = 1) (hb1 : 1 < b) :
    jacModBase bit ap b = bit1ToPN bit * jacobiSym (val ap) b := by
  unfold jacModBase
  rw [jacobi_base_spec _ _ _ hb hb1, bit1ToPN_xor, mul_assoc, modexact_jacobi ap b hb]

/-! ### unfolding `kronSym` -/

theorem kronSym_of_natAbs (a b : ℤ) (t b' : Nat) (hb' : b' % 2 = 1) (h : b.natAbs = 2 ^ t * b') :
    kronSym a b = (if b < 0 ∧ a < 0 then -1 else 1) * kron2 a ^ t * jacobiSym a b' := by
  have hpos : 0 < 2 ^ t * b' := Nat.mul_pos (by positivity) (by omega)
  have hb0 : b ≠ 0 := by intro h0; subst h0; simp at h; omega
  unfold kronSym
  rw [if_neg hb0]
  have hpv : padicValNat 2 b.natAbs = t := by
    rw [h, padicValNat.mul (by positivity) (by omega), padicValNat.prime_pow,
      padicValNat.eq_zero_of_not_dvd (by omega), Nat.add_zero]
  rw [hpv, h, Nat.mul_div_cancel_left _ (by positivity)]

theorem kronSym_zero_right (a : ℤ) : kronSym a 0 = if a.natAbs = 1 then 1 else 0 := by
  unfold kronSym; rw [if_pos rfl]

theorem kron2_congr (a b : ℤ) (h : a % 8 = b % 8) : kron2 a = kron2 b := by
  unfold kron2; rw [h]

theorem kron2_natAbs (a : ℤ) : kron2 a = kron2 (a.natAbs : ℤ) := by
  rcases Int.natAbs_eq a with h | h
  · rw [← h]
  · generalize a.natAbs = n at *
    subst h
    unfold kron2
    dsimp only
    split_ifs <;> omega

/-- (a/2) = (2/|a|) for odd a. -/
theorem kron2_eq_jacobi (a : ℤ) (ha : a % 2 = 1) : kron2 a = jacobiSym 2 a.natAbs := by
  rw [kron2_natAbs, kron2_nat_odd _ (by omega)]

theorem kron2_pow_B (a : ℤ) (ha : a % 2 = 1) (k c : Nat) : kron2 a ^ (64 * k + c) = kron2 a ^ c := by
  rw [pow_add, pow_mul]
  rcases kron2_odd a ha with h | h <;> rw [h] <;> norm_num

/-- sign of the numerator: (a/b) = (-1/b)^[a<0] (|a|/b), b odd. -/
theorem jacobi_sign (a : ℤ) (b : Nat) (hb : b % 2 = 1) :
    bit1ToPN ((if a < 0 then 2 else 0) &&& b) * jacobiSym (a.natAbs : ℤ) b = jacobiSym a b := by
  by_cases ha : a < 0
  · rw [if_pos ha, bit1ToPN_two_and, bit1ToPN_odd b hb, ← jacobiSym.mul_left]
    congr 1; omega
  · rw [if_neg ha, bit1ToPN_zero_and, one_mul]
    congr 1; omega

/-! ### sizes -/

theorem nlimbs_eq_zero (v : Nat) : nlimbs v = 0 ↔ v = 0 := by
  unfold nlimbs; split_ifs with h <;> simp [h]

theorem nlimbs_eq_one (v : Nat) : nlimbs v = 1 ↔ 0 < v ∧ v < B := by
  unfold nlimbs
  by_cases h : v = 0
  · simp [h]
  · rw [if_neg h]
    have h1 : v.log2 < 64 ↔ v < 2 ^ 64 := Nat.log2_lt h
    have : B = 2 ^ 64 := rfl
    rw [this]
    omega

theorem ssize_eq_zero (a : ℤ) : ssize a = 0 ↔ a = 0 := by
  unfold ssize sgn
  have := nlimbs_eq_zero a.natAbs
  split_ifs with h1 h2
  · rw [one_mul]; omega
  · rw [neg_one_mul]; omega
  · rw [zero_mul]; omega

theorem ssize_neg (a : ℤ) : ssize a < 0 ↔ a < 0 := by
  unfold ssize sgn
  have := nlimbs_eq_zero a.natAbs
  split_ifs with h1 h2
  · rw [one_mul]; omega
  · rw [neg_one_mul]; omega
  · rw [zero_mul]; omega

theorem ssize_pm_one (a : ℤ) : (ssize a = 1 ∨ ssize a = -1) ↔ (0 < a.natAbs ∧ a.natAbs < B) := by
  unfold ssize sgn
  have := nlimbs_eq_one a.natAbs
  split_ifs with h1 h2
  · rw [one_mul]; omega
  · rw [neg_one_mul]; omega
  · rw [zero_mul]; omega

/-- JACOBI_LS0: [|a| = 1] from the low limb and the signed size. -/
theorem ls0_spec (a : ℤ) :
    ls0 ((natLimbs a.natAbs).headD 0) (ssize a) = if a.natAbs = 1 then 1 else 0 := by
  unfold ls0
  rw [natLimbs_headD]
  have hs := ssize_pm_one a
  have hB := B_eq
  by_cases h : a.natAbs = 1
  · rw [if_pos h, if_pos]
    refine ⟨hs.mpr ?_, ?_⟩
    · rw [h, hB]; omega
    · rw [h, hB]
  · rw [if_neg h, if_neg]
    rintro ⟨h1, h3⟩
    obtain ⟨_, h2⟩ := hs.mp h1
    rw [Nat.mod_eq_of_lt h2] at h3; exact h h3

/-! ### the numerator is the big operand: mpz_kronecker_ui, mpz_kronecker_si -/

theorem natAbs_decomp (n : Nat) (hn : n ≠ 0) :
    n = 2 ^ ctz n * (n >>> ctz n) ∧ (n >>> ctz n) % 2 = 1 :=
  ⟨(ctz_mul n (Nat.pos_of_ne_zero hn)).symm, ctz_odd n (Nat.pos_of_ne_zero hn)⟩

theorem ctz_pos_of_even (n : Nat) (hn : n ≠ 0) (he : n % 2 = 0) : 0 < ctz n := by
  obtain ⟨h1, h2⟩ := natAbs_decomp n hn
  rcases Nat.eq_zero_or_pos (ctz n) with h | h
  · rw [h, pow_zero, one_mul] at h1; rw [h, ← h1] at h2; omega
  · exact h

theorem jacobi_zero_left (b : Nat) (hb : b % 2 = 1) :
    jacobiSym 0 b = if b = 1 then 1 else 0 := by
  by_cases h : b = 1
  · subst h; simp
  · rw [if_neg h]; exact jacobiSym.zero_left (by omega)

theorem kronSym_zero_left (b : ℤ) : kronSym 0 b = if b.natAbs = 1 then 1 else 0 := by
  by_cases hb : b = 0
  · subst hb; rw [kronSym_zero_right]
  have hn : b.natAbs ≠ 0 := by omega
  obtain ⟨h1, h2⟩ := natAbs_decomp b.natAbs hn
  rw [kronSym_of_natAbs 0 b _ _ h2 h1, if_neg (by omega), one_mul, jacobi_zero_left _ h2]
  by_cases he : b.natAbs % 2 = 0
  · have := ctz_pos_of_even _ hn he
    rw [kron2_even 0 (by norm_num), zero_pow (by omega), zero_mul, if_neg (by omega)]
  · have h0 : ctz b.natAbs = 0 := ctz_unique b.natAbs 0 b.natAbs (by omega) (by simp)
    rw [h0, pow_zero, one_mul, Nat.shiftRight_zero]

/-- both operands even. -/
theorem kronSym_even_even (a b : ℤ) (ha : a % 2 = 0) (hb : b % 2 = 0) (hb0 : b ≠ 0) :
    kronSym a b = 0 := by
  have hn : b.natAbs ≠ 0 := by omega
  obtain ⟨h1, h2⟩ := natAbs_decomp b.natAbs hn
  have := ctz_pos_of_even _ hn (by omega)
  rw [kronSym_of_natAbs a b _ _ h2 h1, kron2_even a ha, zero_pow (by omega), mul_zero, zero_mul]

theorem twosBit1_zero (x : Nat) : twosBit1 0 x = 0 := by
  unfold twosBit1; simp

theorem bit1ToPN_zero : bit1ToPN 0 = 1 := by decide

theorem asgn_one (a : ℤ) : bit1ToPN ((if a < 0 then 2 else 0) &&& 1) = 1 := by
  split_ifs <;> decide

/-- the tail shared by mpz_kronecker_ui / _si: `b' == 1` shortcut or modexact + jacobi_base. -/
theorem jacModBase_or_one (r : Nat) (a : ℤ) (b' : Nat) (hb' : b' % 2 = 1) :
    (if b' = 1 then bit1ToPN r
     else jacModBase (r ^^^ ((if a < 0 then 2 else 0) &&& b')) (natLimbs a.natAbs) b')
      = bit1ToPN r * jacobiSym a b' := by
  by_cases h : b' = 1
  · subst h; rw [if_pos rfl]; simp
  · rw [if_neg h, jacModBase_spec _ _ _ hb' (by omega), val_natLimbs, bit1ToPN_xor, mul_assoc,
      jacobi_sign a b' hb']

/-- JACOBI_TWOS_U_BIT1 (twos, a_low) = (a/2)^twos for odd a. -/
theorem twos_low_spec (a : ℤ) (ha : a % 2 = 1) (t : Nat) :
    bit1ToPN (twosBit1 t ((natLimbs a.natAbs).headD 0)) = kron2 a ^ t := by
  rw [natLimbs_headD]
  have hB := B_eq
  have ho : a.natAbs % B % 2 = 1 := by rw [hB]; omega
  rw [bit1ToPN_twosBit1 _ _ ho, kron2_eq_jacobi a ha, jacobi_two_mod8 _ a.natAbs ho (by rw [hB]; omega)]

theorem jacModBase_or_one_u (r : Nat) (a : ℤ) (b' : Nat) (hb' : b' % 2 = 1) :
    (if b' = 1 then bit1ToPN (r ^^^ ((if a < 0 then 2 else 0) &&& b'))
     else jacModBase (r ^^^ ((if a < 0 then 2 else 0) &&& b')) (natLimbs a.natAbs) b')
      = bit1ToPN r * jacobiSym a b' := by
  rw [← jacModBase_or_one r a b' hb']
  by_cases h : b' = 1
  · subst h; rw [if_pos rfl, if_pos rfl, bit1ToPN_xor, asgn_one, mul_one]
  · rw [if_neg h, if_neg h]

theorem low_even_iff (a : ℤ) : (natLimbs a.natAbs).headD 0 % 2 = 0 ↔ a % 2 = 0 := by
  rw [natLimbs_headD, B_eq]; omega

theorem mpz_kronecker_ui_spec (a : ℤ) (b : Nat) : mpz_kronecker_ui a b = kronSym a b := by
  unfold mpz_kronecker_ui
  dsimp only
  by_cases ha : a = 0
  · subst ha
    rw [if_pos ((ssize_eq_zero 0).mpr rfl), kronSym_zero_left]; rfl
  rw [if_neg (mt (ssize_eq_zero a).mp ha)]
  simp only [ssize_neg]
  by_cases hbo : b % 2 ≠ 0
  · have hb' : b % 2 = 1 := by omega
    rw [if_pos hbo]
    have h := jacModBase_or_one_u 0 a b hb'
    rw [Nat.zero_xor, bit1ToPN_zero, one_mul] at h
    rw [h, kronSym_of_natAbs a b 0 b hb' (by simp), if_neg (by omega), pow_zero, one_mul, one_mul]
  rw [if_neg hbo]
  by_cases hb0 : b = 0
  · subst hb0
    rw [if_pos rfl, ls0_spec, Nat.cast_zero, kronSym_zero_right]
  rw [if_neg hb0]
  by_cases hae : (natLimbs a.natAbs).headD 0 % 2 = 0
  · rw [if_pos hae, kronSym_even_even a b ((low_even_iff a).mp hae) (by omega) (by omega)]
  rw [if_neg hae]
  have hao : a % 2 = 1 := by have := low_even_iff a; omega
  obtain ⟨h1, h2⟩ := natAbs_decomp b hb0
  rw [jacModBase_or_one_u _ a _ h2, twos_low_spec a hao,
    kronSym_of_natAbs a b _ _ h2 (by simpa using h1), if_neg (by omega), one_mul]

example : mpz_kronecker_ui (-15) 28 = -1 := by decide +kernel
example : mpz_kronecker_ui (-(2 ^ 70 + 7)) 56 = -1 := by decide +kernel
example : kronSym (-(2 ^ 70 + 7)) 56 = -1 := by
  have h := mpz_kronecker_ui_spec (-(2 ^ 70 + 7)) 56
  rw [Nat.cast_ofNat] at h
  rw [← h]; decide +kernel

theorem bit1ToPN_ite (p : Prop) [Decidable p] :
    bit1ToPN (if p then 2 else 0) = if p then -1 else 1 := by
  split_ifs <;> decide

theorem mpz_kronecker_si_spec (a b : ℤ) : mpz_kronecker_si a b = kronSym a b := by
  unfold mpz_kronecker_si
  dsimp only
  by_cases ha : a = 0
  · subst ha
    rw [if_pos ((ssize_eq_zero 0).mpr rfl), kronSym_zero_left]
    have : (b = 1 ∨ b = -1) ↔ b.natAbs = 1 := by omega
    simp only [this]
  rw [if_neg (mt (ssize_eq_zero a).mp ha)]
  simp only [ssize_neg]
  by_cases hb0 : b = 0
  · subst hb0
    rw [if_pos (by simp), ls0_spec, kronSym_zero_right]
  have hn : b.natAbs ≠ 0 := by omega
  rw [if_neg (by omega)]
  have hsg : bit1ToPN (if a < 0 ∧ b < 0 then 2 else 0) = if b < 0 ∧ a < 0 then -1 else 1 := by
    rw [bit1ToPN_ite]; simp only [and_comm]
  by_cases hbe : b.natAbs % 2 = 0
  · by_cases hae : (natLimbs a.natAbs).headD 0 % 2 = 0
    · rw [if_pos ⟨hbe, hae⟩, kronSym_even_even a b ((low_even_iff a).mp hae) (by omega) hb0]
    rw [if_neg (by tauto)]
    simp only [if_pos hbe]
    have hao : a % 2 = 1 := by have := low_even_iff a; omega
    obtain ⟨h1, h2⟩ := natAbs_decomp b.natAbs hn
    rw [jacModBase_or_one _ a _ h2, bit1ToPN_xor, twos_low_spec a hao, hsg,
      kronSym_of_natAbs a b _ _ h2 h1]
  · rw [if_neg (by tauto)]
    simp only [if_neg hbe]
    have h2 : b.natAbs % 2 = 1 := by omega
    rw [jacModBase_or_one _ a _ h2, hsg, kronSym_of_natAbs a b 0 _ h2 (by simp), pow_zero, mul_one]

example : mpz_kronecker_si (-15) (-28) = 1 := by decide +kernel
example : mpz_kronecker_si (-(2 ^ 70 + 7)) (-24) = -1 := by decide +kernel
example : kronSym (-(2 ^ 70 + 7)) (-24) = -1 := by
  rw [← mpz_kronecker_si_spec]; decide +kernel

/-! ### the numerator is the small operand: mpz_ui_kronecker, mpz_si_kronecker -/

/-- the tail of kronsz.c / kronuz.c: `a == 1` shortcut, or reduce b modulo a (modexact), use
    reciprocity on the odd part b' of b (only bit 1 of `bl` is read) and call mpn_jacobi_base. -/
theorem kfin_spec (a : Nat) (l : List Nat) (bl bit c b' : Nat) (ha : a % 2 = 1) (hb' : b' % 2 = 1)
    (hv : val l = 2 ^ c * b') (hbl : bl / 2 % 2 = b' / 2 % 2) :
    (if a = 1 then bit1ToPN bit
     else jacobi_base (modexact_1_odd l a) a ((bit ^^^ a) ^^^ (a &&& bl)))
      = bit1ToPN bit * jacobiSym 2 a ^ c * jacobiSym a b' := by
  by_cases h1 : a = 1
  · subst h1
    rw [if_pos rfl, Nat.cast_one, jacobiSym.one_left]; simp
  rw [if_neg h1, jacobi_base_spec _ _ _ ha (by omega), bit1ToPN_xor, bit1ToPN_xor,
    bit1ToPN_and_congr a bl b' hbl, jacobi_recip a b' ha hb']
  have e := modexact_jacobi l a ha
  rw [hv] at e
  push_cast at e
  rw [jacobiSym.mul_left, jacobiSym.pow_left] at e
  have e2 : bit1ToPN bit * bit1ToPN a * bit1ToPN (a &&& b') * jacobiSym (modexact_1_odd l a) a
      = bit1ToPN bit * bit1ToPN (a &&& b') * (bit1ToPN a * jacobiSym (modexact_1_odd l a) a) := by ring
  rw [e2, e]; ring

theorem B_eq_pow : B = 2 ^ 64 := rfl

theorem bit1ToPN_half_xor (a : Nat) (ha : a % 2 = 1) :
    bit1ToPN ((a >>> 1) ^^^ a) = jacobiSym 2 a := by
  have h := bit1ToPN_twosBit1 1 a ha
  unfold twosBit1 at h
  rw [show (1 : Nat) <<< 1 = 2 from rfl, bit1ToPN_two_and, pow_one] at h
  exact h

/-- kronsz.c:84-113 / kronuz.c:58-93: either b = 2^63·B^k (early return (a/2)), or the stripped
    pointer l' and a `b_low` whose bit 1 is bit 1 of the odd part b' of b. -/
theorem kronEvenB_spec (a : Nat) (ha : a % 2 = 1) (l : List Nat) (hl : Limbs l) (hv : val l ≠ 0)
    (bit : Nat) :
    (∃ k, val l = 2 ^ (64 * k + 63) ∧ kronEvenB a l bit = .inr (bit1ToPN bit * jacobiSym 2 a)) ∨
    (∃ k c b' l' bl, val l = 2 ^ (64 * k + c) * b' ∧ b' % 2 = 1 ∧ val l' = 2 ^ c * b' ∧
      bl / 2 % 2 = b' / 2 % 2 ∧ kronEvenB a l bit = .inl (some (l', bl))) := by
  obtain ⟨k, hk⟩ := dropZeros_val l
  have hh := dropZeros_head l hv
  have hL := dropZeros_Limbs l hl
  unfold kronEvenB
  dsimp only
  generalize l.dropWhile (· == 0) = l' at *
  rw [B_eq_pow, ← pow_mul] at hk
  cases l' with
  | nil => simp at hh
  | cons x xs =>
    generalize hy : (x :: xs).headD 0 = y at *
    obtain rfl : x = y := hy
    have hx0 : x ≠ 0 := hh
    have hxB : x < 2 ^ 64 := (Limbs_cons.mp hL).1
    by_cases hxe : x % 2 = 0
    · rw [if_pos hxe]
      by_cases hx63 : x = 2 ^ 63
      · rw [if_pos hx63]
        cases xs with
        | nil =>
          left
          refine ⟨k, ?_, ?_⟩
          · rw [hk, hx63, pow_add]; simp
          · rw [if_pos (by simp), bit1ToPN_xor, bit1ToPN_half_xor a ha]
        | cons y ys =>
          right
          rw [if_neg (by simp)]
          refine ⟨k, 63, 1 + 2 * (y + B * val ys), _, _, ?_, by omega, ?_, ?_, rfl⟩
          · rw [hk, pow_add, hx63, val_cons, val_cons, B_eq_pow]; ring
          · rw [hx63, val_cons, val_cons, B_eq_pow]; ring
          · simp only [List.getD_cons_succ, List.getD_cons_zero, Nat.shiftLeft_eq, B_eq]
            omega
      · rw [if_neg hx63]
        right
        obtain ⟨h1, h2⟩ := natAbs_decomp x hx0
        have hc : ctz x < 64 := ctz_lt_of_lt_pow x 64 (by omega) hxB
        have hc62 : ctz x ≤ 62 := by
          by_contra hcon
          have h63 : ctz x = 63 := by omega
          rw [h63] at h1 h2
          apply hx63
          generalize x >>> 63 = o at *
          have : o = 1 := by omega
          rw [this] at h1; omega
        generalize ctz x = c at *
        generalize x >>> c = o at *
        obtain ⟨d, hd⟩ : ∃ d, 64 = c + d + 2 := ⟨62 - c, by omega⟩
        refine ⟨k, c, o + 4 * (2 ^ d * val xs), _, _, ?_, by omega, ?_, by omega, rfl⟩
        · rw [hk, pow_add, val_cons, h1, B_eq_pow, hd, pow_add, pow_add]; ring
        · rw [val_cons, h1, B_eq_pow, hd, pow_add, pow_add]; ring
    · rw [if_neg hxe]
      right
      refine ⟨k, 0, val (x :: xs), _, _, ?_, ?_, by simp, ?_, rfl⟩
      · rw [hk, Nat.add_zero]
      · rw [val_cons, B_eq]; omega
      · rw [val_cons, B_eq]; omega

theorem kron2_pow63 (a : ℤ) (ha : a % 2 = 1) (k : Nat) : kron2 a ^ (64 * k + 63) = kron2 a := by
  rw [kron2_pow_B a ha]
  rcases kron2_odd a ha with h | h <;> rw [h] <;> norm_num

theorem natAbs_one_iff (b : ℤ) :
    ((natLimbs b.natAbs).length = 1 ∧ (natLimbs b.natAbs).headD 0 = 1) ↔ b.natAbs = 1 := by
  rw [natLimbs_length_eq_one, natLimbs_headD]
  have hB := B_eq
  constructor
  · rintro ⟨⟨_, h2⟩, h3⟩; rwa [Nat.mod_eq_of_lt h2] at h3
  · intro h; rw [h, hB]; omega

theorem low_odd_facts (n : Nat) (h : (natLimbs n).headD 0 % 2 ≠ 0) :
    n % 2 = 1 ∧ (natLimbs n).headD 0 % 2 = 1 ∧ (natLimbs n).headD 0 % 8 = n % 8 ∧
      (natLimbs n).headD 0 / 2 % 2 = n / 2 % 2 := by
  rw [natLimbs_headD, B_eq] at *
  omega

theorem mpz_ui_kronecker_spec (a : Nat) (b : ℤ) : mpz_ui_kronecker a b = kronSym a b := by
  unfold mpz_ui_kronecker
  dsimp only
  by_cases hb0 : b = 0
  · subst hb0
    rw [if_pos (by rw [natLimbs_length_eq_zero]; rfl), kronSym_zero_right, Int.natAbs_natCast]
  have hn : b.natAbs ≠ 0 := by omega
  rw [if_neg (by rw [natLimbs_length_eq_zero]; exact hn)]
  by_cases hbe : (natLimbs b.natAbs).headD 0 % 2 = 0
  · rw [if_pos hbe]
    have hbe' : b % 2 = 0 := by rw [natLimbs_headD, B_eq] at hbe; omega
    by_cases hae : a % 2 = 0
    · rw [if_pos hae, kronSym_even_even a b (by omega) hbe' hb0]
    rw [if_neg hae]
    have hao : a % 2 = 1 := by omega
    have hao' : (a : ℤ) % 2 = 1 := by omega
    have hk2 : kron2 (a : ℤ) = jacobiSym 2 a := kron2_nat_odd a hao
    rcases kronEvenB_spec a hao (natLimbs b.natAbs) (Limbs_natLimbs _)
      (by rw [val_natLimbs]; exact hn) 0 with ⟨k, hv, hK⟩ | ⟨k, c, b', l', bl, hv, hb', hv', hbl, hK⟩
    · rw [hK]
      dsimp only
      rw [val_natLimbs] at hv
      rw [kronSym_of_natAbs a b (64 * k + 63) 1 (by norm_num) (by rw [hv, mul_one]),
        if_neg (by omega), kron2_pow63 _ hao', hk2, bit1ToPN_zero]
      simp
    · rw [hK]
      dsimp only
      rw [val_natLimbs] at hv
      rw [kfin_spec a l' bl 0 c b' hao hb' hv' hbl, kronSym_of_natAbs a b _ b' hb' hv,
        if_neg (by omega), kron2_pow_B _ hao', hk2, bit1ToPN_zero]
  rw [if_neg hbe]
  obtain ⟨hbo, hlo, hl8, hl2⟩ := low_odd_facts _ hbe
  have hvb : val (natLimbs b.natAbs) = 2 ^ 0 * b.natAbs := by rw [val_natLimbs, pow_zero, one_mul]
  have hks : kronSym a b = jacobiSym a b.natAbs := by
    rw [kronSym_of_natAbs a b 0 _ hbo (by simp), if_neg (by omega), pow_zero, one_mul, one_mul]
  by_cases ha0 : a = 0
  · subst ha0
    rw [if_pos rfl, Nat.cast_zero, kronSym_zero_left]
    simp only [natAbs_one_iff]
  rw [if_neg ha0]
  by_cases hae : a % 2 = 0
  · rw [if_pos hae]
    obtain ⟨h1, h2⟩ := natAbs_decomp a ha0
    rw [kfin_spec _ _ _ _ 0 _ h2 hbo hvb hl2, pow_zero, mul_one, bit1ToPN_twosBit1 _ _ hlo,
      jacobi_two_mod8 _ _ hlo hl8, hks]
    conv_rhs => rw [h1]
    push_cast
    rw [jacobiSym.mul_left, jacobiSym.pow_left]
  · rw [if_neg hae, kfin_spec _ _ _ _ 0 _ (by omega) hbo hvb hl2, hks, bit1ToPN_zero]
    simp

example : mpz_ui_kronecker 29 (-(2 ^ 63 * 2 ^ 64 * 7)) = -1 := by decide +kernel
example : mpz_ui_kronecker 21 (-(2 ^ 64 * 2 ^ 63)) = -1 := by decide +kernel
example : mpz_ui_kronecker 20 (-(2 ^ 64 * 2 ^ 64 * 7 + 5)) = -1 := by decide +kernel
example : kronSym 29 (-(2 ^ 61 * 2 ^ 64 * 7)) = -1 := by
  have h := mpz_ui_kronecker_spec 29 (-(2 ^ 61 * 2 ^ 64 * 7))
  rw [Nat.cast_ofNat] at h
  rw [← h]; decide +kernel

theorem mpz_si_kronecker_spec (a b : ℤ) : mpz_si_kronecker a b = kronSym a b := by
  unfold mpz_si_kronecker
  dsimp only
  by_cases hb0 : b = 0
  · subst hb0
    rw [if_pos ((ssize_eq_zero 0).mpr rfl), kronSym_zero_right]
    have : (a = 1 ∨ a = -1) ↔ a.natAbs = 1 := by omega
    simp only [this]
  have hn : b.natAbs ≠ 0 := by omega
  rw [if_neg (mt (ssize_eq_zero b).mp hb0)]
  simp only [ssize_neg]
  have hsg : bit1ToPN (if a < 0 ∧ b < 0 then 2 else 0) = if b < 0 ∧ a < 0 then -1 else 1 := by
    rw [bit1ToPN_ite]; simp only [and_comm]
  by_cases hbe : (natLimbs b.natAbs).headD 0 % 2 ≠ 0
  · rw [if_pos hbe]
    obtain ⟨hbo, hlo, hl8, hl2⟩ := low_odd_facts _ hbe
    have hvb : val (natLimbs b.natAbs) = 2 ^ 0 * b.natAbs := by rw [val_natLimbs, pow_zero, one_mul]
    have hks : kronSym a b = (if b < 0 ∧ a < 0 then -1 else 1) * jacobiSym a b.natAbs := by
      rw [kronSym_of_natAbs a b 0 _ hbo (by simp), pow_zero, mul_one]
    have hasg := bit1ToPN_and_congr (if a < 0 then 2 else 0) _ _ hl2
    by_cases ha0 : a = 0
    · subst ha0
      rw [if_pos (by simp), kronSym_zero_left]
      simp only [natAbs_one_iff]
    have han : a.natAbs ≠ 0 := by omega
    rw [if_neg (by omega)]
    by_cases hae : a.natAbs % 2 = 0
    · simp only [if_pos hae]
      obtain ⟨h1, h2⟩ := natAbs_decomp a.natAbs han
      have hJ : jacobiSym (a.natAbs : ℤ) b.natAbs
          = jacobiSym 2 b.natAbs ^ ctz a.natAbs * jacobiSym ((a.natAbs >>> ctz a.natAbs : Nat) : ℤ) b.natAbs := by
        conv_lhs => rw [h1]
        push_cast
        rw [jacobiSym.mul_left, jacobiSym.pow_left]
      rw [kfin_spec _ _ _ _ 0 _ h2 hbo hvb hl2, pow_zero, mul_one, bit1ToPN_xor, bit1ToPN_xor,
        bit1ToPN_twosBit1 _ _ hlo, jacobi_two_mod8 _ _ hlo hl8, hsg, hasg, hks,
        ← jacobi_sign a _ hbo, hJ]
      ring
    · simp only [if_neg hae]
      rw [kfin_spec _ _ _ _ 0 _ (by omega) hbo hvb hl2, pow_zero, mul_one, bit1ToPN_xor, hsg, hasg,
        hks, ← jacobi_sign a _ hbo]
      ring
  rw [if_neg hbe]
  have hbe' : b % 2 = 0 := by rw [natLimbs_headD, B_eq] at hbe; omega
  by_cases hae : a % 2 = 0
  · rw [if_pos hae, kronSym_even_even a b hae hbe' hb0]
  rw [if_neg hae]
  have hao : a % 2 = 1 := by omega
  have hao' : a.natAbs % 2 = 1 := by omega
  have hk2 : kron2 a = jacobiSym 2 a.natAbs := kron2_eq_jacobi a hao
  rcases kronEvenB_spec a.natAbs hao' (natLimbs b.natAbs) (Limbs_natLimbs _)
    (by rw [val_natLimbs]; exact hn) (if a < 0 ∧ b < 0 then 2 else 0)
    with ⟨k, hv, hK⟩ | ⟨k, c, b', l', bl, hv, hb', hv', hbl, hK⟩
  · rw [hK]
    dsimp only
    rw [val_natLimbs] at hv
    rw [kronSym_of_natAbs a b (64 * k + 63) 1 (by norm_num) (by rw [hv, mul_one]),
      kron2_pow63 _ hao, hk2, hsg]
    simp
  · rw [hK]
    dsimp only
    rw [val_natLimbs] at hv
    rw [kfin_spec a.natAbs l' bl _ c b' hao' hb' hv' hbl, kronSym_of_natAbs a b _ b' hb' hv,
      kron2_pow_B _ hao, hk2, bit1ToPN_xor, hsg,
      bit1ToPN_and_congr (if a < 0 then 2 else 0) _ _ hbl, ← jacobi_sign a _ hb']
    ring

example : mpz_si_kronecker (-29) (-(2 ^ 63 * 2 ^ 64 * 7)) = -1 := by decide +kernel
example : mpz_si_kronecker (-21) (-(2 ^ 64 * 2 ^ 63)) = 1 := by decide +kernel
example : mpz_si_kronecker (-40) (-(2 ^ 64 * 2 ^ 64 * 7 + 5)) = -1 := by decide +kernel
example : kronSym (-29) (-(2 ^ 61 * 2 ^ 64 * 7)) = -1 := by
  rw [← mpz_si_kronecker_spec]; decide +kernel

/-- MPIR's mixed-precision Kronecker functions return the Kronecker symbol for every sign / parity /
    zero combination (no word-size hypothesis is needed at the level of the models). -/
theorem kronecker_wrappers_spec :
    (∀ (a : ℤ) (b : Nat), mpz_kronecker_ui a b = kronSym a b) ∧
    (∀ (a b : ℤ), mpz_kronecker_si a b = kronSym a b) ∧
    (∀ (a : Nat) (b : ℤ), mpz_ui_kronecker a b = kronSym a b) ∧
    (∀ (a b : ℤ), mpz_si_kronecker a b = kronSym a b) :=
  ⟨mpz_kronecker_ui_spec, mpz_kronecker_si_spec, mpz_ui_kronecker_spec, mpz_si_kronecker_spec⟩

/-! ### mpz_jacobi (both operands multi-precision) -/

/-- the part of mpz_jacobi after the operands are ordered (mpz/jacobi.c:143-). -/
def jacTail (asrcp : List Nat) (asz : Nat) (bsrcp : List Nat) (bsz alow blow btwos result_bit1 : Nat) : ℤ :=
  if bsz = 1 then
    let result_bit1 := result_bit1 ^^^ twosBit1 btwos alow
    if blow = 1 then bit1ToPN result_bit1
    else if asz > 1 then
      jacobi_base (modexact_1_odd asrcp blow) blow (result_bit1 ^^^ blow)
    else jacobi_base alow blow result_bit1
  else
    let A := val asrcp; let Bv := val bsrcp
    let ap := if asz > bsz then A % Bv else A
    let result_bit1 := if btwos > 0 then result_bit1 ^^^ twosBit1 btwos alow else result_bit1
    let bp := Bv >>> btwos
    jacobi_n ap bp ((result_bit1 >>> 1) % 2)

theorem mpz_jacobi_eq (a b : ℤ) : mpz_jacobi a b =
    if ssize b = 0 then ls0 ((natLimbs a.natAbs).headD 0) (ssize a)
    else if ssize a = 0 then ls0 ((natLimbs b.natAbs).headD 0) (ssize b)
    else if ((natLimbs a.natAbs).headD 0 ||| (natLimbs b.natAbs).headD 0) % 2 = 0 then 0
    else
      let S : Nat := if ssize b < 0 then (if ssize a < 0 then 2 else 0) else 0
      let Lb := (natLimbs b.natAbs).dropWhile (· == 0)
      let r := jacShiftLow Lb Lb.length
      let bit := if ssize a < 0 then S ^^^ r.1 else S
      let La := (natLimbs a.natAbs).dropWhile (· == 0)
      if La.length < r.2.2 then
        let n := jacShiftLow La La.length
        jacTail Lb r.2.2 La n.2.2 r.1 n.1 n.2.1 (bit ^^^ (r.1 &&& n.1))
      else jacTail La La.length Lb r.2.2 (La.headD 0) r.1 r.2.1 bit := by
  unfold mpz_jacobi
  dsimp only
  by_cases h1 : ssize b = 0
  · rw [if_pos h1, if_pos h1]
  rw [if_neg h1, if_neg h1]
  by_cases h2 : ssize a = 0
  · rw [if_pos h2, if_pos h2]
  rw [if_neg h2, if_neg h2]
  by_cases h3 : ((natLimbs a.natAbs).headD 0 ||| (natLimbs b.natAbs).headD 0) % 2 = 0
  · rw [if_pos h3, if_pos h3]
  rw [if_neg h3, if_neg h3]
  by_cases h4 : ((natLimbs a.natAbs).dropWhile (· == 0)).length <
      (jacShiftLow ((natLimbs b.natAbs).dropWhile (· == 0)) ((natLimbs b.natAbs).dropWhile (· == 0)).length).2.2
  · simp only [if_pos h4]; rfl
  · simp only [if_neg h4]; rfl

theorem sbit_eq (x : Nat) : (if (x >>> 1) % 2 % 2 = 1 then (-1 : ℤ) else 1) = bit1ToPN x := by
  rw [bit1ToPN_eq, testBit_one_eq, Nat.shiftRight_eq_div_pow, pow_one, Nat.mod_mod]
  by_cases h : x / 2 % 2 = 1 <;> simp [h]

theorem kronSym_odd_nat (a : ℤ) (b : Nat) (hb : b % 2 = 1) : kronSym a b = jacobiSym a b := by
  rw [kronSym_of_natAbs a b 0 b hb (by simp), if_neg (by omega), pow_zero, one_mul, one_mul]

theorem jacobi_mod_of_dvd (A Bv b' : Nat) (h : b' ∣ Bv) :
    jacobiSym ((A % Bv : Nat) : ℤ) b' = jacobiSym (A : ℤ) b' := by
  rw [jacobiSym.mod_left, ← Int.natCast_mod, Nat.mod_mod_of_dvd _ h, Int.natCast_mod,
    ← jacobiSym.mod_left]

theorem jacTail_spec (La : List Nat) (asz : Nat) (Lb : List Nat) (bsz alow blow btwos bit b' : Nat)
    (hv : val Lb = 2 ^ btwos * b') (hb' : b' % 2 = 1) (hblow : blow = b' % B)
    (hsz : bsz = 1 → b' < B) (ha : asz > 1 ∨ val La = alow) :
    jacTail La asz Lb bsz alow blow btwos bit
      = bit1ToPN bit * bit1ToPN (twosBit1 btwos alow) * jacobiSym (val La) b' := by
  unfold jacTail
  dsimp only
  by_cases h1 : bsz = 1
  · rw [if_pos h1]
    have : blow = b' := by rw [hblow, Nat.mod_eq_of_lt (hsz h1)]
    subst this
    by_cases h2 : blow = 1
    · rw [if_pos h2, h2, bit1ToPN_xor]; simp
    rw [if_neg h2]
    by_cases h3 : asz > 1
    · rw [if_pos h3, jacobi_base_spec _ _ _ hb' (by omega), bit1ToPN_xor, bit1ToPN_xor, mul_assoc,
        modexact_jacobi La blow hb']
    · rw [if_neg h3, jacobi_base_spec _ _ _ hb' (by omega), bit1ToPN_xor]
      rcases ha with ha | ha
      · exact absurd ha h3
      · rw [ha]
  · rw [if_neg h1]
    unfold jacobi_n
    have hbp : val Lb >>> btwos = b' := by
      rw [Nat.shiftRight_eq_div_pow, hv, Nat.mul_div_cancel_left _ (by positivity)]
    rw [sbit_eq, hbp, kronecker_eq_kronSym, kronSym_odd_nat _ _ hb']
    have hJ : jacobiSym ((if asz > bsz then val La % val Lb else val La : Nat) : ℤ) b'
        = jacobiSym (val La : ℤ) b' := by
      split_ifs
      · exact jacobi_mod_of_dvd _ _ _ ⟨2 ^ btwos, by rw [hv]; ring⟩
      · rfl
    rw [hJ]
    by_cases h0 : btwos > 0
    · rw [if_pos h0, bit1ToPN_xor]
    · have : btwos = 0 := by omega
      subst this
      rw [if_neg h0, twosBit1_zero, bit1ToPN_zero, mul_one]

/-- jacobi.c:96-104 / 131-139: the low limb of b >> btwos, and the size after the shift. -/
theorem jacShiftLow_spec (l : List Nat) (hl : Limbs l) (hh : l.headD 0 ≠ 0) :
    ∃ b', val l = 2 ^ (jacShiftLow l l.length).2.1 * b' ∧ b' % 2 = 1 ∧
      (jacShiftLow l l.length).1 = b' % B ∧ ((jacShiftLow l l.length).2.2 = 1 → b' < B) ∧
      1 ≤ (jacShiftLow l l.length).2.2 ∧ (jacShiftLow l l.length).2.2 ≤ l.length ∧
      (jacShiftLow l l.length).2.1 = ctz (l.headD 0) := by
  unfold jacShiftLow
  dsimp only
  cases l with
  | nil => simp at hh
  | cons x xs =>
    generalize hy : (x :: xs).headD 0 = y at *
    obtain rfl : x = y := hy
    have hxB : x < 2 ^ 64 := (Limbs_cons.mp hl).1
    obtain ⟨h1, h2⟩ := natAbs_decomp x hh
    have hc : ctz x < 64 := ctz_lt_of_lt_pow x 64 (by omega) hxB
    generalize ctz x = c at *
    generalize x >>> c = o at *
    have hole : o ≤ x := by rw [h1]; exact Nat.le_mul_of_pos_left _ (by positivity)
    by_cases hc0 : c = 0
    · subst hc0
      rw [if_neg (by omega)]
      rw [pow_zero, one_mul] at h1
      subst h1
      refine ⟨val (x :: xs), by simp, ?_, ?_, ?_, by simp, by simp, rfl⟩
      · rw [val_cons, B_eq]; omega
      · dsimp only; rw [val_cons, B_eq]; omega
      · intro h; dsimp only at h
        have : xs = [] := by
          cases xs with
          | nil => rfl
          | cons _ _ => simp at h
        subst this; rw [val_cons, val_nil, B_eq]; omega
    cases xs with
    | nil =>
      rw [if_neg (by simp)]
      refine ⟨o, by rw [val_cons, val_nil, h1]; simp, h2, ?_, ?_, by simp, by simp, rfl⟩
      · dsimp only; rw [Nat.mod_eq_of_lt]; rw [B_eq]; omega
      · intro _; rw [B_eq]; omega
    | cons y ys =>
      have hyB : y < 2 ^ 64 := (Limbs_cons.mp (Limbs_cons.mp hl).2).1
      rw [if_pos ⟨by simp, by omega⟩]
      generalize hg : (x :: y :: ys).getD 1 0 = y' at *
      obtain rfl : y = y' := hg
      obtain ⟨d, hd⟩ : ∃ d, 64 = d + c := ⟨64 - c, by omega⟩
      have hd' : 64 - c = d := by omega
      rw [hd']
      have hP : (2 : Nat) ^ 64 = 2 ^ d * 2 ^ c := by rw [hd, pow_add]
      have hoP : o < 2 ^ d := by
        have : 2 ^ c * o < 2 ^ c * 2 ^ d := by rw [← h1, mul_comm, ← hP]; exact hxB
        exact Nat.lt_of_mul_lt_mul_left this
      have hsh : (y <<< d) % B = 2 ^ d * (y % 2 ^ c) := by
        rw [Nat.shiftLeft_eq, B_eq_pow, hP, mul_comm y, Nat.mul_mod_mul_left]
      have hor : o ||| (y <<< d) % B = 2 ^ d * (y % 2 ^ c) + o := by
        rw [hsh, Nat.lor_comm, ← Nat.two_pow_add_eq_or_of_lt hoP]
      refine ⟨o + 2 ^ d * (y + B * val ys), ?_, ?_, ?_, ?_, ?_, ?_, rfl⟩
      · rw [val_cons, val_cons, h1, B_eq_pow, hP]; ring
      · have : 2 ^ d * (y + B * val ys) % 2 = 0 := by
          obtain ⟨e, rfl⟩ : ∃ e, d = e + 1 := ⟨d - 1, by omega⟩
          rw [pow_succ, mul_assoc, mul_comm, mul_assoc]; exact Nat.mul_mod_right _ _
        omega
      · rw [hor]
        have e1 : o + 2 ^ d * (y + B * val ys)
            = (2 ^ d * (y % 2 ^ c) + o) + B * (y / 2 ^ c + 2 ^ d * val ys) := by
          conv_lhs => rw [← Nat.mod_add_div y (2 ^ c)]
          rw [B_eq_pow, hP]; ring
        have hlt : 2 ^ d * (y % 2 ^ c) + o < B := by
          have : y % 2 ^ c < 2 ^ c := Nat.mod_lt _ (by positivity)
          rw [B_eq_pow, hP]
          calc 2 ^ d * (y % 2 ^ c) + o < 2 ^ d * (y % 2 ^ c) + 2 ^ d := by omega
            _ = 2 ^ d * (y % 2 ^ c + 1) := by ring
            _ ≤ 2 ^ d * 2 ^ c := Nat.mul_le_mul_left _ (by omega)
        rw [e1, Nat.add_mul_mod_self_left, Nat.mod_eq_of_lt hlt]
      · intro h
        have h' : (y :: ys).length + 1 = 2 ∧ y >>> c = 0 := by
          by_contra hcon
          rw [if_neg (by simpa using hcon)] at h
          simp at h
        obtain ⟨hlen, hy0⟩ := h'
        have : ys = [] := by
          cases ys with
          | nil => rfl
          | cons _ _ => simp at hlen
        subst this
        rw [Nat.shiftRight_eq_div_pow, Nat.div_eq_zero_iff] at hy0
        have hyc : y < 2 ^ c := by
          rcases hy0 with h | h
          · exact absurd h (by positivity)
          · exact h
        rw [val_nil, Nat.mul_zero, Nat.add_zero, B_eq_pow, hP]
        calc o + 2 ^ d * y < 2 ^ d + 2 ^ d * y := by omega
          _ = 2 ^ d * (y + 1) := by ring
          _ ≤ 2 ^ d * 2 ^ c := Nat.mul_le_mul_left _ (by omega)
      · split_ifs <;> simp
      · split_ifs <;> simp

theorem dropZeros_id (l : List Nat) (h : l.headD 0 ≠ 0) : l.dropWhile (· == 0) = l := by
  cases l with
  | nil => rfl
  | cons x xs =>
    have : (x == 0) = false := by simpa using h
    simp [this]

theorem ctz_of_odd (x : Nat) (h : x % 2 = 1) : ctz x = 0 := ctz_unique x 0 x h (by simp)

theorem or_mod_two (x y : Nat) : (x ||| y) % 2 = 0 ↔ x % 2 = 0 ∧ y % 2 = 0 := by
  have h := Nat.or_mod_two_pow (a := x) (b := y) (n := 1)
  rw [pow_one] at h
  rw [h]
  rcases Nat.mod_two_eq_zero_or_one x with h1 | h1 <;>
    rcases Nat.mod_two_eq_zero_or_one y with h2 | h2 <;> simp [h1, h2]

/-- JACOBI_STRIP_LOW_ZEROS on a non-zero operand. -/
theorem strip_facts (n : Nat) (hn : n ≠ 0) :
    (∃ k, n = B ^ k * val ((natLimbs n).dropWhile (· == 0))) ∧
    ((natLimbs n).dropWhile (· == 0)).headD 0 ≠ 0 ∧ Limbs ((natLimbs n).dropWhile (· == 0)) ∧
    (n % 2 = 1 → val ((natLimbs n).dropWhile (· == 0)) = n ∧
      ((natLimbs n).dropWhile (· == 0)).headD 0 % 2 = 1 ∧
      ((natLimbs n).dropWhile (· == 0)).headD 0 % 8 = n % 8) := by
  refine ⟨?_, dropZeros_head _ (by rw [val_natLimbs]; exact hn),
    dropZeros_Limbs _ (Limbs_natLimbs n), ?_⟩
  · obtain ⟨k, hk⟩ := dropZeros_val (natLimbs n)
    rw [val_natLimbs] at hk
    exact ⟨k, hk⟩
  · intro ho
    have hh : (natLimbs n).headD 0 % 2 = 1 ∧ (natLimbs n).headD 0 % 8 = n % 8 := by
      rw [natLimbs_headD, B_eq]; omega
    rw [dropZeros_id _ (by omega), val_natLimbs]
    exact ⟨rfl, hh⟩

theorem bit1ToPN_and_congr2 (x x' y y' : Nat) (hx : x / 2 % 2 = x' / 2 % 2)
    (hy : y / 2 % 2 = y' / 2 % 2) : bit1ToPN (x &&& y) = bit1ToPN (x' &&& y') := by
  rw [bit1ToPN_eq, bit1ToPN_eq, Nat.testBit_and, Nat.testBit_and, testBit_one_eq x,
    testBit_one_eq y, testBit_one_eq x', testBit_one_eq y', hx, hy]

theorem bit1ToPN_sq (x : Nat) : bit1ToPN x * bit1ToPN x = 1 := by
  rw [bit1ToPN_eq]; split_ifs <;> norm_num

theorem mpz_jacobi_spec (a b : ℤ) : mpz_jacobi a b = kronSym a b := by
  rw [mpz_jacobi_eq]
  by_cases hb0 : b = 0
  · subst hb0; rw [if_pos ((ssize_eq_zero 0).mpr rfl), ls0_spec, kronSym_zero_right]
  rw [if_neg (mt (ssize_eq_zero b).mp hb0)]
  by_cases ha0 : a = 0
  · subst ha0; rw [if_pos ((ssize_eq_zero 0).mpr rfl), ls0_spec, kronSym_zero_left]
  rw [if_neg (mt (ssize_eq_zero a).mp ha0)]
  have hB := B_eq
  by_cases hee : ((natLimbs a.natAbs).headD 0 ||| (natLimbs b.natAbs).headD 0) % 2 = 0
  · rw [if_pos hee]
    rw [or_mod_two, natLimbs_headD, natLimbs_headD, hB] at hee
    rw [kronSym_even_even a b (by omega) (by omega) hb0]
  rw [if_neg hee]
  have hpar : a % 2 = 1 ∨ b % 2 = 1 := by
    rw [or_mod_two, natLimbs_headD, natLimbs_headD, hB] at hee; omega
  simp only [ssize_neg]
  obtain ⟨⟨kb, hkb⟩, hhb, hLb, hob⟩ := strip_facts b.natAbs (by omega)
  obtain ⟨⟨ka, hka⟩, hha, hLa, hoa⟩ := strip_facts a.natAbs (by omega)
  generalize (natLimbs b.natAbs).dropWhile (· == 0) = Lb at *
  generalize (natLimbs a.natAbs).dropWhile (· == 0) = La at *
  obtain ⟨b', hvb, hb'o, hblow, hbsz, hbsz1, hbszle, hbtw⟩ := jacShiftLow_spec Lb hLb hhb
  obtain ⟨a', hva, ha'o, hnblow, hnbsz, hnbsz1, hnbszle, hnbtw⟩ := jacShiftLow_spec La hLa hha
  rcases hrb : jacShiftLow Lb Lb.length with ⟨blow, btwos, bsz⟩
  rcases hra : jacShiftLow La La.length with ⟨nblow, nbtwos, nbsz⟩
  rw [hrb] at hvb hblow hbsz hbsz1 hbszle hbtw
  rw [hra] at hva hnblow hnbsz hnbsz1 hnbszle hnbtw
  dsimp only at hvb hblow hbsz hbsz1 hbszle hbtw hva hnblow hnbsz hnbsz1 hnbszle hnbtw ⊢
  clear hrb hra hee
  -- parity facts
  have hF1 : a % 2 = 1 → val La = a.natAbs ∧ a' = a.natAbs ∧ nbtwos = 0 ∧
      ∀ t, bit1ToPN (twosBit1 t (La.headD 0)) = kron2 a ^ t := by
    intro h
    obtain ⟨h1, h2, h3⟩ := hoa (by omega)
    have h0 : nbtwos = 0 := by rw [hnbtw, ctz_of_odd _ h2]
    refine ⟨h1, ?_, h0, ?_⟩
    · rw [h1, h0, pow_zero, one_mul] at hva; exact hva.symm
    · intro t
      rw [bit1ToPN_twosBit1 _ _ h2, kron2_eq_jacobi a h, jacobi_two_mod8 _ _ h2 h3]
  have hF2 : b % 2 = 1 → val Lb = b.natAbs ∧ btwos = 0 := by
    intro h
    obtain ⟨h1, h2, h3⟩ := hob (by omega)
    exact ⟨h1, by rw [hbtw, ctz_of_odd _ h2]⟩
  have hF3 : ∃ E, b.natAbs = 2 ^ E * b' ∧ kron2 a ^ E = kron2 a ^ btwos := by
    by_cases h : b % 2 = 1
    · obtain ⟨h1, h2⟩ := hF2 h
      exact ⟨btwos, by rw [← h1, hvb], rfl⟩
    · refine ⟨64 * kb + btwos, ?_, kron2_pow_B a (by omega) kb btwos⟩
      rw [hkb, hvb, B_eq_pow, ← pow_mul, pow_add]; ring
  obtain ⟨E, hE1, hE2⟩ := hF3
  have hT := kronSym_of_natAbs a b E b' hb'o hE1
  rw [hE2] at hT
  -- sign bits
  have hbit : bit1ToPN (if a < 0 then (if b < 0 then if a < 0 then 2 else 0 else 0) ^^^ blow
        else if b < 0 then if a < 0 then 2 else 0 else 0)
      = (if b < 0 ∧ a < 0 then -1 else 1) * bit1ToPN ((if a < 0 then 2 else 0) &&& b') := by
    have hbl : bit1ToPN blow = bit1ToPN b' := bit1ToPN_congr _ _ (by rw [hblow, hB]; omega)
    by_cases h1 : a < 0 <;> by_cases h2 : b < 0 <;>
      simp only [h1, h2, if_true, if_false, bit1ToPN_xor, bit1ToPN_two_and, bit1ToPN_zero_and, hbl,
        and_self, and_false, false_and] <;>
      simp [bit1ToPN_zero, show bit1ToPN 2 = -1 by decide]
  generalize (if a < 0 then (if b < 0 then if a < 0 then 2 else 0 else 0) ^^^ blow
        else if b < 0 then if a < 0 then 2 else 0 else 0) = bit at *
  have hJ1 : jacobiSym (a.natAbs : ℤ) b' = jacobiSym (val La : ℤ) b' := by
    rw [hka]; push_cast
    rw [jacobiSym.mul_left, jacobiSym.pow_left, jacobi_B _ hb'o, one_pow, one_mul]
  have hJ2 : jacobiSym (val La : ℤ) b' = jacobiSym 2 b' ^ nbtwos * jacobiSym a' b' := by
    rw [hva]; push_cast
    rw [jacobiSym.mul_left, jacobiSym.pow_left]
  have hJ3 : jacobiSym (val Lb : ℤ) a' = jacobiSym 2 a' ^ btwos * jacobiSym b' a' := by
    rw [hvb]; push_cast
    rw [jacobiSym.mul_left, jacobiSym.pow_left]
  rw [hT, ← jacobi_sign a b' hb'o, hJ1]
  by_cases hsw : La.length < bsz
  · rw [if_pos hsw]
    have hlen : 1 ≤ La.length := by
      cases La with
      | nil => simp at hha
      | cons _ _ => simp
    rw [jacTail_spec Lb bsz La nbsz blow nblow nbtwos _ a' hva ha'o hnblow hnbsz (Or.inl (by omega)),
      bit1ToPN_xor, hbit, hJ3, hJ2,
      bit1ToPN_and_congr2 blow b' nblow a' (by rw [hblow, hB]; omega) (by rw [hnblow, hB]; omega),
      jacobi_recip b' a' hb'o ha'o,
      bit1ToPN_twosBit1 nbtwos blow (by rw [hblow, hB]; omega),
      jacobi_two_mod8 blow b' (by rw [hblow, hB]; omega) (by rw [hblow, hB]; omega)]
    have hk : jacobiSym 2 a' ^ btwos = kron2 a ^ btwos := by
      by_cases h : a % 2 = 1
      · obtain ⟨_, h2, _, _⟩ := hF1 h
        rw [kron2_eq_jacobi a h, h2]
      · obtain ⟨_, h2⟩ := hF2 (by omega)
        rw [h2, pow_zero, pow_zero]
    rw [hk]
    have hsq := bit1ToPN_sq (b' &&& a')
    generalize bit1ToPN (b' &&& a') = r at *
    calc _ = (if b < 0 ∧ a < 0 then -1 else 1) * bit1ToPN ((if a < 0 then 2 else 0) &&& b') *
          jacobiSym 2 b' ^ nbtwos * kron2 a ^ btwos * jacobiSym a' b' * (r * r) := by ring
      _ = _ := by rw [hsq]; ring
  · rw [if_neg hsw]
    have hal : La.length > 1 ∨ val La = La.headD 0 := by
      cases La with
      | nil => simp at hha
      | cons x xs =>
        cases xs with
        | nil => right; simp
        | cons _ _ => left; simp
    rw [jacTail_spec La La.length Lb bsz _ blow btwos _ b' hvb hb'o hblow hbsz hal, hbit]
    have hk : bit1ToPN (twosBit1 btwos (La.headD 0)) = kron2 a ^ btwos := by
      by_cases h : a % 2 = 1
      · obtain ⟨_, _, _, h4⟩ := hF1 h
        exact h4 btwos
      · obtain ⟨_, h2⟩ := hF2 (by omega)
        rw [h2, pow_zero, twosBit1_zero, bit1ToPN_zero]
    rw [hk]; ring

example : mpz_jacobi (-(2 ^ 64 * 11 * 4 + 7)) (-(2 ^ 70 * 11 * 4 + 9)) = -1 := by decide +kernel
example : mpz_jacobi (2 ^ 63 * 2 ^ 64 * 7) (-(2 ^ 130 + 3)) = -1 := by decide +kernel
example : kronSym (-(2 ^ 64 * 11 * 4 + 7)) (-(2 ^ 70 * 11 * 4 + 9)) = -1 := by
  rw [← mpz_jacobi_spec]; decide +kernel

end Mpir.Gcd
