/- mpir_fft_naive_convolution_1 (Mpir/Model/FftNeg.lean) is the negacyclic convolution modulo 2^64, and the
   recombination of the residues modulo 2^(nw)+1 and 2^64 (mulmod_2expp1.c:127-139). -/
import MpirProofs.Lemmas.FftXNeg
set_option linter.unusedSimpArgs false
namespace Mpir.FftX
open Mpir Finset

theorem length_updAt (r : List Nat) (k : Nat) (f : Nat → Nat) : (updAt r k f).length = r.length := by simp [updAt]

theorem getD_updAt (r : List Nat) (k : Nat) (f : Nat → Nat) (p : Nat) (hp : p < r.length) :
    (updAt r k f).getD p 0 = if p = k then f (r.getD p 0) else r.getD p 0 := by
  simp [updAt, List.getD_eq_getElem?_getD, hp]

/-- a loop of updates at consecutive positions base, base+1, …, base+c−1 -/
theorem fold_updAt (pos : Nat → Nat) (base c : Nat) (hpos : ∀ j < c, pos j = base + j) (G : Nat → Nat → Nat) (r : List Nat) :
    ((List.range c).foldl (fun r j => updAt r (pos j) (G j)) r).length = r.length ∧
    ∀ p < r.length, ((List.range c).foldl (fun r j => updAt r (pos j) (G j)) r).getD p 0 =
      if base ≤ p ∧ p < base + c then G (p - base) (r.getD p 0) else r.getD p 0 := by
  induction c with
  | zero => simp
  | succ c ih =>
    obtain ⟨hl, hv⟩ := ih (fun j hj => hpos j (by omega))
    rw [List.range_succ, List.foldl_append, List.foldl_cons, List.foldl_nil]
    refine ⟨by rw [length_updAt, hl], ?_⟩
    intro p hp
    rw [getD_updAt _ _ _ _ (by rw [hl]; exact hp), hv p hp, hpos c (by omega)]
    by_cases h1 : p = base + c
    · subst h1
      rw [if_pos rfl, if_neg (by omega), if_pos (by omega)]
      congr 1; omega
    · rw [if_neg h1]
      by_cases h2 : base ≤ p ∧ p < base + c
      · rw [if_pos h2, if_pos (by omega)]
      · rw [if_neg h2, if_neg (by omega)]

/-- the term that row i of the loop adds to position k, in ZMod 2^64 -/
noncomputable def ncTerm (ii jj : List Nat) (i k : Nat) : ZMod B :=
  if i ≤ k then (ii.getD i 0 : ZMod B) * (jj.getD (k - i) 0 : ZMod B)
  else - ((ii.getD i 0 : ZMod B) * (jj.getD (ii.length + k - i) 0 : ZMod B))

theorem cast_mod_B (a : Nat) : ((a % B : Nat) : ZMod B) = (a : ZMod B) := ZMod.natCast_mod a B

theorem cast_B_sub (t : Nat) : ((B - t % B : Nat) : ZMod B) = - (t : ZMod B) := by
  have hlt : t % B < B := Nat.mod_lt _ (by unfold B; norm_num)
  rw [Nat.cast_sub (le_of_lt hlt), ZMod.natCast_self, cast_mod_B]; ring

/-- mpir_fft_naive_convolution_1: word k of the result is Σ_{i ≤ k} ii[i]·jj[k−i] − Σ_{i > k} ii[i]·jj[m+k−i] modulo 2^64 -/
theorem naive_convolution_1_spec (ii jj : List Nat) (hm : 1 ≤ ii.length) :
    (fft_naive_convolution_1 ii jj).length = ii.length ∧
    ∀ k < ii.length, (((fft_naive_convolution_1 ii jj).getD k 0 : Nat) : ZMod B) =
      ∑ i ∈ range ii.length, ncTerm ii jj i k := by
  unfold fft_naive_convolution_1
  simp only []
  generalize hmm : ii.length = m at *
  -- the invariant of the outer loop
  have inv : ∀ I, I ≤ m - 1 →
      let r := (List.range I).foldl (fun r i0 =>
        (List.range (i0 + 1)).foldl (fun r j0 =>
          updAt r (i0 + 1 + (m - (i0 + 1) + j0) - m) fun v => (v + (B - ii.getD (i0 + 1) 0 * jj.getD (m - (i0 + 1) + j0) 0 % B)) % B)
          ((List.range (m - (i0 + 1))).foldl (fun r j =>
            updAt r (i0 + 1 + j) fun v => (v + ii.getD (i0 + 1) 0 * jj.getD j 0) % B) r))
        ((List.range m).map fun i => ii.getD 0 0 * jj.getD i 0 % B)
      r.length = m ∧ ∀ k < m, ((r.getD k 0 : Nat) : ZMod B) = ∑ i ∈ range (I + 1), ncTerm ii jj i k := by
    intro I
    induction I with
    | zero =>
      intro _
      refine ⟨by simp, ?_⟩
      intro k hk
      simp only [List.range_zero, List.foldl_nil, sum_range_one]
      rw [show (List.map (fun i => ii.getD 0 0 * jj.getD i 0 % B) (List.range m)).getD k 0 = ii.getD 0 0 * jj.getD k 0 % B by
        simp [List.getD_eq_getElem?_getD, hk]]
      rw [cast_mod_B]; simp [ncTerm]
    | succ I ih =>
      intro hI
      obtain ⟨hl, hv⟩ := ih (by omega)
      rw [List.range_succ, List.foldl_append, List.foldl_cons, List.foldl_nil]
      generalize hr : (List.range I).foldl _ _ = r at *
      obtain ⟨l1, v1⟩ := fold_updAt (fun j => I + 1 + j) (I + 1) (m - (I + 1)) (fun _ _ => rfl)
        (fun j v => (v + ii.getD (I + 1) 0 * jj.getD j 0) % B) r
      generalize hr1 : (List.range (m - (I + 1))).foldl _ r = r1 at *
      obtain ⟨l2, v2⟩ := fold_updAt (fun j0 => I + 1 + (m - (I + 1) + j0) - m) 0 (I + 1) (fun j hj => by omega)
        (fun j0 v => (v + (B - ii.getD (I + 1) 0 * jj.getD (m - (I + 1) + j0) 0 % B)) % B) r1
      refine ⟨by rw [l2, l1, hl], ?_⟩
      intro k hk
      rw [v2 k (by rw [l1, hl]; exact hk), v1 k (by rw [hl]; exact hk), sum_range_succ, ← hv k hk]
      unfold ncTerm
      rw [hmm]
      by_cases hki : I + 1 ≤ k
      · rw [if_neg (by omega), if_pos ⟨hki, by omega⟩, if_pos hki, cast_mod_B]
        push_cast; ring
      · rw [if_pos ⟨by omega, by omega⟩, if_neg (by omega), if_neg hki, cast_mod_B, Nat.cast_add, cast_B_sub]
        have e : m - (I + 1) + (k - 0) = m + k - (I + 1) := by omega
        rw [e]; push_cast; ring
  obtain ⟨hl, hv⟩ := inv (m - 1) le_rfl
  refine ⟨hl, ?_⟩
  intro k hk
  rw [hv k hk, show m - 1 + 1 = m by omega]

/-- The recombination step of mpir_fft_mulmod_2expp1 (mulmod_2expp1.c:127-139): a coefficient c of absolute value below
    B^(L+1)/2 is determined by its canonical residue v modulo B^L + 1 and its residue modulo B.  With
    τ = (c mod B − v mod B) mod B (the word `r[j] - ii[j][0]`) the number v + τ·(B^L + 1) that the code stores is c itself
    when c ≥ 0 and c + B·(B^L + 1) = c + B^(L+1) + B when c < 0 (the cases the sign corrections :147-163 then remove). -/
theorem negacyclic_crt_lemma (L : Nat) (hL : 1 ≤ L) (c v : Int) (hv0 : 0 ≤ v) (hv1 : v ≤ (B : Int) ^ L)
    (hcv : c ≡ v [ZMOD (B : Int) ^ L + 1]) (hlo : -((B : Int) ^ (L + 1)) ≤ 2 * c) (hhi : 2 * c < (B : Int) ^ (L + 1)) :
    (0 ≤ c → v + ((c % B - v % B) % B) * ((B : Int) ^ L + 1) = c) ∧
    (c < 0 → v + ((c % B - v % B) % B) * ((B : Int) ^ L + 1) = c + B * ((B : Int) ^ L + 1)) := by
  have hB : (0 : Int) < B := by unfold B; norm_num
  have hB2 : (2 : Int) ≤ B := by unfold B; norm_num
  have hBL : (1 : Int) ≤ (B : Int) ^ L := one_le_pow₀ (by omega)
  obtain ⟨T, hT⟩ : ∃ T, c - v = ((B : Int) ^ L + 1) * T := by
    have := (Int.emod_emod_of_dvd c (dvd_refl ((B : Int) ^ L + 1)))
    exact (Int.modEq_iff_dvd.mp hcv.symm)
  have hps : (B : Int) ^ (L + 1) = B * (B : Int) ^ L := by rw [pow_succ]; ring
  -- B^L + 1 ≡ 1 modulo B
  have hp1 : ((B : Int) ^ L + 1) % B = 1 := by
    obtain ⟨L', rfl⟩ : ∃ L', L = L' + 1 := ⟨L - 1, by omega⟩
    rw [pow_succ, Int.add_emod, Int.mul_emod_left]
    simp only [zero_add, Int.emod_emod_of_dvd _ (dvd_refl _)]
    exact Int.emod_eq_of_lt (by norm_num) (by omega)
  have hτ : (c % B - v % B) % B = T % B := by
    rw [← Int.sub_emod, hT, Int.mul_emod, hp1, one_mul, Int.emod_emod_of_dvd _ (dvd_refl _)]
  -- |T| < B
  have hT1 : T < B := by
    by_contra h
    have h := not_lt.mp h
    have : ((B : Int) ^ L + 1) * B ≤ ((B : Int) ^ L + 1) * T := mul_le_mul_of_nonneg_left h (by omega)
    nlinarith
  have hT2 : -(B : Int) < T := by
    by_contra h
    have h := not_lt.mp h
    have : ((B : Int) ^ L + 1) * T ≤ ((B : Int) ^ L + 1) * (-(B : Int)) := mul_le_mul_of_nonneg_left h (by omega)
    nlinarith
  rw [hτ]
  constructor
  · intro hc
    have hT0 : 0 ≤ T := by
      by_contra h
      have h := not_le.mp h
      have : ((B : Int) ^ L + 1) * T ≤ ((B : Int) ^ L + 1) * (-1) := mul_le_mul_of_nonneg_left (by omega) (by omega)
      omega
    rw [Int.emod_eq_of_lt hT0 hT1]
    linarith
  · intro hc
    have hT0 : T < 0 := by
      by_contra h
      have h := not_lt.mp h
      have : 0 ≤ ((B : Int) ^ L + 1) * T := mul_nonneg (by omega) h
      omega
    have h1 : (T + (B : Int)) % B = T % B := Int.add_emod_right T B
    have h2 : (T + (B : Int)) % B = T + B := Int.emod_eq_of_lt (by omega) (by omega)
    have : T % B = T + B := by rw [← h1, h2]
    rw [this]
    linarith

end Mpir.FftX
