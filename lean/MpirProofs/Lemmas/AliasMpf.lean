/- The mpf functions of Mpir/Model/AliasMpf.lean (pointer level): object invariant of mpf variables, the common tail
   "limbs stored through r->_mp_d, then r->_mp_size / r->_mp_exp", and mpf_div. -/
import MpirProofs.Lemmas.AliasMul
import Mpir.Model.AliasMpf
namespace Mpir.AliasMem
open Mpir
open Mpir.DivZ (sizeNat siz sameSign)

/-- object invariant of a set of mpf variables: the limb data is that of the mpz model (live blocks, no sharing, `|size|` limbs
    with a non-zero top limb inside the block), and every block has room for PREC + 1 limbs (mpf functions never reallocate).
    `|size| ≤ PREC + 1` is NOT required: mpf_set_prec_raw may have lowered PREC under a long operand. -/
structure FInv (s : FSt) : Prop where
  inv : Inv s.st
  room : ∀ i, i < s.st.nv → s.prec i + 1 ≤ s.st.alloc i

/-- `r` holds `f`, every other variable (header and limbs) is as before -/
def FRes (s s' : FSt) (r : Nat) (f : Mpf.F) : Prop :=
  FInv s' ∧ s'.st.nv = s.st.nv ∧ s'.F r = f ∧ ∀ i, i < s.st.nv → i ≠ r → s'.F i = s.F i

theorem FSt.F_congr {s s' : FSt} {i : Nat} (hp : s'.prec i = s.prec i) (he : s'.exp i = s.exp i)
    (hv : s'.st.vars i = s.st.vars i) (hb : s'.st.blk (s.st.ptr i) = s.st.blk (s.st.ptr i)) : s'.F i = s.F i := by
  unfold FSt.F
  rw [hp, he, limbs_congr hv hb]
  unfold St.size; rw [hv]

/-- the limbs of a variable are the same after freeing blocks that are not variables' -/
theorem foldl_free_blk (l : List Nat) (X : St) (q : Nat) (hq : q ∉ l) : (l.foldl St.free X).blk q = X.blk q := by
  induction l generalizing X with
  | nil => rfl
  | cons a l ih =>
    simp only [List.foldl_cons]
    rw [ih _ (fun h => hq (List.mem_cons_of_mem _ h))]
    have : q ≠ a := fun e => hq (by rw [e]; exact List.mem_cons_self)
    simp [St.free, St.setBlk, this]

theorem foldl_free_vars (l : List Nat) (X : St) : (l.foldl St.free X).vars = X.vars := by
  induction l generalizing X with
  | nil => rfl
  | cons a l ih => simp only [List.foldl_cons]; rw [ih]; rfl

/-- the zero result (`r->_mp_size = 0; r->_mp_exp = 0`) -/
theorem setSE_zero_spec {s : FSt} (h : FInv s) {r : Nat} (hr : r < s.st.nv) :
    FRes s (s.setSE r 0 0) r (Mpf.zero (s.prec r)) := by
  obtain ⟨i1, u1, _⟩ := setSize_zero_spec h.inv hr
  refine ⟨⟨i1, fun i hi => ?_⟩, u1.nv, ?_, fun i hi hir => ?_⟩
  · show s.prec i + 1 ≤ (s.st.setSize r 0).alloc i
    rw [u1.alloc]; exact h.room i (by have : i < (s.st.setSize r 0).nv := hi; rw [u1.nv] at this; exact this)
  · simp [FSt.F, FSt.setSE, Mpf.zero, St.limbs, St.setSize, St.setVar, St.size]
  · exact FSt.F_congr rfl (by simp [FSt.setSE, hir]) (u1.vars_o i hir)
      (u1.blk_o _ (fun e => hir (h.inv.inj i r hi hr e)))

/-- The common tail of the mpf functions: in a state `st1` that differs from `s.st` only by extra (TMP) blocks, the block
    of `r` is replaced by `b`, whose first `n` limbs are normalised, `r->_mp_size = ±n`, `r->_mp_exp = e`, then the TMP
    blocks `tmp` are freed. -/
theorem fput_spec {s : FSt} (h : FInv s) {st1 : St} (i1 : Inv st1) (x1 : Ext s.st st1) {r : Nat} (hr : r < s.st.nv)
    (b : List Nat) (n : Nat) (neg : Bool) (e : Int) (tmp : List Nat)
    (hbl : b.length = s.st.alloc r) (hbL : Limbs b) (hn : n ≤ s.st.alloc r) (hnorm : sizeNat (val (b.take n)) = n)
    (htmp : ∀ p, p ∈ tmp → ∀ i, i < s.st.nv → s.st.ptr i ≠ p) :
    FRes s ((s.withSt (tmp.foldl St.free (st1.put r b (if neg then -(n : Int) else (n : Int))))).setExp r e) r
      ⟨s.prec r, if neg then -(n : Int) else (n : Int), e, b.take n⟩ := by
  have hr1 : r < st1.nv := by rw [x1.nv]; exact hr
  have p := put_upd i1 hr1 b (val (b.take n)) neg (by rw [x1.alloc]; exact hbl) hbL (by rw [hnorm, x1.alloc]; exact hn)
    (by rw [hnorm])
  rw [hnorm] at p
  obtain ⟨ip, up, _⟩ := p
  generalize hX : st1.put r b (if neg then -(n : Int) else (n : Int)) = X at *
  have nvX : X.nv = s.st.nv := by rw [up.nv, x1.nv]
  obtain ⟨j1, m1, _⟩ := free_list_inv tmp ip (fun q hq i hi => by
    rw [up.ptr, x1.ptr]; exact htmp q hq i (by rw [nvX] at hi; exact hi))
  have hvarsX : ∀ i, i ≠ r → X.vars i = s.st.vars i := fun i hi => by rw [up.vars_o i hi, x1.vars]
  have hXr : X.vars r = { s.st.vars r with size := (if neg then -(n : Int) else (n : Int)) } := by
    rw [← hX]; simp [St.put, St.setSize, St.setVar, St.setBlk, x1.vars]
  have hXb : X.blk (s.st.ptr r) = some b := by
    rw [← hX]; simp [St.put, St.setSize, St.setVar, St.setBlk, x1.ptr]
  have hnotin : ∀ i, i < s.st.nv → s.st.ptr i ∉ tmp := fun i hi hm => htmp _ hm i hi rfl
  refine ⟨⟨j1, fun i hi => ?_⟩, by show (tmp.foldl St.free X).nv = _; rw [m1, nvX], ?_, fun i hi hir => ?_⟩
  · show s.prec i + 1 ≤ (tmp.foldl St.free X).alloc i
    have hi' : i < s.st.nv := by rw [← nvX, ← m1]; exact hi
    unfold St.alloc; rw [foldl_free_vars]
    show s.prec i + 1 ≤ X.alloc i
    rw [up.alloc, x1.alloc]; exact h.room i hi'
  · unfold FSt.F St.limbs St.size St.ptr
    simp only [FSt.setExp, FSt.withSt, foldl_free_vars, if_true]
    rw [hXr]
    simp only []
    have e1 : (tmp.foldl St.free X).blk (s.st.vars r).ptr = some b := by
      show (tmp.foldl St.free X).blk (s.st.ptr r) = some b
      rw [foldl_free_blk _ _ _ (hnotin r hr)]; exact hXb
    rw [e1]
    cases neg <;> simp
  · refine FSt.F_congr rfl (by simp [FSt.setExp, FSt.withSt, hir]) ?_ ?_
    · show (tmp.foldl St.free X).vars i = _
      rw [foldl_free_vars, hvarsX i hir]
    · show (tmp.foldl St.free X).blk (s.st.ptr i) = _
      rw [foldl_free_blk _ _ _ (hnotin i hi), up.blk_o _ (by rw [x1.ptr]; exact fun e => hir (h.inv.inj i r hi hr e))]
      obtain ⟨l, hl, _⟩ := h.inv.live i hi
      exact x1.blk _ (by rw [hl]; simp)

end Mpir.AliasMem
