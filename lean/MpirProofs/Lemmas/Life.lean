/- Helper lemmas for the object life-cycle / allocator-ledger model (Mpir/Model/Life.lean, property C04):
   the invariant `Inv`, three primitive transitions that preserve it (free a slot, allocate a slot,
   overwrite a value), and the decomposition of every `step` into those. -/
import Mpir.Model.Life
namespace Mpir.Life

/-! ### small facts -/

theorem limbsOf_zero : limbsOf 0 = 0 := by
  simp [limbsOf, natLimbs]

theorem bitsToLimbs_pos (bits : Nat) : 1 ≤ bitsToLimbs bits := by
  unfold bitsToLimbs; omega

/-- The invariant of the life-cycle model: no allocator-contract breach so far; every live object owns a
ledger block of exactly its `alloc`, has `alloc ≥ 1` and a value that fits; block ids are fresh-bounded and
pairwise distinct; distinct slots own distinct blocks; every ledger block is owned by a live object. -/
structure Inv (s : State) : Prop where
  /-- no realloc/free was ever announced with a size different from the ledger's -/
  breaches : s.breaches = 0
  /-- every live object: its block is in the ledger with its `alloc`, `alloc ≥ 1`, the value fits, id below `next` -/
  live : ∀ k o, getObj s k = some o →
    (o.blk, o.alloc) ∈ s.ledger ∧ 1 ≤ o.alloc ∧ limbsOf o.val ≤ o.alloc ∧ o.blk < s.next
  /-- ledger block ids are pairwise distinct -/
  distinct : s.ledger.Pairwise (fun p q => p.1 ≠ q.1)
  /-- ledger block ids are below the fresh-id counter -/
  below : ∀ p ∈ s.ledger, p.1 < s.next
  /-- distinct slots own distinct blocks -/
  owners : ∀ j k oj ok, getObj s j = some oj → getObj s k = some ok → oj.blk = ok.blk → j = k
  /-- no leak: every ledger entry is owned by a live object -/
  noleak : ∀ p ∈ s.ledger, ∃ k o, getObj s k = some o ∧ (o.blk, o.alloc) = p

/-! ### slot table access -/

theorem getObj_def (s : State) (k : Nat) : getObj s k = (s.objs[k]?).getD none := by
  simp [getObj]

theorem lt_of_getObj_some {s : State} {k : Nat} {o : Obj} (h : getObj s k = some o) :
    k < s.objs.length := by
  rw [getObj_def] at h
  by_cases hk : k < s.objs.length
  · exact hk
  · simp [List.getElem?_eq_none (Nat.le_of_not_lt hk)] at h

theorem lt_of_slot {s : State} {k : Nat} {x : Option Obj} (h : s.objs[k]? = some x) :
    k < s.objs.length := by
  by_cases hk : k < s.objs.length
  · exact hk
  · simp [List.getElem?_eq_none (Nat.le_of_not_lt hk)] at h

theorem getObj_of_slot {s : State} {k : Nat} {x : Option Obj} (h : s.objs[k]? = some x) :
    getObj s k = x := by
  simp [getObj_def, h]

theorem slot_of_getObj_some {s : State} {k : Nat} {o : Obj} (h : getObj s k = some o) :
    s.objs[k]? = some (some o) := by
  have hk := lt_of_getObj_some h
  rw [getObj_def] at h
  simp [List.getElem?_eq_getElem hk] at h ⊢
  exact h

theorem getObj_setObj {s : State} {k : Nat} (hk : k < s.objs.length) (x : Option Obj) (j : Nat) :
    getObj (setObj s k x) j = if j = k then x else getObj s j := by
  simp only [getObj_def, setObj, List.getElem?_set]
  by_cases h : k = j
  · subst h; simp [hk]
  · have h' : ¬ j = k := fun e => h e.symm
    simp [h, h']

@[simp] theorem setObj_ledger (s : State) (k : Nat) (x : Option Obj) : (setObj s k x).ledger = s.ledger := rfl
@[simp] theorem setObj_next (s : State) (k : Nat) (x : Option Obj) : (setObj s k x).next = s.next := rfl
@[simp] theorem setObj_breaches (s : State) (k : Nat) (x : Option Obj) : (setObj s k x).breaches = s.breaches := rfl
@[simp] theorem setObj_length (s : State) (k : Nat) (x : Option Obj) :
    (setObj s k x).objs.length = s.objs.length := by simp [setObj]

theorem setObj_setObj (s : State) (k : Nat) (x y : Option Obj) :
    setObj (setObj s k x) k y = setObj s k y := by
  simp [setObj]

/-! ### the ledger under the invariant -/

theorem ledger_nodup {s : State} (h : Inv s) : s.ledger.Nodup :=
  h.distinct.imp (fun hne e => hne (by rw [e]))

/-- under the invariant a release of a live object's block is never a breach -/
theorem ledgerRelease_live {s : State} (h : Inv s) {k : Nat} {o : Obj} (ho : getObj s k = some o) :
    ledgerRelease s o.blk o.alloc = { s with ledger := s.ledger.erase (o.blk, o.alloc) } := by
  have hm := (h.live k o ho).1
  simp [ledgerRelease, hm]

/-! ### primitive transitions -/

/-- freeing the block of a live object and emptying its slot -/
theorem inv_free {s : State} (h : Inv s) {k : Nat} {o : Obj} (ho : getObj s k = some o) :
    Inv (setObj { s with ledger := s.ledger.erase (o.blk, o.alloc) } k none) := by
  have hk := lt_of_getObj_some ho
  have hnd := ledger_nodup h
  have hget : ∀ j, getObj (setObj { s with ledger := s.ledger.erase (o.blk, o.alloc) } k none) j
      = if j = k then none else getObj s j := fun j => by
    rw [getObj_setObj (by simpa using hk)]; rfl
  refine ⟨h.breaches, ?_, ?_, ?_, ?_, ?_⟩
  · intro j o' hj
    rw [hget] at hj
    split at hj
    · cases hj
    · rename_i hjk
      obtain ⟨h1, h2, h3, h4⟩ := h.live j o' hj
      refine ⟨?_, h2, h3, h4⟩
      have hne : (o'.blk, o'.alloc) ≠ (o.blk, o.alloc) := by
        intro e
        exact hjk (h.owners j k o' o hj ho (by simpa using congrArg Prod.fst e))
      exact (List.mem_erase_of_ne hne).2 h1
  · exact h.distinct.sublist List.erase_sublist
  · intro p hp; exact h.below p (List.mem_of_mem_erase hp)
  · intro i j oi oj hi hj e
    rw [hget] at hi hj
    split at hi
    · cases hi
    · split at hj
      · cases hj
      · exact h.owners i j oi oj hi hj e
  · intro p hp
    have hp' := (hnd.mem_erase_iff).1 hp
    obtain ⟨j, o', hj, e⟩ := h.noleak p hp'.2
    refine ⟨j, o', ?_, e⟩
    rw [hget]
    have hjk : j ≠ k := by
      intro ejk; subst ejk
      rw [ho] at hj; cases hj
      exact hp'.1 e.symm
    simp [hjk, hj]

/-- allocating a fresh block for an empty slot -/
theorem inv_alloc {s : State} (h : Inv s) {k : Nat} (hk : s.objs[k]? = some none) {n : Nat} (hn : 1 ≤ n)
    {v : Int} (hv : limbsOf v ≤ n) :
    Inv (setObj (ledgerAlloc s n).1 k (some { alloc := n, val := v, blk := s.next })) := by
  have hlt := lt_of_slot hk
  have hnone : getObj s k = none := getObj_of_slot hk
  have hget : ∀ j, getObj (setObj (ledgerAlloc s n).1 k (some { alloc := n, val := v, blk := s.next })) j
      = if j = k then some { alloc := n, val := v, blk := s.next } else getObj s j := fun j => by
    rw [getObj_setObj (by simpa [ledgerAlloc] using hlt)]; rfl
  refine ⟨h.breaches, ?_, ?_, ?_, ?_, ?_⟩
  · intro j o' hj
    rw [hget] at hj
    split at hj
    · cases hj
      simp [ledgerAlloc, hn, hv]
    · obtain ⟨h1, h2, h3, h4⟩ := h.live j o' hj
      refine ⟨?_, h2, h3, ?_⟩
      · simp [ledgerAlloc, h1]
      · simp [ledgerAlloc]; omega
  · simp only [setObj_ledger, ledgerAlloc, List.pairwise_cons]
    refine ⟨?_, h.distinct⟩
    intro p hp e
    have := h.below p hp
    have e' : s.next = p.1 := e
    omega
  · intro p hp
    simp only [setObj_ledger, setObj_next, ledgerAlloc, List.mem_cons] at hp ⊢
    rcases hp with rfl | hp
    · simp
    · have := h.below p hp; omega
  · intro i j oi oj hi hj e
    rw [hget] at hi hj
    split at hi <;> split at hj
    · omega
    · cases hi
      have := (h.live j oj hj).2.2.2
      have e' : s.next = oj.blk := e
      omega
    · cases hj
      have := (h.live i oi hi).2.2.2
      have e' : oi.blk = s.next := e
      omega
    · exact h.owners i j oi oj hi hj e
  · intro p hp
    simp only [setObj_ledger, ledgerAlloc, List.mem_cons] at hp
    rcases hp with rfl | hp
    · exact ⟨k, { alloc := n, val := v, blk := s.next }, by rw [hget]; simp, rfl⟩
    · obtain ⟨j, o', hj, e⟩ := h.noleak p hp
      refine ⟨j, o', ?_, e⟩
      rw [hget]
      have hjk : j ≠ k := by
        intro ejk; subst ejk; rw [hnone] at hj; cases hj
      simp [hjk, hj]

/-- overwriting the value of a live object with one that fits its allocation -/
theorem inv_setval {s : State} (h : Inv s) {k : Nat} {o : Obj} (ho : getObj s k = some o)
    {v : Int} (hv : limbsOf v ≤ o.alloc) :
    Inv (setObj s k (some { o with val := v })) := by
  have hk := lt_of_getObj_some ho
  have hget : ∀ j, getObj (setObj s k (some { o with val := v })) j
      = if j = k then some { o with val := v } else getObj s j := fun j => getObj_setObj hk _ j
  obtain ⟨g1, g2, _, g4⟩ := h.live k o ho
  refine ⟨h.breaches, ?_, h.distinct, h.below, ?_, ?_⟩
  · intro j o' hj
    rw [hget] at hj
    split at hj
    · cases hj; exact ⟨g1, g2, hv, g4⟩
    · exact h.live j o' hj
  · intro i j oi oj hi hj e
    rw [hget] at hi hj
    split at hi <;> split at hj
    · omega
    · cases hi; rename_i hik _; subst hik
      exact h.owners _ j o oj ho hj e
    · cases hj; rename_i _ hjk; subst hjk
      exact h.owners i _ oi o hi ho e
    · exact h.owners i j oi oj hi hj e
  · intro p hp
    obtain ⟨j, o', hj, e⟩ := h.noleak p hp
    by_cases hjk : j = k
    · subst hjk
      rw [ho] at hj; cases hj
      exact ⟨j, { o with val := v }, by rw [hget]; simp, e⟩
    · exact ⟨j, o', by rw [hget]; simp [hjk, hj], e⟩

/-! ### `step` decomposed -/

/-- `reallocObj` on a live object under the invariant = free the slot, then allocate it afresh -/
theorem reallocObj_eq {s : State} (h : Inv s) {k : Nat} {o : Obj} (ho : getObj s k = some o) (n : Nat) :
    reallocObj s k o n =
      setObj (ledgerAlloc (setObj { s with ledger := s.ledger.erase (o.blk, o.alloc) } k none) n).1 k
        (some { alloc := n, val := if limbsOf o.val > n then 0 else o.val,
                blk := (setObj { s with ledger := s.ledger.erase (o.blk, o.alloc) } k none).next }) := by
  simp [reallocObj, ledgerRelease_live h ho, ledgerAlloc, setObj]

theorem inv_reallocObj {s : State} (h : Inv s) {k : Nat} {o : Obj} (ho : getObj s k = some o)
    {n : Nat} (hn : 1 ≤ n) : Inv (reallocObj s k o n) := by
  rw [reallocObj_eq h ho]
  have hk := lt_of_getObj_some ho
  refine inv_alloc (inv_free h ho) ?_ hn ?_
  · simp [setObj, hk]
  · split
    · simp [limbsOf_zero]
    · omega

/-- what `reallocObj` leaves in slot `k` (no invariant needed) -/
theorem getObj_reallocObj {s : State} {k : Nat} {o : Obj} (ho : getObj s k = some o) (n j : Nat) :
    getObj (reallocObj s k o n) j =
      if j = k then some { alloc := n, val := if limbsOf o.val > n then 0 else o.val,
                           blk := (ledgerRelease s o.blk o.alloc).next }
      else getObj s j := by
  have hk := lt_of_getObj_some ho
  have hk' : k < (ledgerAlloc (ledgerRelease s o.blk o.alloc) n).1.objs.length := by
    simp only [ledgerAlloc, ledgerRelease]; split <;> exact hk
  simp only [reallocObj]
  rw [getObj_setObj hk']
  split
  · rfl
  · simp only [getObj, ledgerAlloc, ledgerRelease]; split <;> rfl

/-! ### per-operation preservation -/

theorem getObj_init (n k : Nat) : getObj (init n) k = none := by
  simp only [getObj_def, init, List.getElem?_replicate]
  split <;> rfl

theorem inv_step_init {s : State} (h : Inv s) (k : Nat) : Inv (step s (.init k)) := by
  simp only [step]
  split
  · rename_i hk
    exact inv_alloc h hk (Nat.le_refl 1) (by simp [limbsOf_zero])
  · exact h

theorem inv_step_init2 {s : State} (h : Inv s) (k bits : Nat) : Inv (step s (.init2 k bits)) := by
  simp only [step]
  split
  · rename_i hk
    exact inv_alloc h hk (bitsToLimbs_pos bits) (by simp [limbsOf_zero])
  · exact h

theorem inv_step_realloc2 {s : State} (h : Inv s) (k bits : Nat) : Inv (step s (.realloc2 k bits)) := by
  simp only [step]
  split
  · exact h
  · rename_i o ho
    exact inv_reallocObj h ho (bitsToLimbs_pos bits)

theorem inv_step_set {s : State} (h : Inv s) (k : Nat) (v : Int) : Inv (step s (.set k v)) := by
  simp only [step]
  split
  · exact h
  · rename_i o ho
    split
    · rw [getObj_reallocObj ho, if_pos rfl]
      exact inv_setval (inv_reallocObj h ho (by omega))
        (by rw [getObj_reallocObj ho, if_pos rfl]) (by simp only []; omega)
    · exact inv_setval h ho (by omega)

theorem inv_step_clear {s : State} (h : Inv s) (k : Nat) : Inv (step s (.clear k)) := by
  simp only [step]
  split
  · exact h
  · rename_i o ho
    rw [ledgerRelease_live h ho]
    exact inv_free h ho

/-! ### clearing -/

theorem getObj_clear_self (s : State) (k : Nat) : getObj (step s (.clear k)) k = none := by
  simp only [step]
  split
  · assumption
  · rename_i o ho
    have hk := lt_of_getObj_some ho
    rw [getObj_setObj (by simp only [ledgerRelease]; split <;> exact hk), if_pos rfl]

theorem getObj_clear_none {s : State} {j : Nat} (hj : getObj s j = none) (k : Nat) :
    getObj (step s (.clear k)) j = none := by
  simp only [step]
  split
  · exact hj
  · rename_i o ho
    have hk := lt_of_getObj_some ho
    rw [getObj_setObj (by simp only [ledgerRelease]; split <;> exact hk)]
    split
    · rfl
    · simp only [getObj, ledgerRelease] at hj ⊢; split <;> exact hj

theorem inv_clearList {s : State} (h : Inv s) (ks : List Nat) :
    Inv (ks.foldl (fun s k => step s (.clear k)) s) := by
  induction ks generalizing s with
  | nil => exact h
  | cons k ks ih => exact ih (inv_step_clear h k)

theorem getObj_clearList (ks : List Nat) (s : State) (j : Nat) (hj : j ∈ ks ∨ getObj s j = none) :
    getObj (ks.foldl (fun s k => step s (.clear k)) s) j = none := by
  induction ks generalizing s with
  | nil => rcases hj with hj | hj
           · cases hj
           · exact hj
  | cons k ks ih =>
      simp only [List.foldl_cons]
      apply ih
      rcases hj with hj | hj
      · rcases List.mem_cons.1 hj with rfl | hj
        · exact Or.inr (getObj_clear_self s j)
        · exact Or.inl hj
      · exact Or.inr (getObj_clear_none hj k)

theorem getObj_clearAll (s : State) (j : Nat) : getObj (clearAll s) j = none := by
  unfold clearAll
  apply getObj_clearList
  by_cases hj : j < s.objs.length
  · exact Or.inl (List.mem_range.2 hj)
  · right
    rw [getObj_def, List.getElem?_eq_none (Nat.le_of_not_lt hj)]; rfl

end Mpir.Life
