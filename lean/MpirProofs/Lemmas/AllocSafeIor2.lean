/- Refinement proofs for the -- and +- cases of the size-aware model of mpz/ior.c (Mpir/Model/AllocSafeMpz2.lean):
   `ior_nn` (ior.c:106-153) and `ior_pn` (ior.c:176-234) refine the C10 sign-magnitude model with `ok = true`.
   The point of both: the block is `MIN (sizes)` resp. `|op2|` limbs — NO `+ 1` — and the carry store
   `res_ptr[res_size] = cy` after `mpn_add_1 (.., 1)` is still inside, because the operand that was decremented is
   strictly below B^n, so the carry can only leave a result whose scanned size is below n. -/
import MpirProofs.Lemmas.AllocSafeIor
namespace Mpir.AllocSafe
open Mpir
open Mpir.Mpz (sgn natAbs_sgn)

/-! ## lengths from values -/

theorem len_le_of_val_lt (l : List Nat) (hl : Limbs l) (hn : Bits.Norm l) (n : Nat) (h : val l < B ^ n) :
    l.length ≤ n := by
  by_cases hne : l = []
  · subst hne; simp
  · have hge := (Bits.norm_iff_ge l hl hne).mp hn
    have hlt : B ^ (l.length - 1) < B ^ n := Nat.lt_of_le_of_lt hge h
    have := (Nat.pow_lt_pow_iff_right (by unfold B; omega : 1 < B)).mp hlt
    omega

theorem owf_norm {o : Obj} (h : OWF o) : Bits.Norm (view o).d := h.2.2.2.2.2

theorem owf_val_pos {o : Obj} (h : OWF o) (h0 : o.size ≠ 0) : 1 ≤ val (view o).d := by
  have hl := view_d_length h
  exact Bits.val_pos_of_norm (view_limbs h) (by intro e; rw [e] at hl; simp at hl; omega) (owf_norm h)

theorem iorNN_len (a b : List Nat) (ha : Limbs a) (hna : Bits.Norm a) (hb : Limbs b) (hnb : Bits.Norm b)
    (ha1 : 1 ≤ val a) (hb1 : 1 ≤ val b) : (Bits.iorNN a b).mag.length ≤ min a.length b.length := by
  obtain ⟨_, hv, hl, hn, _⟩ := Bits.iorNN_spec a b ha hna hb hnb ha1 hb1
  have la := val_lt a ha
  have lb := val_lt b hb
  have h1 : (val a - 1) &&& (val b - 1) ≤ val a - 1 := Nat.and_le_left
  have h2 : (val a - 1) &&& (val b - 1) ≤ val b - 1 := Nat.and_le_right
  have A := len_le_of_val_lt _ hl hn a.length (by rw [hv]; omega)
  have Bb := len_le_of_val_lt _ hl hn b.length (by rw [hv]; omega)
  omega

theorem iorPN_len (a b : List Nat) (ha : Limbs a) (hb : Limbs b) (hnb : Bits.Norm b) (hb1 : 1 ≤ val b) :
    (Bits.iorPN a b).mag.length ≤ b.length := by
  obtain ⟨_, hv, hl, hn, _⟩ := Bits.iorPN_spec a b ha hb hnb hb1
  have lb := val_lt b hb
  have h1 := Bits.ldiff_le (val b - 1) (val a)
  exact len_le_of_val_lt _ hl hn b.length (by rw [hv]; omega)

/-! ## `mpn_add_1 (rp, rp, n, 1)` with the carry store, when only the RESULT is known to fit -/

theorem addOneGrow_cy (R : List Nat) (h : (Bits.addLimb R 1).2 ≠ 0) : (Bits.addOneGrow R).length = R.length + 1 := by
  unfold Bits.addOneGrow
  rw [show Bits.addLimb R 1 = ((Bits.addLimb R 1).1, (Bits.addLimb R 1).2) from rfl]
  simp only [h, ne_eq, not_false_eq_true, if_true]
  simp [addLimb_len]

theorem Wrote.addOne' {s1 s2 : St} {w : Nat} {R : List Nat} (W : Wrote s1 s2 w R) (hne : R ≠ [])
    (hfit : (Bits.addOneGrow R).length ≤ (s1.h w).buf.alloc) :
    (addOneTail s2 (s1.PTR w) R.length).1 = (Bits.addOneGrow R).length ∧
    Wrote s1 (addOneTail s2 (s1.PTR w) R.length).2 w (Bits.addOneGrow R) := by
  by_cases hc : (Bits.addLimb R 1).2 = 0
  · -- no carry: nothing is stored above R
    obtain ⟨e, ok⟩ := W.rd R.length (Nat.le_refl _)
    rw [List.take_length] at e
    have hlen := addLimb_len R 1
    have hlim := addLimb_limbs R 1 W.limbs
    have hRfit : R.length ≤ (s1.h w).buf.alloc := by have := W.fit; rw [W.alloc] at this; exact this
    have W1 := (W.chk true rfl).wr 0 (Bits.addLimb R 1).1 hlim (by omega) (by omega)
    simp only [add_zero_ptr, List.take_zero, List.nil_append, Nat.zero_add, hlen, List.drop_length, List.append_nil] at W1
    unfold addOneTail Bits.addOneGrow
    simp only [e, ok]
    have hc' : ((Bits.addLimb R 1).2 != 0) = false := by simp [hc]
    simp only [hc', Bool.false_eq_true, if_false]
    have : ¬ (Bits.addLimb R 1).2 ≠ 0 := by simp [hc]
    rw [show Bits.addLimb R 1 = ((Bits.addLimb R 1).1, (Bits.addLimb R 1).2) from rfl]
    simp only [this, if_false]
    exact ⟨hlen.symm, W1⟩
  · exact W.addOne hne (by rw [addOneGrow_cy R hc] at hfit; exact hfit)

/-- `res_ptr[0] = 1; res_size = 1;` on a fresh state -/
theorem Wrote.one {s1 : St} {w : Nat} (hs : s1.ok = true) (hb : BWF (s1.h w).buf) (h1 : 1 ≤ (s1.h w).buf.alloc) :
    Wrote s1 (s1.store (s1.PTR w) 0 1) w [1] := by
  have W0 := Wrote.refl s1 w 0 hs hb (Nat.zero_le _)
  have W1 := W0.wr 0 [1] (by intro x hx; simp at hx; rw [hx]; unfold B; omega) (by simp) (by simpa using h1)
  simpa [St.store] using W1

/-- the common ending of ior.c:133-153 / 215-234 once the low part `R` (res_size limbs, non-empty) is in place -/
theorem Wrote.ior_end {s1 s2 : St} {w : Nat} {R : List Nat} (W : Wrote s1 s2 w R) (hne : R ≠ [])
    (hfit : (Bits.addOneGrow R).length ≤ (s1.h w).buf.alloc) :
    Refines s1 ((addOneTail s2 (s1.PTR w) R.length).2.setSize w (sgn true (addOneTail s2 (s1.PTR w) R.length).1)) w
      ⟨(s1.h w).buf.alloc, sgn true (Bits.addOneGrow R).length, Bits.addOneGrow R⟩ := by
  obtain ⟨e1, W3⟩ := W.addOne' hne hfit
  have R4 := (W3.setSize (sgn true (Bits.addOneGrow R).length)).refines (sgn true (Bits.addOneGrow R).length) (by simp)
    (by rw [natAbs_sgn])
  rw [natAbs_sgn, List.take_length] at R4
  rw [e1]; exact R4

theorem and_n_eq (u v : List Nat) : Bits.and_n u v = List.zipWith (· &&& ·) u v := rfl

/-! ## ior.c:106-153, both negative -/

theorem ior_nn_refines (s : St) (res op1 op2 : Nat) (hs : s.ok = true)
    (hw : OWF (s.h res)) (hu : OWF (s.h op1)) (hv : OWF (s.h op2))
    (h1 : (s.h op1).size ≠ 0) (h2 : (s.h op2).size ≠ 0) :
    Refines s (ior_nn s res op1 op2 (s.h op1).size.natAbs (s.h op2).size.natAbs) res
      (ofZ (Mpz.grow (view (s.h res)) (min (s.h op1).size.natAbs (s.h op2).size.natAbs)).alloc
        (Bits.iorNN (view (s.h op1)).d (view (s.h op2)).d)) := by
  have hA := view_d_length hu
  have hB := view_d_length hv
  have LA := view_limbs hu
  have LB := view_limbs hv
  have hlenZ := iorNN_len _ _ LA (owf_norm hu) LB (owf_norm hv) (owf_val_pos hu h1) (owf_val_pos hv h2)
  generalize hAd : (view (s.h op1)).d = A at *
  generalize hBd : (view (s.h op2)).d = Bv at *
  generalize hn1 : (s.h op1).size.natAbs = n1 at *
  generalize hn2 : (s.h op2).size.natAbs = n2 at *
  have hn1p : 1 ≤ n1 := by omega
  have hn2p : 1 ≤ n2 := by omega
  have Da : Den s (.ptr (s.PTR op1)) A := hAd ▸ Den.of_owf hu
  have Db : Den s (.ptr (s.PTR op2)) Bv := hBd ▸ Den.of_owf hv
  obtain ⟨t1s, _, t1D⟩ := tmp_sub_1_spec s (s.PTR op1) A (min n1 n2) Da (by omega) LA
  obtain ⟨t2s, _, t2D⟩ := tmp_sub_1_spec (s.chk true) (s.PTR op2) Bv (min n1 n2) (Db.chk _) (by omega) LB
  have hO1 : (Bits.subLimb (A.take (min n1 n2)) 1).1.length = min n1 n2 := by rw [subLimb_len]; simp; omega
  have hO2 : (Bits.subLimb (Bv.take (min n1 n2)) 1).1.length = min n1 n2 := by rw [subLimb_len]; simp; omega
  have LO1 := subLimb_limbs (A.take (min n1 n2)) 1 (Limbs_take LA _)
  have LO2 := subLimb_limbs (Bv.take (min n1 n2)) 1 (Limbs_take LB _)
  unfold Bits.iorNN at hlenZ
  unfold ior_nn Bits.iorNN ofZ
  dsimp only at hlenZ ⊢
  rw [hA, hB] at hlenZ ⊢
  rw [show tmp_sub_1 s (s.PTR op1) (min n1 n2) = ((tmp_sub_1 s (s.PTR op1) (min n1 n2)).1, (tmp_sub_1 s (s.PTR op1) (min n1 n2)).2) from rfl]
  simp only [t1s]
  rw [show tmp_sub_1 (s.chk true) (s.PTR op2) (min n1 n2) = ((tmp_sub_1 (s.chk true) (s.PTR op2) (min n1 n2)).1, (tmp_sub_1 (s.chk true) (s.PTR op2) (min n1 n2)).2) from rfl]
  simp only [t2s, realloc_if]
  generalize (tmp_sub_1 s (s.PTR op1) (min n1 n2)).1 = opx1 at *
  generalize (tmp_sub_1 (s.chk true) (s.PTR op2) (min n1 n2)).1 = opx2 at *
  generalize hO1d : (Bits.subLimb (A.take (min n1 n2)) 1).1 = O1 at *
  generalize hO2d : (Bits.subLimb (Bv.take (min n1 n2)) 1).1 = O2 at *
  generalize hn : min n1 n2 = n at *
  rw [reptr_eq' ((s.chk true).chk true) res n res (s.PTR res) rfl]
  have G := MPZ_REALLOC_grown ((s.chk true).chk true) res n hw
  generalize hs1 : MPZ_REALLOC ((s.chk true).chk true) res n = s1 at *
  have hok1 : s1.ok = true := by rw [G.ok]; simpa using hs
  have hbw := G.bwf res hw.1
  have hroom := G.room
  have h1a : 1 ≤ (s1.h res).buf.alloc := Nat.le_trans hw.2.1 (G.mono res)
  have halloc : (Mpz.grow (view (s.h res)) n).alloc = (s1.h res).buf.alloc := G.alloc.symm
  rw [halloc]
  refine Refines.of_chk (Refines.of_chk (Refines.of_grown G ?_))
  have hz : List.zipWith (· &&& ·) (O1.take n) (O2.take n) = Bits.and_n O1 O2 :=
    zipWith_take_full _ _ _ _ (by omega)
  have hscan := logop_scan_spec (· &&& ·) s1 (.tmp opx1 0) (.tmp opx2 0) O1 O2 n (t1D s1) (t2D s1) (by omega) (by omega)
  rw [hz] at hscan
  have hrsle : Bits.scanTop (Bits.and_n O1 O2) ≤ n := by
    have := scanTop_le (Bits.and_n O1 O2)
    have hl : (Bits.and_n O1 O2).length = n := by simp [Bits.and_n]; omega
    omega
  simp only [hscan]
  generalize hrs : Bits.scanTop (Bits.and_n O1 O2) = rs at *
  unfold ior_fin
  by_cases h0 : rs = 0
  · subst h0
    simp only [bne_self_eq_false, Bool.false_eq_true, if_false, ne_eq, not_true_eq_false]
    have W := Wrote.one (w := res) (s1 := s1.chk true) (by simpa using hok1) hbw h1a
    have R := (W.setSize (sgn true 1)).refines (sgn true 1) (by simp) (by rw [natAbs_sgn]; simp)
    rw [natAbs_sgn] at R
    have R' : Refines s1 (((s1.chk true).store (s1.PTR res) 0 1).setSize res (sgn true 1)) res
        ⟨(s1.h res).buf.alloc, sgn true 1, [1]⟩ := ⟨R.ok, by simpa using R.view, R.bwf, R.frame⟩
    simpa using R'
  · have h0' : (rs != 0) = true := by simpa using h0
    simp only [h0', if_true, ne_eq, h0, not_false_eq_true] at hlenZ ⊢
    have W0 := (Wrote.refl s1 res 0 hok1 hbw (Nat.zero_le _)).chk true rfl
    have W1 := W0.logop (· &&& ·) (fun a b ha _ => and_lt ha) _ _ O1 O2 rs (t1D _) (t2D _) (by omega) (by omega) LO1 LO2
      (by omega)
    simp only [List.take_zero, List.drop_nil, List.append_nil] at W1
    have hl : (List.zipWith (· &&& ·) (O1.take rs) (O2.take rs)).length = rs := by simp; omega
    have hne : List.zipWith (· &&& ·) (O1.take rs) (O2.take rs) ≠ [] := by
      intro h; rw [h] at hl; simp at hl; omega
    rw [and_n_eq] at hlenZ
    have E := W1.ior_end hne (by omega)
    rw [hl] at E
    rw [and_n_eq]
    exact E

/-! ## ior.c:176-234, op1 ≥ 0, op2 < 0 -/

/-- `op2_size -= op2_ptr[op2_size - 1] == 0` on the list -/
theorem dropTopZero_take (l : List Nat) (hne : l ≠ []) :
    Bits.dropTopZero l = l.take (l.length - (if (((l.drop (l.length - 1)).take 1).headD junk == 0) then 1 else 0)) := by
  rcases List.eq_nil_or_concat l with h0 | ⟨l', x, h⟩
  · exact absurd h0 hne
  · rw [List.concat_eq_append] at h
    subst h
    unfold Bits.dropTopZero
    by_cases hx : x = 0
    · subst hx; simp
    · simp [hx]
      exact (List.take_of_length_le (by simp)).symm

theorem ior_fin_pn_one (s1 : St) (res : Nat) (a b : Src) (count : Nat) (hok1 : s1.ok = true) (hbw : BWF (s1.h res).buf)
    (h1a : 1 ≤ (s1.h res).buf.alloc) :
    Refines s1 (ior_pn.ior_fin_pn (s1.chk true) res (s1.PTR res) a b 0 count) res ⟨(s1.h res).buf.alloc, sgn true 1, [1]⟩ := by
  unfold ior_pn.ior_fin_pn
  simp only [bne_self_eq_false, Bool.false_eq_true, if_false]
  have W := Wrote.one (w := res) (s1 := s1.chk true) (by simpa using hok1) hbw h1a
  have R := (W.setSize (sgn true 1)).refines (sgn true 1) (by simp) (by rw [natAbs_sgn]; simp)
  rw [natAbs_sgn] at R
  exact ⟨R.ok, by simpa using R.view, R.bwf, R.frame⟩

theorem ior_pn_refines (s : St) (res op1 op2 : Nat) (hs : s.ok = true)
    (hw : OWF (s.h res)) (hu : OWF (s.h op1)) (hv : OWF (s.h op2)) (h2 : (s.h op2).size ≠ 0) :
    Refines s (ior_pn true s res op1 op2 (s.h op1).size.natAbs (s.h op2).size.natAbs) res
      (ofZ (Mpz.grow (view (s.h res)) (s.h op2).size.natAbs).alloc
        (Bits.iorPN (view (s.h op1)).d (view (s.h op2)).d)) := by
  have hA := view_d_length hu
  have hB := view_d_length hv
  have LA := view_limbs hu
  have LB := view_limbs hv
  have hlenZ := iorPN_len _ _ LA LB (owf_norm hv) (owf_val_pos hv h2)
  generalize hAd : (view (s.h op1)).d = A at *
  generalize hBd : (view (s.h op2)).d = Bv at *
  generalize hn1 : (s.h op1).size.natAbs = n1 at *
  generalize hn2 : (s.h op2).size.natAbs = n2 at *
  have hn2p : 1 ≤ n2 := by omega
  have Db : Den s (.ptr (s.PTR op2)) Bv := hBd ▸ Den.of_owf hv
  obtain ⟨t2s, _, t2D⟩ := tmp_sub_1_spec s (s.PTR op2) Bv n2 Db (by omega) LB
  rw [List.take_of_length_le (by omega)] at t2D
  have hO2 : (Bits.subLimb Bv 1).1.length = n2 := by rw [subLimb_len]; exact hB
  have LO2 := subLimb_limbs Bv 1 LB
  have hO2ne : (Bits.subLimb Bv 1).1 ≠ [] := by intro h; rw [h] at hO2; simp at hO2; omega
  have hdt := dropTopZero_take _ hO2ne
  unfold Bits.iorPN at hlenZ
  unfold ior_pn Bits.iorPN ofZ
  dsimp only at hlenZ ⊢
  rw [hdt] at hlenZ ⊢
  rw [show tmp_sub_1 s (s.PTR op2) n2 = ((tmp_sub_1 s (s.PTR op2) n2).1, (tmp_sub_1 s (s.PTR op2) n2).2) from rfl]
  simp only [t2s]
  generalize (tmp_sub_1 s (s.PTR op2) n2).1 = opx at *
  generalize hO2d : (Bits.subLimb Bv 1).1 = O2 at *
  obtain ⟨etop, oktop⟩ := (t2D (s.chk true)).rd_add (n2 - 1) 1 (by omega)
  rw [hO2] at hlenZ ⊢
  simp only [etop, oktop, realloc_if]
  generalize hn2' : n2 - (if ((O2.drop (n2 - 1)).take 1).headD junk == 0 then 1 else 0) = n2' at *
  have hn2'le : n2' ≤ n2 := by omega
  rw [reptr_eq' ((s.chk true).chk true) res n2 res (s.PTR res) rfl,
    reptr_eq' ((s.chk true).chk true) res n2 op1 (s.PTR op1) rfl]
  have G := MPZ_REALLOC_grown ((s.chk true).chk true) res n2 hw
  generalize hs1 : MPZ_REALLOC ((s.chk true).chk true) res n2 = s1 at *
  have hok1 : s1.ok = true := by rw [G.ok]; simpa using hs
  have hbw := G.bwf res hw.1
  have hroom := G.room
  have h1a : 1 ≤ (s1.h res).buf.alloc := Nat.le_trans hw.2.1 (G.mono res)
  have halloc : (Mpz.grow (view (s.h res)) n2).alloc = (s1.h res).buf.alloc := G.alloc.symm
  rw [halloc]
  refine Refines.of_chk (Refines.of_chk (Refines.of_grown G ?_))
  have Da1 : Den s1 (.ptr (s1.PTR op1)) A := hAd ▸ Den.of_grown G hu
  have Dt : ∀ s', Den s' (.tmp opx 0) (O2.take n2') := fun s' => (t2D s').take n2'
  have hO2' : (O2.take n2').length = n2' := by simp; omega
  have LO2' : Limbs (O2.take n2') := Limbs_take LO2 _
  rw [hO2'] at hlenZ ⊢
  generalize hO2'd : O2.take n2' = O2' at *
  by_cases hge : n1 ≥ n2'
  · have hge' : A.length ≥ n2' := by omega
    simp only [hge, hge', if_true] at hlenZ ⊢
    have hz : List.zipWith andn (O2'.take n2') (A.take n2') = Bits.andn_n O2' A := zipWith_take_full _ _ _ _ (by omega)
    have hscan := logop_scan_spec andn s1 (.tmp opx 0) (.ptr (s1.PTR op1)) O2' A n2' (Dt s1) Da1 (by omega) (by omega)
    rw [hz] at hscan
    have hrsle : Bits.scanTop (Bits.andn_n O2' A) ≤ n2' := by
      have := scanTop_le (Bits.andn_n O2' A)
      have hl : (Bits.andn_n O2' A).length = n2' := by simp [Bits.andn_n]; omega
      omega
    simp only [hscan]
    generalize hrs : Bits.scanTop (Bits.andn_n O2' A) = rs at *
    by_cases h0 : rs = 0
    · subst h0
      simp only [ne_eq, not_true_eq_false, if_false]
      exact ior_fin_pn_one s1 res _ _ 0 hok1 hbw h1a
    · have h0' : (rs != 0) = true := by simpa using h0
      simp only [ne_eq, h0, not_false_eq_true, if_true] at hlenZ ⊢
      unfold ior_pn.ior_fin_pn
      simp only [h0', if_true]
      have W0 := (Wrote.refl s1 res 0 hok1 hbw (Nat.zero_le _)).chk true rfl
      have W1 := W0.logop andn (fun a b ha _ => andn_lt ha) _ _ O2' A rs (Dt _) (Da1.chk _) (by omega) (by omega) LO2' LA
        (by omega)
      simp only [List.take_zero, List.drop_nil, List.append_nil] at W1
      have hl : (List.zipWith andn (O2'.take rs) (A.take rs)).length = rs := by simp; omega
      have hne : List.zipWith andn (O2'.take rs) (A.take rs) ≠ [] := by
        intro h; rw [h] at hl; simp at hl; omega
      rw [andn_n_eq] at hlenZ
      have E := W1.ior_end hne (by omega)
      rw [hl] at E
      rw [andn_n_eq]
      exact E
  · have hge' : ¬ A.length ≥ n2' := by omega
    simp only [hge, hge', if_false] at hlenZ ⊢
    have hn2'0 : (n2' != 0) = true := by simp; omega
    unfold ior_pn.ior_fin_pn
    simp only [hn2'0, if_true]
    have W2 := Wrote.cat hok1 hbw andn (fun a b ha _ => andn_lt ha) (.tmp opx 0) (.ptr (s1.PTR op1)) (.tmp opx 0)
      O2' A O2' n1 (Dt s1) Da1 (Dt s1) (by omega) (by omega) (by omega) LO2' LA LO2' (by omega)
    rw [hO2', zipWith_take_full _ _ _ _ (by omega)] at W2
    have hl : (List.zipWith andn O2' A ++ O2'.drop n1).length = n2' := by simp; omega
    have hne : List.zipWith andn O2' A ++ O2'.drop n1 ≠ [] := by
      intro h; rw [h] at hl; simp at hl; omega
    rw [andn_n_eq, hA] at hlenZ
    have E := W2.ior_end hne (by omega)
    rw [hl] at E
    rw [andn_n_eq, hA]
    simpa [Src.add] using E

/-- value-level result of mpz_ior with the allocation the C leaves: `MAX` limbs for ++, `MIN` for --, `|negative operand|`
    for +- (never a `+ 1`) -/
def Spec.ior (w u v : Mpz.Mpz) : Mpz.Mpz :=
  ofZ (Mpz.grow w (if u.size < 0 then (if v.size < 0 then min u.size.natAbs v.size.natAbs else u.size.natAbs)
      else (if v.size < 0 then v.size.natAbs else max u.size.natAbs v.size.natAbs))).alloc
    (Bits.mpz_ior (zOf u) (zOf v))

theorem ior_refines (s : St) (w u v : Nat) (hs : s.ok = true)
    (hw : OWF (s.h w)) (hu : OWF (s.h u)) (hv : OWF (s.h v)) :
    Refines s (mpz_ior s w u v) w (Spec.ior (view (s.h w)) (view (s.h u)) (view (s.h v))) := by
  unfold mpz_ior ior_ Spec.ior Bits.mpz_ior zOf
  have e1 : (view (s.h u)).size = (s.h u).size := rfl
  have e2 : (view (s.h v)).size = (s.h v).size := rfl
  simp only [St.SIZ, e1, e2]
  by_cases h1 : (s.h u).size ≥ 0 <;> by_cases h2 : (s.h v).size ≥ 0
  · have h1' : ¬ (s.h u).size < 0 := by omega
    have h2' : ¬ (s.h v).size < 0 := by omega
    simp only [h1, h2, h1', h2', if_true, if_false, decide_false, Bool.not_false]
    exact ior_pp_refines s w u v hs hw hu hv
  · have h1' : ¬ (s.h u).size < 0 := by omega
    have h2' : (s.h v).size < 0 := by omega
    simp only [h1, h2, h1', h2', if_true, if_false, decide_false, decide_true, Bool.not_false, Bool.not_true,
      Bool.false_eq_true]
    exact ior_pn_refines s w u v hs hw hu hv (by omega)
  · have h1' : (s.h u).size < 0 := by omega
    have h2' : ¬ (s.h v).size < 0 := by omega
    simp only [h1, h2, h1', h2', if_true, if_false, decide_false, decide_true, Bool.not_false, Bool.not_true,
      Bool.false_eq_true]
    exact ior_pn_refines s w v u hs hw hv hu (by omega)
  · have h1' : (s.h u).size < 0 := by omega
    have h2' : (s.h v).size < 0 := by omega
    simp only [h1, h2, h1', h2', if_true, if_false, decide_true, Bool.not_true, Bool.false_eq_true]
    exact ior_nn_refines s w u v hs hw hu hv (by omega) (by omega)

theorem ior_need_le (u v : Mpz.Mpz) (hu : Mpz.WF u) (hv : Mpz.WF v) :
    (Bits.mpz_ior (zOf u) (zOf v)).mag.length ≤
      (if u.size < 0 then (if v.size < 0 then min u.size.natAbs v.size.natAbs else u.size.natAbs)
        else (if v.size < 0 then v.size.natAbs else max u.size.natAbs v.size.natAbs)) := by
  obtain ⟨_, _, hl1, hL1, hN1⟩ := hu
  obtain ⟨_, _, hl2, hL2, hN2⟩ := hv
  have p1 : u.size < 0 → 1 ≤ val u.d := fun h =>
    Bits.val_pos_of_norm hL1 (by intro e; rw [e] at hl1; simp at hl1; omega) hN1
  have p2 : v.size < 0 → 1 ≤ val v.d := fun h =>
    Bits.val_pos_of_norm hL2 (by intro e; rw [e] at hl2; simp at hl2; omega) hN2
  unfold Bits.mpz_ior zOf
  by_cases h1 : u.size < 0 <;> by_cases h2 : v.size < 0 <;>
    simp only [h1, h2, decide_true, decide_false, Bool.not_true, Bool.not_false, Bool.false_eq_true, if_false, if_true]
  · have := iorNN_len u.d v.d hL1 hN1 hL2 hN2 (p1 h1) (p2 h2); omega
  · have := iorPN_len v.d u.d hL2 hL1 hN1 (p1 h1); omega
  · have := iorPN_len u.d v.d hL1 hL2 hN2 (p2 h2); omega
  · unfold Bits.iorPP Bits.ior_n
    split <;> simp <;> omega

end Mpir.AllocSafe
