/- Helper lemmas for the conversions: mpq_set_f (set_f.c), mpq_set_d (set_d.c with
   __gmp_extract_double) — exact — and mpq_get_d (get_d.c + mpn_get_d) — truncation toward zero. -/
import MpirProofs.Lemmas.Mpq
import Mathlib.Algebra.Order.Field.Power
import Mathlib.Data.Nat.Bitwise
import Mathlib.Data.Rat.Floor
import Mathlib.Algebra.Order.Floor.Semifield
namespace Mpir.Mpq

/-! ### mpq_set_f -/

theorem stripLow_spec (m fuel : Nat) :
    m = (stripLow m fuel).1 * B ^ (stripLow m fuel).2 ∧
    (m ≠ 0 → m < B ^ fuel → (stripLow m fuel).1 % B ≠ 0) := by
  induction fuel generalizing m with
  | zero =>
    refine ⟨by simp [stripLow], fun h0 h1 => ?_⟩
    simp at h1; omega
  | succ f ih =>
    rw [stripLow]
    split_ifs with hc
    · obtain ⟨i1, i2⟩ := ih (m / B)
      rcases hs : stripLow (m / B) f with ⟨m', k⟩
      rw [hs] at i1 i2
      simp only [] at i1 i2 ⊢
      refine ⟨?_, fun h0 h1 => ?_⟩
      · have hm : m = m / B * B := (Nat.div_mul_cancel (Nat.dvd_of_mod_eq_zero hc.1)).symm
        rw [pow_succ, ← mul_assoc, ← i1, ← hm]
      · apply i2
        · intro h; have : m = m / B * B := (Nat.div_mul_cancel (Nat.dvd_of_mod_eq_zero hc.1)).symm
          rw [h] at this; omega
        · rw [pow_succ] at h1
          exact Nat.div_lt_of_lt_mul (by rw [Nat.mul_comm]; exact h1)
    · refine ⟨by simp, fun h0 _ => ?_⟩
      intro h; exact hc ⟨h, h0⟩

/-- a number with non-zero low limb is `2^ctz(low limb)` times an odd number, and that ctz is < 64 -/
theorem low_limb_ctz {m : Nat} (hz : m % B ≠ 0) :
    ∃ o, m = 2 ^ ctz (m % B) * o ∧ o % 2 = 1 ∧ ctz (m % B) < 64 := by
  obtain ⟨k, hk⟩ := ctz_spec (m % B) hz
  generalize ctz (m % B) = c at *
  have hc : c < 64 := by
    have h1 : 2 ^ c ≤ m % B := by rw [hk]; nlinarith [Nat.two_pow_pos c]
    have h2 : m % B < 2 ^ 64 := by rw [← B_eq_pow]; exact Nat.mod_lt _ B_pos
    exact (Nat.pow_lt_pow_iff_right (by norm_num : 1 < 2)).mp (lt_of_le_of_lt h1 h2)
  refine ⟨2 ^ (64 - c) * (m / B) + (2 * k + 1), ?_, ?_, hc⟩
  · have e : m = B * (m / B) + m % B := (Nat.div_add_mod m B).symm
    have eB : B = 2 ^ c * 2 ^ (64 - c) := by rw [← pow_add, B_eq_pow]; congr 1; omega
    rw [hk] at e
    calc m = B * (m / B) + 2 ^ c * (2 * k + 1) := e
      _ = 2 ^ c * 2 ^ (64 - c) * (m / B) + 2 ^ c * (2 * k + 1) := by rw [← eB]
      _ = _ := by ring
  · have : 2 ^ (64 - c) = 2 * 2 ^ (63 - c) := by rw [← pow_succ']; congr 1; omega
    rw [this, mul_assoc]; omega


theorem B_cast_int : ((B : ℕ) : ℤ) = (2 : ℤ) ^ 64 := by unfold B; norm_num

theorem isCoprime_B_pow {x : ℤ} (h : x % 2 = 1) (n : ℕ) : IsCoprime x (((B : ℕ) : ℤ) ^ n) := by
  rw [B_cast_int]; exact ((isCoprime_of_odd h).symm.pow_right).pow_right

/-- value of an mpf operand: sign, mantissa `F` (with `limbs F` limbs), exponent in limbs -/
def mpfVal (neg : Bool) (F : Nat) (fexp : Int) : ℚ :=
  (if neg then -1 else 1) * (F : ℚ) * (B : ℚ) ^ (fexp - (limbs F : ℤ))

theorem toRat_mk_neg (n d : ℤ) : (⟨-n, d⟩ : Q).toRat = -(⟨n, d⟩ : Q).toRat := by
  simp [Q.toRat, neg_div]

theorem setFVal_spec (neg : Bool) (F : Nat) (fexp : Int) :
    (setFVal neg F fexp).toRat = mpfVal neg F fexp ∧ Canonical (setFVal neg F fexp) := by
  unfold setFVal mpfVal
  by_cases hF : F = 0
  · subst hF; simp [Q.toRat, Canonical]
  rw [if_neg hF]
  obtain ⟨s1, s2⟩ := stripLow_spec F (limbs F)
  have s2 := s2 hF (limbs_ub F)
  simp only []
  generalize (stripLow F (limbs F)).1 = F' at *
  generalize (stripLow F (limbs F)).2 = k at *
  have hF' : F' ≠ 0 := by rintro rfl; simp at s2
  have hk : k < limbs F := by
    have h1 : B ^ k ≤ F := by rw [s1]; exact Nat.le_mul_of_pos_left _ (Nat.pos_of_ne_zero hF')
    exact (Nat.pow_lt_pow_iff_right (by rw [B_eq_pow]; norm_num : 1 < B)).mp (lt_of_le_of_lt h1 (limbs_ub F))
  have hcast : ((limbs F - k : ℕ) : ℤ) = (limbs F : ℤ) - k := by omega
  have hB : (B : ℚ) ≠ 0 := by rw [B_eq_pow]; norm_num
  -- common target: F' * B^(fexp - abs_fsize)
  have tgt : (F : ℚ) * (B : ℚ) ^ (fexp - (limbs F : ℤ)) = (F' : ℚ) * (B : ℚ) ^ (fexp - ((limbs F : ℤ) - k)) := by
    have e : (F : ℚ) = (F' : ℚ) * (B : ℚ) ^ k := by exact_mod_cast s1
    rw [e]
    rw [show fexp - ((limbs F : ℤ) - k) = (k : ℤ) + (fexp - (limbs F : ℤ)) by ring, zpow_add₀ hB, zpow_natCast]
    ring
  -- it suffices to treat the positive sign
  suffices h : ∀ (n d : ℤ), (⟨n, d⟩ : Q).toRat = (F' : ℚ) * (B : ℚ) ^ (fexp - ((limbs F : ℤ) - k)) →
      Canonical ⟨n, d⟩ →
      (⟨if neg then -n else n, d⟩ : Q).toRat = (if neg then -1 else 1) * (F : ℚ) * (B : ℚ) ^ (fexp - (limbs F : ℤ)) ∧
      Canonical ⟨if neg then -n else n, d⟩ by
    rw [hcast]
    by_cases c1 : fexp ≥ (limbs F : ℤ) - k
    · simp only [c1, if_true]
      apply h
      · have e : (((fexp - ((limbs F : ℤ) - k)).toNat : ℕ) : ℤ) = fexp - ((limbs F : ℤ) - k) := by omega
        simp only [Q.toRat, Int.cast_one, div_one]
        push_cast
        rw [← zpow_natCast, e]
      · exact ⟨by norm_num, by simp⟩
    simp only [c1, if_false]
    have e : ((((limbs F : ℤ) - k - fexp).toNat : ℕ) : ℤ) = (limbs F : ℤ) - k - fexp := by omega
    have hds : 1 ≤ ((limbs F : ℤ) - k - fexp).toNat := by omega
    generalize ((limbs F : ℤ) - k - fexp).toNat = ds at *
    have hexp : fexp - ((limbs F : ℤ) - k) = -(ds : ℤ) := by omega
    rw [hexp] at h
    by_cases c2 : F' % B % 2 = 1
    · simp only [c2, if_true]
      apply h
      · simp only [Q.toRat]
        push_cast
        rw [div_eq_mul_inv, zpow_neg, zpow_natCast]
      · rw [canonical_iff]
        refine ⟨by show (0 : ℤ) < ((B ^ ds : ℕ) : ℤ); exact_mod_cast Nat.pow_pos (n := ds) B_pos, ?_⟩
        have hodd : (F' : ℤ) % 2 = 1 := by
          have : F' % B % 2 = F' % 2 := Nat.mod_mod_of_dvd F' ⟨2 ^ 63, by rw [B_eq_pow]; norm_num⟩
          omega
        push_cast
        exact isCoprime_B_pow hodd ds
    · simp only [c2, if_false]
      obtain ⟨o, ho, hodd, hc⟩ := low_limb_ctz s2
      generalize ctz (F' % B) = c at *
      have hc1 : 1 ≤ c := by
        rcases Nat.eq_zero_or_pos c with h0 | h0
        · subst h0
          have : F' % B % 2 = F' % 2 := Nat.mod_mod_of_dvd F' ⟨2 ^ 63, by rw [B_eq_pow]; norm_num⟩
          rw [pow_zero, one_mul] at ho; subst ho; omega
        · exact h0
      have hq : F' / 2 ^ c = o := by rw [ho]; exact Nat.mul_div_cancel_left o (by positivity)
      rw [hq]
      have hden : B ^ (ds - 1) * 2 ^ (64 - c) * 2 ^ c = B ^ ds := by
        rw [mul_assoc, ← pow_add, show 64 - c + c = 64 by omega, ← B_eq_pow, ← pow_succ]
        congr 1; omega
      apply h
      · rw [zpow_neg, zpow_natCast, ← div_eq_mul_inv]
        simp only [Q.toRat]
        have x1 : ((B : ℚ) ^ ds) ≠ 0 := pow_ne_zero _ hB
        have x2 : (((B ^ (ds - 1) * 2 ^ (64 - c) : ℕ) : ℤ) : ℚ) ≠ 0 := by
          have : 0 < B ^ (ds - 1) * 2 ^ (64 - c) := by have := B_pos; positivity
          exact_mod_cast this.ne'
        rw [div_eq_div_iff x2 x1]
        have hden' : (B : ℚ) ^ ds = (B : ℚ) ^ (ds - 1) * 2 ^ (64 - c) * 2 ^ c := by exact_mod_cast hden.symm
        have : (o : ℚ) * (B : ℚ) ^ ds = (F' : ℚ) * ((B ^ (ds - 1) * 2 ^ (64 - c) : ℕ) : ℚ) := by
          rw [ho, hden']; push_cast; ring
        exact_mod_cast this
      · rw [canonical_iff]
        have hoi : (o : ℤ) % 2 = 1 := by omega
        refine ⟨by show (0 : ℤ) < ((B ^ (ds - 1) * 2 ^ (64 - c) : ℕ) : ℤ); exact_mod_cast Nat.mul_pos (Nat.pow_pos (n := ds - 1) B_pos) (Nat.two_pow_pos (64 - c)), ?_⟩
        push_cast
        exact IsCoprime.mul_right (isCoprime_B_pow hoi _) (isCoprime_of_odd hoi).symm.pow_right
  intro n d hv hc
  cases neg
  · simp only [Bool.false_eq_true, if_false, one_mul]
    exact ⟨by rw [hv, tgt], hc⟩
  · simp only [if_true]
    refine ⟨by rw [toRat_mk_neg, hv, ← tgt]; ring, ?_⟩
    rw [canonical_iff] at hc ⊢; exact ⟨hc.1, hc.2.neg_left⟩

/-! ### mpq_set_d -/

theorem two_ne : (2 : ℚ) ≠ 0 := by norm_num

theorem norm_spec (fuel g : Nat) (exp : Int) (hg0 : g ≠ 0) (hg : g < 2 ^ 63) :
    ((normDenorm fuel g exp).1 : ℚ) * (2 : ℚ) ^ (normDenorm fuel g exp).2 = (g : ℚ) * (2 : ℚ) ^ exp ∧
    (normDenorm fuel g exp).1 ≠ 0 ∧ (normDenorm fuel g exp).1 < 2 ^ 64 := by
  induction fuel generalizing g exp with
  | zero => exact ⟨rfl, hg0, by unfold normDenorm; simp only []; omega⟩
  | succ n ih =>
    unfold normDenorm
    have h2 : g * 2 % B = g * 2 := Nat.mod_eq_of_lt (by rw [B_eq_pow]; omega)
    simp only [h2]
    have hstep : ((g * 2 : ℕ) : ℚ) * (2 : ℚ) ^ (exp - 1) = (g : ℚ) * (2 : ℚ) ^ exp := by
      rw [zpow_sub₀ two_ne, zpow_one]; push_cast; field_simp
    split_ifs with hc
    · have hlt : g * 2 < 2 ^ 63 := by
        by_contra hge
        have : 1 ≤ g * 2 / 2 ^ 63 := (Nat.one_le_div_iff (by norm_num)).mpr (by omega)
        omega
      obtain ⟨i1, i2, i3⟩ := ih (g * 2) (exp - 1) (by omega) hlt
      exact ⟨by rw [i1, hstep], i2, i3⟩
    · exact ⟨hstep, by omega, by omega⟩


/-- magnitude of the finite double with exponent field `e` and fraction `f` -/
def dblMag (e f : Nat) : ℚ :=
  if e = 0 then (f : ℚ) * (2 : ℚ) ^ (-1074 : ℤ) else ((2 ^ 52 + f : ℕ) : ℚ) * (2 : ℚ) ^ ((e : ℤ) - 1075)

theorem extractMant_spec (e f : Nat) (hf : f < 2 ^ 52) (hnz : ¬ (e = 0 ∧ f = 0)) :
    ((extractMant e f).1 : ℚ) * (2 : ℚ) ^ ((extractMant e f).2 - 1086) = dblMag e f ∧
    (extractMant e f).1 ≠ 0 ∧ (extractMant e f).1 < 2 ^ 64 := by
  unfold extractMant dblMag
  by_cases he : e = 0
  · have hf0 : f ≠ 0 := fun h => hnz ⟨he, h⟩
    simp only [he, if_true]
    -- first iteration by hand: the implicit bit is shifted out
    unfold normDenorm
    have h1 : (2 ^ 63 + f * 2 ^ 11) * 2 % B = f * 2 ^ 12 := by
      rw [B_eq_pow]; omega
    simp only [h1]
    have key : ((f * 2 ^ 12 : ℕ) : ℚ) * (2 : ℚ) ^ ((1 : ℤ) - 1 - 1086) = (f : ℚ) * (2 : ℚ) ^ (-1074 : ℤ) := by
      rw [Nat.cast_mul, Nat.cast_pow, Nat.cast_ofNat, mul_assoc, ← zpow_natCast, ← zpow_add₀ two_ne]
      congr 2
    split_ifs with hc
    · have hlt : f * 2 ^ 12 < 2 ^ 63 := by
        by_contra hge
        have : 1 ≤ f * 2 ^ 12 / 2 ^ 63 := (Nat.one_le_div_iff (by norm_num)).mpr (by omega)
        omega
      obtain ⟨i1, i2, i3⟩ := norm_spec 63 (f * 2 ^ 12) (1 - 1) (by omega) hlt
      refine ⟨?_, i2, i3⟩
      generalize (normDenorm 63 (f * 2 ^ 12) (1 - 1)).1 = r at *
      generalize (normDenorm 63 (f * 2 ^ 12) (1 - 1)).2 = ex at *
      rw [zpow_sub₀ two_ne, ← mul_div_assoc, i1, mul_div_assoc, ← zpow_sub₀ two_ne]
      exact key
    · exact ⟨key, by omega, by omega⟩
  · simp only [he, if_false]
    refine ⟨?_, by omega, by omega⟩
    simp only [Nat.cast_add, Nat.cast_mul, Nat.cast_pow, Nat.cast_ofNat]
    have : ((2 : ℚ) ^ 63 + (f : ℚ) * 2 ^ 11) = ((2 : ℚ) ^ 52 + (f : ℚ)) * 2 ^ 11 := by ring
    rw [this, mul_assoc, ← zpow_natCast (2 : ℚ) 11, ← zpow_add₀ two_ne]
    congr 2; push_cast; ring


theorem B_cast_rat : ((B : ℕ) : ℚ) = (2 : ℚ) ^ (64 : ℤ) := by
  unfold B; rw [Nat.cast_pow, Nat.cast_ofNat]; rfl

theorem B_zpow (z : ℤ) : ((B : ℕ) : ℚ) ^ z = (2 : ℚ) ^ (64 * z) := by
  rw [B_cast_rat, ← zpow_mul]

theorem extractSplit_spec (manl : Nat) (exp0 : ℤ) (hm : manl ≠ 0) (hlt : manl < 2 ^ 64) :
    ((extractSplit manl exp0).1 : ℚ) * ((B : ℕ) : ℚ) ^ ((extractSplit manl exp0).2 - 2)
      = (manl : ℚ) * (2 : ℚ) ^ (exp0 - 1086) ∧
    (extractSplit manl exp0).1 ≠ 0 ∧ (extractSplit manl exp0).1 < B * B := by
  unfold extractSplit
  simp only []
  have hE := Int.mul_ediv_add_emod (exp0 - 1022 + 4096) 64
  have hr0 := Int.emod_nonneg (exp0 - 1022 + 4096) (by norm_num : (64 : ℤ) ≠ 0)
  have hr1 := Int.emod_lt_of_pos (exp0 - 1022 + 4096) (by norm_num : (0 : ℤ) < 64)
  generalize (exp0 - 1022 + 4096) % 64 = r at *
  generalize (exp0 - 1022 + 4096) / 64 = q at *
  by_cases hsc : r.toNat ≠ 0
  · rw [if_pos hsc]
    simp only []
    have hsc64 : r.toNat < 64 := by omega
    have htp : manl / 2 ^ (64 - r.toNat) * B + manl * 2 ^ r.toNat % B = manl * 2 ^ r.toNat := by
      have eB : B = 2 ^ (64 - r.toNat) * 2 ^ r.toNat := by rw [← pow_add, B_eq_pow]; congr 1; omega
      have : manl / 2 ^ (64 - r.toNat) = manl * 2 ^ r.toNat / B := by
        rw [eB]; exact (Nat.mul_div_mul_right _ _ (by positivity)).symm
      rw [this]; exact Nat.div_add_mod' _ _
    rw [htp]
    refine ⟨?_, by positivity, ?_⟩
    swap
    · calc manl * 2 ^ r.toNat < 2 ^ 64 * 2 ^ r.toNat := Nat.mul_lt_mul_of_pos_right hlt (by positivity)
        _ ≤ 2 ^ 64 * 2 ^ 64 := Nat.mul_le_mul_left _ (Nat.pow_le_pow_right (by norm_num) hsc64.le)
        _ = B * B := by rw [B_eq_pow]
    rw [B_zpow, Nat.cast_mul, Nat.cast_pow, Nat.cast_ofNat, mul_assoc, ← zpow_natCast, ← zpow_add₀ two_ne]
    congr 2
    have : ((r.toNat : ℕ) : ℤ) = r := by omega
    rw [this]; omega
  · rw [if_neg hsc]
    simp only []
    refine ⟨?_, by have := B_pos; positivity, by rw [B_eq_pow] at *; exact Nat.mul_lt_mul_of_pos_right hlt (by positivity)⟩
    have hr : r = 0 := by omega
    rw [Nat.cast_mul, mul_assoc, ← zpow_one_add₀ (by rw [B_cast_rat]; positivity), B_zpow]
    congr 2; omega


/-- dividing numerator and the power-of-B denominator by `2^ctz(low limb)` keeps the value and gives
    canonical form (set_d.c:108-115; also the even branch of set_f.c) -/
theorem reduce_pow2 {np K : ℕ} (h : np % B ≠ 0) (hK : 1 ≤ K) :
    (⟨((np / 2 ^ ctz (np % B) : ℕ) : ℤ), ((B ^ K / 2 ^ ctz (np % B) : ℕ) : ℤ)⟩ : Q).toRat
      = (np : ℚ) / ((B : ℕ) : ℚ) ^ K ∧
    Canonical ⟨((np / 2 ^ ctz (np % B) : ℕ) : ℤ), ((B ^ K / 2 ^ ctz (np % B) : ℕ) : ℤ)⟩ := by
  obtain ⟨o, ho, hodd, hc⟩ := low_limb_ctz h
  generalize ctz (np % B) = c at *
  have hq : np / 2 ^ c = o := by rw [ho]; exact Nat.mul_div_cancel_left o (by positivity)
  have hB : B ^ K = 2 ^ c * 2 ^ (64 * K - c) := by
    rw [← pow_add, B_eq_pow, ← pow_mul]; congr 1; omega
  have hd : B ^ K / 2 ^ c = 2 ^ (64 * K - c) := by rw [hB]; exact Nat.mul_div_cancel_left _ (by positivity)
  rw [hq, hd]
  constructor
  · simp only [Q.toRat]
    have x1 : (((B : ℕ) : ℚ) ^ K) ≠ 0 := by have := B_pos; positivity
    have x2 : (((2 ^ (64 * K - c) : ℕ) : ℤ) : ℚ) ≠ 0 := by positivity
    rw [div_eq_div_iff x2 x1]
    have e1 : ((B : ℕ) : ℚ) ^ K = (2 : ℚ) ^ c * (2 : ℚ) ^ (64 * K - c) := by exact_mod_cast hB
    have e2 : (np : ℚ) = (2 : ℚ) ^ c * (o : ℚ) := by exact_mod_cast ho
    rw [e1, e2]; push_cast; ring
  · rw [canonical_iff]
    have hoi : (o : ℤ) % 2 = 1 := by omega
    refine ⟨by positivity, ?_⟩
    push_cast
    exact (isCoprime_of_odd hoi).symm.pow_right

theorem ctz_odd {x : ℕ} (h : x % 2 = 1) : ctz x = 0 := by
  rw [ctz]; have : x ≠ 0 := by omega
  simp [this, h]

/-- the fractional arm of set_d.c (:102-117) on a numerator with non-zero low limb and denominator `B^K` -/
theorem setd_frac {np K : ℕ} (h : np % B ≠ 0) :
    (⟨((np / 2 ^ ctz (np % B ||| B ^ K % B) : ℕ) : ℤ), ((B ^ K / 2 ^ ctz (np % B ||| B ^ K % B) : ℕ) : ℤ)⟩ : Q).toRat
      = (np : ℚ) / ((B : ℕ) : ℚ) ^ K ∧
    Canonical ⟨((np / 2 ^ ctz (np % B ||| B ^ K % B) : ℕ) : ℤ), ((B ^ K / 2 ^ ctz (np % B ||| B ^ K % B) : ℕ) : ℤ)⟩ := by
  rcases Nat.eq_zero_or_pos K with hK | hK
  · subst hK
    have h1 : (1 : ℕ) % B = 1 := Nat.mod_eq_of_lt (by rw [B_eq_pow]; norm_num)
    have hodd : (np % B ||| 1) % 2 = 1 := by rw [Nat.or_mod_two_eq_one]; right; rfl
    simp only [pow_zero, h1, ctz_odd hodd, Nat.div_one]
    exact ⟨by simp [Q.toRat], by norm_num, by simp⟩
  · have h0 : B ^ K % B = 0 := by
      obtain ⟨k, rfl⟩ : ∃ k, K = k + 1 := ⟨K - 1, by omega⟩
      rw [pow_succ]; exact Nat.mul_mod_left _ _
    rw [h0, Nat.or_zero]
    exact reduce_pow2 h hK

/-- value of a finite double: sign bit, exponent field, fraction -/
def dblVal (s : Bool) (e f : Nat) : ℚ := (if s then -1 else 1) * dblMag e f

theorem setDVal_spec (s : Bool) (e f : Nat) (hf : f < 2 ^ 52) :
    (setDVal s e f).toRat = dblVal s e f ∧ Canonical (setDVal s e f) := by
  unfold setDVal dblVal
  by_cases hz : e = 0 ∧ f = 0
  · rw [if_pos hz]; obtain ⟨rfl, rfl⟩ := hz
    simp [Q.toRat, Canonical, dblMag]
  rw [if_neg hz]
  obtain ⟨m1, m2, _⟩ := extractMant_spec e f hf hz
  obtain ⟨t1, t2, t3⟩ := extractSplit_spec (extractMant e f).1 (extractMant e f).2 m2 (by assumption)
  rw [m1] at t1
  have hx : extractDouble e f = extractSplit (extractMant e f).1 (extractMant e f).2 := rfl
  rw [← hx] at t1 t2 t3
  simp only []
  generalize (extractDouble e f).1 = tp at *
  generalize (extractDouble e f).2 = exp at *
  generalize dblMag e f = D at *
  have hBq : ((B : ℕ) : ℚ) ≠ 0 := by have := B_pos; positivity
  -- it suffices to treat the magnitude
  suffices h : ∀ (n d : ℤ), (⟨n, d⟩ : Q).toRat = D → Canonical ⟨n, d⟩ →
      (⟨if s then -n else n, d⟩ : Q).toRat = (if s then -1 else 1) * D ∧
      Canonical ⟨if s then -n else n, d⟩ by
    by_cases c1 : exp ≤ 1
    · simp only [c1, if_true]
      by_cases h0 : tp % B = 0
      · simp only [h0, if_true]
        have htp : tp = tp / B * B := (Nat.div_mul_cancel (Nat.dvd_of_mod_eq_zero h0)).symm
        have hu : tp / B % B ≠ 0 := by
          have hlt : tp / B < B := Nat.div_lt_of_lt_mul t3
          rw [Nat.mod_eq_of_lt hlt]; intro hu0; rw [hu0] at htp; omega
        obtain ⟨v1, v2⟩ := setd_frac (K := (-exp + 1 + 1 - 1).toNat) hu
        apply h _ _ _ v2
        rw [v1, ← t1]
        have e : (((-exp + 1 + 1 - 1).toNat : ℕ) : ℤ) = 1 - exp := by omega
        have e2 : (tp : ℚ) = ((tp / B : ℕ) : ℚ) * ((B : ℕ) : ℚ) := by exact_mod_cast htp
        rw [div_eq_mul_inv, ← zpow_natCast, e, ← zpow_neg]
        conv_rhs => rw [e2]
        rw [mul_assoc, ← zpow_one_add₀ hBq]
        congr 2; ring
      · simp only [h0, if_false]
        obtain ⟨v1, v2⟩ := setd_frac (K := (-exp + 2 + 1 - 1).toNat) h0
        apply h _ _ _ v2
        rw [v1, ← t1]
        have e : (((-exp + 2 + 1 - 1).toNat : ℕ) : ℤ) = 2 - exp := by omega
        rw [div_eq_mul_inv, ← zpow_natCast, e, ← zpow_neg]
        congr 2; ring
    · simp only [c1, if_false]
      apply h
      · have e : (((exp - 2).toNat : ℕ) : ℤ) = exp - 2 := by omega
        simp only [Q.toRat, Int.cast_one, div_one]
        push_cast
        rw [← zpow_natCast, e, t1]
      · exact ⟨by norm_num, by simp⟩
  intro n d hv hc
  cases s
  · simp only [Bool.false_eq_true, if_false, one_mul]
    exact ⟨hv, hc⟩
  · simp only [if_true]
    refine ⟨by simp only [Q.toRat] at hv ⊢; rw [← hv]; push_cast; ring, ?_⟩
    rw [canonical_iff] at hc ⊢; exact ⟨hc.1, hc.2.neg_left⟩

/-! ### mpq_get_d -/

/-- the quotient and exponent that mpq_get_d hands to mpn_get_d -/
def getDQuot (n d : ℕ) : ℕ × ℤ :=
  let nsize : Int := (limbs n : Nat)
  let dsize : Int := (limbs d : Nat)
  let zeros := 3 - (nsize - dsize + 1)
  let chop := max (-zeros) 0
  (n / B ^ chop.toNat * B ^ (zeros + chop).toNat / d, -zeros * 64)

theorem get_d_eq (src : Nat) (h : Heap) :
    get_d src h = if (h src).num = 0 then 0 else
      getDBits ((h src).num < 0) (getDQuot (h src).num.natAbs (h src).den.natAbs).1
        (getDQuot (h src).num.natAbs (h src).den.natAbs).2 := by
  unfold get_d getDQuot
  rfl

theorem getDQuot_spec {n d : ℕ} (hn : n ≠ 0) (hd : d ≠ 0) :
    (getDQuot n d).1 = ⌊(n : ℚ) / (d : ℚ) * (2 : ℚ) ^ (-(getDQuot n d).2)⌋₊ ∧ B ≤ (getDQuot n d).1 := by
  unfold getDQuot
  simp only []
  have ln := limbs_pos hn
  have ld := limbs_pos hd
  have hnl := limbs_lb hn
  have hdu := limbs_ub d
  have hdq : (d : ℚ) ≠ 0 := by exact_mod_cast hd
  rcases le_or_gt (0 : ℤ) (3 - (((limbs n : ℕ) : ℤ) - ((limbs d : ℕ) : ℤ) + 1)) with hz | hz
  · -- pad: zeros >= 0, chop = 0
    have hc : max (-(3 - (((limbs n : ℕ) : ℤ) - ((limbs d : ℕ) : ℤ) + 1))) 0 = 0 := by omega
    rw [hc]
    obtain ⟨z, hzz⟩ : ∃ z : ℕ, (3 - (((limbs n : ℕ) : ℤ) - ((limbs d : ℕ) : ℤ) + 1)) = (z : ℤ) := ⟨_, (Int.toNat_of_nonneg hz).symm⟩
    rw [hzz]
    simp only [Int.toNat_zero, pow_zero, Nat.div_one, add_zero, Int.toNat_natCast]
    constructor
    · rw [← Nat.floor_div_eq_div (K := ℚ)]
      congr 1
      rw [neg_mul, neg_neg, show ((z : ℤ) * 64) = ((64 * z : ℕ) : ℤ) by push_cast; ring, zpow_natCast]
      push_cast
      rw [B_cast_rat, ← zpow_natCast, ← zpow_natCast, ← zpow_mul]
      field_simp
      norm_cast
    · rw [Nat.le_div_iff_mul_le (Nat.pos_of_ne_zero hd)]
      have e : limbs n - 1 + z = limbs d + 1 := by omega
      calc B * d ≤ B * B ^ limbs d := Nat.mul_le_mul_left _ hdu.le
        _ = B ^ (limbs n - 1) * B ^ z := by rw [← pow_succ', ← pow_add]; congr 1; omega
        _ ≤ n * B ^ z := Nat.mul_le_mul_right _ hnl
  · -- chop: zeros < 0
    obtain ⟨c, hcc⟩ : ∃ c : ℕ, -(3 - (((limbs n : ℕ) : ℤ) - ((limbs d : ℕ) : ℤ) + 1)) = (c : ℤ) := ⟨_, (Int.toNat_of_nonneg (by omega)).symm⟩
    have hz2 : (3 - (((limbs n : ℕ) : ℤ) - ((limbs d : ℕ) : ℤ) + 1)) = -(c : ℤ) := by omega
    have hc : max (-(3 - (((limbs n : ℕ) : ℤ) - ((limbs d : ℕ) : ℤ) + 1))) 0 = (c : ℤ) := by omega
    rw [hc, hz2]
    simp only [neg_add_cancel, Int.toNat_zero, pow_zero, mul_one, Int.toNat_natCast, neg_neg]
    constructor
    · rw [Nat.div_div_eq_div_mul, ← Nat.floor_div_eq_div (K := ℚ)]
      congr 1
      rw [show ((c : ℤ) * 64) = ((64 * c : ℕ) : ℤ) by push_cast; ring, zpow_neg, zpow_natCast]
      push_cast
      rw [B_cast_rat, ← zpow_natCast, ← zpow_natCast, ← zpow_mul]
      field_simp
      norm_cast
    · rw [Nat.le_div_iff_mul_le (Nat.pos_of_ne_zero hd), Nat.le_div_iff_mul_le (Nat.pow_pos B_pos)]
      calc B * d * B ^ c ≤ B * B ^ limbs d * B ^ c :=
            Nat.mul_le_mul_right _ (Nat.mul_le_mul_left _ hdu.le)
        _ = B ^ (limbs n - 1) := by rw [← pow_succ', ← pow_add]; congr 1; omega
        _ ≤ n := hnl


/-- bit pattern of the double obtained by truncating the positive rational `x` toward zero, where `E` is
    the exponent of its leading bit (`2^E ≤ x < 2^(E+1)`) and `sgn` is the sign bit (0 or 2^63):
    infinity on overflow, exponent field `E+1023` and the truncated 53-bit mantissa without its hidden
    bit for normal numbers, the truncated multiple of 2^-1074 for denormals, +0.0 below that. -/
def truncDbl (sgn : ℕ) (x : ℚ) (E : ℤ) : ℕ :=
  if E ≥ 1024 then sgn + 2047 * 2 ^ 52
  else if E ≤ -1075 then 0
  else if E ≤ -1023 then sgn + ⌊x * (2 : ℚ) ^ (1074 : ℤ)⌋₊
  else sgn + (E + 1023).toNat * 2 ^ 52 + (⌊x * (2 : ℚ) ^ (52 - E)⌋₊ - 2 ^ 52)

theorem one_lt_two_q : (1 : ℚ) < 2 := by norm_num

theorem getDBits_trunc (neg : Bool) (q : ℕ) (exp : ℤ) (x : ℚ) (E : ℤ) (hx : 0 < x)
    (hq : q = ⌊x * (2 : ℚ) ^ (-exp)⌋₊) (hB : B ≤ q) (hE1 : (2 : ℚ) ^ E ≤ x) (hE2 : x < (2 : ℚ) ^ (E + 1)) :
    getDBits neg q exp = truncDbl (if neg then 2 ^ 63 else 0) x E := by
  have hq0 : q ≠ 0 := by have := B_pos; omega
  have hlb := bits_lb hq0
  have hub := bits_ub q
  have hnb : 65 ≤ bits q := by
    have : 2 ^ 64 < 2 ^ bits q := lt_of_le_of_lt (by rw [← B_eq_pow]; exact hB) hub
    have := (Nat.pow_lt_pow_iff_right (by norm_num : 1 < 2)).mp this
    omega
  -- position of the leading bit
  have hy0 : 0 ≤ x * (2 : ℚ) ^ (-exp) := by positivity
  have f1 : (q : ℚ) ≤ x * (2 : ℚ) ^ (-exp) := by rw [hq]; exact Nat.floor_le hy0
  have f2 : x * (2 : ℚ) ^ (-exp) < (q : ℚ) + 1 := by rw [hq]; exact Nat.lt_floor_add_one _
  have g1 : (2 : ℚ) ^ (((bits q - 1 : ℕ) : ℤ)) ≤ (q : ℚ) := by rw [zpow_natCast]; exact_mod_cast hlb
  have g2 : (q : ℚ) + 1 ≤ (2 : ℚ) ^ ((bits q : ℕ) : ℤ) := by rw [zpow_natCast]; exact_mod_cast hub
  have hpos : (0 : ℚ) < (2 : ℚ) ^ exp := by positivity
  have k1 : (2 : ℚ) ^ (((bits q - 1 : ℕ) : ℤ) + exp) ≤ x := by
    rw [zpow_add₀ two_ne]
    have := le_trans g1 f1
    rw [zpow_neg] at this
    calc (2 : ℚ) ^ ((bits q - 1 : ℕ) : ℤ) * 2 ^ exp ≤ x * ((2 : ℚ) ^ exp)⁻¹ * 2 ^ exp :=
          mul_le_mul_of_nonneg_right this hpos.le
      _ = x := by field_simp
  have k2 : x < (2 : ℚ) ^ (((bits q : ℕ) : ℤ) + exp) := by
    rw [zpow_add₀ two_ne]
    have := lt_of_lt_of_le f2 g2
    rw [zpow_neg] at this
    calc x = x * ((2 : ℚ) ^ exp)⁻¹ * 2 ^ exp := by field_simp
      _ < (2 : ℚ) ^ ((bits q : ℕ) : ℤ) * 2 ^ exp := mul_lt_mul_of_pos_right this hpos
  have hEeq : E = exp + ((bits q : ℕ) : ℤ) - 1 := by
    have a1 : E < ((bits q : ℕ) : ℤ) + exp :=
      (zpow_lt_zpow_iff_right₀ one_lt_two_q).mp (lt_of_le_of_lt hE1 k2)
    have a2 : ((bits q - 1 : ℕ) : ℤ) + exp < E + 1 :=
      (zpow_lt_zpow_iff_right₀ one_lt_two_q).mp (lt_of_le_of_lt k1 hE2)
    omega
  -- the 53-bit mantissa
  have hm0 : q * 2 ^ 53 / 2 ^ bits q = ⌊x * (2 : ℚ) ^ (52 - E)⌋₊ := by
    have e1 : 2 ^ bits q = 2 ^ (bits q - 53) * 2 ^ 53 := by rw [← pow_add]; congr 1; omega
    rw [e1, Nat.mul_div_mul_right _ _ (by positivity)]
    have hfl : q / 2 ^ (bits q - 53) = ⌊x * (2 : ℚ) ^ (-exp) / ((2 ^ (bits q - 53) : ℕ) : ℚ)⌋₊ := by
      rw [Nat.floor_div_natCast, ← hq]
    rw [hfl]
    congr 1
    rw [Nat.cast_pow, Nat.cast_ofNat, div_eq_mul_inv, ← zpow_natCast, ← zpow_neg, mul_assoc, ← zpow_add₀ two_ne]
    congr 2
    have : ((bits q - 53 : ℕ) : ℤ) = (bits q : ℤ) - 53 := by omega
    rw [this, hEeq]; ring
  have hm_lo : 2 ^ 52 ≤ q * 2 ^ 53 / 2 ^ bits q := by
    rw [Nat.le_div_iff_mul_le (by positivity)]
    calc 2 ^ 52 * 2 ^ bits q = 2 ^ (bits q - 1) * 2 ^ 53 := by rw [← pow_add, ← pow_add]; congr 1; omega
      _ ≤ q * 2 ^ 53 := Nat.mul_le_mul_right _ hlb
  have hm_hi : q * 2 ^ 53 / 2 ^ bits q < 2 ^ 53 := by
    rw [Nat.div_lt_iff_lt_mul (by positivity)]
    calc q * 2 ^ 53 < 2 ^ bits q * 2 ^ 53 := Nat.mul_lt_mul_of_pos_right hub (by positivity)
      _ = 2 ^ 53 * 2 ^ bits q := Nat.mul_comm _ _
  unfold getDBits truncDbl
  simp only []
  rw [← hEeq]
  by_cases c1 : E ≥ 1024
  · rw [if_pos c1, if_pos c1]
  rw [if_neg c1, if_neg c1]
  by_cases c2 : E ≤ -1023
  · rw [if_pos c2]
    by_cases c3 : E ≤ -1075
    · rw [if_pos c3, if_pos c3]
    · rw [if_neg c3, if_neg c3, if_pos c2, hm0, ← Nat.floor_div_natCast]
      congr 2
      rw [Nat.cast_pow, Nat.cast_ofNat, div_eq_mul_inv, ← zpow_natCast, ← zpow_neg, mul_assoc, ← zpow_add₀ two_ne]
      congr 2
      have : (((-1022 - E).toNat : ℕ) : ℤ) = -1022 - E := by omega
      rw [this]; ring
  · have c3 : ¬ E ≤ -1075 := by omega
    rw [if_neg c2, if_neg c3, if_neg c2]
    rw [← hm0]
    generalize q * 2 ^ 53 / 2 ^ bits q = m0 at *
    omega

end Mpir.Mpq
