/- FFT ring layer: mpir_fft_combine_limbs / mpir_fft_combine_bits — accumulation of Σ c_j·2^(j·bits). -/
import MpirProofs.Lemmas.FftRingSplit
namespace Mpir.Fft
open Mpir

/-! ### adding into a window of the destination -/

theorem onWin_parts (res : List Nat) (off len : Nat) (h : off + len ≤ res.length) :
    res = res.take off ++ sl res off (off + len) ++ res.drop (off + len) ∧
    (res.take off).length = off ∧ (sl res off (off + len)).length = len := by
  refine ⟨?_, by simp; omega, by unfold sl; simp; omega⟩
  unfold sl
  rw [Nat.add_sub_cancel_left, List.append_assoc, ← List.drop_drop, List.take_append_drop, List.take_append_drop]

/-- one accumulation step: `f` adds `T` into the window, `c` is the carry out of the window -/
theorem win_step (res : List Nat) (off len : Nat) (f : List Nat → List Nat) (T : Nat)
    (hres : Limbs res) (h : off + len ≤ res.length)
    (hf : (f (sl res off (off + len))).length = len ∧ Limbs (f (sl res off (off + len))) ∧
      ∃ c, val (f (sl res off (off + len))) + B ^ len * c = val (sl res off (off + len)) + T) :
    (onWin res off len f).length = res.length ∧ Limbs (onWin res off len f) ∧
    ∃ c, val (onWin res off len f) + B ^ (off + len) * c = val res + B ^ off * T := by
  obtain ⟨hparts, l1, l2⟩ := onWin_parts res off len h
  obtain ⟨fl, fL, c, fc⟩ := hf
  have hL : Limbs (res.take off) ∧ Limbs (res.drop (off + len)) := ⟨Limbs_take hres _, Limbs_drop hres _⟩
  refine ⟨?_, ?_, c, ?_⟩
  · unfold onWin; rw [List.length_append, List.length_append, fl, l1, List.length_drop]; omega
  · unfold onWin; exact Limbs_append.mpr ⟨Limbs_append.mpr ⟨hL.1, fL⟩, hL.2⟩
  · have e1 : val (onWin res off len f) = val (res.take off) + B ^ off * val (f (sl res off (off + len))) +
        B ^ (off + len) * val (res.drop (off + len)) := by
      unfold onWin; rw [val_append, val_append, List.length_append, l1, fl]
    have e2 : val res = val (res.take off) + B ^ off * val (sl res off (off + len)) +
        B ^ (off + len) * val (res.drop (off + len)) := by
      conv_lhs => rw [hparts]
      rw [val_append, val_append, List.length_append, l1, l2]
    rw [e1, e2, pow_add]
    zify at fc ⊢
    linear_combination (B : Int) ^ off * fc

theorem win_exact (res : List Nat) (off len : Nat) (f : List Nat → List Nat) (T : Nat)
    (hres : Limbs res) (h : off + len ≤ res.length)
    (hf : (f (sl res off (off + len))).length = len ∧ Limbs (f (sl res off (off + len))) ∧
      ∃ c, val (f (sl res off (off + len))) + B ^ len * c = val (sl res off (off + len)) + T)
    (hsmall : val res + B ^ off * T < B ^ (off + len)) :
    (onWin res off len f).length = res.length ∧ Limbs (onWin res off len f) ∧
    val (onWin res off len f) = val res + B ^ off * T := by
  obtain ⟨a, b, c, hc⟩ := win_step res off len f T hres h hf
  refine ⟨a, b, ?_⟩
  have hc0 : c = 0 := by
    by_contra hne
    have : B ^ (off + len) * 1 ≤ B ^ (off + len) * c := Nat.mul_le_mul_left _ (by omega)
    omega
  rw [hc0] at hc; omega

theorem win_end (res : List Nat) (off len : Nat) (f : List Nat → List Nat) (T : Nat)
    (hres : Limbs res) (h : off + len = res.length)
    (hf : (f (sl res off (off + len))).length = len ∧ Limbs (f (sl res off (off + len))) ∧
      ∃ c, val (f (sl res off (off + len))) + B ^ len * c = val (sl res off (off + len)) + T) :
    (onWin res off len f).length = res.length ∧ Limbs (onWin res off len f) ∧
    val (onWin res off len f) ≡ val res + B ^ off * T [MOD B ^ res.length] := by
  obtain ⟨a, b, c, hc⟩ := win_step res off len f T hres (by omega) hf
  refine ⟨a, b, ?_⟩
  rw [h] at hc
  have : val (onWin res off len f) + B ^ res.length * c ≡ val (onWin res off len f) [MOD B ^ res.length] := by
    unfold Nat.ModEq; rw [Nat.add_mul_mod_self_left]
  exact this.symm.trans (by rw [hc])

/-! ### the adders -/

theorem adder_add_n (w t : List Nat) (hw : Limbs w) (ht : Limbs t) (hl : w.length = t.length) :
    (add_n w t).1.length = w.length ∧ Limbs (add_n w t).1 ∧
    ∃ c, val (add_n w t).1 + B ^ w.length * c = val w + val t := by
  obtain ⟨a1, _, a3, a4⟩ := addNC_val w t 0 hw ht hl (by omega)
  exact ⟨a4, a3, _, by unfold add_n; omega⟩

theorem adder_add (w y : List Nat) (hw : Limbs w) (hy : Limbs y) (hl : y.length ≤ w.length) :
    (add w y).1.length = w.length ∧ Limbs (add w y).1 ∧
    ∃ c, val (add w y).1 + B ^ w.length * c = val w + val y := by
  obtain ⟨a1, _, a3, a4⟩ := add_val' w y hw hy hl
  exact ⟨a4, a3, _, a1⟩

/-! ### the loops of combine_bits -/

/-- coefficient buffers of ol+1 proper limbs -/
def CoeffsIn (ol : Nat) (cs : List (List Nat)) : Prop := ∀ c ∈ cs, c.length = ol + 1 ∧ Limbs c
/-- … whose value fits ol limbs (top limb zero): what the first loop needs so that no carry leaves a window -/
def CoeffsSmall (ol : Nat) (cs : List (List Nat)) : Prop := ∀ c ∈ cs, c.length = ol + 1 ∧ Limbs c ∧ val c < B ^ ol

theorem CoeffsSmall.toIn {ol : Nat} {cs : List (List Nat)} (h : CoeffsSmall ol cs) : CoeffsIn ol cs :=
  fun c hc => ⟨(h c hc).1, (h c hc).2.1⟩

theorem advance_spec (coeff topBits ptr shift : Nat) (_hc : 1 ≤ coeff) (ht : topBits < 64) (hs : shift < 64) :
    64 * (advance coeff topBits ptr shift).1 + (advance coeff topBits ptr shift).2 =
      64 * ptr + shift + (64 * (coeff - 1) + topBits) ∧
    (advance coeff topBits ptr shift).2 < 64 ∧ ptr ≤ (advance coeff topBits ptr shift).1 := by
  unfold advance; simp only
  split <;> simp only <;> omega

theorem combineBits2_cons (coeff topBits ol : Nat) (c : List Nat) (cs : List (List Nat)) (res : List Nat) (ptr shift : Nat) :
    combineBits2 coeff topBits ol (c :: cs) res ptr shift =
      if ptr < res.length then
        combineBits2 coeff topBits ol cs
          (if shift ≠ 0 then
            onWin res ptr (res.length - ptr) (fun w => (add_n w ((lshift (c.take (ol + 1)) shift).1.take (res.length - ptr))).1)
           else onWin res ptr (res.length - ptr) (fun w => (add_n w (c.take (res.length - ptr))).1))
          (advance coeff topBits ptr shift).1 (advance coeff topBits ptr shift).2
      else res := rfl

theorem two_pow_bitpos (ptr shift : Nat) : 2 ^ (64 * ptr + shift) = B ^ ptr * 2 ^ shift := by
  rw [pow_add, B_pow_two']

/-- the shifted coefficient `temp` (combine_bits.c:77, :95) -/
theorem lshift_coeff (c : List Nat) (ol shift : Nat) (hc : c.length = ol + 1) (hL : Limbs c) (hs : shift < 64) :
    (lshift (c.take (ol + 1)) shift).1.length = ol + 1 ∧ Limbs (lshift (c.take (ol + 1)) shift).1 ∧
    val (lshift (c.take (ol + 1)) shift).1 ≡ val c * 2 ^ shift [MOD B ^ (ol + 1)] ∧
    (val c < B ^ ol → val (lshift (c.take (ol + 1)) shift).1 = val c * 2 ^ shift) := by
  have e : c.take (ol + 1) = c := List.take_of_length_le (by omega)
  rw [e]
  obtain ⟨lv, lc, ll, ln⟩ := lshiftGo_val shift (by omega) c 0 hL (by positivity)
  unfold lshift
  rw [hc, Nat.add_zero] at lv
  rw [hc] at ln
  generalize (lshiftGo shift c 0).1 = t at *
  generalize (lshiftGo shift c 0).2 = out at *
  refine ⟨ln, ll, ?_, ?_⟩
  · have : val t + B ^ (ol + 1) * out ≡ val t [MOD B ^ (ol + 1)] := by
      unfold Nat.ModEq; rw [Nat.add_mul_mod_self_left]
    rw [lv] at this; exact this.symm
  · intro hsm
    have h2 : 2 ^ shift < B := by
      have : (2 : Nat) ^ shift < 2 ^ 64 := Nat.pow_lt_pow_right (by norm_num) hs
      exact this
    have hlt : val c * 2 ^ shift < B ^ ol * B := Nat.mul_lt_mul'' hsm h2
    rw [pow_succ] at lv
    have hout : out = 0 := by
      by_contra hne
      have : B ^ ol * B * 1 ≤ B ^ ol * B * out := Nat.mul_le_mul_left _ (Nat.one_le_iff_ne_zero.mpr hne)
      generalize B ^ ol * B = P at *
      generalize val c * 2 ^ shift = Q at *
      omega
    rw [hout, Nat.mul_zero, Nat.add_zero] at lv
    exact lv

theorem combineBits2_spec (coeff topBits ol : Nat) (hc : 1 ≤ coeff) (ht : topBits < 64) :
    ∀ (cs : List (List Nat)) (res : List Nat) (ptr shift : Nat), Limbs res → shift < 64 → CoeffsIn ol cs →
      res.length ≤ ptr + ol + 1 →
      (combineBits2 coeff topBits ol cs res ptr shift).length = res.length ∧
      Limbs (combineBits2 coeff topBits ol cs res ptr shift) ∧
      val (combineBits2 coeff topBits ol cs res ptr shift) ≡
        val res + 2 ^ (64 * ptr + shift) * polyEval (64 * (coeff - 1) + topBits) cs [MOD B ^ res.length]
  | [], res, ptr, shift, hr, _, _, _ => by
    have e : combineBits2 coeff topBits ol [] res ptr shift = res := rfl
    rw [e]; exact ⟨rfl, hr, by simp [polyEval]; exact Nat.ModEq.refl _⟩
  | c :: cs, res, ptr, shift, hr, hs, hcs, hwin => by
    rw [combineBits2_cons]
    have ⟨hcl, hcL⟩ := hcs c (List.mem_cons_self ..)
    have hcs' : CoeffsIn ol cs := fun d hd => hcs d (List.mem_cons_of_mem _ hd)
    obtain ⟨av, as, ap⟩ := advance_spec coeff topBits ptr shift hc ht hs
    by_cases hp : ptr < res.length
    · rw [if_pos hp]
      have hm : ptr + (res.length - ptr) = res.length := by omega
      have hwl : (sl res ptr (ptr + (res.length - ptr))).length = res.length - ptr :=
        (onWin_parts res ptr _ (by omega)).2.2
      have hwL : Limbs (sl res ptr (ptr + (res.length - ptr))) := by
        unfold sl; exact Limbs_take (Limbs_drop hr _) _
      -- the step, in both forms: the new destination res' with val res' ≡ val res + 2^bitpos · val c
      have hstep : ∃ res', (if shift ≠ 0 then
            onWin res ptr (res.length - ptr) (fun w => (add_n w ((lshift (c.take (ol + 1)) shift).1.take (res.length - ptr))).1)
           else onWin res ptr (res.length - ptr) (fun w => (add_n w (c.take (res.length - ptr))).1)) = res' ∧
          res'.length = res.length ∧ Limbs res' ∧
          val res' ≡ val res + 2 ^ (64 * ptr + shift) * val c [MOD B ^ res.length] := by
        by_cases hs0 : shift = 0
        · subst hs0
          simp only [ne_eq, not_true_eq_false, ↓reduceIte]
          have htl : (c.take (res.length - ptr)).length = res.length - ptr := by simp; omega
          obtain ⟨r1, r2, r3⟩ := win_end res ptr (res.length - ptr)
            (fun w => (add_n w (c.take (res.length - ptr))).1) (val (c.take (res.length - ptr))) hr hm
            (by have := adder_add_n _ (c.take (res.length - ptr)) hwL (Limbs_take hcL _) (by rw [hwl, htl])
                rw [hwl] at this; exact this)
          refine ⟨_, rfl, r1, r2, r3.trans ?_⟩
          apply Nat.ModEq.add_left
          rw [Nat.add_zero, B_pow_two' ptr, val_take_mod _ hcL]
          have := (Nat.mod_modEq (val c) (B ^ (res.length - ptr))).mul_left' (2 ^ (64 * ptr))
          rw [← B_pow_two' ptr, ← pow_add, hm] at this
          rw [← B_pow_two' ptr]; exact this
        · simp only [hs0, ne_eq, not_false_eq_true, ↓reduceIte]
          obtain ⟨tl, tL, tv, _⟩ := lshift_coeff c ol shift hcl hcL hs
          have htl : ((lshift (c.take (ol + 1)) shift).1.take (res.length - ptr)).length = res.length - ptr := by
            simp; omega
          obtain ⟨r1, r2, r3⟩ := win_end res ptr (res.length - ptr)
            (fun w => (add_n w ((lshift (c.take (ol + 1)) shift).1.take (res.length - ptr))).1)
            (val ((lshift (c.take (ol + 1)) shift).1.take (res.length - ptr))) hr hm
            (by have := adder_add_n _ _ hwL (Limbs_take tL (res.length - ptr)) (by rw [hwl, htl])
                rw [hwl] at this; exact this)
          refine ⟨_, rfl, r1, r2, r3.trans ?_⟩
          apply Nat.ModEq.add_left
          rw [val_take_mod _ tL, two_pow_bitpos, Nat.mul_assoc]
          have hdvd : B ^ (res.length - ptr) ∣ B ^ (ol + 1) := pow_dvd_pow _ (by omega)
          have m1 := (Nat.mod_modEq (val (lshift (c.take (ol + 1)) shift).1) (B ^ (res.length - ptr)))
          have m2 := (m1.trans (tv.of_dvd hdvd)).mul_left' (B ^ ptr)
          rw [← pow_add, hm, Nat.mul_comm (val c)] at m2
          exact m2
      obtain ⟨res', e, l', L', v'⟩ := hstep
      rw [e]
      obtain ⟨i1, i2, i3⟩ := combineBits2_spec coeff topBits ol hc ht cs res' (advance coeff topBits ptr shift).1
        (advance coeff topBits ptr shift).2 L' as hcs' (by rw [l']; omega)
      rw [l'] at i1 i3
      refine ⟨i1, i2, i3.trans ?_⟩
      rw [av, polyEval, pow_add]
      have := v'.add_right (2 ^ (64 * ptr + shift) * 2 ^ (64 * (coeff - 1) + topBits) * polyEval (64 * (coeff - 1) + topBits) cs)
      refine this.trans ?_
      rw [Nat.mul_add, Nat.add_assoc, Nat.mul_assoc]
    · rw [if_neg hp]
      refine ⟨rfl, hr, ?_⟩
      have hdvd : B ^ res.length ∣ 2 ^ (64 * ptr + shift) := by
        rw [B_pow_two']; exact pow_dvd_pow _ (by omega)
      have : 2 ^ (64 * ptr + shift) * polyEval (64 * (coeff - 1) + topBits) (c :: cs) ≡ 0 [MOD B ^ res.length] :=
        (Nat.modEq_zero_iff_dvd.mpr (Dvd.dvd.mul_right hdvd _))
      exact ((Nat.ModEq.refl (val res)).add this).symm

theorem combineBits1_cons (coeff topBits ol : Nat) (c : List Nat) (cs : List (List Nat)) (res : List Nat) (ptr shift : Nat) :
    combineBits1 coeff topBits ol (c :: cs) res ptr shift =
      if ptr + ol + 1 < res.length then
        combineBits1 coeff topBits ol cs
          (if shift ≠ 0 then
            onWin res ptr (ol + 1) (fun w => (add_n w (lshift (c.take (ol + 1)) shift).1).1)
           else onWin res ptr (ol + 1) (fun w => (add w (c.take ol)).1))
          (advance coeff topBits ptr shift).1 (advance coeff topBits ptr shift).2
      else combineBits2 coeff topBits ol (c :: cs) res ptr shift := rfl

/-- the sum so far and the new term both lie below 2^(bitpos + 64·ol): no carry leaves the window, and the
    invariant holds again one coefficient further -/
theorem acc_bound (v T ptr shift ol bits : Nat) (hs : shift < 64) (hb : 1 ≤ bits)
    (hv : v < 2 ^ (64 * ptr + shift + 64 * ol)) (hT : T < 2 ^ (64 * ol)) :
    v + 2 ^ (64 * ptr + shift) * T < B ^ (ptr + (ol + 1)) ∧
    v + 2 ^ (64 * ptr + shift) * T < 2 ^ (64 * ptr + shift + bits + 64 * ol) := by
  have h1 : 2 ^ (64 * ptr + shift) * T < 2 ^ (64 * ptr + shift + 64 * ol) := by
    rw [pow_add 2 (64 * ptr + shift) (64 * ol)]; exact Nat.mul_lt_mul_of_pos_left hT (Nat.two_pow_pos _)
  have h2 : v + 2 ^ (64 * ptr + shift) * T < 2 ^ (64 * ptr + shift + 64 * ol + 1) := by
    rw [pow_succ]; linarith
  constructor
  · rw [B_pow_two']
    exact lt_of_lt_of_le h2 (Nat.pow_le_pow_right (by norm_num) (by omega))
  · exact lt_of_lt_of_le h2 (Nat.pow_le_pow_right (by norm_num) (by omega))

theorem combineBits1_spec (coeff topBits ol : Nat) (hc : 1 ≤ coeff) (ht : topBits < 64)
    (hb : 1 ≤ 64 * (coeff - 1) + topBits) :
    ∀ (cs : List (List Nat)) (res : List Nat) (ptr shift : Nat), Limbs res → shift < 64 → CoeffsSmall ol cs →
      val res < 2 ^ (64 * ptr + shift + 64 * ol) →
      (combineBits1 coeff topBits ol cs res ptr shift).length = res.length ∧
      Limbs (combineBits1 coeff topBits ol cs res ptr shift) ∧
      val (combineBits1 coeff topBits ol cs res ptr shift) ≡
        val res + 2 ^ (64 * ptr + shift) * polyEval (64 * (coeff - 1) + topBits) cs [MOD B ^ res.length]
  | [], res, ptr, shift, hr, _, _, _ => by
    have e : combineBits1 coeff topBits ol [] res ptr shift = res := rfl
    rw [e]; exact ⟨rfl, hr, by simp [polyEval]; exact Nat.ModEq.refl _⟩
  | c :: cs, res, ptr, shift, hr, hs, hcs, hinv => by
    rw [combineBits1_cons]
    have ⟨hcl, hcL, hcv⟩ := hcs c (List.mem_cons_self ..)
    have hcs' : CoeffsSmall ol cs := fun d hd => hcs d (List.mem_cons_of_mem _ hd)
    obtain ⟨av, as, ap⟩ := advance_spec coeff topBits ptr shift hc ht hs
    by_cases hp : ptr + ol + 1 < res.length
    · rw [if_pos hp]
      have hwl : (sl res ptr (ptr + (ol + 1))).length = ol + 1 := (onWin_parts res ptr _ (by omega)).2.2
      have hwL : Limbs (sl res ptr (ptr + (ol + 1))) := by
        unfold sl; exact Limbs_take (Limbs_drop hr _) _
      have hcv' : val c < 2 ^ (64 * ol) := by rw [← B_pow_two']; exact hcv
      obtain ⟨ab1, ab2⟩ := acc_bound (val res) (val c) ptr shift ol _ hs hb hinv hcv'
      have hstep : ∃ res', (if shift ≠ 0 then
            onWin res ptr (ol + 1) (fun w => (add_n w (lshift (c.take (ol + 1)) shift).1).1)
           else onWin res ptr (ol + 1) (fun w => (add w (c.take ol)).1)) = res' ∧
          res'.length = res.length ∧ Limbs res' ∧
          val res' = val res + 2 ^ (64 * ptr + shift) * val c := by
        by_cases hs0 : shift = 0
        · subst hs0
          simp only [ne_eq, not_true_eq_false, ↓reduceIte]
          have htv : val (c.take ol) = val c := by
            rw [val_take_mod _ hcL]; exact Nat.mod_eq_of_lt hcv
          have e0 : 2 ^ (64 * ptr + 0) = B ^ ptr := by rw [Nat.add_zero, B_pow_two']
          rw [e0] at ab1 ⊢
          obtain ⟨r1, r2, r3⟩ := win_exact res ptr (ol + 1) (fun w => (add w (c.take ol)).1) (val (c.take ol)) hr
            (by omega)
            (by have := adder_add _ (c.take ol) hwL (Limbs_take hcL _) (by rw [hwl]; simp)
                rw [hwl] at this; exact this)
            (by rw [htv]; exact ab1)
          exact ⟨_, rfl, r1, r2, by rw [r3, htv]⟩
        · simp only [hs0, ne_eq, not_false_eq_true, ↓reduceIte]
          obtain ⟨tl, tL, _, tv⟩ := lshift_coeff c ol shift hcl hcL hs
          have tv' := tv hcv
          have e0 : 2 ^ (64 * ptr + shift) * val c = B ^ ptr * val (lshift (c.take (ol + 1)) shift).1 := by
            rw [tv', two_pow_bitpos]; ring
          rw [e0] at ab1 ⊢
          obtain ⟨r1, r2, r3⟩ := win_exact res ptr (ol + 1) (fun w => (add_n w (lshift (c.take (ol + 1)) shift).1).1)
            (val (lshift (c.take (ol + 1)) shift).1) hr (by omega)
            (by have := adder_add_n _ _ hwL tL (by rw [hwl, tl])
                rw [hwl] at this; exact this)
            ab1
          exact ⟨_, rfl, r1, r2, r3⟩
      obtain ⟨res', e, l', L', v'⟩ := hstep
      rw [e]
      obtain ⟨i1, i2, i3⟩ := combineBits1_spec coeff topBits ol hc ht hb cs res' (advance coeff topBits ptr shift).1
        (advance coeff topBits ptr shift).2 L' as hcs' (by rw [av, v']; exact ab2)
      rw [l'] at i1 i3
      refine ⟨i1, i2, i3.trans ?_⟩
      rw [av, polyEval, pow_add, v', Nat.mul_add, Nat.add_assoc, Nat.mul_assoc]
    · rw [if_neg hp]
      exact combineBits2_spec coeff topBits ol hc ht (c :: cs) res ptr shift hr hs hcs.toIn (by omega)

/-! ### the loops of combine_limbs -/

theorem combineLimbs2_cons (coeff ol : Nat) (c : List Nat) (cs : List (List Nat)) (res : List Nat) (skip : Nat) :
    combineLimbs2 coeff ol (c :: cs) res skip =
      if skip < res.length then
        combineLimbs2 coeff ol cs
          (onWin res skip (res.length - skip) (fun w => (add w (c.take (min (res.length - skip) ol))).1)) (skip + coeff)
      else res := rfl

theorem combineLimbs1_cons (coeff ol : Nat) (c : List Nat) (cs : List (List Nat)) (res : List Nat) (skip : Nat) :
    combineLimbs1 coeff ol (c :: cs) res skip =
      if skip + ol + 1 ≤ res.length then
        combineLimbs1 coeff ol cs (onWin res skip (ol + 1) (fun w => (add w (c.take ol)).1)) (skip + coeff)
      else combineLimbs2 coeff ol (c :: cs) res skip := rfl

theorem combineLimbs2_spec (coeff ol : Nat) :
    ∀ (cs : List (List Nat)) (res : List Nat) (skip : Nat), Limbs res → CoeffsIn ol cs →
      res.length ≤ skip + ol →
      (combineLimbs2 coeff ol cs res skip).length = res.length ∧
      Limbs (combineLimbs2 coeff ol cs res skip) ∧
      val (combineLimbs2 coeff ol cs res skip) ≡
        val res + B ^ skip * polyEval (64 * coeff) cs [MOD B ^ res.length]
  | [], res, skip, hr, _, _ => by
    have e : combineLimbs2 coeff ol [] res skip = res := rfl
    rw [e]; exact ⟨rfl, hr, by simp [polyEval]; exact Nat.ModEq.refl _⟩
  | c :: cs, res, skip, hr, hcs, hwin => by
    rw [combineLimbs2_cons]
    have ⟨hcl, hcL⟩ := hcs c (List.mem_cons_self ..)
    have hcs' : CoeffsIn ol cs := fun d hd => hcs d (List.mem_cons_of_mem _ hd)
    by_cases hp : skip < res.length
    · rw [if_pos hp]
      have hm : skip + (res.length - skip) = res.length := by omega
      have hmin : min (res.length - skip) ol = res.length - skip := by omega
      rw [hmin]
      have hwl : (sl res skip (skip + (res.length - skip))).length = res.length - skip :=
        (onWin_parts res skip _ (by omega)).2.2
      have hwL : Limbs (sl res skip (skip + (res.length - skip))) := by
        unfold sl; exact Limbs_take (Limbs_drop hr _) _
      have htl : (c.take (res.length - skip)).length = res.length - skip := by simp; omega
      obtain ⟨r1, r2, r3⟩ := win_end res skip (res.length - skip)
        (fun w => (add w (c.take (res.length - skip))).1) (val (c.take (res.length - skip))) hr hm
        (by have := adder_add _ (c.take (res.length - skip)) hwL (Limbs_take hcL _) (by rw [hwl, htl])
            rw [hwl] at this; exact this)
      obtain ⟨i1, i2, i3⟩ := combineLimbs2_spec coeff ol cs _ (skip + coeff) r2 hcs' (by rw [r1]; omega)
      rw [r1] at i1 i3
      refine ⟨i1, i2, i3.trans ?_⟩
      have hv : val (onWin res skip (res.length - skip) (fun w => (add w (c.take (res.length - skip))).1)) ≡
          val res + B ^ skip * val c [MOD B ^ res.length] := by
        refine r3.trans (Nat.ModEq.add_left _ ?_)
        rw [val_take_mod _ hcL]
        have := (Nat.mod_modEq (val c) (B ^ (res.length - skip))).mul_left' (B ^ skip)
        rw [← pow_add, hm] at this; exact this
      rw [polyEval, pow_add, ← B_pow_two' coeff, Nat.mul_add, ← Nat.add_assoc, ← Nat.mul_assoc]
      exact hv.add_right _
    · rw [if_neg hp]
      refine ⟨rfl, hr, ?_⟩
      have hdvd : B ^ res.length ∣ B ^ skip := pow_dvd_pow _ (by omega)
      have : B ^ skip * polyEval (64 * coeff) (c :: cs) ≡ 0 [MOD B ^ res.length] :=
        (Nat.modEq_zero_iff_dvd.mpr (Dvd.dvd.mul_right hdvd _))
      exact ((Nat.ModEq.refl (val res)).add this).symm

theorem combineLimbs1_spec (coeff ol : Nat) (hc : 1 ≤ coeff) :
    ∀ (cs : List (List Nat)) (res : List Nat) (skip : Nat), Limbs res → CoeffsSmall ol cs →
      val res < 2 ^ (64 * skip + 0 + 64 * ol) →
      (combineLimbs1 coeff ol cs res skip).length = res.length ∧
      Limbs (combineLimbs1 coeff ol cs res skip) ∧
      val (combineLimbs1 coeff ol cs res skip) ≡
        val res + B ^ skip * polyEval (64 * coeff) cs [MOD B ^ res.length]
  | [], res, skip, hr, _, _ => by
    have e : combineLimbs1 coeff ol [] res skip = res := rfl
    rw [e]; exact ⟨rfl, hr, by simp [polyEval]; exact Nat.ModEq.refl _⟩
  | c :: cs, res, skip, hr, hcs, hinv => by
    rw [combineLimbs1_cons]
    have ⟨hcl, hcL, hcv⟩ := hcs c (List.mem_cons_self ..)
    have hcs' : CoeffsSmall ol cs := fun d hd => hcs d (List.mem_cons_of_mem _ hd)
    by_cases hp : skip + ol + 1 ≤ res.length
    · rw [if_pos hp]
      have hwl : (sl res skip (skip + (ol + 1))).length = ol + 1 := (onWin_parts res skip _ (by omega)).2.2
      have hwL : Limbs (sl res skip (skip + (ol + 1))) := by
        unfold sl; exact Limbs_take (Limbs_drop hr _) _
      have hcv' : val c < 2 ^ (64 * ol) := by rw [← B_pow_two']; exact hcv
      obtain ⟨ab1, ab2⟩ := acc_bound (val res) (val c) skip 0 ol (64 * coeff) (by norm_num) (by omega) hinv hcv'
      have htv : val (c.take ol) = val c := by
        rw [val_take_mod _ hcL]; exact Nat.mod_eq_of_lt hcv
      have e0 : 2 ^ (64 * skip + 0) = B ^ skip := by rw [Nat.add_zero, B_pow_two']
      rw [e0] at ab1 ab2
      obtain ⟨r1, r2, r3⟩ := win_exact res skip (ol + 1) (fun w => (add w (c.take ol)).1) (val (c.take ol)) hr
        (by omega)
        (by have := adder_add _ (c.take ol) hwL (Limbs_take hcL _) (by rw [hwl]; simp)
            rw [hwl] at this; exact this)
        (by rw [htv]; exact ab1)
      rw [htv] at r3
      obtain ⟨i1, i2, i3⟩ := combineLimbs1_spec coeff ol hc cs _ (skip + coeff) r2 hcs'
        (by rw [r3]; refine lt_of_lt_of_eq ab2 ?_; congr 1; ring)
      rw [r1] at i1 i3
      refine ⟨i1, i2, i3.trans ?_⟩
      rw [r3, polyEval, pow_add, ← B_pow_two' coeff, Nat.mul_add, ← Nat.add_assoc, ← Nat.mul_assoc]
    · rw [if_neg hp]
      exact combineLimbs2_spec coeff ol (c :: cs) res skip hr hcs.toIn (by omega)

/-- mpir_fft_combine_bits into a zeroed destination: Σ c_j·2^(j·bits) truncated to the destination length,
    for coefficients whose value fits ol limbs -/
theorem combine_bits_spec (res : List Nat) (cs : List (List Nat)) (bits ol : Nat) (hr : Limbs res)
    (hz : val res = 0) (hb : 1 ≤ bits) (hcs : CoeffsSmall ol cs) :
    (combine_bits res cs bits ol).length = res.length ∧ Limbs (combine_bits res cs bits ol) ∧
    val (combine_bits res cs bits ol) = polyEval bits cs % B ^ res.length := by
  have hdm := Nat.div_add_mod bits 64
  have hinv : val res < 2 ^ (64 * 0 + 0 + 64 * ol) := by rw [hz]; exact Nat.two_pow_pos _
  have fin : ∀ R : List Nat, R.length = res.length → Limbs R →
      val R ≡ val res + 1 * polyEval bits cs [MOD B ^ res.length] → val R = polyEval bits cs % B ^ res.length := by
    intro R hl hL hm
    rw [hz, Nat.zero_add, Nat.one_mul] at hm
    have := val_lt R hL; rw [hl] at this
    rw [← Nat.mod_eq_of_lt this]; exact hm
  unfold combine_bits
  by_cases ht : bits % 64 = 0
  · simp only [ht, ↓reduceIte]
    have hbits : bits = 64 * (bits / 64) := by omega
    unfold combine_limbs
    obtain ⟨h1, h2, h3⟩ := combineLimbs1_spec (bits / 64) ol (by omega) cs res 0 hr hcs hinv
    rw [← hbits, pow_zero] at h3
    exact ⟨h1, h2, fin _ h1 h2 h3⟩
  · simp only [ht, ↓reduceIte]
    have hlt : bits % 64 < 64 := Nat.mod_lt _ (by norm_num)
    have hbits : 64 * (bits / 64 + 1 - 1) + bits % 64 = bits := by omega
    obtain ⟨h1, h2, h3⟩ := combineBits1_spec (bits / 64 + 1) (bits % 64) ol (by omega) hlt (by omega) cs res 0 0 hr
      (by norm_num) hcs hinv
    rw [hbits] at h3
    simp only [Nat.mul_zero, Nat.add_zero, pow_zero] at h3
    exact ⟨h1, h2, fin _ h1 h2 h3⟩

/-! ### round trip -/

theorem val_inj : ∀ (a b : List Nat), Limbs a → Limbs b → a.length = b.length → val a = val b → a = b
  | [], [], _, _, _, _ => rfl
  | [], _ :: _, _, _, h, _ => by simp at h
  | _ :: _, [], _, _, h, _ => by simp at h
  | x :: xs, y :: ys, ha, hb, hl, hv => by
    have ⟨hx, hxs⟩ := Limbs_cons.mp ha
    have ⟨hy, hys⟩ := Limbs_cons.mp hb
    simp only [val_cons] at hv
    have e1 : x = y := by
      have h1 := congrArg (· % B) hv
      simp only [Nat.add_mul_mod_self_left, Nat.mod_eq_of_lt hx, Nat.mod_eq_of_lt hy] at h1
      exact h1
    subst e1
    have e2 : val xs = val ys := by
      have : B * val xs = B * val ys := by omega
      exact Nat.eq_of_mul_eq_mul_left B_pos this
    rw [val_inj xs ys hxs hys (by simpa using hl) e2]

theorem coeffsSmall_of_OK {bits ol : Nat} {cs : List (List Nat)} (h : CoeffsOK bits ol cs) (hb : bits ≤ 64 * ol) :
    CoeffsSmall ol cs := fun c hc =>
  ⟨(h c hc).1, (h c hc).2.1, lt_of_lt_of_le (h c hc).2.2 (by rw [B_pow_two']; exact Nat.pow_le_pow_right (by norm_num) hb)⟩

/-- splitting and recombining into a zeroed destination of the same length is the identity -/
theorem split_combine (x : List Nat) (bits ol : Nat) (hx : Limbs x) (hn : 1 ≤ x.length) (hb : 1 ≤ bits)
    (hol : bits ≤ 64 * ol) :
    combine_bits (List.replicate x.length 0) (split_bits x bits ol) bits ol = x := by
  obtain ⟨s1, s2, _⟩ := split_bits_spec x bits ol hx hn hb (by omega)
  have hz : Limbs (List.replicate x.length 0) := Limbs_replicate_zero _
  obtain ⟨c1, c2, c3⟩ := combine_bits_spec (List.replicate x.length 0) (split_bits x bits ol) bits ol hz
    (val_replicate_zero _) hb (coeffsSmall_of_OK s2 hol)
  simp only [List.length_replicate] at c1 c3
  apply val_inj _ _ c2 hx c1
  rw [c3, s1]; exact Nat.mod_eq_of_lt (val_lt x hx)

end Mpir.Fft
