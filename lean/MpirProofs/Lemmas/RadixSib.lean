/-
  C06 — MPN_SIZEINBASE for every operand size (no 2^24-bit restriction).
  * rigorous lower/upper bounds of huge powers `b^u` as `m·2^e` with a truncated mantissa (`powLo`, `powHi`):
    the kernel can then decide `2^v < b^u` and `b^p ≤ 2^q` for exponents of 2^53 .. 2^128 with 256-bit numbers;
  * with them: the binary64 table constant c_b = M/2^k is certified ABOVE log_b 2 (`2^(2^k) < b^M`), and
    log_b 2 is bracketed from below to 128 bits (`b^p ≤ 2^(2^128)`);
  * the two halves of the sizeinbase claim for a bit count `t`, `r = ⌊RNE(RNE(t)·c)⌋ + 1`:
      A (never too small)        2^t ≤ b^r               — every t ≤ 2^53 + 20,
      B (at most one too large)  b^(r-2) ≤ 2^(t-1)       — every t ≤ 2 626 805 675 765 606 (≈ 2^51.2).
-/
import MpirProofs.Lemmas.Radix
namespace Mpir.Radix
open Mpir

/-! ### powers with a truncated mantissa -/

/-- number of low bits to drop so that about `P` significant bits of `m` remain (`bit length - P`).  Any value
    would be sound; this one avoids `Nat.log2` of a long number (not accelerated in the kernel): in the steady
    state of `powLo`/`powHi` the product has between 2P-8 and 2P+6 bits, so its top part is a short number. -/
def truncShift (P m : Nat) : Nat :=
  let hi := m >>> (2 * P - 8)
  if hi ≠ 0 then P - 8 + Nat.log2 hi + 1
  else
    let mid := m >>> P
    if mid = 0 then 0 else Nat.log2 mid + 1

/-- keep at most `P` significant bits of `m`, rounding down: `m·2^e ≥ m'·2^e'` -/
def truncLo (P m e : Nat) : Nat × Nat :=
  let s := truncShift P m
  (m >>> s, e + s)

/-- keep at most `P + 1` significant bits of `m`, rounding up: `m·2^e ≤ m'·2^e'` -/
def truncHi (P m e : Nat) : Nat × Nat :=
  let s := truncShift P m
  if s = 0 then (m, e) else ((m >>> s) + 1, e + s)

theorem truncLo_le (P m e : Nat) : (truncLo P m e).1 * 2 ^ (truncLo P m e).2 ≤ m * 2 ^ e := by
  unfold truncLo
  simp only
  generalize truncShift P m = s
  rw [Nat.shiftRight_eq_div_pow, Nat.add_comm e s, pow_add, ← Nat.mul_assoc]
  exact Nat.mul_le_mul_right _ (Nat.div_mul_le_self m (2 ^ s))

theorem truncHi_ge (P m e : Nat) : m * 2 ^ e ≤ (truncHi P m e).1 * 2 ^ (truncHi P m e).2 := by
  unfold truncHi
  simp only
  generalize truncShift P m = s
  split
  · exact le_refl _
  · rw [Nat.shiftRight_eq_div_pow, Nat.add_comm e s, pow_add, ← Nat.mul_assoc]
    apply Nat.mul_le_mul_right
    have h1 := Nat.div_add_mod m (2 ^ s)
    have h2 := Nat.mod_lt m (Nat.pow_pos (n := s) (by omega : 0 < 2))
    rw [Nat.add_mul, Nat.one_mul, Nat.mul_comm]
    omega

/-- `b^u ≥ m·2^e`, by binary exponentiation on `f` bits of `u` with the mantissa cut to `P` bits -/
def powLo (P b : Nat) : Nat → Nat → Nat × Nat
  | 0, _ => (1, 0)
  | f + 1, u =>
      let r := powLo P b f (u / 2)
      truncLo P (r.1 * r.1 * (if u % 2 = 1 then b else 1)) (2 * r.2)

/-- `b^u ≤ m·2^e` -/
def powHi (P b : Nat) : Nat → Nat → Nat × Nat
  | 0, _ => (1, 0)
  | f + 1, u =>
      let r := powHi P b f (u / 2)
      truncHi P (r.1 * r.1 * (if u % 2 = 1 then b else 1)) (2 * r.2)

theorem sq_step (b u : Nat) : (b ^ (u / 2)) ^ 2 * (if u % 2 = 1 then b else 1) = b ^ u := by
  have hu : u = 2 * (u / 2) + u % 2 := by omega
  have hc : (if u % 2 = 1 then b else 1) = b ^ (u % 2) := by
    rcases Nat.mod_two_eq_zero_or_one u with h | h <;> simp [h]
  rw [hc]
  conv_rhs => rw [hu, pow_add, pow_mul']

theorem powLo_le (P b : Nat) : ∀ f u, u < 2 ^ f → (powLo P b f u).1 * 2 ^ (powLo P b f u).2 ≤ b ^ u
  | 0, u, h => by
      have : u = 0 := by simpa using h
      subst this; simp [powLo]
  | f + 1, u, h => by
      have ih := powLo_le P b f (u / 2) (by rw [pow_succ] at h; omega)
      simp only [powLo]
      refine le_trans (truncLo_le _ _ _) ?_
      generalize powLo P b f (u / 2) = r at *
      rw [← sq_step b u]
      calc r.1 * r.1 * (if u % 2 = 1 then b else 1) * 2 ^ (2 * r.2)
          = (r.1 * 2 ^ r.2) ^ 2 * (if u % 2 = 1 then b else 1) := by rw [pow_mul']; ring
        _ ≤ (b ^ (u / 2)) ^ 2 * (if u % 2 = 1 then b else 1) :=
            Nat.mul_le_mul_right _ (Nat.pow_le_pow_left ih 2)

theorem powHi_ge (P b : Nat) : ∀ f u, u < 2 ^ f → b ^ u ≤ (powHi P b f u).1 * 2 ^ (powHi P b f u).2
  | 0, u, h => by
      have : u = 0 := by simpa using h
      subst this; simp [powHi]
  | f + 1, u, h => by
      have ih := powHi_ge P b f (u / 2) (by rw [pow_succ] at h; omega)
      simp only [powHi]
      refine le_trans ?_ (truncHi_ge _ _ _)
      generalize powHi P b f (u / 2) = r at *
      rw [← sq_step b u]
      calc (b ^ (u / 2)) ^ 2 * (if u % 2 = 1 then b else 1)
          ≤ (r.1 * 2 ^ r.2) ^ 2 * (if u % 2 = 1 then b else 1) :=
            Nat.mul_le_mul_right _ (Nat.pow_le_pow_left ih 2)
        _ = r.1 * r.1 * (if u % 2 = 1 then b else 1) * 2 ^ (2 * r.2) := by rw [pow_mul']; ring

/-- decides (soundly, not completely) `2^v < b^u` for `u < 2^f` -/
def powGt (P b f u v : Nat) : Bool :=
  let r := powLo P b f u
  decide (u < 2 ^ f) &&
    (if r.2 ≤ v then decide (v - r.2 ≤ 2 * P) && decide (2 ^ (v - r.2) < r.1) else decide (0 < r.1))

/-- decides (soundly) `b^p ≤ 2^q` for `p < 2^f` -/
def powLe (P b f p q : Nat) : Bool :=
  let r := powHi P b f p
  decide (p < 2 ^ f) && decide (r.2 ≤ q) && decide (q - r.2 ≤ 2 * P) && decide (r.1 ≤ 2 ^ (q - r.2))

/-- decides (soundly) `b^p < 2^q` for `p < 2^f` -/
def powLt (P b f p q : Nat) : Bool :=
  let r := powHi P b f p
  decide (p < 2 ^ f) && decide (r.2 ≤ q) && decide (q - r.2 ≤ 2 * P) && decide (r.1 < 2 ^ (q - r.2))

theorem powGt_sound {P b f u v : Nat} (h : powGt P b f u v = true) : 2 ^ v < b ^ u := by
  unfold powGt at h
  simp only [Bool.and_eq_true, decide_eq_true_eq] at h
  obtain ⟨hu, h2⟩ := h
  have hle := powLo_le P b f u hu
  generalize powLo P b f u = r at *
  split at h2
  · rename_i he
    simp only [Bool.and_eq_true, decide_eq_true_eq] at h2
    calc 2 ^ v = 2 ^ (v - r.2) * 2 ^ r.2 := by rw [← pow_add]; congr 1; omega
      _ < r.1 * 2 ^ r.2 := Nat.mul_lt_mul_of_pos_right h2.2 (Nat.pow_pos (by omega))
      _ ≤ b ^ u := hle
  · rename_i he
    simp only [decide_eq_true_eq] at h2
    calc 2 ^ v < 2 ^ r.2 := Nat.pow_lt_pow_right (by omega) (by omega)
      _ = 1 * 2 ^ r.2 := (Nat.one_mul _).symm
      _ ≤ r.1 * 2 ^ r.2 := Nat.mul_le_mul_right _ h2
      _ ≤ b ^ u := hle

theorem powLe_sound {P b f p q : Nat} (h : powLe P b f p q = true) : b ^ p ≤ 2 ^ q := by
  unfold powLe at h
  simp only [Bool.and_eq_true, decide_eq_true_eq] at h
  obtain ⟨⟨⟨hp, he⟩, _⟩, hm⟩ := h
  have hge := powHi_ge P b f p hp
  generalize powHi P b f p = r at *
  calc b ^ p ≤ r.1 * 2 ^ r.2 := hge
    _ ≤ 2 ^ (q - r.2) * 2 ^ r.2 := Nat.mul_le_mul_right _ hm
    _ = 2 ^ q := by rw [← pow_add]; congr 1; omega

theorem powLt_sound {P b f p q : Nat} (h : powLt P b f p q = true) : b ^ p < 2 ^ q := by
  unfold powLt at h
  simp only [Bool.and_eq_true, decide_eq_true_eq] at h
  obtain ⟨⟨⟨hp, he⟩, _⟩, hm⟩ := h
  have hge := powHi_ge P b f p hp
  generalize powHi P b f p = r at *
  calc b ^ p ≤ r.1 * 2 ^ r.2 := hge
    _ < 2 ^ (q - r.2) * 2 ^ r.2 := Nat.mul_lt_mul_of_pos_right hm (Nat.pow_pos (by omega))
    _ = 2 ^ q := by rw [← pow_add]; congr 1; omega

/-! ### binary64 rounding of a product, general exponent range -/

/-- round-to-nearest-even on 53 bits of `N / 2^k` for `N < 2^(53+j)`, `1 ≤ j ≤ k`: multiples of `2^k` (integers)
    below `N` stay below the rounded value, and the rounded value exceeds `N` by at most half a unit in the last
    place, `2^(j-1)` -/
theorem rn53_spec' (N k j : Nat) (hN : N < 2 ^ (53 + j)) (hj : 1 ≤ j) (hjk : j ≤ k) :
    (rn53 N k).2.2 = k ∧
    (∀ n, n * 2 ^ k ≤ N → n * 2 ^ k ≤ (rn53 N k).1 <<< (rn53 N k).2.1) ∧
    (rn53 N k).1 <<< (rn53 N k).2.1 ≤ N + 2 ^ (j - 1) := by
  unfold rn53
  by_cases hlen : (if N = 0 then 0 else Nat.log2 N + 1) ≤ 53
  · simp only [hlen, if_true, Nat.shiftLeft_zero]
    exact ⟨trivial, fun n h => h, Nat.le_add_right _ _⟩
  · simp only [hlen, if_false]
    have hN0 : N ≠ 0 := by
      intro h; rw [h] at hlen; simp at hlen
    simp only [hN0, if_false] at hlen ⊢
    have hl77 : Nat.log2 N < 53 + j := (Nat.log2_lt hN0).mpr hN
    generalize hs : Nat.log2 N + 1 - 53 = s at *
    have hs1 : 1 ≤ s := by omega
    have hs24 : s ≤ j := by omega
    have hdm := Nat.div_add_mod N (2 ^ s)
    have hrem := Nat.mod_lt N (Nat.pow_pos (n := s) (show 0 < 2 by omega))
    rw [Nat.shiftRight_eq_div_pow]
    generalize N / 2 ^ s = q at *
    generalize N % 2 ^ s = rem at *
    have hhalf : 2 ^ s = 2 * 2 ^ (s - 1) := by
      rw [← pow_succ']; congr 1; omega
    have h23 : 2 ^ (s - 1) ≤ 2 ^ (j - 1) := Nat.pow_le_pow_right (by omega) (by omega)
    refine ⟨trivial, ?_, ?_⟩
    · intro n hn
      have hks : 2 ^ k = 2 ^ s * 2 ^ (k - s) := by rw [← pow_add]; congr 1; omega
      have hq : n * 2 ^ (k - s) ≤ q := by
        have : 2 ^ s * (n * 2 ^ (k - s)) ≤ 2 ^ s * q + rem := by
          rw [hdm]; calc 2 ^ s * (n * 2 ^ (k - s)) = n * 2 ^ k := by rw [hks]; ring
            _ ≤ N := hn
        by_contra hcon
        have : q + 1 ≤ n * 2 ^ (k - s) := by omega
        have := Nat.mul_le_mul_left (2 ^ s) this
        rw [Nat.mul_add, Nat.mul_one] at this; omega
      rw [Nat.shiftLeft_eq]
      have hqq : q ≤ (if rem > 2 ^ (s - 1) ∨ rem = 2 ^ (s - 1) ∧ q % 2 = 1 then q + 1 else q) := by
        split <;> omega
      calc n * 2 ^ k = n * 2 ^ (k - s) * 2 ^ s := by rw [hks]; ring
        _ ≤ q * 2 ^ s := Nat.mul_le_mul_right _ hq
        _ ≤ _ := Nat.mul_le_mul_right _ hqq
    · rw [Nat.shiftLeft_eq]
      split
      · rename_i hup
        have : 2 ^ (s - 1) ≤ rem := by rcases hup with h | h <;> omega
        rw [Nat.add_mul, Nat.one_mul]
        rw [Nat.mul_comm] at hdm; omega
      · rw [Nat.mul_comm] at hdm; omega

/-- `(size_t) (t * c)` for `t < 2^53` (an exact double), `c = M/2^k`, `t·M < 2^(53+j)`:
    at least `⌊t·c⌋`, at most `t·c + 2^(j-1-k)` -/
theorem mulTrunc_spec' {t bits M k j : Nat} (hdec : decodeDouble bits = (M, k)) (ht53 : t < 2 ^ 53)
    (hN : t * M < 2 ^ (53 + j)) (hj : 1 ≤ j) (hjk : j ≤ k) :
    t * M / 2 ^ k ≤ mulTrunc t bits ∧ mulTrunc t bits * 2 ^ k ≤ t * M + 2 ^ (j - 1) := by
  unfold mulTrunc
  rw [hdec, rn53_small ht53 0]
  simp only [Nat.add_zero]
  obtain ⟨e, lo, hi⟩ := rn53_spec' (t * M) k j hN hj hjk
  generalize rn53 (t * M) k = res at *
  obtain ⟨p, pu, pk⟩ := res
  simp only at e lo hi ⊢
  subst e
  have hp : 0 < 2 ^ pk := Nat.pow_pos (by omega)
  refine ⟨?_, ?_⟩
  · rw [Nat.le_div_iff_mul_le hp]
    exact lo _ (Nat.div_mul_le_self _ _)
  · exact le_trans (Nat.div_mul_le_self _ _) hi

/-! ### the per-base certificate -/

/-- `⌊log_b 2 · 2^128⌋` for every base 2..62 (0 for powers of two).  Proof hints only: `SibOk2` re-checks
    `b^p ≤ 2^(2^128)` in the kernel. -/
def sibP128 : List Nat := [0,
  214694269906139964571946863620261224770,
  0,
  146551638558577196571787166997476613513,
  131639188895779357986673668208242371217,
  121211024743367383374586532344680810962,
  0,
  107347134953069982285973431810130612385,
  102435199438739363750012109250103232700,
  98363663293040865864284200491858125303,
  94919365782065161376156599844611946954,
  91957278820874447313540959751519019601,
  89375005453140177732719746428183951203,
  87098002514692304831758645185042844126,
  0,
  83250265540480699687656636037846163202,
  81603953740952192694273717314589328545,
  80105502234685807525695326029319070181,
  78733926027940283914907137725992215359,
  77472171104077872155430296236939959619,
  76306219272159432244999713259262236861,
  75224429382536283466256097730374296476,
  74217044712452148278150848462445505918,
  73275819279288598285893583498738306756,
  72393730656227144833666081642813588127,
  71564756635379988190648954540087074923,
  70783699651469384815168277453750309637,
  70046047372814504115199189736736200079,
  69347860990721560010964843215810055363,
  68685684942986378099148261790501236376,
  0,
  67457529857761314226580418425387729242,
  66886457462027907376340045329695053396,
  66341117422608667552431225328682844309,
  65819594447889678993336834104121185608,
  65320167594945992630767722788604288689,
  64841285640710374986125204757792790817,
  64381546158693041597816725063033390684,
  63939677660778406032374864970225004540,
  63514524287888026951541465974414013854,
  63105032630958268914184193433154341123,
  62710240340939643906853818009103122487,
  62329266248026516283876593977227583388,
  61961301759574850293186164396955932676,
  61605603345825157440709826979890377715,
  61261485954656014756362472993965392788,
  60928317222720766857903741065759366984,
  60605512371683691687293266172340405481,
  60292529695821480779999704128034635550,
  59988866561736126368362535580215903936,
  59694055852923607771451854260263801420,
  59407662801924818163744238403245298839,
  59129282161122023924382236308587077446,
  58858535670232869912847947851538291326,
  58595069784433462385845617917329687221,
  58338553632005390391120104243061776172,
  58088677174605269904328858733979797441,
  57845149546827059527651445570663800681,
  57607697554771303846977721095972245605,
  57376064315937224967335812785465284302,
  57150008024983734904003758927483731247]

def sibP (b : Nat) : Nat := sibP128.getD (b - 2) 0

/-- largest bit count for which claim B follows from the error bound alone (base 3 is the binding one):
    `T·(c - log_3 2) + 2^-3 ≤ 1 - log_3 2`.  ≈ 2^51.22 -/
def sibT2 : Nat := 2626805675765606

/-- number of product bits beyond 53 at the bound: `T·M < 2^(53+j)` -/
def sibJ (b : Nat) : Nat := Nat.log2 (sibT2 * dM b) + 1 - 53

/-- largest bit count for which claim A holds for every base (it fails for base 30 at the next one) -/
def sibTA : Nat := 2 ^ 53 + 20

/-- the per-base certificate, checked by the kernel with 256-bit truncated powers -/
def SibOk2 (b : Nat) : Prop :=
  powGt 256 b 53 (dM b) (2 ^ dk b) = true ∧                         -- 2^(2^k) < b^M : c > log_b 2
  powLe 256 b 128 (sibP b) (2 ^ 128) = true ∧                       -- b^p ≤ 2^(2^128) : p/2^128 ≤ log_b 2
  sibT2 * dM b < 2 ^ (53 + sibJ b) ∧ 1 ≤ sibJ b ∧ sibJ b ≤ dk b ∧
  sibT2 * (dM b * 2 ^ 128 - sibP b * 2 ^ dk b) + 2 ^ 128 * 2 ^ (sibJ b - 1) + sibP b * 2 ^ dk b
      ≤ 2 ^ 128 * 2 ^ dk b ∧                                         -- T·(c - p/q) + half ulp ≤ 1 - p/q
  53 ≤ dk b ∧ dM b < 2 ^ 53 ∧
  ((List.range 21).all fun j =>                                      -- claim A at t = 2^53 .. 2^53+20, one by one
      powGt 256 b 54 (mulTrunc (2 ^ 53 + j) (cpbeBits b) + 1) (2 ^ 53 + j)) = true
instance (b : Nat) : Decidable (SibOk2 b) := by unfold SibOk2; infer_instance

/-- claim A: no `t`-bit number has more than `r = mulTrunc t + 1` digits, every `1 ≤ t ≤ 2^53 + 20` -/
theorem sibA_sound {b : Nat} (hok : SibOk2 b) (t : Nat) (ht1 : 1 ≤ t) (htT : t ≤ sibTA) :
    2 ^ t ≤ b ^ (mulTrunc t (cpbeBits b) + 1) := by
  obtain ⟨hc, _, _, _, _, _, hk53, hM53, hall⟩ := hok
  by_cases ht : t < 2 ^ 53
  · have hdec : decodeDouble (cpbeBits b) = (dM b, dk b) := rfl
    have hN : t * dM b < 2 ^ (53 + 53) := by
      rw [pow_add]; exact Nat.mul_lt_mul'' ht hM53
    obtain ⟨mlo, _⟩ := mulTrunc_spec' hdec ht hN (by omega) hk53
    generalize mulTrunc t (cpbeBits b) = m2 at *
    have hcert := powGt_sound hc
    by_contra hcon
    have hlt : b ^ (m2 + 1) ≤ 2 ^ t := by omega
    have hr := pow_ratio_lt hlt hcert (by omega)
    have hkpos : 0 < 2 ^ dk b := Nat.pow_pos (by omega)
    have hgt : t * dM b < (m2 + 1) * 2 ^ dk b := by
      have := Nat.lt_succ_of_le mlo
      rw [Nat.div_lt_iff_lt_mul hkpos] at this; exact this
    omega
  · have hj : t - 2 ^ 53 < 21 := by unfold sibTA at htT; omega
    have := (List.all_eq_true.mp hall) (t - 2 ^ 53) (List.mem_range.mpr hj)
    rw [show 2 ^ 53 + (t - 2 ^ 53) = t by omega] at this
    exact Nat.le_of_lt (powGt_sound this)

/-- claim B: every `t`-bit number has at least `r - 1` digits, every `1 ≤ t ≤ sibT2` -/
theorem sibB_sound {b : Nat} (hb : 2 ≤ b) (hok : SibOk2 b) (t : Nat) (ht1 : 1 ≤ t) (htT : t ≤ sibT2) :
    b ^ (mulTrunc t (cpbeBits b) + 1 - 2) ≤ 2 ^ (t - 1) := by
  obtain ⟨_, hp, hNT, hj1, hjk, h6, hk53, hM53, _⟩ := hok
  have hdec : decodeDouble (cpbeBits b) = (dM b, dk b) := rfl
  have ht53 : t < 2 ^ 53 := lt_of_le_of_lt htT (by unfold sibT2; norm_num)
  have hN : t * dM b < 2 ^ (53 + sibJ b) := lt_of_le_of_lt (Nat.mul_le_mul_right _ htT) hNT
  obtain ⟨_, mhi⟩ := mulTrunc_spec' hdec ht53 hN hj1 hjk
  have hp1 := powLe_sound hp
  generalize mulTrunc t (cpbeBits b) = m2 at *
  generalize dM b = M at *
  generalize dk b = k at *
  generalize sibJ b = j at *
  generalize sibP b = p1 at *
  generalize hq : 2 ^ 128 = q1 at *
  have hq1 : 0 < q1 := by rw [← hq]; norm_num
  have hkpos : 0 < 2 ^ k := Nat.pow_pos (by omega)
  rw [show m2 + 1 - 2 = m2 - 1 by omega]
  apply pow_ratio_le (by omega) hp1 hq1
  rcases Nat.eq_zero_or_pos m2 with h0 | h0
  · subst h0; simp
  · have key : (m2 - 1) * q1 * 2 ^ k ≤ (t - 1) * p1 * 2 ^ k := by
      have e1 : (m2 - 1) * q1 * 2 ^ k = m2 * 2 ^ k * q1 - q1 * 2 ^ k := by
        rw [Nat.sub_mul, Nat.sub_mul, Nat.one_mul]
        congr 1; ring
      have e2 : (t - 1) * p1 * 2 ^ k = t * p1 * 2 ^ k - p1 * 2 ^ k := by
        rw [Nat.sub_mul, Nat.sub_mul, Nat.one_mul]
      have hA : m2 * 2 ^ k * q1 ≤ (t * M + 2 ^ (j - 1)) * q1 := Nat.mul_le_mul_right _ mhi
      have hB : t * (M * q1 - p1 * 2 ^ k) ≤ sibT2 * (M * q1 - p1 * 2 ^ k) := Nat.mul_le_mul_right _ htT
      have hC : t * (M * q1) ≤ t * (p1 * 2 ^ k) + t * (M * q1 - p1 * 2 ^ k) := by
        rw [← Nat.mul_add]; exact Nat.mul_le_mul_left _ (by omega)
      have hE : p1 * 2 ^ k ≤ t * p1 * 2 ^ k := by
        calc p1 * 2 ^ k = 1 * (p1 * 2 ^ k) := (Nat.one_mul _).symm
          _ ≤ t * (p1 * 2 ^ k) := Nat.mul_le_mul_right _ ht1
          _ = t * p1 * 2 ^ k := by ring
      rw [e1, e2]
      have hsum : (t * M + 2 ^ (j - 1)) * q1 + p1 * 2 ^ k ≤ t * p1 * 2 ^ k + q1 * 2 ^ k := by
        have : (t * M + 2 ^ (j - 1)) * q1 = t * (M * q1) + q1 * 2 ^ (j - 1) := by ring
        have e3 : t * (p1 * 2 ^ k) = t * p1 * 2 ^ k := by ring
        omega
      omega
    exact Nat.le_of_mul_le_mul_right key hkpos

/-- from bounds on the bit count to the digit count: the two claims for `sizeinbaseBits` -/
theorem digits_le_of_A {b : Nat} (hb : 2 ≤ b) {x t r : Nat} (hx : 0 < x) (hhi : x < 2 ^ t) (hA : 2 ^ t ≤ b ^ r) :
    (digitsOf b x).length ≤ r := by
  obtain ⟨d0, dlo, _⟩ := digitsOf_length_bounds hb hx
  have : b ^ ((digitsOf b x).length - 1) < b ^ r := lt_of_le_of_lt dlo (lt_of_lt_of_le hhi hA)
  have := (Nat.pow_lt_pow_iff_right (by omega)).mp this
  omega

theorem digits_ge_of_B {b : Nat} (hb : 2 ≤ b) {x t r : Nat} (hx : 0 < x) (hlo : 2 ^ (t - 1) ≤ x)
    (hB : b ^ (r - 2) ≤ 2 ^ (t - 1)) : r ≤ (digitsOf b x).length + 1 := by
  obtain ⟨_, _, dhi⟩ := digitsOf_length_bounds hb hx
  have : b ^ (r - 2) < b ^ (digitsOf b x).length := lt_of_le_of_lt hB (lt_of_le_of_lt hlo dhi)
  have := (Nat.pow_lt_pow_iff_right (by omega)).mp this
  omega

/-- MPN_SIZEINBASE on a normalised operand reduces to `sizeinbaseBits` of its bit count `t`,
    `2^(t-1) ≤ val up < 2^t` -/
theorem sizeinbase_eq_bits {up : List Nat} (hu : Limbs up) (hne : up ≠ []) (htop : up.getLast! ≠ 0) (b : Nat) :
    ∃ t, 1 ≤ t ∧ 2 ^ (t - 1) ≤ val up ∧ val up < 2 ^ t ∧ sizeinbase up b = sizeinbaseBits t b := by
  obtain ⟨_, hl63, hlo, hhi⟩ := bitlen_bounds hu hne htop
  have hl : (up.length == 0) = false := by
    cases up with
    | nil => exact absurd rfl hne
    | cons a l => rfl
  refine ⟨64 * up.length - clz up.getLast!, ?_, hlo, hhi, ?_⟩
  · have : 0 < up.length := List.length_pos_iff.mpr hne
    unfold clz; omega
  · unfold sizeinbase
    simp only [hl, Bool.false_eq_true, if_false]
    rw [Nat.mul_comm up.length 64]

/-- MPN_SIZEINBASE, base not a power of two, operand of at most `sibT2` bits: exact or one too large -/
theorem sizeinbase_bound_of2 {b : Nat} (hb : 2 ≤ b) (hnp : pow2P b = false) (hok : SibOk2 b)
    {up : List Nat} (hu : Limbs up) (hne : up ≠ []) (htop : up.getLast! ≠ 0) (hbits : val up < 2 ^ sibT2) :
    sizeinbase up b = (digitsOf b (val up)).length ∨ sizeinbase up b = (digitsOf b (val up)).length + 1 := by
  obtain ⟨t, ht1, hlo, hhi, heq⟩ := sizeinbase_eq_bits hu hne htop b
  have hxpos : 0 < val up := lt_of_lt_of_le (Nat.pow_pos (by omega)) hlo
  have htT : t ≤ sibT2 := by
    by_contra hcon
    have : 2 ^ sibT2 ≤ 2 ^ (t - 1) := Nat.pow_le_pow_right (by omega) (by omega)
    omega
  have hTA : t ≤ sibTA := le_trans htT (by unfold sibT2 sibTA; norm_num)
  rw [heq]
  unfold sizeinbaseBits
  simp only [hnp, Bool.false_eq_true, if_false]
  have h1 := digits_le_of_A hb hxpos hhi (sibA_sound hok t ht1 hTA)
  have h2 := digits_ge_of_B hb hxpos hlo (sibB_sound hb hok t ht1 htT)
  omega

/-- MPN_SIZEINBASE is never too small, operand of at most `2^53 + 20` bits -/
theorem sizeinbase_ge_of2 {b : Nat} (hb : 2 ≤ b) (hnp : pow2P b = false) (hok : SibOk2 b)
    {up : List Nat} (hu : Limbs up) (hne : up ≠ []) (htop : up.getLast! ≠ 0) (hbits : val up < 2 ^ sibTA) :
    (digitsOf b (val up)).length ≤ sizeinbase up b := by
  obtain ⟨t, ht1, hlo, hhi, heq⟩ := sizeinbase_eq_bits hu hne htop b
  have hxpos : 0 < val up := lt_of_lt_of_le (Nat.pow_pos (by omega)) hlo
  have hTA : t ≤ sibTA := by
    by_contra hcon
    have : 2 ^ sibTA ≤ 2 ^ (t - 1) := Nat.pow_le_pow_right (by omega) (by omega)
    omega
  rw [heq]
  unfold sizeinbaseBits
  simp only [hnp, Bool.false_eq_true, if_false]
  exact digits_le_of_A hb hxpos hhi (sibA_sound hok t ht1 hTA)

end Mpir.Radix
