/- Helper lemmas for property C18 (formatted output): bounded writer, growing buffer, digit strings,
   the flag fold of the parser, and the comparison of `__gmp_doprnt_integer` with the C99 layout. -/
import Mpir.Model.Printf
import Mpir.Model.Scanf
import Mathlib.Tactic.Ring
import Mathlib.Tactic.Linarith
import Mathlib.Tactic.IntervalCases
namespace Mpir.Printf

/-! ### callsBytes -/

@[simp] theorem callsBytes_nil : callsBytes [] = [] := rfl
@[simp] theorem callsBytes_cons (c : Call) (cs : List Call) : callsBytes (c :: cs) = c.bytes ++ callsBytes cs := by
  simp [callsBytes]
@[simp] theorem callsBytes_append (a b : List Call) : callsBytes (a ++ b) = callsBytes a ++ callsBytes b := by
  simp [callsBytes]
@[simp] theorem callsBytes_repsMaybe (c : Char) (n : Nat) : callsBytes (repsMaybe c n) = List.replicate n c := by
  unfold repsMaybe; split <;> simp_all [Call.bytes]
@[simp] theorem callsBytes_memoryMaybe (s : List Char) : callsBytes (memoryMaybe s) = s := by
  unfold memoryMaybe; split <;> simp_all [Call.bytes]

/-! ### bounded writer -/

theorem snCalls_spec (cs : List Call) : ∀ (d : SnState) (ret : Nat),
    (snCalls d cs ret).2 = ret + (callsBytes cs).length ∧
    (snCalls d cs ret).1.written = d.written ++ (callsBytes cs).take (d.size - 1) ∧
    (snCalls d cs ret).1.size = d.size - min (d.size - 1) (callsBytes cs).length := by
  induction cs with
  | nil => intro d ret; simp [snCalls]
  | cons c cs ih =>
    intro d ret
    simp only [snCalls, callsBytes_cons, List.length_append]
    by_cases h : d.size > 1
    · have hc : snCall d c = ({ written := d.written ++ c.bytes.take (min (d.size - 1) c.bytes.length),
                                size := d.size - min (d.size - 1) c.bytes.length }, c.bytes.length) := by
        simp [snCall, h]
      rw [hc]
      obtain ⟨h1, h2, h3⟩ := ih { written := d.written ++ c.bytes.take (min (d.size - 1) c.bytes.length),
                                   size := d.size - min (d.size - 1) c.bytes.length } (ret + c.bytes.length)
      refine ⟨by rw [h1]; omega, ?_, ?_⟩
      · rw [h2]
        simp only [List.append_assoc, List.take_append]
        congr 1
        rcases Nat.le_total (d.size - 1) c.bytes.length with hle | hle
        · rw [Nat.min_eq_left hle]
          have : d.size - (d.size - 1) - 1 = 0 := by omega
          have h0 : d.size - 1 - c.bytes.length = 0 := by omega
          simp [this, h0]
        · rw [Nat.min_eq_right hle, List.take_of_length_le (le_refl _), List.take_of_length_le hle]
          congr 2; omega
      · rw [h3]; simp only; omega
    · have hc : snCall d c = (d, c.bytes.length) := by simp [snCall, h]
      rw [hc]
      obtain ⟨h1, h2, h3⟩ := ih d (ret + c.bytes.length)
      have hz : d.size - 1 = 0 := by omega
      refine ⟨by rw [h1]; omega, ?_, ?_⟩
      · rw [h2, hz]; simp
      · rw [h3, hz]; simp

/-! ### digit strings -/

theorem digitTab_length (u : Bool) : (digitTab u).length = 36 := by cases u <;> rfl

theorem digitChar_mem (u : Bool) (d : Nat) (h : d < 36) : digitChar u d ∈ digitTab u := by
  unfold digitChar
  have hl : d < (digitTab u).length := by rw [digitTab_length]; exact h
  have : (digitTab u).getD d '?' = (digitTab u)[d] := by simp [List.getD_eq_getElem?_getD, hl]
  rw [this]
  exact List.getElem_mem hl

theorem digitTab_ne (u : Bool) : ∀ c ∈ digitTab u, c ≠ '/' ∧ c ≠ '-' := by
  cases u <;> decide

theorem digitChar_zero (u : Bool) : digitChar u 0 = '0' := by cases u <;> rfl

theorem digitChar_eq_zero (u : Bool) (d : Nat) (h : d < 36) (h0 : digitChar u d = '0') : d = 0 := by
  interval_cases d <;> cases u <;> first | rfl | (exfalso; revert h0; decide)

theorem natDigits_zero (b : Nat) (u : Bool) : natDigits b u 0 = ['0'] := by
  rw [natDigits]
  by_cases hb : 0 < b
  · simp [hb, digitChar_zero]
  · have : b < 2 := by omega
    simp [this, digitChar_zero]

theorem natDigits_ne_nil (b : Nat) (u : Bool) (n : Nat) : natDigits b u n ≠ [] := by
  rw [natDigits]; split <;> simp

theorem natDigits_mem (b : Nat) (u : Bool) (hb : 2 ≤ b) (hb' : b ≤ 36) :
    ∀ n, ∀ c ∈ natDigits b u n, c ∈ digitTab u := by
  intro n
  induction n using Nat.strong_induction_on with
  | _ n ih =>
    intro c hc
    rw [natDigits] at hc
    split at hc
    · rename_i h
      have hn : n < 36 := by rcases h with h | h <;> omega
      simp only [List.mem_singleton] at hc
      rw [hc]; exact digitChar_mem u n hn
    · rename_i h
      have hn : ¬ n < b := fun h' => h (Or.inl h')
      rcases List.mem_append.mp hc with h1 | h1
      · exact ih (n / b) (Nat.div_lt_self (by omega) (by omega)) c h1
      · simp only [List.mem_singleton] at h1
        rw [h1]; exact digitChar_mem u (n % b) (by have := Nat.mod_lt n (show b > 0 by omega); omega)

theorem natDigits_head_ne_zero (b : Nat) (u : Bool) (hb : 2 ≤ b) (hb' : b ≤ 36) :
    ∀ n, n ≠ 0 → (natDigits b u n).head? ≠ some '0' := by
  intro n
  induction n using Nat.strong_induction_on with
  | _ n ih =>
    intro hn0
    rw [natDigits]
    split
    · rename_i h
      have hn : n < 36 := by rcases h with h | h <;> omega
      simp only [List.head?_cons, ne_eq, Option.some.injEq]
      intro h0; exact hn0 (digitChar_eq_zero u n hn h0)
    · rename_i h
      have hn : ¬ n < b := fun h' => h (Or.inl h')
      have hne := natDigits_ne_nil b u (n / b)
      have hh : (natDigits b u (n / b) ++ [digitChar u (n % b)]).head? = (natDigits b u (n / b)).head? := by
        cases hx : natDigits b u (n / b) with
        | nil => exact absurd hx hne
        | cons a t => simp
      rw [hh]
      exact ih (n / b) (Nat.div_lt_self (by omega) (by omega))
        (by have := Nat.div_pos (show b ≤ n by omega) (show 0 < b by omega); omega)

theorem splitSlash_none (s : List Char) (h : ∀ c ∈ s, c ≠ '/') : splitSlash s = none := by
  induction s with
  | nil => rfl
  | cons c cs ih =>
    have hc : c ≠ '/' := h c (List.mem_cons_self)
    have := ih (fun x hx => h x (List.mem_cons_of_mem _ hx))
    simp [splitSlash, hc, this]


/-! ### the parser's flag loop -/

/-- a projection of the parse state evolves by its own step function -/
theorem foldl_proj {α : Type} (π : PS → α) (g : α → Char → α)
    (h : ∀ ps c, ps.inPrec = false → π (stepFlag false ps c) = g (π ps) c ∧ (stepFlag false ps c).inPrec = false) :
    ∀ (fl : List Char) (ps : PS), ps.inPrec = false →
      π (fl.foldl (stepFlag false) ps) = fl.foldl g (π ps) ∧ (fl.foldl (stepFlag false) ps).inPrec = false := by
  intro fl
  induction fl with
  | nil => intro ps hp; exact ⟨rfl, hp⟩
  | cons c cs ih =>
    intro ps hp
    obtain ⟨h1, h2⟩ := h ps c hp
    obtain ⟨h3, h4⟩ := ih (stepFlag false ps c) h2
    simp only [List.foldl_cons]
    exact ⟨by rw [h3, h1], h4⟩

theorem stepFlag_inPrec (ps : PS) (c : Char) (hp : ps.inPrec = false) : (stepFlag false ps c).inPrec = false := by
  unfold stepFlag; simp only [hp]; split_ifs <;> simp_all

theorem foldl_const {α : Type} (a : α) (fl : List Char) : fl.foldl (fun a _ => a) a = a := by
  induction fl with
  | nil => rfl
  | cons c cs ih => simpa using ih

def gShow (a : Showbase) (c : Char) : Showbase := if c = '#' then .nonzero else a
def gSign (a : Option Char) (c : Char) : Option Char :=
  if c = '+' then some '+' else if c = ' ' then (if a = none then some ' ' else a) else a
def gJust (a : Justify) (c : Char) : Justify :=
  if c = '-' then .left else if c = '0' then (if a = .right then .internal else a) else a
def gFill (a : Char) (c : Char) : Char := if c = '0' then '0' else a

theorem gShow_fold (fl : List Char) (a : Showbase) : fl.foldl gShow a = if '#' ∈ fl then .nonzero else a := by
  induction fl generalizing a with
  | nil => simp
  | cons c cs ih =>
    simp only [List.foldl_cons, ih, gShow, List.mem_cons]
    by_cases h1 : c = '#' <;> by_cases h2 : '#' ∈ cs <;> simp [h1, h2, eq_comm]

theorem gFill_fold (fl : List Char) (a : Char) : fl.foldl gFill a = if '0' ∈ fl then '0' else a := by
  induction fl generalizing a with
  | nil => simp
  | cons c cs ih =>
    simp only [List.foldl_cons, ih, gFill, List.mem_cons]
    by_cases h1 : c = '0' <;> by_cases h2 : '0' ∈ cs <;> simp [h1, h2, eq_comm]

theorem gSign_fold (fl : List Char) (a : Option Char) :
    fl.foldl gSign a = if '+' ∈ fl then some '+' else
      (match a with | some s => some s | none => if ' ' ∈ fl then some ' ' else none) := by
  induction fl generalizing a with
  | nil => cases a <;> simp
  | cons c cs ih =>
    simp only [List.foldl_cons, ih, gSign, List.mem_cons]
    by_cases h1 : c = '+'
    · subst h1; simp
    · by_cases h2 : c = ' '
      · subst h2
        cases a <;> by_cases h3 : '+' ∈ cs <;> simp [h3]
      · have e1 : ¬ '+' = c := fun h => h1 h.symm
        have e2 : ¬ ' ' = c := fun h => h2 h.symm
        simp [h1, h2, e1, e2]

theorem gJust_fold (fl : List Char) (a : Justify) :
    fl.foldl gJust a = if '-' ∈ fl then .left else if '0' ∈ fl ∧ a = .right then .internal else a := by
  induction fl generalizing a with
  | nil => simp
  | cons c cs ih =>
    simp only [List.foldl_cons, ih, gJust, List.mem_cons]
    by_cases h1 : c = '-'
    · subst h1; simp
    · by_cases h2 : c = '0'
      · subst h2
        by_cases h3 : '-' ∈ cs <;> by_cases h4 : '0' ∈ cs <;> cases a <;> simp [h3, h4]
      · have e1 : ¬ '-' = c := fun h => h1 h.symm
        have e2 : ¬ '0' = c := fun h => h2 h.symm
        simp [h1, h2, e1, e2]

/-- state after the flag characters -/
theorem flags_fold (fl : List Char) :
    let ps := fl.foldl (stepFlag false) {}
    ps.inPrec = false ∧ ps.seenPrec = false ∧
    ps.param.showbase = (if '#' ∈ fl then Showbase.nonzero else .no) ∧
    ps.param.sign = (if '+' ∈ fl then some '+' else if ' ' ∈ fl then some ' ' else none) ∧
    ps.param.justify = (if '-' ∈ fl then Justify.left else if '0' ∈ fl then .internal else .right) ∧
    ps.param.fill = (if '0' ∈ fl then '0' else ' ') ∧
    ps.param.width = 0 ∧ ps.param.prec = 6 := by
  have hp : ({} : PS).inPrec = false := rfl
  refine ⟨(foldl_proj (fun ps => ps.inPrec) (fun a _ => a) ?_ fl {} hp).2, ?_, ?_, ?_, ?_, ?_, ?_, ?_⟩
  · intro ps c h; exact ⟨by simp [stepFlag_inPrec ps c h, h], stepFlag_inPrec ps c h⟩
  · have := (foldl_proj (fun ps => ps.seenPrec) (fun a _ => a) ?_ fl {} hp).1
    · rw [this, foldl_const]
    · intro ps c h; refine ⟨?_, stepFlag_inPrec ps c h⟩
      unfold stepFlag; simp only [h]; split_ifs <;> simp_all
  · have := (foldl_proj (fun ps => ps.param.showbase) gShow ?_ fl {} hp).1
    · rw [this, gShow_fold]
    · intro ps c h; refine ⟨?_, stepFlag_inPrec ps c h⟩
      unfold stepFlag gShow; simp only [h]; split_ifs <;> simp_all
  · have := (foldl_proj (fun ps => ps.param.sign) gSign ?_ fl {} hp).1
    · rw [this, gSign_fold]
    · intro ps c h; refine ⟨?_, stepFlag_inPrec ps c h⟩
      unfold stepFlag gSign; simp only [h]; split_ifs <;> simp_all
  · have := (foldl_proj (fun ps => ps.param.justify) gJust ?_ fl {} hp).1
    · rw [this, gJust_fold]; simp
    · intro ps c h; refine ⟨?_, stepFlag_inPrec ps c h⟩
      unfold stepFlag gJust; simp only [h]; split_ifs <;> simp_all
  · have := (foldl_proj (fun ps => ps.param.fill) gFill ?_ fl {} hp).1
    · rw [this, gFill_fold]
    · intro ps c h; refine ⟨?_, stepFlag_inPrec ps c h⟩
      unfold stepFlag gFill; simp only [h]; split_ifs <;> simp_all
  · have := (foldl_proj (fun ps => ps.param.width) (fun a _ => a) ?_ fl {} hp).1
    · rw [this, foldl_const]
    · intro ps c h; refine ⟨?_, stepFlag_inPrec ps c h⟩
      unfold stepFlag; simp only [h]; split_ifs <;> simp_all
  · have := (foldl_proj (fun ps => ps.param.prec) (fun a _ => a) ?_ fl {} hp).1
    · rw [this, foldl_const]
    · intro ps c h; refine ⟨?_, stepFlag_inPrec ps c h⟩
      unfold stepFlag; simp only [h]; split_ifs <;> simp_all


/-- the precision `__gmp_doprnt` ends up with: −1 = "not given" -/
def precInt : PrecArg → Int
  | .none => -1
  | .dot => -1
  | .num n => n
  | .star n => if n < 0 then -1 else n

def negStar : WidthArg → Prop
  | .star n => n < 0
  | _ => False
instance (w : WidthArg) : Decidable (negStar w) := by cases w <;> unfold negStar <;> infer_instance

def leftP (fl : List Char) (w : WidthArg) : Prop := '-' ∈ fl ∨ negStar w
instance (fl : List Char) (w : WidthArg) : Decidable (leftP fl w) := by unfold leftP; infer_instance

def widthStep (ps : PS) : WidthArg → PS
  | .none => ps
  | .num n => ps.setValue n
  | .star n => stepStar false ps n
def precStep (ps : PS) : PrecArg → PS
  | .none => ps
  | .dot => stepDot ps
  | .num n => (stepDot ps).setValue n
  | .star n => stepStar false (stepDot ps) n

theorem specParams_eq (fl : List Char) (w : WidthArg) (p : PrecArg) (conv : Conv) :
    specParams false fl w p conv =
      integerParams false (precStep (widthStep (fl.foldl (stepFlag false) {}) w) p) (convBase conv) := by
  unfold specParams widthStep precStep
  cases w <;> cases p <;> rfl

theorem widthStep_fields (ps : PS) (w : WidthArg) (hp : ps.inPrec = false) :
    (widthStep ps w).inPrec = false ∧ (widthStep ps w).seenPrec = ps.seenPrec ∧
    (widthStep ps w).param.showbase = ps.param.showbase ∧ (widthStep ps w).param.sign = ps.param.sign ∧
    (widthStep ps w).param.fill = ps.param.fill ∧ (widthStep ps w).param.prec = ps.param.prec ∧
    (ps.param.width = 0 → (widthStep ps w).param.width = (cWidth w : Int)) ∧
    (widthStep ps w).param.justify = (if negStar w then Justify.left else ps.param.justify) := by
  cases w with
  | none => simp [widthStep, cWidth, negStar, hp]
  | num n => simp [widthStep, PS.setValue, hp, cWidth, negStar]
  | star n =>
    by_cases hn : n < 0
    · simp [widthStep, stepStar, hp, hn, cWidth, negStar]
      intro _; exact (abs_of_neg hn).symm
    · simp [widthStep, stepStar, hp, hn, cWidth, negStar]
      intro _; exact (abs_of_nonneg (by omega)).symm

theorem precStep_fields (ps : PS) (p : PrecArg) (hs : ps.seenPrec = false) :
    (precStep ps p).param.showbase = ps.param.showbase ∧ (precStep ps p).param.sign = ps.param.sign ∧
    (precStep ps p).param.fill = ps.param.fill ∧ (precStep ps p).param.width = ps.param.width ∧
    (precStep ps p).param.justify = ps.param.justify ∧
    ((precStep ps p).seenPrec = false → precInt p = -1) ∧
    ((precStep ps p).seenPrec = true → (precStep ps p).param.prec = precInt p) := by
  cases p with
  | none => simp [precStep, precInt, hs]
  | dot => simp [precStep, stepDot, precInt]
  | num n => simp [precStep, stepDot, PS.setValue, precInt]
  | star n =>
    by_cases hn : n < 0
    · simp [precStep, stepDot, stepStar, precInt, hn]
    · simp [precStep, stepDot, stepStar, precInt, hn]

theorem integerParams_fields (ps : PS) (base : Int) (pi : Int) (hpi : -1 ≤ pi)
    (h1 : ps.seenPrec = false → pi = -1) (h2 : ps.seenPrec = true → ps.param.prec = pi) :
    let P := integerParams false ps base
    P.base = base ∧ P.showbase = ps.param.showbase ∧ P.sign = ps.param.sign ∧ P.width = ps.param.width ∧
    P.prec = pi ∧
    P.justify = (if ps.param.justify = .left ∨ 0 ≤ pi then (if ps.param.justify = .internal then Justify.right else ps.param.justify) else ps.param.justify) ∧
    P.fill = (if ps.param.justify = .left ∨ 0 ≤ pi then ' ' else ps.param.fill) := by
  cases hs : ps.seenPrec with
  | false =>
    have := h1 hs; subst this
    simp only [integerParams, hs]
    by_cases hj : ps.param.justify = .left <;> simp [hj]
  | true =>
    have := h2 hs
    simp only [integerParams, hs, this]
    by_cases hj : ps.param.justify = .left <;> by_cases hq : 0 ≤ pi <;> simp [hj, hq]

theorem precInt_ge (p : PrecArg) : -1 ≤ precInt p := by
  cases p <;> simp [precInt] <;> (try split_ifs) <;> omega

/-- The parameters `__gmp_doprnt` hands to `__gmp_doprnt_integer`, in closed form. -/
theorem specParams_fields (fl : List Char) (w : WidthArg) (p : PrecArg) (conv : Conv) :
    let P := specParams false fl w p conv
    P.base = convBase conv ∧
    P.showbase = (if '#' ∈ fl then Showbase.nonzero else .no) ∧
    P.sign = (if '+' ∈ fl then some '+' else if ' ' ∈ fl then some ' ' else none) ∧
    P.width = (cWidth w : Int) ∧
    P.prec = precInt p ∧
    P.justify = (if leftP fl w then Justify.left else if '0' ∈ fl ∧ precInt p < 0 then .internal else .right) ∧
    P.fill = (if ¬ leftP fl w ∧ '0' ∈ fl ∧ precInt p < 0 then '0' else ' ') := by
  obtain ⟨f1, f2, f3, f4, f5, f6, f7, _⟩ := flags_fold fl
  simp only [specParams_eq]
  generalize fl.foldl (stepFlag false) {} = ps0 at *
  obtain ⟨w1, w2, w3, w4, w5, _, w7, w8⟩ := widthStep_fields ps0 w f1
  have w7 := w7 f7
  generalize widthStep ps0 w = ps1 at *
  obtain ⟨p1, p2, p3, p4, p5, p6, p7⟩ := precStep_fields ps1 p (by rw [w2, f2])
  generalize precStep ps1 p = ps2 at *
  obtain ⟨i1, i2, i3, i4, i5, i6, i7⟩ := integerParams_fields ps2 (convBase conv) (precInt p) (precInt_ge p) p6 p7
  refine ⟨i1, by rw [i2, p1, w3, f3], by rw [i3, p2, w4, f4], by rw [i4, p4, w7], i5, ?_, ?_⟩
  · rw [i6, p5, w8, f5]
    have := precInt_ge p
    unfold leftP
    by_cases hm : '-' ∈ fl <;> by_cases hz : '0' ∈ fl <;> by_cases hq : 0 ≤ precInt p <;>
      by_cases hw : negStar w <;>
      simp [hm, hz, hq, hw]
  · rw [i7, p5, w8, f5, p3, w5, f6]
    have := precInt_ge p
    unfold leftP
    by_cases hm : '-' ∈ fl <;> by_cases hz : '0' ∈ fl <;> by_cases hq : 0 ≤ precInt p <;>
      by_cases hw : negStar w <;>
      simp [hm, hz, hq, hw]


/-! ### `__gmp_doprnt_integer` in closed form -/

open List in
/-- `doprntIntegerCore` on a string without '/' in closed form (natural-number arithmetic) -/
def closedCore (P : Params) (sign s sb : List Char) : List Char :=
  let sb1 := if P.showbase = .nonzero ∧ s.head? = some '0' then [] else sb
  let zeros := (P.prec - s.length).toNat
  let pre := if zeros > 0 ∧ sb1.length = 1 then [] else sb1
  let pad := (P.width - ((s.length + sign.length + pre.length + zeros : Nat) : Int)).toNat
  match (if pad = 0 then Justify.none else P.justify) with
  | .right => replicate pad P.fill ++ sign ++ pre ++ replicate zeros '0' ++ s
  | .internal => sign ++ pre ++ replicate zeros '0' ++ replicate pad P.fill ++ s
  | .left => sign ++ pre ++ replicate zeros '0' ++ s ++ replicate pad P.fill
  | .none => sign ++ pre ++ replicate zeros '0' ++ s

open List in
theorem core_bytes (P : Params) (sign : Option Char) (s sb : List Char) (hs : splitSlash s = none) :
    callsBytes (doprntIntegerCore false P sign s sb) = closedCore P sign.toList s sb := by
  unfold doprntIntegerCore closedCore
  simp only [hs]
  generalize hsb1 : (if P.showbase = .nonzero ∧ s.head? = some '0' then [] else sb) = sb1
  have e1 : (if P.showbase = .nonzero ∧ s.head? = some '0' then (0 : Int) else (sb.length : Int)) = (sb1.length : Int) := by
    rw [← hsb1]; split <;> simp
  rw [e1]
  have ez : max 0 (P.prec - (s.length : Int)) = (((P.prec - (s.length : Int)).toNat : Nat) : Int) := by omega
  rw [ez]
  generalize (P.prec - (s.length : Int)).toNat = zeros
  have htake : take sb1.length sb = sb1 := by rw [← hsb1]; split <;> simp
  clear hsb1 e1 ez
  cases sign <;> by_cases hc : (zeros > 0 ∧ sb1.length = 1) <;> cases hj : P.justify <;>
    simp [hc, htake, Call.bytes]
  all_goals (split_ifs <;> simp_all [Call.bytes])


/-! ### model layout = specification layout -/

section
open List

theorem replicate_comm_one (n : Nat) (c : Char) (t : List Char) :
    c :: (replicate n c ++ t) = replicate n c ++ c :: t := by
  induction n with
  | zero => simp
  | succ n ih => simp [replicate_succ, ih]

/-- the justification step shared by all prefix kinds: model side (`closedCore` after the prefix is known) -/
def padModel (just : Justify) (fill : Char) (width : Nat) (sg pre : List Char) (zeros : Nat) (t : List Char) : List Char :=
  let pad := width - (t.length + sg.length + pre.length + zeros)
  match (if pad = 0 then Justify.none else just) with
  | .right => replicate pad fill ++ sg ++ pre ++ replicate zeros '0' ++ t
  | .internal => sg ++ pre ++ replicate zeros '0' ++ replicate pad fill ++ t
  | .left => sg ++ pre ++ replicate zeros '0' ++ t ++ replicate pad fill
  | .none => sg ++ pre ++ replicate zeros '0' ++ t

/-- spec side -/
def padSpec (minus zmode : Bool) (width : Nat) (sg pre ds : List Char) : List Char :=
  let pad := width - (sg.length + pre.length + ds.length)
  if minus then sg ++ pre ++ ds ++ replicate pad ' '
  else if zmode then sg ++ pre ++ replicate pad '0' ++ ds
  else replicate pad ' ' ++ sg ++ pre ++ ds

theorem pad_eq (minus zmode : Bool) (width : Nat) (sg prem pres : List Char) (zeros : Nat) (t ds : List Char)
    (hbody : prem ++ replicate zeros '0' ++ t = pres ++ ds)
    (hz : zmode = true → zeros = 0 ∧ ∀ n, prem ++ replicate n '0' ++ t = pres ++ replicate n '0' ++ ds) :
    padModel (if minus then .left else if zmode then .internal else .right)
      (if ¬ minus ∧ zmode then '0' else ' ') width sg prem zeros t = padSpec minus zmode width sg pres ds := by
  have hlen : prem.length + zeros + t.length = pres.length + ds.length := by
    have := congrArg List.length hbody; simpa [Nat.add_assoc] using this
  unfold padModel padSpec
  have e : width - (t.length + sg.length + prem.length + zeros) = width - (sg.length + pres.length + ds.length) := by omega
  rw [e]
  generalize width - (sg.length + pres.length + ds.length) = pad
  cases minus <;> cases zmode <;> simp
  · split_ifs with h
    · subst h; simp [← hbody]
    · simp [← hbody]
  · obtain ⟨hz0, hzn⟩ := hz rfl
    subst hz0
    split_ifs with h
    · subst h; simpa using hzn 0
    · simpa using hzn pad
  · have hb' := congrArg (· ++ replicate pad ' ') hbody
    simp only [append_assoc] at hb'
    split_ifs with h
    · subst h; simp [← hbody]
    · simpa using hb'
  · have hb' := congrArg (· ++ replicate pad ' ') hbody
    simp only [append_assoc] at hb'
    split_ifs with h
    · subst h; simp [← hbody]
    · simpa using hb'

/-- prefix and digits: the model's (prefix, precision zeros, string) against the specification's
    (prefix, digit string with precision zeros and octal 0) -/
theorem body_eq (hash : Bool) (b : Nat) (u : Bool) (cp : Option Nat) (mag : Nat) (t sb : List Char)
    (hsb : sb = if hash then (if b = 16 then (if u then ['0', 'X'] else ['0', 'x']) else if b = 8 then ['0'] else []) else [])
    (G2 : hash = true → b = 16 → (t.head? = some '0' ↔ mag = 0)) :
    let zeros := cp.getD 1 - t.length
    let sb1 := if hash = true ∧ t.head? = some '0' then [] else sb
    let prem := if zeros > 0 ∧ sb1.length = 1 then [] else sb1
    let ds1 := replicate (cp.getD 1 - t.length) '0' ++ t
    let ds := if hash = true ∧ b = 8 ∧ ds1.head? ≠ some '0' then '0' :: ds1 else ds1
    let pres := if hash = true ∧ b = 16 ∧ mag ≠ 0 then (if u then ['0', 'X'] else ['0', 'x']) else []
    prem ++ replicate zeros '0' ++ t = pres ++ ds ∧
    (zeros = 0 → ∀ n, prem ++ replicate n '0' ++ t = pres ++ replicate n '0' ++ ds) := by
  intro zeros
  cases hash with
  | false => subst hsb; simp [zeros]
  | true =>
    by_cases h16 : b = 16
    · have hG := G2 rfl h16
      subst h16
      by_cases hm : mag = 0
      · have ht := hG.mpr hm
        subst hsb; cases u <;> simp [ht, hm, zeros]
      · have ht : ¬ t.head? = some '0' := fun h => hm (hG.mp h)
        subst hsb; cases u <;> simp [ht, hm, zeros]
    · by_cases h8 : b = 8
      · subst h8; subst hsb
        by_cases hz : zeros = 0
        · have hz' : cp.getD 1 - t.length = 0 := hz
          by_cases ht : t.head? = some '0'
          · simp [ht, hz, zeros]
          · simp [ht, hz, zeros]
            intro n; exact replicate_comm_one n '0' t
        · have hz' : ¬ cp.getD 1 - t.length = 0 := hz
          have hpos : 0 < cp.getD 1 - t.length := Nat.pos_of_ne_zero hz'
          have hhd : (replicate (cp.getD 1 - t.length) '0' ++ t).head? = some '0' := by
            obtain ⟨k, hk⟩ : ∃ k, cp.getD 1 - t.length = k + 1 := ⟨_, (Nat.succ_pred_eq_of_pos hpos).symm⟩
            rw [hk]; simp [replicate_succ]
          by_cases ht : t.head? = some '0' <;> simp [ht, hz, hhd, hpos, zeros]
      · subst hsb; simp [h16, h8, zeros]


theorem closed_eq_layout (P : Params) (f : Flags) (width : Nat) (cp : Option Nat) (b : Nat) (u : Bool)
    (sg : List Char) (mag : Nat) (t : List Char)
    (hbase : (b = 10 ∧ P.base = 10) ∨ (b = 8 ∧ P.base = 8) ∨ (b = 16 ∧ P.base = 16 ∧ u = false) ∨ (b = 16 ∧ P.base = -16 ∧ u = true))
    (hshow : P.showbase = if f.hash then .nonzero else .no)
    (hwidth : P.width = width)
    (hprec : P.prec = match cp with | none => -1 | some n => (n : Int))
    (hjust : P.justify = if f.minus then .left else if (f.zero && cp.isNone) then .internal else .right)
    (hfill : P.fill = if ¬ f.minus ∧ (f.zero && cp.isNone) then '0' else ' ')
    (G1 : cp = none → 1 ≤ t.length) (G2 : f.hash = true → b = 16 → (t.head? = some '0' ↔ mag = 0)) :
    closedCore P sg t (showbaseStr P) = layoutFrom f width cp b u sg mag t := by
  have hzeros : (P.prec - (t.length : Int)).toNat = cp.getD 1 - t.length := by
    rw [hprec]; cases cp with
    | none => have := G1 rfl; simp; omega
    | some n => simp
  have hsb : showbaseStr P = if f.hash then (if b = 16 then (if u then ['0', 'X'] else ['0', 'x']) else if b = 8 then ['0'] else []) else [] := by
    unfold showbaseStr; rw [hshow]
    rcases hbase with ⟨hb, hP⟩ | ⟨hb, hP⟩ | ⟨hb, hP, hu⟩ | ⟨hb, hP, hu⟩ <;> cases f.hash <;> simp_all
  have hnz : (P.showbase = .nonzero ∧ t.head? = some '0') ↔ (f.hash = true ∧ t.head? = some '0') := by
    rw [hshow]; cases f.hash <;> simp
  obtain ⟨hb1, hb2⟩ := body_eq f.hash b u cp mag t (showbaseStr P) hsb G2
  have hpad : ∀ n : Nat, ((width : Int) - (n : Int)).toNat = width - n := by intro n; omega
  have hL : closedCore P sg t (showbaseStr P) =
      padModel P.justify P.fill width sg
        (if cp.getD 1 - t.length > 0 ∧ (if f.hash = true ∧ t.head? = some '0' then [] else showbaseStr P).length = 1 then []
         else (if f.hash = true ∧ t.head? = some '0' then [] else showbaseStr P))
        (cp.getD 1 - t.length) t := by
    unfold closedCore padModel
    simp only [hzeros, hwidth, hpad, hnz]
    try rfl
  have hR : layoutFrom f width cp b u sg mag t =
      padSpec f.minus (f.zero && cp.isNone) width sg
        (if f.hash = true ∧ b = 16 ∧ mag ≠ 0 then (if u then ['0', 'X'] else ['0', 'x']) else [])
        (if f.hash = true ∧ b = 8 ∧ (replicate (cp.getD 1 - t.length) '0' ++ t).head? ≠ some '0'
          then '0' :: (replicate (cp.getD 1 - t.length) '0' ++ t) else (replicate (cp.getD 1 - t.length) '0' ++ t)) := by
    unfold layoutFrom padSpec
    simp only [Bool.and_eq_true, Option.isNone_iff_eq_none]
  rw [hL, hR, hjust, hfill]
  apply pad_eq
  · exact hb1
  · intro hz
    have hz0 : cp.getD 1 - t.length = 0 := by
      simp only [Bool.and_eq_true, Option.isNone_iff_eq_none] at hz
      have := G1 hz.2; rw [hz.2]; simp; omega
    exact ⟨hz0, hb2 hz0⟩


end

/-! ### the whole conversion -/

section
open List

theorem convBase_natAbs (conv : Conv) : (convBase conv).natAbs = conv.base := by cases conv <;> rfl
theorem convBase_neg (conv : Conv) : decide (convBase conv < 0) = conv.upper := by cases conv <;> rfl

theorem conv_base_cases (conv : Conv) (P : Params) (h : P.base = convBase conv) :
    (conv.base = 10 ∧ P.base = 10) ∨ (conv.base = 8 ∧ P.base = 8) ∨ (conv.base = 16 ∧ P.base = 16 ∧ conv.upper = false) ∨
    (conv.base = 16 ∧ P.base = -16 ∧ conv.upper = true) := by
  cases conv <;> simp_all [convBase, Conv.base, Conv.upper]

theorem cPrec_precInt (p : PrecArg) (hp : p ≠ .dot) :
    precInt p = (match cPrec p with | none => -1 | some n => (n : Int)) := by
  cases p with
  | none => rfl
  | dot => exact absurd rfl hp
  | num n => rfl
  | star n =>
    by_cases hn : n < 0
    · simp [precInt, cPrec, hn]
    · simp [precInt, cPrec, hn]; omega

theorem cFlags_minus (fl : List Char) (w : WidthArg) : (cFlags fl w).minus = true ↔ leftP fl w := by
  cases w <;> simp [cFlags, leftP, negStar]
theorem cFlags_zero (fl : List Char) (w : WidthArg) : (cFlags fl w).zero = true ↔ '0' ∈ fl := by simp [cFlags]
theorem precInt_neg (p : PrecArg) (hp : p ≠ .dot) : precInt p < 0 ↔ (cPrec p).isNone = true := by
  rw [cPrec_precInt p hp]; cases cPrec p <;> simp

theorem just_bridge (fl : List Char) (w : WidthArg) (p : PrecArg) (hp : p ≠ .dot) :
    (if leftP fl w then Justify.left else if '0' ∈ fl ∧ precInt p < 0 then .internal else .right) =
      (if (cFlags fl w).minus then Justify.left else if ((cFlags fl w).zero && (cPrec p).isNone) then .internal else .right) := by
  simp only [← cFlags_minus, ← cFlags_zero fl w, precInt_neg p hp, Bool.and_eq_true]

theorem fill_bridge (fl : List Char) (w : WidthArg) (p : PrecArg) (hp : p ≠ .dot) :
    (if ¬ leftP fl w ∧ '0' ∈ fl ∧ precInt p < 0 then '0' else ' ') =
      (if ¬ (cFlags fl w).minus ∧ ((cFlags fl w).zero && (cPrec p).isNone) then '0' else ' ') := by
  simp only [← cFlags_minus, ← cFlags_zero fl w, precInt_neg p hp, Bool.and_eq_true]

theorem doprntIntegerG_signed (P : Params) (neg : Bool) (ds : List Char) (hhead : ds.head? ≠ some '-') :
    doprntIntegerG false P ((if neg then ['-'] else []) ++ ds) =
      doprntIntegerCore false P (if neg then some '-' else P.sign)
        (if ds.head? = some '0' ∧ P.prec = 0 then ds.tail else ds) (showbaseStr P) := by
  cases neg <;> simp [doprntIntegerG, hhead]

/-- For every value of every size: the bytes the model of `gmp_printf ("%<fl><w><p>Z<conv>", v)` produces are
    the C99 layout rules applied to the mpz_get_str digits, with o/x/X signed. -/
theorem layoutModel_eq_spec (fl : List Char) (w : WidthArg) (p : PrecArg) (conv : Conv) (v : Int)
    (hp : p ≠ .dot) (hx : ¬ ('#' ∈ fl ∧ cPrec p = some 0 ∧ v = 0 ∧ conv.base = 16)) :
    layoutModel fl w p conv v = gmpLayoutSpec (cFlags fl w) (cWidth w) (cPrec p) conv v := by
  obtain ⟨hbase, hshow, hsign, hwidth, hprec, hjust, hfill⟩ := specParams_fields fl w p conv
  unfold layoutModel layoutModelG
  generalize specParams false fl w p conv = P at *
  have hb2 : 2 ≤ conv.base := by cases conv <;> decide
  have hb36 : conv.base ≤ 36 := by cases conv <;> decide
  -- the digit string
  unfold mpzGetStr
  rw [convBase_natAbs, convBase_neg]
  generalize hds : natDigits conv.base conv.upper v.natAbs = ds
  have hmem : ∀ c ∈ ds, c ≠ '/' ∧ c ≠ '-' := fun c hc =>
    digitTab_ne conv.upper c (by rw [← hds] at hc; exact natDigits_mem _ _ hb2 hb36 _ c hc)
  have hne : ds ≠ [] := by rw [← hds]; exact natDigits_ne_nil _ _ _
  have hhead : ds.head? ≠ some '-' := by
    cases ds with
    | nil => simp
    | cons a t => simp; exact (hmem a mem_cons_self).2
  have hsgn : (if v < 0 then ['-'] else []) = (if decide (v < 0) then ['-'] else ([] : List Char)) := by
    by_cases hv : v < 0 <;> simp [hv]
  rw [hsgn, doprntIntegerG_signed P _ ds hhead]
  -- the string after "precision 0 prints no digits for 0"
  have hgetD : (cPrec p).getD 1 = 0 ↔ P.prec = 0 := by
    rw [hprec, cPrec_precInt p hp]; cases cPrec p <;> simp
  have ht : (if ds.head? = some '0' ∧ P.prec = 0 then ds.tail else ds) =
      (if v.natAbs = 0 ∧ (cPrec p).getD 1 = 0 then [] else ds) := by
    by_cases hm : v.natAbs = 0
    · have : ds = ['0'] := by rw [← hds, hm]; exact natDigits_zero _ _
      subst this; simp [hm, hgetD]
    · have := natDigits_head_ne_zero conv.base conv.upper hb2 hb36 v.natAbs hm
      rw [hds] at this
      simp [hm, this]
  rw [ht]
  generalize htdef : (if v.natAbs = 0 ∧ (cPrec p).getD 1 = 0 then [] else ds) = t
  have hts : splitSlash t = none := by
    apply splitSlash_none
    intro c hc; rw [← htdef] at hc
    split at hc
    · cases hc
    · exact (hmem c hc).1
  rw [core_bytes P _ t _ hts]
  -- the two sides of closed_eq_layout
  have hsg : (if decide (v < 0) = true then some '-' else P.sign).toList = signChars (cFlags fl w) (decide (v < 0)) := by
    rw [hsign]
    by_cases hv : v < 0 <;> by_cases h1 : '+' ∈ fl <;> by_cases h2 : ' ' ∈ fl <;> simp [hv, h1, h2, signChars, cFlags]
  rw [hsg]
  unfold gmpLayoutSpec layoutCore
  rw [hds, htdef]
  apply closed_eq_layout
  · exact conv_base_cases conv P hbase
  · rw [hshow]; by_cases h : '#' ∈ fl <;> simp [h, cFlags]
  · exact hwidth
  · rw [hprec]; exact cPrec_precInt p hp
  · rw [hjust]; exact just_bridge fl w p hp
  · rw [hfill]; exact fill_bridge fl w p hp
  · intro hc
    rw [← htdef, hc]; simp
    exact Nat.pos_of_ne_zero (fun h => hne (List.length_eq_zero_iff.mp h))
  · intro hh h16
    have hh' : '#' ∈ fl := by simpa [cFlags] using hh
    by_cases hm : v.natAbs = 0
    · have hv0 : v = 0 := by omega
      have hp0 : ¬ (cPrec p).getD 1 = 0 := by
        intro h0
        apply hx
        refine ⟨hh', ?_, hv0, h16⟩
        cases hcp : cPrec p with
        | none => rw [hcp] at h0; simp at h0
        | some n => rw [hcp] at h0; simp at h0; rw [h0]
      have : ds = ['0'] := by rw [← hds, hm]; exact natDigits_zero _ _
      rw [← htdef]; simp [hm, hp0, this]
    · have := natDigits_head_ne_zero conv.base conv.upper hb2 hb36 v.natAbs hm
      rw [hds] at this
      rw [← htdef]; simp [hm, this]

end

/-! ### gmp_vasprintf -/

/-- the ASSERT of GMP_ASPRINTF_T_NEED / __gmp_asprintf_final: room for the terminator, no store outside -/
def AsInv (d : AsState) : Prop := d.buf.length + 1 ≤ d.alloc ∧ d.ok = true

theorem asNeed_spec (d : AsState) (n : Nat) (h : AsInv d) :
    (asNeed d n).buf = d.buf ∧ (asNeed d n).ok = d.ok ∧ d.buf.length + n + 1 ≤ (asNeed d n).alloc := by
  unfold asNeed
  obtain ⟨h1, _⟩ := h
  simp only
  split
  · refine ⟨rfl, rfl, ?_⟩; simp only; omega
  · refine ⟨rfl, rfl, ?_⟩; omega

theorem asStore_spec (d : AsState) (s : List Char) (h : AsInv d) :
    AsInv (asStore d s) ∧ (asStore d s).buf = d.buf ++ s := by
  obtain ⟨n1, n2, n3⟩ := asNeed_spec d s.length h
  unfold asStore AsInv
  simp only [n1, n2, List.length_append]
  refine ⟨⟨by omega, ?_⟩, trivial⟩
  simp [h.2]; omega

theorem asFormat_fit (d : AsState) (out : List Char) (fuel space : Nat) (h : AsInv d) (hs : out.length < space) :
    ∃ d', asFormat d out (fuel + 1) space = some d' ∧ AsInv d' ∧ d'.buf = d.buf ++ out := by
  obtain ⟨n1, n2, n3⟩ := asNeed_spec d space h
  unfold asFormat
  simp only [n1]
  have hlt : out.length < (asNeed d space).alloc - d.buf.length - 1 := by omega
  simp only [hlt, if_true]
  refine ⟨_, rfl, ⟨?_, ?_⟩, rfl⟩
  · simp only [List.length_append]; omega
  · simp [n2, h.2]; omega

theorem asFormat_spec (d : AsState) (out : List Char) (space : Nat) (h : AsInv d) :
    ∃ d', asFormat d out 3 space = some d' ∧ AsInv d' ∧ d'.buf = d.buf ++ out := by
  obtain ⟨n1, n2, n3⟩ := asNeed_spec d space h
  have hinv1 : AsInv (asNeed d space) := ⟨by rw [n1]; omega, by rw [n2]; exact h.2⟩
  unfold asFormat
  simp only [n1]
  by_cases hlt : out.length < (asNeed d space).alloc - d.buf.length - 1
  · simp only [hlt, if_true]
    refine ⟨_, rfl, ⟨?_, ?_⟩, rfl⟩
    · simp only [List.length_append]; omega
    · simp [n2, h.2]; omega
  · simp only [hlt, if_false]
    by_cases heq : out.length = (asNeed d space).alloc - d.buf.length - 1
    · simp only [heq, if_true]
      have := asFormat_fit (asNeed d space) out 1 (((asNeed d space).alloc - d.buf.length) * 2) hinv1 (by omega)
      rw [n1] at this
      exact this
    · simp only [heq, if_false]
      have := asFormat_fit (asNeed d space) out 1 (out.length + 2) hinv1 (by omega)
      rw [n1] at this
      exact this

theorem asCalls_spec (cs : List Call) : ∀ d, AsInv d →
    ∃ d', asCalls d cs = some d' ∧ AsInv d' ∧ d'.buf = d.buf ++ callsBytes cs := by
  induction cs with
  | nil => intro d h; exact ⟨d, rfl, h, by simp⟩
  | cons c cs ih =>
    intro d h
    have hc : ∃ d1, asCall d c = some d1 ∧ AsInv d1 ∧ d1.buf = d.buf ++ c.bytes := by
      cases c with
      | format o => exact asFormat_spec d o 256 h
      | memory s => exact ⟨_, rfl, asStore_spec d _ h⟩
      | reps ch n => exact ⟨_, rfl, asStore_spec d _ h⟩
    obtain ⟨d1, e1, i1, b1⟩ := hc
    obtain ⟨d2, e2, i2, b2⟩ := ih d1 i1
    refine ⟨d2, ?_, i2, ?_⟩
    · simp only [asCalls, e1, e2]
    · rw [b2, b1]; simp

/-! ### the parser forwards formats without MPIR conversions unchanged -/

/-- characters after which `__gmp_doprnt` does something itself: the MPIR type letters, `%n`, float conversions -/
def mpirChars : List Char := ['Z', 'Q', 'N', 'M', 'F', 'n', 'a', 'A', 'e', 'E', 'f', 'g', 'G']

def ModeOK : Mode → Prop
  | .text => True
  | .spec ps _ => ps.type ≠ 'Z' ∧ ps.type ≠ 'Q' ∧ ps.type ≠ 'N'

theorem doInteger_std (ps : PS) (tp : List Char) (base : Int) (st : DS)
    (h : ps.type ≠ 'Z' ∧ ps.type ≠ 'Q' ∧ ps.type ≠ 'N') :
    doInteger false ps tp base st = (match popInt st.ap with | some (_, as) => some { st with ap := as } | none => none) := by
  unfold doInteger
  simp only [h.1, h.2.1, h.2.2, if_false]
  cases popInt st.ap <;> rfl

/-- what a step may change when nothing is done here: only `ap` and the pending text -/
def Forwarded (c : Char) (st0 : DS) (m : Mode) (st : DS) : Prop :=
  ModeOK m ∧ st.pending = c :: st0.pending ∧ st.lastAp = st0.lastAp ∧ st.calls = st0.calls ∧
    st.retval = st0.retval ∧ st.stores = st0.stores

theorem stepFlag_type (ps : PS) (c : Char) : (stepFlag false ps c).type = ps.type := by
  unfold stepFlag PS.setValue; split_ifs <;> rfl

def StepOK (c : Char) (st0 : DS) : Step → Prop
  | .fail => True
  | .cont m st => Forwarded c st0 m st

theorem StepOK_ofOpt (c : Char) (st0 : DS) (o : Option DS) (h : ∀ st, o = some st → Forwarded c st0 .text st) :
    StepOK c st0 (Step.ofOpt .text o) := by
  cases o with
  | none => trivial
  | some st => exact h st rfl

theorem StepOK_ite {c : Char} {st0 : DS} {p : Prop} [Decidable p] {a b : Step}
    (ha : p → StepOK c st0 a) (hb : ¬ p → StepOK c st0 b) : StepOK c st0 (if p then a else b) := by
  split
  · exact ha ‹_›
  · exact hb ‹_›

/-- one character of a `%` sequence that is not one of `mpirChars` leaves everything for the C library -/
theorem specStep_forward (c : Char) (ps : PS) (tp : List Char) (st0 : DS)
    (hc : c ∉ mpirChars) (hm : ps.type ≠ 'Z' ∧ ps.type ≠ 'Q' ∧ ps.type ≠ 'N') :
    StepOK c st0 (specStep false c ps tp st0) := by
  simp only [mpirChars, List.mem_cons, List.not_mem_nil, or_false, not_or] at hc
  obtain ⟨hZ, hQ, hN, hM, hF, hn, ha, hA, he, hE, hf, hg, hG⟩ := hc
  have hty : ({ ps with inNum := false } : PS).type ≠ 'Z' ∧ ({ ps with inNum := false } : PS).type ≠ 'Q' ∧
      ({ ps with inNum := false } : PS).type ≠ 'N' := hm
  have hpop : ∀ (st : DS), StepOK c st0 (Step.ofOpt .text
      (match popInt st0.ap with
       | some (_, as) => some { st0 with pending := c :: st0.pending, ap := as }
       | none => none)) := by
    intro _; apply StepOK_ofOpt; intro st h
    cases hp : popInt st0.ap with
    | none => rw [hp] at h; cases h
    | some x => rw [hp] at h; cases h; exact ⟨trivial, rfl, rfl, rfl, rfl, rfl⟩
  unfold specStep
  simp only [doInteger_std _ _ _ _ hty, hZ, hQ, hN, hM, hF, hn, ha, hA, he, hE, hf, hg, hG, false_or, or_false, if_false]
  repeat' (apply StepOK_ite <;> intro _)
  all_goals first
    | exact hpop st0
    | (cases hp : popInt st0.ap <;>
        simp_all [StepOK, Forwarded, ModeOK, stepFlag_type, PS.setValue, stepDot, stepStar] <;> (try split_ifs) <;> (try simp_all))
  all_goals (clear hpop; cases hap : st0.ap <;> simp_all [StepOK, Forwarded, ModeOK])

theorem run_forward (A : List Arg) : ∀ (cs : List Char) (mode : Mode) (st : DS),
    (∀ c ∈ cs, c ∉ mpirChars) → ModeOK mode → st.calls = [] → st.retval = 0 → st.stores = [] → st.lastAp = A →
    ∀ r, run false cs mode st = some r →
      r.stores = [] ∧
      ((st.pending.reverse ++ cs = [] ∧ r.calls = [] ∧ r.retval = 0) ∨
       ∃ out, libcFormat (st.pending.reverse ++ cs) A = some out ∧ r.calls = [.format out] ∧ r.retval = out.length) := by
  intro cs
  induction cs with
  | nil =>
    intro mode st _ _ hcalls hret hstores hlast r hr
    cases mode with
    | spec ps tp => simp [run] at hr
    | text =>
      simp only [run] at hr
      by_cases hp : st.pending.isEmpty
      · simp only [hp, if_true, Option.some.injEq] at hr
        subst hr
        refine ⟨hstores, Or.inl ⟨?_, hcalls, hret⟩⟩
        simpa using hp
      · simp only [hp] at hr
        cases hl : libcFormat st.pending.reverse st.lastAp with
        | none => simp [hl] at hr
        | some out =>
          simp only [hl, Bool.false_eq_true, if_false, Option.some.injEq] at hr
          subst hr
          refine ⟨hstores, Or.inr ⟨out, ?_, ?_, ?_⟩⟩
          · simpa [hlast] using hl
          · simp [DS.emit, hcalls]
          · simp [DS.emit, hret, Call.bytes]
  | cons c cs ih =>
    intro mode st hall hm hcalls hret hstores hlast r hr
    have hc : c ∉ mpirChars := hall c List.mem_cons_self
    have hall' : ∀ x ∈ cs, x ∉ mpirChars := fun x hx => hall x (List.mem_cons_of_mem _ hx)
    have key : ∀ (m' : Mode) (st' : DS), ModeOK m' → st'.pending = c :: st.pending → st'.lastAp = st.lastAp →
        st'.calls = st.calls → st'.retval = st.retval → st'.stores = st.stores → run false cs m' st' = some r →
        r.stores = [] ∧
        ((st.pending.reverse ++ c :: cs = [] ∧ r.calls = [] ∧ r.retval = 0) ∨
         ∃ out, libcFormat (st.pending.reverse ++ c :: cs) A = some out ∧ r.calls = [.format out] ∧ r.retval = out.length) := by
      intro m' st' hm' hp hl hc' hr' hs' hrun
      have := ih m' st' hall' hm' (by rw [hc', hcalls]) (by rw [hr', hret]) (by rw [hs', hstores]) (by rw [hl, hlast]) r hrun
      rw [hp] at this
      simpa using this
    cases mode with
    | text =>
      simp only [run] at hr
      by_cases h : c = '%'
      · simp only [h, if_true] at hr
        exact key (.spec {} st.pending) { st with pending := '%' :: st.pending }
          ⟨by decide, by decide, by decide⟩ (by simp [h]) rfl rfl rfl rfl hr
      · simp only [h, if_false] at hr
        exact key .text { st with pending := c :: st.pending } trivial rfl rfl rfl rfl rfl hr
    | spec ps tp =>
      simp only [run] at hr
      have hstep := specStep_forward c ps tp st hc hm
      cases hs : specStep false c ps tp st with
      | fail => simp [hs] at hr
      | cont m' st' =>
        rw [hs] at hstep hr
        obtain ⟨h1, h2, h3, h4, h5, h6⟩ := hstep
        exact key m' st' h1 h2 h3 h4 h5 h6 hr


/-! ### shape of the layout -/

section
open List

/-- sign-less, unpadded part of the C99 layout: base prefix, precision zeros / octal 0, digits -/
def layoutBody (f : Flags) (prec : Option Nat) (base : Nat) (upper : Bool) (mag : Nat) : List Char :=
  let ds0 := if mag = 0 ∧ prec.getD 1 = 0 then [] else natDigits base upper mag
  let ds1 := List.replicate (prec.getD 1 - ds0.length) '0' ++ ds0
  let ds := if f.hash ∧ base = 8 ∧ ds1.head? ≠ some '0' then '0' :: ds1 else ds1
  let pre := if f.hash ∧ base = 16 ∧ mag ≠ 0 then (if upper then ['0', 'X'] else ['0', 'x']) else []
  pre ++ ds

theorem layoutCore_length (f : Flags) (width : Nat) (prec : Option Nat) (base : Nat) (upper : Bool)
    (sign : List Char) (mag : Nat) :
    (layoutCore f width prec base upper sign mag).length =
      max width (sign.length + (layoutBody f prec base upper mag).length) ∧
    (width ≤ sign.length + (layoutBody f prec base upper mag).length →
      layoutCore f width prec base upper sign mag = sign ++ layoutBody f prec base upper mag) := by
  unfold layoutCore layoutFrom layoutBody
  simp only
  generalize (if mag = 0 ∧ prec.getD 1 = 0 then [] else natDigits base upper mag) = ds0
  generalize (if f.hash = true ∧ base = 8 ∧ (replicate (prec.getD 1 - ds0.length) '0' ++ ds0).head? ≠ some '0'
    then '0' :: (replicate (prec.getD 1 - ds0.length) '0' ++ ds0) else replicate (prec.getD 1 - ds0.length) '0' ++ ds0) = ds
  generalize (if f.hash = true ∧ base = 16 ∧ mag ≠ 0 then (if upper = true then ['0', 'X'] else ['0', 'x']) else []) = pre
  constructor
  · split_ifs <;> simp only [length_append, length_replicate] <;> omega
  · intro h
    have : width - (sign.length + pre.length + ds.length) = 0 := by simp only [length_append] at h; omega
    rw [this]
    split_ifs <;> simp

end

end Mpir.Printf

namespace Mpir.Scanf
open Mpir.Printf

/-! ### reading back what was printed -/

theorem digitValue_digitChar (d : Nat) (h : d < 10) : digitValue (digitChar false d) = d := by
  interval_cases d <;> decide

theorem natDigits10_value : ∀ n : Nat,
    (natDigits 10 false n).foldl (fun a c => a * 10 + digitValue c) 0 = n ∧
    (∀ c ∈ natDigits 10 false n, digitValue c < 10) := by
  intro n
  induction n using Nat.strong_induction_on with
  | _ n ih =>
    rw [natDigits]
    split
    · rename_i h
      have hn : n < 10 := by rcases h with h | h <;> omega
      simp [digitValue_digitChar n hn, hn]
    · rename_i h
      have hn : ¬ n < 10 := fun h' => h (Or.inl h')
      obtain ⟨ih1, ih2⟩ := ih (n / 10) (Nat.div_lt_self (by omega) (by omega))
      have hm : n % 10 < 10 := Nat.mod_lt _ (by omega)
      refine ⟨?_, ?_⟩
      · rw [List.foldl_append, ih1]
        simp [digitValue_digitChar _ hm]; omega
      · intro c hc
        rcases List.mem_append.mp hc with h1 | h1
        · exact ih2 c h1
        · simp only [List.mem_singleton] at h1; rw [h1, digitValue_digitChar _ hm]; exact hm


/-- mpz_set_str reads back what mpz_get_str wrote, base 10 -/
theorem setStr_getStr10 (v : Int) : setStr (mpzGetStr 10 v) 10 = some v := by
  obtain ⟨hval, hall⟩ := natDigits10_value v.natAbs
  have hmem : ∀ c ∈ natDigits 10 false v.natAbs, c ≠ '/' ∧ c ≠ '-' := fun c hc =>
    digitTab_ne false c (natDigits_mem 10 false (by decide) (by decide) _ c hc)
  unfold mpzGetStr
  simp only [show (10 : Int).natAbs = 10 from rfl, show decide ((10 : Int) < 0) = false from rfl]
  generalize hds : natDigits 10 false v.natAbs = ds at *
  have hne : ds ≠ [] := by rw [← hds]; exact natDigits_ne_nil _ _ _
  cases ds with
  | nil => exact absurd rfl hne
  | cons a t =>
    have ha : a ≠ '-' := (hmem a List.mem_cons_self).2
    have hda : digitValue a < 10 := hall a List.mem_cons_self
    have hallb : (a :: t).all (fun c => decide (digitValue c < 10)) = true := by
      simp only [List.all_eq_true, decide_eq_true_eq]; exact hall
    by_cases hv : v < 0
    · simp only [hv, if_true, setStr, List.cons_append, List.nil_append, List.head?_cons, decide_true, List.tail_cons,
        show ¬ (10 : Nat) = 0 by decide, if_false]
      simp only [show ¬ digitValue a ≥ 10 by omega, if_false, hallb, if_true, hval]
      congr 1; omega
    · simp only [hv, if_false, setStr, List.nil_append, List.head?_cons, Option.some.injEq, ha, decide_false,
        Bool.false_eq_true, show ¬ (10 : Nat) = 0 by decide]
      simp only [show ¬ digitValue a ≥ 10 by omega, if_false, hallb, if_true, hval]
      congr 1; omega


end Mpir.Scanf
