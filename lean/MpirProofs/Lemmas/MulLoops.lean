/- Lemmas about the combining loops of mpn_mul (Mpir/Model/MulLoops.lean): the chunk loop of mul.c:108-137 and the
   slide loop of mul.c:210-277, and their composition with the generated dispatch skeleton.
   (Imports Props.C01_algo because the composition instantiates the callee oracle with `mpn_mul_val_partial`.) -/
import MpirProofs.Lemmas.Kernels
import MpirProofs.Props.C01_algo
import Mpir.Model.MulLoops
namespace Mpir.MulLoops
open Mpir Mpir.Skel Mpir.Gen Mpir.MulDispatch

/-! ### small facts -/

theorem toLimbs_spec : ∀ (n v : Nat), val (toLimbs n v) = v % B ^ n ∧ (toLimbs n v).length = n ∧ Limbs (toLimbs n v)
  | 0, v => by simp [toLimbs, Limbs_nil, Nat.mod_one]
  | n + 1, v => by
    obtain ⟨hv, hl, hL⟩ := toLimbs_spec n (v / B)
    refine ⟨?_, by simp [toLimbs, hl], ?_⟩
    · simp only [toLimbs, val_cons, hv, pow_succ]
      rw [Nat.mul_comm (B ^ n) B, Nat.mod_mul, Nat.add_comm]
    · simp only [toLimbs]
      exact Limbs_cons.mpr ⟨Nat.mod_lt _ B_pos, hL⟩

theorem toLimbs_of_lt {n v : Nat} (h : v < B ^ n) :
    val (toLimbs n v) = v ∧ (toLimbs n v).length = n ∧ Limbs (toLimbs n v) := by
  obtain ⟨a, b, c⟩ := toLimbs_spec n v
  exact ⟨by rw [a, Nat.mod_eq_of_lt h], b, c⟩

theorem Bpow_pos (n : Nat) : 0 < B ^ n := Nat.pow_pos B_pos

/-- a·b + t < B^(m+n) for a < B^m, b, t < B^n: the product of a chunk plus the limbs added back never needs more
    than the limbs of the product -/
theorem mul_add_lt {A N a b t : Nat} (ha : a < A) (hb : b < N) (ht : t < N) : a * b + t < A * N := by
  have h1 : a * b ≤ a * N := Nat.mul_le_mul_left a hb.le
  have h2 : (a + 1) * N ≤ A * N := Nat.mul_le_mul_right N ha
  nlinarith

theorem add_1_val (l : List Nat) (v : Nat) (hl : Limbs l) (hne : 0 < l.length) (hv : v < B) :
    val (add_1 l v).1 + B ^ l.length * (add_1 l v).2 = val l + v ∧ (add_1 l v).2 ≤ 1 ∧
    Limbs (add_1 l v).1 ∧ (add_1 l v).1.length = l.length := by
  cases l with
  | nil => simp at hne
  | cons x xs => exact add_1_val' x xs v hl hv

theorem add_n_val (u v : List Nat) (hu : Limbs u) (hv : Limbs v) (hl : u.length = v.length) :
    val (add_n u v).1 + B ^ u.length * (add_n u v).2 = val u + val v ∧ (add_n u v).2 ≤ 1 ∧
    Limbs (add_n u v).1 ∧ (add_n u v).1.length = u.length := by
  have := addNC_val u v 0 hu hv hl (by omega)
  simpa [add_n] using this

theorem mul_basecase_val (u v : List Nat) (hu : Limbs u) (hv : Limbs v) (hne : 0 < v.length) :
    val (mul_basecase u v) = val u * val v ∧ Limbs (mul_basecase u v) ∧
    (mul_basecase u v).length = u.length + v.length := by
  cases v with
  | nil => simp at hne
  | cons v0 vs => exact mul_basecase_val' u v0 vs hu hv

/-! ### (A) the chunk loop -/

/-- mul.c:120-121 / :136-137 is safe and exact whenever the sum fits the product's limbs -/
theorem addBack_spec (p tp : List Nat) (hp : Limbs p) (ht : Limbs tp) (hl : tp.length < p.length)
    (hb : val p + val tp < B ^ p.length) :
    ∃ r, addBack p tp = some r ∧ val r = val p + val tp ∧ Limbs r ∧ r.length = p.length := by
  have htl : (p.take tp.length).length = tp.length := by simp; omega
  have hdl : (p.drop tp.length).length = p.length - tp.length := by simp
  obtain ⟨av, ac, aL, an⟩ := add_n_val (p.take tp.length) tp (Limbs_take hp _) ht htl
  obtain ⟨iv, ic, iL, iN⟩ := add_1_val (p.drop tp.length) (add_n (p.take tp.length) tp).2
    (Limbs_drop hp _) (by rw [hdl]; omega) (by have := B_eq; omega)
  have hsplit := val_take_drop p tp.length (by omega)
  have hpow : B ^ p.length = B ^ tp.length * B ^ (p.length - tp.length) := by
    rw [← pow_add]; congr 1; omega
  rw [htl] at av an
  rw [hdl] at iv iN
  -- the carry out of the whole product is 0
  have hc0 : (add_1 (p.drop tp.length) (add_n (p.take tp.length) tp).2).2 = 0 := by
    by_contra hne
    have h1 : (add_1 (p.drop tp.length) (add_n (p.take tp.length) tp).2).2 = 1 := by omega
    rw [h1] at iv
    have : val p + val tp ≥ B ^ p.length := by
      rw [hpow, hsplit]
      nlinarith [Bpow_pos tp.length]
    omega
  refine ⟨(add_n (p.take tp.length) tp).1 ++ (add_1 (p.drop tp.length) (add_n (p.take tp.length) tp).2).1, ?_, ?_,
    Limbs_append.mpr ⟨aL, iL⟩, by simp only [List.length_append, an, iN]; omega⟩
  · unfold addBack
    simp only [hc0]
    rw [if_neg (by omega)]
    simp
  · rw [val_append, an, hsplit]
    rw [hc0] at iv
    nlinarith [Bpow_pos tp.length]

/-- THE "safe?" QUESTION of mul.c:121 / :137: for every chunk `c` (≥ 1 limb), every v (≥ 1 limb) and every content of
    the saved triangle, `mpn_incr_u (prodp + vn, cy)` stops inside the chunk product, and the chunk then holds
    c·v + tp exactly. -/
theorem addBack_chunk (c v tp : List Nat) (hc : Limbs c) (hv : Limbs v) (ht : Limbs tp)
    (hc1 : 0 < c.length) (hv1 : 0 < v.length) (htl : tp.length = v.length) :
    ∃ r, addBack (mul_basecase c v) tp = some r ∧ val r = val c * val v + val tp ∧ Limbs r ∧
      r.length = c.length + v.length := by
  obtain ⟨pv, pL, pn⟩ := mul_basecase_val c v hc hv hv1
  have hb : val (mul_basecase c v) + val tp < B ^ (mul_basecase c v).length := by
    rw [pv, pn, pow_add]
    exact mul_add_lt (val_lt c hc) (val_lt v hv) (htl ▸ val_lt tp ht)
  obtain ⟨r, h1, h2, h3, h4⟩ := addBack_spec _ tp pL ht (by omega) hb
  exact ⟨r, h1, by rw [h2, pv], h3, by rw [h4, pn]⟩

/-- the same with the operands in the other order (mul.c:134) -/
theorem addBack_chunk_swapped (c v tp : List Nat) (hc : Limbs c) (hv : Limbs v) (ht : Limbs tp)
    (hc1 : 0 < c.length) (_hv1 : 0 < v.length) (htl : tp.length = v.length) :
    ∃ r, addBack (mul_basecase v c) tp = some r ∧ val r = val c * val v + val tp ∧ Limbs r ∧
      r.length = c.length + v.length := by
  obtain ⟨pv, pL, pn⟩ := mul_basecase_val v c hv hc hc1
  have hb : val (mul_basecase v c) + val tp < B ^ (mul_basecase v c).length := by
    rw [pv, pn, pow_add, Nat.mul_comm (val v), Nat.mul_comm (B ^ v.length)]
    exact mul_add_lt (val_lt c hc) (val_lt v hv) (htl ▸ val_lt tp ht)
  obtain ⟨r, h1, h2, h3, h4⟩ := addBack_spec _ tp pL ht (by omega) hb
  exact ⟨r, h1, by rw [h2, pv, Nat.mul_comm], h3, by rw [h4, pn]; omega⟩

/-- Loop invariant of mul.c:117-126 for operands u, v: the limbs below prodp plus the saved triangle are exactly
    (the low part of u already consumed) · v. -/
structure ChunkInv (u v : List Nat) (s : ChunkSt) : Prop where
  up_eq : s.up = u.drop s.done.length
  len_le : s.done.length ≤ u.length
  tp_len : s.tp.length = v.length
  limbs_done : Limbs s.done
  limbs_tp : Limbs s.tp
  value : val s.done + B ^ s.done.length * val s.tp = val (u.take s.done.length) * val v

theorem chunkInit_inv (M : Nat) (u v : List Nat) (hu : Limbs u) (hv : Limbs v) (hv1 : 0 < v.length)
    (hM : M ≤ u.length) :
    ChunkInv u v (chunkInit M u v) ∧ (chunkInit M u v).done.length = M := by
  obtain ⟨pv, pL, pn⟩ := mul_basecase_val (u.take M) v (Limbs_take hu _) hv hv1
  have htl : (u.take M).length = M := by simp; omega
  rw [htl] at pn
  have hd : ((mul_basecase (u.take M) v).take M).length = M := by simp; omega
  have htp : ((mul_basecase (u.take M) v).drop M).take v.length = (mul_basecase (u.take M) v).drop M := by
    apply List.take_of_length_le; simp; omega
  have hsplit := val_take_drop (mul_basecase (u.take M) v) M (by omega)
  refine ⟨⟨?_, ?_, ?_, ?_, ?_, ?_⟩, ?_⟩ <;> simp only [chunkInit, hd, htp]
  · omega
  · simp; omega
  · exact Limbs_take pL _
  · exact Limbs_drop pL _
  · rw [← hsplit, pv]

theorem take_add_val (u : List Nat) (a m : Nat) (ha : a ≤ u.length) :
    val (u.take (a + m)) = val (u.take a) + B ^ a * val ((u.drop a).take m) := by
  rw [List.take_add, val_append]
  simp [Nat.min_eq_left ha]

theorem chunkIter_inv (M : Nat) (hM : 1 ≤ M) (u v : List Nat) (hu : Limbs u) (hv : Limbs v) (hv1 : 0 < v.length)
    (s : ChunkSt) (hs : ChunkInv u v s) (hgt : s.up.length > M) :
    ∃ s', chunkIter M v s = some s' ∧ ChunkInv u v s' ∧ s'.done.length = s.done.length + M := by
  obtain ⟨hup, hle, htpl, hLd, hLt, hval⟩ := hs
  have hupl : s.up.length = u.length - s.done.length := by rw [hup]; simp
  have hLup : Limbs s.up := by rw [hup]; exact Limbs_drop hu _
  have hcl : (s.up.take M).length = M := by simp; omega
  obtain ⟨r, h1, h2, h3, h4⟩ := addBack_chunk (s.up.take M) v s.tp (Limbs_take hLup _) hv hLt (by omega) hv1 htpl
  rw [hcl] at h4
  have hd : (r.take M).length = M := by simp; omega
  have htp : (r.drop M).take v.length = r.drop M := by
    apply List.take_of_length_le; simp; omega
  have hsplit := val_take_drop r M (by omega)
  refine ⟨⟨s.done ++ r.take M, (r.drop M).take v.length, s.up.drop M⟩, by simp only [chunkIter, h1], ?_, ?_⟩
  · refine ⟨?_, ?_, ?_, ?_, ?_, ?_⟩ <;> simp only [htp, List.length_append, hd]
    · rw [hup, List.drop_drop]
    · omega
    · simp; omega
    · exact Limbs_append.mpr ⟨hLd, Limbs_take h3 _⟩
    · exact Limbs_drop h3 _
    · rw [val_append, take_add_val u _ M hle, ← hup]
      have e1 : val s.done + B ^ s.done.length * val (r.take M) + B ^ (s.done.length + M) * val (r.drop M)
          = val s.done + B ^ s.done.length * val r := by rw [hsplit, pow_add]; ring
      have e2 : val s.done + B ^ s.done.length * val r
          = (val s.done + B ^ s.done.length * val s.tp) + B ^ s.done.length * (val (s.up.take M) * val v) := by
        rw [h2]; ring
      rw [e1, e2, hval]; ring
  · simp only [List.length_append, hd]

theorem chunkFinal_exact (u v : List Nat) (hu : Limbs u) (hv : Limbs v) (hv1 : 0 < v.length)
    (s : ChunkSt) (hs : ChunkInv u v s) (h1 : 1 ≤ s.up.length) :
    ∃ r, chunkFinal v s = some r ∧ val r = val u * val v ∧ Limbs r ∧ r.length = u.length + v.length := by
  obtain ⟨hup, hle, htpl, hLd, hLt, hval⟩ := hs
  have hupl : s.up.length = u.length - s.done.length := by rw [hup]; simp
  have hLup : Limbs s.up := by rw [hup]; exact Limbs_drop hu _
  have hsplit := val_take_drop u s.done.length hle
  have key : ∀ r, val r = val s.up * val v + val s.tp → Limbs r → r.length = s.up.length + v.length →
      val (s.done ++ r) = val u * val v ∧ Limbs (s.done ++ r) ∧ (s.done ++ r).length = u.length + v.length := by
    intro r e1 e2 e3
    refine ⟨?_, Limbs_append.mpr ⟨hLd, e2⟩, by simp only [List.length_append, e3]; omega⟩
    rw [val_append, e1, hsplit, ← hup]
    have : val s.done + B ^ s.done.length * (val s.up * val v + val s.tp)
        = (val s.done + B ^ s.done.length * val s.tp) + B ^ s.done.length * (val s.up * val v) := by ring
    rw [this, hval]; ring
  unfold chunkFinal
  split_ifs with c1 c2
  · obtain ⟨r, a1, a2, a3, a4⟩ := addBack_chunk s.up v s.tp hLup hv hLt (by omega) hv1 htpl
    exact ⟨s.done ++ r, by simp [a1], key r a2 a3 a4⟩
  · omega
  · obtain ⟨r, a1, a2, a3, a4⟩ := addBack_chunk_swapped s.up v s.tp hLup hv hLt (by omega) hv1 htpl
    exact ⟨s.done ++ r, by simp [a1], key r a2 a3 a4⟩

theorem chunkLoop_exact (M : Nat) (hM : 1 ≤ M) (u v : List Nat) (hu : Limbs u) (hv : Limbs v) (hv1 : 0 < v.length) :
    ∀ (fuel : Nat) (s : ChunkSt), ChunkInv u v s → 1 ≤ s.up.length → s.up.length ≤ fuel →
    ∃ r, chunkLoop M v fuel s = some r ∧ val r = val u * val v ∧ Limbs r ∧ r.length = u.length + v.length
  | 0, s, _, h1, h2 => by omega
  | fuel + 1, s, hs, h1, h2 => by
    unfold chunkLoop
    split_ifs with c
    · obtain ⟨s', e1, e2, e3⟩ := chunkIter_inv M hM u v hu hv hv1 s hs c
      have l0 : s.up.length = u.length - s.done.length := by rw [hs.up_eq]; simp
      have l1 : s'.up.length = u.length - s'.done.length := by rw [e2.up_eq]; simp
      simp only [e1]
      exact chunkLoop_exact M hM u v hu hv hv1 fuel s' e2 (by omega) (by omega)
    · exact chunkFinal_exact u v hu hv hv1 s hs h1

/-- the state at the head of the loop mul.c:117 after `k` iterations (`none` if the loop has ended before) -/
def chunkAfter (M : Nat) (u v : List Nat) : Nat → Option ChunkSt
  | 0 => some (chunkInit M u v)
  | k + 1 => (chunkAfter M u v k).bind (fun s => if s.up.length > M then chunkIter M v s else none)

theorem chunkAfter_inv (M : Nat) (hM : 1 ≤ M) (u v : List Nat) (hu : Limbs u) (hv : Limbs v) (hv1 : 0 < v.length) :
    ∀ k, (k + 1) * M < u.length →
      ∃ s, chunkAfter M u v k = some s ∧ ChunkInv u v s ∧ s.done.length = (k + 1) * M
  | 0, h => by
    obtain ⟨a, b⟩ := chunkInit_inv M u v hu hv hv1 (by omega)
    exact ⟨_, rfl, a, by rw [b]; omega⟩
  | k + 1, h => by
    obtain ⟨s, e1, e2, e3⟩ := chunkAfter_inv M hM u v hu hv hv1 k (by nlinarith)
    have l0 : s.up.length = u.length - s.done.length := by rw [e2.up_eq]; simp
    have h' : (k + 1 + 1) * M = (k + 1) * M + M := by ring
    have hgt : s.up.length > M := by rw [l0, e3]; omega
    obtain ⟨s', f1, f2, f3⟩ := chunkIter_inv M hM u v hu hv hv1 s e2 hgt
    refine ⟨s', ?_, f2, by rw [f3, e3]; ring⟩
    simp only [chunkAfter, e1, Option.bind_some, if_pos hgt, f1]

theorem mulChunked_exact (M : Nat) (hM : 1 ≤ M) (u v : List Nat) (hu : Limbs u) (hv : Limbs v) (hv1 : 1 ≤ v.length)
    (hun : M < u.length) :
    ∃ r, mulChunked M u v = some r ∧ val r = val u * val v ∧ Limbs r ∧ r.length = u.length + v.length := by
  obtain ⟨a, b⟩ := chunkInit_inv M u v hu hv hv1 (by omega)
  have l0 : (chunkInit M u v).up.length = u.length - (chunkInit M u v).done.length := by rw [a.up_eq]; simp
  unfold mulChunked
  rw [if_neg (by omega)]
  exact chunkLoop_exact M hM u v hu hv hv1 u.length _ a (by omega) (by omega)

/-! ### (B) the slide loop -/

/-- mul.c:235-248 / :263-273: the window and the pending carry together grow by exactly the product added,
    whatever the relative sizes (all three branches), as long as `t += carry` does not wrap. -/
theorem accum_spec (w ws : List Nat) (t : Nat) (hw : Limbs w) (hws : Limbs ws) (ht : t + 1 < B) :
    val (accum w ws t).1 + B ^ (accum w ws t).1.length * (accum w ws t).2 = val w + B ^ w.length * t + val ws ∧
    (accum w ws t).1.length = max w.length ws.length ∧ Limbs (accum w ws t).1 := by
  unfold accum
  simp only []
  split_ifs with c1 c2
  · -- l < m
    have htl : (ws.take w.length).length = w.length := by simp; omega
    have hdl : (ws.drop w.length).length = ws.length - w.length := by simp
    obtain ⟨av, ac, aL, an⟩ := add_n_val w (ws.take w.length) hw (Limbs_take hws _) htl.symm
    have ht1 : (t + (add_n w (ws.take w.length)).2) % B = t + (add_n w (ws.take w.length)).2 :=
      Nat.mod_eq_of_lt (by omega)
    rw [ht1]
    obtain ⟨iv, ic, iL, iN⟩ := add_1_val (ws.drop w.length) (t + (add_n w (ws.take w.length)).2)
      (Limbs_drop hws _) (by rw [hdl]; omega) (by omega)
    have hsplit := val_take_drop ws w.length c1
    rw [hdl] at iv iN
    refine ⟨?_, by simp only [List.length_append, an, iN]; omega, Limbs_append.mpr ⟨aL, iL⟩⟩
    simp only [List.length_append, an, iN, val_append, pow_add]
    rw [hsplit]
    generalize (add_1 (ws.drop w.length) (t + (add_n w (ws.take w.length)).2)) = h at *
    generalize (add_n w (ws.take w.length)) = a at *
    linear_combination av + B ^ w.length * iv
  · -- l = m
    have hlm : w.length = ws.length := by omega
    have htk : ws.take w.length = ws := by rw [hlm]; exact List.take_length
    rw [htk]
    obtain ⟨av, ac, aL, an⟩ := add_n_val w ws hw hws hlm
    have ht1 : (t + (add_n w ws).2) % B = t + (add_n w ws).2 := Nat.mod_eq_of_lt (by omega)
    rw [ht1]
    refine ⟨?_, by rw [an]; omega, aL⟩
    rw [an]
    linear_combination av
  · -- l > m
    have htl : (w.take ws.length).length = ws.length := by simp; omega
    have hdl : (w.drop ws.length).length = w.length - ws.length := by simp
    obtain ⟨av, ac, aL, an⟩ := add_n_val (w.take ws.length) ws (Limbs_take hw _) hws htl
    obtain ⟨iv, ic, iL, iN⟩ := add_1_val (w.drop ws.length) (add_n (w.take ws.length) ws).2
      (Limbs_drop hw _) (by rw [hdl]; omega) (by have := B_eq; omega)
    have ht1 : (t + (add_1 (w.drop ws.length) (add_n (w.take ws.length) ws).2).2) % B
        = t + (add_1 (w.drop ws.length) (add_n (w.take ws.length) ws).2).2 := Nat.mod_eq_of_lt (by omega)
    rw [ht1]
    have hsplit := val_take_drop w ws.length (by omega)
    rw [htl] at av an
    rw [hdl] at iv iN
    have hpow : B ^ w.length = B ^ ws.length * B ^ (w.length - ws.length) := by
      rw [← pow_add]; congr 1; omega
    refine ⟨?_, by simp only [List.length_append, an, iN]; omega, Limbs_append.mpr ⟨aL, iL⟩⟩
    simp only [List.length_append, an, iN, val_append, pow_add]
    rw [hsplit, hpow]
    generalize (add_1 (w.drop ws.length) (add_n (w.take ws.length) ws).2) = h at *
    generalize (add_n (w.take ws.length) ws) = a at *
    linear_combination av + B ^ ws.length * iv

/-- arithmetic of one slide step: the new overhang X' stays below B^(l-vn) + B^vn  (b = B^vn, q = B^(l-vn)) -/
theorem slide_small {b q X a v lo X' : Nat} (hb : 0 < b) (ha : a < b) (hv : v < b) (hX : X < b * q + b)
    (h : X + a * v = lo + b * X') : X' < q + b := by
  obtain ⟨c, rfl⟩ : ∃ c, b = c + 1 := ⟨b - 1, by omega⟩
  have h1 : a * v ≤ c * c := Nat.mul_le_mul (by omega) (by omega)
  apply Nat.lt_of_mul_lt_mul_left (a := c + 1)
  nlinarith

/-- … and what is still to be added keeps fitting the limbs that are left -/
theorem slide_fits {b Q X a v u' lo X' : Nat} (h : X + a * v = lo + b * X')
    (hf : X + (a + b * u') * v < b * Q) : X' + u' * v < Q := by
  apply Nat.lt_of_mul_lt_mul_left (a := b)
  nlinarith

/-- what the slide loop assumes of its callee mpn_mul_n: on equal-length operands of kt ≤ n ≤ N limbs it returns the
    2n limbs of the exact product -/
def MulNExact (kt N : Nat) (mulN : List Nat → List Nat → Option (List Nat)) : Prop :=
  ∀ a b : List Nat, Limbs a → Limbs b → a.length = b.length → kt ≤ a.length → a.length ≤ N →
    ∃ r, mulN a b = some r ∧ val r = val a * val b ∧ Limbs r ∧ r.length = 2 * a.length

/-- Loop invariant of mul.c:232-258 (state: window `w` of l limbs, pending carry `t`, current up/vp):
    vn ≤ l ≤ un; the overhang of the products added so far, X = w + t·B^l, is below B^l + B^vn (so t ≤ 1: `t += carry`
    never wraps and is never lost); what is still to come fits the un + vn limbs that are left. -/
structure SlideInv (N : Nat) (w : List Nat) (t : Nat) (up vp : List Nat) : Prop where
  hw : Limbs w
  hu : Limbs up
  hv : Limbs vp
  vl : vp.length ≤ w.length
  lu : w.length ≤ up.length
  vN : vp.length ≤ N
  zl : vp.length = 0 → w.length = up.length
  small : val w + B ^ w.length * t < B ^ w.length + B ^ vp.length
  fits : val w + B ^ w.length * t + val up * val vp < B ^ (up.length + vp.length)

theorem SlideInv.t_le {N : Nat} {w : List Nat} {t : Nat} {up vp : List Nat} (h : SlideInv N w t up vp) : t ≤ 1 := by
  have h1 : B ^ vp.length ≤ B ^ w.length := Nat.pow_le_pow_right B_pos h.vl
  have h2 := h.small
  by_contra hc
  have : 2 ≤ t := by omega
  nlinarith [Bpow_pos w.length]

theorem slideLoop_exact (kt N : Nat) (hkt : 1 ≤ kt) (mulN : List Nat → List Nat → Option (List Nat))
    (hmul : MulNExact kt N mulN) :
    ∀ (fuel : Nat) (done w : List Nat) (t : Nat) (up vp : List Nat), Limbs done → SlideInv N w t up vp →
      up.length + vp.length < fuel →
      ∃ r, slideLoop kt mulN fuel done w t up vp = some r ∧
        val r = val done + B ^ done.length * (val w + B ^ w.length * t + val up * val vp) ∧
        Limbs r ∧ r.length = done.length + up.length + vp.length
  | 0, _, _, _, _, _, _, _, hf => by omega
  | fuel + 1, done, w, t, up, vp, hd, hs, hf => by
    have ht := hs.t_le
    obtain ⟨hw, hu, hv, vl, lu, vN, zl, small, fits⟩ := hs
    have hB := B_eq
    rw [slideLoop]
    simp only []
    by_cases c1 : vp.length ≥ kt
    · rw [if_pos c1]
      have hvn1 : 1 ≤ vp.length := by omega
      have htl : (up.take vp.length).length = vp.length := by simp; omega
      obtain ⟨ws, e1, e2, e3, e4⟩ := hmul (up.take vp.length) vp (Limbs_take hu _) hv htl (by omega) (by omega)
      rw [htl] at e4
      obtain ⟨av, an, aL⟩ := accum_spec w ws t hw e3 (by omega)
      rw [e4] at an
      simp only [e1]
      generalize accum w ws t = r at *
      have hsplitR := val_take_drop r.1 vp.length (by omega)
      have hsplitU := val_take_drop up vp.length (by omega)
      have hlo : (r.1.take vp.length).length = vp.length := by simp; omega
      have hwl' : (r.1.drop vp.length).length = max w.length (2 * vp.length) - vp.length := by simp [an]
      have hul' : (up.drop vp.length).length = up.length - vp.length := by simp
      have hpowL : B ^ (max w.length (2 * vp.length))
          = B ^ vp.length * B ^ (max w.length (2 * vp.length) - vp.length) := by
        rw [← pow_add]; congr 1; omega
      have hpowl : B ^ w.length = B ^ vp.length * B ^ (w.length - vp.length) := by
        rw [← pow_add]; congr 1; omega
      have hpowu : B ^ (up.length + vp.length) = B ^ vp.length * B ^ up.length := by
        rw [← pow_add]; congr 1; omega
      have step : (val w + B ^ w.length * t) + val (up.take vp.length) * val vp
          = val (r.1.take vp.length) + B ^ vp.length *
              (val (r.1.drop vp.length) + B ^ (max w.length (2 * vp.length) - vp.length) * r.2) := by
        rw [an, hpowL, hsplitR, e2] at av
        have av' := av.symm
        linear_combination av'
      have ha : val (up.take vp.length) < B ^ vp.length := by
        have := val_lt _ (Limbs_take hu vp.length); rwa [htl] at this
      have hX' := slide_small (Bpow_pos vp.length) ha (val_lt vp hv)
        (by rw [← hpowl]; exact small) step
      have hfit' := slide_fits (Q := B ^ up.length) (u' := val (up.drop vp.length)) step
        (by rw [← hsplitU, ← hpowu]; exact fits)
      have hdone' : Limbs (done ++ r.1.take vp.length) := Limbs_append.mpr ⟨hd, Limbs_take aL _⟩
      -- value bookkeeping shared by both continuations
      have hvalue : ∀ res : Nat,
          res = val (done ++ r.1.take vp.length) + B ^ (done ++ r.1.take vp.length).length *
            (val (r.1.drop vp.length) + B ^ (max w.length (2 * vp.length) - vp.length) * r.2
              + val (up.drop vp.length) * val vp) →
          res = val done + B ^ done.length * (val w + B ^ w.length * t + val up * val vp) := by
        intro res hres
        rw [hres, val_append, List.length_append, hlo, pow_add, hsplitU]
        linear_combination (B ^ done.length) * step.symm
      by_cases c2 : (up.drop vp.length).length < vp.length
      · rw [if_pos c2]
        rw [hul'] at c2
        have inv' : SlideInv N (r.1.drop vp.length) r.2 vp (up.drop vp.length) := by
          refine ⟨Limbs_drop aL _, hv, Limbs_drop hu _, by omega, by omega, by omega, by omega, ?_, ?_⟩
          · rw [hwl', hul']
            have m1 : B ^ (w.length - vp.length) ≤ B ^ (up.length - vp.length) :=
              Nat.pow_le_pow_right B_pos (by omega)
            have m2 : max w.length (2 * vp.length) - vp.length = vp.length := by omega
            rw [m2] at hX' ⊢
            omega
          · rw [hwl', hul']
            have m3 : vp.length + (up.length - vp.length) = up.length := by omega
            rw [m3, Nat.mul_comm (val vp)]
            exact hfit'
        obtain ⟨res, f1, f2, f3, f4⟩ := slideLoop_exact kt N hkt mulN hmul fuel _ _ _ _ _ hdone' inv' (by omega)
        refine ⟨res, f1, hvalue _ ?_, f3, ?_⟩
        · rw [f2, hwl', Nat.mul_comm (val vp)]
        · rw [f4, List.length_append, hlo, hul']; omega
      · rw [if_neg c2]
        rw [hul'] at c2
        have inv' : SlideInv N (r.1.drop vp.length) r.2 (up.drop vp.length) vp := by
          refine ⟨Limbs_drop aL _, Limbs_drop hu _, hv, by omega, by omega, by omega, by omega, ?_, ?_⟩
          · rw [hwl']
            have m1 : B ^ (w.length - vp.length) ≤ B ^ (max w.length (2 * vp.length) - vp.length) :=
              Nat.pow_le_pow_right B_pos (by omega)
            omega
          · rw [hwl', hul']
            have m3 : up.length - vp.length + vp.length = up.length := by omega
            rw [m3]
            exact hfit'
        obtain ⟨res, f1, f2, f3, f4⟩ := slideLoop_exact kt N hkt mulN hmul fuel _ _ _ _ _ hdone' inv' (by omega)
        refine ⟨res, f1, hvalue _ ?_, f3, ?_⟩
        · rw [f2, hwl']
        · rw [f4, List.length_append, hlo, hul']; omega
    · rw [if_neg c1]
      by_cases c3 : vp.length ≠ 0
      · rw [if_pos c3]
        obtain ⟨pv, pL, pn⟩ := mul_basecase_val up vp hu hv (by omega)
        obtain ⟨av, an, aL⟩ := accum_spec w (mul_basecase up vp) t hw pL (by omega)
        rw [pn] at an
        generalize accum w (mul_basecase up vp) t = r at *
        have m : max w.length (up.length + vp.length) = up.length + vp.length := by omega
        rw [an, m, pv] at av
        have hr0 : r.2 = 0 := by
          by_contra hne
          have : 1 ≤ r.2 := by omega
          nlinarith [Bpow_pos (up.length + vp.length)]
        rw [hr0] at av
        refine ⟨done ++ r.1, rfl, ?_, Limbs_append.mpr ⟨hd, aL⟩, by rw [List.length_append, an]; omega⟩
        rw [val_append]
        linear_combination (B ^ done.length) * av
      · rw [if_neg c3]
        have hv0 : vp.length = 0 := by omega
        have hvnil : vp = [] := List.eq_nil_of_length_eq_zero hv0
        have hl := zl hv0
        rw [hvnil] at fits ⊢
        simp only [val_nil, Nat.mul_zero, Nat.add_zero, List.length_nil] at fits ⊢
        rw [← hl] at fits
        have ht0 : t = 0 := by
          by_contra hne
          have : 1 ≤ t := by omega
          nlinarith [Bpow_pos w.length]
        refine ⟨done ++ w, rfl, ?_, Limbs_append.mpr ⟨hd, hw⟩, by rw [List.length_append]; omega⟩
        rw [val_append, ht0]; ring

theorem val_mul_lt (u v : List Nat) (hu : Limbs u) (hv : Limbs v) : val u * val v < B ^ (u.length + v.length) := by
  rw [pow_add]
  exact Nat.mul_lt_mul'' (val_lt u hu) (val_lt v hv)

theorem mulSlide_exact (kt : Nat) (hkt : 1 ≤ kt) (mulN : List Nat → List Nat → Option (List Nat))
    (u v : List Nat) (hu : Limbs u) (hv : Limbs v) (hvk : kt ≤ v.length) (huv : v.length < u.length)
    (hmul : MulNExact kt v.length mulN) :
    ∃ r, mulSlide kt mulN u v = some r ∧ val r = val u * val v ∧ Limbs r ∧ r.length = u.length + v.length := by
  have hvn1 : 1 ≤ v.length := by omega
  have htl : (u.take v.length).length = v.length := by simp; omega
  obtain ⟨p, e1, e2, e3, e4⟩ := hmul (u.take v.length) v (Limbs_take hu _) hv htl (by omega) (by omega)
  rw [htl] at e4
  have hsplitP := val_take_drop p v.length (by omega)
  have hsplitU := val_take_drop u v.length (by omega)
  have hlo : (p.take v.length).length = v.length := by simp; omega
  have hwl : (p.drop v.length).length = v.length := by simp; omega
  have hul : (u.drop v.length).length = u.length - v.length := by simp
  have hpowu : B ^ (u.length + v.length) = B ^ v.length * B ^ u.length := by
    rw [← pow_add]; congr 1; omega
  have hw := val_lt _ (Limbs_drop e3 v.length)
  rw [hwl] at hw
  -- what remains after the first product fits the remaining un limbs
  have hfit : val (p.drop v.length) + val (u.drop v.length) * val v < B ^ u.length := by
    have h1 := val_mul_lt u v hu hv
    rw [hpowu, hsplitU] at h1
    apply Nat.lt_of_mul_lt_mul_left (a := B ^ v.length)
    have : val (p.take v.length) + B ^ v.length * val (p.drop v.length) = val (u.take v.length) * val v := by
      rw [← hsplitP, e2]
    nlinarith
  have hvalue : ∀ res : Nat,
      res = val (p.take v.length) + B ^ (p.take v.length).length *
        (val (p.drop v.length) + B ^ (p.drop v.length).length * 0 + val (u.drop v.length) * val v) →
      res = val u * val v := by
    intro res hres
    rw [hres, hlo, hsplitU]
    have : val (p.take v.length) + B ^ v.length * val (p.drop v.length) = val (u.take v.length) * val v := by
      rw [← hsplitP, e2]
    linear_combination this
  unfold mulSlide
  simp only []
  rw [if_neg (by omega)]
  simp only [e1]
  by_cases c2 : (u.drop v.length).length < v.length
  · rw [if_pos c2]
    rw [hul] at c2
    have inv : SlideInv v.length (p.drop v.length) 0 v (u.drop v.length) := by
      refine ⟨Limbs_drop e3 _, hv, Limbs_drop hu _, by omega, by omega, by omega, by omega, ?_, ?_⟩
      · rw [hwl]; have := Bpow_pos (u.drop v.length).length; omega
      · rw [hwl, hul]
        have m3 : v.length + (u.length - v.length) = u.length := by omega
        rw [m3, Nat.mul_comm (val v)]
        simpa using hfit
    obtain ⟨res, f1, f2, f3, f4⟩ := slideLoop_exact kt v.length hkt mulN hmul (u.length + 1) _ _ _ _ _
      (Limbs_take e3 v.length) inv (by omega)
    refine ⟨res, f1, hvalue _ ?_, f3, ?_⟩
    · rw [f2, Nat.mul_comm (val v)]
    · rw [f4, hlo, hul]; omega
  · rw [if_neg c2]
    rw [hul] at c2
    have inv : SlideInv v.length (p.drop v.length) 0 (u.drop v.length) v := by
      refine ⟨Limbs_drop e3 _, Limbs_drop hu _, hv, by omega, by omega, by omega, by omega, ?_, ?_⟩
      · rw [hwl]; have := Bpow_pos v.length; omega
      · rw [hwl, hul]
        have m3 : u.length - v.length + v.length = u.length := by omega
        rw [m3]
        simpa using hfit
    obtain ⟨res, f1, f2, f3, f4⟩ := slideLoop_exact kt v.length hkt mulN hmul (u.length + 1) _ _ _ _ _
      (Limbs_take e3 v.length) inv (by omega)
    refine ⟨res, f1, hvalue _ f2, f3, ?_⟩
    rw [f4, hlo, hul]; omega

/-! ### (C) composition with the generated skeletons -/

theorem mem_of_products {r : Res} {e : Ev} (h : e ∈ products r) : e ∈ r.trace := (List.mem_filter.mp h).1

/-- every product call the skeleton of mpn_mul_n makes is inside its callee's domain (from `mul_n_ok`) -/
theorem runMulN_domain (P : Params) (hP : Valid P) (n : Nat) (hn : 1 ≤ n) (e : Ev)
    (he : e ∈ products (runMulN P n)) : domainOk P e = true := by
  have g := mul_n_ok P hP 0 (n : Int) 2 0 3 0 (by exact_mod_cast hn)
  have hm := mem_of_products he
  unfold runMulN at hm
  generalize Mpir.Gen.MulDispatch.mpn_mul_n P 0 [] 1 0 2 0 3 0 (n : Int) = res at g hm
  cases res with
  | void tr => exact g e (by simpa [Res.trace] using hm)
  | ret tr v => exact absurd g (by simp [GoodVoid])
  | nofuel tr => exact absurd g (by simp [GoodVoid])

/-- every product call the skeleton of mpn_mul makes is inside its callee's domain (from `mul_ok`) -/
theorem runMul_domain (P : Params) (hP : Valid P) (un vn : Nat) (hv : 1 ≤ vn) (hu : vn ≤ un) (e : Ev)
    (he : e ∈ products (runMul P false un vn)) : domainOk P e = true := by
  have g := mul_ok P hP (un + 2) (un : Int) (vn : Int) 2 0 3 0 (by exact_mod_cast hv) (by exact_mod_cast hu)
    (by push_cast; omega)
  have hm := mem_of_products he
  unfold runMul at hm
  simp only [Bool.false_eq_true, if_false] at hm
  generalize Mpir.Gen.MulDispatch.mpn_mul P (un + 2) [] 1 0 2 0 (un : Int) 3 0 (vn : Int) = res at g hm
  cases res with
  | ret tr v =>
    cases v with
    | ptr b off => exact g.2.2 e (by simpa [Res.trace] using hm)
    | sz _ => exact absurd g (by simp [Good])
    | data => exact absurd g (by simp [Good])
  | void tr => exact absurd g (by simp [Good])
  | nofuel tr => exact absurd g (by simp [Good])

/-- a value-modelled call inside its domain returns the exact product (`mpn_mul_val_partial` plus definedness) -/
theorem callValue_exact (P : Params) (hP : Valid P) (e : Ev) (hm : modelled1 e = true) (hd : domainOk P e = true)
    (x y : Nat) : callValue P e x y = some (x * y) := by
  have hdef : ∃ r, callValue P e x y = some r := by
    unfold modelled1 at hm
    split at hm
    · rename_i n hargs
      simp only [Bool.or_eq_true, decide_eq_true_eq] at hm
      rcases hm with (h | h) | h
      · have hn : n ≥ 2 := by
          have : e = ⟨"mpn_kara_mul_n", e.args⟩ := by cases e; simp_all
          rw [this] at hd
          unfold domainOk at hd
          unfold sizeArgs at hargs hd
          simp only [hargs] at hd
          simp at hd; omega
        obtain ⟨hk3, _⟩ := hP
        refine ⟨x * y, ?_⟩
        unfold callValue
        simp only [hargs, h, if_true]
        exact MulAlgo.kara_mul_n_eq _ (by omega) _ (by omega) x y
      · exact ⟨_, by unfold callValue; simp [hargs, h]; rfl⟩
      · exact ⟨_, by unfold callValue; simp [hargs, h]; rfl⟩
    · rename_i an bn hargs
      simp only [Bool.or_eq_true, decide_eq_true_eq] at hm
      rcases hm with (((h | h) | h) | h) | h <;>
        exact ⟨_, by unfold callValue; simp [hargs, h]; rfl⟩
    · exact absurd hm (by simp)
  obtain ⟨r, hr⟩ := hdef
  rw [hr, mpn_mul_val_partial P hP e hd x y r hr]

/-- the model of mpn_mul_n returns the exact 2n-limb product at every covered size -/
theorem mulNModel_exact (P : Params) (hP : Valid P) (a b : List Nat) (ha : Limbs a) (hb : Limbs b)
    (hl : a.length = b.length) (h1 : 1 ≤ a.length) (hc : coveredN P a.length = true) :
    ∃ r, mulNModel P a b = some r ∧ val r = val a * val b ∧ Limbs r ∧ r.length = 2 * a.length := by
  unfold coveredN at hc
  unfold mulNModel
  generalize hpr : products (runMulN P a.length) = L at hc ⊢
  match L, hc with
  | [e], hc =>
    have hd := runMulN_domain P hP a.length h1 e (by rw [hpr]; simp)
    simp only []
    by_cases hbn : e.name = "mpn_mul_basecase"
    · rw [if_pos hbn]
      obtain ⟨pv, pL, pn⟩ := mul_basecase_val a b ha hb (by omega)
      exact ⟨_, rfl, pv, pL, by omega⟩
    · rw [if_neg hbn]
      have hm : modelled1 e = true := by simpa [hbn] using hc
      rw [callValue_exact P hP e hm hd]
      obtain ⟨t1, t2, t3⟩ := toLimbs_of_lt (n := 2 * a.length) (v := val a * val b)
        (by have := val_mul_lt a b ha hb; rwa [← hl, ← two_mul] at this)
      exact ⟨_, rfl, t1, t3, t2⟩
  | [], hc => exact absurd hc (by simp)
  | _ :: _ :: _, hc => exact absurd hc (by simp)

/-- mpn_mul as modelled over the generated skeleton returns the exact product wherever `covered` holds -/
theorem mpnMulModel_exact (P : Params) (hP : Valid P) (u v : List Nat) (hu : Limbs u) (hv : Limbs v)
    (hv1 : 1 ≤ v.length) (huv : v.length ≤ u.length) (hc : covered P u.length v.length = true) :
    ∃ r, mpnMulModel P u v = some r ∧ val r = val u * val v ∧ Limbs r ∧ r.length = u.length + v.length := by
  unfold covered at hc
  unfold mpnMulModel
  simp only []
  rw [if_neg (by omega)]
  generalize hpr : products (runMul P false u.length v.length) = L at hc ⊢
  match L, hc with
  | [], hc => exact absurd hc (by simp)
  | [e], hc =>
    have hd := runMul_domain P hP u.length v.length hv1 huv e (by rw [hpr]; simp)
    simp only [] at hc ⊢
    by_cases hn : e.name = "mpn_mul_n"
    · rw [if_pos hn] at hc ⊢
      simp only [Bool.and_eq_true, decide_eq_true_eq] at hc
      rw [if_pos hc.1]
      obtain ⟨r, a1, a2, a3, a4⟩ := mulNModel_exact P hP u v hu hv hc.1 (by omega) hc.2
      exact ⟨r, a1, a2, a3, by omega⟩
    · rw [if_neg hn] at hc ⊢
      by_cases hbn : e.name = "mpn_mul_basecase"
      · rw [if_pos hbn]
        obtain ⟨pv, pL, pn⟩ := mul_basecase_val u v hu hv (by omega)
        exact ⟨_, rfl, pv, pL, pn⟩
      · rw [if_neg hbn]
        have hm : modelled1 e = true := by simpa [hbn] using hc
        rw [callValue_exact P hP e hm hd]
        obtain ⟨t1, t2, t3⟩ := toLimbs_of_lt (n := u.length + v.length) (v := val u * val v) (val_mul_lt u v hu hv)
        exact ⟨_, rfl, t1, t3, t2⟩
  | e :: e2 :: rest, hc =>
    simp only [] at hc ⊢
    have hP' := hP
    obtain ⟨hk3, _, _, hmax, _⟩ := hP'
    by_cases hbn : e.name = "mpn_mul_basecase"
    · rw [if_pos hbn] at hc ⊢
      simp only [decide_eq_true_eq] at hc
      exact mulChunked_exact _ (by omega) u v hu hv hv1 hc
    · rw [if_neg hbn] at hc ⊢
      simp only [Bool.and_eq_true, decide_eq_true_eq, List.all_eq_true, List.mem_range, Bool.or_eq_true] at hc
      obtain ⟨⟨⟨hn, hgt⟩, hkt⟩, hall⟩ := hc
      rw [if_pos hn]
      refine mulSlide_exact _ (by omega) _ u v hu hv hkt hgt ?_
      intro a b ha hb hl hka hkN
      have := hall a.length (by omega)
      exact mulNModel_exact P hP a b ha hb hl (by omega) (by rcases this with h | h; omega; exact h)

/-- a limb vector is determined by its length and value -/
theorem eq_toLimbs : ∀ (r : List Nat), Limbs r → r = toLimbs r.length (val r)
  | [], _ => rfl
  | x :: xs, h => by
    have ⟨hx, hxs⟩ := Limbs_cons.mp h
    have ih := eq_toLimbs xs hxs
    simp only [List.length_cons, toLimbs, val_cons]
    rw [Nat.add_mul_mod_self_left, Nat.mod_eq_of_lt hx, Nat.add_mul_div_left _ _ B_pos,
      Nat.div_eq_of_lt hx, Nat.zero_add, ← ih]

theorem eq_toLimbs_of {r : List Nat} {n x : Nat} (hL : Limbs r) (hn : r.length = n) (hx : val r = x) :
    r = toLimbs n x := by rw [← hn, ← hx]; exact eq_toLimbs r hL

end Mpir.MulLoops
