/- Lemmas about the combining loops of mpn_mul (Mpir/Model/MulLoops.lean): the chunk loop of mul.c:108-137 and the
   slide loop of mul.c:210-277, and their composition with the generated dispatch skeleton.
   (Imports Props.C01_algo because the composition instantiates the callee oracle with `mpn_mul_val_partial`.) -/
import MpirProofs.Lemmas.Kernels
import MpirProofs.Props.C01_algo
import Mpir.Model.MulLoops
namespace Mpir.MulLoops
open Mpir Mpir.Skel Mpir.Gen Mpir.MulDispatch

/-! ### small facts -/

theorem toLimbs_spec : ∀ (n v : Nat), val (toLimbs n v) = v % B ^ n ∧ (toLimbs n v).length = n ∧ Limbs (toLimbs n v)
  | 0, v => by simp [toLimbs, Limbs_nil, Nat.mod_one]
  | n + 1, v => by
    obtain ⟨hv, hl, hL⟩ := toLimbs_spec n (v / B)
    refine ⟨?_, by simp [toLimbs, hl], ?_⟩
    · simp only [toLimbs, val_cons, hv, pow_succ]
      rw [Nat.mul_comm (B ^ n) B, Nat.mod_mul, Nat.add_comm]
    · simp only [toLimbs]
      exact Limbs_cons.mpr ⟨Nat.mod_lt _ B_pos, hL⟩

theorem toLimbs_of_lt {n v : Nat} (h : v < B ^ n) :
    val (toLimbs n v) = v ∧ (toLimbs n v).length = n ∧ Limbs (toLimbs n v) := by
  obtain ⟨a, b, c⟩ := toLimbs_spec n v
  exact ⟨by rw [a, Nat.mod_eq_of_lt h], b, c⟩

theorem Bpow_pos (n : Nat) : 0 < B ^ n := Nat.pow_pos B_pos

/-- a·b + t < B^(m+n) for a < B^m, b, t < B^n: the product of a chunk plus the limbs added back never needs more
    than the limbs of the product -/
theorem mul_add_lt {A N a b t : Nat} (ha : a < A) (hb : b < N) (ht : t < N) : a * b + t < A * N := by
  have h1 : a * b ≤ a * N := Nat.mul_le_mul_left a hb.le
  have h2 : (a + 1) * N ≤ A * N := Nat.mul_le_mul_right N ha
  nlinarith

theorem add_1_val (l : List Nat) (v : Nat) (hl : Limbs l) (hne : 0 < l.length) (hv : v < B) :
    val (add_1 l v).1 + B ^ l.length * (add_1 l v).2 = val l + v ∧ (add_1 l v).2 ≤ 1 ∧
    Limbs (add_1 l v).1 ∧ (add_1 l v).1.length = l.length := by
  cases l with
  | nil => simp at hne
  | cons x xs => exact add_1_val' x xs v hl hv

theorem add_n_val (u v : List Nat) (hu : Limbs u) (hv : Limbs v) (hl : u.length = v.length) :
    val (add_n u v).1 + B ^ u.length * (add_n u v).2 = val u + val v ∧ (add_n u v).2 ≤ 1 ∧
    Limbs (add_n u v).1 ∧ (add_n u v).1.length = u.length := by
  have := addNC_val u v 0 hu hv hl (by omega)
  simpa [add_n] using this

theorem mul_basecase_val (u v : List Nat) (hu : Limbs u) (hv : Limbs v) (hne : 0 < v.length) :
    val (mul_basecase u v) = val u * val v ∧ Limbs (mul_basecase u v) ∧
    (mul_basecase u v).length = u.length + v.length := by
  cases v with
  | nil => simp at hne
  | cons v0 vs => exact mul_basecase_val' u v0 vs hu hv

/-! ### (A) the chunk loop -/

/-- mul.c:120-121 / :136-137 is safe and exact whenever the sum fits the product's limbs -/
theorem addBack_spec (p tp : List Nat) (hp : Limbs p) (ht : Limbs tp) (hl : tp.length < p.length)
    (hb : val p + val tp < B ^ p.length) :
    ∃ r, addBack p tp = some r ∧ val r = val p + val tp ∧ Limbs r ∧ r.length = p.length := by
  have htl : (p.take tp.length).length = tp.length := by simp; omega
  have hdl : (p.drop tp.length).length = p.length - tp.length := by simp
  obtain ⟨av, ac, aL, an⟩ := add_n_val (p.take tp.length) tp (Limbs_take hp _) ht htl
  obtain ⟨iv, ic, iL, iN⟩ := add_1_val (p.drop tp.length) (add_n (p.take tp.length) tp).2
    (Limbs_drop hp _) (by rw [hdl]; omega) (by have := B_eq; omega)
  have hsplit := val_take_drop p tp.length (by omega)
  have hpow : B ^ p.length = B ^ tp.length * B ^ (p.length - tp.length) := by
    rw [← pow_add]; congr 1; omega
  rw [htl] at av an
  rw [hdl] at iv iN
  -- the carry out of the whole product is 0
  have hc0 : (add_1 (p.drop tp.length) (add_n (p.take tp.length) tp).2).2 = 0 := by
    by_contra hne
    have h1 : (add_1 (p.drop tp.length) (add_n (p.take tp.length) tp).2).2 = 1 := by omega
    rw [h1] at iv
    have : val p + val tp ≥ B ^ p.length := by
      rw [hpow, hsplit]
      nlinarith [Bpow_pos tp.length]
    omega
  refine ⟨(add_n (p.take tp.length) tp).1 ++ (add_1 (p.drop tp.length) (add_n (p.take tp.length) tp).2).1, ?_, ?_,
    Limbs_append.mpr ⟨aL, iL⟩, by simp only [List.length_append, an, iN]; omega⟩
  · unfold addBack
    simp only [hc0]
    rw [if_neg (by omega)]
    simp
  · rw [val_append, an, hsplit]
    rw [hc0] at iv
    nlinarith [Bpow_pos tp.length]

/-- THE "safe?" QUESTION of mul.c:121 / :137: for every chunk `c` (≥ 1 limb), every v (≥ 1 limb) and every content of
    the saved triangle, `mpn_incr_u (prodp + vn, cy)` stops inside the chunk product, and the chunk then holds
    c·v + tp exactly. -/
theorem addBack_chunk (c v tp : List Nat) (hc : Limbs c) (hv : Limbs v) (ht : Limbs tp)
    (hc1 : 0 < c.length) (hv1 : 0 < v.length) (htl : tp.length = v.length) :
    ∃ r, addBack (mul_basecase c v) tp = some r ∧ val r = val c * val v + val tp ∧ Limbs r ∧
      r.length = c.length + v.length := by
  obtain ⟨pv, pL, pn⟩ := mul_basecase_val c v hc hv hv1
  have hb : val (mul_basecase c v) + val tp < B ^ (mul_basecase c v).length := by
    rw [pv, pn, pow_add]
    exact mul_add_lt (val_lt c hc) (val_lt v hv) (htl ▸ val_lt tp ht)
  obtain ⟨r, h1, h2, h3, h4⟩ := addBack_spec _ tp pL ht (by omega) hb
  exact ⟨r, h1, by rw [h2, pv], h3, by rw [h4, pn]⟩

/-- the same with the operands in the other order (mul.c:134) -/
theorem addBack_chunk_swapped (c v tp : List Nat) (hc : Limbs c) (hv : Limbs v) (ht : Limbs tp)
    (hc1 : 0 < c.length) (_hv1 : 0 < v.length) (htl : tp.length = v.length) :
    ∃ r, addBack (mul_basecase v c) tp = some r ∧ val r = val c * val v + val tp ∧ Limbs r ∧
      r.length = c.length + v.length := by
  obtain ⟨pv, pL, pn⟩ := mul_basecase_val v c hv hc hc1
  have hb : val (mul_basecase v c) + val tp < B ^ (mul_basecase v c).length := by
    rw [pv, pn, pow_add, Nat.mul_comm (val v), Nat.mul_comm (B ^ v.length)]
    exact mul_add_lt (val_lt c hc) (val_lt v hv) (htl ▸ val_lt tp ht)
  obtain ⟨r, h1, h2, h3, h4⟩ := addBack_spec _ tp pL ht (by omega) hb
  exact ⟨r, h1, by rw [h2, pv, Nat.mul_comm], h3, by rw [h4, pn]; omega⟩

/-- Loop invariant of mul.c:117-126 for operands u, v: the limbs below prodp plus the saved triangle are exactly
    (the low part of u already consumed) · v. -/
structure ChunkInv (u v : List Nat) (s : ChunkSt) : Prop where
  up_eq : s.up = u.drop s.done.length
  len_le : s.done.length ≤ u.length
  tp_len : s.tp.length = v.length
  limbs_done : Limbs s.done
  limbs_tp : Limbs s.tp
  value : val s.done + B ^ s.done.length * val s.tp = val (u.take s.done.length) * val v

theorem chunkInit_inv (M : Nat) (u v : List Nat) (hu : Limbs u) (hv : Limbs v) (hv1 : 0 < v.length)
    (hM : M ≤ u.length) :
    ChunkInv u v (chunkInit M u v) ∧ (chunkInit M u v).done.length = M := by
  obtain ⟨pv, pL, pn⟩ := mul_basecase_val (u.take M) v (Limbs_take hu _) hv hv1
  have htl : (u.take M).length = M := by simp; omega
  rw [htl] at pn
  have hd : ((mul_basecase (u.take M) v).take M).length = M := by simp; omega
  have htp : ((mul_basecase (u.take M) v).drop M).take v.length = (mul_basecase (u.take M) v).drop M := by
    apply List.take_of_length_le; simp; omega
  have hsplit := val_take_drop (mul_basecase (u.take M) v) M (by omega)
  refine ⟨⟨?_, ?_, ?_, ?_, ?_, ?_⟩, ?_⟩ <;> simp only [chunkInit, hd, htp]
  · omega
  · simp; omega
  · exact Limbs_take pL _
  · exact Limbs_drop pL _
  · rw [← hsplit, pv]

theorem take_add_val (u : List Nat) (a m : Nat) (ha : a ≤ u.length) :
    val (u.take (a + m)) = val (u.take a) + B ^ a * val ((u.drop a).take m) := by
  rw [List.take_add, val_append]
  simp [Nat.min_eq_left ha]

theorem chunkIter_inv (M : Nat) (hM : 1 ≤ M) (u v : List Nat) (hu : Limbs u) (hv : Limbs v) (hv1 : 0 < v.length)
    (s : ChunkSt) (hs : ChunkInv u v s) (hgt : s.up.length > M) :
    ∃ s', chunkIter M v s = some s' ∧ ChunkInv u v s' ∧ s'.done.length = s.done.length + M := by
  obtain ⟨hup, hle, htpl, hLd, hLt, hval⟩ := hs
  have hupl : s.up.length = u.length - s.done.length := by rw [hup]; simp
  have hLup : Limbs s.up := by rw [hup]; exact Limbs_drop hu _
  have hcl : (s.up.take M).length = M := by simp; omega
  obtain ⟨r, h1, h2, h3, h4⟩ := addBack_chunk (s.up.take M) v s.tp (Limbs_take hLup _) hv hLt (by omega) hv1 htpl
  rw [hcl] at h4
  have hd : (r.take M).length = M := by simp; omega
  have htp : (r.drop M).take v.length = r.drop M := by
    apply List.take_of_length_le; simp; omega
  have hsplit := val_take_drop r M (by omega)
  refine ⟨⟨s.done ++ r.take M, (r.drop M).take v.length, s.up.drop M⟩, by simp only [chunkIter, h1], ?_, ?_⟩
  · refine ⟨?_, ?_, ?_, ?_, ?_, ?_⟩ <;> simp only [htp, List.length_append, hd]
    · rw [hup, List.drop_drop]
    · omega
    · simp; omega
    · exact Limbs_append.mpr ⟨hLd, Limbs_take h3 _⟩
    · exact Limbs_drop h3 _
    · rw [val_append, take_add_val u _ M hle, ← hup]
      have e1 : val s.done + B ^ s.done.length * val (r.take M) + B ^ (s.done.length + M) * val (r.drop M)
          = val s.done + B ^ s.done.length * val r := by rw [hsplit, pow_add]; ring
      have e2 : val s.done + B ^ s.done.length * val r
          = (val s.done + B ^ s.done.length * val s.tp) + B ^ s.done.length * (val (s.up.take M) * val v) := by
        rw [h2]; ring
      rw [e1, e2, hval]; ring
  · simp only [List.length_append, hd]

theorem chunkFinal_exact (u v : List Nat) (hu : Limbs u) (hv : Limbs v) (hv1 : 0 < v.length)
    (s : ChunkSt) (hs : ChunkInv u v s) (h1 : 1 ≤ s.up.length) :
    ∃ r, chunkFinal v s = some r ∧ val r = val u * val v ∧ Limbs r ∧ r.length = u.length + v.length := by
  obtain ⟨hup, hle, htpl, hLd, hLt, hval⟩ := hs
  have hupl : s.up.length = u.length - s.done.length := by rw [hup]; simp
  have hLup : Limbs s.up := by rw [hup]; exact Limbs_drop hu _
  have hsplit := val_take_drop u s.done.length hle
  have key : ∀ r, val r = val s.up * val v + val s.tp → Limbs r → r.length = s.up.length + v.length →
      val (s.done ++ r) = val u * val v ∧ Limbs (s.done ++ r) ∧ (s.done ++ r).length = u.length + v.length := by
    intro r e1 e2 e3
    refine ⟨?_, Limbs_append.mpr ⟨hLd, e2⟩, by simp only [List.length_append, e3]; omega⟩
    rw [val_append, e1, hsplit, ← hup]
    have : val s.done + B ^ s.done.length * (val s.up * val v + val s.tp)
        = (val s.done + B ^ s.done.length * val s.tp) + B ^ s.done.length * (val s.up * val v) := by ring
    rw [this, hval]; ring
  unfold chunkFinal
  split_ifs with c1 c2
  · obtain ⟨r, a1, a2, a3, a4⟩ := addBack_chunk s.up v s.tp hLup hv hLt (by omega) hv1 htpl
    exact ⟨s.done ++ r, by simp [a1], key r a2 a3 a4⟩
  · omega
  · obtain ⟨r, a1, a2, a3, a4⟩ := addBack_chunk_swapped s.up v s.tp hLup hv hLt (by omega) hv1 htpl
    exact ⟨s.done ++ r, by simp [a1], key r a2 a3 a4⟩

theorem chunkLoop_exact (M : Nat) (hM : 1 ≤ M) (u v : List Nat) (hu : Limbs u) (hv : Limbs v) (hv1 : 0 < v.length) :
    ∀ (fuel : Nat) (s : ChunkSt), ChunkInv u v s → 1 ≤ s.up.length → s.up.length ≤ fuel →
    ∃ r, chunkLoop M v fuel s = some r ∧ val r = val u * val v ∧ Limbs r ∧ r.length = u.length + v.length
  | 0, s, _, h1, h2 => by omega
  | fuel + 1, s, hs, h1, h2 => by
    unfold chunkLoop
    split_ifs with c
    · obtain ⟨s', e1, e2, e3⟩ := chunkIter_inv M hM u v hu hv hv1 s hs c
      have l0 : s.up.length = u.length - s.done.length := by rw [hs.up_eq]; simp
      have l1 : s'.up.length = u.length - s'.done.length := by rw [e2.up_eq]; simp
      simp only [e1]
      exact chunkLoop_exact M hM u v hu hv hv1 fuel s' e2 (by omega) (by omega)
    · exact chunkFinal_exact u v hu hv hv1 s hs h1

/-- the state at the head of the loop mul.c:117 after `k` iterations (`none` if the loop has ended before) -/
def chunkAfter (M : Nat) (u v : List Nat) : Nat → Option ChunkSt
  | 0 => some (chunkInit M u v)
  | k + 1 => (chunkAfter M u v k).bind (fun s => if s.up.length > M then chunkIter M v s else none)

theorem chunkAfter_inv (M : Nat) (hM : 1 ≤ M) (u v : List Nat) (hu : Limbs u) (hv : Limbs v) (hv1 : 0 < v.length) :
    ∀ k, (k + 1) * M < u.length →
      ∃ s, chunkAfter M u v k = some s ∧ ChunkInv u v s ∧ s.done.length = (k + 1) * M
  | 0, h => by
    obtain ⟨a, b⟩ := chunkInit_inv M u v hu hv hv1 (by omega)
    exact ⟨_, rfl, a, by rw [b]; omega⟩
  | k + 1, h => by
    obtain ⟨s, e1, e2, e3⟩ := chunkAfter_inv M hM u v hu hv hv1 k (by nlinarith)
    have l0 : s.up.length = u.length - s.done.length := by rw [e2.up_eq]; simp
    have h' : (k + 1 + 1) * M = (k + 1) * M + M := by ring
    have hgt : s.up.length > M := by rw [l0, e3]; omega
    obtain ⟨s', f1, f2, f3⟩ := chunkIter_inv M hM u v hu hv hv1 s e2 hgt
    refine ⟨s', ?_, f2, by rw [f3, e3]; ring⟩
    simp only [chunkAfter, e1, Option.bind_some, if_pos hgt, f1]

theorem mulChunked_exact (M : Nat) (hM : 1 ≤ M) (u v : List Nat) (hu : Limbs u) (hv : Limbs v) (hv1 : 1 ≤ v.length)
    (hun : M < u.length) :
    ∃ r, mulChunked M u v = some r ∧ val r = val u * val v ∧ Limbs r ∧ r.length = u.length + v.length := by
  obtain ⟨a, b⟩ := chunkInit_inv M u v hu hv hv1 (by omega)
  have l0 : (chunkInit M u v).up.length = u.length - (chunkInit M u v).done.length := by rw [a.up_eq]; simp
  unfold mulChunked
  rw [if_neg (by omega)]
  exact chunkLoop_exact M hM u v hu hv hv1 u.length _ a (by omega) (by omega)

end Mpir.MulLoops
