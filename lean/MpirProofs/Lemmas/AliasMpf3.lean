/- mpf_floor / mpf_ceil / mpf_trunc, mpf_mul_2exp / mpf_div_2exp, mpf_ui_div of Mpir/Model/AliasMpf3.lean (pointer level):
   for every assignment of variable ids the call succeeds and leaves in `r` exactly what the bit-exact model
   Mpir/Model/Mpf.lean computes from the operands as they were before the call. -/
import MpirProofs.Lemmas.AliasMpf2
import Mpir.Model.AliasMpf3
namespace Mpir.AliasMem
open Mpir
open Mpir.DivZ (sizeNat siz sameSign)

/-! ### `if (rp != up) MPN_COPY_INCR (rp, up, n)` -/

theorem copyTop_ok {X : St} {rp up uoff n : Nat} {bu br : List Nat} (hbu : X.blk up = some bu) (hbr : X.blk rp = some br)
    (hu : uoff + n ≤ bu.length) (hr : n ≤ br.length) :
    copyTop true rp up uoff n X = .ok (X.setBlk rp (some ((bu.drop uoff).take n ++ br.drop n))) := by
  have hal : ((bu.drop uoff).take n).length = n := by simp; omega
  unfold copyTop
  by_cases hc : rp = up ∧ uoff = 0
  · rw [if_pos hc]
    obtain ⟨e1, e2⟩ := hc
    subst e1 e2
    have : br = bu := by rw [hbu] at hbr; exact (Option.some.inj hbr).symm
    subst this
    show Except.ok X = _
    congr 1
    refine St.ext' rfl (fun _ => rfl) (fun q => ?_) rfl
    by_cases e : q = rp
    · subst e; simp [St.setBlk, hbr]
    · simp [St.setBlk, e]
  · rw [if_neg hc]
    unfold mpn_copy
    simp only [bind, Except.bind]
    rw [if_neg (by omega), if_neg (by simp), loadAt_ok hbu hu]
    simp only []
    rw [storeAt_ok hbr (by rw [hal]; omega), wrAt_zero, hal]

theorem sgn_eq (sz : Int) (n : Nat) :
    (if decide (sz < 0) = true then -(n : Int) else (n : Int)) = (if sz ≥ 0 then (n : Int) else -(n : Int)) := by
  by_cases hs : sz < 0
  · rw [if_pos (by simpa using hs), if_neg (by omega)]
  · rw [if_neg (by simpa using hs), if_pos (by omega)]

theorem FSt.ext' {a b : FSt} (h1 : a.st = b.st) (h2 : a.prec = b.prec) (h3 : ∀ j, a.exp j = b.exp j) : a = b := by
  cases a; cases b
  simp only [FSt.mk.injEq] at *
  exact ⟨h1, h2, funext h3⟩

/-- the top `asize` limbs of `u` copied to the start of `r` (inside one block when r = u), `SIZ (r) = ±asize`, `EXP (r) = e` -/
theorem copyTop_res {s : FSt} (h : FInv s) {r u : Nat} (hr : r < s.st.nv) (hu : u < s.st.nv) {bu br : List Nat}
    (hbu : s.st.blk (s.st.ptr u) = some bu) (hbr : s.st.blk (s.st.ptr r) = some br) (asize : Nat) (h1 : 1 ≤ asize)
    (h2 : asize ≤ (s.st.size u).natAbs) (h3 : asize ≤ s.prec r + 1) (e : Int) :
    FRes s ((s.withSt (s.st.put r ((bu.drop ((s.st.size u).natAbs - asize)).take asize ++ br.drop asize)
        (if s.st.size u ≥ 0 then (asize : Int) else -(asize : Int)))).setExp r e) r
      ⟨s.prec r, if s.st.size u ≥ 0 then (asize : Int) else -(asize : Int), e, Mpf.top asize (s.F u).d⟩ := by
  obtain ⟨bu', hbu', hbul, hbuL⟩ := h.inv.live u hu
  have : bu' = bu := by rw [hbu] at hbu'; exact (Option.some.inj hbu').symm
  subst this
  obtain ⟨br', hbr', hbrl, hbrL⟩ := h.inv.live r hr
  have : br' = br := by rw [hbr] at hbr'; exact (Option.some.inj hbr').symm
  subst this
  have hfu := h.inv.fits u hu
  have hroom := h.room r hr
  have hFd : (s.F u).d = bu'.take (s.st.size u).natAbs := limbs_of_blk hbu
  have hal : ((bu'.drop ((s.st.size u).natAbs - asize)).take asize).length = asize := by simp; omega
  have htop : Mpf.top asize (bu'.take (s.st.size u).natAbs) = (bu'.drop ((s.st.size u).natAbs - asize)).take asize := by
    unfold Mpf.top
    rw [List.length_take, Nat.min_eq_left (by omega), List.drop_take]
    congr 1; omega
  have hge := top_norm h.inv hu hbu asize (by rw [htop, hal]; omega)
  rw [htop, hal] at hge
  have hlt := val_lt _ (Limbs_take (Limbs_drop hbuL ((s.st.size u).natAbs - asize)) asize)
  rw [hal] at hlt
  have hf := fput_spec h h.inv (Ext.refl s.st) hr ((bu'.drop ((s.st.size u).natAbs - asize)).take asize ++ br'.drop asize)
    asize (decide (s.st.size u < 0)) e [] (by simp; omega)
    (Limbs_append.mpr ⟨Limbs_take (Limbs_drop hbuL _) _, Limbs_drop hbrL _⟩) (by omega)
    (by rw [List.take_left' hal]; exact sizeNat_eq hge hlt h1) (by intro p hp; cases hp)
  rw [List.take_left' hal, sgn_eq] at hf
  rw [hFd, htop]
  exact hf

/-- any final state whose `st` is `s.st` with the block of `r` replaced and `SIZ (r)` set, and whose exponent map differs at `r` -/
theorem put_res {s : FSt} (h : FInv s) {r : Nat} (hr : r < s.st.nv) (b : List Nat) (n : Nat) (sz e : Int)
    (hbl : b.length = s.st.alloc r) (hbL : Limbs b) (hn : n ≤ s.st.alloc r) (hnorm : sizeNat (val (b.take n)) = n)
    (hsz : sz = (n : Int) ∨ sz = -(n : Int)) {S' : FSt} (hst : S'.st = s.st.put r b sz) (hprec : S'.prec = s.prec)
    (hexp : ∀ j, S'.exp j = if j = r then e else s.exp j) : FRes s S' r ⟨s.prec r, sz, e, b.take n⟩ := by
  have hf := fput_spec h h.inv (Ext.refl s.st) hr b n (decide (sz < 0)) e [] hbl hbL hn hnorm (by intro p hp; cases hp)
  have e1 : (if decide (sz < 0) = true then -(n : Int) else (n : Int)) = sz := by
    by_cases hs : sz < 0
    · rw [if_pos (by simpa using hs)]; omega
    · rw [if_neg (by simpa using hs)]; omega
  rw [e1] at hf
  have : S' = (s.withSt (List.foldl St.free (s.st.put r b sz) [])).setExp r e :=
    FSt.ext' hst hprec hexp
  rw [this]; exact hf

/-! ### mpf_trunc -/

theorem mpf_trunc_ok {s : FSt} (h : FInv s) {r u : Nat} (hr : r < s.st.nv) (hu : u < s.st.nv) :
    ∃ s', mpf_trunc r u s = .ok s' ∧ FRes s s' r (Mpf.trunc (s.prec r) (s.F u)) := by
  obtain ⟨bu, hbu, hbul, hbuL⟩ := h.inv.live u hu
  obtain ⟨br, hbr, hbrl, hbrL⟩ := h.inv.live r hr
  have hfu := h.inv.fits u hu
  have hroom := h.room r hr
  have hFs : (s.F u).size = s.st.size u := rfl
  have hFe : (s.F u).exp = s.exp u := rfl
  have hFl : (s.F u).d.length = (s.st.size u).natAbs := (h.inv.limbs_spec hu).1
  unfold mpf_trunc mpf_truncV Mpf.trunc
  simp only [FVariant3.c, bind, Except.bind, pure, Except.pure, hFs, hFe, hFl]
  by_cases hz : s.st.size u = 0 ∨ s.exp u ≤ 0
  · rw [if_pos hz, if_pos hz]; exact ⟨_, rfl, setSE_zero_spec h hr⟩
  rw [if_neg hz, if_neg hz]
  obtain ⟨asize, ha⟩ : ∃ a, a = min (min (s.st.size u).natAbs (s.exp u).toNat) (s.prec r + 1) := ⟨_, rfl⟩
  simp only [← ha]
  have ha1 : 1 ≤ asize := by omega
  have ha2 : asize ≤ (s.st.size u).natAbs := by omega
  have ha3 : asize ≤ s.prec r + 1 := by omega
  clear ha hz
  rw [copyTop_ok (X := (s.setExp r (s.exp u)).st.setSize r (if s.st.size u ≥ 0 then (asize : Int) else -(asize : Int)))
    (bu := bu) (br := br) hbu hbr (by omega) (by omega)]
  exact ⟨_, rfl, copyTop_res h hr hu hbu hbr asize ha1 ha2 ha3 (s.exp u)⟩

/-! ### mpf_floor / mpf_ceil -/

theorem top_take_blk {bu : List Nat} {n0 asize : Nat} (h1 : asize ≤ n0) (h2 : n0 ≤ bu.length) :
    Mpf.top asize (bu.take n0) = (bu.drop (n0 - asize)).take asize := by
  unfold Mpf.top
  rw [List.length_take, Nat.min_eq_left h2, List.drop_take]
  congr 1; omega

theorem mpn_add_1_off_ok {X : St} {rp up uoff n c : Nat} {bu br : List Nat} (hbu : X.blk up = some bu)
    (hbr : X.blk rp = some br) (h1 : 1 ≤ n) (hu : uoff + n ≤ bu.length) (hr : n ≤ br.length) :
    mpn_add_1_off rp up uoff n c X =
      .ok ((val ((bu.drop uoff).take n) + c) / B ^ n,
        X.setBlk rp (some (toLimbs n (val ((bu.drop uoff).take n) + c) ++ br.drop n))) := by
  unfold mpn_add_1_off
  simp only [bind, Except.bind, pure, Except.pure]
  rw [if_neg (not_not.mpr h1), loadAt_ok hbu hu]
  simp only []
  rw [storeAt_ok hbr (by rw [toLimbs_length]; omega), wrAt_zero, toLimbs_length]

theorem val_one : val [1] = 1 := by simp [val]

theorem sizeNat_one : sizeNat (val [1]) = 1 := by
  rw [val_one]; exact sizeNat_eq (by simp) (by rw [B_eq]; decide) (Nat.le_refl _)

theorem mpf_ceilfloor_ok {s : FSt} (h : FInv s) {r u : Nat} (hr : r < s.st.nv) (hu : u < s.st.nv) (dir : Int)
    (hd : dir = 1 ∨ dir = -1) :
    ∃ s', mpf_ceilfloor r u dir s = .ok s' ∧ FRes s s' r (Mpf.ceilOrFloor (s.prec r) (s.F u) dir) := by
  obtain ⟨bu, hbu, hbul, hbuL⟩ := h.inv.live u hu
  obtain ⟨br, hbr, hbrl, hbrL⟩ := h.inv.live r hr
  have hfu := h.inv.fits u hu
  have hroom := h.room r hr
  have hFs : (s.F u).size = s.st.size u := rfl
  have hFe : (s.F u).exp = s.exp u := rfl
  have hFl : (s.F u).d.length = (s.st.size u).natAbs := (h.inv.limbs_spec hu).1
  have hFd : (s.F u).d = bu.take (s.st.size u).natAbs := limbs_of_blk hbu
  unfold mpf_ceilfloor mpf_ceilfloorV Mpf.ceilOrFloor
  simp only [FVariant3.c, bind, pure, Except.pure, hFs, hFe, hFl, if_true]
  by_cases hz : s.st.size u = 0
  · rw [if_pos hz, if_pos hz]; exact ⟨_, rfl, setSE_zero_spec h hr⟩
  rw [if_neg hz, if_neg hz]
  by_cases he : s.exp u ≤ 0
  · rw [if_pos he, if_pos he]
    by_cases hsg : (decide (s.st.size u < 0) != decide (dir < 0)) = true
    · rw [if_pos hsg, if_pos hsg]; exact ⟨_, rfl, setSE_zero_spec h hr⟩
    · rw [if_neg hsg, if_neg hsg, storeAt_ok hbr (by simp; omega)]
      simp only [Except.bind]
      refine ⟨_, rfl, ?_⟩
      have hb1 : (wrAt br 0 [1]).take 1 = [1] := by simp [wrAt]
      have := put_res h hr (wrAt br 0 [1]) 1 dir 1 (by rw [wrAt_length (by simp; omega)]; exact hbrl)
        (by rw [wrAt_zero]; exact Limbs_wr (by intro x hx; simp at hx; rw [hx, B_eq]; decide) hbrL) (by omega)
        (by rw [hb1]; exact sizeNat_one) (by rcases hd with e | e <;> simp [e])
        (S' := (s.withSt (s.st.setBlk (s.st.ptr r) (some (wrAt br 0 [1])))).setSE r dir 1) rfl rfl (fun j => rfl)
      rw [hb1] at this
      exact this
  rw [if_neg he, if_neg he]
  obtain ⟨asize, ha⟩ : ∃ a, a = min (min (s.st.size u).natAbs (s.exp u).toNat) (s.prec r + 1) := ⟨_, rfl⟩
  simp only [← ha]
  have ha1 : 1 ≤ asize := by omega
  have ha2 : asize ≤ (s.st.size u).natAbs := by omega
  have ha3 : asize ≤ s.prec r + 1 := by omega
  clear ha he
  have hign : List.take ((s.st.size u).natAbs - asize) (s.F u).d = bu.take ((s.st.size u).natAbs - asize) := by
    rw [hFd, List.take_take, Nat.min_eq_left (by omega)]
  rw [hign]
  -- the tail without rounding: SIZ (r), then the copy
  have hcopy : ∃ s', (Except.bind (copyTop true (s.st.ptr r) (s.st.ptr u) ((s.st.size u).natAbs - asize) asize
        ((s.setExp r (s.exp u)).st.setSize r (if s.st.size u ≥ 0 then (asize : Int) else -(asize : Int))))
        (fun st => Except.ok ((s.setExp r (s.exp u)).withSt st))) = .ok s' ∧
      FRes s s' r ⟨s.prec r, if s.st.size u ≥ 0 then (asize : Int) else -(asize : Int), s.exp u, Mpf.top asize (s.F u).d⟩ := by
    rw [copyTop_ok (X := (s.setExp r (s.exp u)).st.setSize r (if s.st.size u ≥ 0 then (asize : Int) else -(asize : Int)))
      (bu := bu) (br := br) hbu hbr (by omega) (by omega)]
    exact ⟨_, rfl, copyTop_res h hr hu hbu hbr asize ha1 ha2 ha3 (s.exp u)⟩
  by_cases hsd : (decide (s.st.size u < 0) == decide (dir < 0)) = true
  · rw [if_pos hsd, loadAt_ok (s := (s.setExp r (s.exp u)).st) (b := bu) hbu (by omega)]
    simp only [Except.bind, List.drop_zero]
    by_cases hany : ((bu.take ((s.st.size u).natAbs - asize)).any fun x => x != 0) = true
    · rw [if_pos hany, if_pos (⟨hsd, hany⟩ : _ ∧ _)]
      have htop : Mpf.top asize (s.F u).d = (bu.drop ((s.st.size u).natAbs - asize)).take asize := by
        rw [hFd]; exact top_take_blk ha2 (by omega)
      have hal : ((bu.drop ((s.st.size u).natAbs - asize)).take asize).length = asize := by simp; omega
      have hge := top_norm h.inv hu hbu asize (by rw [← hFd, htop, hal]; omega)
      rw [← hFd, htop, hal] at hge
      have hlt := val_lt _ (Limbs_take (Limbs_drop hbuL ((s.st.size u).natAbs - asize)) asize)
      rw [hal] at hlt
      rw [htop, mpn_add_1_off_ok (X := (s.setExp r (s.exp u)).st) (bu := bu) (br := br) hbu hbr ha1 (by omega) (by omega)]
      simp only []
      generalize val ((bu.drop ((s.st.size u).natAbs - asize)).take asize) = A at *
      by_cases hcy : (A + 1) / B ^ asize ≠ 0
      · rw [if_pos hcy, if_pos hcy]
        rw [storeAt_ok (setBlk_blk_self _ _ _) (by simp [toLimbs_length]; omega), setBlk_setBlk]
        simp only []
        refine ⟨_, rfl, ?_⟩
        have hb1 : (wrAt (toLimbs asize (A + 1) ++ br.drop asize) 0 [1]).take 1 = [1] := by simp [wrAt]
        have := put_res h hr (wrAt (toLimbs asize (A + 1) ++ br.drop asize) 0 [1]) 1 (if s.st.size u ≥ 0 then ((1 : Nat) : Int) else -((1 : Nat) : Int))
          (s.exp u + 1) (by rw [wrAt_length (by simp [toLimbs_length]; omega), length_wr' (by omega)]; exact hbrl)
          (by rw [wrAt_zero]; exact Limbs_wr (by intro x hx; simp at hx; rw [hx, B_eq]; decide) (Limbs_wr' (Limbs_toLimbs _ _) hbrL))
          (by omega) (by rw [hb1]; exact sizeNat_one) (by split <;> simp)
          (S' := (((s.setExp r (s.exp u)).withSt ((s.setExp r (s.exp u)).st.setBlk (s.st.ptr r)
              (some (wrAt (toLimbs asize (A + 1) ++ br.drop asize) 0 [1])))).setExp r (s.exp u + 1)).withSt
            ((((s.setExp r (s.exp u)).withSt ((s.setExp r (s.exp u)).st.setBlk (s.st.ptr r)
              (some (wrAt (toLimbs asize (A + 1) ++ br.drop asize) 0 [1])))).setExp r (s.exp u + 1)).st.setSize r
              (if s.st.size u ≥ 0 then ((1 : Nat) : Int) else -((1 : Nat) : Int)))) rfl rfl
          (fun j => by
            show (if j = r then s.exp u + 1 else if j = r then s.exp u else s.exp j) = _
            by_cases e : j = r <;> simp [e])
        rw [hb1] at this
        exact this
      · rw [if_neg hcy, if_neg hcy]
        refine ⟨_, rfl, ?_⟩
        have hSlt : A + 1 < B ^ asize := by
          by_contra hc
          exact hcy (Nat.pos_iff_ne_zero.mp (Nat.div_pos (by omega) (DivZ.Bpow_pos _)))
        have hb1 : (toLimbs asize (A + 1) ++ br.drop asize).take asize = toLimbs asize (A + 1) :=
          List.take_left' (toLimbs_length _ _)
        have := put_res h hr (toLimbs asize (A + 1) ++ br.drop asize) asize (if s.st.size u ≥ 0 then (asize : Int) else -(asize : Int))
          (s.exp u) (by rw [length_wr' (by omega)]; exact hbrl) (Limbs_wr' (Limbs_toLimbs _ _) hbrL) (by omega)
          (by rw [hb1, val_toLimbs_lt hSlt]; exact sizeNat_eq (by omega) hSlt ha1) (by split <;> simp)
          (S' := (s.setExp r (s.exp u)).withSt (((s.setExp r (s.exp u)).st.setBlk (s.st.ptr r)
              (some (toLimbs asize (A + 1) ++ br.drop asize))).setSize r (if s.st.size u ≥ 0 then (asize : Int) else -(asize : Int))))
          rfl rfl (fun j => rfl)
        rw [hb1] at this
        exact this
    · rw [if_neg hany, if_neg (fun (hc : _ ∧ _) => hany hc.2)]
      simpa only [Except.bind] using hcopy
  · rw [if_neg hsd, if_neg (fun (hc : _ ∧ _) => hsd hc.1)]
    simp only [Except.bind, Bool.false_eq_true, if_false]
    simpa only [Except.bind] using hcopy

theorem mpf_floor_ok {s : FSt} (h : FInv s) {r u : Nat} (hr : r < s.st.nv) (hu : u < s.st.nv) :
    ∃ s', mpf_floor r u s = .ok s' ∧ FRes s s' r (Mpf.floor (s.prec r) (s.F u)) :=
  mpf_ceilfloor_ok h hr hu (-1) (Or.inr rfl)

theorem mpf_ceil_ok {s : FSt} (h : FInv s) {r u : Nat} (hr : r < s.st.nv) (hu : u < s.st.nv) :
    ∃ s', mpf_ceil r u s = .ok s' ∧ FRes s s' r (Mpf.ceil (s.prec r) (s.F u)) :=
  mpf_ceilfloor_ok h hr hu 1 (Or.inl rfl)

/-! ### mpf_mul_2exp / mpf_div_2exp -/

theorem toLimbs_succ_snoc : ∀ (n v : Nat), toLimbs (n + 1) v = toLimbs n v ++ [v / B ^ n % B]
  | 0, v => by simp [toLimbs]
  | n + 1, v => by
    have ih := toLimbs_succ_snoc n (v / B)
    rw [show toLimbs (n + 1 + 1) v = (v % B) :: toLimbs (n + 1) (v / B) from rfl, ih,
      show toLimbs (n + 1) v = (v % B) :: toLimbs n (v / B) from rfl, Nat.div_div_eq_div_mul, pow_succ']
    rfl

/-- mpn_rshift by 64 - k into rp+1 with the bits shifted out in rp[0] is the same data as a left shift by k -/
theorem rshift_full (n A k : Nat) (hk1 : 1 ≤ k) (hk2 : k < 64) :
    toLimbs (n + 1) (A * 2 ^ k) = [A % 2 ^ (64 - k) * 2 ^ (64 - (64 - k))] ++ toLimbs n (A / 2 ^ (64 - k)) := by
  have hkk : 64 - (64 - k) = k := by omega
  rw [hkk]
  have hB : B = 2 ^ (64 - k) * 2 ^ k := by rw [← pow_add]; unfold B; congr 1; omega
  have hA := Nat.div_add_mod A (2 ^ (64 - k))
  have hlo : A % 2 ^ (64 - k) * 2 ^ k < B := by
    rw [hB]; exact Nat.mul_lt_mul_of_pos_right (Nat.mod_lt _ (Nat.pow_pos (by decide))) (Nat.pow_pos (by decide))
  have hv : A * 2 ^ k = A % 2 ^ (64 - k) * 2 ^ k + B * (A / 2 ^ (64 - k)) := by
    rw [hB]
    calc A * 2 ^ k = (2 ^ (64 - k) * (A / 2 ^ (64 - k)) + A % 2 ^ (64 - k)) * 2 ^ k := by rw [hA]
      _ = _ := by ring
  rw [show toLimbs (n + 1) (A * 2 ^ k) = ((A * 2 ^ k) % B) :: toLimbs n ((A * 2 ^ k) / B) from rfl]
  rw [hv, Nat.add_mul_mod_self_left, Nat.mod_eq_of_lt hlo, Nat.add_mul_div_left _ _ B_pos, Nat.div_eq_of_lt hlo, Nat.zero_add]
  rfl

theorem topLimb_snoc (l : List Nat) (x : Nat) : Mpf.topLimb (l ++ [x]) = x := by simp [Mpf.topLimb]

/-- the common end of the two shift paths: the block of `r` starts with `full = toLimbs (n+1) (A·2^k)` -/
theorem shift_res {s : FSt} (h : FInv s) {r : Nat} (hr : r < s.st.nv) {br : List Nat} (hbr : s.st.blk (s.st.ptr r) = some br)
    (n A k : Nat) (hn1 : 1 ≤ n) (hn2 : n ≤ s.prec r) (hA1 : B ^ (n - 1) ≤ A) (hA2 : A < B ^ n) (hk1 : 1 ≤ k) (hk2 : k < 64)
    (sz : Int) (e : Int) (adj : Nat) (hadj : adj = if Mpf.topLimb (toLimbs (n + 1) (A * 2 ^ k)) ≠ 0 then 1 else 0)
    (hsz : sz = ((n + adj : Nat) : Int) ∨ sz = -((n + adj : Nat) : Int)) {S' : FSt}
    (hst : S'.st = s.st.put r (toLimbs (n + 1) (A * 2 ^ k) ++ br.drop (n + 1)) sz) (hprec : S'.prec = s.prec)
    (hexp : ∀ j, S'.exp j = if j = r then e else s.exp j) :
    FRes s S' r ⟨s.prec r, sz, e, (toLimbs (n + 1) (A * 2 ^ k)).take (n + adj)⟩ := by
  obtain ⟨br', hbr', hbrl, hbrL⟩ := h.inv.live r hr
  have : br' = br := by rw [hbr] at hbr'; exact (Option.some.inj hbr').symm
  subst this
  have hroom := h.room r hr
  have hadj1 : adj ≤ 1 := by rw [hadj]; split <;> omega
  have hb1 : (toLimbs (n + 1) (A * 2 ^ k) ++ br'.drop (n + 1)).take (n + adj) = (toLimbs (n + 1) (A * 2 ^ k)).take (n + adj) :=
    List.take_append_of_le_length (by rw [toLimbs_length]; omega)
  have h2k : 2 ≤ 2 ^ k := by
    calc 2 = 2 ^ 1 := rfl
      _ ≤ 2 ^ k := Nat.pow_le_pow_right (by decide) hk1
  have h2kB : 2 ^ k < B := by unfold B; exact Nat.pow_lt_pow_right (by decide) hk2
  have hvlt : A * 2 ^ k < B ^ (n + 1) := by
    rw [pow_succ]; exact Nat.mul_lt_mul'' hA2 h2kB
  have hvge : B ^ (n - 1) ≤ A * 2 ^ k := Nat.le_trans hA1 (Nat.le_mul_of_pos_right _ (by omega))
  have htl : Mpf.topLimb (toLimbs (n + 1) (A * 2 ^ k)) = A * 2 ^ k / B ^ n := by
    rw [topLimb_toLimbs _ _ (by omega), Nat.add_sub_cancel, Nat.mod_eq_of_lt]
    rw [Nat.div_lt_iff_lt_mul (DivZ.Bpow_pos _), ← pow_succ']; exact hvlt
  rw [htl] at hadj
  have := put_res h hr (toLimbs (n + 1) (A * 2 ^ k) ++ br'.drop (n + 1)) (n + adj) sz e
    (by rw [length_wr' (by omega)]; exact hbrl) (Limbs_wr' (Limbs_toLimbs _ _) hbrL) (by omega)
    (by
      rw [hb1, toLimbs_take _ _ _ (by omega)]
      by_cases h0 : A * 2 ^ k / B ^ n ≠ 0
      · rw [if_pos h0] at hadj
        rw [hadj, val_toLimbs_lt hvlt]
        refine sizeNat_eq ?_ hvlt (by omega)
        rw [Nat.add_sub_cancel]
        by_contra hc
        exact h0 (Nat.div_eq_of_lt (by omega))
      · rw [if_neg h0] at hadj
        have hlt : A * 2 ^ k < B ^ n := by
          by_contra hc
          exact h0 (Nat.pos_iff_ne_zero.mp (Nat.div_pos (by omega) (DivZ.Bpow_pos _)))
        rw [hadj, Nat.add_zero, val_toLimbs_lt hlt]
        exact sizeNat_eq hvge hlt hn1)
    hsz hst hprec hexp
  rw [hb1] at this
  exact this

theorem two_exp_eq (mul : Bool) (p : Nat) (f : Mpf.F) (e : Nat) :
    (if mul then Mpf.mul_2exp p f e else Mpf.div_2exp p f e) =
      (if f.size = 0 then Mpf.zero p
       else if e % 64 = 0 then
         ⟨p, if f.size ≥ 0 then ((Mpf.top (p + 1) f.d).length : Int) else -((Mpf.top (p + 1) f.d).length : Int),
           if mul then f.exp + (e / 64 : Nat) else f.exp - (e / 64 : Nat), Mpf.top (p + 1) f.d⟩
       else
         ⟨p, if f.size ≥ 0 then ((Mpf.shiftUp (Mpf.top p f.d) (if mul then e % 64 else 64 - e % 64)).1.length : Int)
             else -((Mpf.shiftUp (Mpf.top p f.d) (if mul then e % 64 else 64 - e % 64)).1.length : Int),
           if mul then f.exp + (e / 64 : Nat) + ((Mpf.shiftUp (Mpf.top p f.d) (if mul then e % 64 else 64 - e % 64)).2 : Nat)
           else f.exp - (e / 64 : Nat) - 1 + ((Mpf.shiftUp (Mpf.top p f.d) (if mul then e % 64 else 64 - e % 64)).2 : Nat),
           (Mpf.shiftUp (Mpf.top p f.d) (if mul then e % 64 else 64 - e % 64)).1⟩) := by
  cases mul <;> rfl

theorem mpf_2exp_ok {s : FSt} (h : FInv s) {r u : Nat} (hr : r < s.st.nv) (hu : u < s.st.nv) (mul : Bool) (e : Nat)
    (hp : 1 ≤ s.prec r) :
    ∃ s', mpf_2expV .c mul r u e s = .ok s' ∧
      FRes s s' r (if mul then Mpf.mul_2exp (s.prec r) (s.F u) e else Mpf.div_2exp (s.prec r) (s.F u) e) := by
  obtain ⟨bu, hbu, hbul, hbuL⟩ := h.inv.live u hu
  obtain ⟨br, hbr, hbrl, hbrL⟩ := h.inv.live r hr
  have hfu := h.inv.fits u hu
  have hroom := h.room r hr
  have hFs : (s.F u).size = s.st.size u := rfl
  have hFe : (s.F u).exp = s.exp u := rfl
  have hFl : (s.F u).d.length = (s.st.size u).natAbs := (h.inv.limbs_spec hu).1
  have hFd : (s.F u).d = bu.take (s.st.size u).natAbs := limbs_of_blk hbu
  rw [two_exp_eq]
  unfold mpf_2expV
  simp only [FVariant3.c, bind, pure, Except.pure, hFs, hFe, if_true]
  by_cases hz : s.st.size u = 0
  · rw [if_pos hz, if_pos hz]; exact ⟨_, rfl, setSE_zero_spec h hr⟩
  rw [if_neg hz, if_neg hz]
  by_cases he : e % 64 = 0
  · rw [if_pos he, if_pos he]
    obtain ⟨asize, ha⟩ : ∃ a, a = min (s.st.size u).natAbs (s.prec r + 1) := ⟨_, rfl⟩
    have e1 : (if (s.st.size u).natAbs > s.prec r + 1 then (s.st.size u).natAbs - (s.prec r + 1) else 0) =
        (s.st.size u).natAbs - asize := by split <;> omega
    have e2 : (if (s.st.size u).natAbs > s.prec r + 1 then s.prec r + 1 else (s.st.size u).natAbs) = asize := by
      split <;> omega
    have htopeq : Mpf.top (s.prec r + 1) (s.F u).d = Mpf.top asize (s.F u).d := by
      unfold Mpf.top; rw [hFl]; congr 1; omega
    have hlen : (Mpf.top asize (s.F u).d).length = asize := by rw [top_length, hFl]; omega
    rw [e1, e2, htopeq, hlen, copyTop_ok (X := s.st) (bu := bu) (br := br) hbu hbr (by omega) (by omega)]
    simp only [Except.bind]
    exact ⟨_, rfl, copyTop_res h hr hu hbu hbr asize (by omega) (by omega) (by omega) _⟩
  rw [if_neg he, if_neg he]
  obtain ⟨k, hk⟩ : ∃ k, k = if mul = true then e % 64 else 64 - e % 64 := ⟨_, rfl⟩
  simp only [← hk]
  have hk1 : 1 ≤ k := by rw [hk]; split <;> omega
  have hk2 : k < 64 := by rw [hk]; split <;> omega
  clear hk he
  obtain ⟨n, hn⟩ : ∃ n, n = min (s.st.size u).natAbs (s.prec r) := ⟨_, rfl⟩
  have hn1 : 1 ≤ n := by omega
  have htop : Mpf.top (s.prec r) (s.F u).d = (bu.drop ((s.st.size u).natAbs - n)).take n := by
    rw [hFd, ← top_take_blk (by omega) (by omega)]
    unfold Mpf.top
    rw [List.length_take, Nat.min_eq_left (by omega)]
    congr 1; omega
  have hal : ((bu.drop ((s.st.size u).natAbs - n)).take n).length = n := by simp; omega
  have hge := top_norm h.inv hu hbu n (by rw [top_take_blk (by omega) (by omega), hal]; omega)
  rw [top_take_blk (by omega) (by omega), hal] at hge
  have hlt := val_lt _ (Limbs_take (Limbs_drop hbuL ((s.st.size u).natAbs - n)) n)
  rw [hal] at hlt
  unfold Mpf.shiftUp
  simp only []
  rw [htop, hal]
  have hinner : (if (s.st.size u).natAbs > s.prec r then
            Except.bind
              (mpn_rshift (s.st.ptr r) 1 (s.st.ptr u) ((s.st.size u).natAbs - s.prec r) (s.prec r) (64 - k) s.st)
              fun __x =>
              Except.bind (__x.2.storeAt (s.st.ptr r) 0 [__x.1]) fun st =>
                Except.bind (limbAt st (s.st.ptr r) (s.prec r)) fun top =>
                  Except.ok (s.prec r, if top ≠ 0 then 1 else 0, st)
          else
            Except.bind
              (mpn_lshift (s.st.ptr r) 0 (s.st.ptr u) 0 (s.st.size u).natAbs k s.st)
              fun __x =>
              Except.bind (__x.2.storeAt (s.st.ptr r) (s.st.size u).natAbs [__x.1]) fun st =>
                Except.ok ((s.st.size u).natAbs, if __x.1 ≠ 0 then 1 else 0, st)) =
      Except.ok (n, (if Mpf.topLimb (toLimbs (n + 1) (val ((bu.drop ((s.st.size u).natAbs - n)).take n) * 2 ^ k)) ≠ 0 then 1 else 0),
        s.st.setBlk (s.st.ptr r) (some (toLimbs (n + 1) (val ((bu.drop ((s.st.size u).natAbs - n)).take n) * 2 ^ k) ++ br.drop (n + 1)))) := by
    by_cases hlong : (s.st.size u).natAbs > s.prec r
    · have hnp : n = s.prec r := by omega
      rw [if_pos hlong, ← hnp]
      unfold mpn_rshift
      simp only [bind, Except.bind, pure, Except.pure]
      rw [if_neg (by omega), if_neg (by omega), loadAt_ok hbu (by omega)]
      simp only []
      rw [storeAt_ok hbr (by rw [toLimbs_length]; omega)]
      simp only []
      rw [storeAt_ok (setBlk_blk_self _ _ _) (by rw [wrAt_length (by rw [toLimbs_length]; omega)]; simp; omega), setBlk_setBlk]
      simp only []
      rw [wrAt_wrAt_zero (by simp) (by rw [toLimbs_length]; omega), ← rshift_full _ _ _ hk1 hk2, wrAt_zero, toLimbs_length]
      rw [limbAt_setBlk _ _ _ _ (by rw [length_wr' (by omega)]; omega)]
      simp only []
      rw [getD_append_left (by rw [toLimbs_length]; omega), topLimb_toLimbs _ _ (by omega), toLimbs_getD _ _ _ (by omega),
        Nat.add_sub_cancel]
    · have hnp : n = (s.st.size u).natAbs := by omega
      rw [if_neg hlong, ← hnp]
      rw [← hnp] at hlt
      unfold mpn_lshift
      simp only [bind, Except.bind, pure, Except.pure]
      rw [if_neg (by omega), if_neg (by omega), loadAt_ok hbu (by omega)]
      simp only []
      rw [storeAt_ok hbr (by rw [toLimbs_length]; omega)]
      simp only []
      rw [storeAt_ok (setBlk_blk_self _ _ _) (by rw [wrAt_length (by rw [toLimbs_length]; omega)]; simp; omega), setBlk_setBlk]
      simp only []
      have hvlt : val ((bu.drop (n - n)).take n) * 2 ^ k / B ^ n < B := by
        rw [Nat.sub_self] at hlt ⊢
        rw [Nat.div_lt_iff_lt_mul (DivZ.Bpow_pos _), Nat.mul_comm B]
        have h2kB : 2 ^ k < B := by unfold B; exact Nat.pow_lt_pow_right (by decide) hk2
        exact Nat.mul_lt_mul'' hlt h2kB
      have e1 : wrAt (wrAt br 0 (toLimbs n (val ((bu.drop 0).take n) * 2 ^ k))) n [val ((bu.drop 0).take n) * 2 ^ k / B ^ n] =
          toLimbs (n + 1) (val ((bu.drop (n - n)).take n) * 2 ^ k) ++ br.drop (n + 1) := by
        have := wrAt_wrAt_next (b := br) (l := toLimbs n (val ((bu.drop 0).take n) * 2 ^ k))
          (l2 := [val ((bu.drop 0).take n) * 2 ^ k / B ^ n]) (off := 0) (by simp [toLimbs_length]; omega)
        rw [Nat.zero_add, toLimbs_length] at this
        rw [this, wrAt_zero, Nat.sub_self, toLimbs_succ_snoc, Nat.mod_eq_of_lt (by rw [Nat.sub_self] at hvlt; exact hvlt)]
        simp [toLimbs_length]
      rw [e1, toLimbs_succ_snoc n, topLimb_snoc, Nat.mod_eq_of_lt hvlt, Nat.sub_self]
  rw [hinner]
  simp only [Except.bind]
  clear hinner
  generalize val ((bu.drop ((s.st.size u).natAbs - n)).take n) = A at *
  obtain ⟨adj, hadj⟩ : ∃ adj, adj = if Mpf.topLimb (toLimbs (n + 1) (A * 2 ^ k)) ≠ 0 then 1 else 0 := ⟨_, rfl⟩
  simp only [← hadj]
  have hadj1 : adj ≤ 1 := by rw [hadj]; split <;> omega
  rw [List.length_take, toLimbs_length, Nat.min_eq_left (by omega)]
  refine ⟨_, rfl, ?_⟩
  exact shift_res h hr hbr n A k hn1 (by omega) hge hlt hk1 hk2 _ _ adj hadj (by split <;> simp) rfl rfl (fun j => rfl)

theorem mpf_mul_2exp_ok {s : FSt} (h : FInv s) {r u : Nat} (hr : r < s.st.nv) (hu : u < s.st.nv) (e : Nat) (hp : 1 ≤ s.prec r) :
    ∃ s', mpf_mul_2exp r u e s = .ok s' ∧ FRes s s' r (Mpf.mul_2exp (s.prec r) (s.F u) e) :=
  mpf_2exp_ok h hr hu true e hp

theorem mpf_div_2exp_ok {s : FSt} (h : FInv s) {r u : Nat} (hr : r < s.st.nv) (hu : u < s.st.nv) (e : Nat) (hp : 1 ≤ s.prec r) :
    ∃ s', mpf_div_2exp r u e s = .ok s' ∧ FRes s s' r (Mpf.div_2exp (s.prec r) (s.F u) e) :=
  mpf_2exp_ok h hr hu false e hp

/-! ### mpf_ui_div -/

theorem foldl_free_setBlk_head (Y : St) (p : Nat) (x : Option (List Nat)) (l : List Nat) :
    (p :: l).foldl St.free (Y.setBlk p x) = (p :: l).foldl St.free Y := by
  simp only [List.foldl_cons]
  congr 1
  unfold St.free; rw [setBlk_setBlk]

/-- ui_div.c:110-119 (the same tail as div.c:138-147) on a state with the TMP blocks in place -/
theorem ui_div_tail {s : FSt} (h : FInv s) {r : Nat} (hr : r < s.st.nv) {st : St} (i1 : Inv st) (x1 : Ext s.st st)
    {remp tp vp nl dl : Nat} {T R Vl : List Nat} (hT : st.blk tp = some T) (hR : st.blk remp = some R)
    (hV : st.load vp dl = .ok Vl) (hTl : T.length = nl) (hRl : dl ≤ R.length)
    (n1 : s.st.ptr r ≠ tp) (n2 : s.st.ptr r ≠ vp) (n3 : remp ≠ tp) (n4 : remp ≠ vp) (n5 : s.st.ptr r ≠ remp)
    (hdl : 1 ≤ dl) (hnl : nl = s.prec r + dl) (hT1 : B ^ (nl - 1) ≤ val T) (hT2 : val T < B ^ nl)
    (hV1 : B ^ (dl - 1) ≤ val Vl) (hV2 : val Vl < B ^ dl) (hVtop : Vl.getD (dl - 1) 0 ≠ 0)
    (rest : List Nat) (htmp : ∀ p, p ∈ remp :: rest → ∀ i, i < s.st.nv → s.st.ptr i ≠ p) (vs : Int) (rexp : Int) :
    ∃ S', (Except.bind (mpn_tdiv_qr (s.st.ptr r) remp tp nl vp dl st) fun st =>
        Except.bind (limbAt st (s.st.ptr r) (s.prec r + 1 - 1)) fun top =>
          Except.ok (((s.withSt st).setSE r
              (if vs ≥ 0 then ((s.prec r + 1 - if top = 0 then 1 else 0 : Nat) : Int)
               else -((s.prec r + 1 - if top = 0 then 1 else 0 : Nat) : Int))
              (rexp - ((if top = 0 then 1 else 0 : Nat) : Int))).withSt
            ((remp :: rest).foldl St.free ((s.withSt st).setSE r
              (if vs ≥ 0 then ((s.prec r + 1 - if top = 0 then 1 else 0 : Nat) : Int)
               else -((s.prec r + 1 - if top = 0 then 1 else 0 : Nat) : Int))
              (rexp - ((if top = 0 then 1 else 0 : Nat) : Int))).st))) = .ok S' ∧
      FRes s S' r (Mpf.quotFinish (s.prec r) (decide (vs < 0)) (val T / val Vl) rexp) := by
  obtain ⟨br, hbr, hbrl, hbrL⟩ := h.inv.live r hr
  have hroom := h.room r hr
  have hbr1 : st.blk (s.st.ptr r) = some br := by rw [x1.blk _ (by rw [hbr]; simp), hbr]
  have hN : st.load tp nl = .ok T := by rw [← hTl]; exact load_of_blk hT
  have ht : nl - dl + 1 = s.prec r + 1 := by omega
  rw [mpn_tdiv_qr_ok hN hV hbr1 hR n1 n2 n3 n4 n5 hdl (by omega) hVtop (by omega) hRl]
  simp only [Except.bind, ht]
  obtain ⟨t, htt⟩ : ∃ t, t = s.prec r + 1 := ⟨_, rfl⟩
  have ht1 : 1 ≤ t := by omega
  simp only [← htt]
  have hq := quot_size hT1 hT2 hV1 hV2 hdl (by omega)
  rw [ht, ← htt] at hq
  obtain ⟨q, hqd⟩ : ∃ q, q = val T / val Vl := ⟨_, rfl⟩
  rw [← hqd] at hq ⊢
  have hblk : ((st.setBlk (s.st.ptr r) (some (toLimbs t q ++ br.drop t))).setBlk remp
      (some (toLimbs dl (val T % val Vl) ++ R.drop dl))).blk (s.st.ptr r) = some (toLimbs t q ++ br.drop t) := by
    simp [St.setBlk, n5]
  rw [limbAt_of_blk hblk (by rw [length_wr' (by omega)]; omega)]
  simp only []
  rw [getD_append_left (by rw [toLimbs_length]; omega), toLimbs_getD _ _ _ (by omega)]
  unfold Mpf.quotFinish
  simp only [← htt]
  rw [topLimb_toLimbs _ _ ht1]
  obtain ⟨hzl, hhz⟩ : ∃ hzl, hzl = if q / B ^ (t - 1) % B = 0 then 1 else 0 := ⟨_, rfl⟩
  rw [← hhz] at hq
  simp only [← hhz]
  have hzl1 : hzl ≤ 1 := by rw [hhz]; split <;> omega
  refine ⟨_, rfl, ?_⟩
  have hf := fput_spec h i1 x1 hr (toLimbs t q ++ br.drop t) (t - hzl) (decide (vs < 0)) (rexp - hzl) (remp :: rest)
    (by rw [length_wr' (by omega)]; exact hbrl) (Limbs_wr' (Limbs_toLimbs _ _) hbrL) (by omega)
    (by rw [hq.2]; rw [val_take_wr _ (by rw [← hq.2]; omega)]) htmp
  rw [List.take_append_of_le_length (by rw [toLimbs_length]; omega)] at hf
  rw [List.length_take, toLimbs_length, Nat.min_eq_left (by omega), ← sgn_eq]
  have : ∀ (X : FSt), X = (s.withSt ((remp :: rest).foldl St.free ((st.put r (toLimbs t q ++ br.drop t)
      (if decide (vs < 0) = true then -((t - hzl : Nat) : Int) else ((t - hzl : Nat) : Int)))))).setExp r (rexp - hzl) →
      FRes s X r ⟨s.prec r, if decide (vs < 0) = true then -((t - hzl : Nat) : Int) else ((t - hzl : Nat) : Int),
        rexp - hzl, (toLimbs t q).take (t - hzl)⟩ := fun X e => by rw [e]; exact hf
  apply this
  refine FSt.ext' ?_ rfl (fun j => rfl)
  show (remp :: rest).foldl St.free (((st.setBlk (s.st.ptr r) (some (toLimbs t q ++ br.drop t))).setSize r _).setBlk remp _) = _
  rw [foldl_free_setBlk_head]
  rw [show st.put r (toLimbs t q ++ br.drop t) (if decide (vs < 0) = true then -((t - hzl : Nat) : Int) else ((t - hzl : Nat) : Int))
    = (st.setBlk (s.st.ptr r) (some (toLimbs t q ++ br.drop t))).setSize r
      (if decide (vs < 0) = true then -((t - hzl : Nat) : Int) else ((t - hzl : Nat) : Int)) by
    unfold St.put; rw [x1.ptr]]
  rfl

theorem mpf_ui_div_ok {s : FSt} (h : FInv s) {r v : Nat} (hr : r < s.st.nv) (hv : v < s.st.nv) {u : Nat} (huB : u < B)
    (hvz : s.st.size v ≠ 0) :
    ∃ s' f, mpf_ui_div r u v s = .ok s' ∧ Mpf.ui_div (s.prec r) u (s.F v) = .ok f ∧ FRes s s' r f := by
  obtain ⟨bv, hbv, hbvl, hbvL⟩ := h.inv.live v hv
  have hfv := h.inv.fits v hv
  have hFs : (s.F v).size = s.st.size v := rfl
  have hFe : (s.F v).exp = s.exp v := rfl
  have hFl : (s.F v).d.length = (s.st.size v).natAbs := (h.inv.limbs_spec hv).1
  have hFd : (s.F v).d = s.st.limbs v := rfl
  unfold mpf_ui_div mpf_ui_divV Mpf.ui_div
  simp only [FVariant3.c, bind, pure, Except.pure, hFs, hFe, hFd, true_and]
  rw [if_neg (by omega : ¬ (s.st.size v).natAbs = 0), if_neg hvz]
  by_cases hu0 : u = 0
  · rw [if_pos hu0, if_pos hu0]; exact ⟨_, _, rfl, rfl, setSE_zero_spec h hr⟩
  rw [if_neg hu0, if_neg hu0]
  have hFl' : (s.st.limbs v).length = (s.st.size v).natAbs := hFl
  rw [hFl']
  obtain ⟨n, hn⟩ : ∃ n, n = (s.st.size v).natAbs := ⟨_, rfl⟩
  have hn1 : 1 ≤ n := by omega
  have hV1 : B ^ (n - 1) ≤ val (s.st.limbs v) := by rw [hn]; exact h.inv.mag_ge hv hvz
  have hV2 : val (s.st.limbs v) < B ^ n := by rw [hn]; exact h.inv.mag_lt hv
  have hVtop : (s.st.limbs v).getD (n - 1) 0 ≠ 0 := by rw [hn]; exact h.inv.top_ne_zero hv hvz
  have hVload : s.st.load (s.st.ptr v) n = .ok (s.st.limbs v) := by rw [hn]; exact h.inv.load_var hv
  have hVlen : (s.st.limbs v).length = n := by rw [hn]; exact hFl
  simp only [← hn]
  clear hFl hFl' hfv
  generalize s.st.limbs v = Vl at *
  obtain ⟨T, hTd⟩ : ∃ T, T = List.replicate (s.prec r + n - 1) 0 ++ [u] := ⟨_, rfl⟩
  simp only [← hTd]
  have hTl : T.length = s.prec r + n := by rw [hTd]; simp; omega
  have hTv : val T = u * B ^ (s.prec r + n - 1) := by rw [hTd, val_zeros_append, Nat.mul_comm]; simp [val]
  have hT1 : B ^ (s.prec r + n - 1) ≤ val T := by rw [hTv]; exact Nat.le_mul_of_pos_left _ (by omega)
  have hT2 : val T < B ^ (s.prec r + n) := by
    rw [hTv, show s.prec r + n = (s.prec r + n - 1) + 1 by omega, pow_succ', Nat.add_sub_cancel]
    exact Nat.mul_lt_mul_of_pos_right huB (DivZ.Bpow_pos _)
  have i1 : Inv (s.st.tmpAlloc n).2 := malloc_inv h.inv _
  have x1 : Ext s.st (s.st.tmpAlloc n).2 := malloc_ext h.inv _
  have i2 := malloc_inv i1 T
  have x2 := malloc_ext i1 T
  have x12 := x1.trans x2
  have hR1 : (s.st.tmpAlloc n).2.blk s.st.next = some (List.replicate n junk) := malloc_blk_new _ _
  have hR : ((s.st.tmpAlloc n).2.malloc T).2.blk s.st.next = some (List.replicate n junk) := by
    rw [x2.blk _ (by rw [hR1]; simp), hR1]
  have hT : ((s.st.tmpAlloc n).2.malloc T).2.blk (s.st.next + 1) = some T := malloc_blk_new _ _
  have hV := x12.load hVload
  have hlr := h.inv.lt r hr
  have hlv := h.inv.lt v hv
  have hlt : ∀ i, i < s.st.nv → s.st.ptr i < s.st.next := h.inv.lt
  rw [← hTv]
  have key : ∀ (st : St) (vp : Nat) (rest : List Nat), Inv st → Ext s.st st → st.blk (s.st.next + 1) = some T →
      st.blk s.st.next = some (List.replicate n junk) → st.load vp n = .ok Vl → s.st.ptr r ≠ vp → s.st.next ≠ vp →
      (∀ p, p ∈ s.st.next :: rest → ∀ i, i < s.st.nv → s.st.ptr i ≠ p) →
      ∃ s' f, (Except.bind (mpn_tdiv_qr (s.st.ptr r) s.st.next (s.st.next + 1) (s.prec r + n) vp n st) fun st =>
        Except.bind (limbAt st (s.st.ptr r) (s.prec r + 1 - 1)) fun top =>
          Except.ok (((s.withSt st).setSE r
              (if s.st.size v ≥ 0 then ((s.prec r + 1 - if top = 0 then 1 else 0 : Nat) : Int)
               else -((s.prec r + 1 - if top = 0 then 1 else 0 : Nat) : Int))
              (1 - s.exp v + 1 - ((if top = 0 then 1 else 0 : Nat) : Int))).withSt
            ((s.st.next :: rest).foldl St.free ((s.withSt st).setSE r
              (if s.st.size v ≥ 0 then ((s.prec r + 1 - if top = 0 then 1 else 0 : Nat) : Int)
               else -((s.prec r + 1 - if top = 0 then 1 else 0 : Nat) : Int))
              (1 - s.exp v + 1 - ((if top = 0 then 1 else 0 : Nat) : Int))).st))) = .ok s' ∧
        Mpf.Res.ok (Mpf.quotFinish (s.prec r) (decide (s.st.size v < 0)) (val T / val Vl) (1 - s.exp v + 1)) = .ok f ∧
        FRes s s' r f := by
    intro st vp rest i3 x3 hT3 hR3 hV3 n2 n4 htmp
    obtain ⟨S', e1, e2⟩ := ui_div_tail h hr i3 x3 hT3 hR3 hV3 hTl (by simp) (by omega) n2 (by omega) n4 (by omega)
      hn1 rfl (by rw [Nat.add_sub_assoc hn1] at hT1 ⊢; exact hT1) hT2 hV1 hV2 hVtop rest htmp (s.st.size v) (1 - s.exp v + 1)
    exact ⟨S', _, e1, rfl, e2⟩
  by_cases hrv : s.st.ptr r = s.st.ptr v
  · rw [if_pos hrv]
    unfold St.tmpCopy
    simp only [bind, Except.bind, hV, pure, Except.pure]
    have i3 := malloc_inv i2 Vl
    have x3 := malloc_ext i2 Vl
    have := key (((s.st.tmpAlloc n).2.malloc T).2.malloc Vl).2 (s.st.next + 2) [s.st.next + 1, s.st.next + 2] i3 (x12.trans x3)
      (by rw [x3.blk _ (by rw [hT]; simp), hT]) (by rw [x3.blk _ (by rw [hR]; simp), hR])
      (by rw [← hVlen]; exact load_of_blk (malloc_blk_new _ Vl)) (by omega) (by omega)
      (by intro p hp i hi; have := hlt i hi; simp at hp; omega)
    simp only [Except.bind] at this ⊢
    exact this
  · rw [if_neg hrv]
    have := key ((s.st.tmpAlloc n).2.malloc T).2 (s.st.ptr v) [s.st.next + 1] i2 x12 hT hR hV hrv (by omega)
      (by intro p hp i hi; have := hlt i hi; simp at hp; omega)
    simp only [Except.bind] at this ⊢
    exact this

theorem mpf_ui_div_zero {s : FSt} {r v u : Nat} (hvz : s.st.size v = 0) :
    mpf_ui_div r u v s = .error "div0" ∧ Mpf.ui_div (s.prec r) u (s.F v) = .div0 := by
  have hFs : (s.F v).size = s.st.size v := rfl
  unfold mpf_ui_div mpf_ui_divV Mpf.ui_div
  simp only [bind, Except.bind, hFs]
  rw [if_pos (by omega), if_pos hvz]
  exact ⟨rfl, rfl⟩

/-! ### examples -/

-- the C05_b_3 pattern: ceil in place, fraction limb zero, integer limb 5: stays 5 (the fraction is inspected BEFORE the move)
example : lookF (mpf_ceil 0 0 (ofFs [⟨2, 2, 1, [0, 5]⟩])) 1 = .ok [⟨2, 1, 1, [5]⟩] := by decide +kernel
-- scanBeforeMove := false: the moved integer limb is taken for a fraction limb, 5 becomes 6
example : lookF (mpf_ceilfloorV {scanBeforeMove := false} 0 0 1 (ofFs [⟨2, 2, 1, [0, 5]⟩])) 1 = .ok [⟨2, 1, 1, [6]⟩] := by
  decide +kernel
-- r = u, 5 limbs > prec + 1 = 3, two integer limbs [4, 5] above a non-zero fraction
example : lookF (mpf_ceil 0 0 (ofFs [⟨2, 5, 2, [1, 2, 3, 4, 5]⟩])) 1 = .ok [⟨2, 2, 2, [5, 5]⟩] := by decide +kernel
example : lookF (mpf_floor 0 0 (ofFs [⟨2, 5, 2, [1, 2, 3, 4, 5]⟩])) 1 = .ok [⟨2, 2, 2, [4, 5]⟩] := by decide +kernel
example : Mpf.ceil 2 ⟨2, 5, 2, [1, 2, 3, 4, 5]⟩ = ⟨2, 2, 2, [5, 5]⟩ := by decide +kernel
-- floor of a negative number whose kept limbs are all ones: carry, one limb, exponent + 1
example : lookF (mpf_floor 0 0 (ofFs [⟨1, -4, 3, [9, 2 ^ 64 - 1, 2 ^ 64 - 1, 2 ^ 64 - 1]⟩])) 1 = .ok [⟨1, -1, 4, [1]⟩] := by
  decide +kernel
-- a pure fraction, r ≠ u
example : lookF (mpf_floor 0 1 (ofFs [⟨2, 0, 0, []⟩, ⟨2, -1, 0, [7]⟩])) 2 = .ok [⟨2, -1, 1, [1]⟩, ⟨2, -1, 0, [7]⟩] := by
  decide +kernel
example : lookF (mpf_trunc 0 0 (ofFs [⟨2, -5, 9, [1, 2, 3, 4, 5]⟩])) 1 = .ok [⟨2, -3, 9, [3, 4, 5]⟩] := by decide +kernel
-- copyIncr := false: MPN_COPY_DECR moving limbs down inside one block
example : lookF (mpf_ceilfloorV {copyIncr := false} 0 0 (-1) (ofFs [⟨2, 5, 9, [1, 2, 3, 4, 5]⟩])) 1 =
    .error "ub:MPN_COPY_DECR overlap" := by decide +kernel
example : lookF (mpf_truncV {copyIncr := false} 0 0 (ofFs [⟨2, -5, 9, [1, 2, 3, 4, 5]⟩])) 1 =
    .error "ub:MPN_COPY_DECR overlap" := by decide +kernel
-- shifts in place, 5 limbs under prec 2
example : lookF (mpf_mul_2exp 0 0 3 (ofFs [⟨2, 5, 9, [1, 2, 3, 4, 2 ^ 63]⟩])) 1 = .ok [⟨2, 3, 10, [32, 0, 4]⟩] := by
  decide +kernel
example : Mpf.mul_2exp 2 ⟨2, 5, 9, [1, 2, 3, 4, 2 ^ 63]⟩ 3 = ⟨2, 3, 10, [32, 0, 4]⟩ := by decide +kernel
example : lookF (mpf_mul_2exp 0 0 64 (ofFs [⟨2, 5, 9, [1, 2, 3, 4, 5]⟩])) 1 = .ok [⟨2, 3, 10, [3, 4, 5]⟩] := by decide +kernel
example : lookF (mpf_div_2exp 0 0 67 (ofFs [⟨2, -5, 9, [1, 2, 3, 4, 5]⟩])) 1 =
    .ok [⟨2, -2, 7, [9223372036854775808, 11529215046068469760]⟩] := by decide +kernel
example : lookF (mpf_div_2exp 0 1 1 (ofFs [⟨2, 0, 0, []⟩, ⟨2, 2, 1, [1, 1]⟩])) 2 =
    .ok [⟨2, 2, 0, [2 ^ 63, 2 ^ 63]⟩, ⟨2, 2, 1, [1, 1]⟩] := by decide +kernel
-- rshiftWhenLong := false: mpn_lshift (rp, up + 1, 2, 3) with rp == up
example : lookF (mpf_2expV {rshiftWhenLong := false} true 0 0 3 (ofFs [⟨2, 3, 9, [2, 3, 4]⟩])) 1 =
    .error "ub:mpn_lshift overlap" := by decide +kernel
example : lookF (mpf_2expV {copyIncr := false} true 0 0 64 (ofFs [⟨2, 5, 9, [2, 3, 4, 5, 6]⟩])) 1 =
    .error "ub:MPN_COPY_DECR overlap" := by decide +kernel
-- 7 / v in place, v negative with 4 limbs > prec + 1
example : lookF (mpf_ui_div 0 7 0 (ofFs [⟨2, -4, 9, [1, 2, 3, 4]⟩])) 1 =
    .ok [⟨2, -3, -7, [12682136550675316736, 13835058055282163710, 1]⟩] := by decide +kernel
example : Mpf.ui_div 2 7 ⟨2, -4, 9, [1, 2, 3, 4]⟩ = .ok ⟨2, -3, -7, [12682136550675316736, 13835058055282163710, 1]⟩ := by
  decide +kernel
example : lookF (mpf_ui_div 0 1 1 (ofFs [⟨2, 0, 0, []⟩, ⟨2, 1, 1, [2]⟩])) 2 = .ok [⟨2, 2, 0, [0, 2 ^ 63]⟩, ⟨2, 1, 1, [2]⟩] := by
  decide +kernel
-- copyV := false: the quotient area is the divisor
example : lookF (mpf_ui_divV {copyV := false} 0 7 0 (ofFs [⟨2, 2, 9, [2, 3]⟩])) 1 =
    .error "ub:mpn_tdiv_qr operands overlap" := by decide +kernel

end Mpir.AliasMem
