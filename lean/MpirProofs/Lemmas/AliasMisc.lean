/- mpz_root, mpz_remove, mpz_bin_ui on the pointer-level model (Mpir/Model/AliasMisc.lean), every assignment of ids. -/
import MpirProofs.Lemmas.AliasPowm
import MpirProofs.Lemmas.AliasRootrem
import MpirProofs.Lemmas.Numth
import Mpir.Model.AliasMisc
namespace Mpir.AliasMem
open Mpir
open Mpir.DivZ (sizeNat siz sameSign)

/-! ### mpz_root -/

/-- root.c:63-71: what the copy (nth = 1) or mpn_rootrem with a NULL remainder leaves in the root block -/
theorem rootCompute_ok {s2 : St} {rootp up un nth : Nat} {Ul bR : List Nat}
    (hl : s2.load up un = .ok Ul) (hUL : Limbs Ul) (hUlen : Ul.length = un)
    (hbR : s2.blk rootp = some bR) (h1 : rootp ≠ up) (hun : 1 ≤ un) (hn : 1 ≤ nth)
    (htop : Ul.getD (un - 1) 0 ≠ 0) (haR : (un - 1) / nth + 1 ≤ bR.length) :
    rootCompute nth rootp up un s2 =
      .ok (sizeNat (val Ul - Root.iroot nth (val Ul) ^ nth),
        s2.setBlk rootp (some (toLimbs ((un - 1) / nth + 1) (Root.iroot nth (val Ul)) ++ bR.drop ((un - 1) / nth + 1)))) := by
  unfold rootCompute
  by_cases h1n : nth = 1
  · subst h1n
    rw [if_pos rfl]
    simp only [bind, Except.bind, pure, Except.pure, hl]
    have e0 : (un - 1) / 1 + 1 = un := by rw [Nat.div_one]; omega
    rw [e0] at haR
    rw [store_blk hbR (by rw [hUlen]; exact haR)]
    simp only [Root.iroot_one, pow_one, Nat.sub_self, DivZ.sizeNat_eq_zero.mpr rfl, e0, hUlen]
    rw [← hUlen, ← eq_toLimbs' Ul hUL]
  · rw [if_neg h1n]
    unfold mpn_root
    have hs : ¬ ¬ (1 ≤ un ∧ 2 ≤ nth) := by omega
    simp only [bind, Except.bind, h1, if_false, hl, hs, htop, pure, Except.pure, Root.irootFast_eq, Root.powS_eq]
    rw [store_blk hbR (by rw [toLimbs_length]; exact haR)]
    simp only [toLimbs_length]

/-- **mpz_root (root, u, nth)** on the pointer model, root = u included: the return value says whether the root is exact,
    root ends up with the truncated nth root (sign of u), nothing else changes. -/
theorem mpz_root_ok {s : St} (h : Inv s) {root u : Nat} (hr : root < s.nv) (hu : u < s.nv) (nth : Nat) (hn : 1 ≤ nth)
    (hsgn : 0 ≤ s.value u ∨ nth % 2 = 1) :
    ∃ s', mpz_root root u nth s = .ok (decide (Root.iroot nth (s.mag u) ^ nth = s.mag u), s') ∧
      Res s s' root (sgnv (s.size u) (Root.iroot nth (s.mag u))) := by
  unfold mpz_root mpz_rootV
  simp only [RootVariant.c, bind, Except.bind, pure, Except.pure, true_and]
  have hc1 : ¬ (s.size u < 0 ∧ nth % 2 = 0) := fun ⟨a, b⟩ => by
    have := (h.size_neg_iff hu).mp a; omega
  rw [if_neg hc1, if_neg (by omega : ¬ nth = 0)]
  by_cases hz : s.size u = 0
  · rw [if_pos hz]
    have hm0 : s.mag u = 0 := h.mag_zero hu hz
    obtain ⟨i1, u1, v1⟩ := setSize_zero_spec h hr
    rw [hm0, Root.iroot_zero nth (by omega)]
    refine ⟨_, ?_, i1, u1.nv, ?_, fun i hi hir => u1.value_o h hr hi hir⟩
    · have : (0 : Nat) ^ nth = 0 := Nat.zero_pow (by omega)
      simp [this]
    · rw [v1]; unfold sgnv; split <;> simp
  · rw [if_neg hz]
    set un := (s.size u).natAbs with hun
    have hun1 : 1 ≤ un := by omega
    set rootn := (un - 1) / nth + 1 with hrootn
    have hN1 := h.mag_ge hu hz; rw [← hun] at hN1
    have hN2 := h.mag_lt hu; rw [← hun] at hN2
    set N := s.mag u with hN
    set Rt := Root.iroot nth N with hRt
    have hRsz : sizeNat Rt = rootn := iroot_size hN1 hN2 hun1 hn
    have hspec : Rt ^ nth ≤ N ∧ N < (Rt + 1) ^ nth := Root.iroot_spec nth N (by omega)
    have hexact : decide (sizeNat (N - Rt ^ nth) = 0) = decide (Rt ^ nth = N) := by
      rw [decide_eq_decide, DivZ.sizeNat_eq_zero]; omega
    have hz' : (if s.size u ≥ 0 then (rootn : Int) else -(rootn : Int)) =
        (if decide (s.size u < 0) = true then -((sizeNat Rt : Nat) : Int) else ((sizeNat Rt : Nat) : Int)) := by
      rw [hRsz]; by_cases hneg : s.size u < 0
      · rw [if_neg (by omega), if_pos (by simpa using hneg)]
      · rw [if_pos (by omega), if_neg (by simpa using hneg)]
    have hrle : rootn ≤ un := by
      rw [hrootn]
      have : (un - 1) / nth ≤ un - 1 := Nat.div_le_self _ _
      omega
    by_cases hur : u = root
    · subst hur
      simp only [decide_true, if_true]
      -- the root is built in TMP space
      have i2 := malloc_inv h (List.replicate rootn junk)
      have e2 := malloc_ext h (List.replicate rootn junk)
      have hl := e2.load (h.load_var hu)
      rw [← hun] at hl
      have hls := h.limbs_spec hu
      have htop := h.top_ne_zero hu hz; rw [← hun] at htop
      have hptr : (s.tmpAlloc rootn).2.ptr u = s.ptr u := rfl
      have hfst : (s.tmpAlloc rootn).1 = s.next := rfl
      rw [hptr, hfst]
      rw [rootCompute_ok (s2 := (s.tmpAlloc rootn).2) hl hls.2 (by rw [hls.1]) (malloc_blk_new s _)
        (Ne.symm (malloc_ne_ptr h hu)) hun1 hn htop (by simp [hrootn])]
      simp only []
      have hval : val (s.limbs u) = N := rfl
      rw [hval, hexact]
      set nb := toLimbs rootn Rt ++ (List.replicate rootn junk).drop rootn with hnb
      set X1 := (s.tmpAlloc rootn).2.setBlk s.next (some nb) with hX1
      obtain ⟨iX, vX⟩ := setBlk_nonvar i2 (p := s.next)
        (fun i hi => by rw [e2.ptr]; exact malloc_ne_ptr h (by rw [e2.nv] at hi; exact hi))
        (by show s.next < s.next + 1; omega) nb
      have iX' : Inv X1 := iX
      have huX : u < X1.nv := hu
      have hXblk : X1.blk s.next = some nb := by simp [hX1, St.setBlk]
      have hld : (X1.setSize u (if s.size u ≥ 0 then (rootn : Int) else -(rootn : Int))).load s.next rootn =
          .ok (toLimbs rootn Rt) := by
        have hb : (X1.setSize u (if s.size u ≥ 0 then (rootn : Int) else -(rootn : Int))).blk s.next = some nb := hXblk
        rw [load_blk hb (by rw [hnb]; simp [toLimbs_length])]
        rw [hnb, List.take_append_of_le_length (by rw [toLimbs_length]), List.take_of_length_le (by rw [toLimbs_length])]
      rw [hld]; simp only []
      obtain ⟨bu, hbu, hbul, hbuL⟩ := iX'.live u huX
      have hpu : X1.ptr u = s.ptr u := rfl
      rw [hpu] at hbu
      have hau : X1.alloc u = s.alloc u := rfl
      have hfit := h.fits u hu
      have hst : (X1.setSize u (if s.size u ≥ 0 then (rootn : Int) else -(rootn : Int))).store (s.ptr u) (toLimbs rootn Rt) =
          .ok (X1.put u (toLimbs rootn Rt ++ bu.drop rootn) (if s.size u ≥ 0 then (rootn : Int) else -(rootn : Int))) := by
        have hb : (X1.setSize u (if s.size u ≥ 0 then (rootn : Int) else -(rootn : Int))).blk (s.ptr u) = some bu := hbu
        rw [store_blk hb (by rw [toLimbs_length, hbul, hau]; omega)]
        simp only [toLimbs_length]
        rfl
      rw [hst]; simp only []
      rw [hz']
      have p := put_upd iX' huX (toLimbs rootn Rt ++ bu.drop rootn) Rt (decide (s.size u < 0))
        (by rw [length_wr' (by rw [hbul, hau]; omega)]; exact hbul) (Limbs_wr' (Limbs_toLimbs _ _) hbuL)
        (by rw [hRsz, hau]; omega) (by rw [← hRsz]; exact val_take_wr _ (Nat.le_refl _))
      obtain ⟨i6, n6, _, v6⟩ := free_inv p.1 s.next (fun i hi => by
        rw [p.2.1.ptr]
        show s.ptr i ≠ s.next
        exact malloc_ne_ptr h (by rw [p.2.1.nv] at hi; exact hi))
      have nvp : (X1.put u (toLimbs rootn Rt ++ bu.drop rootn)
          (if decide (s.size u < 0) = true then -((sizeNat Rt : Nat) : Int) else ((sizeNat Rt : Nat) : Int))).nv = s.nv := p.2.1.nv
      refine ⟨_, rfl, i6, by rw [n6, nvp], ?_, fun i hi hir => ?_⟩
      · rw [v6 u (by rw [nvp]; exact hu), p.2.2, sgnv_eq_ite]
      · rw [v6 i (by rw [nvp]; exact hi), p.2.1.value_o iX' huX hi hir]
        exact (vX i (by rw [e2.nv]; exact hi)).trans (e2.value h hi)
    · have hur' : ¬ (u = root) := hur
      simp only [hur', decide_false, Bool.false_eq_true, if_false]
      obtain ⟨i1, n1, sz1, v1, a1, _⟩ := realloc_spec h hr rootn
      set s1 := s.mpzRealloc root rootn with hs1
      have hr1 : root < s1.nv := by rw [n1]; exact hr
      have hu1 : u < s1.nv := by rw [n1]; exact hu
      have hl := i1.load_var hu1; rw [sz1, ← hun] at hl
      have hls := i1.limbs_spec hu1; rw [sz1, ← hun] at hls
      have htop := i1.top_ne_zero hu1 (by rw [sz1]; exact hz); rw [sz1, ← hun] at htop
      obtain ⟨bR, hbR, hbRl, hbRL⟩ := i1.live root hr1
      have hne : s1.ptr root ≠ s1.ptr u := fun e => hur (i1.inj root u hr1 hu1 e).symm
      rw [rootCompute_ok hl hls.2 hls.1 hbR hne hun1 hn htop (by rw [hbRl]; exact a1)]
      simp only []
      have hval : val (s1.limbs u) = N := mag_of_value (v1 u hu)
      rw [hval, hexact, hz']
      have p := put_upd i1 hr1 (toLimbs rootn Rt ++ bR.drop rootn) Rt (decide (s.size u < 0))
        (by rw [length_wr' (by rw [hbRl]; exact a1)]; exact hbRl) (Limbs_wr' (Limbs_toLimbs _ _) hbRL)
        (by rw [hRsz]; exact a1) (by rw [← hRsz]; exact val_take_wr _ (Nat.le_refl _))
      refine ⟨_, rfl, p.1, p.2.1.nv.trans n1, ?_, fun i hi hir => ?_⟩
      · show (s1.put root _ _).value root = _
        rw [p.2.2, sgnv_eq_ite]
      · show (s1.put root _ _).value i = _
        rw [p.2.1.value_o i1 hr1 (by rw [n1]; exact hi) hir, v1 i hi]

/-! ### mpz_remove -/

/-- `±a` with the sign of src -/
def sgb (neg : Bool) (a : Nat) : Int := if neg then -(a : Int) else (a : Int)

theorem tdivQ_sgb (neg : Bool) (a fp : Nat) : DivZ.tdivQ (sgb neg a) (fp : Int) = sgb neg (a / fp) := by
  unfold DivZ.tdivQ sgb
  cases neg
  · simp only [Bool.false_eq_true, if_false]; exact (Int.ofNat_tdiv a fp).symm
  · simp only [if_true]; rw [Int.neg_tdiv, Int.ofNat_tdiv]

theorem tdivR_sgb_zero (neg : Bool) (a fp : Nat) : DivZ.tdivR (sgb neg a) (fp : Int) = 0 ↔ a % fp = 0 := by
  unfold DivZ.tdivR sgb
  have h : Int.tmod (a : Int) (fp : Int) = ((a % fp : Nat) : Int) := (Int.ofNat_tmod a fp).symm
  cases neg
  · simp only [Bool.false_eq_true, if_false]; rw [h]; omega
  · simp only [if_true]; rw [Int.neg_tmod, h]; omega

/-- the loop invariant of both phases of mpz_remove: `s0` is the state at the call, its variables are `0 … s0.nv-1`;
    rem = `s0.nv`, x = `s0.nv + 1`, fpow[j] = `s0.nv + 2 + j` for j ≤ p (the last variable is fpow[p]) holding `pows` (most
    recent first); dest holds ±a; every other variable of `s0` has its old value -/
structure RInv (s0 : St) (dest : Nat) (neg : Bool) (s : St) (p a : Nat) (pows : List Nat) : Prop where
  hinv : Inv s
  hnv : s.nv = s0.nv + 2 + p + 1
  hdest : s.value dest = sgb neg a
  hpw : ∀ j, j ≤ p → s.value (s0.nv + 2 + j) = ((pows.getD (p - j) 0 : Nat) : Int)
  hpos : ∀ j, j ≤ p → pows.getD (p - j) 0 ≠ 0
  hlen : pows.length = p + 1
  hframe : ∀ i, i < s0.nv → i ≠ dest → s.value i = s0.value i

theorem removeUp_ok (s0 : St) {dest : Nat} (hd : dest < s0.nv) (neg : Bool) :
    ∀ (fuel p : Nat) (s : St) (a : Nat) (pows : List Nat), RInv s0 dest neg s p a pows →
      ∃ s', removeUp dest (s0.nv + 1) s0.nv (s0.nv + 2) fuel p s = .ok ((Numth.removeUp fuel a pows p).2.2, s') ∧
        RInv s0 dest neg s' (Numth.removeUp fuel a pows p).2.2 (Numth.removeUp fuel a pows p).1
          (Numth.removeUp fuel a pows p).2.1 := by
  intro fuel
  induction fuel with
  | zero => intro p s a pows I; exact ⟨s, rfl, I⟩
  | succ fuel ih =>
    intro p s a pows I
    obtain ⟨fp, rest, hpows⟩ : ∃ fp rest, pows = fp :: rest := by
      cases pows with
      | nil => have := I.hlen; simp at this
      | cons fp rest => exact ⟨fp, rest, rfl⟩
    have hfpv : s.value (s0.nv + 2 + p) = (fp : Int) := by
      have := I.hpw p (Nat.le_refl p); rw [Nat.sub_self, hpows] at this; simpa using this
    have hfp0 : fp ≠ 0 := by
      have := I.hpos p (Nat.le_refl p); rw [Nat.sub_self, hpows] at this; simpa using this
    obtain ⟨s1, e1, i1, n1, vq, vr, vo⟩ := tdiv_qr_ok I.hinv (q := s0.nv + 1) (r := s0.nv) (n := dest) (d := s0.nv + 2 + p)
      (by rw [I.hnv]; omega) (by rw [I.hnv]; omega) (by rw [I.hnv]; omega) (by rw [I.hnv]; omega) (by omega)
      (by rw [hfpv]; exact_mod_cast hfp0)
    rw [I.hdest, hfpv, tdivQ_sgb] at vq
    rw [I.hdest, hfpv] at vr
    have hrem : s1.size s0.nv ≠ 0 ↔ a % fp ≠ 0 := by
      rw [Ne, i1.size_eq_zero_iff (by rw [n1, I.hnv]; omega), vr, tdivR_sgb_zero]
    have hN : Numth.removeUp (fuel + 1) a pows p =
        if a % fp ≠ 0 then (a, pows, p) else Numth.removeUp fuel (a / fp) (fp * fp :: pows) (p + 1) := by
      rw [hpows]; rfl
    unfold removeUp
    simp only [bind, Except.bind, pure, Except.pure]
    rw [e1]; simp only []
    by_cases hstop : a % fp ≠ 0
    · rw [if_pos (hrem.mpr hstop), hN, if_pos hstop]
      refine ⟨s1, rfl, ?_⟩
      show RInv s0 dest neg s1 p a pows
      refine ⟨i1, n1.trans I.hnv, ?_, fun j hj => ?_, I.hpos, I.hlen, fun i hi hid => ?_⟩
      · rw [vo dest (by rw [I.hnv]; omega) (by omega) (by omega)]; exact I.hdest
      · rw [vo _ (by rw [I.hnv]; omega) (by omega) (by omega)]; exact I.hpw j hj
      · rw [vo i (by rw [I.hnv]; omega) (by omega) (by omega)]; exact I.hframe i hi hid
    · rw [if_neg (fun hc => hstop (hrem.mp hc)), hN, if_neg hstop]
      have n1' : s1.nv = s0.nv + 2 + p + 1 := n1.trans I.hnv
      obtain ⟨f2, i2, n2, vs2, _, _⟩ := tmpInit_spec i1 1
      set T := (s1.tmpInit 1).2 with hT
      rw [f2, n1']
      rw [n1'] at n2
      have ltT : ∀ i, i < s0.nv + 2 + p + 2 → i < T.nv := fun i hi => by rw [n2]; omega
      obtain ⟨s2, e2, r2, _⟩ := mpz_mul_ok i2 (w := s0.nv + 2 + p + 1) (u := s0.nv + 2 + p) (v := s0.nv + 2 + p)
        (ltT _ (by omega)) (ltT _ (by omega)) (ltT _ (by omega))
      rw [e2]; simp only []
      have n2' : s2.nv = s0.nv + 2 + p + 2 := r2.2.1.trans n2
      obtain ⟨s3, e3, r3⟩ := mpz_set_ok r2.1 (w := dest) (u := s0.nv + 1) (by rw [n2']; omega) (by rw [n2']; omega)
      rw [e3]; simp only []
      have vT : ∀ i, i < s0.nv + 2 + p + 1 → T.value i = s1.value i := fun i hi => (vs2 i (by rw [n1']; exact hi)).1
      have v2 : ∀ i, i < s0.nv + 2 + p + 1 → s2.value i = s1.value i := fun i hi =>
        (r2.2.2.2 i (ltT i (by omega)) (by omega)).trans (vT i hi)
      have hfp1 : s1.value (s0.nv + 2 + p) = (fp : Int) := by
        rw [vo _ (by rw [I.hnv]; omega) (by omega) (by omega)]; exact hfpv
      have I' : RInv s0 dest neg s3 (p + 1) (a / fp) (fp * fp :: pows) := by
        refine ⟨r3.1, by rw [r3.2.1, n2']; omega, ?_, fun j hj => ?_, fun j hj => ?_, by simp [I.hlen], fun i hi hid => ?_⟩
        · rw [r3.2.2.1, v2 _ (by omega), vq]
        · rw [r3.2.2.2 _ (by rw [n2']; omega) (by omega)]
          by_cases hjp : j = p + 1
          · subst hjp
            rw [show s0.nv + 2 + (p + 1) = s0.nv + 2 + p + 1 by omega, r2.2.2.1, vT _ (by omega), hfp1]; simp
          · have : p + 1 - j = (p - j) + 1 := by omega
            rw [this, List.getD_cons_succ, v2 _ (by omega), vo _ (by rw [I.hnv]; omega) (by omega) (by omega)]
            exact I.hpw j (by omega)
        · by_cases hjp : j = p + 1
          · subst hjp; simp; exact hfp0
          · have : p + 1 - j = (p - j) + 1 := by omega
            rw [this, List.getD_cons_succ]; exact I.hpos j (by omega)
        · rw [r3.2.2.2 i (by rw [n2']; omega) hid, v2 i (by omega), vo i (by rw [I.hnv]; omega) (by omega) (by omega)]
          exact I.hframe i hi hid
      exact ih (p + 1) s3 (a / fp) (fp * fp :: pows) I'

/-- the invariant of the second phase: fpow[0 … q-1] are alive and hold `L` (highest first) -/
structure DInv (s0 : St) (dest : Nat) (neg : Bool) (s : St) (q a : Nat) (L : List Nat) : Prop where
  hinv : Inv s
  hnv : s.nv = s0.nv + 2 + q
  hdest : s.value dest = sgb neg a
  hpw : ∀ j, j < q → s.value (s0.nv + 2 + j) = ((L.getD (q - 1 - j) 0 : Nat) : Int)
  hpos : ∀ j, j < q → L.getD (q - 1 - j) 0 ≠ 0
  hlen : L.length = q
  hframe : ∀ i, i < s0.nv → i ≠ dest → s.value i = s0.value i

theorem removeDown_ok (s0 : St) {dest : Nat} (hd : dest < s0.nv) (neg : Bool) :
    ∀ (q : Nat) (s : St) (a : Nat) (L : List Nat) (pwr : Nat), DInv s0 dest neg s q a L →
      ∃ s', removeDown dest (s0.nv + 1) s0.nv (s0.nv + 2) q pwr s = .ok ((Numth.removeDown L q a pwr).2, s') ∧
        DInv s0 dest neg s' 0 (Numth.removeDown L q a pwr).1 [] := by
  intro q
  induction q with
  | zero =>
    intro s a L pwr I
    have : L = [] := List.length_eq_zero_iff.mp I.hlen
    subst this
    exact ⟨s, rfl, I⟩
  | succ q ih =>
    intro s a L pwr I
    obtain ⟨fp, rest, hL⟩ : ∃ fp rest, L = fp :: rest := by
      cases L with
      | nil => have := I.hlen; simp at this
      | cons fp rest => exact ⟨fp, rest, rfl⟩
    have hfpv : s.value (s0.nv + 2 + q) = (fp : Int) := by
      have := I.hpw q (by omega); rw [show q + 1 - 1 - q = 0 by omega, hL] at this; simpa using this
    have hfp0 : fp ≠ 0 := by
      have := I.hpos q (by omega); rw [show q + 1 - 1 - q = 0 by omega, hL] at this; simpa using this
    obtain ⟨s1, e1, i1, n1, vq, vr, vo⟩ := tdiv_qr_ok I.hinv (q := s0.nv + 1) (r := s0.nv) (n := dest) (d := s0.nv + 2 + q)
      (by rw [I.hnv]; omega) (by rw [I.hnv]; omega) (by rw [I.hnv]; omega) (by rw [I.hnv]; omega) (by omega)
      (by rw [hfpv]; exact_mod_cast hfp0)
    rw [I.hdest, hfpv, tdivQ_sgb] at vq
    rw [I.hdest, hfpv] at vr
    have n1' : s1.nv = s0.nv + 2 + q + 1 := n1.trans I.hnv
    have hrem : s1.size s0.nv = 0 ↔ a % fp = 0 := by
      rw [i1.size_eq_zero_iff (by rw [n1']; omega), vr, tdivR_sgb_zero]
    have hN : Numth.removeDown L (q + 1) a pwr =
        if a % fp = 0 then Numth.removeDown rest q (a / fp) (pwr + 2 ^ q) else Numth.removeDown rest q a pwr := by
      rw [hL]; rfl
    have hrl : rest.length = q := by have := I.hlen; rw [hL] at this; simpa using this
    -- the state after the optional `mpz_set (dest, x)` and `mpz_clear (fpow[q])`
    have step : ∀ (s2 : St) (a' : Nat), Inv s2 → s2.nv = s0.nv + 2 + q + 1 → s2.value dest = sgb neg a' →
        (∀ i, i < s0.nv + 2 + q + 1 → i ≠ dest → i ≠ s0.nv → i ≠ s0.nv + 1 → s2.value i = s.value i) →
        DInv s0 dest neg s2.tmpDone q a' rest := by
      intro s2 a' i2 n2 hd2 ho2
      obtain ⟨i3, n3, v3⟩ := tmpDone_spec i2 (s0.nv + 2 + q) n2
      refine ⟨i3, n3, by rw [v3 dest (by omega)]; exact hd2, fun j hj => ?_, fun j hj => ?_, hrl, fun i hi hid => ?_⟩
      · rw [v3 _ (by omega), ho2 _ (by omega) (by omega) (by omega) (by omega)]
        have := I.hpw j (by omega)
        rw [show q + 1 - 1 - j = (q - 1 - j) + 1 by omega, hL, List.getD_cons_succ] at this
        exact this
      · have := I.hpos j (by omega)
        rw [show q + 1 - 1 - j = (q - 1 - j) + 1 by omega, hL, List.getD_cons_succ] at this
        exact this
      · rw [v3 i (by omega), ho2 i (by omega) hid (by omega) (by omega)]; exact I.hframe i hi hid
    unfold removeDown
    simp only [bind, Except.bind, pure, Except.pure]
    rw [e1]; simp only []
    by_cases hz : a % fp = 0
    · rw [if_pos (hrem.mpr hz), hN, if_pos hz]
      obtain ⟨s2, e2, r2⟩ := mpz_set_ok i1 (w := dest) (u := s0.nv + 1) (by rw [n1']; omega) (by rw [n1']; omega)
      rw [e2]; simp only []
      exact ih s2.tmpDone (a / fp) rest (pwr + 2 ^ q) (step s2 (a / fp) r2.1 (r2.2.1.trans n1') (by rw [r2.2.2.1, vq])
        (fun i hi hid h1 h2 => by
          rw [r2.2.2.2 i (by rw [n1']; exact hi) hid, vo i (by rw [I.hnv]; omega) h2 h1]))
    · rw [if_neg (fun hc => hz (hrem.mp hc)), hN, if_neg hz]
      simp only []
      exact ih s1.tmpDone a rest pwr (step s1 a i1 n1' (by rw [vo dest (by rw [I.hnv]; omega) (by omega) (by omega)]; exact I.hdest)
        (fun i hi hid h1 h2 => vo i (by rw [I.hnv]; omega) h2 h1))

theorem value_sgb (z : Int) : z = sgb (decide (z < 0)) z.natAbs := by
  unfold sgb
  by_cases h : z < 0
  · rw [if_pos (by simpa using h)]; omega
  · rw [if_neg (by simpa using h)]; omega

/-- remove.c:55-93, the general case (f ≥ 3): three mpz_init'ed locals, the copy of f BEFORE the copy of src to dest, the two
    division phases, the mpz_clear's.  For EVERY assignment of ids (dest = src, dest = f, src = f, all equal). -/
theorem removeMain_ok {s : St} (h : Inv s) {dest src f : Nat} (hd : dest < s.nv) (hs : src < s.nv) (hf : f < s.nv)
    (hf1 : 1 < s.value f) :
    let a := (s.value src).natAbs
    let up := Numth.removeUp (a.log2 + 2) a [(s.value f).toNat] 0
    let dn := Numth.removeDown (up.2.1.drop 1) up.2.2 up.1 (2 ^ up.2.2 - 1)
    ∃ s', (do
        let t1 := s.tmpInit 1
        let t2 := t1.2.tmpInit 1
        let t3 := t2.2.tmpInit 1
        let s ← (do let s ← mpz_set t3.1 f t3.2; mpz_set dest src s)
        let (p, s) ← removeUp dest t2.1 t1.1 t3.1 (a.log2 + 2) 0 s
        let s := s.tmpDone
        let (pwr, s) ← removeDown dest t2.1 t1.1 t3.1 p (2 ^ p - 1) s
        pure (pwr, s.tmpDone.tmpDone) : R (Nat × St)) = .ok (dn.2, s') ∧
      Res s s' dest (sgb (decide (s.value src < 0)) dn.1) := by
  intro a up dn
  simp only [bind, Except.bind, pure, Except.pure]
  obtain ⟨f1, i1, n1, vs1, _, _⟩ := tmpInit_spec h 1
  set T1 := (s.tmpInit 1).2 with hT1
  obtain ⟨f2, i2, n2, vs2, _, _⟩ := tmpInit_spec i1 1
  set T2 := (T1.tmpInit 1).2 with hT2
  obtain ⟨f3, i3, n3, vs3, _, _⟩ := tmpInit_spec i2 1
  set T3 := (T2.tmpInit 1).2 with hT3
  rw [f3, f2, f1, n2, n1]
  rw [n1] at n2; rw [n2] at n3
  have v3 : ∀ i, i < s.nv → T3.value i = s.value i := fun i hi =>
    (vs3 i (by rw [n2]; omega)).1.trans ((vs2 i (by rw [n1]; omega)).1.trans (vs1 i hi).1)
  obtain ⟨S4, e4, r4⟩ := mpz_set_ok i3 (w := s.nv + 1 + 1) (u := f) (by rw [n3]; omega) (by rw [n3]; omega)
  rw [e4]; simp only []
  have n4 : S4.nv = s.nv + 1 + 1 + 1 := r4.2.1.trans n3
  obtain ⟨S5, e5, r5⟩ := mpz_set_ok r4.1 (w := dest) (u := src) (by rw [n4]; omega) (by rw [n4]; omega)
  rw [e5]; simp only []
  have n5 : S5.nv = s.nv + 1 + 1 + 1 := r5.2.1.trans n4
  have v4 : ∀ i, i < s.nv → S4.value i = s.value i := fun i hi =>
    (r4.2.2.2 i (by rw [n3]; omega) (by omega)).trans (v3 i hi)
  have hfz : ((s.value f).toNat : Int) = s.value f := Int.toNat_of_nonneg (by omega)
  have I0 : RInv s dest (decide (s.value src < 0)) S5 0 a [(s.value f).toNat] := by
    refine ⟨r5.1, by rw [n5], ?_, fun j hj => ?_, fun j hj => ?_, rfl, fun i hi hid => ?_⟩
    · rw [r5.2.2.1, v4 src hs]; exact value_sgb _
    · have : j = 0 := by omega
      subst this
      rw [r5.2.2.2 _ (by rw [n4]; omega) (by omega), show s.nv + 2 + 0 = s.nv + 1 + 1 by omega, r4.2.2.1, v3 f hf]
      simp [hfz]
    · have : j = 0 := by omega
      subst this
      simp only [Nat.sub_self, List.getD_cons_zero]; omega
    · rw [r5.2.2.2 i (by rw [n4]; omega) hid, v4 i hi]
  obtain ⟨S6, e6, I6⟩ := removeUp_ok s hd (decide (s.value src < 0)) (a.log2 + 2) 0 S5 a [(s.value f).toNat] I0
  have e6' : removeUp dest (s.nv + 1) s.nv (s.nv + 1 + 1) (a.log2 + 2) 0 S5 = .ok (up.2.2, S6) := e6
  rw [e6']; simp only []
  have I6' : RInv s dest (decide (s.value src < 0)) S6 up.2.2 up.1 up.2.1 := I6
  obtain ⟨i7, n7, v7⟩ := tmpDone_spec I6'.hinv (s.nv + 2 + up.2.2) I6'.hnv
  have hlen6 := I6'.hlen
  have D7 : DInv s dest (decide (s.value src < 0)) S6.tmpDone up.2.2 up.1 (up.2.1.drop 1) := by
    refine ⟨i7, n7, by rw [v7 dest (by omega)]; exact I6'.hdest, fun j hj => ?_, fun j hj => ?_, by simp [hlen6], fun i hi hid => ?_⟩
    · rw [v7 _ (by omega), I6'.hpw j (by omega), List.getD_eq_getElem?_getD, List.getD_eq_getElem?_getD, List.getElem?_drop,
        show 1 + (up.2.2 - 1 - j) = up.2.2 - j by omega]
    · have := I6'.hpos j (by omega)
      rw [List.getD_eq_getElem?_getD, List.getElem?_drop, show 1 + (up.2.2 - 1 - j) = up.2.2 - j by omega,
        ← List.getD_eq_getElem?_getD]
      exact this
    · rw [v7 i (by omega)]; exact I6'.hframe i hi hid
  obtain ⟨S8, e8, D8⟩ := removeDown_ok s hd (decide (s.value src < 0)) up.2.2 S6.tmpDone up.1 (up.2.1.drop 1) (2 ^ up.2.2 - 1) D7
  have e8' : removeDown dest (s.nv + 1) s.nv (s.nv + 1 + 1) up.2.2 (2 ^ up.2.2 - 1) S6.tmpDone = .ok (dn.2, S8) := e8
  rw [e8']; simp only []
  have D8' : DInv s dest (decide (s.value src < 0)) S8 0 dn.1 [] := D8
  obtain ⟨i9, n9, v9⟩ := tmpDone2_spec D8'.hinv s.nv (by rw [D8'.hnv])
  exact ⟨_, rfl, i9, n9, by rw [v9 dest hd]; exact D8'.hdest, fun i hi hid => by rw [v9 i hi]; exact D8'.hframe i hi hid⟩

/-- remove.c:43-49, f = 2: `mpz_fdiv_q_2exp (dest, src, mpz_scan1 (src, 0))` is an exact division -/
theorem cfq_exact (x : Int) (hx : x ≠ 0) :
    cfq x (Numth.ctzAux (x.natAbs.log2 + 1) x.natAbs) (-1) =
      sgb (decide (x < 0)) (x.natAbs >>> Numth.ctzAux (x.natAbs.log2 + 1) x.natAbs) := by
  have ha : x.natAbs ≠ 0 := Int.natAbs_ne_zero.mpr hx
  obtain ⟨hsp, _⟩ := Numth.ctzAux_spec (x.natAbs.log2 + 1) x.natAbs ha Nat.lt_log2_self
  generalize Numth.ctzAux (x.natAbs.log2 + 1) x.natAbs = c at *
  generalize hq : x.natAbs >>> c = q at *
  have hpos : 0 < 2 ^ c := Nat.pow_pos (by decide)
  have hq0 : q ≠ 0 := fun e => by rw [e] at hsp; omega
  have hmod : x.natAbs % 2 ^ c = 0 := by rw [hsp]; exact Nat.mul_mod_left _ _
  have hdiv : x.natAbs / 2 ^ c = q := by rw [hsp]; exact Nat.mul_div_cancel _ hpos
  have hsz : ¬ sizeNat x.natAbs ≤ c / 64 := by
    rw [DivZ.sizeNat_le_iff]
    have h1 : B ^ (c / 64) ≤ 2 ^ c := by
      rw [show B = 2 ^ 64 from rfl, ← pow_mul]; exact Nat.pow_le_pow_right (by decide) (Nat.mul_div_le c 64)
    have h2 : 2 ^ c ≤ x.natAbs := by
      rw [hsp]; exact Nat.le_mul_of_pos_left _ (Nat.pos_of_ne_zero hq0)
    omega
  unfold cfq sgb
  simp only [hsz, if_false, hmod, ne_eq, not_true_eq_false, and_false, hdiv]
  by_cases hneg : x < 0
  · rw [if_neg (by omega), if_pos (by simpa using hneg)]
  · rw [if_pos (by omega), if_neg (by simpa using hneg)]

/-- **mpz_remove (dest, src, f)** on the pointer model for EVERY assignment of ids: the exception, the multiplicity returned
    and the value left in dest are those of the value-level model `Numth.mpz_remove`; nothing else changes, all locals are
    released.  `ha`: the f = 2 arm calls mpz_fdiv_q_2exp, whose theorem asks for one allocated limb. -/
theorem mpz_remove_ok {s : St} (h : Inv s) {dest src f : Nat} (hd : dest < s.nv) (hs : src < s.nv) (hf : f < s.nv)
    (ha : 1 ≤ s.alloc dest) :
    match Numth.mpz_remove (s.value src) (s.value f) with
    | none => mpz_remove dest src f s = .error "div0"
    | some (z, pwr) => ∃ s', mpz_remove dest src f s = .ok (pwr, s') ∧ Res s s' dest z := by
  unfold Numth.mpz_remove mpz_remove mpz_removeV
  by_cases hf1 : s.value f ≤ 1
  · simp only [hf1, if_true]; rfl
  · simp only [hf1, if_false]
    by_cases hs0 : s.value src = 0
    · simp only [hs0, if_true]
      have hz : s.size src = 0 := (h.size_eq_zero_iff hs).mpr hs0
      simp only [bind, Except.bind, pure, Except.pure, hz, if_true]
      by_cases hsd : src = dest
      · subst hsd
        simp only [ne_eq, not_true_eq_false, if_false]
        exact ⟨s, rfl, h, rfl, hs0, fun _ _ _ => rfl⟩
      · simp only [ne_eq, hsd, not_false_eq_true, if_true]
        obtain ⟨s', e', r'⟩ := mpz_set_ok h hd hs
        rw [e']
        exact ⟨s', rfl, r'.1, r'.2.1, by rw [r'.2.2.1, hs0], r'.2.2.2⟩
    · simp only [hs0, if_false]
      have hz : ¬ s.size src = 0 := fun e => hs0 ((h.size_eq_zero_iff hs).mp e)
      by_cases hf2 : s.value f = 2
      · simp only [hf2, if_true]
        simp only [bind, Except.bind, pure, Except.pure, hz, if_false]
        obtain ⟨s', e', r'⟩ := cfdiv_q_2exp_ok h hd hs (Numth.ctzAux ((s.value src).natAbs.log2 + 1) (s.value src).natAbs) (-1)
          (Or.inr rfl) ha
        have e'' : fdiv_q_2exp dest src (Numth.ctzAux ((s.value src).natAbs.log2 + 1) (s.value src).natAbs) s = .ok s' := e'
        rw [e'']
        refine ⟨s', rfl, r'.1, r'.2.1, ?_, r'.2.2.2⟩
        rw [r'.2.2.1, cfq_exact _ hs0]
        unfold sgb; by_cases hneg : s.value src < 0 <;> simp [hneg]
      · simp only [hf2, if_false]
        simp only [bind, Except.bind, pure, Except.pure, hz, if_false, RemoveVariant.c, if_true]
        have := removeMain_ok h hd hs hf (by omega)
        simp only [bind, Except.bind, pure, Except.pure] at this
        obtain ⟨s', e', r'⟩ := this
        refine ⟨s', e', r'.1, r'.2.1, ?_, r'.2.2.2⟩
        rw [r'.2.2.1]
        unfold sgb; by_cases hneg : s.value src < 0 <;> simp [hneg]

/-! ### mpz_bin_ui -/

theorem binDivide_ok {s : St} (h : Inv s) {r : Nat} (hr : r < s.nv) (V : Nat) (hV : s.value r = (V : Int)) (hV1 : 1 ≤ V)
    (kacc : Nat) (hk1 : 1 ≤ kacc) (hkB : kacc < B) :
    ∃ s', binDivide r kacc s = .ok s' ∧ Res s s' r ((V / kacc : Nat) : Int) := by
  have hpos : 0 < s.size r := by
    have h1 := h.size_neg_iff hr
    have h2 := h.size_eq_zero_iff hr
    rw [hV] at h1 h2
    omega
  obtain ⟨s', e', r'⟩ := div_q_ui_ok 0 (Or.inl rfl) h hr hr kacc (by omega) hkB
  unfold binDivide
  simp only [bind, Except.bind, pure, Except.pure, hpos, not_true_eq_false, if_false, e']
  refine ⟨s', rfl, r'.1, r'.2.1, ?_, r'.2.2.2⟩
  rw [r'.2.2.1, hV]
  unfold DivZ.specQ
  simp only [if_true]
  exact (Int.ofNat_tdiv V kacc).symm

/-- the ASSERT of DIVIDE () (bin_ui.c:35, `SIZ (r) > 0`) along the value-level run: every quotient that is divided again is
    non-zero.  (True — the divisions are exact divisions of positive numbers — but that is number theory about binomials,
    proved at the value level in C09; here it is the hypothesis under which the pointer model does not report `ub:DIVIDE`.) -/
def binPos (k : Nat) : Nat → Nat → Nat → Nat → Nat → Nat → Prop
  | 0, _, _, _, _, _ => True
  | fuel + 1, i, ni, nacc, kacc, r =>
    if i > k then True
    else if kacc * i / B ≠ 0 then
      r * (nacc * (ni + 1)) / kacc ≠ 0 ∧ binPos k fuel (i + 1) (ni + 1) 1 i (r * (nacc * (ni + 1)) / kacc)
    else binPos k fuel (i + 1) (ni + 1) (nacc * (ni + 1)) (kacc * i % B) r

/-- loop invariant: ni = `s0.nv`, nacc = `s0.nv + 1` are the two locals -/
structure BInv (s0 : St) (r : Nat) (s : St) (NI NACC R : Nat) : Prop where
  hinv : Inv s
  hnv : s.nv = s0.nv + 2
  hni : s.value s0.nv = (NI : Int)
  hnacc : s.value (s0.nv + 1) = (NACC : Int)
  hr : s.value r = (R : Int)
  hframe : ∀ i, i < s0.nv → i ≠ r → s.value i = s0.value i

theorem binLoop_ok (s0 : St) {r : Nat} (hr : r < s0.nv) (k : Nat) (hkB : k < B) :
    ∀ (fuel i : Nat) (s : St) (ni nacc kacc R : Nat), BInv s0 r s ni nacc R → 1 ≤ nacc → 1 ≤ R → 1 ≤ kacc → kacc < B →
      1 ≤ i → binPos k fuel i ni nacc kacc R →
      ∃ s' NI', binLoop r s0.nv (s0.nv + 1) k fuel i kacc s = .ok ((Numth.binUiLoop k fuel i ni nacc kacc R).2.1, s') ∧
        BInv s0 r s' NI' (Numth.binUiLoop k fuel i ni nacc kacc R).1 (Numth.binUiLoop k fuel i ni nacc kacc R).2.2 ∧
        1 ≤ (Numth.binUiLoop k fuel i ni nacc kacc R).1 ∧ 1 ≤ (Numth.binUiLoop k fuel i ni nacc kacc R).2.2 ∧
        1 ≤ (Numth.binUiLoop k fuel i ni nacc kacc R).2.1 ∧ (Numth.binUiLoop k fuel i ni nacc kacc R).2.1 < B := by
  intro fuel
  induction fuel with
  | zero => intro i s ni nacc kacc R I h1 h2 h3 h4 _ _; exact ⟨s, ni, rfl, I, h1, h2, h3, h4⟩
  | succ fuel ih =>
    intro i s ni nacc kacc R I h1 h2 h3 h4 hi1 hP
    unfold binLoop
    by_cases hik : i > k
    · have hN : Numth.binUiLoop k (fuel + 1) i ni nacc kacc R = (nacc, kacc, R) := by
        unfold Numth.binUiLoop; rw [if_pos hik]
      rw [if_pos hik, hN]
      exact ⟨s, ni, rfl, I, h1, h2, h3, h4⟩
    · rw [if_neg hik]
      simp only [bind, Except.bind]
      have lt : ∀ j, j < s0.nv + 2 → j < s.nv := fun j hj => by rw [I.hnv]; exact hj
      obtain ⟨s1, e1, r1⟩ := mpz_aors_ui_ok I.hinv (w := s0.nv) (u := s0.nv) (lt _ (by omega)) (lt _ (by omega)) false 1
        (by rw [B_eq]; decide)
      have e1' : mpz_add_ui s0.nv s0.nv 1 s = .ok s1 := e1
      rw [e1']; simp only []
      have n1 : s1.nv = s0.nv + 2 := r1.2.1.trans I.hnv
      have vni1 : s1.value s0.nv = ((ni + 1 : Nat) : Int) := by
        rw [r1.2.2.1, I.hni]; simp
      have lt1 : ∀ j, j < s0.nv + 2 → j < s1.nv := fun j hj => by rw [n1]; exact hj
      obtain ⟨s2, e2, r2, _⟩ := mpz_mul_ok r1.1 (w := s0.nv + 1) (u := s0.nv + 1) (v := s0.nv) (lt1 _ (by omega))
        (lt1 _ (by omega)) (lt1 _ (by omega))
      rw [e2]; simp only []
      have n2 : s2.nv = s0.nv + 2 := r2.2.1.trans n1
      have vnacc2 : s2.value (s0.nv + 1) = ((nacc * (ni + 1) : Nat) : Int) := by
        rw [r2.2.2.1, r1.2.2.2 _ (lt _ (by omega)) (by omega), I.hnacc, vni1]; push_cast; ring
      have vni2 : s2.value s0.nv = ((ni + 1 : Nat) : Int) := by
        rw [r2.2.2.2 _ (lt1 _ (by omega)) (by omega)]; exact vni1
      have vo2 : ∀ j, j < s0.nv → s2.value j = s.value j := fun j hj => by
        rw [r2.2.2.2 j (lt1 j (by omega)) (by omega), r1.2.2.2 j (lt j (by omega)) (by omega)]
      have lt2 : ∀ j, j < s0.nv + 2 → j < s2.nv := fun j hj => by rw [n2]; exact hj
      have hnacc1 : 1 ≤ nacc * (ni + 1) := Nat.mul_pos h1 (by omega)
      by_cases hov : kacc * i / B ≠ 0
      · have hN : Numth.binUiLoop k (fuel + 1) i ni nacc kacc R =
            Numth.binUiLoop k fuel (i + 1) (ni + 1) 1 i (R * (nacc * (ni + 1)) / kacc) := by
          conv_lhs => unfold Numth.binUiLoop
          simp only [if_neg hik, hov, ne_eq, not_false_eq_true, if_true]
        have hP' : R * (nacc * (ni + 1)) / kacc ≠ 0 ∧ binPos k fuel (i + 1) (ni + 1) 1 i (R * (nacc * (ni + 1)) / kacc) := by
          unfold binPos at hP; rw [if_neg hik, if_pos hov] at hP; exact hP
        rw [if_pos hov, hN]
        obtain ⟨s3, e3, r3, _⟩ := mpz_mul_ok r2.1 (w := r) (u := r) (v := s0.nv + 1) (lt2 r (by omega)) (lt2 r (by omega))
          (lt2 _ (by omega))
        rw [e3]; simp only []
        have n3 : s3.nv = s0.nv + 2 := r3.2.1.trans n2
        have vr3 : s3.value r = ((R * (nacc * (ni + 1)) : Nat) : Int) := by
          rw [r3.2.2.1, vo2 r hr, I.hr, vnacc2]; push_cast; ring
        have lt3 : ∀ j, j < s0.nv + 2 → j < s3.nv := fun j hj => by rw [n3]; exact hj
        have ha3 : sizeNat ((1 : Int)).natAbs ≤ s3.alloc (s0.nv + 1) := by
          have hf := r3.1.fits (s0.nv + 1) (lt3 _ (by omega))
          have hsz := r3.1.size_natAbs (lt3 (s0.nv + 1) (by omega))
          have hm : s3.mag (s0.nv + 1) = nacc * (ni + 1) := by
            rw [← value_natAbs, r3.2.2.2 _ (lt2 _ (by omega)) (by omega), vnacc2]; exact Int.natAbs_natCast _
          rw [hm] at hsz
          have : sizeNat (nacc * (ni + 1)) ≠ 0 := fun e => by have := DivZ.sizeNat_eq_zero.mp e; omega
          have h11 : sizeNat ((1 : Int)).natAbs = 1 := by decide
          omega
        obtain ⟨s4, e4, r4, _⟩ := setInt_spec r3.1 (lt3 (s0.nv + 1) (by omega)) 1 ha3
        rw [e4]; simp only []
        have n4 : s4.nv = s0.nv + 2 := r4.2.1.trans n3
        have vr4 : s4.value r = ((R * (nacc * (ni + 1)) : Nat) : Int) := by
          rw [r4.2.2.2 r (lt3 r (by omega)) (by omega)]; exact vr3
        obtain ⟨s5, e5, r5⟩ := binDivide_ok r4.1 (r := r) (by rw [n4]; omega) _ vr4 (Nat.mul_pos h2 hnacc1) kacc h3 h4
        rw [e5]; simp only []
        have I5 : BInv s0 r s5 (ni + 1) 1 (R * (nacc * (ni + 1)) / kacc) := by
          refine ⟨r5.1, r5.2.1.trans n4, ?_, ?_, r5.2.2.1, fun j hj hjr => ?_⟩
          · rw [r5.2.2.2 _ (by rw [n4]; omega) (by omega), r4.2.2.2 _ (lt3 _ (by omega)) (by omega),
              r3.2.2.2 _ (lt2 _ (by omega)) (by omega)]; exact vni2
          · rw [r5.2.2.2 _ (by rw [n4]; omega) (by omega), r4.2.2.1]; rfl
          · rw [r5.2.2.2 j (by rw [n4]; omega) hjr, r4.2.2.2 j (lt3 j (by omega)) (by omega),
              r3.2.2.2 j (lt2 j (by omega)) hjr, vo2 j hj]; exact I.hframe j hj hjr
        exact ih (i + 1) s5 (ni + 1) 1 i (R * (nacc * (ni + 1)) / kacc) I5 (Nat.le_refl 1) (Nat.pos_of_ne_zero hP'.1) hi1 (by omega) (by omega) hP'.2
      · have hN : Numth.binUiLoop k (fuel + 1) i ni nacc kacc R =
            Numth.binUiLoop k fuel (i + 1) (ni + 1) (nacc * (ni + 1)) (kacc * i % B) R := by
          conv_lhs => unfold Numth.binUiLoop
          simp only [if_neg hik, hov, if_false]
        have hP' : binPos k fuel (i + 1) (ni + 1) (nacc * (ni + 1)) (kacc * i % B) R := by
          unfold binPos at hP; rw [if_neg hik, if_neg hov] at hP; exact hP
        rw [if_neg hov, hN]
        have hkk : kacc * i < B := by
          have : kacc * i / B = 0 := Decidable.not_not.mp hov
          rcases Nat.div_eq_zero_iff.mp this with hB | hB
          · have := B_pos; omega
          · exact hB
        have I2 : BInv s0 r s2 (ni + 1) (nacc * (ni + 1)) R :=
          ⟨r2.1, n2, vni2, vnacc2, by rw [vo2 r hr]; exact I.hr, fun j hj hjr => by rw [vo2 j hj]; exact I.hframe j hj hjr⟩
        exact ih (i + 1) s2 (ni + 1) (nacc * (ni + 1)) (kacc * i % B) R I2 hnacc1 h2
          (by rw [Nat.mod_eq_of_lt hkk]; exact Nat.mul_pos h3 hi1) (Nat.mod_lt _ B_pos) (by omega) hP'

/-- `SIZ (r) = 1; PTR (r)[0] = 1` (bin_ui.c:75), no realloc -/
theorem setOneBin_ok {s : St} (h : Inv s) {r : Nat} (hr : r < s.nv) (ha : 1 ≤ s.alloc r) :
    ∃ s', (s.setSize r 1).storeAt ((s.setSize r 1).ptr r) 0 [1] = .ok s' ∧ Res s s' r 1 ∧ ∀ i, s'.alloc i = s.alloc i := by
  obtain ⟨br, hbr, hbrl, hbrL⟩ := h.live r hr
  have hpg : (s.setSize r 1).ptr r = s.ptr r := by simp [St.setSize, St.setVar, St.ptr]
  rw [hpg, storeAt_ok (show (s.setSize r 1).blk (s.ptr r) = some br from hbr) (by simp; omega)]
  have hput : (s.setSize r 1).setBlk (s.ptr r) (some (wrAt br 0 [1])) = s.put r (wrAt br 0 [1]) 1 := rfl
  rw [hput]
  have hlen : (wrAt br 0 [1]).length = s.alloc r := by rw [wrAt_length (by simp; omega)]; exact hbrl
  have hLw : Limbs (wrAt br 0 [1]) := Limbs_wrAt hbrL (by intro x hx; simp at hx; rw [hx, B_eq]; decide)
  have hs1 : sizeNat 1 = 1 := by decide
  have p := put_upd h hr (wrAt br 0 [1]) 1 false hlen hLw (by rw [hs1]; exact ha)
    (by rw [hs1]; cases br with
        | nil => simp at hbrl; omega
        | cons a as => simp [wrAt])
  simp only [Bool.false_eq_true, if_false, hs1] at p
  exact ⟨_, rfl, ⟨p.1, p.2.1.nv, by simpa using p.2.2, fun i hi hir => p.2.1.value_o h hr hi hir⟩, p.2.1.alloc⟩

/-- after mpz_add_ui / mpz_sub_ui the destination has at least one limb allocated (`MPZ_REALLOC (w, |usize| + 1)`) -/
theorem aors_ui_alloc {s s' : St} (h : Inv s) {w u : Nat} (hw : w < s.nv) (hu : u < s.nv) (sub : Bool) (c : Nat)
    (e : mpz_aors_ui sub w u c s = .ok s') : 1 ≤ s'.alloc w := by
  obtain ⟨i1, n1, sz1, v1, a1, _⟩ := realloc_spec h hw ((s.size u).natAbs + 1)
  have hlu := i1.load_var (i := u) (by rw [n1]; exact hu)
  rw [sz1] at hlu
  unfold mpz_aors_ui at e
  simp only [bind, Except.bind, hlu] at e
  unfold St.setInt at e
  simp only [bind, Except.bind, pure, Except.pure] at e
  split at e
  · cases e
  · next X hX =>
    injection e with e
    rw [← e]
    have hv := store_vars hX
    show ((X.setSize w _).vars w).alloc ≥ 1
    simp only [St.setSize, St.setVar, if_true, hv]
    have : (s.mpzRealloc w ((s.size u).natAbs + 1)).alloc w = ((s.mpzRealloc w ((s.size u).natAbs + 1)).vars w).alloc := rfl
    omega

theorem setSize_alloc (X : St) (w : Nat) (z : Int) (i : Nat) : (X.setSize w z).alloc i = X.alloc i := by
  simp only [St.alloc, St.setSize, St.setVar]
  split
  · next e => subst e; rfl
  · rfl

/-- mpz_add_ui / mpz_sub_ui never shrink an allocation -/
theorem aors_ui_alloc_mono {s s' : St} (h : Inv s) {w u : Nat} (hw : w < s.nv) (hu : u < s.nv) (sub : Bool) (c : Nat)
    (e : mpz_aors_ui sub w u c s = .ok s') (i : Nat) : s.alloc i ≤ s'.alloc i := by
  obtain ⟨i1, n1, sz1, v1, a1, mono⟩ := realloc_spec h hw ((s.size u).natAbs + 1)
  have hlu := i1.load_var (i := u) (by rw [n1]; exact hu)
  rw [sz1] at hlu
  unfold mpz_aors_ui at e
  simp only [bind, Except.bind, hlu] at e
  unfold St.setInt at e
  simp only [bind, Except.bind, pure, Except.pure] at e
  split at e
  · cases e
  · next X hX =>
    injection e with e
    rw [← e, setSize_alloc]
    have hv := store_vars hX
    have : X.alloc i = (s.mpzRealloc w ((s.size u).natAbs + 1)).alloc i := by unfold St.alloc; rw [hv]
    rw [this]; exact mono i

/-- mpz_neg into another variable never shrinks an allocation -/
theorem neg_alloc_mono {s s' : St} (h : Inv s) {w u : Nat} (hw : w < s.nv) (hu : u < s.nv) (hne : u ≠ w)
    (e : mpz_neg w u s = .ok s') (i : Nat) : s.alloc i ≤ s'.alloc i := by
  obtain ⟨i1, n1, sz1, v1, a1, mono⟩ := realloc_spec h hw (s.size u).natAbs
  have hlu := i1.load_var (i := u) (by rw [n1]; exact hu)
  rw [sz1] at hlu
  unfold mpz_neg mpz_negabs at e
  simp only [bind, Except.bind, pure, Except.pure, hne, ne_eq, not_false_eq_true, if_true, hlu] at e
  split at e
  · cases e
  · next X hX =>
    injection e with e
    rw [← e, setSize_alloc]
    have hv := store_vars hX
    have : X.alloc i = (s.mpzRealloc w (s.size u).natAbs).alloc i := by unfold St.alloc; rw [hv]
    rw [this]; exact mono i

/-- the value mpz_bin_ui computes from ni (= n - k resp. -n - 1) and k: bin_ui.c:80-127 -/
def binVal (NI k : Nat) : Nat :=
  let k' := if NI < k then NI else k
  let ni' := if NI < k then k else NI
  let t := Numth.binUiLoop k' k' 1 ni' 1 1 1
  t.2.2 * t.1 / t.2.1

/-- bin_ui.c:75-131 on the pointer model; `s0` is the state at the call of mpz_bin_ui, `ni` its first new variable -/
theorem binMain_ok (s0 : St) {s : St} (h : Inv s) (hnv : s.nv = s0.nv + 1) {r : Nat} (hr : r < s0.nv) (ha : 1 ≤ s.alloc r)
    (NI : Nat) (hni : s.value s0.nv = (NI : Int)) (hani : 1 ≤ s.alloc s0.nv) (k : Nat) (hkB : k < B)
    (hframe : ∀ i, i < s0.nv → i ≠ r → s.value i = s0.value i) (negate : Bool)
    (hP : binPos (if NI < k then NI else k) (if NI < k then NI else k) 1 (if NI < k then k else NI) 1 1 1) :
    ∃ s', binMain r s0.nv k negate s = .ok s' ∧ Inv s' ∧ s'.nv = s0.nv ∧
      s'.value r = (if negate then -((binVal NI k : Nat) : Int) else ((binVal NI k : Nat) : Int)) ∧
      ∀ i, i < s0.nv → i ≠ r → s'.value i = s0.value i := by
  unfold binMain
  simp only [bind, Except.bind, pure, Except.pure]
  obtain ⟨s1, e1, r1, al1⟩ := setOneBin_ok h (r := r) (by rw [hnv]; omega) ha
  rw [e1]; simp only []
  have n1 : s1.nv = s0.nv + 1 := r1.2.1.trans hnv
  have vni1 : s1.value s0.nv = (NI : Int) := by rw [r1.2.2.2 _ (by rw [hnv]; omega) (by omega)]; exact hni
  rw [vni1]
  set k' := (if NI < k then NI else k) with hk'
  set ni' := (if NI < k then k else NI) with hni'
  have hk'B : k' < B := by rw [hk']; split <;> omega
  -- after the optional swap
  generalize hX : (if (NI : Int) < (k : Int) then _ else _ : R (Nat × St)) = X
  have hswap : ∃ S2, X = .ok (k', S2) ∧ Inv S2 ∧ S2.nv = s0.nv + 1 ∧ S2.value r = 1 ∧ S2.value s0.nv = (ni' : Int) ∧
        ∀ i, i < s0.nv → i ≠ r → S2.value i = s0.value i := by
    rw [← hX]
    by_cases hlt : NI < k
    · have hfit : sizeNat ((k : Int)).natAbs ≤ s1.alloc s0.nv := by
        rw [al1, Int.natAbs_natCast]
        have : sizeNat k ≤ 1 := (DivZ.sizeNat_le_iff _ _).mpr (by rw [pow_one]; exact hkB)
        omega
      obtain ⟨S2, e2, r2, _⟩ := setInt_spec r1.1 (v := s0.nv) (by rw [n1]; omega) (k : Int) hfit
      refine ⟨S2, ?_, r2.1, r2.2.1.trans n1, ?_, ?_, fun i hi hir => ?_⟩
      · rw [if_pos (by exact_mod_cast hlt), e2, hk', if_pos hlt]; simp
      · rw [r2.2.2.2 r (by rw [n1]; omega) (by omega)]; exact r1.2.2.1
      · rw [r2.2.2.1, hni', if_pos hlt]
      · rw [r2.2.2.2 i (by rw [n1]; omega) (by omega), r1.2.2.2 i (by rw [hnv]; omega) hir]; exact hframe i hi hir
    · refine ⟨s1, ?_, r1.1, n1, r1.2.2.1, ?_, fun i hi hir => ?_⟩
      · rw [if_neg (by exact_mod_cast hlt), hk', if_neg hlt]
      · rw [vni1, hni', if_neg hlt]
      · rw [r1.2.2.2 i (by rw [hnv]; omega) hir]; exact hframe i hi hir
  obtain ⟨S2, e2, i2, n2, vr2, vni2, fr2⟩ := hswap
  rw [e2]; simp only []
  obtain ⟨f3, i3, n3, vs3, a3, _⟩ := tmpInit_spec i2 1
  set T := (S2.tmpInit 1).2 with hT
  rw [f3, n2]
  rw [n2] at n3 a3
  obtain ⟨S3, e3, r3, _⟩ := setInt_spec i3 (v := s0.nv + 1) (by rw [n3]; omega) 1 (by rw [a3]; decide)
  rw [e3]; simp only []
  have n3' : S3.nv = s0.nv + 2 := r3.2.1.trans n3
  have vT : ∀ i, i < s0.nv + 1 → S3.value i = S2.value i := fun i hi =>
    (r3.2.2.2 i (by rw [n3]; omega) (by omega)).trans (vs3 i (by rw [n2]; exact hi)).1
  have I3 : BInv s0 r S3 ni' 1 1 :=
    ⟨r3.1, n3', by rw [vT _ (by omega)]; exact vni2, by rw [r3.2.2.1]; rfl, by rw [vT r (by omega), vr2]; rfl,
      fun i hi hir => by rw [vT i (by omega)]; exact fr2 i hi hir⟩
  obtain ⟨S4, NI4, e4, I4, p1, p2, p3, p4⟩ := binLoop_ok s0 hr k' hk'B k' 1 S3 ni' 1 1 1 I3 (Nat.le_refl 1) (Nat.le_refl 1)
    (Nat.le_refl 1) (by rw [B_eq]; decide) (Nat.le_refl 1) hP
  rw [e4]; simp only []
  set t := Numth.binUiLoop k' k' 1 ni' 1 1 1 with ht
  have lt4 : ∀ j, j < s0.nv + 2 → j < S4.nv := fun j hj => by rw [I4.hnv]; exact hj
  obtain ⟨S5, e5, r5, _⟩ := mpz_mul_ok I4.hinv (w := r) (u := r) (v := s0.nv + 1) (lt4 r (by omega)) (lt4 r (by omega))
    (lt4 _ (by omega))
  rw [e5]; simp only []
  have n5 : S5.nv = s0.nv + 2 := r5.2.1.trans I4.hnv
  have vr5 : S5.value r = ((t.2.2 * t.1 : Nat) : Int) := by rw [r5.2.2.1, I4.hr, I4.hnacc]; push_cast; ring
  obtain ⟨S6, e6, r6⟩ := binDivide_ok r5.1 (r := r) (by rw [n5]; omega) _ vr5 (Nat.mul_pos p2 p1) t.2.1 p3 p4
  rw [e6]; simp only []
  have n6 : S6.nv = s0.nv + 2 := r6.2.1.trans n5
  have hr6 : r < S6.nv := by rw [n6]; omega
  have hV : S6.value r = ((binVal NI k : Nat) : Int) := r6.2.2.1
  obtain ⟨i7, u7, v7⟩ := flip_spec r6.1 hr6 (if negate then -(S6.size r) else S6.size r) (by split <;> simp)
  set S7 := S6.setSize r (if negate then -(S6.size r) else S6.size r) with hS7
  have n7 : S7.nv = s0.nv + 2 := u7.nv.trans n6
  obtain ⟨i8, n8, v8⟩ := tmpDone2_spec i7 s0.nv n7
  refine ⟨_, rfl, i8, n8, ?_, fun i hi hir => ?_⟩
  · rw [v8 r hr, v7]
    have hm : (S6.mag r : Int) = ((binVal NI k : Nat) : Int) := by rw [← value_natAbs, hV]; simp
    have hsz : 0 ≤ S6.size r := by
      have := r6.1.size_neg_iff hr6; rw [hV] at this; omega
    have hsz0 : S6.size r = 0 → binVal NI k = 0 := fun e0 => by
      have := (r6.1.size_eq_zero_iff hr6).mp e0; rw [hV] at this; exact_mod_cast this
    unfold sgnv
    cases negate
    · simp only [Bool.false_eq_true, if_false]; rw [if_neg (by omega), hm]
    · simp only [if_true]
      by_cases e0 : S6.size r = 0
      · rw [if_neg (by omega), hm, hsz0 e0]; simp
      · rw [if_pos (by omega), hm]
  · rw [v8 i hi, u7.value_o r6.1 hr6 (by rw [n6]; omega) hir, r6.2.2.2 i (by rw [n5]; omega) hir,
      r5.2.2.2 i (lt4 i (by omega)) hir]
    exact I4.hframe i hi hir

/-- ni of bin_ui.c:51-54 / :69 as a natural number -/
def binNi (vn : Int) (k : Nat) : Nat := if vn < 0 then (-vn - 1).toNat else vn.toNat - k

theorem mpz_bin_ui_val (vn : Int) (k : Nat) :
    Numth.mpz_bin_ui vn k =
      if vn < 0 then (if k % 2 = 1 then -((binVal (binNi vn k) k : Nat) : Int) else ((binVal (binNi vn k) k : Nat) : Int))
      else if vn.toNat < k then 0 else ((binVal (binNi vn k) k : Nat) : Int) := by
  unfold Numth.mpz_bin_ui binVal binNi
  by_cases hneg : vn < 0
  · simp only [hneg, if_true]
    by_cases hlt : (-vn - 1).toNat < k <;> simp only [hlt, if_true, if_false] <;> rfl
  · simp only [hneg, if_false]
    by_cases hk : vn.toNat < k
    · simp only [hk, if_true]
    · simp only [hk, if_false]
      by_cases hlt : vn.toNat - k < k <;> simp only [hlt, if_true, if_false] <;> rfl

/-- **mpz_bin_ui (r, n, k)** on the pointer model, r = n included.  `hP`: the ASSERT of DIVIDE () (`binPos`). -/
theorem mpz_bin_ui_ok {s : St} (h : Inv s) {r n : Nat} (hr : r < s.nv) (hn : n < s.nv) (ha : 1 ≤ s.alloc r) (k : Nat)
    (hkB : k < B)
    (hP : binPos (if binNi (s.value n) k < k then binNi (s.value n) k else k) (if binNi (s.value n) k < k then binNi (s.value n) k else k)
      1 (if binNi (s.value n) k < k then k else binNi (s.value n) k) 1 1 1) :
    ∃ s', mpz_bin_ui r n k s = .ok s' ∧ Res s s' r (Numth.mpz_bin_ui (s.value n) k) := by
  rw [mpz_bin_ui_val]
  unfold mpz_bin_ui mpz_bin_uiV
  simp only [BinVariant.c, bind, Except.bind, pure, Except.pure, if_true]
  have hsn : (s.size n < 0) ↔ s.value n < 0 := h.size_neg_iff hn
  by_cases hneg : s.value n < 0
  · have hd : decide (s.size n < 0) = true := by simpa using hsn.mpr hneg
    simp only [hd, not_true_eq_false, false_and, if_false, if_true, hneg, true_and]
    obtain ⟨f1, i1, n1, vs1, a1, _⟩ := tmpInit_spec h 1
    set T := (s.tmpInit 1).2 with hT
    rw [f1]
    have ltT : ∀ i, i < s.nv + 1 → i < T.nv := fun i hi => by rw [n1]; exact hi
    obtain ⟨S1, e1, r1⟩ := mpz_negabs_ok false i1 (w := s.nv) (u := n) (ltT _ (by omega)) (ltT n (by omega))
    have e1' : mpz_neg s.nv n T = .ok S1 := e1
    rw [e1']; simp only []
    have nS1 : S1.nv = s.nv + 1 := r1.2.1.trans n1
    obtain ⟨S2, e2, r2⟩ := mpz_aors_ui_ok r1.1 (w := s.nv) (u := s.nv) (by rw [nS1]; omega) (by rw [nS1]; omega) true 1
      (by rw [B_eq]; decide)
    have e2' : mpz_sub_ui s.nv s.nv 1 S1 = .ok S2 := e2
    rw [e2']; simp only []
    have nS2 : S2.nv = s.nv + 1 := r2.2.1.trans nS1
    have vo : ∀ i, i < s.nv → S2.value i = s.value i := fun i hi =>
      (r2.2.2.2 i (by rw [nS1]; omega) (by omega)).trans ((r1.2.2.2 i (ltT i (by omega)) (by omega)).trans (vs1 i hi).1)
    have hni : S2.value s.nv = ((binNi (s.value n) k : Nat) : Int) := by
      rw [r2.2.2.1, r1.2.2.1, (vs1 n hn).1]
      unfold binNi; rw [if_pos hneg]
      simp only [Bool.false_eq_true, if_false, if_true]
      rw [Int.toNat_of_nonneg (by omega)]; push_cast; ring
    have hal : 1 ≤ S2.alloc r := by
      have m1 := neg_alloc_mono i1 (w := s.nv) (u := n) (ltT _ (by omega)) (ltT n (by omega)) (by omega) e1' r
      have m2 := aors_ui_alloc_mono r1.1 (w := s.nv) (u := s.nv) (by rw [nS1]; omega) (by rw [nS1]; omega) true 1 e2 r
      have : T.alloc r = s.alloc r := tmpInit_alloc s 1 hr
      omega
    have hani := aors_ui_alloc r1.1 (w := s.nv) (u := s.nv) (by rw [nS1]; omega) (by rw [nS1]; omega) true 1 e2
    obtain ⟨s', e', i', n', v', f'⟩ := binMain_ok s r2.1 nS2 hr hal _ hni hani k hkB (fun i hi _ => vo i hi)
      (decide (k % 2 = 1)) hP
    refine ⟨s', e', i', n', ?_, f'⟩
    rw [v']; by_cases hk2 : k % 2 = 1 <;> simp [hk2]
  · have hd : decide (s.size n < 0) = false := by simpa using (fun hc => hneg (hsn.mp hc))
    simp only [hd, Bool.false_eq_true, not_false_eq_true, true_and, if_false, hneg, false_and, decide_false]
    by_cases hlt : s.value n < (k : Int)
    · rw [if_pos hlt, if_pos (by omega)]
      obtain ⟨i1, u1, v1⟩ := setSize_zero_spec h hr
      exact ⟨_, rfl, i1, u1.nv, v1, fun i hi hir => u1.value_o h hr hi hir⟩
    · rw [if_neg hlt, if_neg (by omega)]
      obtain ⟨f1, i1, n1, vs1, a1, _⟩ := tmpInit_spec h 1
      set T := (s.tmpInit 1).2 with hT
      rw [f1]
      have ltT : ∀ i, i < s.nv + 1 → i < T.nv := fun i hi => by rw [n1]; exact hi
      obtain ⟨S2, e2, r2⟩ := mpz_aors_ui_ok i1 (w := s.nv) (u := n) (ltT _ (by omega)) (ltT n (by omega)) true k hkB
      have e2' : mpz_sub_ui s.nv n k T = .ok S2 := e2
      rw [e2']; simp only []
      have nS2 : S2.nv = s.nv + 1 := r2.2.1.trans n1
      have vo : ∀ i, i < s.nv → S2.value i = s.value i := fun i hi =>
        (r2.2.2.2 i (ltT i (by omega)) (by omega)).trans (vs1 i hi).1
      have hni : S2.value s.nv = ((binNi (s.value n) k : Nat) : Int) := by
        rw [r2.2.2.1, (vs1 n hn).1]
        unfold binNi; rw [if_neg hneg]
        simp only [if_true]
        omega
      have hal : 1 ≤ S2.alloc r := by
        have m2 := aors_ui_alloc_mono i1 (w := s.nv) (u := n) (ltT _ (by omega)) (ltT n (by omega)) true k e2 r
        have : T.alloc r = s.alloc r := tmpInit_alloc s 1 hr
        omega
      have hani := aors_ui_alloc i1 (w := s.nv) (u := n) (ltT _ (by omega)) (ltT n (by omega)) true k e2
      obtain ⟨s', e', i', n', v', f'⟩ := binMain_ok s r2.1 nS2 hr hal _ hni hani k hkB (fun i hi _ => vo i hi) false hP
      exact ⟨s', e', i', n', by rw [v']; simp, f'⟩

instance binPosDec (k : Nat) : ∀ fuel i ni nacc kacc r, Decidable (binPos k fuel i ni nacc kacc r)
  | 0, _, _, _, _, _ => isTrue trivial
  | fuel + 1, i, ni, nacc, kacc, r => by
    unfold binPos
    have := binPosDec k fuel
    infer_instance

-- the hypothesis `hP` of `mpz_bin_ui_ok` is decidable: n = 2^70, k = 5 (no overflow step) and n = 2^70 + 3, k = 30 (overflow steps)
example : binPos 5 5 1 (2^70 - 5) 1 1 1 := by decide +kernel
example : binPos 30 30 1 (2^70 + 3 - 30) 1 1 1 := by decide +kernel

/- STATUS: `mpz_root_ok`, `mpz_remove_ok`, `mpz_bin_ui_ok` are full theorems for every assignment of ids.  Hypotheses beyond
   `Inv` and the ids being variables: mpz_root — `1 ≤ nth`, `0 ≤ u ∨ nth odd` (otherwise the model raises the exception);
   mpz_remove — `1 ≤ ALLOC (dest)` (only for the f = 2 arm: `cfdiv_q_2exp_ok` asks for it); mpz_bin_ui — `1 ≤ ALLOC (r)`
   (bin_ui.c:75 stores PTR (r)[0] without a realloc), `k < 2^64`, and `binPos` = the ASSERT `SIZ (r) > 0` of DIVIDE () along the
   value-level run (decidable; true mathematically, not proved here).  The loops of mpz_remove / mpz_bin_ui carry fuel exactly
   as `Numth.removeUp` / `Numth.binUiLoop`, so the results are literally `Numth.mpz_remove` / `Numth.mpz_bin_ui`. -/

/-! ### examples -/

/-- (return value, view of the first k variables, number of variables afterwards) -/
def lookN {α : Type} (r : R (α × St)) (k : Nat) : R (α × List (Int × Nat × Nat) × Nat) := r.map (fun r => (r.1, r.2.view k, r.2.nv))

-- mpz_root: root = u in place (TMP root, copied back), inexact and exact; nth = 1; separate root
example : lookN (mpz_root 1 1 3 (ofInts [0, -(2^200+5)])) 2 = .ok (false, [(0, 1, 0), (-117129523791978766508, 4, 1)], 2) := by decide +kernel
example : lookN (mpz_root 1 1 3 (ofInts [0, (2^70+1)^3])) 2 = .ok (true, [(0, 1, 0), (2^70+1, 4, 1)], 2) := by decide +kernel
example : lookN (mpz_root 0 1 3 (ofInts [0, -(2^200+5)])) 2 =
    .ok (false, [(-117129523791978766508, 2, 2), (-(2^200+5), 4, 1)], 2) := by decide +kernel
example : lookN (mpz_root 1 1 1 (ofInts [0, 2^70+1])) 2 = .ok (true, [(0, 1, 0), (2^70+1, 2, 1)], 2) := by decide +kernel
example : lookN (mpz_root 1 1 2 (ofInts [0, -4])) 2 = .error "sqrtneg" := by decide +kernel
-- NEGATIVE, `rootInTmp := false` with root = u: mpn_rootrem (PTR (root), NULL, PTR (u), …)
example : lookN (mpz_rootV { rootInTmp := false } 1 1 3 (ofInts [0, (2^70+1)^3])) 2 =
    .error "ub:mpn_rootrem operands overlap" := by decide +kernel
-- mpz_remove (ids: spare, src, f): dest = src, dest = f, dest = src = f, f = 2 with dest = f, src = 0, f = 1
example : lookN (mpz_remove 1 1 2 (ofInts [0, -(3^50 * 7 * 2^70), 3])) 3 =
    .ok (50, [(0, 1, 0), (-(7 * 2^70), 3, 1), (3, 1, 2)], 3) := by decide +kernel
example : lookN (mpz_remove 2 1 2 (ofInts [0, -(3^50 * 7 * 2^70), 3])) 3 =
    .ok (50, [(0, 1, 0), (-(3^50 * 7 * 2^70), 3, 1), (-(7 * 2^70), 3, 6)], 3) := by decide +kernel
example : lookN (mpz_remove 1 1 1 (ofInts [0, 2^70+1, 3])) 3 = .ok (1, [(0, 1, 0), (1, 2, 1), (3, 1, 2)], 3) := by decide +kernel
example : lookN (mpz_remove 2 1 2 (ofInts [0, -(3^50 * 7 * 2^70), 2])) 3 =
    .ok (70, [(0, 1, 0), (-(3^50 * 7 * 2^70), 3, 1), (-(3^50 * 7), 3, 3)], 3) := by decide +kernel
example : lookN (mpz_remove 2 1 2 (ofInts [0, 0, 5])) 3 = .ok (0, [(0, 1, 0), (0, 1, 1), (0, 1, 2)], 3) := by decide +kernel
example : lookN (mpz_remove 2 1 2 (ofInts [0, 10, 1])) 3 = .error "div0" := by decide +kernel
example : Numth.mpz_remove (-(3^50 * 7 * 2^70)) 3 = some (-(7 * 2^70), 50) := by decide +kernel
-- NEGATIVE, `copyFFirst := false` with dest = f: fpow[0] receives src instead of f — multiplicity 1, dest 1
example : lookN (mpz_removeV { copyFFirst := false } 2 1 2 (ofInts [0, -(3^50 * 7 * 2^70), 3])) 3 =
    .ok (1, [(0, 1, 0), (-(3^50 * 7 * 2^70), 3, 1), (1, 3, 6)], 3) := by decide +kernel
-- mpz_bin_ui: r = n (n ≥ 0, n < 0), an accumulator-overflow step (k = 30), k > n
example : (lookP (mpz_bin_ui 1 1 5 (ofInts [0, 2^70])) 2).map (·.map (·.1)) = .ok [0, Numth.mpz_bin_ui (2^70) 5] := by decide +kernel
example : (lookP (mpz_bin_ui 1 1 5 (ofInts [0, -(2^70)])) 2).map (·.map (·.1)) = .ok [0, Numth.mpz_bin_ui (-(2^70)) 5] := by decide +kernel
example : (lookP (mpz_bin_ui 1 1 30 (ofInts [0, 2^70+3])) 2).map (·.map (·.1)) = .ok [0, Numth.mpz_bin_ui (2^70+3) 30] := by decide +kernel
example : lookP (mpz_bin_ui 1 1 30 (ofInts [0, 33])) 2 = .ok [(0, 1, 0), (5456, 2, 6)] := by decide +kernel
example : lookP (mpz_bin_ui 1 1 30 (ofInts [0, 7])) 2 = .ok [(0, 1, 0), (0, 1, 1)] := by decide +kernel
-- NEGATIVE, `niBeforeR := false` with r = n: ni is computed from the 1 just stored — result 1
example : lookP (mpz_bin_uiV { niBeforeR := false } 1 1 5 (ofInts [0, 2^70])) 2 = .ok [(0, 1, 0), (1, 2, 1)] := by decide +kernel

end Mpir.AliasMem
