/- mpn_mulmod_2expm1: split_spec (mulmod_2expm1.c:164-224) on both paths. -/
import MpirProofs.Lemmas.Mulmod2expm1c
namespace Mpir.Mm1
open Mpir Mpir.Fft

/-- what `split` delivers for an operand of value `y < 2^(2h)`: `typm` a residue of `y` modulo `2^h − 1` below `2^h`
    (zero only for y = 0), `typp` with its flag the fully reduced residue modulo `2^h + 1` -/
def SplitOk (h m y : Nat) (r : List Nat × List Nat × Nat × Bool) : Prop :=
  r.2.2.2 = true ∧ r.1.length = m ∧ Limbs r.1 ∧ val r.1 < 2 ^ h ∧ val r.1 % (2 ^ h - 1) = y % (2 ^ h - 1) ∧
  (val r.1 = 0 ↔ y = 0) ∧
  r.2.1.length = m ∧ Limbs r.2.1 ∧ val r.2.1 < 2 ^ h ∧ r.2.2.1 ≤ 1 ∧
  (flaggedb r.2.2.1 h r.2.1 ≡ (y : Int) [ZMOD 2 ^ h + 1]) ∧ (y = 0 → val r.2.1 = 0 ∧ r.2.2.1 = 0)

theorem split_spec (yp : List Nat) (n m k : Nat) (hm : 1 ≤ m) (hk : k ≤ 63) (hh1 : 1 ≤ 64 * m - k)
    (hn : n = (2 * (64 * m - k) + 63) / 64) (hL : Limbs yp) (hl : yp.length = n)
    (hv : val yp < 2 ^ (64 * m - k) * 2 ^ (64 * m - k)) :
    SplitOk (64 * m - k) m (val yp) (split yp n m k) := by
  have hB := B_eq
  have hBm := Bn_eq m k hm hk
  have hH2 := two_le_two_pow _ hh1
  have hK : 1 ≤ 2 ^ k := Nat.one_le_two_pow
  have hyh : val yp / 2 ^ (64 * m - k) < 2 ^ (64 * m - k) := (Nat.div_lt_iff_lt_mul (by omega)).mpr hv
  have hyl : val yp % 2 ^ (64 * m - k) < 2 ^ (64 * m - k) := Nat.mod_lt _ (by omega)
  have hdm : val yp % 2 ^ (64 * m - k) + 2 ^ (64 * m - k) * (val yp / 2 ^ (64 * m - k)) = val yp := Nat.mod_add_div _ _
  obtain ⟨f1, f2, f3⟩ := fold_val _ _ _ hH2 hyl hyh
  rw [hdm] at f2 f3
  -- the common end: from the two lists
  have fin : ∀ (tpm tpp : List Nat) (c1 : Nat) (ok : Bool) (av af bv : Nat) (sv cy xv bw : Nat),
      ok = (af == 0) → tpm.length = m → Limbs tpm → tpp.length = m → Limbs tpp →
      val tpm = av % 2 ^ (64 * m - k) → val tpp = bv % 2 ^ (64 * m - k) →
      cy ≤ 1 → bw ≤ 1 → c1 ≤ 1 → af ≤ 1 →
      sv + B ^ m * cy = val yp % 2 ^ (64 * m - k) + val yp / 2 ^ (64 * m - k) → sv < B ^ m →
      av + B ^ m * af = sv + (val yp % 2 ^ (64 * m - k) + val yp / 2 ^ (64 * m - k)) / 2 ^ (64 * m - k) → av < B ^ m →
      xv + val yp / 2 ^ (64 * m - k) = val yp % 2 ^ (64 * m - k) + B ^ m * bw → xv < B ^ m →
      bv + B ^ m * c1 = xv + bw → bv < B ^ m →
      SplitOk (64 * m - k) m (val yp) (tpm, tpp, c1, ok) := by
    intro tpm tpp c1 ok av af bv sv cy xv bw hok l1 L1 l2 L2 v1 v2 hcy hbw hc1 haf hs hsv ha hav hx hxv hb hbv
    rw [hBm] at hs hsv ha hav hx hxv hb hbv
    obtain ⟨g1, g2⟩ := sum_fold_val _ _ _ _ sv cy av af hH2 hK hyl hyh hcy hs hsv ha hav haf
    obtain ⟨d1, d2⟩ := diff_flag_val _ _ _ _ xv bw bv c1 hH2 hK hyl hyh hbw hx hxv hb hbv hc1
    have hHpos : 0 < 2 ^ (64 * m - k) := by omega
    refine ⟨by simp [hok, g1], l1, L1, by rw [v1, g2]; exact f1, by rw [v1, g2]; exact f2,
      by rw [v1, g2]; exact f3, l2, L2, by rw [v2]; exact Nat.mod_lt _ hHpos, hc1, ?_, ?_⟩
    · show flaggedb c1 (64 * m - k) tpp ≡ _ [ZMOD _]
      unfold flaggedb
      rw [v2]
      have e : ((val yp : Nat) : Int) = ((val yp % 2 ^ (64 * m - k) : Nat) : Int) +
          ((2 ^ (64 * m - k) : Nat) : Int) * ((val yp / 2 ^ (64 * m - k) : Nat) : Int) := by
        exact_mod_cast hdm.symm
      rw [e]
      have := d1
      push_cast at this ⊢
      exact this
    · intro hy0
      show val tpp = 0 ∧ c1 = 0
      rw [v2]
      apply d2 <;> rw [hy0] <;> simp
  by_cases hk0 : k = 0
  · subst hk0
    have hn2 : n = 2 * m := by omega
    have e : split yp n m 0 =
        ((add_1 (sumdiff_n (yp.take m) ((yp.drop m).take m)).1 ((sumdiff_n (yp.take m) ((yp.drop m).take m)).2.2 / 2)).1,
         (add_1 (sumdiff_n (yp.take m) ((yp.drop m).take m)).2.1 ((sumdiff_n (yp.take m) ((yp.drop m).take m)).2.2 % 2)).1,
         (add_1 (sumdiff_n (yp.take m) ((yp.drop m).take m)).2.1 ((sumdiff_n (yp.take m) ((yp.drop m).take m)).2.2 % 2)).2,
         (add_1 (sumdiff_n (yp.take m) ((yp.drop m).take m)).1 ((sumdiff_n (yp.take m) ((yp.drop m).take m)).2.2 / 2)).2 == 0) := by
      unfold split
      simp only [↓reduceIte]
    rw [e]
    simp only [Nat.sub_zero, pow_zero, Nat.mul_one] at fin hBm hv hH2 hyh hyl hdm f1 f2 f3 hn ⊢
    have hHB : 2 ^ (64 * m) = B ^ m := hBm.symm
    rw [hHB] at fin hv hH2 hyh hyl hdm f1 f2 f3
    obtain ⟨t1, t2⟩ := val_take_mod yp hL m (by omega)
    have hdt : (yp.drop m).take m = yp.drop m := List.take_of_length_le (by rw [List.length_drop, hl]; omega)
    rw [hdt]
    have hlol : (yp.take m).length = m := by rw [List.length_take, hl]; omega
    have hhil : (yp.drop m).length = m := by rw [List.length_drop, hl]; omega
    obtain ⟨sa, sd, sc1, sc2, sL1, sL2, sl1, sl2⟩ := sumdiff_spec (yp.take m) (yp.drop m) (Limbs_take hL _) (Limbs_drop hL _)
      (by rw [hlol, hhil])
    rw [hlol, t1, t2] at sa sd
    rw [hlol] at sl1 sl2
    generalize sumdiff_n (yp.take m) (yp.drop m) = s at *
    have hsv := val_lt s.1 sL1; rw [sl1] at hsv
    have hxv := val_lt s.2.1 sL2; rw [sl2] at hxv
    obtain ⟨q1, q2⟩ := divmod_of _ _ _ _ sa hsv
    obtain ⟨a1, a2, a3, a4⟩ := add_1_spec s.1 (s.2.2 / 2) sL1 (by omega) (by omega)
    obtain ⟨b1, b2, b3, b4⟩ := add_1_spec s.2.1 (s.2.2 % 2) sL2 (by omega) (by omega)
    rw [sl1] at a1 a4
    rw [sl2] at b1 b4
    generalize add_1 s.1 (s.2.2 / 2) = a at *
    generalize add_1 s.2.1 (s.2.2 % 2) = b at *
    have hav := val_lt a.1 a3; rw [a4] at hav
    have hbv := val_lt b.1 b3; rw [b4] at hbv
    exact fin a.1 b.1 b.2 (a.2 == 0) (val a.1) a.2 (val b.1) (val s.1) (s.2.2 / 2) (val s.2.1) (s.2.2 % 2) rfl a4 a3 b4 b3
      (Nat.mod_eq_of_lt hav).symm (Nat.mod_eq_of_lt hbv).symm sc1 sc2 b2 a2 sa hsv (by rw [q1]; exact a1) hav sd hxv b1 hbv
  · have hk1 : 1 ≤ k := by omega
    obtain ⟨lo1, lo2, lo3⟩ := split_lo_k yp m k hm hk hL (by omega)
    obtain ⟨hi1, hi2, hi3⟩ := split_hi_k yp n m k hm hk1 hk hn hL hl hv
    have e : split yp n m k =
        let t0 := (rshift ((yp.drop (m - 1)).take m) (64 - k)).1
        let tpp := if n = 2 * m then setAt t0 (m - 1) (t0.getD (m - 1) 0 ||| ((yp.getD (2 * m - 1) 0 <<< k) % B)) else t0
        let s := sumdiff_n (maskK (yp.take m) m k) tpp
        let a := add_1 s.1 (s.1.getD (m - 1) 0 >>> (64 - k))
        let b := add_1 s.2.1 s.2.2
        (maskK a.1 m k, maskK b.1 m k, b.2, a.2 == 0) := by
      unfold split
      simp only [hk0, ↓reduceIte]
    rw [e]
    simp only at hi1 hi2 hi3 ⊢
    generalize (if n = 2 * m then setAt (rshift ((yp.drop (m - 1)).take m) (64 - k)).1 (m - 1)
      ((rshift ((yp.drop (m - 1)).take m) (64 - k)).1.getD (m - 1) 0 ||| ((yp.getD (2 * m - 1) 0 <<< k) % B))
      else (rshift ((yp.drop (m - 1)).take m) (64 - k)).1) = tpp at *
    generalize maskK (yp.take m) m k = ylo at *
    obtain ⟨sa, sd, sc1, sc2, sL1, sL2, sl1, sl2⟩ := sumdiff_spec ylo tpp lo3 hi3 (by rw [lo2, hi2])
    rw [lo2, lo1, hi1] at sa sd
    rw [lo2] at sl1 sl2
    generalize sumdiff_n ylo tpp = s at *
    have h2H : 2 ^ (64 * m - k) * 2 ≤ 2 ^ (64 * m - k) * 2 ^ k := Nat.mul_le_mul_left _ (two_le_two_pow k hk1)
    have hcy0 : s.2.2 / 2 = 0 := by
      by_contra hne
      have : B ^ m * 1 ≤ B ^ m * (s.2.2 / 2) := Nat.mul_le_mul_left _ (Nat.one_le_iff_ne_zero.mpr hne)
      omega
    have hs22 : s.2.2 = s.2.2 % 2 := by omega
    have hsv := val_lt s.1 sL1; rw [sl1] at hsv
    have hxv := val_lt s.2.1 sL2; rw [sl2] at hxv
    have hc := top_shr s.1 m k sL1 sl1 hm hk
    have hsv2 : val s.1 = val yp % 2 ^ (64 * m - k) + val yp / 2 ^ (64 * m - k) := by
      rw [hcy0, Nat.mul_zero, Nat.add_zero] at sa; exact sa
    rw [hc]
    have hcB : val s.1 / 2 ^ (64 * m - k) < B := by
      have : val s.1 / 2 ^ (64 * m - k) < 2 := (Nat.div_lt_iff_lt_mul (by omega)).mpr (by omega)
      omega
    obtain ⟨a1, a2, a3, a4⟩ := add_1_spec s.1 _ sL1 (by omega) hcB
    obtain ⟨b1, b2, b3, b4⟩ := add_1_spec s.2.1 s.2.2 sL2 (by omega) (by omega)
    rw [sl1] at a1 a4
    rw [sl2] at b1 b4
    generalize add_1 s.1 (val s.1 / 2 ^ (64 * m - k)) = a at *
    generalize add_1 s.2.1 s.2.2 = b at *
    obtain ⟨ma1, ma2, ma3⟩ := maskK_spec a.1 m k a3 a4 hm (by omega)
    obtain ⟨mb1, mb2, mb3⟩ := maskK_spec b.1 m k b3 b4 hm (by omega)
    have hav := val_lt a.1 a3; rw [a4] at hav
    have hbv := val_lt b.1 b3; rw [b4] at hbv
    refine fin _ _ b.2 (a.2 == 0) (val a.1) a.2 (val b.1) (val s.1) (s.2.2 / 2) (val s.2.1) (s.2.2 % 2) rfl ma2 ma3 mb2 mb3
      ma1 mb1 sc1 sc2 b2 a2 sa hsv ?_ hav sd hxv ?_ hbv
    · rw [← hsv2]; exact a1
    · rw [← hs22]; exact b1
end Mpir.Mm1
