/- Helper lemmas for the word-level division models (Mpir/Model/DivWord.lean), part 1:
   word primitives, invert_limb, udiv_qrnnd_preinv2, the Euclidean one-limb loops, mpn_mod_1, mpn_divrem_1 (Euclidean paths). -/
import MpirProofs.Lemmas.Base
import Mpir.Model.DivWord
import Mathlib.Tactic.Ring
import Mathlib.Tactic.Linarith
import Mathlib.Tactic.Push
import Mathlib.Tactic.Zify
import Mathlib.Tactic.NormNum
import Mathlib.Tactic.LinearCombination
import Mathlib.Data.Int.ModEq
import Mathlib.Data.Nat.ModEq
import Mathlib.Data.Nat.GCD.Basic
namespace Mpir.DivWord
open Mpir


/-! ### word primitives -/

theorem BB_eq : B * B = 340282366920938463463374607431768211456 := by unfold B; norm_num

theorem umul_ppmm_eq (u v : Nat) : umul_ppmm u v = (u * v / B, u * v % B) := rfl

/-- add_ssaaaa is addition modulo B². -/
theorem add_ssaaaa_eq (ah al bh bl : Nat) :
    add_ssaaaa ah al bh bl = (((ah * B + al + (bh * B + bl)) / B) % B, (ah * B + al + (bh * B + bl)) % B) := by
  simp only [add_ssaaaa, B_eq] at *
  refine Prod.ext ?_ ?_ <;> simp only <;> omega

/-- sub_ddmmss is subtraction modulo B². -/
theorem sub_ddmmss_eq (ah al bh bl : Nat) (hah : ah < B) (hal : al < B) (hbh : bh < B) (hbl : bl < B) :
    sub_ddmmss ah al bh bl =
      (((ah * B + al + B * B - (bh * B + bl)) / B) % B, (ah * B + al + B * B - (bh * B + bl)) % B) := by
  simp only [sub_ddmmss, boolToNat, BB_eq, decide_eq_true_eq]
  simp only [B_eq] at *
  refine Prod.ext ?_ ?_ <;> simp only <;> first | omega | (split <;> omega)

theorem and_mask (d : Nat) (hd : d < B) : (B - 1) &&& d = d := by
  rw [Nat.and_comm]
  have : B - 1 = 2 ^ 64 - 1 := rfl
  rw [this, Nat.and_two_pow_sub_one_eq_mod]; exact Nat.mod_eq_of_lt hd

theorem and_mask' (d : Nat) (hd : d < B) : d &&& (B - 1) = d := by
  rw [Nat.and_comm]; exact and_mask d hd

/-! ### invert_limb -/

/-- characterisation of the reciprocal: v = ⌊(B²-1)/d⌋ - B. -/
theorem invert_limb_eq (d : Nat) (h1 : B / 2 ≤ d) (h2 : d < B) :
    invert_limb d = (B * B - 1) / d - B := by
  have hd0 : 0 < d := by simp only [B_eq] at h1; omega
  unfold invert_limb udiv_qrnnd
  simp only
  have e : (B - 1 - d) * B + (B - 1) = (B * B - 1) - d * B := by
    have : d + 1 ≤ B := h2
    obtain ⟨k, hk⟩ := Nat.exists_eq_add_of_le this
    rw [hk]
    have : d + 1 + k - 1 - d = k := by omega
    rw [this]
    have : (d + 1 + k) * (d + 1 + k) - 1 - d * (d + 1 + k) = k * (d + 1 + k) + (d + k) := by
      have : (d + 1 + k) * (d + 1 + k) = d * (d + 1 + k) + (k * (d + 1 + k) + (d + k)) + 1 := by ring
      omega
    rw [this]; omega
  rw [e, Nat.sub_mul_div_of_le]
  · apply Nat.mod_eq_of_lt
    have : (B * B - 1) / d < 2 * B := by
      rw [Nat.div_lt_iff_lt_mul hd0]
      have : B * B ≤ 2 * B * d := by
        have : B ≤ 2 * d := by simp only [B_eq] at *; omega
        nlinarith
      have := B_pos
      omega
    omega
  · have : d * B ≤ (B - 1) * B := Nat.mul_le_mul_right _ (by omega)
    have hB := B_pos
    have : (B - 1) * B = B * B - B := by rw [Nat.sub_mul]; simp
    omega


theorem invert_limb_bounds (d : Nat) (h1 : B / 2 ≤ d) (h2 : d < B) :
    invert_limb d < B ∧ (B + invert_limb d) * d ≤ B * B - 1 ∧ B * B - 1 < (B + invert_limb d + 1) * d := by
  have hd0 : 0 < d := by simp only [B_eq] at h1; omega
  have hB := B_pos
  rw [invert_limb_eq d h1 h2]
  have hQ : B ≤ (B * B - 1) / d := by
    rw [Nat.le_div_iff_mul_le hd0]
    have : B * d ≤ B * (B - 1) := Nat.mul_le_mul_left _ (by omega)
    have : B * (B - 1) = B * B - B := by rw [Nat.mul_sub]; simp
    omega
  have hlt : (B * B - 1) / d < B + B := by
    rw [Nat.div_lt_iff_lt_mul hd0]
    have : B ≤ 2 * d := by simp only [B_eq] at *; omega
    have h4 : B * B ≤ (B + B) * d := by nlinarith
    exact Nat.lt_of_lt_of_le (Nat.sub_lt (Nat.mul_pos hB hB) Nat.one_pos) h4
  have hm1 := Nat.div_mul_le_self (B * B - 1) d
  have hm2 : B * B - 1 < ((B * B - 1) / d + 1) * d := by
    have := Nat.lt_mul_div_succ (B * B - 1) hd0
    rwa [Nat.mul_comm d] at this
  generalize (B * B - 1) / d = Q at *
  have e : B + (Q - B) = Q := by omega
  rw [e]
  exact ⟨by omega, hm1, hm2⟩

/-! ### udiv_qrnnd_preinv2 -/

/-- Core lemma behind udiv_qrnnd_preinv2 (Granlund–Montgomery Lemma 8.1), over ℤ with B abstract. -/
theorem preinv2_core (B d nh nl di k n1 q1 q0 : ℤ)
    (hB : 0 < B) (hd1 : B ≤ 2 * d) (hd2 : d < B)
    (hnh0 : 0 ≤ nh) (hnh : nh < d) (hnl0 : 0 ≤ nl) (hnl : nl < B)
    (hk1 : 1 ≤ k) (hk2 : k ≤ d) (hm : (B + di) * d = B * B - k)
    (hn1 : (n1 = 0 ∧ 2 * nl < B) ∨ (n1 = 1 ∧ B ≤ 2 * nl))
    (hq0 : 0 ≤ q0) (hq0' : q0 < B)
    (hX : di * (nh + n1) + (nl + n1 * (d - B)) + nh * B = q1 * B + q0) :
    q1 * d ≤ nh * B + nl ∧ nh * B + nl < (q1 + 2) * d := by
  -- key identity: (n - q1 d) * B = nl (B-d) + k (nh+n1) + q0 d - n1 (B-d)^2
  have key : (nh * B + nl - q1 * d) * B
      = nl * (B - d) + k * (nh + n1) + q0 * d - n1 * (B - d) * (B - d) := by
    have h1 : q1 * B * d = (di * (nh + n1) + (nl + n1 * (d - B)) + nh * B - q0) * d := by
      rw [hX]; ring
    have h2 : di * d = B * B - k - B * d := by linarith
    have : q1 * d * B = ((B * B - k - B * d) * (nh + n1) + (nl + n1 * (d - B)) * d + nh * B * d - q0 * d) := by
      rw [← h2]; linarith [h1]
    nlinarith [this]
  rcases hn1 with ⟨h0, hlo⟩ | ⟨h1, hhi⟩
  · subst h0
    simp only [add_zero, zero_mul, sub_zero] at key
    constructor
    · have : 0 ≤ (nh * B + nl - q1 * d) * B := by
        rw [key]; nlinarith [mul_nonneg hnl0 (by linarith : (0:ℤ) ≤ B - d), mul_nonneg (by linarith : (0:ℤ) ≤ k) hnh0, mul_nonneg hq0 (by linarith : (0:ℤ) ≤ d)]
      nlinarith
    · have : (nh * B + nl - q1 * d) * B < 2 * d * B := by
        rw [key]
        nlinarith [mul_nonneg hnl0 (by linarith : (0:ℤ) ≤ B - d), mul_le_mul hk2 (le_of_lt hnh) hnh0 (by linarith : (0:ℤ) ≤ d),
                   mul_lt_mul_of_pos_right hq0' (by linarith : (0:ℤ) < d), mul_nonneg (by linarith : (0:ℤ) ≤ 2*d - B) (by linarith : (0:ℤ) ≤ B - d),
                   mul_nonneg (by linarith : (0:ℤ) ≤ B - 2*nl) (by linarith : (0:ℤ) ≤ B - d)]
      nlinarith
  · subst h1
    simp only [one_mul] at key
    constructor
    · have : 0 ≤ (nh * B + nl - q1 * d) * B := by
        rw [key]
        nlinarith [mul_nonneg (by linarith : (0:ℤ) ≤ 2*nl - B) (by linarith : (0:ℤ) ≤ B - d), mul_nonneg (by linarith : (0:ℤ) ≤ 2*d - B) (by linarith : (0:ℤ) ≤ B - d),
                   mul_nonneg (by linarith : (0:ℤ) ≤ k) (by linarith : (0:ℤ) ≤ nh + 1), mul_nonneg hq0 (by linarith : (0:ℤ) ≤ d)]
      nlinarith
    · have : (nh * B + nl - q1 * d) * B < 2 * d * B := by
        rw [key]
        nlinarith [mul_nonneg (by linarith : (0:ℤ) ≤ B - 1 - nl) (by linarith : (0:ℤ) ≤ B - d), mul_le_mul hk2 (by linarith : nh + 1 ≤ d) (by linarith) (by linarith : (0:ℤ) ≤ d),
                   mul_lt_mul_of_pos_right hq0' (by linarith : (0:ℤ) < d)]
      nlinarith

theorem mask_cases (nl d : Nat) (hnl : nl < B) (hd : d < B) :
    ∃ n1, ((n1 = 0 ∧ 2 * nl < B) ∨ (n1 = 1 ∧ B ≤ 2 * nl)) ∧
      LIMB_HIGHBIT_TO_MASK nl = n1 * (B - 1) ∧ (LIMB_HIGHBIT_TO_MASK nl &&& d) = n1 * d := by
  unfold LIMB_HIGHBIT_TO_MASK HIGHBIT
  by_cases h : B / 2 ≤ nl
  · refine ⟨1, Or.inr ⟨rfl, ?_⟩, ?_, ?_⟩
    · simp only [B_eq] at *; omega
    · simp [h]
    · simp only [h, if_true, one_mul]; exact and_mask d hd
  · refine ⟨0, Or.inl ⟨rfl, ?_⟩, ?_, ?_⟩
    · simp only [B_eq] at *; omega
    · simp [h]
    · simp [h]

theorem udiv_qrnnd_preinv2_eq (nh nl d : Nat) (h1 : B / 2 ≤ d) (h2 : d < B) (hnh : nh < d) (hnl : nl < B) :
    udiv_qrnnd_preinv2 nh nl d (invert_limb d) = ((nh * B + nl) / d, (nh * B + nl) % d) := by
  obtain ⟨hv, hv1, hv2⟩ := invert_limb_bounds d h1 h2
  generalize invert_limb d = di at *
  obtain ⟨n1, hn1, hmask, hmaskd⟩ := mask_cases nl d hnl h2
  have hB := B_pos
  have hd0 : 0 < d := by omega
  -- the multiplier nh - nmask
  have hm : (nh + B - n1 * (B - 1)) % B = nh + n1 := by
    rcases hn1 with ⟨rfl, _⟩ | ⟨rfl, _⟩
    · simp only [zero_mul, Nat.sub_zero, Nat.add_zero]; rw [Nat.add_mod_right]; exact Nat.mod_eq_of_lt (by omega)
    · have : nh + B - 1 * (B - 1) = nh + 1 := by omega
      rw [this]; exact Nat.mod_eq_of_lt (by omega)
  -- nadj
  obtain ⟨nadj, hnadj, hnadj2, hnadjB⟩ : ∃ nadj, (nl + n1 * d) % B = nadj ∧ nadj + n1 * B = nl + n1 * d ∧ nadj < B := by
    refine ⟨_, rfl, ?_, Nat.mod_lt _ hB⟩
    rcases hn1 with ⟨rfl, _⟩ | ⟨rfl, _⟩
    · simp only [zero_mul, Nat.add_zero]; exact Nat.mod_eq_of_lt hnl
    · simp only [one_mul]
      have : nl + d = (nl + d - B) + B := by simp only [B_eq] at *; omega
      rw [this, Nat.add_mod_right, Nat.mod_eq_of_lt (by omega)]
  unfold udiv_qrnnd_preinv2
  simp only [hmaskd, hnadj]
  simp only [umul_ppmm_eq, add_ssaaaa_eq, hmask, hm, Nat.div_add_mod']
  have hXdm := Nat.div_add_mod (di * (nh + n1) + (nh * B + nadj)) B
  have hq0 := Nat.mod_lt (di * (nh + n1) + (nh * B + nadj)) hB
  generalize (di * (nh + n1) + (nh * B + nadj)) / B = q1L at *
  generalize (di * (nh + n1) + (nh * B + nadj)) % B = q0 at *
  -- the core estimate
  have hBB : 0 < B * B := Nat.mul_pos hB hB
  have core : q1L * d ≤ nh * B + nl ∧ nh * B + nl < (q1L + 2) * d := by
    have hk1 : (1 : ℤ) ≤ (B : ℤ) * B - ((B : ℤ) + di) * d := by
      have : (B + di) * d + 1 ≤ B * B := by omega
      have := (Int.ofNat_le.mpr this); push_cast at this; linarith
    have hk2 : (B : ℤ) * B - ((B : ℤ) + di) * d ≤ d := by
      have : B * B ≤ (B + di) * d + d := by
        have : (B + di + 1) * d = (B + di) * d + d := by ring
        omega
      have := (Int.ofNat_le.mpr this); push_cast at this; linarith
    have hn1' : ((n1 : ℤ) = 0 ∧ 2 * (nl : ℤ) < B) ∨ ((n1 : ℤ) = 1 ∧ (B : ℤ) ≤ 2 * nl) := by
      rcases hn1 with ⟨a, b⟩ | ⟨a, b⟩
      · left; exact ⟨by exact_mod_cast a, by exact_mod_cast b⟩
      · right; exact ⟨by exact_mod_cast a, by exact_mod_cast b⟩
    have hX : (di : ℤ) * (nh + n1) + (nl + n1 * ((d : ℤ) - B)) + nh * B = q1L * B + q0 := by
      have e1 := congrArg (Nat.cast : ℕ → ℤ) hXdm
      have e2 := congrArg (Nat.cast : ℕ → ℤ) hnadj2
      push_cast at e1 e2
      linarith
    have := preinv2_core (B : ℤ) d nh nl di ((B : ℤ) * B - ((B : ℤ) + di) * d) n1 q1L q0
      (by exact_mod_cast hB) (by have : B ≤ 2 * d := by simp only [B_eq] at *; omega
                                 exact_mod_cast this) (by exact_mod_cast h2)
      (by positivity) (by exact_mod_cast hnh) (by positivity) (by exact_mod_cast hnl) hk1 hk2 (by ring) hn1'
      (by positivity) (by exact_mod_cast hq0) hX
    exact ⟨by exact_mod_cast this.1, by exact_mod_cast this.2⟩
  obtain ⟨c1, c2⟩ := core
  have hnlt : nh * B + nl < d * B := by
    have : (nh + 1) * B ≤ d * B := Nat.mul_le_mul_right _ hnh
    have : (nh + 1) * B = nh * B + B := by ring
    omega
  have hq1B : q1L < B := by
    have : q1L * d < B * d := by rw [Nat.mul_comm B d]; omega
    exact Nat.lt_of_mul_lt_mul_right this
  rw [Nat.mod_eq_of_lt hq1B]
  have hY : (B - 1 - q1L) * d + q1L * d + d = B * d := by
    have : (B - 1 - q1L) * d + q1L * d + d = ((B - 1 - q1L) + q1L + 1) * d := by ring
    rw [this]; congr 1; omega
  have hc2 : (q1L + 2) * d = q1L * d + 2 * d := by ring
  rw [hc2] at c2
  have hdm := Nat.div_add_mod (nh * B + nl) d
  have hml := Nat.mod_lt (nh * B + nl) hd0
  by_cases hc : nh * B + nl < q1L * d + d
  · have hdiv : (nh * B + nl) / d = q1L := Nat.div_eq_of_lt_le c1 (by rw [Nat.add_mul, one_mul]; exact hc)
    rw [hdiv] at hdm ⊢
    rw [Nat.mul_comm d q1L] at hdm
    generalize (nh * B + nl) % d = r at *
    generalize (B - 1 - q1L) * d = Y at *
    generalize q1L * d = P at *
    have hX1 : ((Y + (nh * B + nl)) / B % B + B - d) % B = B - 1 := by simp only [B_eq] at *; omega
    rw [hX1, and_mask' d h2]
    refine Prod.ext ?_ ?_ <;> simp only <;> (simp only [B_eq] at *; omega)
  · have hdiv : (nh * B + nl) / d = q1L + 1 :=
      Nat.div_eq_of_lt_le (by rw [Nat.add_mul, one_mul]; omega) (by rw [Nat.add_mul, Nat.add_mul, one_mul]; omega)
    have hq1B' : q1L + 1 < B := by
      have : (q1L + 1) * d < B * d := by rw [Nat.mul_comm B d, Nat.add_mul, one_mul]; omega
      exact Nat.lt_of_mul_lt_mul_right this
    rw [hdiv] at hdm ⊢
    rw [Nat.mul_add, Nat.mul_one, Nat.mul_comm d q1L] at hdm
    generalize (nh * B + nl) % d = r at *
    generalize (B - 1 - q1L) * d = Y at *
    generalize q1L * d = P at *
    have hX1 : ((Y + (nh * B + nl)) / B % B + B - d) % B = 0 := by simp only [B_eq] at *; omega
    rw [hX1, Nat.and_zero]
    refine Prod.ext ?_ ?_ <;> simp only <;> (simp only [B_eq] at *; omega)


/-! ### most-significant-first values -/

/-- value of a most-significant-first limb list with accumulator (Horner) -/
def valMS (acc : Nat) : List Nat → Nat
  | [] => acc
  | x :: xs => valMS (acc * B + x) xs

theorem valMS_append (a : Nat) (l1 l2 : List Nat) : valMS a (l1 ++ l2) = valMS (valMS a l1) l2 := by
  induction l1 generalizing a with
  | nil => rfl
  | cons x xs ih => simp only [List.cons_append, valMS, ih]

theorem valMS_eq (a : Nat) (l : List Nat) : valMS a l = a * B ^ l.length + val l.reverse := by
  induction l generalizing a with
  | nil => simp [valMS]
  | cons x xs ih =>
    simp only [valMS, ih, List.reverse_cons, val_append, List.length_reverse, List.length_cons, val_cons, val_nil, pow_succ]
    ring

theorem val_eq_valMS (l : List Nat) : val l = valMS 0 l.reverse := by
  rw [valMS_eq]; simp

theorem valMS_replicate_zero (a k : Nat) : valMS a (List.replicate k 0) = a * B ^ k := by
  induction k generalizing a with
  | zero => simp [valMS]
  | succ k ih => simp only [List.replicate_succ, valMS, ih, pow_succ]; ring

theorem Limbs_reverse {l : List Nat} (h : Limbs l) : Limbs l.reverse := by
  intro x hx; exact h x (List.mem_reverse.mp hx)

theorem Limbs_replicate_zero (k : Nat) : Limbs (List.replicate k 0) := by
  intro x hx; rw [List.mem_replicate] at hx; rw [hx.2]; exact B_pos

/-! ### the division step and the plain loop -/

theorem udiv_qrnnd_lt (r n0 d : Nat) (hr : r < d) (hn0 : n0 < B) : (r * B + n0) / d < B := by
  rw [Nat.div_lt_iff_lt_mul (by omega)]
  have : (r + 1) * B ≤ d * B := Nat.mul_le_mul_right _ hr
  have : (r + 1) * B = r * B + B := by ring
  rw [Nat.mul_comm B d]; omega

theorem udiv_qrnnd_fst (r n0 d : Nat) (hr : r < d) (hn0 : n0 < B) :
    (udiv_qrnnd r n0 d).1 = (r * B + n0) / d := by
  show ((r * B + n0) / d) % B = _
  exact Nat.mod_eq_of_lt (udiv_qrnnd_lt r n0 d hr hn0)

theorem udiv_qrnnd_snd (r n0 d : Nat) : (udiv_qrnnd r n0 d).2 = (r * B + n0) % d := rfl

theorem udiv_qrnnd_spec1 (r n0 d : Nat) (hr : r < d) (hn0 : n0 < B) :
    (udiv_qrnnd r n0 d).1 * d + (udiv_qrnnd r n0 d).2 = r * B + n0 := by
  rw [udiv_qrnnd_fst r n0 d hr hn0, udiv_qrnnd_snd, Nat.mul_comm]; exact Nat.div_add_mod _ _

theorem udiv_qrnnd_spec2 (r n0 d : Nat) (hr : r < d) : (udiv_qrnnd r n0 d).2 < d := by
  rw [udiv_qrnnd_snd]; exact Nat.mod_lt _ (by omega)

theorem udiv_qrnnd_spec3 (r n0 d : Nat) (hr : r < d) (hn0 : n0 < B) : (udiv_qrnnd r n0 d).1 < B := by
  rw [udiv_qrnnd_fst r n0 d hr hn0]; exact udiv_qrnnd_lt r n0 d hr hn0

theorem udiv_qrnnd_eq (r n0 d : Nat) (hr : r < d) (hn0 : n0 < B) :
    udiv_qrnnd r n0 d = ((r * B + n0) / d, (r * B + n0) % d) :=
  Prod.ext (udiv_qrnnd_fst r n0 d hr hn0) (udiv_qrnnd_snd r n0 d)

theorem udiv_qrnnd_spec (r n0 d : Nat) (hr : r < d) (hn0 : n0 < B) :
    (udiv_qrnnd r n0 d).1 * d + (udiv_qrnnd r n0 d).2 = r * B + n0 ∧ (udiv_qrnnd r n0 d).2 < d ∧
    (udiv_qrnnd r n0 d).1 < B :=
  ⟨udiv_qrnnd_spec1 r n0 d hr hn0, udiv_qrnnd_spec2 r n0 d hr, udiv_qrnnd_spec3 r n0 d hr hn0⟩


/-! ### division loops -/

theorem plainLoop_cons (d n0 : Nat) (ns : List Nat) (r : Nat) :
    plainLoop d (n0 :: ns) r = ((udiv_qrnnd r n0 d).1 :: (plainLoop d ns (udiv_qrnnd r n0 d).2).1,
      (plainLoop d ns (udiv_qrnnd r n0 d).2).2) := rfl
theorem valMS_cons (a x : Nat) (xs : List Nat) : valMS a (x :: xs) = valMS (a * B + x) xs := rfl

/-- the plain loop: Horner invariant `N = Q·d + r`. -/
theorem plainLoop_spec (d : Nat) (ms : List Nat) : ∀ (r Q : Nat), r < d → Limbs ms →
    valMS (Q * d + r) ms = valMS Q (plainLoop d ms r).1 * d + (plainLoop d ms r).2 ∧
    (plainLoop d ms r).2 < d ∧ Limbs (plainLoop d ms r).1 ∧ (plainLoop d ms r).1.length = ms.length := by
  induction ms with
  | nil => intro r Q hr _; exact ⟨rfl, hr, Limbs_nil, rfl⟩
  | cons n0 ns ih =>
    intro r Q hr hl
    have ⟨h0, hns⟩ := Limbs_cons.mp hl
    obtain ⟨e, hr', hq⟩ := udiv_qrnnd_spec r n0 d hr h0
    have ih := ih (udiv_qrnnd r n0 d).2 (Q * B + (udiv_qrnnd r n0 d).1) hr' hns
    rw [plainLoop_cons, valMS_cons]
    generalize (udiv_qrnnd r n0 d).1 = q at *
    generalize (udiv_qrnnd r n0 d).2 = r' at *
    obtain ⟨i1, i2, i3, i4⟩ := ih
    have : (Q * d + r) * B + n0 = (Q * B + q) * d + r' := by
      have : (Q * d + r) * B + n0 = Q * B * d + (r * B + n0) := by ring
      rw [this, ← e]; ring
    rw [this, i1]
    exact ⟨by rw [valMS_cons], i2, Limbs_cons.mpr ⟨hq, i3⟩, by rw [List.length_cons, List.length_cons, i4]⟩

theorem udiv_qrnnd_preinv_eq (r n0 d : Nat) (h1 : B / 2 ≤ d) (h2 : d < B) (hr : r < d) (hn0 : n0 < B) :
    udiv_qrnnd_preinv r n0 d (invert_limb d) = udiv_qrnnd r n0 d := by
  rw [udiv_qrnnd_eq r n0 d hr hn0]; exact udiv_qrnnd_preinv2_eq r n0 d h1 h2 hr hn0

theorem preinvLoop_cons (d di n0 : Nat) (ns : List Nat) (r : Nat) :
    preinvLoop d di (n0 :: ns) r = ((udiv_qrnnd_preinv r n0 d di).1 :: (preinvLoop d di ns (udiv_qrnnd_preinv r n0 d di).2).1,
      (preinvLoop d di ns (udiv_qrnnd_preinv r n0 d di).2).2) := rfl

theorem preinvLoop_eq (d : Nat) (h1 : B / 2 ≤ d) (h2 : d < B) (ms : List Nat) : ∀ (r : Nat), r < d → Limbs ms →
    preinvLoop d (invert_limb d) ms r = plainLoop d ms r := by
  induction ms with
  | nil => intro r _ _; rfl
  | cons n0 ns ih =>
    intro r hr hl
    have ⟨h0, hns⟩ := Limbs_cons.mp hl
    obtain ⟨_, hr', _⟩ := udiv_qrnnd_spec r n0 d hr h0
    rw [preinvLoop_cons, plainLoop_cons, udiv_qrnnd_preinv_eq r n0 d h1 h2 hr h0, ih _ hr' hns]


/-! ### shifts and count_leading_zeros -/

theorem B_eq_pow : B = 2 ^ 64 := rfl

theorem B_split (s : Nat) (hs : s ≤ 64) : B = 2 ^ (64 - s) * 2 ^ s := by
  rw [← pow_add, B_eq_pow]; congr 1; omega

theorem clz_spec (d : Nat) (hd0 : d ≠ 0) (hdB : d < B) :
    count_leading_zeros d ≤ 63 ∧ B / 2 ≤ d * 2 ^ count_leading_zeros d ∧ d * 2 ^ count_leading_zeros d < B := by
  unfold count_leading_zeros
  have h1 := Nat.log2_self_le hd0
  have h2 := @Nat.lt_log2_self d
  have h3 : d.log2 < 64 := (Nat.log2_lt hd0).mpr hdB
  generalize d.log2 = k at *
  refine ⟨by omega, ?_, ?_⟩
  · have : B / 2 = 2 ^ k * 2 ^ (63 - k) := by
      rw [← pow_add]; have : k + (63 - k) = 63 := by omega
      rw [this]; rfl
    rw [this]; exact Nat.mul_le_mul_right _ h1
  · have : B = 2 ^ (k + 1) * 2 ^ (63 - k) := by
      rw [← pow_add]; have : k + 1 + (63 - k) = 64 := by omega
      rw [this]; rfl
    rw [this]; exact Nat.mul_lt_mul_of_pos_right h2 (by positivity)

/-- splitting a limb at bit 64-s: high part (as computed by `(l >> (63-s)) >> 1`), low part shifted up. -/
theorem limb_split (l s : Nat) (hs : s ≤ 63) :
    (l >>> (63 - s)) >>> 1 = l / 2 ^ (64 - s) ∧ (l <<< s) % B = (l % 2 ^ (64 - s)) * 2 ^ s := by
  constructor
  · rw [Nat.shiftRight_eq_div_pow, Nat.shiftRight_eq_div_pow, Nat.div_div_eq_div_mul, ← pow_succ]
    congr 2; omega
  · rw [Nat.shiftLeft_eq, B_split s (by omega), Nat.mul_mod_mul_right]

theorem limb_split_sum (l s : Nat) (hs : s ≤ 64) :
    (l / 2 ^ (64 - s)) * B + (l % 2 ^ (64 - s)) * 2 ^ s = l * 2 ^ s := by
  have h := Nat.div_add_mod l (2 ^ (64 - s))
  rw [B_split s hs]
  generalize l / 2 ^ (64 - s) = a at *
  generalize l % 2 ^ (64 - s) = b at *
  generalize 2 ^ (64 - s) = T at *
  rw [← h]; ring

theorem limb_hi_lt (l s : Nat) (hl : l < B) (hs : s ≤ 64) : l / 2 ^ (64 - s) < 2 ^ s := by
  rw [Nat.div_lt_iff_lt_mul (by positivity), Nat.mul_comm, ← B_split s hs]; exact hl

/-- `(a << s) mod B | (b >> (64-s))` is a sum -/
theorem shl_or (a b s : Nat) (hb : b < B) (hs1 : 1 ≤ s) (hs : s ≤ 63) :
    ((a <<< s) % B) ||| (b >>> (64 - s)) = (a % 2 ^ (64 - s)) * 2 ^ s + b / 2 ^ (64 - s) := by
  rw [(limb_split a s hs).2, Nat.shiftRight_eq_div_pow, ← Nat.shiftLeft_eq]
  exact (Nat.shiftLeft_add_eq_or_of_lt (limb_hi_lt b s hb (by omega)) _).symm

/-- cancelling the normalisation shift from a division identity -/
theorem unshift_div (X Q d rf s : Nat) (h : X * 2 ^ s = Q * (d * 2 ^ s) + rf) (hr : rf < d * 2 ^ s) :
    X = Q * d + rf / 2 ^ s ∧ rf / 2 ^ s < d ∧ rf / 2 ^ s * 2 ^ s = rf := by
  have hp : 0 < 2 ^ s := by positivity
  have hdvd : 2 ^ s ∣ rf := by
    have h1 : 2 ^ s ∣ X * 2 ^ s := Dvd.intro_left _ rfl
    have h2 : 2 ^ s ∣ Q * (d * 2 ^ s) := ⟨Q * d, by ring⟩
    rw [h] at h1
    exact (Nat.dvd_add_right h2).mp h1
  obtain ⟨k, rfl⟩ := hdvd
  rw [Nat.mul_div_cancel_left _ hp]
  refine ⟨?_, ?_, by ring⟩
  · have : X * 2 ^ s = (Q * d + k) * 2 ^ s := by rw [h]; ring
    exact Nat.eq_of_mul_eq_mul_right hp this
  · have : 2 ^ s * k < 2 ^ s * d := by rw [Nat.mul_comm (2 ^ s) d]; exact hr
    exact Nat.lt_of_mul_lt_mul_left this


/-! ### mpn_divrem_euclidean_qr_1 -/

theorem euclidLoop_cons (d i s l : Nat) (ls : List Nat) (r : Nat) :
    euclidLoop d i s (l :: ls) r =
      ((udiv_qrnnd_preinv ((((l >>> (63 - s)) >>> 1) + r) % B) ((l <<< s) % B) d i).1 ::
        (euclidLoop d i s ls (udiv_qrnnd_preinv ((((l >>> (63 - s)) >>> 1) + r) % B) ((l <<< s) % B) d i).2).1,
       (euclidLoop d i s ls (udiv_qrnnd_preinv ((((l >>> (63 - s)) >>> 1) + r) % B) ((l <<< s) % B) d i).2).2) := rfl

/-- one step of the on-the-fly-shift loop equals one plain division step of the unshifted problem -/
theorem euclid_step (d0 s l r0 : Nat) (hs : s ≤ 63) (h1 : B / 2 ≤ d0 * 2 ^ s) (h2 : d0 * 2 ^ s < B)
    (hr : r0 < d0) (hl : l < B) :
    udiv_qrnnd_preinv ((((l >>> (63 - s)) >>> 1) + r0 * 2 ^ s) % B) ((l <<< s) % B) (d0 * 2 ^ s) (invert_limb (d0 * 2 ^ s))
      = ((udiv_qrnnd r0 l d0).1, (udiv_qrnnd r0 l d0).2 * 2 ^ s) := by
  obtain ⟨e1, e2⟩ := limb_split l s hs
  have hh := limb_hi_lt l s hl (by omega)
  have hsum := limb_split_sum l s (by omega)
  rw [e1, e2]
  have hp : 0 < 2 ^ s := by positivity
  have hlt : l / 2 ^ (64 - s) + r0 * 2 ^ s < d0 * 2 ^ s := by
    have : (r0 + 1) * 2 ^ s ≤ d0 * 2 ^ s := Nat.mul_le_mul_right _ hr
    have : (r0 + 1) * 2 ^ s = r0 * 2 ^ s + 2 ^ s := by ring
    omega
  rw [Nat.mod_eq_of_lt (by omega)]
  have hlo : l % 2 ^ (64 - s) * 2 ^ s < B := by
    rw [B_split s (by omega)]
    exact Nat.mul_lt_mul_of_pos_right (Nat.mod_lt _ (by positivity)) hp
  rw [udiv_qrnnd_preinv_eq _ _ _ h1 h2 hlt hlo, udiv_qrnnd_eq _ _ _ hlt hlo, udiv_qrnnd_eq _ _ _ hr hl]
  have : (l / 2 ^ (64 - s) + r0 * 2 ^ s) * B + l % 2 ^ (64 - s) * 2 ^ s = (r0 * B + l) * 2 ^ s := by
    have : (r0 * B + l) * 2 ^ s = r0 * 2 ^ s * B + l * 2 ^ s := by ring
    rw [this, ← hsum]; ring
  rw [this, Nat.mul_div_mul_right _ _ hp, Nat.mul_mod_mul_right]

theorem euclidLoop_eq (d0 s : Nat) (hs : s ≤ 63) (h1 : B / 2 ≤ d0 * 2 ^ s) (h2 : d0 * 2 ^ s < B) (ls : List Nat) :
    ∀ r0, r0 < d0 → Limbs ls →
    euclidLoop (d0 * 2 ^ s) (invert_limb (d0 * 2 ^ s)) s ls (r0 * 2 ^ s) =
      ((plainLoop d0 ls r0).1, (plainLoop d0 ls r0).2 * 2 ^ s) := by
  induction ls with
  | nil => intro r0 _ _; rfl
  | cons l ls ih =>
    intro r0 hr hl
    have ⟨h0, hls⟩ := Limbs_cons.mp hl
    rw [euclidLoop_cons, euclid_step d0 s l r0 hs h1 h2 hr h0, plainLoop_cons]
    simp only
    rw [ih _ (udiv_qrnnd_spec2 r0 l d0 hr) hls]

/-- mpn_divrem_euclidean_qr_1 is the plain schoolbook loop -/
theorem divrem_euclidean_qr_1_eq (x : List Nat) (d : Nat) (hx : Limbs x) (hd0 : d ≠ 0) (hdB : d < B) :
    divrem_euclidean_qr_1 x d = ((plainLoop d x.reverse 0).1.reverse, (plainLoop d x.reverse 0).2) := by
  obtain ⟨hs, h1, h2⟩ := clz_spec d hd0 hdB
  unfold divrem_euclidean_qr_1
  simp only
  rw [Nat.shiftLeft_eq, Nat.mod_eq_of_lt h2]
  have := euclidLoop_eq d _ hs h1 h2 x.reverse 0 (by omega) (Limbs_reverse hx)
  rw [Nat.zero_mul] at this
  rw [this]
  simp only
  rw [Nat.shiftRight_eq_div_pow, Nat.mul_div_cancel _ (by positivity)]


/-! ### the shifted limb stream of the unnormalised loops -/

/-- limbs fed by the unnormalised loops: (n1<<s)|(n0>>(64-s)), ..., last = n1<<s -/
def shl (s : Nat) : Nat → List Nat → List Nat
  | n1, [] => [(n1 % 2 ^ (64 - s)) * 2 ^ s]
  | n1, n0 :: ns => ((n1 % 2 ^ (64 - s)) * 2 ^ s + n0 / 2 ^ (64 - s)) :: shl s n0 ns

theorem unnormLoop_nil (d di s n1 r : Nat) :
    unnormLoop d di s n1 [] r =
      ([(udiv_qrnnd_preinv r ((n1 <<< s) % B) d di).1], (udiv_qrnnd_preinv r ((n1 <<< s) % B) d di).2) := rfl

theorem unnormLoop_cons (d di s n1 n0 : Nat) (ns : List Nat) (r : Nat) :
    unnormLoop d di s n1 (n0 :: ns) r =
      ((udiv_qrnnd_preinv r (((n1 <<< s) % B) ||| (n0 >>> (64 - s))) d di).1 ::
        (unnormLoop d di s n0 ns (udiv_qrnnd_preinv r (((n1 <<< s) % B) ||| (n0 >>> (64 - s))) d di).2).1,
       (unnormLoop d di s n0 ns (udiv_qrnnd_preinv r (((n1 <<< s) % B) ||| (n0 >>> (64 - s))) d di).2).2) := rfl

theorem unnormLoop_eq (d di s : Nat) (hs1 : 1 ≤ s) (hs : s ≤ 63) (rest : List Nat) :
    ∀ n1 r, Limbs rest → unnormLoop d di s n1 rest r = preinvLoop d di (shl s n1 rest) r := by
  induction rest with
  | nil =>
    intro n1 r _
    rw [unnormLoop_nil, (limb_split n1 s hs).2]; rfl
  | cons n0 ns ih =>
    intro n1 r hl
    have ⟨h0, hns⟩ := Limbs_cons.mp hl
    rw [unnormLoop_cons, shl_or n1 n0 s h0 hs1 hs, ih _ _ hns]; rfl

theorem shl_val (s : Nat) (hs : s ≤ 64) (rest : List Nat) : ∀ n1 A,
    valMS A (shl s n1 rest) = valMS (A * 2 ^ (64 - s) + n1 % 2 ^ (64 - s)) rest * 2 ^ s := by
  induction rest with
  | nil =>
    intro n1 A
    show A * B + n1 % 2 ^ (64 - s) * 2 ^ s = (A * 2 ^ (64 - s) + n1 % 2 ^ (64 - s)) * 2 ^ s
    rw [B_split s hs]; ring
  | cons n0 ns ih =>
    intro n1 A
    show valMS (A * B + (n1 % 2 ^ (64 - s) * 2 ^ s + n0 / 2 ^ (64 - s))) (shl s n0 ns) =
      valMS ((A * 2 ^ (64 - s) + n1 % 2 ^ (64 - s)) * B + n0) ns * 2 ^ s
    rw [ih]
    congr 2
    have h := Nat.div_add_mod n0 (2 ^ (64 - s))
    have hB := B_split s hs
    generalize n0 / 2 ^ (64 - s) = a at *
    generalize n0 % 2 ^ (64 - s) = b at *
    generalize n1 % 2 ^ (64 - s) = c at *
    generalize 2 ^ (64 - s) = T at *
    rw [← h, hB]; ring

theorem shl_Limbs (s : Nat) (hs : s ≤ 64) (rest : List Nat) : ∀ n1, Limbs rest → Limbs (shl s n1 rest) := by
  have hp : 0 < 2 ^ s := by positivity
  have hT : 0 < 2 ^ (64 - s) := by positivity
  induction rest with
  | nil =>
    intro n1 _
    refine Limbs_cons.mpr ⟨?_, Limbs_nil⟩
    rw [B_split s hs]; exact Nat.mul_lt_mul_of_pos_right (Nat.mod_lt _ hT) hp
  | cons n0 ns ih =>
    intro n1 hl
    have ⟨h0, hns⟩ := Limbs_cons.mp hl
    refine Limbs_cons.mpr ⟨?_, ih _ hns⟩
    have h1 := limb_hi_lt n0 s h0 hs
    have h2 := Nat.mod_lt n1 hT
    have hB := B_split s hs
    generalize n0 / 2 ^ (64 - s) = a at *
    generalize n1 % 2 ^ (64 - s) = c at *
    generalize 2 ^ (64 - s) = T at *
    generalize 2 ^ s = P at *
    rw [hB]
    have : (c + 1) * P ≤ T * P := Nat.mul_le_mul_right _ h2
    have : (c + 1) * P = c * P + P := by ring
    omega

theorem shl_length (s : Nat) (rest : List Nat) : ∀ n1, (shl s n1 rest).length = rest.length + 1 := by
  induction rest with
  | nil => intro _; rfl
  | cons n0 ns ih => intro n1; show (shl s n0 ns).length + 1 = _; rw [ih]; rfl

/-! ### plain loop: consequences -/

theorem plainLoop_append (d : Nat) (a b : List Nat) : ∀ r,
    plainLoop d (a ++ b) r =
      ((plainLoop d a r).1 ++ (plainLoop d b (plainLoop d a r).2).1, (plainLoop d b (plainLoop d a r).2).2) := by
  induction a with
  | nil => intro r; rfl
  | cons x xs ih =>
    intro r
    rw [List.cons_append, plainLoop_cons, plainLoop_cons, ih]; rfl

theorem valMS_mod (d : Nat) (l : List Nat) : ∀ a, valMS a l % d = valMS (a % d) l % d := by
  induction l with
  | nil => intro a; simp [valMS]
  | cons x xs ih =>
    intro a
    have key : (a * B + x) % d = ((a % d) * B + x) % d := by
      conv_lhs => rw [Nat.add_mod, Nat.mul_mod]
      conv_rhs => rw [Nat.add_mod, Nat.mul_mod, Nat.mod_mod]
    rw [valMS_cons, valMS_cons, ih, ih ((a % d) * B + x), key]

theorem plainLoop_rem (d : Nat) (ms : List Nat) (r : Nat) (hr : r < d) (hl : Limbs ms) :
    (plainLoop d ms r).2 = valMS r ms % d := by
  obtain ⟨e, h2, _, _⟩ := plainLoop_spec d ms r 0 hr hl
  rw [Nat.zero_mul, Nat.zero_add] at e
  rw [e, Nat.mul_add_mod_self_right, Nat.mod_eq_of_lt h2]


/-! ### mpn_mod_1, mpn_preinv_mod_1 -/

theorem HIGHBIT_eq : HIGHBIT = 2 ^ 63 := rfl

theorem and_two_pow' (d n : Nat) (hd : d < 2 ^ (n + 1)) : d &&& 2 ^ n = if 2 ^ n ≤ d then 2 ^ n else 0 := by
  apply Nat.eq_of_testBit_eq
  intro i
  rw [Nat.testBit_and, Nat.testBit_two_pow]
  have hp : 0 < 2 ^ n := by positivity
  by_cases hi : n = i
  · subst hi
    rw [Nat.testBit_eq_decide_div_mod_eq]
    have hlt : d / 2 ^ n < 2 := by
      rw [Nat.div_lt_iff_lt_mul hp, Nat.mul_comm, ← pow_succ]; exact hd
    split
    · rename_i h
      have : 1 ≤ d / 2 ^ n := (Nat.one_le_div_iff hp).mpr h
      rw [Nat.testBit_two_pow]; simp; omega
    · rename_i h
      have : d / 2 ^ n = 0 := Nat.div_eq_of_lt (by omega)
      simp [this]
  · simp only [hi, decide_false, Bool.and_false]
    split
    · rw [Nat.testBit_two_pow]; simp [hi]
    · simp

/-- the C test `(d & GMP_LIMB_HIGHBIT) != 0` -/
theorem highbit_test (d : Nat) (hd : d < B) : (d &&& HIGHBIT != 0) = decide (B / 2 ≤ d) := by
  rw [HIGHBIT_eq, and_two_pow' d 63 hd]
  have e : B / 2 = 2 ^ 63 := rfl
  rw [e]
  by_cases h : 2 ^ 63 ≤ d
  · simp only [h, if_true, decide_true]; decide
  · simp only [h, if_false, decide_false]; decide

/-- first step of the normalised paths: r = top - d if top ≥ d -/
theorem norm_first (top d : Nat) (htop : top < B) (h1 : B / 2 ≤ d) (h2 : d < B) :
    (if top ≥ d then (top + B - d) % B else top) = top % d ∧
    (top + B - (d &&& ((B - (if top ≥ d then 1 else 0)) % B))) % B = top % d ∧
    (if top ≥ d then 1 else 0) * d + top % d = top := by
  by_cases h : top ≥ d
  · have hm : top % d = top - d := by
      rw [Nat.mod_eq_sub_mod h]; exact Nat.mod_eq_of_lt (by simp only [B_eq] at *; omega)
    rw [hm]
    have e1 : (B - 1) % B = B - 1 := Nat.mod_eq_of_lt (by have := B_pos; omega)
    simp only [h, if_true, e1, and_mask' d h2]
    simp only [B_eq] at *; omega
  · have hm : top % d = top := Nat.mod_eq_of_lt (by omega)
    have e1 : (B - 0) % B = 0 := by simp
    simp only [h, if_false, e1, Nat.and_zero]
    simp only [B_eq] at *; omega

theorem mod1Norm_eq (top : Nat) (rest : List Nat) (d : Nat) (htop : top < B) (hrest : Limbs rest)
    (h1 : B / 2 ≤ d) (h2 : d < B) : mod1Norm top rest d = valMS top rest % d := by
  obtain ⟨e1, _, _⟩ := norm_first top d htop h1 h2
  have hd0 : 0 < d := by simp only [B_eq] at h1; omega
  have hr : top % d < d := Nat.mod_lt _ hd0
  unfold mod1Norm
  simp only [e1]
  rw [valMS_mod]
  cases rest with
  | nil => simp [valMS, Nat.mod_eq_of_lt hr]
  | cons x xs =>
    simp only [List.isEmpty_cons, Bool.false_eq_true, if_false]
    split
    · exact plainLoop_rem d _ _ hr hrest
    · rw [preinvLoop_eq d h1 h2 _ _ hr hrest]; exact plainLoop_rem d _ _ hr hrest

/-- remainder of a shifted problem -/
theorem shifted_rem (X d s : Nat) : ((X * 2 ^ s) % (d * 2 ^ s)) >>> s = X % d := by
  rw [Nat.mul_mod_mul_right, Nat.shiftRight_eq_div_pow, Nat.mul_div_cancel _ (by positivity)]

theorem mod1Unnorm_eq (top : Nat) (rest : List Nat) (d : Nat) (htop : top < B) (hrest : Limbs rest)
    (hd0 : 0 < d) (hd : d < B / 2) : mod1Unnorm top rest d = valMS top rest % d := by
  have hdB : d < B := by simp only [B_eq] at *; omega
  obtain ⟨r, ms, hrm, hr, hms, hval⟩ : ∃ r ms, (if top < d then (top, rest) else (0, top :: rest)) = (r, ms) ∧
      r < d ∧ Limbs ms ∧ valMS r ms = valMS top rest := by
    by_cases h : top < d
    · exact ⟨top, rest, by simp [h], h, hrest, rfl⟩
    · refine ⟨0, top :: rest, by simp [h], hd0, Limbs_cons.mpr ⟨htop, hrest⟩, ?_⟩
      rw [valMS_cons, Nat.zero_mul, Nat.zero_add]
  unfold mod1Unnorm
  rw [hrm, ← hval]
  simp only
  cases ms with
  | nil => simp [valMS, Nat.mod_eq_of_lt hr]
  | cons n1 ns =>
    simp only
    have ⟨hn1, hns⟩ := Limbs_cons.mp hms
    split
    · exact plainLoop_rem d _ _ hr hms
    · obtain ⟨hs, c1, c2⟩ := clz_spec d (by omega) hdB
      have hs1 : 1 ≤ count_leading_zeros d := by
        rcases Nat.eq_zero_or_pos (count_leading_zeros d) with h | h
        · rw [h] at c1; simp only [B_eq] at *; omega
        · exact h
      generalize count_leading_zeros d = s at *
      rw [Nat.shiftLeft_eq, Nat.mod_eq_of_lt c2, Nat.shiftLeft_eq]
      have hrs : r * 2 ^ s < d * 2 ^ s := Nat.mul_lt_mul_of_pos_right hr (by positivity)
      rw [Nat.mod_eq_of_lt (by omega)]
      have hor : r * 2 ^ s ||| n1 >>> (64 - s) = r * 2 ^ s + n1 / 2 ^ (64 - s) := by
        rw [Nat.shiftRight_eq_div_pow, ← Nat.shiftLeft_eq]
        exact (Nat.shiftLeft_add_eq_or_of_lt (limb_hi_lt n1 s hn1 (by omega)) _).symm
      rw [hor]
      have hr' : r * 2 ^ s + n1 / 2 ^ (64 - s) < d * 2 ^ s := by
        have := limb_hi_lt n1 s hn1 (by omega)
        have : (r + 1) * 2 ^ s ≤ d * 2 ^ s := Nat.mul_le_mul_right _ hr
        have : (r + 1) * 2 ^ s = r * 2 ^ s + 2 ^ s := by ring
        omega
      rw [unnormLoop_eq _ _ s hs1 hs ns _ _ hns, preinvLoop_eq _ c1 c2 _ _ hr' (shl_Limbs s (by omega) ns n1 hns)]
      rw [plainLoop_rem _ _ _ hr' (shl_Limbs s (by omega) ns n1 hns), shl_val s (by omega)]
      have : (r * 2 ^ s + n1 / 2 ^ (64 - s)) * 2 ^ (64 - s) + n1 % 2 ^ (64 - s) = r * B + n1 := by
        have h := Nat.div_add_mod n1 (2 ^ (64 - s))
        rw [B_split s (by omega)]
        generalize n1 / 2 ^ (64 - s) = a at *
        generalize n1 % 2 ^ (64 - s) = b at *
        generalize 2 ^ (64 - s) = T at *
        rw [← h]; ring
      rw [this, shifted_rem, valMS_cons]

theorem mod_1_eq (u : List Nat) (d : Nat) (hu : Limbs u) (hd0 : 0 < d) (hdB : d < B) :
    mod_1 u d = val u % d := by
  rw [val_eq_valMS]
  unfold mod_1
  have hl := Limbs_reverse hu
  cases h : u.reverse with
  | nil => simp [valMS]
  | cons top rest =>
    rw [h] at hl
    have ⟨htop, hrest⟩ := Limbs_cons.mp hl
    simp only
    rw [highbit_test d hdB, valMS_cons, Nat.zero_mul, Nat.zero_add]
    by_cases hn : B / 2 ≤ d
    · simp only [hn, decide_true, if_true]; exact mod1Norm_eq top rest d htop hrest hn hdB
    · simp only [hn, decide_false, Bool.false_eq_true, if_false]
      exact mod1Unnorm_eq top rest d htop hrest hd0 (by omega)

theorem preinv_mod_1_eq (u : List Nat) (d : Nat) (hu : Limbs u) (h1 : B / 2 ≤ d) (h2 : d < B) :
    preinv_mod_1 u d (invert_limb d) = val u % d := by
  rw [val_eq_valMS]
  unfold preinv_mod_1
  have hl := Limbs_reverse hu
  have hd0 : 0 < d := by simp only [B_eq] at h1; omega
  cases h : u.reverse with
  | nil => simp [valMS]
  | cons top rest =>
    rw [h] at hl
    have ⟨htop, hrest⟩ := Limbs_cons.mp hl
    obtain ⟨e1, _, _⟩ := norm_first top d htop h1 h2
    have hr : top % d < d := Nat.mod_lt _ hd0
    simp only [e1]
    rw [preinvLoop_eq d h1 h2 _ _ hr hrest, plainLoop_rem d _ _ hr hrest, valMS_cons, Nat.zero_mul, Nat.zero_add,
      ← valMS_mod]


/-! ### mpn_divrem_1 -/

/-- what a one-limb division routine working most-significant-first must deliver -/
def DivSpec (ms frac : List Nat) (d : Nat) (res : List Nat × Nat) : Prop :=
  valMS 0 (ms ++ frac) = valMS 0 res.1 * d + res.2 ∧ res.2 < d ∧ Limbs res.1 ∧
    res.1.length = ms.length + frac.length

theorem valMS_zero_cons (qs : List Nat) : valMS 0 (0 :: qs) = valMS 0 qs := by
  rw [valMS_cons, Nat.zero_mul]

theorem divrem1Norm_spec (ms : List Nat) (k : Nat) (d : Nat) (hms : Limbs ms) (h1 : B / 2 ≤ d) (h2 : d < B) :
    DivSpec ms (List.replicate k 0) d (divrem1Norm ms (List.replicate k 0) d) := by
  have hd0 : 0 < d := by simp only [B_eq] at h1; omega
  have hfr := Limbs_replicate_zero k
  generalize List.replicate k 0 = frac at *
  -- both loops are the plain loop
  have hloop : ∀ (qh : List Nat) (r : Nat) (ms' : List Nat), r < d → Limbs ms' →
      (if BELOW_THRESHOLD (ms'.length + frac.length) Gen.DIVREM_1_NORM_THRESHOLD then
        (qh ++ (plainLoop d (ms' ++ frac) r).1, (plainLoop d (ms' ++ frac) r).2)
      else (qh ++ (preinvLoop d (invert_limb d) (ms' ++ frac) r).1, (preinvLoop d (invert_limb d) (ms' ++ frac) r).2))
      = (qh ++ (plainLoop d (ms' ++ frac) r).1, (plainLoop d (ms' ++ frac) r).2) := by
    intro qh r ms' hr hl
    split
    · rfl
    · rw [preinvLoop_eq d h1 h2 _ _ hr (Limbs_append.mpr ⟨hl, hfr⟩)]
  unfold divrem1Norm DivSpec
  cases ms with
  | nil =>
    simp only
    have := hloop [] 0 [] hd0 Limbs_nil
    simp only [List.nil_append, List.length_nil] at this ⊢
    rw [this]
    obtain ⟨e, a, b, c⟩ := plainLoop_spec d frac 0 0 hd0 hfr
    simp only [Nat.zero_mul, Nat.zero_add] at e
    exact ⟨e, a, b, by rw [c]; omega⟩
  | cons top rest =>
    have ⟨htop, hrest⟩ := Limbs_cons.mp hms
    obtain ⟨_, e2, e3⟩ := norm_first top d htop h1 h2
    have hr : top % d < d := Nat.mod_lt _ hd0
    simp only [e2]
    have := hloop [if top ≥ d then 1 else 0] (top % d) rest hr hrest
    rw [this]
    obtain ⟨e, a, b, c⟩ := plainLoop_spec d (rest ++ frac) (top % d) (if top ≥ d then 1 else 0) hr
      (Limbs_append.mpr ⟨hrest, hfr⟩)
    rw [e3] at e
    simp only [List.cons_append, List.nil_append]
    refine ⟨?_, a, Limbs_cons.mpr ⟨?_, b⟩, ?_⟩
    · rw [valMS_cons, valMS_cons, Nat.zero_mul, Nat.zero_add, Nat.zero_add]; exact e
    · have := B_pos; split <;> omega
    · rw [List.length_cons, c, List.length_append, List.length_cons]; omega

theorem or_shift_sum (r n1 s : Nat) (hn1 : n1 < B) (hs : s ≤ 64) :
    r * 2 ^ s ||| n1 >>> (64 - s) = r * 2 ^ s + n1 / 2 ^ (64 - s) := by
  rw [Nat.shiftRight_eq_div_pow, ← Nat.shiftLeft_eq]
  exact (Nat.shiftLeft_add_eq_or_of_lt (limb_hi_lt n1 s hn1 hs) _).symm

theorem shifted_start_lt (r d n1 s : Nat) (hr : r < d) (hn1 : n1 < B) (hs : s ≤ 64) :
    r * 2 ^ s + n1 / 2 ^ (64 - s) < d * 2 ^ s := by
  have := limb_hi_lt n1 s hn1 hs
  have : (r + 1) * 2 ^ s ≤ d * 2 ^ s := Nat.mul_le_mul_right _ hr
  have : (r + 1) * 2 ^ s = r * 2 ^ s + 2 ^ s := by ring
  omega

theorem shifted_start_val (r n1 s : Nat) (hs : s ≤ 64) :
    (r * 2 ^ s + n1 / 2 ^ (64 - s)) * 2 ^ (64 - s) + n1 % 2 ^ (64 - s) = r * B + n1 := by
  have h := Nat.div_add_mod n1 (2 ^ (64 - s))
  rw [B_split s hs]
  generalize n1 / 2 ^ (64 - s) = a at *
  generalize n1 % 2 ^ (64 - s) = b at *
  generalize 2 ^ (64 - s) = T at *
  rw [← h]; ring

/-- the preinv branch of divrem_1's unnormalised path, after the skip step -/
theorem unnorm_preinv_spec (r : Nat) (ms : List Nat) (k d : Nat) (hr : r < d) (hms : Limbs ms)
    (hd0 : 0 < d) (hd : d < B / 2) :
    let s := count_leading_zeros d
    let d' := (d <<< s) % B
    let r' := (r <<< s) % B
    let dinv := invert_limb d'
    let p1 := unnormFeed d' dinv s ms r'
    let p2 := preinvLoop d' dinv (List.replicate k 0) p1.2
    valMS r (ms ++ List.replicate k 0) = valMS 0 (p1.1 ++ p2.1) * d + p2.2 >>> s ∧ p2.2 >>> s < d ∧
      Limbs (p1.1 ++ p2.1) ∧ (p1.1 ++ p2.1).length = ms.length + k := by
  intro s d' r' dinv p1 p2
  have hdB : d < B := by simp only [B_eq] at *; omega
  obtain ⟨hs, c1, c2⟩ := clz_spec d (by omega) hdB
  have hd' : d' = d * 2 ^ s := by show (d <<< s) % B = _; rw [Nat.shiftLeft_eq, Nat.mod_eq_of_lt c2]
  have hrs : r * 2 ^ s < d * 2 ^ s := Nat.mul_lt_mul_of_pos_right hr (by positivity)
  have hr' : r' = r * 2 ^ s := by
    show (r <<< s) % B = _; rw [Nat.shiftLeft_eq, Nat.mod_eq_of_lt (Nat.lt_trans hrs c2)]
  have hs1 : 1 ≤ s := by
    rcases Nat.eq_zero_or_pos s with h | h
    · have : d * 2 ^ s = d := by rw [h]; simp
      rw [this] at c1; omega
    · exact h
  have hfr := Limbs_replicate_zero k
  -- p1 is a plain loop over the shifted stream
  obtain ⟨str, r0, hp1, hr0, hstr, hlen, hv⟩ : ∃ (str : List Nat) (r0 : Nat), p1 = plainLoop d' str r0 ∧ r0 < d' ∧ Limbs str ∧
      str.length = ms.length ∧ ∀ A, valMS (A * d' + r0) str = (A * d * B ^ ms.length + valMS r ms) * 2 ^ s := by
    cases ms with
    | nil =>
      refine ⟨[], r', rfl, by rw [hr', hd']; exact hrs, Limbs_nil, rfl, ?_⟩
      intro A; rw [hd', hr']; simp only [valMS, List.length_nil, pow_zero]; ring
    | cons n1 rest =>
      have ⟨hn1, hrest⟩ := Limbs_cons.mp hms
      have hor : r' ||| n1 >>> (64 - s) = r * 2 ^ s + n1 / 2 ^ (64 - s) := by
        rw [hr']; exact or_shift_sum r n1 s hn1 (by omega)
      have hlt := shifted_start_lt r d n1 s hr hn1 (by omega)
      refine ⟨shl s n1 rest, r * 2 ^ s + n1 / 2 ^ (64 - s), ?_, by rw [hd']; exact hlt,
        shl_Limbs s (by omega) rest n1 hrest, by rw [shl_length]; rfl, ?_⟩
      · show unnormLoop d' dinv s n1 rest (r' ||| n1 >>> (64 - s)) = _
        rw [hor, unnormLoop_eq _ _ s hs1 hs rest _ _ hrest]
        show preinvLoop d' (invert_limb d') _ _ = _
        rw [hd'] at *
        exact preinvLoop_eq _ c1 c2 _ _ hlt (shl_Limbs s (by omega) rest n1 hrest)
      · intro A
        rw [shl_val s (by omega), hd']
        have : (A * (d * 2 ^ s) + (r * 2 ^ s + n1 / 2 ^ (64 - s))) * 2 ^ (64 - s) + n1 % 2 ^ (64 - s)
            = A * d * B + (r * B + n1) := by
          rw [← shifted_start_val r n1 s (by omega), B_split s (by omega)]; ring
        rw [this, valMS_eq, valMS_cons, valMS_eq (r * B + n1), List.length_cons, pow_succ]; ring
  -- p2 continues the same loop over the fraction limbs
  have hp2 : p2 = plainLoop d' (List.replicate k 0) (plainLoop d' str r0).2 := by
    show preinvLoop d' (invert_limb d') _ p1.2 = _
    rw [hp1]
    have := (plainLoop_spec d' str r0 0 hr0 hstr).2.1
    rw [hd'] at *
    exact preinvLoop_eq _ c1 c2 _ _ this hfr
  have happ := plainLoop_append d' str (List.replicate k 0) r0
  obtain ⟨e, a, b, c⟩ := plainLoop_spec d' (str ++ List.replicate k 0) r0 0 hr0 (Limbs_append.mpr ⟨hstr, hfr⟩)
  rw [happ] at e a b c
  rw [hp1, hp2]
  simp only at e a b c
  generalize (plainLoop d' str r0).1 = q1 at *
  generalize (plainLoop d' (List.replicate k 0) (plainLoop d' str r0).2).1 = q2 at *
  generalize (plainLoop d' (List.replicate k 0) (plainLoop d' str r0).2).2 = rf at *
  rw [valMS_append, hv 0, valMS_replicate_zero] at e
  have e' : (valMS r ms * B ^ k) * 2 ^ s = valMS 0 (q1 ++ q2) * (d * 2 ^ s) + rf := by
    rw [← hd', ← e]; ring
  rw [hd'] at a
  obtain ⟨u1, u2, _⟩ := unshift_div _ _ _ _ _ e' a
  rw [Nat.shiftRight_eq_div_pow, valMS_append, valMS_replicate_zero]
  refine ⟨u1, u2, b, ?_⟩
  rw [c, List.length_append, List.length_replicate, hlen]

theorem divrem1Unnorm_spec (ms : List Nat) (k : Nat) (d : Nat) (hms : Limbs ms) (hd0 : 0 < d) (hd : d < B / 2) :
    DivSpec ms (List.replicate k 0) d (divrem1Unnorm ms (List.replicate k 0) d) := by
  have hfr := Limbs_replicate_zero k
  -- the skip step
  obtain ⟨qh, r, ms', hsk, hqh, hr, hms', hval, hlen⟩ : ∃ qh r ms',
      divrem1Skip ms d = (qh, r, ms') ∧
      (qh = [] ∨ qh = [0]) ∧ r < d ∧ Limbs ms' ∧
      (∀ l, valMS 0 (ms ++ l) = valMS r (ms' ++ l)) ∧ qh.length + ms'.length = ms.length := by
    cases ms with
    | nil => exact ⟨[], 0, [], rfl, Or.inl rfl, hd0, Limbs_nil, fun _ => rfl, rfl⟩
    | cons n1 rest =>
      have ⟨hn1, hrest⟩ := Limbs_cons.mp hms
      by_cases h : n1 < d
      · refine ⟨[0], n1, rest, by simp [divrem1Skip, h], Or.inr rfl, h, hrest, ?_, by simp; omega⟩
        intro l; rw [List.cons_append, valMS_cons, Nat.zero_mul, Nat.zero_add]
      · exact ⟨[], 0, n1 :: rest, by simp [divrem1Skip, h], Or.inl rfl, hd0, hms, fun _ => rfl, by simp⟩
  have hq0 : ∀ qs, valMS 0 (qh ++ qs) = valMS 0 qs := by
    intro qs; rcases hqh with rfl | rfl
    · rfl
    · exact valMS_zero_cons qs
  have hqL : ∀ qs, Limbs qs → Limbs (qh ++ qs) := by
    intro qs hq; rcases hqh with rfl | rfl
    · exact hq
    · exact Limbs_cons.mpr ⟨B_pos, hq⟩
  unfold divrem1Unnorm DivSpec
  rw [hsk]
  simp only [List.length_replicate]
  split
  · -- n = 0
    rename_i hn
    have hm0 : ms' = [] := List.eq_nil_of_length_eq_zero (by omega)
    have hk0 : k = 0 := by omega
    subst hm0 hk0
    have := hval []
    simp only [List.append_nil, List.replicate_zero, valMS] at this ⊢
    refine ⟨?_, hr, ?_, by simpa using hlen⟩
    · rw [this]; rcases hqh with rfl | rfl <;> simp [valMS]
    · have := hqL [] Limbs_nil; simpa using this
  · split
    · -- plain loop
      obtain ⟨e, a, b, c⟩ := plainLoop_spec d (ms' ++ List.replicate k 0) r 0 hr (Limbs_append.mpr ⟨hms', hfr⟩)
      rw [Nat.zero_mul, Nat.zero_add] at e
      simp only
      refine ⟨by rw [hval, hq0]; exact e, a, hqL _ b, ?_⟩
      rw [List.length_append, c, List.length_append, List.length_replicate]; omega
    · -- preinv on the normalised divisor
      obtain ⟨e, a, b, c⟩ := unnorm_preinv_spec r ms' k d hr hms' hd0 hd
      simp only at e a b c ⊢
      refine ⟨?_, a, ?_, ?_⟩
      · rw [hval, List.append_assoc, hq0]; exact e
      · rw [List.append_assoc]; exact hqL _ b
      · rw [List.append_assoc, List.length_append, c]; omega

/-- result contract of mpn_divrem_1, least-significant-first -/
def Divrem1Spec (qxn : Nat) (u : List Nat) (d : Nat) (res : List Nat × Nat) : Prop :=
  val res.1 * d + res.2 = val u * B ^ qxn ∧ res.2 < d ∧ Limbs res.1 ∧ res.1.length = u.length + qxn

theorem DivSpec_to_val (qxn : Nat) (u : List Nat) (d : Nat) (res : List Nat × Nat)
    (h : DivSpec u.reverse (List.replicate qxn 0) d res) : Divrem1Spec qxn u d (res.1.reverse, res.2) := by
  obtain ⟨e, a, b, c⟩ := h
  refine ⟨?_, a, Limbs_reverse b, ?_⟩
  · simp only
    rw [val_eq_valMS, List.reverse_reverse, ← e, valMS_append, valMS_replicate_zero, ← val_eq_valMS]
  · simp only [List.length_reverse, c, List.length_replicate]

theorem divrem_euclidean_qr_1_spec (u : List Nat) (d : Nat) (hu : Limbs u) (hd0 : 0 < d) (hdB : d < B) :
    Divrem1Spec 0 u d (divrem_euclidean_qr_1 u d) := by
  rw [divrem_euclidean_qr_1_eq u d hu (by omega) hdB]
  obtain ⟨e, a, b, c⟩ := plainLoop_spec d u.reverse 0 0 hd0 (Limbs_reverse hu)
  rw [Nat.zero_mul, Nat.zero_add] at e
  have := DivSpec_to_val 0 u d (plainLoop d u.reverse 0) ⟨by simpa using e, a, b, by simpa using c⟩
  exact this

/-- mpn_divrem_1 on every path except the Hensel one (qxn = 0, small d, un ≥ DIVREM_EUCLID_HENSEL_THRESHOLD) -/
theorem divrem_1_spec_nohensel (qxn : Nat) (u : List Nat) (d : Nat) (hu : Limbs u) (hd0 : 0 < d) (hdB : d < B)
    (hnh : (decide (qxn = 0) && (decide (d ≤ HIGHBIT / 2 + 1) &&
      ABOVE_THRESHOLD u.length Gen.DIVREM_EUCLID_HENSEL_THRESHOLD)) = false) :
    Divrem1Spec qxn u d (divrem_1 qxn u d) := by
  unfold divrem_1
  simp only [hnh, Bool.false_eq_true, if_false]
  split
  · rename_i h0
    have hu0 : u = [] := List.eq_nil_of_length_eq_zero (by omega)
    have hq0 : qxn = 0 := by omega
    subst hu0 hq0
    exact ⟨by simp, hd0, Limbs_nil, rfl⟩
  · split
    · rename_i hq; subst hq
      exact divrem_euclidean_qr_1_spec u d hu hd0 hdB
    · rw [highbit_test d hdB]
      by_cases hn : B / 2 ≤ d
      · simp only [hn, decide_true, if_true]
        exact DivSpec_to_val qxn u d _ (divrem1Norm_spec u.reverse qxn d (Limbs_reverse hu) hn hdB)
      · simp only [hn, decide_false, Bool.false_eq_true, if_false]
        exact DivSpec_to_val qxn u d _ (divrem1Unnorm_spec u.reverse qxn d (Limbs_reverse hu) hd0 (by omega))

end Mpir.DivWord
