/- Helper lemmas for the word-level division models (Mpir/Model/DivWord.lean). -/
import MpirProofs.Lemmas.Base
import Mpir.Model.DivWord
import Mathlib.Tactic.Ring
import Mathlib.Tactic.Linarith
import Mathlib.Tactic.Push
import Mathlib.Tactic.Zify
import Mathlib.Tactic.NormNum
import Mathlib.Tactic.LinearCombination
import Mathlib.Data.Int.ModEq
import Mathlib.Data.Nat.ModEq
import Mathlib.Data.Nat.GCD.Basic
namespace Mpir.DivWord
open Mpir

/-! ### word primitives -/

theorem BB_eq : B * B = 340282366920938463463374607431768211456 := by unfold B; norm_num

theorem umul_ppmm_eq (u v : Nat) : umul_ppmm u v = (u * v / B, u * v % B) := rfl

/-- add_ssaaaa is addition modulo B². -/
theorem add_ssaaaa_eq (ah al bh bl : Nat) :
    add_ssaaaa ah al bh bl = (((ah * B + al + (bh * B + bl)) / B) % B, (ah * B + al + (bh * B + bl)) % B) := by
  simp only [add_ssaaaa, B_eq] at *
  refine Prod.ext ?_ ?_ <;> simp only <;> omega

/-- sub_ddmmss is subtraction modulo B². -/
theorem sub_ddmmss_eq (ah al bh bl : Nat) (hah : ah < B) (hal : al < B) (hbh : bh < B) (hbl : bl < B) :
    sub_ddmmss ah al bh bl =
      (((ah * B + al + B * B - (bh * B + bl)) / B) % B, (ah * B + al + B * B - (bh * B + bl)) % B) := by
  simp only [sub_ddmmss, boolToNat, BB_eq, decide_eq_true_eq]
  simp only [B_eq] at *
  refine Prod.ext ?_ ?_ <;> simp only <;> first | omega | (split <;> omega)

theorem and_mask (d : Nat) (hd : d < B) : (B - 1) &&& d = d := by
  rw [Nat.and_comm]
  have : B - 1 = 2 ^ 64 - 1 := rfl
  rw [this, Nat.and_two_pow_sub_one_eq_mod]; exact Nat.mod_eq_of_lt hd

theorem and_mask' (d : Nat) (hd : d < B) : d &&& (B - 1) = d := by
  rw [Nat.and_comm]; exact and_mask d hd

/-! ### invert_limb -/

/-- characterisation of the reciprocal: v = ⌊(B²-1)/d⌋ - B. -/
theorem invert_limb_eq (d : Nat) (h1 : B / 2 ≤ d) (h2 : d < B) :
    invert_limb d = (B * B - 1) / d - B := by
  have hd0 : 0 < d := by simp only [B_eq] at h1; omega
  unfold invert_limb udiv_qrnnd
  simp only
  have e : (B - 1 - d) * B + (B - 1) = (B * B - 1) - d * B := by
    have : d + 1 ≤ B := h2
    obtain ⟨k, hk⟩ := Nat.exists_eq_add_of_le this
    rw [hk]
    have : d + 1 + k - 1 - d = k := by omega
    rw [this]
    have : (d + 1 + k) * (d + 1 + k) - 1 - d * (d + 1 + k) = k * (d + 1 + k) + (d + k) := by
      have : (d + 1 + k) * (d + 1 + k) = d * (d + 1 + k) + (k * (d + 1 + k) + (d + k)) + 1 := by ring
      omega
    rw [this]; omega
  rw [e, Nat.sub_mul_div_of_le]
  · apply Nat.mod_eq_of_lt
    have : (B * B - 1) / d < 2 * B := by
      rw [Nat.div_lt_iff_lt_mul hd0]
      have : B * B ≤ 2 * B * d := by
        have : B ≤ 2 * d := by simp only [B_eq] at *; omega
        nlinarith
      have := B_pos
      omega
    omega
  · have : d * B ≤ (B - 1) * B := Nat.mul_le_mul_right _ (by omega)
    have hB := B_pos
    have : (B - 1) * B = B * B - B := by rw [Nat.sub_mul]; simp
    omega


theorem invert_limb_bounds (d : Nat) (h1 : B / 2 ≤ d) (h2 : d < B) :
    invert_limb d < B ∧ (B + invert_limb d) * d ≤ B * B - 1 ∧ B * B - 1 < (B + invert_limb d + 1) * d := by
  have hd0 : 0 < d := by simp only [B_eq] at h1; omega
  have hB := B_pos
  rw [invert_limb_eq d h1 h2]
  have hQ : B ≤ (B * B - 1) / d := by
    rw [Nat.le_div_iff_mul_le hd0]
    have : B * d ≤ B * (B - 1) := Nat.mul_le_mul_left _ (by omega)
    have : B * (B - 1) = B * B - B := by rw [Nat.mul_sub]; simp
    omega
  have hlt : (B * B - 1) / d < B + B := by
    rw [Nat.div_lt_iff_lt_mul hd0]
    have : B ≤ 2 * d := by simp only [B_eq] at *; omega
    have h4 : B * B ≤ (B + B) * d := by nlinarith
    exact Nat.lt_of_lt_of_le (Nat.sub_lt (Nat.mul_pos hB hB) Nat.one_pos) h4
  have hm1 := Nat.div_mul_le_self (B * B - 1) d
  have hm2 : B * B - 1 < ((B * B - 1) / d + 1) * d := by
    have := Nat.lt_mul_div_succ (B * B - 1) hd0
    rwa [Nat.mul_comm d] at this
  generalize (B * B - 1) / d = Q at *
  have e : B + (Q - B) = Q := by omega
  rw [e]
  exact ⟨by omega, hm1, hm2⟩

/-! ### udiv_qrnnd_preinv2 -/

/-- Core lemma behind udiv_qrnnd_preinv2 (Granlund–Montgomery Lemma 8.1), over ℤ with B abstract. -/
theorem preinv2_core (B d nh nl di k n1 q1 q0 : ℤ)
    (hB : 0 < B) (hd1 : B ≤ 2 * d) (hd2 : d < B)
    (hnh0 : 0 ≤ nh) (hnh : nh < d) (hnl0 : 0 ≤ nl) (hnl : nl < B)
    (hk1 : 1 ≤ k) (hk2 : k ≤ d) (hm : (B + di) * d = B * B - k)
    (hn1 : (n1 = 0 ∧ 2 * nl < B) ∨ (n1 = 1 ∧ B ≤ 2 * nl))
    (hq0 : 0 ≤ q0) (hq0' : q0 < B)
    (hX : di * (nh + n1) + (nl + n1 * (d - B)) + nh * B = q1 * B + q0) :
    q1 * d ≤ nh * B + nl ∧ nh * B + nl < (q1 + 2) * d := by
  -- key identity: (n - q1 d) * B = nl (B-d) + k (nh+n1) + q0 d - n1 (B-d)^2
  have key : (nh * B + nl - q1 * d) * B
      = nl * (B - d) + k * (nh + n1) + q0 * d - n1 * (B - d) * (B - d) := by
    have h1 : q1 * B * d = (di * (nh + n1) + (nl + n1 * (d - B)) + nh * B - q0) * d := by
      rw [hX]; ring
    have h2 : di * d = B * B - k - B * d := by linarith
    have : q1 * d * B = ((B * B - k - B * d) * (nh + n1) + (nl + n1 * (d - B)) * d + nh * B * d - q0 * d) := by
      rw [← h2]; linarith [h1]
    nlinarith [this]
  rcases hn1 with ⟨h0, hlo⟩ | ⟨h1, hhi⟩
  · subst h0
    simp only [add_zero, zero_mul, sub_zero] at key
    constructor
    · have : 0 ≤ (nh * B + nl - q1 * d) * B := by
        rw [key]; nlinarith [mul_nonneg hnl0 (by linarith : (0:ℤ) ≤ B - d), mul_nonneg (by linarith : (0:ℤ) ≤ k) hnh0, mul_nonneg hq0 (by linarith : (0:ℤ) ≤ d)]
      nlinarith
    · have : (nh * B + nl - q1 * d) * B < 2 * d * B := by
        rw [key]
        nlinarith [mul_nonneg hnl0 (by linarith : (0:ℤ) ≤ B - d), mul_le_mul hk2 (le_of_lt hnh) hnh0 (by linarith : (0:ℤ) ≤ d),
                   mul_lt_mul_of_pos_right hq0' (by linarith : (0:ℤ) < d), mul_nonneg (by linarith : (0:ℤ) ≤ 2*d - B) (by linarith : (0:ℤ) ≤ B - d),
                   mul_nonneg (by linarith : (0:ℤ) ≤ B - 2*nl) (by linarith : (0:ℤ) ≤ B - d)]
      nlinarith
  · subst h1
    simp only [one_mul] at key
    constructor
    · have : 0 ≤ (nh * B + nl - q1 * d) * B := by
        rw [key]
        nlinarith [mul_nonneg (by linarith : (0:ℤ) ≤ 2*nl - B) (by linarith : (0:ℤ) ≤ B - d), mul_nonneg (by linarith : (0:ℤ) ≤ 2*d - B) (by linarith : (0:ℤ) ≤ B - d),
                   mul_nonneg (by linarith : (0:ℤ) ≤ k) (by linarith : (0:ℤ) ≤ nh + 1), mul_nonneg hq0 (by linarith : (0:ℤ) ≤ d)]
      nlinarith
    · have : (nh * B + nl - q1 * d) * B < 2 * d * B := by
        rw [key]
        nlinarith [mul_nonneg (by linarith : (0:ℤ) ≤ B - 1 - nl) (by linarith : (0:ℤ) ≤ B - d), mul_le_mul hk2 (by linarith : nh + 1 ≤ d) (by linarith) (by linarith : (0:ℤ) ≤ d),
                   mul_lt_mul_of_pos_right hq0' (by linarith : (0:ℤ) < d)]
      nlinarith

theorem mask_cases (nl d : Nat) (hnl : nl < B) (hd : d < B) :
    ∃ n1, ((n1 = 0 ∧ 2 * nl < B) ∨ (n1 = 1 ∧ B ≤ 2 * nl)) ∧
      LIMB_HIGHBIT_TO_MASK nl = n1 * (B - 1) ∧ (LIMB_HIGHBIT_TO_MASK nl &&& d) = n1 * d := by
  unfold LIMB_HIGHBIT_TO_MASK HIGHBIT
  by_cases h : B / 2 ≤ nl
  · refine ⟨1, Or.inr ⟨rfl, ?_⟩, ?_, ?_⟩
    · simp only [B_eq] at *; omega
    · simp [h]
    · simp only [h, if_true, one_mul]; exact and_mask d hd
  · refine ⟨0, Or.inl ⟨rfl, ?_⟩, ?_, ?_⟩
    · simp only [B_eq] at *; omega
    · simp [h]
    · simp [h]

theorem udiv_qrnnd_preinv2_eq (nh nl d : Nat) (h1 : B / 2 ≤ d) (h2 : d < B) (hnh : nh < d) (hnl : nl < B) :
    udiv_qrnnd_preinv2 nh nl d (invert_limb d) = ((nh * B + nl) / d, (nh * B + nl) % d) := by
  obtain ⟨hv, hv1, hv2⟩ := invert_limb_bounds d h1 h2
  generalize invert_limb d = di at *
  obtain ⟨n1, hn1, hmask, hmaskd⟩ := mask_cases nl d hnl h2
  have hB := B_pos
  have hd0 : 0 < d := by omega
  -- the multiplier nh - nmask
  have hm : (nh + B - n1 * (B - 1)) % B = nh + n1 := by
    rcases hn1 with ⟨rfl, _⟩ | ⟨rfl, _⟩
    · simp only [zero_mul, Nat.sub_zero, Nat.add_zero]; rw [Nat.add_mod_right]; exact Nat.mod_eq_of_lt (by omega)
    · have : nh + B - 1 * (B - 1) = nh + 1 := by omega
      rw [this]; exact Nat.mod_eq_of_lt (by omega)
  -- nadj
  obtain ⟨nadj, hnadj, hnadj2, hnadjB⟩ : ∃ nadj, (nl + n1 * d) % B = nadj ∧ nadj + n1 * B = nl + n1 * d ∧ nadj < B := by
    refine ⟨_, rfl, ?_, Nat.mod_lt _ hB⟩
    rcases hn1 with ⟨rfl, _⟩ | ⟨rfl, _⟩
    · simp only [zero_mul, Nat.add_zero]; exact Nat.mod_eq_of_lt hnl
    · simp only [one_mul]
      have : nl + d = (nl + d - B) + B := by simp only [B_eq] at *; omega
      rw [this, Nat.add_mod_right, Nat.mod_eq_of_lt (by omega)]
  unfold udiv_qrnnd_preinv2
  simp only [hmaskd, hnadj]
  simp only [umul_ppmm_eq, add_ssaaaa_eq, hmask, hm, Nat.div_add_mod']
  have hXdm := Nat.div_add_mod (di * (nh + n1) + (nh * B + nadj)) B
  have hq0 := Nat.mod_lt (di * (nh + n1) + (nh * B + nadj)) hB
  generalize (di * (nh + n1) + (nh * B + nadj)) / B = q1L at *
  generalize (di * (nh + n1) + (nh * B + nadj)) % B = q0 at *
  -- the core estimate
  have hBB : 0 < B * B := Nat.mul_pos hB hB
  have core : q1L * d ≤ nh * B + nl ∧ nh * B + nl < (q1L + 2) * d := by
    have hk1 : (1 : ℤ) ≤ (B : ℤ) * B - ((B : ℤ) + di) * d := by
      have : (B + di) * d + 1 ≤ B * B := by omega
      have := (Int.ofNat_le.mpr this); push_cast at this; linarith
    have hk2 : (B : ℤ) * B - ((B : ℤ) + di) * d ≤ d := by
      have : B * B ≤ (B + di) * d + d := by
        have : (B + di + 1) * d = (B + di) * d + d := by ring
        omega
      have := (Int.ofNat_le.mpr this); push_cast at this; linarith
    have hn1' : ((n1 : ℤ) = 0 ∧ 2 * (nl : ℤ) < B) ∨ ((n1 : ℤ) = 1 ∧ (B : ℤ) ≤ 2 * nl) := by
      rcases hn1 with ⟨a, b⟩ | ⟨a, b⟩
      · left; exact ⟨by exact_mod_cast a, by exact_mod_cast b⟩
      · right; exact ⟨by exact_mod_cast a, by exact_mod_cast b⟩
    have hX : (di : ℤ) * (nh + n1) + (nl + n1 * ((d : ℤ) - B)) + nh * B = q1L * B + q0 := by
      have e1 := congrArg (Nat.cast : ℕ → ℤ) hXdm
      have e2 := congrArg (Nat.cast : ℕ → ℤ) hnadj2
      push_cast at e1 e2
      linarith
    have := preinv2_core (B : ℤ) d nh nl di ((B : ℤ) * B - ((B : ℤ) + di) * d) n1 q1L q0
      (by exact_mod_cast hB) (by have : B ≤ 2 * d := by simp only [B_eq] at *; omega
                                 exact_mod_cast this) (by exact_mod_cast h2)
      (by positivity) (by exact_mod_cast hnh) (by positivity) (by exact_mod_cast hnl) hk1 hk2 (by ring) hn1'
      (by positivity) (by exact_mod_cast hq0) hX
    exact ⟨by exact_mod_cast this.1, by exact_mod_cast this.2⟩
  obtain ⟨c1, c2⟩ := core
  have hnlt : nh * B + nl < d * B := by
    have : (nh + 1) * B ≤ d * B := Nat.mul_le_mul_right _ hnh
    have : (nh + 1) * B = nh * B + B := by ring
    omega
  have hq1B : q1L < B := by
    have : q1L * d < B * d := by rw [Nat.mul_comm B d]; omega
    exact Nat.lt_of_mul_lt_mul_right this
  rw [Nat.mod_eq_of_lt hq1B]
  have hY : (B - 1 - q1L) * d + q1L * d + d = B * d := by
    have : (B - 1 - q1L) * d + q1L * d + d = ((B - 1 - q1L) + q1L + 1) * d := by ring
    rw [this]; congr 1; omega
  have hc2 : (q1L + 2) * d = q1L * d + 2 * d := by ring
  rw [hc2] at c2
  have hdm := Nat.div_add_mod (nh * B + nl) d
  have hml := Nat.mod_lt (nh * B + nl) hd0
  by_cases hc : nh * B + nl < q1L * d + d
  · have hdiv : (nh * B + nl) / d = q1L := Nat.div_eq_of_lt_le c1 (by rw [Nat.add_mul, one_mul]; exact hc)
    rw [hdiv] at hdm ⊢
    rw [Nat.mul_comm d q1L] at hdm
    generalize (nh * B + nl) % d = r at *
    generalize (B - 1 - q1L) * d = Y at *
    generalize q1L * d = P at *
    have hX1 : ((Y + (nh * B + nl)) / B % B + B - d) % B = B - 1 := by simp only [B_eq] at *; omega
    rw [hX1, and_mask' d h2]
    refine Prod.ext ?_ ?_ <;> simp only <;> (simp only [B_eq] at *; omega)
  · have hdiv : (nh * B + nl) / d = q1L + 1 :=
      Nat.div_eq_of_lt_le (by rw [Nat.add_mul, one_mul]; omega) (by rw [Nat.add_mul, Nat.add_mul, one_mul]; omega)
    have hq1B' : q1L + 1 < B := by
      have : (q1L + 1) * d < B * d := by rw [Nat.mul_comm B d, Nat.add_mul, one_mul]; omega
      exact Nat.lt_of_mul_lt_mul_right this
    rw [hdiv] at hdm ⊢
    rw [Nat.mul_add, Nat.mul_one, Nat.mul_comm d q1L] at hdm
    generalize (nh * B + nl) % d = r at *
    generalize (B - 1 - q1L) * d = Y at *
    generalize q1L * d = P at *
    have hX1 : ((Y + (nh * B + nl)) / B % B + B - d) % B = 0 := by simp only [B_eq] at *; omega
    rw [hX1, Nat.and_zero]
    refine Prod.ext ?_ ?_ <;> simp only <;> (simp only [B_eq] at *; omega)


/-! ### most-significant-first values -/

/-- value of a most-significant-first limb list with accumulator (Horner) -/
def valMS (acc : Nat) : List Nat → Nat
  | [] => acc
  | x :: xs => valMS (acc * B + x) xs

theorem valMS_append (a : Nat) (l1 l2 : List Nat) : valMS a (l1 ++ l2) = valMS (valMS a l1) l2 := by
  induction l1 generalizing a with
  | nil => rfl
  | cons x xs ih => simp only [List.cons_append, valMS, ih]

theorem valMS_eq (a : Nat) (l : List Nat) : valMS a l = a * B ^ l.length + val l.reverse := by
  induction l generalizing a with
  | nil => simp [valMS]
  | cons x xs ih =>
    simp only [valMS, ih, List.reverse_cons, val_append, List.length_reverse, List.length_cons, val_cons, val_nil, pow_succ]
    ring

theorem val_eq_valMS (l : List Nat) : val l = valMS 0 l.reverse := by
  rw [valMS_eq]; simp

theorem valMS_replicate_zero (a k : Nat) : valMS a (List.replicate k 0) = a * B ^ k := by
  induction k generalizing a with
  | zero => simp [valMS]
  | succ k ih => simp only [List.replicate_succ, valMS, ih, pow_succ]; ring

theorem Limbs_reverse {l : List Nat} (h : Limbs l) : Limbs l.reverse := by
  intro x hx; exact h x (List.mem_reverse.mp hx)

theorem Limbs_replicate_zero (k : Nat) : Limbs (List.replicate k 0) := by
  intro x hx; rw [List.mem_replicate] at hx; rw [hx.2]; exact B_pos

/-! ### the division step and the plain loop -/

theorem udiv_qrnnd_lt (r n0 d : Nat) (hr : r < d) (hn0 : n0 < B) : (r * B + n0) / d < B := by
  rw [Nat.div_lt_iff_lt_mul (by omega)]
  have : (r + 1) * B ≤ d * B := Nat.mul_le_mul_right _ hr
  have : (r + 1) * B = r * B + B := by ring
  rw [Nat.mul_comm B d]; omega

theorem udiv_qrnnd_fst (r n0 d : Nat) (hr : r < d) (hn0 : n0 < B) :
    (udiv_qrnnd r n0 d).1 = (r * B + n0) / d := by
  show ((r * B + n0) / d) % B = _
  exact Nat.mod_eq_of_lt (udiv_qrnnd_lt r n0 d hr hn0)

theorem udiv_qrnnd_snd (r n0 d : Nat) : (udiv_qrnnd r n0 d).2 = (r * B + n0) % d := rfl

theorem udiv_qrnnd_spec1 (r n0 d : Nat) (hr : r < d) (hn0 : n0 < B) :
    (udiv_qrnnd r n0 d).1 * d + (udiv_qrnnd r n0 d).2 = r * B + n0 := by
  rw [udiv_qrnnd_fst r n0 d hr hn0, udiv_qrnnd_snd, Nat.mul_comm]; exact Nat.div_add_mod _ _

theorem udiv_qrnnd_spec2 (r n0 d : Nat) (hr : r < d) : (udiv_qrnnd r n0 d).2 < d := by
  rw [udiv_qrnnd_snd]; exact Nat.mod_lt _ (by omega)

theorem udiv_qrnnd_spec3 (r n0 d : Nat) (hr : r < d) (hn0 : n0 < B) : (udiv_qrnnd r n0 d).1 < B := by
  rw [udiv_qrnnd_fst r n0 d hr hn0]; exact udiv_qrnnd_lt r n0 d hr hn0

theorem udiv_qrnnd_eq (r n0 d : Nat) (hr : r < d) (hn0 : n0 < B) :
    udiv_qrnnd r n0 d = ((r * B + n0) / d, (r * B + n0) % d) :=
  Prod.ext (udiv_qrnnd_fst r n0 d hr hn0) (udiv_qrnnd_snd r n0 d)

theorem udiv_qrnnd_spec (r n0 d : Nat) (hr : r < d) (hn0 : n0 < B) :
    (udiv_qrnnd r n0 d).1 * d + (udiv_qrnnd r n0 d).2 = r * B + n0 ∧ (udiv_qrnnd r n0 d).2 < d ∧
    (udiv_qrnnd r n0 d).1 < B :=
  ⟨udiv_qrnnd_spec1 r n0 d hr hn0, udiv_qrnnd_spec2 r n0 d hr, udiv_qrnnd_spec3 r n0 d hr hn0⟩


/-! ### division loops -/

theorem plainLoop_cons (d n0 : Nat) (ns : List Nat) (r : Nat) :
    plainLoop d (n0 :: ns) r = ((udiv_qrnnd r n0 d).1 :: (plainLoop d ns (udiv_qrnnd r n0 d).2).1,
      (plainLoop d ns (udiv_qrnnd r n0 d).2).2) := rfl
theorem valMS_cons (a x : Nat) (xs : List Nat) : valMS a (x :: xs) = valMS (a * B + x) xs := rfl

/-- the plain loop: Horner invariant `N = Q·d + r`. -/
theorem plainLoop_spec (d : Nat) (ms : List Nat) : ∀ (r Q : Nat), r < d → Limbs ms →
    valMS (Q * d + r) ms = valMS Q (plainLoop d ms r).1 * d + (plainLoop d ms r).2 ∧
    (plainLoop d ms r).2 < d ∧ Limbs (plainLoop d ms r).1 ∧ (plainLoop d ms r).1.length = ms.length := by
  induction ms with
  | nil => intro r Q hr _; exact ⟨rfl, hr, Limbs_nil, rfl⟩
  | cons n0 ns ih =>
    intro r Q hr hl
    have ⟨h0, hns⟩ := Limbs_cons.mp hl
    obtain ⟨e, hr', hq⟩ := udiv_qrnnd_spec r n0 d hr h0
    have ih := ih (udiv_qrnnd r n0 d).2 (Q * B + (udiv_qrnnd r n0 d).1) hr' hns
    rw [plainLoop_cons, valMS_cons]
    generalize (udiv_qrnnd r n0 d).1 = q at *
    generalize (udiv_qrnnd r n0 d).2 = r' at *
    obtain ⟨i1, i2, i3, i4⟩ := ih
    have : (Q * d + r) * B + n0 = (Q * B + q) * d + r' := by
      have : (Q * d + r) * B + n0 = Q * B * d + (r * B + n0) := by ring
      rw [this, ← e]; ring
    rw [this, i1]
    exact ⟨by rw [valMS_cons], i2, Limbs_cons.mpr ⟨hq, i3⟩, by rw [List.length_cons, List.length_cons, i4]⟩

theorem udiv_qrnnd_preinv_eq (r n0 d : Nat) (h1 : B / 2 ≤ d) (h2 : d < B) (hr : r < d) (hn0 : n0 < B) :
    udiv_qrnnd_preinv r n0 d (invert_limb d) = udiv_qrnnd r n0 d := by
  rw [udiv_qrnnd_eq r n0 d hr hn0]; exact udiv_qrnnd_preinv2_eq r n0 d h1 h2 hr hn0

theorem preinvLoop_cons (d di n0 : Nat) (ns : List Nat) (r : Nat) :
    preinvLoop d di (n0 :: ns) r = ((udiv_qrnnd_preinv r n0 d di).1 :: (preinvLoop d di ns (udiv_qrnnd_preinv r n0 d di).2).1,
      (preinvLoop d di ns (udiv_qrnnd_preinv r n0 d di).2).2) := rfl

theorem preinvLoop_eq (d : Nat) (h1 : B / 2 ≤ d) (h2 : d < B) (ms : List Nat) : ∀ (r : Nat), r < d → Limbs ms →
    preinvLoop d (invert_limb d) ms r = plainLoop d ms r := by
  induction ms with
  | nil => intro r _ _; rfl
  | cons n0 ns ih =>
    intro r hr hl
    have ⟨h0, hns⟩ := Limbs_cons.mp hl
    obtain ⟨_, hr', _⟩ := udiv_qrnnd_spec r n0 d hr h0
    rw [preinvLoop_cons, plainLoop_cons, udiv_qrnnd_preinv_eq r n0 d h1 h2 hr h0, ih _ hr' hns]


/-! ### shifts and count_leading_zeros -/

theorem B_eq_pow : B = 2 ^ 64 := rfl

theorem B_split (s : Nat) (hs : s ≤ 64) : B = 2 ^ (64 - s) * 2 ^ s := by
  rw [← pow_add, B_eq_pow]; congr 1; omega

theorem clz_spec (d : Nat) (hd0 : d ≠ 0) (hdB : d < B) :
    count_leading_zeros d ≤ 63 ∧ B / 2 ≤ d * 2 ^ count_leading_zeros d ∧ d * 2 ^ count_leading_zeros d < B := by
  unfold count_leading_zeros
  have h1 := Nat.log2_self_le hd0
  have h2 := @Nat.lt_log2_self d
  have h3 : d.log2 < 64 := (Nat.log2_lt hd0).mpr hdB
  generalize d.log2 = k at *
  refine ⟨by omega, ?_, ?_⟩
  · have : B / 2 = 2 ^ k * 2 ^ (63 - k) := by
      rw [← pow_add]; have : k + (63 - k) = 63 := by omega
      rw [this]; rfl
    rw [this]; exact Nat.mul_le_mul_right _ h1
  · have : B = 2 ^ (k + 1) * 2 ^ (63 - k) := by
      rw [← pow_add]; have : k + 1 + (63 - k) = 64 := by omega
      rw [this]; rfl
    rw [this]; exact Nat.mul_lt_mul_of_pos_right h2 (by positivity)

/-- splitting a limb at bit 64-s: high part (as computed by `(l >> (63-s)) >> 1`), low part shifted up. -/
theorem limb_split (l s : Nat) (hs : s ≤ 63) :
    (l >>> (63 - s)) >>> 1 = l / 2 ^ (64 - s) ∧ (l <<< s) % B = (l % 2 ^ (64 - s)) * 2 ^ s := by
  constructor
  · rw [Nat.shiftRight_eq_div_pow, Nat.shiftRight_eq_div_pow, Nat.div_div_eq_div_mul, ← pow_succ]
    congr 2; omega
  · rw [Nat.shiftLeft_eq, B_split s (by omega), Nat.mul_mod_mul_right]

theorem limb_split_sum (l s : Nat) (hs : s ≤ 64) :
    (l / 2 ^ (64 - s)) * B + (l % 2 ^ (64 - s)) * 2 ^ s = l * 2 ^ s := by
  have h := Nat.div_add_mod l (2 ^ (64 - s))
  rw [B_split s hs]
  generalize l / 2 ^ (64 - s) = a at *
  generalize l % 2 ^ (64 - s) = b at *
  generalize 2 ^ (64 - s) = T at *
  rw [← h]; ring

theorem limb_hi_lt (l s : Nat) (hl : l < B) (hs : s ≤ 64) : l / 2 ^ (64 - s) < 2 ^ s := by
  rw [Nat.div_lt_iff_lt_mul (by positivity), Nat.mul_comm, ← B_split s hs]; exact hl

/-- `(a << s) mod B | (b >> (64-s))` is a sum -/
theorem shl_or (a b s : Nat) (hb : b < B) (hs1 : 1 ≤ s) (hs : s ≤ 63) :
    ((a <<< s) % B) ||| (b >>> (64 - s)) = (a % 2 ^ (64 - s)) * 2 ^ s + b / 2 ^ (64 - s) := by
  rw [(limb_split a s hs).2, Nat.shiftRight_eq_div_pow, ← Nat.shiftLeft_eq]
  exact (Nat.shiftLeft_add_eq_or_of_lt (limb_hi_lt b s hb (by omega)) _).symm

/-- cancelling the normalisation shift from a division identity -/
theorem unshift_div (X Q d rf s : Nat) (h : X * 2 ^ s = Q * (d * 2 ^ s) + rf) (hr : rf < d * 2 ^ s) :
    X = Q * d + rf / 2 ^ s ∧ rf / 2 ^ s < d ∧ rf / 2 ^ s * 2 ^ s = rf := by
  have hp : 0 < 2 ^ s := by positivity
  have hdvd : 2 ^ s ∣ rf := by
    have h1 : 2 ^ s ∣ X * 2 ^ s := Dvd.intro_left _ rfl
    have h2 : 2 ^ s ∣ Q * (d * 2 ^ s) := ⟨Q * d, by ring⟩
    rw [h] at h1
    exact (Nat.dvd_add_right h2).mp h1
  obtain ⟨k, rfl⟩ := hdvd
  rw [Nat.mul_div_cancel_left _ hp]
  refine ⟨?_, ?_, by ring⟩
  · have : X * 2 ^ s = (Q * d + k) * 2 ^ s := by rw [h]; ring
    exact Nat.eq_of_mul_eq_mul_right hp this
  · have : 2 ^ s * k < 2 ^ s * d := by rw [Nat.mul_comm (2 ^ s) d]; exact hr
    exact Nat.lt_of_mul_lt_mul_left this


/-! ### mpn_divrem_euclidean_qr_1 -/

theorem euclidLoop_cons (d i s l : Nat) (ls : List Nat) (r : Nat) :
    euclidLoop d i s (l :: ls) r =
      ((udiv_qrnnd_preinv ((((l >>> (63 - s)) >>> 1) + r) % B) ((l <<< s) % B) d i).1 ::
        (euclidLoop d i s ls (udiv_qrnnd_preinv ((((l >>> (63 - s)) >>> 1) + r) % B) ((l <<< s) % B) d i).2).1,
       (euclidLoop d i s ls (udiv_qrnnd_preinv ((((l >>> (63 - s)) >>> 1) + r) % B) ((l <<< s) % B) d i).2).2) := rfl

/-- one step of the on-the-fly-shift loop equals one plain division step of the unshifted problem -/
theorem euclid_step (d0 s l r0 : Nat) (hs : s ≤ 63) (h1 : B / 2 ≤ d0 * 2 ^ s) (h2 : d0 * 2 ^ s < B)
    (hr : r0 < d0) (hl : l < B) :
    udiv_qrnnd_preinv ((((l >>> (63 - s)) >>> 1) + r0 * 2 ^ s) % B) ((l <<< s) % B) (d0 * 2 ^ s) (invert_limb (d0 * 2 ^ s))
      = ((udiv_qrnnd r0 l d0).1, (udiv_qrnnd r0 l d0).2 * 2 ^ s) := by
  obtain ⟨e1, e2⟩ := limb_split l s hs
  have hh := limb_hi_lt l s hl (by omega)
  have hsum := limb_split_sum l s (by omega)
  rw [e1, e2]
  have hp : 0 < 2 ^ s := by positivity
  have hlt : l / 2 ^ (64 - s) + r0 * 2 ^ s < d0 * 2 ^ s := by
    have : (r0 + 1) * 2 ^ s ≤ d0 * 2 ^ s := Nat.mul_le_mul_right _ hr
    have : (r0 + 1) * 2 ^ s = r0 * 2 ^ s + 2 ^ s := by ring
    omega
  rw [Nat.mod_eq_of_lt (by omega)]
  have hlo : l % 2 ^ (64 - s) * 2 ^ s < B := by
    rw [B_split s (by omega)]
    exact Nat.mul_lt_mul_of_pos_right (Nat.mod_lt _ (by positivity)) hp
  rw [udiv_qrnnd_preinv_eq _ _ _ h1 h2 hlt hlo, udiv_qrnnd_eq _ _ _ hlt hlo, udiv_qrnnd_eq _ _ _ hr hl]
  have : (l / 2 ^ (64 - s) + r0 * 2 ^ s) * B + l % 2 ^ (64 - s) * 2 ^ s = (r0 * B + l) * 2 ^ s := by
    have : (r0 * B + l) * 2 ^ s = r0 * 2 ^ s * B + l * 2 ^ s := by ring
    rw [this, ← hsum]; ring
  rw [this, Nat.mul_div_mul_right _ _ hp, Nat.mul_mod_mul_right]

theorem euclidLoop_eq (d0 s : Nat) (hs : s ≤ 63) (h1 : B / 2 ≤ d0 * 2 ^ s) (h2 : d0 * 2 ^ s < B) (ls : List Nat) :
    ∀ r0, r0 < d0 → Limbs ls →
    euclidLoop (d0 * 2 ^ s) (invert_limb (d0 * 2 ^ s)) s ls (r0 * 2 ^ s) =
      ((plainLoop d0 ls r0).1, (plainLoop d0 ls r0).2 * 2 ^ s) := by
  induction ls with
  | nil => intro r0 _ _; rfl
  | cons l ls ih =>
    intro r0 hr hl
    have ⟨h0, hls⟩ := Limbs_cons.mp hl
    rw [euclidLoop_cons, euclid_step d0 s l r0 hs h1 h2 hr h0, plainLoop_cons]
    simp only
    rw [ih _ (udiv_qrnnd_spec2 r0 l d0 hr) hls]

/-- mpn_divrem_euclidean_qr_1 is the plain schoolbook loop -/
theorem divrem_euclidean_qr_1_eq (x : List Nat) (d : Nat) (hx : Limbs x) (hd0 : d ≠ 0) (hdB : d < B) :
    divrem_euclidean_qr_1 x d = ((plainLoop d x.reverse 0).1.reverse, (plainLoop d x.reverse 0).2) := by
  obtain ⟨hs, h1, h2⟩ := clz_spec d hd0 hdB
  unfold divrem_euclidean_qr_1
  simp only
  rw [Nat.shiftLeft_eq, Nat.mod_eq_of_lt h2]
  have := euclidLoop_eq d _ hs h1 h2 x.reverse 0 (by omega) (Limbs_reverse hx)
  rw [Nat.zero_mul] at this
  rw [this]
  simp only
  rw [Nat.shiftRight_eq_div_pow, Nat.mul_div_cancel _ (by positivity)]


/-! ### the shifted limb stream of the unnormalised loops -/

/-- limbs fed by the unnormalised loops: (n1<<s)|(n0>>(64-s)), ..., last = n1<<s -/
def shl (s : Nat) : Nat → List Nat → List Nat
  | n1, [] => [(n1 % 2 ^ (64 - s)) * 2 ^ s]
  | n1, n0 :: ns => ((n1 % 2 ^ (64 - s)) * 2 ^ s + n0 / 2 ^ (64 - s)) :: shl s n0 ns

theorem unnormLoop_nil (d di s n1 r : Nat) :
    unnormLoop d di s n1 [] r =
      ([(udiv_qrnnd_preinv r ((n1 <<< s) % B) d di).1], (udiv_qrnnd_preinv r ((n1 <<< s) % B) d di).2) := rfl

theorem unnormLoop_cons (d di s n1 n0 : Nat) (ns : List Nat) (r : Nat) :
    unnormLoop d di s n1 (n0 :: ns) r =
      ((udiv_qrnnd_preinv r (((n1 <<< s) % B) ||| (n0 >>> (64 - s))) d di).1 ::
        (unnormLoop d di s n0 ns (udiv_qrnnd_preinv r (((n1 <<< s) % B) ||| (n0 >>> (64 - s))) d di).2).1,
       (unnormLoop d di s n0 ns (udiv_qrnnd_preinv r (((n1 <<< s) % B) ||| (n0 >>> (64 - s))) d di).2).2) := rfl

theorem unnormLoop_eq (d di s : Nat) (hs1 : 1 ≤ s) (hs : s ≤ 63) (rest : List Nat) :
    ∀ n1 r, Limbs rest → unnormLoop d di s n1 rest r = preinvLoop d di (shl s n1 rest) r := by
  induction rest with
  | nil =>
    intro n1 r _
    rw [unnormLoop_nil, (limb_split n1 s hs).2]; rfl
  | cons n0 ns ih =>
    intro n1 r hl
    have ⟨h0, hns⟩ := Limbs_cons.mp hl
    rw [unnormLoop_cons, shl_or n1 n0 s h0 hs1 hs, ih _ _ hns]; rfl

theorem shl_val (s : Nat) (hs : s ≤ 64) (rest : List Nat) : ∀ n1 A,
    valMS A (shl s n1 rest) = valMS (A * 2 ^ (64 - s) + n1 % 2 ^ (64 - s)) rest * 2 ^ s := by
  induction rest with
  | nil =>
    intro n1 A
    show A * B + n1 % 2 ^ (64 - s) * 2 ^ s = (A * 2 ^ (64 - s) + n1 % 2 ^ (64 - s)) * 2 ^ s
    rw [B_split s hs]; ring
  | cons n0 ns ih =>
    intro n1 A
    show valMS (A * B + (n1 % 2 ^ (64 - s) * 2 ^ s + n0 / 2 ^ (64 - s))) (shl s n0 ns) =
      valMS ((A * 2 ^ (64 - s) + n1 % 2 ^ (64 - s)) * B + n0) ns * 2 ^ s
    rw [ih]
    congr 2
    have h := Nat.div_add_mod n0 (2 ^ (64 - s))
    have hB := B_split s hs
    generalize n0 / 2 ^ (64 - s) = a at *
    generalize n0 % 2 ^ (64 - s) = b at *
    generalize n1 % 2 ^ (64 - s) = c at *
    generalize 2 ^ (64 - s) = T at *
    rw [← h, hB]; ring

theorem shl_Limbs (s : Nat) (hs : s ≤ 64) (rest : List Nat) : ∀ n1, Limbs rest → Limbs (shl s n1 rest) := by
  have hp : 0 < 2 ^ s := by positivity
  have hT : 0 < 2 ^ (64 - s) := by positivity
  induction rest with
  | nil =>
    intro n1 _
    refine Limbs_cons.mpr ⟨?_, Limbs_nil⟩
    rw [B_split s hs]; exact Nat.mul_lt_mul_of_pos_right (Nat.mod_lt _ hT) hp
  | cons n0 ns ih =>
    intro n1 hl
    have ⟨h0, hns⟩ := Limbs_cons.mp hl
    refine Limbs_cons.mpr ⟨?_, ih _ hns⟩
    have h1 := limb_hi_lt n0 s h0 hs
    have h2 := Nat.mod_lt n1 hT
    have hB := B_split s hs
    generalize n0 / 2 ^ (64 - s) = a at *
    generalize n1 % 2 ^ (64 - s) = c at *
    generalize 2 ^ (64 - s) = T at *
    generalize 2 ^ s = P at *
    rw [hB]
    have : (c + 1) * P ≤ T * P := Nat.mul_le_mul_right _ h2
    have : (c + 1) * P = c * P + P := by ring
    omega

theorem shl_length (s : Nat) (rest : List Nat) : ∀ n1, (shl s n1 rest).length = rest.length + 1 := by
  induction rest with
  | nil => intro _; rfl
  | cons n0 ns ih => intro n1; show (shl s n0 ns).length + 1 = _; rw [ih]; rfl

/-! ### plain loop: consequences -/

theorem plainLoop_append (d : Nat) (a b : List Nat) : ∀ r,
    plainLoop d (a ++ b) r =
      ((plainLoop d a r).1 ++ (plainLoop d b (plainLoop d a r).2).1, (plainLoop d b (plainLoop d a r).2).2) := by
  induction a with
  | nil => intro r; rfl
  | cons x xs ih =>
    intro r
    rw [List.cons_append, plainLoop_cons, plainLoop_cons, ih]; rfl

theorem valMS_mod (d : Nat) (l : List Nat) : ∀ a, valMS a l % d = valMS (a % d) l % d := by
  induction l with
  | nil => intro a; simp [valMS]
  | cons x xs ih =>
    intro a
    have key : (a * B + x) % d = ((a % d) * B + x) % d := by
      conv_lhs => rw [Nat.add_mod, Nat.mul_mod]
      conv_rhs => rw [Nat.add_mod, Nat.mul_mod, Nat.mod_mod]
    rw [valMS_cons, valMS_cons, ih, ih ((a % d) * B + x), key]

theorem plainLoop_rem (d : Nat) (ms : List Nat) (r : Nat) (hr : r < d) (hl : Limbs ms) :
    (plainLoop d ms r).2 = valMS r ms % d := by
  obtain ⟨e, h2, _, _⟩ := plainLoop_spec d ms r 0 hr hl
  rw [Nat.zero_mul, Nat.zero_add] at e
  rw [e, Nat.mul_add_mod_self_right, Nat.mod_eq_of_lt h2]


/-! ### mpn_mod_1, mpn_preinv_mod_1 -/

theorem HIGHBIT_eq : HIGHBIT = 2 ^ 63 := rfl

theorem and_two_pow' (d n : Nat) (hd : d < 2 ^ (n + 1)) : d &&& 2 ^ n = if 2 ^ n ≤ d then 2 ^ n else 0 := by
  apply Nat.eq_of_testBit_eq
  intro i
  rw [Nat.testBit_and, Nat.testBit_two_pow]
  have hp : 0 < 2 ^ n := by positivity
  by_cases hi : n = i
  · subst hi
    rw [Nat.testBit_eq_decide_div_mod_eq]
    have hlt : d / 2 ^ n < 2 := by
      rw [Nat.div_lt_iff_lt_mul hp, Nat.mul_comm, ← pow_succ]; exact hd
    split
    · rename_i h
      have : 1 ≤ d / 2 ^ n := (Nat.one_le_div_iff hp).mpr h
      rw [Nat.testBit_two_pow]; simp; omega
    · rename_i h
      have : d / 2 ^ n = 0 := Nat.div_eq_of_lt (by omega)
      simp [this]
  · simp only [hi, decide_false, Bool.and_false]
    split
    · rw [Nat.testBit_two_pow]; simp [hi]
    · simp

/-- the C test `(d & GMP_LIMB_HIGHBIT) != 0` -/
theorem highbit_test (d : Nat) (hd : d < B) : (d &&& HIGHBIT != 0) = decide (B / 2 ≤ d) := by
  rw [HIGHBIT_eq, and_two_pow' d 63 hd]
  have e : B / 2 = 2 ^ 63 := rfl
  rw [e]
  by_cases h : 2 ^ 63 ≤ d
  · simp only [h, if_true, decide_true]; decide
  · simp only [h, if_false, decide_false]; decide

/-- first step of the normalised paths: r = top - d if top ≥ d -/
theorem norm_first (top d : Nat) (htop : top < B) (h1 : B / 2 ≤ d) (h2 : d < B) :
    (if top ≥ d then (top + B - d) % B else top) = top % d ∧
    (top + B - (d &&& ((B - (if top ≥ d then 1 else 0)) % B))) % B = top % d ∧
    (if top ≥ d then 1 else 0) * d + top % d = top := by
  by_cases h : top ≥ d
  · have hm : top % d = top - d := by
      rw [Nat.mod_eq_sub_mod h]; exact Nat.mod_eq_of_lt (by simp only [B_eq] at *; omega)
    rw [hm]
    have e1 : (B - 1) % B = B - 1 := Nat.mod_eq_of_lt (by have := B_pos; omega)
    simp only [h, if_true, e1, and_mask' d h2]
    simp only [B_eq] at *; omega
  · have hm : top % d = top := Nat.mod_eq_of_lt (by omega)
    have e1 : (B - 0) % B = 0 := by simp
    simp only [h, if_false, e1, Nat.and_zero]
    simp only [B_eq] at *; omega

theorem mod1Norm_eq (top : Nat) (rest : List Nat) (d : Nat) (htop : top < B) (hrest : Limbs rest)
    (h1 : B / 2 ≤ d) (h2 : d < B) : mod1Norm top rest d = valMS top rest % d := by
  obtain ⟨e1, _, _⟩ := norm_first top d htop h1 h2
  have hd0 : 0 < d := by simp only [B_eq] at h1; omega
  have hr : top % d < d := Nat.mod_lt _ hd0
  unfold mod1Norm
  simp only [e1]
  rw [valMS_mod]
  cases rest with
  | nil => simp [valMS, Nat.mod_eq_of_lt hr]
  | cons x xs =>
    simp only [List.isEmpty_cons, Bool.false_eq_true, if_false]
    split
    · exact plainLoop_rem d _ _ hr hrest
    · rw [preinvLoop_eq d h1 h2 _ _ hr hrest]; exact plainLoop_rem d _ _ hr hrest

/-- remainder of a shifted problem -/
theorem shifted_rem (X d s : Nat) : ((X * 2 ^ s) % (d * 2 ^ s)) >>> s = X % d := by
  rw [Nat.mul_mod_mul_right, Nat.shiftRight_eq_div_pow, Nat.mul_div_cancel _ (by positivity)]

theorem mod1Unnorm_eq (top : Nat) (rest : List Nat) (d : Nat) (htop : top < B) (hrest : Limbs rest)
    (hd0 : 0 < d) (hd : d < B / 2) : mod1Unnorm top rest d = valMS top rest % d := by
  have hdB : d < B := by simp only [B_eq] at *; omega
  obtain ⟨r, ms, hrm, hr, hms, hval⟩ : ∃ r ms, (if top < d then (top, rest) else (0, top :: rest)) = (r, ms) ∧
      r < d ∧ Limbs ms ∧ valMS r ms = valMS top rest := by
    by_cases h : top < d
    · exact ⟨top, rest, by simp [h], h, hrest, rfl⟩
    · refine ⟨0, top :: rest, by simp [h], hd0, Limbs_cons.mpr ⟨htop, hrest⟩, ?_⟩
      rw [valMS_cons, Nat.zero_mul, Nat.zero_add]
  unfold mod1Unnorm
  rw [hrm, ← hval]
  simp only
  cases ms with
  | nil => simp [valMS, Nat.mod_eq_of_lt hr]
  | cons n1 ns =>
    simp only
    have ⟨hn1, hns⟩ := Limbs_cons.mp hms
    split
    · exact plainLoop_rem d _ _ hr hms
    · obtain ⟨hs, c1, c2⟩ := clz_spec d (by omega) hdB
      have hs1 : 1 ≤ count_leading_zeros d := by
        rcases Nat.eq_zero_or_pos (count_leading_zeros d) with h | h
        · rw [h] at c1; simp only [B_eq] at *; omega
        · exact h
      generalize count_leading_zeros d = s at *
      rw [Nat.shiftLeft_eq, Nat.mod_eq_of_lt c2, Nat.shiftLeft_eq]
      have hrs : r * 2 ^ s < d * 2 ^ s := Nat.mul_lt_mul_of_pos_right hr (by positivity)
      rw [Nat.mod_eq_of_lt (by omega)]
      have hor : r * 2 ^ s ||| n1 >>> (64 - s) = r * 2 ^ s + n1 / 2 ^ (64 - s) := by
        rw [Nat.shiftRight_eq_div_pow, ← Nat.shiftLeft_eq]
        exact (Nat.shiftLeft_add_eq_or_of_lt (limb_hi_lt n1 s hn1 (by omega)) _).symm
      rw [hor]
      have hr' : r * 2 ^ s + n1 / 2 ^ (64 - s) < d * 2 ^ s := by
        have := limb_hi_lt n1 s hn1 (by omega)
        have : (r + 1) * 2 ^ s ≤ d * 2 ^ s := Nat.mul_le_mul_right _ hr
        have : (r + 1) * 2 ^ s = r * 2 ^ s + 2 ^ s := by ring
        omega
      rw [unnormLoop_eq _ _ s hs1 hs ns _ _ hns, preinvLoop_eq _ c1 c2 _ _ hr' (shl_Limbs s (by omega) ns n1 hns)]
      rw [plainLoop_rem _ _ _ hr' (shl_Limbs s (by omega) ns n1 hns), shl_val s (by omega)]
      have : (r * 2 ^ s + n1 / 2 ^ (64 - s)) * 2 ^ (64 - s) + n1 % 2 ^ (64 - s) = r * B + n1 := by
        have h := Nat.div_add_mod n1 (2 ^ (64 - s))
        rw [B_split s (by omega)]
        generalize n1 / 2 ^ (64 - s) = a at *
        generalize n1 % 2 ^ (64 - s) = b at *
        generalize 2 ^ (64 - s) = T at *
        rw [← h]; ring
      rw [this, shifted_rem, valMS_cons]

theorem mod_1_eq (u : List Nat) (d : Nat) (hu : Limbs u) (hd0 : 0 < d) (hdB : d < B) :
    mod_1 u d = val u % d := by
  rw [val_eq_valMS]
  unfold mod_1
  have hl := Limbs_reverse hu
  cases h : u.reverse with
  | nil => simp [valMS]
  | cons top rest =>
    rw [h] at hl
    have ⟨htop, hrest⟩ := Limbs_cons.mp hl
    simp only
    rw [highbit_test d hdB, valMS_cons, Nat.zero_mul, Nat.zero_add]
    by_cases hn : B / 2 ≤ d
    · simp only [hn, decide_true, if_true]; exact mod1Norm_eq top rest d htop hrest hn hdB
    · simp only [hn, decide_false, Bool.false_eq_true, if_false]
      exact mod1Unnorm_eq top rest d htop hrest hd0 (by omega)

theorem preinv_mod_1_eq (u : List Nat) (d : Nat) (hu : Limbs u) (h1 : B / 2 ≤ d) (h2 : d < B) :
    preinv_mod_1 u d (invert_limb d) = val u % d := by
  rw [val_eq_valMS]
  unfold preinv_mod_1
  have hl := Limbs_reverse hu
  have hd0 : 0 < d := by simp only [B_eq] at h1; omega
  cases h : u.reverse with
  | nil => simp [valMS]
  | cons top rest =>
    rw [h] at hl
    have ⟨htop, hrest⟩ := Limbs_cons.mp hl
    obtain ⟨e1, _, _⟩ := norm_first top d htop h1 h2
    have hr : top % d < d := Nat.mod_lt _ hd0
    simp only [e1]
    rw [preinvLoop_eq d h1 h2 _ _ hr hrest, plainLoop_rem d _ _ hr hrest, valMS_cons, Nat.zero_mul, Nat.zero_add,
      ← valMS_mod]


/-! ### mpn_divrem_1 -/

/-- what a one-limb division routine working most-significant-first must deliver -/
def DivSpec (ms frac : List Nat) (d : Nat) (res : List Nat × Nat) : Prop :=
  valMS 0 (ms ++ frac) = valMS 0 res.1 * d + res.2 ∧ res.2 < d ∧ Limbs res.1 ∧
    res.1.length = ms.length + frac.length

theorem valMS_zero_cons (qs : List Nat) : valMS 0 (0 :: qs) = valMS 0 qs := by
  rw [valMS_cons, Nat.zero_mul]

theorem divrem1Norm_spec (ms : List Nat) (k : Nat) (d : Nat) (hms : Limbs ms) (h1 : B / 2 ≤ d) (h2 : d < B) :
    DivSpec ms (List.replicate k 0) d (divrem1Norm ms (List.replicate k 0) d) := by
  have hd0 : 0 < d := by simp only [B_eq] at h1; omega
  have hfr := Limbs_replicate_zero k
  generalize List.replicate k 0 = frac at *
  -- both loops are the plain loop
  have hloop : ∀ (qh : List Nat) (r : Nat) (ms' : List Nat), r < d → Limbs ms' →
      (if BELOW_THRESHOLD (ms'.length + frac.length) Gen.DIVREM_1_NORM_THRESHOLD then
        (qh ++ (plainLoop d (ms' ++ frac) r).1, (plainLoop d (ms' ++ frac) r).2)
      else (qh ++ (preinvLoop d (invert_limb d) (ms' ++ frac) r).1, (preinvLoop d (invert_limb d) (ms' ++ frac) r).2))
      = (qh ++ (plainLoop d (ms' ++ frac) r).1, (plainLoop d (ms' ++ frac) r).2) := by
    intro qh r ms' hr hl
    split
    · rfl
    · rw [preinvLoop_eq d h1 h2 _ _ hr (Limbs_append.mpr ⟨hl, hfr⟩)]
  unfold divrem1Norm DivSpec
  cases ms with
  | nil =>
    simp only
    have := hloop [] 0 [] hd0 Limbs_nil
    simp only [List.nil_append, List.length_nil] at this ⊢
    rw [this]
    obtain ⟨e, a, b, c⟩ := plainLoop_spec d frac 0 0 hd0 hfr
    simp only [Nat.zero_mul, Nat.zero_add] at e
    exact ⟨e, a, b, by rw [c]; omega⟩
  | cons top rest =>
    have ⟨htop, hrest⟩ := Limbs_cons.mp hms
    obtain ⟨_, e2, e3⟩ := norm_first top d htop h1 h2
    have hr : top % d < d := Nat.mod_lt _ hd0
    simp only [e2]
    have := hloop [if top ≥ d then 1 else 0] (top % d) rest hr hrest
    rw [this]
    obtain ⟨e, a, b, c⟩ := plainLoop_spec d (rest ++ frac) (top % d) (if top ≥ d then 1 else 0) hr
      (Limbs_append.mpr ⟨hrest, hfr⟩)
    rw [e3] at e
    simp only [List.cons_append, List.nil_append]
    refine ⟨?_, a, Limbs_cons.mpr ⟨?_, b⟩, ?_⟩
    · rw [valMS_cons, valMS_cons, Nat.zero_mul, Nat.zero_add, Nat.zero_add]; exact e
    · have := B_pos; split <;> omega
    · rw [List.length_cons, c, List.length_append, List.length_cons]; omega

theorem or_shift_sum (r n1 s : Nat) (hn1 : n1 < B) (hs : s ≤ 64) :
    r * 2 ^ s ||| n1 >>> (64 - s) = r * 2 ^ s + n1 / 2 ^ (64 - s) := by
  rw [Nat.shiftRight_eq_div_pow, ← Nat.shiftLeft_eq]
  exact (Nat.shiftLeft_add_eq_or_of_lt (limb_hi_lt n1 s hn1 hs) _).symm

theorem shifted_start_lt (r d n1 s : Nat) (hr : r < d) (hn1 : n1 < B) (hs : s ≤ 64) :
    r * 2 ^ s + n1 / 2 ^ (64 - s) < d * 2 ^ s := by
  have := limb_hi_lt n1 s hn1 hs
  have : (r + 1) * 2 ^ s ≤ d * 2 ^ s := Nat.mul_le_mul_right _ hr
  have : (r + 1) * 2 ^ s = r * 2 ^ s + 2 ^ s := by ring
  omega

theorem shifted_start_val (r n1 s : Nat) (hs : s ≤ 64) :
    (r * 2 ^ s + n1 / 2 ^ (64 - s)) * 2 ^ (64 - s) + n1 % 2 ^ (64 - s) = r * B + n1 := by
  have h := Nat.div_add_mod n1 (2 ^ (64 - s))
  rw [B_split s hs]
  generalize n1 / 2 ^ (64 - s) = a at *
  generalize n1 % 2 ^ (64 - s) = b at *
  generalize 2 ^ (64 - s) = T at *
  rw [← h]; ring

/-- the preinv branch of divrem_1's unnormalised path, after the skip step -/
theorem unnorm_preinv_spec (r : Nat) (ms : List Nat) (k d : Nat) (hr : r < d) (hms : Limbs ms)
    (hd0 : 0 < d) (hd : d < B / 2) :
    let s := count_leading_zeros d
    let d' := (d <<< s) % B
    let r' := (r <<< s) % B
    let dinv := invert_limb d'
    let p1 := unnormFeed d' dinv s ms r'
    let p2 := preinvLoop d' dinv (List.replicate k 0) p1.2
    valMS r (ms ++ List.replicate k 0) = valMS 0 (p1.1 ++ p2.1) * d + p2.2 >>> s ∧ p2.2 >>> s < d ∧
      Limbs (p1.1 ++ p2.1) ∧ (p1.1 ++ p2.1).length = ms.length + k := by
  intro s d' r' dinv p1 p2
  have hdB : d < B := by simp only [B_eq] at *; omega
  obtain ⟨hs, c1, c2⟩ := clz_spec d (by omega) hdB
  have hd' : d' = d * 2 ^ s := by show (d <<< s) % B = _; rw [Nat.shiftLeft_eq, Nat.mod_eq_of_lt c2]
  have hrs : r * 2 ^ s < d * 2 ^ s := Nat.mul_lt_mul_of_pos_right hr (by positivity)
  have hr' : r' = r * 2 ^ s := by
    show (r <<< s) % B = _; rw [Nat.shiftLeft_eq, Nat.mod_eq_of_lt (Nat.lt_trans hrs c2)]
  have hs1 : 1 ≤ s := by
    rcases Nat.eq_zero_or_pos s with h | h
    · have : d * 2 ^ s = d := by rw [h]; simp
      rw [this] at c1; omega
    · exact h
  have hfr := Limbs_replicate_zero k
  -- p1 is a plain loop over the shifted stream
  obtain ⟨str, r0, hp1, hr0, hstr, hlen, hv⟩ : ∃ (str : List Nat) (r0 : Nat), p1 = plainLoop d' str r0 ∧ r0 < d' ∧ Limbs str ∧
      str.length = ms.length ∧ ∀ A, valMS (A * d' + r0) str = (A * d * B ^ ms.length + valMS r ms) * 2 ^ s := by
    cases ms with
    | nil =>
      refine ⟨[], r', rfl, by rw [hr', hd']; exact hrs, Limbs_nil, rfl, ?_⟩
      intro A; rw [hd', hr']; simp only [valMS, List.length_nil, pow_zero]; ring
    | cons n1 rest =>
      have ⟨hn1, hrest⟩ := Limbs_cons.mp hms
      have hor : r' ||| n1 >>> (64 - s) = r * 2 ^ s + n1 / 2 ^ (64 - s) := by
        rw [hr']; exact or_shift_sum r n1 s hn1 (by omega)
      have hlt := shifted_start_lt r d n1 s hr hn1 (by omega)
      refine ⟨shl s n1 rest, r * 2 ^ s + n1 / 2 ^ (64 - s), ?_, by rw [hd']; exact hlt,
        shl_Limbs s (by omega) rest n1 hrest, by rw [shl_length]; rfl, ?_⟩
      · show unnormLoop d' dinv s n1 rest (r' ||| n1 >>> (64 - s)) = _
        rw [hor, unnormLoop_eq _ _ s hs1 hs rest _ _ hrest]
        show preinvLoop d' (invert_limb d') _ _ = _
        rw [hd'] at *
        exact preinvLoop_eq _ c1 c2 _ _ hlt (shl_Limbs s (by omega) rest n1 hrest)
      · intro A
        rw [shl_val s (by omega), hd']
        have : (A * (d * 2 ^ s) + (r * 2 ^ s + n1 / 2 ^ (64 - s))) * 2 ^ (64 - s) + n1 % 2 ^ (64 - s)
            = A * d * B + (r * B + n1) := by
          rw [← shifted_start_val r n1 s (by omega), B_split s (by omega)]; ring
        rw [this, valMS_eq, valMS_cons, valMS_eq (r * B + n1), List.length_cons, pow_succ]; ring
  -- p2 continues the same loop over the fraction limbs
  have hp2 : p2 = plainLoop d' (List.replicate k 0) (plainLoop d' str r0).2 := by
    show preinvLoop d' (invert_limb d') _ p1.2 = _
    rw [hp1]
    have := (plainLoop_spec d' str r0 0 hr0 hstr).2.1
    rw [hd'] at *
    exact preinvLoop_eq _ c1 c2 _ _ this hfr
  have happ := plainLoop_append d' str (List.replicate k 0) r0
  obtain ⟨e, a, b, c⟩ := plainLoop_spec d' (str ++ List.replicate k 0) r0 0 hr0 (Limbs_append.mpr ⟨hstr, hfr⟩)
  rw [happ] at e a b c
  rw [hp1, hp2]
  simp only at e a b c
  generalize (plainLoop d' str r0).1 = q1 at *
  generalize (plainLoop d' (List.replicate k 0) (plainLoop d' str r0).2).1 = q2 at *
  generalize (plainLoop d' (List.replicate k 0) (plainLoop d' str r0).2).2 = rf at *
  rw [valMS_append, hv 0, valMS_replicate_zero] at e
  have e' : (valMS r ms * B ^ k) * 2 ^ s = valMS 0 (q1 ++ q2) * (d * 2 ^ s) + rf := by
    rw [← hd', ← e]; ring
  rw [hd'] at a
  obtain ⟨u1, u2, _⟩ := unshift_div _ _ _ _ _ e' a
  rw [Nat.shiftRight_eq_div_pow, valMS_append, valMS_replicate_zero]
  refine ⟨u1, u2, b, ?_⟩
  rw [c, List.length_append, List.length_replicate, hlen]

theorem divrem1Unnorm_spec (ms : List Nat) (k : Nat) (d : Nat) (hms : Limbs ms) (hd0 : 0 < d) (hd : d < B / 2) :
    DivSpec ms (List.replicate k 0) d (divrem1Unnorm ms (List.replicate k 0) d) := by
  have hfr := Limbs_replicate_zero k
  -- the skip step
  obtain ⟨qh, r, ms', hsk, hqh, hr, hms', hval, hlen⟩ : ∃ qh r ms',
      divrem1Skip ms d = (qh, r, ms') ∧
      (qh = [] ∨ qh = [0]) ∧ r < d ∧ Limbs ms' ∧
      (∀ l, valMS 0 (ms ++ l) = valMS r (ms' ++ l)) ∧ qh.length + ms'.length = ms.length := by
    cases ms with
    | nil => exact ⟨[], 0, [], rfl, Or.inl rfl, hd0, Limbs_nil, fun _ => rfl, rfl⟩
    | cons n1 rest =>
      have ⟨hn1, hrest⟩ := Limbs_cons.mp hms
      by_cases h : n1 < d
      · refine ⟨[0], n1, rest, by simp [divrem1Skip, h], Or.inr rfl, h, hrest, ?_, by simp; omega⟩
        intro l; rw [List.cons_append, valMS_cons, Nat.zero_mul, Nat.zero_add]
      · exact ⟨[], 0, n1 :: rest, by simp [divrem1Skip, h], Or.inl rfl, hd0, hms, fun _ => rfl, by simp⟩
  have hq0 : ∀ qs, valMS 0 (qh ++ qs) = valMS 0 qs := by
    intro qs; rcases hqh with rfl | rfl
    · rfl
    · exact valMS_zero_cons qs
  have hqL : ∀ qs, Limbs qs → Limbs (qh ++ qs) := by
    intro qs hq; rcases hqh with rfl | rfl
    · exact hq
    · exact Limbs_cons.mpr ⟨B_pos, hq⟩
  unfold divrem1Unnorm DivSpec
  rw [hsk]
  simp only [List.length_replicate]
  split
  · -- n = 0
    rename_i hn
    have hm0 : ms' = [] := List.eq_nil_of_length_eq_zero (by omega)
    have hk0 : k = 0 := by omega
    subst hm0 hk0
    have := hval []
    simp only [List.append_nil, List.replicate_zero, valMS] at this ⊢
    refine ⟨?_, hr, ?_, by simpa using hlen⟩
    · rw [this]; rcases hqh with rfl | rfl <;> simp [valMS]
    · have := hqL [] Limbs_nil; simpa using this
  · split
    · -- plain loop
      obtain ⟨e, a, b, c⟩ := plainLoop_spec d (ms' ++ List.replicate k 0) r 0 hr (Limbs_append.mpr ⟨hms', hfr⟩)
      rw [Nat.zero_mul, Nat.zero_add] at e
      simp only
      refine ⟨by rw [hval, hq0]; exact e, a, hqL _ b, ?_⟩
      rw [List.length_append, c, List.length_append, List.length_replicate]; omega
    · -- preinv on the normalised divisor
      obtain ⟨e, a, b, c⟩ := unnorm_preinv_spec r ms' k d hr hms' hd0 hd
      simp only at e a b c ⊢
      refine ⟨?_, a, ?_, ?_⟩
      · rw [hval, List.append_assoc, hq0]; exact e
      · rw [List.append_assoc]; exact hqL _ b
      · rw [List.append_assoc, List.length_append, c]; omega

/-- result contract of mpn_divrem_1, least-significant-first -/
def Divrem1Spec (qxn : Nat) (u : List Nat) (d : Nat) (res : List Nat × Nat) : Prop :=
  val res.1 * d + res.2 = val u * B ^ qxn ∧ res.2 < d ∧ Limbs res.1 ∧ res.1.length = u.length + qxn

theorem DivSpec_to_val (qxn : Nat) (u : List Nat) (d : Nat) (res : List Nat × Nat)
    (h : DivSpec u.reverse (List.replicate qxn 0) d res) : Divrem1Spec qxn u d (res.1.reverse, res.2) := by
  obtain ⟨e, a, b, c⟩ := h
  refine ⟨?_, a, Limbs_reverse b, ?_⟩
  · simp only
    rw [val_eq_valMS, List.reverse_reverse, ← e, valMS_append, valMS_replicate_zero, ← val_eq_valMS]
  · simp only [List.length_reverse, c, List.length_replicate]

theorem divrem_euclidean_qr_1_spec (u : List Nat) (d : Nat) (hu : Limbs u) (hd0 : 0 < d) (hdB : d < B) :
    Divrem1Spec 0 u d (divrem_euclidean_qr_1 u d) := by
  rw [divrem_euclidean_qr_1_eq u d hu (by omega) hdB]
  obtain ⟨e, a, b, c⟩ := plainLoop_spec d u.reverse 0 0 hd0 (Limbs_reverse hu)
  rw [Nat.zero_mul, Nat.zero_add] at e
  have := DivSpec_to_val 0 u d (plainLoop d u.reverse 0) ⟨by simpa using e, a, b, by simpa using c⟩
  exact this

/-- mpn_divrem_1 on every path except the Hensel one (qxn = 0, small d, un ≥ DIVREM_EUCLID_HENSEL_THRESHOLD) -/
theorem divrem_1_spec_nohensel (qxn : Nat) (u : List Nat) (d : Nat) (hu : Limbs u) (hd0 : 0 < d) (hdB : d < B)
    (hnh : (decide (qxn = 0) && (decide (d ≤ HIGHBIT / 2 + 1) &&
      ABOVE_THRESHOLD u.length Gen.DIVREM_EUCLID_HENSEL_THRESHOLD)) = false) :
    Divrem1Spec qxn u d (divrem_1 qxn u d) := by
  unfold divrem_1
  simp only [hnh, Bool.false_eq_true, if_false]
  split
  · rename_i h0
    have hu0 : u = [] := List.eq_nil_of_length_eq_zero (by omega)
    have hq0 : qxn = 0 := by omega
    subst hu0 hq0
    exact ⟨by simp, hd0, Limbs_nil, rfl⟩
  · split
    · rename_i hq; subst hq
      exact divrem_euclidean_qr_1_spec u d hu hd0 hdB
    · rw [highbit_test d hdB]
      by_cases hn : B / 2 ≤ d
      · simp only [hn, decide_true, if_true]
        exact DivSpec_to_val qxn u d _ (divrem1Norm_spec u.reverse qxn d (Limbs_reverse hu) hn hdB)
      · simp only [hn, decide_false, Bool.false_eq_true, if_false]
        exact DivSpec_to_val qxn u d _ (divrem1Unnorm_spec u.reverse qxn d (Limbs_reverse hu) hd0 (by omega))


/-! ### modlimb_invert -/

/-- every entry of modlimb_invert_table is the inverse of 2i+1 modulo 2^8 (kernel-checked over all 128 entries) -/
theorem minv_tab_ok : ∀ i, i < 128 → (Gen.modlimbInvertTab.getD i 0 * (2 * i + 1)) % 256 = 1 := by
  decide

theorem minvStep_modEq (inv n : Nat) :
    ((minvStep inv n : ℕ) : ℤ) ≡ 2 * inv - inv * inv * n [ZMOD (B : ℤ)] := by
  unfold minvStep
  have hB := B_pos
  have hb : ((inv * inv) % B * n) % B < B := Nat.mod_lt _ hB
  have hle : ((inv * inv) % B * n) % B ≤ (2 * inv) % B + B := by omega
  rw [Int.natCast_mod, Nat.cast_sub hle]
  push_cast
  have h1 : ((2 * (inv:ℤ)) % B + B - ((inv:ℤ) * inv % B * n) % B) % B ≡
      (2 * (inv:ℤ)) % B + B - ((inv:ℤ) * inv % B * n) % B [ZMOD (B:ℤ)] := Int.mod_modEq _ _
  refine h1.trans ?_
  have h2 : (2 * (inv:ℤ)) % B ≡ 2 * inv [ZMOD (B:ℤ)] := Int.mod_modEq _ _
  have h3 : ((inv:ℤ) * inv % B * n) % B ≡ inv * inv * n [ZMOD (B:ℤ)] :=
    (Int.mod_modEq _ _).trans ((Int.mod_modEq _ _).mul_right _)
  have h4 : (2 * (inv:ℤ)) % B + B ≡ 2 * inv [ZMOD (B:ℤ)] := by
    have : (2 * (inv:ℤ)) % B + B ≡ 2 * inv + 0 [ZMOD (B:ℤ)] :=
      h2.add (Int.modEq_iff_dvd.mpr ⟨-1, by ring⟩)
    simpa using this
  exact h4.sub h3

/-- one Newton step doubles the number of correct low bits -/
theorem minvStep_lift (inv n : Nat) (m : ℤ) (hm : m * m ∣ (B : ℤ)) (h : (inv : ℤ) * n ≡ 1 [ZMOD m]) :
    ((minvStep inv n : ℕ) : ℤ) * n ≡ 1 [ZMOD (m * m)] := by
  have h1 := ((minvStep_modEq inv n).of_dvd hm).mul_right (n : ℤ)
  refine h1.trans ?_
  obtain ⟨j, hj⟩ := Int.modEq_iff_dvd.mp h
  rw [Int.modEq_iff_dvd]
  refine ⟨j * j, ?_⟩
  have : (1:ℤ) - (2 * inv - inv * inv * n) * n = (1 - inv * n) * (1 - inv * n) := by ring
  rw [this, hj]; ring

theorem modlimb_invert_mul (n : Nat) (hodd : n % 2 = 1) : (n * modlimb_invert n) % B = 1 := by
  unfold modlimb_invert
  simp only
  have hidx : (n / 2) &&& 0x7F = (n / 2) % 128 := by
    have : (0x7F : Nat) = 2 ^ 7 - 1 := by norm_num
    rw [this, Nat.and_two_pow_sub_one_eq_mod]
  rw [hidx]
  have hi : (n / 2) % 128 < 128 := Nat.mod_lt _ (by norm_num)
  have ht := minv_tab_ok _ hi
  have hn256 : n % 256 = 2 * ((n / 2) % 128) + 1 := by omega
  generalize Gen.modlimbInvertTab.getD ((n / 2) % 128) 0 = inv0 at *
  have h0 : (inv0 : ℤ) * n ≡ 1 [ZMOD (2 ^ 8 : ℤ)] := by
    have : (inv0 * n) % 256 = 1 := by rw [Nat.mul_mod, hn256, Nat.mod_mul_mod]; exact ht
    have h := congrArg (Nat.cast : ℕ → ℤ) this
    rw [Int.natCast_mod] at h
    push_cast at h
    show ((inv0 : ℤ) * n) % (2 ^ 8) = 1 % (2 ^ 8)
    norm_num at h ⊢; exact h
  have hB : (B : ℤ) = 2 ^ 64 := by rw [B_eq_pow]; norm_num
  have h1 := minvStep_lift inv0 n (2 ^ 8) (by rw [hB]; exact ⟨2 ^ 48, by norm_num⟩) h0
  have e1 : (2 ^ 8 * 2 ^ 8 : ℤ) = 2 ^ 16 := by norm_num
  rw [e1] at h1
  have h2 := minvStep_lift _ n (2 ^ 16) (by rw [hB]; exact ⟨2 ^ 32, by norm_num⟩) h1
  have e2 : (2 ^ 16 * 2 ^ 16 : ℤ) = 2 ^ 32 := by norm_num
  rw [e2] at h2
  have h3 := minvStep_lift _ n (2 ^ 32) (by rw [hB]; exact ⟨1, by norm_num⟩) h2
  have e3 : (2 ^ 32 * 2 ^ 32 : ℤ) = B := by rw [hB]; norm_num
  rw [e3] at h3
  generalize minvStep (minvStep (minvStep inv0 n) n) n = inv3 at *
  rw [Nat.mul_mod, Nat.mod_mod, ← Nat.mul_mod, Nat.mul_comm]
  have : ((inv3 * n : ℕ) : ℤ) % (B : ℤ) = 1 % (B : ℤ) := by push_cast; exact h3
  have h1B : (1 : ℤ) % (B : ℤ) = 1 := by rw [hB]; norm_num
  rw [h1B, ← Int.natCast_mod] at this
  exact_mod_cast this


/-! ### Hensel (exact) division by an odd limb -/

/-- the quotient-limb step: l = x·inv mod B satisfies l·d = hi·B + x -/
theorem hensel_limb (x d inv : Nat) (hx : x < B) (hinv : (d * inv) % B = 1) :
    ((x * inv) % B) * d = (((x * inv) % B) * d / B) * B + x := by
  have h := Nat.div_add_mod (((x * inv) % B) * d) B
  have : (((x * inv) % B) * d) % B = x := by
    rw [Nat.mul_mod, Nat.mod_mod, ← Nat.mul_mod, Nat.mul_assoc, Nat.mul_comm inv d, Nat.mul_mod, hinv,
      Nat.mul_one, Nat.mod_mod, Nat.mod_eq_of_lt hx]
  rw [this] at h
  rw [Nat.mul_comm (_ / B) B]; exact h.symm

theorem hi_lt (l d : Nat) (hl : l < B) : l * d / B < d ∨ d = 0 := by
  rcases Nat.eq_zero_or_pos d with h | h
  · right; exact h
  · left; rw [Nat.div_lt_iff_lt_mul B_pos, Nat.mul_comm d B]; exact Nat.mul_lt_mul_of_pos_right hl h

theorem divexactOddGo_cons (d inv l s : Nat) (rest : List Nat) (c : Nat) :
    divexactOddGo d inv l (s :: rest) c =
      (((s + B - (c + (umul_ppmm l d).1) % B) % B * inv) % B) ::
        divexactOddGo d inv (((s + B - (c + (umul_ppmm l d).1) % B) % B * inv) % B) rest
          (if (s + B - (c + (umul_ppmm l d).1) % B) % B > s then 1 else 0) := rfl

/-- invariant of the shift == 0 loop of divexact_1.c: `rest + cout·B^len = d·out + (c + hi(l·d))` -/
theorem divexactOddGo_spec (d inv : Nat) (hd0 : 0 < d) (hdB : d < B) (hinv : (d * inv) % B = 1) (rest : List Nat) :
    ∀ l c, l < B → c ≤ 1 → Limbs rest →
    ∃ cout, val rest + cout * B ^ rest.length = d * val (divexactOddGo d inv l rest c) + (c + l * d / B) ∧
      Limbs (divexactOddGo d inv l rest c) ∧ (divexactOddGo d inv l rest c).length = rest.length := by
  induction rest with
  | nil =>
    intro l c _ _ _
    exact ⟨c + l * d / B, by simp [divexactOddGo], Limbs_nil, rfl⟩
  | cons s rest ih =>
    intro l c hl hc hlimbs
    have ⟨hs, hrest⟩ := Limbs_cons.mp hlimbs
    have hh : l * d / B < d := (hi_lt l d hl).resolve_right (by omega)
    rw [divexactOddGo_cons, umul_ppmm_eq]
    simp only
    have hc1 : (c + l * d / B) % B = c + l * d / B := Nat.mod_eq_of_lt (by omega)
    rw [hc1]
    generalize hc1' : c + l * d / B = c1 at *
    have hc1B : c1 < B := by omega
    have hl'B : (s + B - c1) % B < B := Nat.mod_lt _ B_pos
    have hstep : s + (if (s + B - c1) % B > s then 1 else 0) * B = (s + B - c1) % B + c1 := by
      simp only [B_eq] at *; split <;> omega
    generalize (s + B - c1) % B = l' at *
    have hb : (if l' > s then 1 else 0) ≤ 1 := by split <;> omega
    have hq := hensel_limb l' d inv hl'B hinv
    have hlqB : (l' * inv) % B < B := Nat.mod_lt _ B_pos
    obtain ⟨cout, e, hL, hlen⟩ := ih ((l' * inv) % B) (if l' > s then 1 else 0) hlqB hb hrest
    refine ⟨cout, ?_, Limbs_cons.mpr ⟨hlqB, hL⟩, by rw [List.length_cons, hlen, List.length_cons]⟩
    rw [val_cons, val_cons, List.length_cons, pow_succ]
    generalize (l' * inv) % B = lq at *
    generalize lq * d / B = hq' at *
    generalize (if l' > s then 1 else 0) = b at *
    generalize val (divexactOddGo d inv lq rest b) = Vo at *
    generalize val rest = Vr at *
    generalize B ^ rest.length = P at *
    have : s + B * Vr + cout * (P * B) = s + B * (Vr + cout * P) := by ring
    rw [this, e]
    have : d * (lq + B * Vo) + c1 = lq * d + B * (d * Vo) + c1 := by ring
    rw [this, hq]
    have : s + B * (d * Vo + (b + hq')) = (s + b * B) + B * (d * Vo) + hq' * B := by ring
    rw [this, hstep]; ring


theorem exact_finish (d N Q cout n : Nat) (hodd : d % 2 = 1) (h : N + cout * B ^ n = d * Q) (hQ : Q < B ^ n)
    (hdvd : d ∣ N) : N = d * Q := by
  have hd0 : 0 < d := by omega
  have h1 : d ∣ cout * B ^ n := by
    have : d ∣ N + cout * B ^ n := by rw [h]; exact Dvd.intro _ rfl
    exact (Nat.dvd_add_right hdvd).mp this
  have hcop : Nat.Coprime d (B ^ n) := by
    apply Nat.Coprime.pow_right
    rw [B_eq_pow]
    apply Nat.Coprime.pow_right
    rw [Nat.coprime_comm]
    show Nat.gcd 2 d = 1
    rw [Nat.gcd_rec, hodd]; rfl
  have h2 : d ∣ cout := hcop.dvd_of_dvd_mul_right h1
  have hlt : cout < d := by
    have hP : 0 < B ^ n := by have := B_pos; positivity
    have : cout * B ^ n < d * B ^ n := by
      have : d * Q < d * B ^ n := Nat.mul_lt_mul_of_pos_left hQ hd0
      omega
    exact Nat.lt_of_mul_lt_mul_right this
  have : cout = 0 := Nat.eq_zero_of_dvd_of_lt h2 hlt
  rw [this] at h; simpa using h

theorem ctzGo_spec : ∀ f x, 0 < x → x < 2 ^ f →
    2 ^ ctzGo f x ∣ x ∧ (x / 2 ^ ctzGo f x) % 2 = 1 ∧ ctzGo f x < f := by
  intro f
  induction f with
  | zero => intro x h0 hx; simp at hx; omega
  | succ f ih =>
    intro x h0 hx
    unfold ctzGo
    split
    · rename_i h; simp [h]
    · rename_i h
      have hx2 : x / 2 < 2 ^ f := by rw [Nat.div_lt_iff_lt_mul (by norm_num), ← pow_succ]; exact hx
      obtain ⟨a, b, c⟩ := ih (x / 2) (by omega) hx2
      refine ⟨?_, ?_, by omega⟩
      · rw [Nat.add_comm, pow_succ]
        have : x = x / 2 * 2 := by omega
        rw [this, Nat.mul_div_cancel _ (by norm_num : 0 < 2)]; exact Nat.mul_dvd_mul_right a 2
      · rw [Nat.add_comm, pow_succ, Nat.mul_comm, ← Nat.div_div_eq_div_mul]; exact b

theorem ctz_spec (x : Nat) (h0 : 0 < x) (hx : x < B) :
    2 ^ count_trailing_zeros x ∣ x ∧ (x / 2 ^ count_trailing_zeros x) % 2 = 1 ∧ count_trailing_zeros x ≤ 63 := by
  obtain ⟨a, b, c⟩ := ctzGo_spec 64 x h0 hx
  exact ⟨a, b, by unfold count_trailing_zeros; omega⟩


theorem divexactEvenGo_nil (d inv sh s c : Nat) :
    divexactEvenGo d inv sh s [] c = [(((s >>> sh) + B - c) % B * inv) % B] := rfl

theorem divexactEvenGo_cons (d inv sh s sn : Nat) (rest : List Nat) (c : Nat) :
    divexactEvenGo d inv sh s (sn :: rest) c =
      (((((s >>> sh) ||| ((sn <<< (64 - sh)) % B)) + B - c) % B * inv) % B) ::
        divexactEvenGo d inv sh sn rest
          (((if ((((s >>> sh) ||| ((sn <<< (64 - sh)) % B)) + B - c) % B) > ((s >>> sh) ||| ((sn <<< (64 - sh)) % B))
              then 1 else 0) +
            (((((s >>> sh) ||| ((sn <<< (64 - sh)) % B)) + B - c) % B * inv) % B) * d / B) % B) := rfl

/-- the limb fed by the even loop is the next limb of the right-shifted dividend -/
theorem shr_limb (s sn sh : Nat) (rest : List Nat) (hs : s < B) (hsh1 : 1 ≤ sh) (hsh : sh ≤ 63) :
    ((s >>> sh) ||| ((sn <<< (64 - sh)) % B)) < B ∧
    val (s :: sn :: rest) / 2 ^ sh = ((s >>> sh) ||| ((sn <<< (64 - sh)) % B)) + B * (val (sn :: rest) / 2 ^ sh) := by
  have e2 := (limb_split sn (64 - sh) (by omega)).2
  have e64 : 64 - (64 - sh) = sh := by omega
  rw [e64] at e2
  have hb : s / 2 ^ sh < 2 ^ (64 - sh) := by
    have := limb_hi_lt s (64 - sh) hs (by omega)
    rw [e64] at this; exact this
  have hor : (s >>> sh) ||| ((sn <<< (64 - sh)) % B) = (sn % 2 ^ sh) * 2 ^ (64 - sh) + s / 2 ^ sh := by
    rw [e2, Nat.shiftRight_eq_div_pow, Nat.or_comm, ← Nat.shiftLeft_eq]
    exact (Nat.shiftLeft_add_eq_or_of_lt hb _).symm
  rw [hor]
  have hp : 0 < 2 ^ sh := by positivity
  have hBs : B = 2 ^ sh * 2 ^ (64 - sh) := by rw [← pow_add, B_eq_pow]; congr 1; omega
  have hm := Nat.mod_lt sn hp
  constructor
  · rw [hBs]
    have : (sn % 2 ^ sh + 1) * 2 ^ (64 - sh) ≤ 2 ^ sh * 2 ^ (64 - sh) := Nat.mul_le_mul_right _ hm
    have : (sn % 2 ^ sh + 1) * 2 ^ (64 - sh) = sn % 2 ^ sh * 2 ^ (64 - sh) + 2 ^ (64 - sh) := by ring
    omega
  · have hdm := Nat.div_add_mod sn (2 ^ sh)
    simp only [val_cons]
    have : s + B * (sn + B * val rest) = s + 2 ^ sh * (2 ^ (64 - sh) * (sn + B * val rest)) := by
      rw [hBs]; ring
    rw [this, Nat.add_mul_div_left _ _ hp]
    have h2 : sn + B * val rest = sn % 2 ^ sh + 2 ^ sh * (sn / 2 ^ sh + 2 ^ (64 - sh) * val rest) := by
      rw [hBs]
      generalize sn / 2 ^ sh = a at *
      generalize sn % 2 ^ sh = b at *
      rw [← hdm]; ring
    have h3 : (sn + B * val rest) / 2 ^ sh = sn / 2 ^ sh + 2 ^ (64 - sh) * val rest := by
      rw [h2, Nat.add_mul_div_left _ _ hp, Nat.div_eq_of_lt hm, Nat.zero_add]
    rw [h3]
    generalize sn / 2 ^ sh = a at *
    generalize sn % 2 ^ sh = b at *
    generalize s / 2 ^ sh = e at *
    generalize val rest = V at *
    rw [← hdm, hBs]; ring


/-- algebra of one quotient limb of the exact division: subtract the carry, multiply by the inverse -/
theorem hensel_step_alg (ls c d inv : Nat) (hls : ls < B) (hc : c < B) (hd0 : 0 < d) (hdB : d < B)
    (hinv : (d * inv) % B = 1) :
    ((ls + B - c) % B * inv) % B < B ∧
    ((if (ls + B - c) % B > ls then 1 else 0) + ((ls + B - c) % B * inv) % B * d / B) % B =
      (if (ls + B - c) % B > ls then 1 else 0) + ((ls + B - c) % B * inv) % B * d / B ∧
    (if (ls + B - c) % B > ls then 1 else 0) + ((ls + B - c) % B * inv) % B * d / B < B ∧
    ls + ((if (ls + B - c) % B > ls then 1 else 0) + ((ls + B - c) % B * inv) % B * d / B) * B =
      d * (((ls + B - c) % B * inv) % B) + c := by
  have hl'B : (ls + B - c) % B < B := Nat.mod_lt _ B_pos
  have hstep : ls + (if (ls + B - c) % B > ls then 1 else 0) * B = (ls + B - c) % B + c := by
    simp only [B_eq] at *; split <;> omega
  generalize (ls + B - c) % B = l' at *
  have hb : (if l' > ls then 1 else 0) ≤ 1 := by split <;> omega
  have hq := hensel_limb l' d inv hl'B hinv
  have hlqB : (l' * inv) % B < B := Nat.mod_lt _ B_pos
  have hh : (l' * inv) % B * d / B < d := (hi_lt _ d hlqB).resolve_right (by omega)
  generalize (l' * inv) % B = lq at *
  generalize lq * d / B = hq' at *
  generalize (if l' > ls then 1 else 0) = b at *
  refine ⟨hlqB, Nat.mod_eq_of_lt (by omega), by omega, ?_⟩
  have : ls + (b + hq') * B = (ls + b * B) + hq' * B := by ring
  rw [this, hstep, Nat.mul_comm d lq, hq]; ring

theorem even_nil (d inv sh : Nat) (hd0 : 0 < d) (hdB : d < B) (hinv : (d * inv) % B = 1) (s c : Nat) (hs : s < B) (hc : c < B) :
    ∃ cout, val [s] / 2 ^ sh + cout * B ^ (0 + 1) = d * val (divexactEvenGo d inv sh s [] c) + c ∧
      Limbs (divexactEvenGo d inv sh s [] c) ∧ (divexactEvenGo d inv sh s [] c).length = 0 + 1 := by
    rw [divexactEvenGo_nil, Nat.shiftRight_eq_div_pow]
    have hlsB : s / 2 ^ sh < B := Nat.lt_of_le_of_lt (Nat.div_le_self _ _) hs
    have hv : val [s] / 2 ^ sh = s / 2 ^ sh := by rw [val_cons, val_nil, Nat.mul_zero, Nat.add_zero]
    rw [hv]
    obtain ⟨a1, _, _, a4⟩ := hensel_step_alg (s / 2 ^ sh) c d inv hlsB hc hd0 hdB hinv
    refine ⟨(if (s / 2 ^ sh + B - c) % B > s / 2 ^ sh then 1 else 0) + (s / 2 ^ sh + B - c) % B * inv % B * d / B,
      ?_, Limbs_cons.mpr ⟨a1, Limbs_nil⟩, rfl⟩
    rw [Nat.zero_add, pow_one, a4, val_cons, val_nil, Nat.mul_zero, Nat.add_zero]

/-- invariant of the shift != 0 loop of divexact_1.c -/
theorem divexactEvenGo_spec (d inv sh : Nat) (hd0 : 0 < d) (hdB : d < B) (hinv : (d * inv) % B = 1)
    (hsh1 : 1 ≤ sh) (hsh : sh ≤ 63) (rest : List Nat) :
    ∀ s c, s < B → c < B → Limbs rest →
    ∃ cout, val (s :: rest) / 2 ^ sh + cout * B ^ (rest.length + 1) = d * val (divexactEvenGo d inv sh s rest c) + c ∧
      Limbs (divexactEvenGo d inv sh s rest c) ∧ (divexactEvenGo d inv sh s rest c).length = rest.length + 1 := by
  induction rest with
  | nil =>
    intro s c hs hc _
    rw [List.length_nil]
    exact even_nil d inv sh hd0 hdB hinv s c hs hc
  | cons sn rest ih =>
    intro s c hs hc hlimbs
    have ⟨hsn, hrest⟩ := Limbs_cons.mp hlimbs
    obtain ⟨hlsB, hsv⟩ := shr_limb s sn sh rest hs hsh1 hsh
    rw [divexactEvenGo_cons, hsv]
    generalize (s >>> sh) ||| ((sn <<< (64 - sh)) % B) = ls at *
    obtain ⟨a1, a2, a3, a4⟩ := hensel_step_alg ls c d inv hlsB hc hd0 hdB hinv
    rw [a2]
    obtain ⟨cout, e, hL, hlen⟩ := ih sn _ hsn a3 hrest
    refine ⟨cout, ?_, Limbs_cons.mpr ⟨a1, hL⟩, by rw [List.length_cons, hlen, List.length_cons]⟩
    generalize val (sn :: rest) / 2 ^ sh = SV at *
    rw [val_cons, List.length_cons, pow_succ]
    generalize ((ls + B - c) % B * inv) % B = lq at *
    generalize (if (ls + B - c) % B > ls then 1 else 0) + lq * d / B = c' at *
    generalize val (divexactEvenGo d inv sh sn rest c') = Vo at *
    generalize B ^ (rest.length + 1) = P at *
    have : ls + B * SV + cout * (P * B) = ls + B * (SV + cout * P) := by ring
    rw [this, e]
    have : d * (lq + B * Vo) + c = (d * lq + c) + B * (d * Vo) := by ring
    rw [this, ← a4]; ring

theorem val_lt_pow (l : List Nat) (n : Nat) (h : Limbs l) (hn : l.length = n) : val l < B ^ n := by
  rw [← hn]; exact val_lt l h

theorem divexact_even_branch (s s1 : Nat) (rest : List Nat) (d d' sh inv : Nat) (hs : s < B) (hrest : Limbs (s1 :: rest))
    (hd' : d = 2 ^ sh * d') (hodd : d' % 2 = 1) (hd'B : d' < B) (hinv : (d' * inv) % B = 1)
    (hsh1 : 1 ≤ sh) (hsh63 : sh ≤ 63) (hdvd : d ∣ val (s :: s1 :: rest)) :
    val (divexactEvenGo d' inv sh s (s1 :: rest) 0) * d = val (s :: s1 :: rest) ∧
      Limbs (divexactEvenGo d' inv sh s (s1 :: rest) 0) ∧
      (divexactEvenGo d' inv sh s (s1 :: rest) 0).length = rest.length + 1 + 1 := by
  have hp : 0 < 2 ^ sh := by positivity
  have hd'0 : 0 < d' := by omega
  obtain ⟨cout, e, hL, hlen⟩ := divexactEvenGo_spec d' inv sh hd'0 hd'B hinv hsh1 hsh63 (s1 :: rest) s 0 hs B_pos hrest
  have e := e.trans (Nat.add_zero _)
  rw [List.length_cons] at e
  rw [List.length_cons] at hlen
  have h2 : 2 ^ sh ∣ val (s :: s1 :: rest) := Dvd.dvd.trans ⟨d', hd'⟩ hdvd
  obtain ⟨SV, hSV⟩ := h2
  have hsv : val (s :: s1 :: rest) / 2 ^ sh = SV := by rw [hSV, Nat.mul_div_cancel_left _ hp]
  rw [hsv] at e
  have hd'SV : d' ∣ SV := by
    rw [hSV, hd'] at hdvd
    exact Nat.dvd_of_mul_dvd_mul_left hp hdvd
  have hQ := val_lt_pow _ _ hL hlen
  generalize divexactEvenGo d' inv sh s (s1 :: rest) 0 = out at *
  have := exact_finish d' SV (val out) cout (rest.length + 1 + 1) hodd e hQ hd'SV
  refine ⟨?_, hL, hlen⟩
  rw [hSV, this, hd']; ring

theorem divexact_odd_branch (s s1 : Nat) (rest : List Nat) (d inv : Nat) (hs : s < B) (hrest : Limbs (s1 :: rest))
    (hodd : d % 2 = 1) (hdB : d < B) (hinv : (d * inv) % B = 1) (hdvd : d ∣ val (s :: s1 :: rest)) :
    val (((s * inv) % B) :: divexactOddGo d inv ((s * inv) % B) (s1 :: rest) 0) * d = val (s :: s1 :: rest) ∧
      Limbs (((s * inv) % B) :: divexactOddGo d inv ((s * inv) % B) (s1 :: rest) 0) ∧
      (((s * inv) % B) :: divexactOddGo d inv ((s * inv) % B) (s1 :: rest) 0).length = rest.length + 1 + 1 := by
  have hd0 : 0 < d := by omega
  have hl0B : (s * inv) % B < B := Nat.mod_lt _ B_pos
  obtain ⟨cout, e, hL, hlen⟩ := divexactOddGo_spec d inv hd0 hdB hinv (s1 :: rest) ((s * inv) % B) 0 hl0B (by omega) hrest
  have hq := hensel_limb s d inv hs hinv
  rw [List.length_cons, Nat.zero_add] at e
  rw [List.length_cons] at hlen
  generalize (s * inv) % B = l0 at *
  generalize divexactOddGo d inv l0 (s1 :: rest) 0 = out at *
  have hLq : Limbs (l0 :: out) := Limbs_cons.mpr ⟨hl0B, hL⟩
  have hlenq : (l0 :: out).length = rest.length + 1 + 1 := by rw [List.length_cons, hlen]
  have hQ := val_lt_pow _ _ hLq hlenq
  have e' : val (s :: s1 :: rest) + cout * B ^ (rest.length + 1 + 1) = d * val (l0 :: out) := by
    rw [val_cons, val_cons l0]
    generalize val out = Vo at *
    generalize val (s1 :: rest) = Vr at *
    generalize l0 * d / B = h0 at *
    have : s + B * Vr + cout * B ^ (rest.length + 1 + 1) = s + B * (Vr + cout * B ^ (rest.length + 1)) := by
      rw [pow_succ _ (rest.length + 1)]; ring
    rw [this, e]
    have : d * (l0 + B * Vo) = l0 * d + B * (d * Vo) := by ring
    rw [this, hq]; ring
  have := exact_finish d _ _ cout _ hodd e' hQ hdvd
  exact ⟨by rw [this]; ring, hLq, hlenq⟩

/-- mpn_divexact_1: exact quotient whenever the divisor divides the dividend -/
theorem divexact_1_spec (src : List Nat) (d : Nat) (hsrc : Limbs src) (hne : src ≠ []) (hd0 : 0 < d) (hdB : d < B)
    (hdvd : d ∣ val src) :
    val (divexact_1 src d) * d = val src ∧ Limbs (divexact_1 src d) ∧ (divexact_1 src d).length = src.length := by
  cases src with
  | nil => exact absurd rfl hne
  | cons s rest =>
  have ⟨hs, hrest⟩ := Limbs_cons.mp hsrc
  cases rest with
  | nil =>
    show val [s / d] * d = val [s] ∧ Limbs [s / d] ∧ _
    have hv : ∀ x, val [x] = x := fun x => by rw [val_cons, val_nil, Nat.mul_zero, Nat.add_zero]
    rw [hv, hv] at *
    exact ⟨Nat.div_mul_cancel hdvd, Limbs_cons.mpr ⟨Nat.lt_of_le_of_lt (Nat.div_le_self _ _) hs, Limbs_nil⟩, rfl⟩
  | cons s1 rest =>
  -- the odd part of the divisor and its inverse
  obtain ⟨sh, hsh_def, hshdvd, hodd, hsh63⟩ : ∃ sh, (if d &&& 1 = 0 then count_trailing_zeros d else 0) = sh ∧
      2 ^ sh ∣ d ∧ (d / 2 ^ sh) % 2 = 1 ∧ sh ≤ 63 := by
    have h1 : d &&& 1 = d % 2 := by
      have : (1 : Nat) = 2 ^ 1 - 1 := by norm_num
      rw [this, Nat.and_two_pow_sub_one_eq_mod]
    rw [h1]
    by_cases he : d % 2 = 0
    · obtain ⟨a, b, c⟩ := ctz_spec d hd0 hdB
      exact ⟨_, if_pos he, a, b, c⟩
    · refine ⟨0, if_neg he, ?_, ?_, by omega⟩
      · rw [pow_zero]; exact one_dvd d
      · rw [pow_zero, Nat.div_one]; omega
  have hp : 0 < 2 ^ sh := by positivity
  obtain ⟨d', hd'⟩ := hshdvd
  have hdd : d / 2 ^ sh = d' := by rw [hd', Nat.mul_div_cancel_left _ hp]
  rw [hdd] at hodd
  have hd'B : d' < B := by
    have : d' ≤ d := by rw [hd']; exact Nat.le_mul_of_pos_left _ hp
    omega
  have hinv := modlimb_invert_mul d' hodd
  have hn : (s :: s1 :: rest).length = rest.length + 1 + 1 := rfl
  rw [hn]
  have hunf : divexact_1 (s :: s1 :: rest) d =
      if sh != 0 then divexactEvenGo d' (modlimb_invert d') sh s (s1 :: rest) 0
      else ((s * modlimb_invert d') % B) :: divexactOddGo d' (modlimb_invert d') ((s * modlimb_invert d') % B) (s1 :: rest) 0 := by
    unfold divexact_1
    simp only
    rw [hsh_def, Nat.shiftRight_eq_div_pow, hdd]
  rw [hunf]
  by_cases h0 : sh = 0
  · subst h0
    have hdd' : d = d' := by rw [hd', pow_zero, Nat.one_mul]
    subst hdd'
    simp only [bne_self_eq_false, Bool.false_eq_true, if_false]
    exact divexact_odd_branch s s1 rest d _ hs hrest hodd hdB hinv hdvd
  · have hne0 : (sh != 0) = true := by simpa using h0
    simp only [hne0, if_true]
    exact divexact_even_branch s s1 rest d d' sh _ hs hrest hd' hodd hd'B hinv (by omega) hsh63 hdvd


/-! ### udiv_qr_3by2 (Möller–Granlund 3/2 division) -/

/-- The arithmetic core, over ℤ with abstract radix: with `(B+v)·d = B³ − k`, `1 ≤ k ≤ d`,
    `B²/2 ≤ d < B²`, `⟨n2,n1⟩ < d` and `n2·(v+B) + n1 = q1·B + q0`, the candidate remainder
    `r = n − (q1+1)·d` lies in `[−d, B²)`, is `≥ −(B−q0)·B`, and `r ≥ q0·B` forces `r < B² − d`. -/
theorem threeby2_core (B d v k n2 n1 n0 q1 q0 r : ℤ)
    (hB : 0 < B) (hd1 : B * B ≤ 2 * d) (hd2 : d < B * B)
    (hv : 0 ≤ v) (hk1 : 1 ≤ k) (hk2 : k ≤ d) (hm : (B + v) * d = B * B * B - k)
    (hn2 : 0 ≤ n2) (hn1 : 0 ≤ n1) (hn1' : n1 < B) (hn0 : 0 ≤ n0) (hn0' : n0 < B)
    (hN : n2 * B + n1 < d)
    (hq0 : 0 ≤ q0) (hq0' : q0 < B) (hX : n2 * (v + B) + n1 = q1 * B + q0)
    (hr : r = n2 * (B * B) + n1 * B + n0 - (q1 + 1) * d) :
    -d ≤ r ∧ r < B * B ∧ -(B - q0) * B ≤ r ∧ (q0 * B ≤ r → r < B * B - d) := by
  have hBB : 0 < B * B := mul_pos hB hB
  have hd0 : 0 < d := by linarith
  -- key identity
  have key : r * B = n1 * (B * B - d) + n0 * B + n2 * k - (B - q0) * d := by
    have h1 : q1 * B * d = (n2 * (v + B) + n1 - q0) * d := by rw [hX]; ring
    have h2 : n2 * ((B + v) * d) = n2 * (B * B * B - k) := by rw [hm]
    rw [hr]
    linear_combination (-1 : ℤ) * h1 - h2
  have he : 0 < B * B - d := by linarith
  have hn2k : 0 ≤ n2 * k := mul_nonneg hn2 (by linarith)
  have hn1e : 0 ≤ n1 * (B * B - d) := mul_nonneg hn1 (le_of_lt he)
  have hn0B : 0 ≤ n0 * B := mul_nonneg hn0 (le_of_lt hB)
  have ht1 : 1 ≤ B - q0 := by linarith
  have htB : B - q0 ≤ B := by linarith
  -- n2 ≤ B - 1
  have hn2lt : n2 ≤ B - 1 := by
    have : n2 * B < B * B := by linarith
    have : n2 < B := lt_of_mul_lt_mul_right this (le_of_lt hB)
    linarith
  have h1 : n1 * (B * B - d) ≤ (B - 1) * (B * B - d) := mul_le_mul_of_nonneg_right (by linarith) (le_of_lt he)
  have h2 : n0 * B ≤ (B - 1) * B := mul_le_mul_of_nonneg_right (by linarith) (le_of_lt hB)
  have h3 : n2 * k ≤ (B - 1) * d :=
    le_trans (mul_le_mul_of_nonneg_right hn2lt (by linarith)) (mul_le_mul_of_nonneg_left hk2 (by linarith))
  have h4 : 1 * d ≤ (B - q0) * d := mul_le_mul_of_nonneg_right ht1 (le_of_lt hd0)
  have h5 : (B - q0) * d ≤ B * d := mul_le_mul_of_nonneg_right htB (le_of_lt hd0)
  have h6 : (B - q0) * d ≤ (B - q0) * (B * B) := mul_le_mul_of_nonneg_left (le_of_lt hd2) (by linarith)
  refine ⟨?_, ?_, ?_, ?_⟩
  · -- r ≥ -d
    have : (-d) * B ≤ r * B := by rw [key]; linarith
    exact le_of_mul_le_mul_right this hB
  · -- r < B²
    have : r * B < (B * B) * B := by rw [key]; linarith
    exact lt_of_mul_lt_mul_right this (le_of_lt hB)
  · -- r ≥ -(B-q0) B
    have : (-(B - q0) * B) * B ≤ r * B := by rw [key]; linarith
    exact le_of_mul_le_mul_right this hB
  · intro hge
    -- (★★): B (n2 k + n1 e + B²) ≤ B² d + e²
    have hvd : v * d = B * (B * B - d) - k := by linear_combination hm
    have hvd0 : 0 ≤ v * d := mul_nonneg hv (le_of_lt hd0)
    have s1 : (B * n2) * k ≤ (d - 1 - n1) * k := mul_le_mul_of_nonneg_right (by linarith) (by linarith)
    have s2 : n1 * (v * d) ≤ (B - 1) * (v * d) := mul_le_mul_of_nonneg_right (by linarith) hvd0
    have hdB : 0 ≤ d - B := by nlinarith
    have s3 : (B * (B * B - d) - d) * (d - B) ≤ (v * d) * (d - B) :=
      mul_le_mul_of_nonneg_right (by linarith) hdB
    have star : B * (n2 * k + n1 * (B * B - d) + B * B) ≤ B * B * d + (B * B - d) * (B * B - d) := by
      have e1 : n1 * (v * d) = n1 * (B * (B * B - d)) - n1 * k := by rw [hvd]; ring
      have e2 : (B - 1) * (v * d) = (B - 1) * (B * (B * B - d) - k) := by rw [hvd]
      nlinarith [s1, s2, s3, e1, e2]
    by_contra hnot
    rw [not_lt] at hnot
    have g1 : (q0 * B) * B ≤ r * B := mul_le_mul_of_nonneg_right hge (le_of_lt hB)
    have g2 : (B * B - d) * B ≤ r * B := mul_le_mul_of_nonneg_right hnot (le_of_lt hB)
    rw [key] at g1 g2
    have a1 : B * B * B - n0 * B - n2 * k - n1 * (B * B - d) ≤ (B - q0) * (B * B - d) := by linarith
    have a2 : (B - q0) * d ≤ n2 * k + n0 * B - (B - n1) * (B * B - d) := by linarith
    have m1 := mul_le_mul_of_nonneg_right a1 (le_of_lt hd0)
    have m2 := mul_le_mul_of_nonneg_right a2 (le_of_lt he)
    have c1 : (B - q0) * (B * B - d) * d = (B - q0) * d * (B * B - d) := by ring
    have k1 : (B * B * B - n0 * B - n2 * k - n1 * (B * B - d)) * d ≤
        (n2 * k + n0 * B - (B - n1) * (B * B - d)) * (B * B - d) := by linarith
    have k2 := mul_le_mul_of_nonneg_left star (le_of_lt hB)
    have k3 : n0 * (B * B * B) ≤ (B - 1) * (B * B * B) :=
      mul_le_mul_of_nonneg_right (by linarith) (le_of_lt (mul_pos hBB hB))
    have k4 : 0 < B * B * B := mul_pos hBB hB
    linarith [k1, k2, k3, k4]

/-- two-limb results of add_ssaaaa / sub_ddmmss are the limbs of the value modulo B² -/
theorem pair2_mod (V : Nat) : (V / B % B, V % B) = ((V % (B * B)) / B, (V % (B * B)) % B) := by
  have hB := B_pos
  refine Prod.ext ?_ ?_
  · show V / B % B = V % (B * B) / B
    rw [Nat.mod_mul_right_div_self]
  · show V % B = V % (B * B) % B
    rw [Nat.mod_mul_left_mod]

theorem add2_eq (R d1 d0 : Nat) :
    add_ssaaaa (R / B) (R % B) d1 d0 = (((R + (d1 * B + d0)) % (B * B)) / B, ((R + (d1 * B + d0)) % (B * B)) % B) := by
  rw [add_ssaaaa_eq, Nat.div_add_mod', pair2_mod]

theorem sub2_eq (R d1 d0 : Nat) (hR : R < B * B) (h1 : d1 < B) (h0 : d0 < B) :
    sub_ddmmss (R / B) (R % B) d1 d0 =
      (((R + B * B - (d1 * B + d0)) % (B * B)) / B, ((R + B * B - (d1 * B + d0)) % (B * B)) % B) := by
  have hB := B_pos
  rw [sub_ddmmss_eq _ _ _ _ ((Nat.div_lt_iff_lt_mul hB).mpr hR) (Nat.mod_lt _ hB) h1 h0, Nat.div_add_mod', pair2_mod]

/-- lexicographic comparison of two-limb numbers as written in the C -/
theorem lex_ge (R d1 d0 : Nat) (h0 : d0 < B) :
    (decide (R / B ≥ d1) && (decide (R / B > d1) || decide (R % B ≥ d0))) = decide (R ≥ d1 * B + d0) := by
  have hB := B_pos
  have h := Nat.div_add_mod' R B
  have hm := Nat.mod_lt R hB
  generalize R / B = a at *
  generalize R % B = b at *
  rw [← h]
  by_cases c1 : a > d1
  · have : a * B + b ≥ d1 * B + d0 := by
      have : (d1 + 1) * B ≤ a * B := Nat.mul_le_mul_right _ c1
      have : (d1 + 1) * B = d1 * B + B := by ring
      omega
    simp [c1, this, Nat.le_of_lt c1]
  · by_cases c2 : a = d1
    · subst c2; simp
    · have c3 : a < d1 := by omega
      have : ¬ (a * B + b ≥ d1 * B + d0) := by
        have : (a + 1) * B ≤ d1 * B := Nat.mul_le_mul_right _ c3
        have : (a + 1) * B = a * B + B := by ring
        omega
      simp [c1, this, Nat.not_le.mpr c3]


theorem natCast_mod_modEq (a n : Nat) : ((a % n : ℕ) : ℤ) ≡ (a : ℤ) [ZMOD (n : ℤ)] := by
  rw [Int.natCast_mod]; exact Int.mod_modEq _ _

/-- the remainder limbs computed by udiv_qr_3by2 are n − (q+1)·d modulo B² -/
theorem tb2Rem_spec (q n1 n0 d1 d0 : Nat) (hq : q < B) (hn1 : n1 < B) (hn0 : n0 < B) (hd1 : d1 < B) (hd0 : d0 < B) :
    ∃ R, R < B * B ∧ tb2Rem q n1 n0 d1 d0 = (R / B, R % B) ∧
      (R : ℤ) ≡ (n1 : ℤ) * B + n0 - (q + 1) * (d1 * B + d0) [ZMOD ((B : ℤ) * B)] := by
  have hB := B_pos
  have hBB : 0 < B * B := Nat.mul_pos hB hB
  unfold tb2Rem
  simp only [umul_ppmm_eq]
  have ha1B : (n1 + B - (d1 * q) % B) % B < B := Nat.mod_lt _ hB
  have ha1 : (((n1 + B - (d1 * q) % B) % B : ℕ) : ℤ) ≡ (n1 : ℤ) - d1 * q [ZMOD (B : ℤ)] := by
    refine (natCast_mod_modEq _ _).trans ?_
    have hle : (d1 * q) % B ≤ n1 + B := by have := Nat.mod_lt (d1 * q) hB; omega
    rw [Nat.cast_sub hle]
    push_cast
    have h1 : ((d1 : ℤ) * q) % B ≡ d1 * q [ZMOD (B : ℤ)] := Int.mod_modEq _ _
    have h2 : (n1 : ℤ) + B ≡ n1 + 0 [ZMOD (B : ℤ)] := Int.ModEq.add_left _ (Int.modEq_iff_dvd.mpr ⟨-1, by ring⟩)
    rw [add_zero] at h2
    exact h2.sub h1
  generalize (n1 + B - (d1 * q) % B) % B = a1 at *
  rw [sub_ddmmss_eq a1 n0 d1 d0 ha1B hn0 hd1 hd0, pair2_mod]
  have hdlt : d1 * B + d0 < B * B := by
    have : (d1 + 1) * B ≤ B * B := Nat.mul_le_mul_right _ hd1
    have : (d1 + 1) * B = d1 * B + B := by ring
    omega
  have hR2 : (a1 * B + n0 + B * B - (d1 * B + d0)) % (B * B) < B * B := Nat.mod_lt _ hBB
  have hR2m : (((a1 * B + n0 + B * B - (d1 * B + d0)) % (B * B) : ℕ) : ℤ) ≡
      (a1 : ℤ) * B + n0 - (d1 * B + d0) [ZMOD ((B : ℤ) * B)] := by
    have := natCast_mod_modEq (a1 * B + n0 + B * B - (d1 * B + d0)) (B * B)
    rw [Nat.cast_sub (by omega)] at this
    push_cast at this
    refine this.trans ?_
    rw [Int.modEq_iff_dvd]; exact ⟨-1, by ring⟩
  generalize (a1 * B + n0 + B * B - (d1 * B + d0)) % (B * B) = R2 at *
  simp only
  have hT : d0 * q < B * B := by
    have h1 : d0 * q ≤ d0 * B := Nat.mul_le_mul_left _ (Nat.le_of_lt hq)
    have h2 : d0 * B < B * B := Nat.mul_lt_mul_of_pos_right hd0 hB
    omega
  rw [sub2_eq R2 _ _ hR2 ((Nat.div_lt_iff_lt_mul hB).mpr hT) (Nat.mod_lt _ hB), Nat.div_add_mod']
  refine ⟨(R2 + B * B - d0 * q) % (B * B), Nat.mod_lt _ hBB, rfl, ?_⟩
  have h3 := natCast_mod_modEq (R2 + B * B - d0 * q) (B * B)
  rw [Nat.cast_sub (by omega)] at h3
  push_cast at h3
  refine h3.trans ?_
  have h4 : (R2 : ℤ) + B * B - d0 * q ≡ R2 - d0 * q [ZMOD ((B : ℤ) * B)] := by
    rw [Int.modEq_iff_dvd]; exact ⟨-1, by ring⟩
  refine h4.trans ?_
  have h5 : (a1 : ℤ) * B ≡ ((n1 : ℤ) - d1 * q) * B [ZMOD ((B : ℤ) * B)] := Int.ModEq.mul_right' ha1
  have h6 : (R2 : ℤ) - d0 * q ≡ (((n1 : ℤ) - d1 * q) * B + n0 - (d1 * B + d0)) - d0 * q [ZMOD ((B : ℤ) * B)] := by
    refine Int.ModEq.sub_right _ (hR2m.trans ?_)
    exact (h5.add_right _).sub_right _
  refine h6.trans ?_
  have : (((n1 : ℤ) - d1 * q) * B + n0 - (d1 * B + d0)) - d0 * q = (n1 : ℤ) * B + n0 - (q + 1) * (d1 * B + d0) := by ring
  rw [this]


/-- the unlikely second correction, in terms of the two-limb value -/
theorem tb2Adj2_eq (q R d1 d0 : Nat) (hR : R < B * B) (hd1 : d1 < B) (hd0 : d0 < B) :
    tb2Adj2 q (R / B) (R % B) d1 d0 =
      if R ≥ d1 * B + d0 then ((q + 1) % B, (R - (d1 * B + d0)) / B, (R - (d1 * B + d0)) % B)
      else (q, R / B, R % B) := by
  have hBB : 0 < B * B := Nat.mul_pos B_pos B_pos
  have hlex := lex_ge R d1 d0 hd0
  unfold tb2Adj2
  by_cases h : R ≥ d1 * B + d0
  · rw [if_pos h]
    simp only [h, decide_true, Bool.and_eq_true, decide_eq_true_eq] at hlex
    rw [if_pos hlex.1]
    have h2 : (decide (R / B > d1) || decide (R % B ≥ d0)) = true := hlex.2
    rw [if_pos h2, sub2_eq R d1 d0 hR hd1 hd0]
    have : (R + B * B - (d1 * B + d0)) % (B * B) = R - (d1 * B + d0) := by
      have : R + B * B - (d1 * B + d0) = (R - (d1 * B + d0)) + B * B := by omega
      rw [this, Nat.add_mod_right, Nat.mod_eq_of_lt (by omega)]
    rw [this]
  · rw [if_neg h]
    simp only [h, decide_false] at hlex
    by_cases h1 : R / B ≥ d1
    · rw [if_pos h1]
      have h2 : (decide (R / B > d1) || decide (R % B ≥ d0)) = false := by
        simpa [h1] using hlex
      rw [h2]; rfl
    · rw [if_neg h1]

theorem divmod_of_eq (n d q r : Nat) (h : n = q * d + r) (hr : r < d) : n / d = q ∧ n % d = r := by
  have hd0 : 0 < d := by omega
  have hq : n / d = q := Nat.div_eq_of_lt_le (by omega) (by rw [Nat.add_mul, Nat.one_mul]; omega)
  have hm := Nat.div_add_mod n d
  rw [hq, Nat.mul_comm] at hm
  exact ⟨hq, by omega⟩

/-- the two conditional corrections of udiv_qr_3by2 deliver the Euclidean quotient and remainder -/
theorem tb2Adjust_spec (q1 q0 R d1 d0 n : Nat) (hd1 : d1 < B) (hd0 : d0 < B) (hnorm : B * B ≤ 2 * (d1 * B + d0))
    (hq0 : q0 < B) (hR : R < B * B) (hn : n < (d1 * B + d0) * B)
    (hmod : (R : ℤ) ≡ (n : ℤ) - ((q1 : ℤ) + 1) * ((d1 * B + d0 : ℕ) : ℤ) [ZMOD ((B : ℤ) * B)])
    (c1 : -((d1 * B + d0 : ℕ) : ℤ) ≤ (n : ℤ) - ((q1 : ℤ) + 1) * ((d1 * B + d0 : ℕ) : ℤ))
    (c2 : (n : ℤ) - ((q1 : ℤ) + 1) * ((d1 * B + d0 : ℕ) : ℤ) < (B : ℤ) * B)
    (c3 : -((B : ℤ) - q0) * B ≤ (n : ℤ) - ((q1 : ℤ) + 1) * ((d1 * B + d0 : ℕ) : ℤ))
    (c4 : (q0 : ℤ) * B ≤ (n : ℤ) - ((q1 : ℤ) + 1) * ((d1 * B + d0 : ℕ) : ℤ) →
      (n : ℤ) - ((q1 : ℤ) + 1) * ((d1 * B + d0 : ℕ) : ℤ) < (B : ℤ) * B - ((d1 * B + d0 : ℕ) : ℤ)) :
    tb2Adjust ((q1 + 1) % B) q0 (R / B) (R % B) d1 d0 =
      (n / (d1 * B + d0), (n % (d1 * B + d0)) / B, (n % (d1 * B + d0)) % B) := by
  have hB := B_pos
  have hBB : 0 < B * B := Nat.mul_pos hB hB
  have hdlt : d1 * B + d0 < B * B := by
    have : (d1 + 1) * B ≤ B * B := Nat.mul_le_mul_right _ hd1
    have : (d1 + 1) * B = d1 * B + B := by ring
    omega
  unfold tb2Adjust
  rw [add2_eq]
  -- abbreviate d, keeping the limb form where the C compares limbs
  have hA2 := fun q R hR => tb2Adj2_eq q R d1 d0 hR hd1 hd0
  generalize d1 * B + d0 = d at *
  have hd0' : 0 < d := by omega
  -- P = q1 * d as an atom
  have hP : ((q1 : ℤ) + 1) * (d : ℤ) = ((q1 * d : ℕ) : ℤ) + d := by push_cast; ring
  rw [hP] at hmod c1 c2 c3 c4
  have hPq : (q1 + 1) * d = q1 * d + d := by ring
  have hPq2 : (q1 + 2) * d = q1 * d + 2 * d := by ring
  have hq0B : (q0 : ℤ) * B = ((q0 * B : ℕ) : ℤ) := by push_cast; ring
  have hBBz : (B : ℤ) * B = ((B * B : ℕ) : ℤ) := by push_cast; ring
  rw [hBBz] at hmod c2 c4
  rw [hq0B] at c4
  have hc3 : -(((B * B : ℕ) : ℤ) - ((q0 * B : ℕ) : ℤ)) ≤ (n : ℤ) - (((q1 * d : ℕ) : ℤ) + d) := by
    have : -((B : ℤ) - q0) * B = -(((B * B : ℕ) : ℤ) - ((q0 * B : ℕ) : ℤ)) := by push_cast; ring
    rw [← this]; exact c3
  obtain ⟨j, hj⟩ := Int.modEq_iff_dvd.mp hmod
  have hq1B : q1 * d < B * d := by rw [Nat.mul_comm B d]; omega
  have hq1lt : q1 < B := Nat.lt_of_mul_lt_mul_right hq1B
  have hdiv_le : ∀ a, q0 ≤ a / B ↔ q0 * B ≤ a := fun a => Nat.le_div_iff_mul_le hB
  generalize hPdef : q1 * d = P at *
  generalize hQdef : q0 * B = Q0 at *
  by_cases hneg : (n : ℤ) - ((P : ℤ) + d) < 0
  · -- candidate remainder negative: R = r̃ + B²
    have hj1 : j = -1 := by
      have h1 : ((B * B : ℕ) : ℤ) * j < 0 := by omega
      have h2 : -2 * ((B * B : ℕ) : ℤ) < ((B * B : ℕ) : ℤ) * j := by omega
      have hpos : (0 : ℤ) < ((B * B : ℕ) : ℤ) := by exact_mod_cast hBB
      have : j < 0 := by
        by_contra hc; rw [not_lt] at hc
        have := mul_nonneg (le_of_lt hpos) hc; omega
      have : -2 < j := by
        by_contra hc; rw [not_lt] at hc
        have : ((B * B : ℕ) : ℤ) * j ≤ ((B * B : ℕ) : ℤ) * (-2) := mul_le_mul_of_nonneg_left hc (le_of_lt hpos)
        omega
      omega
    rw [hj1] at hj
    have hRn : R + P + d = n + B * B := by omega
    have hge : q0 ≤ R / B := by rw [hdiv_le]; omega
    rw [if_pos hge]
    have hR' : (R + d) % (B * B) = R + d - B * B := by
      have : R + d = (R + d - B * B) + B * B := by omega
      rw [this, Nat.add_mod_right, Nat.mod_eq_of_lt (by omega)]
      omega
    rw [hR']
    simp only
    rw [hA2 _ _ (by omega), if_neg (by omega)]
    obtain ⟨e1, e2⟩ := divmod_of_eq n d q1 (R + d - B * B) (by rw [hPdef]; omega) (by omega)
    rw [e1, e2]
    have : ((q1 + 1) % B + B - 1) % B = q1 := by simp only [B_eq] at *; omega
    rw [this]
  · -- candidate remainder nonnegative: R = r̃
    have hj0 : j = 0 := by
      have hpos : (0 : ℤ) < ((B * B : ℕ) : ℤ) := by exact_mod_cast hBB
      have h1 : -((B * B : ℕ) : ℤ) < ((B * B : ℕ) : ℤ) * j := by omega
      have h2 : ((B * B : ℕ) : ℤ) * j < ((B * B : ℕ) : ℤ) := by omega
      have : -1 < j := by
        by_contra hc; rw [not_lt] at hc
        have : ((B * B : ℕ) : ℤ) * j ≤ ((B * B : ℕ) : ℤ) * (-1) := mul_le_mul_of_nonneg_left hc (le_of_lt hpos)
        omega
      have : j < 1 := by
        by_contra hc; rw [not_lt] at hc
        have : ((B * B : ℕ) : ℤ) * 1 ≤ ((B * B : ℕ) : ℤ) * j := mul_le_mul_of_nonneg_left hc (le_of_lt hpos)
        omega
      omega
    rw [hj0] at hj
    have hRn : R + P + d = n := by omega
    have hq1B' : q1 + 1 < B := by
      have : (q1 + 1) * d < B * d := by rw [hPq, Nat.mul_comm B d]; omega
      exact Nat.lt_of_mul_lt_mul_right this
    have hq1' : (q1 + 1) % B = q1 + 1 := Nat.mod_eq_of_lt hq1B'
    by_cases hge : q0 ≤ R / B
    · rw [if_pos hge]
      rw [hdiv_le] at hge
      have hlt : R + d < B * B := by omega
      rw [Nat.mod_eq_of_lt hlt]
      simp only
      rw [hA2 _ _ hlt, if_pos (by omega)]
      obtain ⟨e1, e2⟩ := divmod_of_eq n d (q1 + 1) R (by rw [hPq]; omega) (by omega)
      rw [e1, e2, hq1', Nat.add_sub_cancel]
      have : ((q1 + 1 + B - 1) % B + 1) % B = q1 + 1 := by simp only [B_eq] at *; omega
      rw [this]
    · rw [if_neg hge, hA2 _ _ hR]
      by_cases hRd : R ≥ d
      · rw [if_pos hRd]
        have hq2B : q1 + 2 < B := by
          have : (q1 + 2) * d < B * d := by rw [hPq2, Nat.mul_comm B d]; omega
          exact Nat.lt_of_mul_lt_mul_right this
        obtain ⟨e1, e2⟩ := divmod_of_eq n d (q1 + 2) (R - d) (by rw [hPq2]; omega) (by omega)
        rw [e1, e2, hq1', Nat.mod_eq_of_lt hq2B]
      · rw [if_neg hRd]
        obtain ⟨e1, e2⟩ := divmod_of_eq n d (q1 + 1) R (by rw [hPq]; omega) (by omega)
        rw [e1, e2, hq1']

/-- bounds for a reciprocal `v = ⌊(M−1)/d⌋ − B` with `B·d < M ≤ 2·B·d` -/
theorem recip_bounds (M d : Nat) (hd0 : 0 < d) (h1 : B * d < M) (h2 : M ≤ 2 * B * d) :
    (M - 1) / d - B < B ∧ (B + ((M - 1) / d - B)) * d ≤ M - 1 ∧ M - 1 < (B + ((M - 1) / d - B) + 1) * d := by
  have hQ : B ≤ (M - 1) / d := by rw [Nat.le_div_iff_mul_le hd0]; omega
  have hlt : (M - 1) / d < B + B := by
    rw [Nat.div_lt_iff_lt_mul hd0]
    have : (B + B) * d = 2 * B * d := by ring
    omega
  have hm1 := Nat.div_mul_le_self (M - 1) d
  have hm2 : M - 1 < ((M - 1) / d + 1) * d := by
    have := Nat.lt_mul_div_succ (M - 1) hd0
    rwa [Nat.mul_comm d] at this
  generalize (M - 1) / d = Q at *
  have e : B + (Q - B) = Q := by omega
  rw [e]
  exact ⟨by omega, hm1, hm2⟩

/-- udiv_qr_3by2 with the exact 3/2 reciprocal returns the Euclidean quotient and two-limb remainder -/
theorem udiv_qr_3by2_eq (n2 n1 n0 d1 d0 dinv : Nat) (hn2 : n2 < B) (hn1 : n1 < B) (hn0 : n0 < B)
    (hd1 : d1 < B) (hd0 : d0 < B) (hnorm : B / 2 ≤ d1) (hN : n2 * B + n1 < d1 * B + d0)
    (hdinv : dinv = (B * B * B - 1) / (d1 * B + d0) - B) :
    udiv_qr_3by2 n2 n1 n0 d1 d0 dinv =
      ((n2 * B * B + n1 * B + n0) / (d1 * B + d0),
       ((n2 * B * B + n1 * B + n0) % (d1 * B + d0)) / B,
       ((n2 * B * B + n1 * B + n0) % (d1 * B + d0)) % B) := by
  have hB := B_pos
  have hBB : 0 < B * B := Nat.mul_pos hB hB
  have hdlt : d1 * B + d0 < B * B := by
    have : (d1 + 1) * B ≤ B * B := Nat.mul_le_mul_right _ hd1
    have : (d1 + 1) * B = d1 * B + B := by ring
    omega
  have hdge : B * B ≤ 2 * (d1 * B + d0) := by
    have h : B ≤ 2 * d1 := by simp only [B_eq] at *; omega
    have : B * B ≤ 2 * d1 * B := Nat.mul_le_mul_right _ h
    have : 2 * (d1 * B + d0) = 2 * d1 * B + 2 * d0 := by ring
    omega
  have hdpos : 0 < d1 * B + d0 := by omega
  obtain ⟨hvB, hv1, hv2⟩ := recip_bounds (B * B * B) (d1 * B + d0) hdpos
    (by rw [Nat.mul_assoc]; exact Nat.mul_lt_mul_of_pos_left hdlt hB)
    (by have : 2 * B * (d1 * B + d0) = B * (2 * (d1 * B + d0)) := by ring
        rw [this, Nat.mul_assoc]; exact Nat.mul_le_mul_left _ hdge)
  rw [← hdinv] at hvB hv1 hv2
  have hnlt : n2 * B * B + n1 * B + n0 < (d1 * B + d0) * B := by
    have : (n2 * B + n1 + 1) * B ≤ (d1 * B + d0) * B := Nat.mul_le_mul_right _ hN
    have : (n2 * B + n1 + 1) * B = n2 * B * B + n1 * B + B := by ring
    omega
  unfold udiv_qr_3by2
  rw [umul_ppmm_eq]
  simp only
  rw [add_ssaaaa_eq, Nat.div_add_mod']
  simp only
  have hq0B : (n2 * dinv + (n2 * B + n1)) % B < B := Nat.mod_lt _ hB
  have hXdm := Nat.div_add_mod (n2 * dinv + (n2 * B + n1)) B
  generalize hd : d1 * B + d0 = d at *
  generalize (n2 * dinv + (n2 * B + n1)) / B = q1 at *
  generalize (n2 * dinv + (n2 * B + n1)) % B = q0 at *
  -- the core estimate over ℤ
  have hBBB : 0 < B * B * B := Nat.mul_pos hBB hB
  have core := threeby2_core (B : ℤ) d dinv ((B : ℤ) * B * B - ((B : ℤ) + dinv) * d) n2 n1 n0 q1 q0
    ((n2 : ℤ) * (B * B) + n1 * B + n0 - ((q1 : ℤ) + 1) * d)
    (Int.natCast_pos.mpr hB) (by have := Int.ofNat_le.mpr hdge; push_cast at this; exact this)
    (by have := Int.ofNat_lt.mpr hdlt; push_cast at this; exact this) (Int.natCast_nonneg _)
    (by have : (B + dinv) * d + 1 ≤ B * B * B := by omega
        have := Int.ofNat_le.mpr this; push_cast at this; linarith)
    (by have : B * B * B ≤ (B + dinv) * d + d := by
          have : (B + dinv + 1) * d = (B + dinv) * d + d := by ring
          omega
        have := Int.ofNat_le.mpr this; push_cast at this; linarith)
    (by ring) (Int.natCast_nonneg _) (Int.natCast_nonneg _) (Int.ofNat_lt.mpr hn1) (Int.natCast_nonneg _)
    (Int.ofNat_lt.mpr hn0)
    (by have := Int.ofNat_lt.mpr hN; push_cast at this; exact this) (Int.natCast_nonneg _) (Int.ofNat_lt.mpr hq0B)
    (by have := congrArg (Nat.cast : ℕ → ℤ) hXdm; push_cast at this; linarith) rfl
  obtain ⟨c1, c2, c3, c4⟩ := core
  -- q1 < B
  have hq1B : q1 < B := by
    have h : (q1 : ℤ) * d ≤ (n2 : ℤ) * (B * B) + n1 * B + n0 := by linarith
    have h' : q1 * d ≤ n2 * B * B + n1 * B + n0 := by
      have : ((q1 * d : ℕ) : ℤ) ≤ ((n2 * B * B + n1 * B + n0 : ℕ) : ℤ) := by push_cast; linarith
      exact_mod_cast this
    have : q1 * d < B * d := by rw [Nat.mul_comm B d]; omega
    exact Nat.lt_of_mul_lt_mul_right this
  rw [Nat.mod_eq_of_lt hq1B]
  obtain ⟨R, hR, hRe, hRm⟩ := tb2Rem_spec q1 n1 n0 d1 d0 hq1B hn1 hn0 hd1 hd0
  rw [hRe]
  simp only
  have hcast : ((n2 * B * B + n1 * B + n0 : ℕ) : ℤ) = (n2 : ℤ) * (B * B) + n1 * B + n0 := by push_cast; ring
  have hdcast : ((d1 * B + d0 : ℕ) : ℤ) = (d : ℤ) := by rw [hd]
  have hdcast' : (d1 : ℤ) * B + d0 = (d : ℤ) := by rw [← hdcast]; push_cast; ring
  have hmod : (R : ℤ) ≡ ((n2 * B * B + n1 * B + n0 : ℕ) : ℤ) - ((q1 : ℤ) + 1) * ((d1 * B + d0 : ℕ) : ℤ)
      [ZMOD ((B : ℤ) * B)] := by
    rw [hcast, hdcast]
    rw [hdcast'] at hRm
    refine hRm.trans ?_
    rw [Int.modEq_iff_dvd]; exact ⟨n2, by ring⟩
  have := tb2Adjust_spec q1 q0 R d1 d0 (n2 * B * B + n1 * B + n0) hd1 hd0 (by rw [hd]; exact hdge) hq0B hR
    (by rw [hd]; exact hnlt) hmod
    (by rw [hcast, hdcast]; exact c1) (by rw [hcast, hdcast]; exact c2) (by rw [hcast, hdcast]; exact c3)
    (by rw [hcast, hdcast]; exact c4)
  rw [hd] at this
  exact this


/-! ### mpir_invert_pi1 -/

/-- phase A: after absorbing d0 into the high limb, p = B − G with G = B² − (B+v)·d1 − d0 ∈ [1, d1] -/
theorem pi1PhaseA_spec (v0 k1 d1 d0 : Nat) (hY : (B + v0) * d1 + k1 = B * B) (hk1 : 1 ≤ k1) (hk2 : k1 ≤ d1)
    (hnorm : B / 2 ≤ d1) (hd1 : d1 < B) (hd0 : d0 < B) (hv0 : v0 < B) :
    ∃ j G, (pi1PhaseA v0 (((d1 * v0) % B + d0) % B) d1 d0).1 + j = v0 ∧ j ≤ 2 ∧
      (pi1PhaseA v0 (((d1 * v0) % B + d0) % B) d1 d0).2 + G = B ∧ 1 ≤ G ∧ G ≤ d1 ∧ G + d0 = k1 + j * d1 := by
  have hYe : d1 * v0 + B * d1 + k1 = B * B := by rw [← hY]; ring
  clear hY
  -- v0 ≥ 1 unless k1 > d0 ; v0 ≥ 2 unless k1 + d1 > d0
  have hv1 : d0 ≥ k1 → 1 ≤ v0 := by
    intro h; by_contra h3
    have : v0 = 0 := by omega
    subst this; simp only [B_eq, Nat.mul_zero] at *; omega
  have hv2 : d0 ≥ k1 + d1 → 2 ≤ v0 := by
    intro h; by_contra h3
    have : v0 = 0 ∨ v0 = 1 := by omega
    rcases this with rfl | rfl
    · simp only [B_eq, Nat.mul_zero] at *; omega
    · simp only [B_eq, Nat.mul_one] at *; omega
  have hYm : (d1 * v0) % B = B - k1 := by
    generalize d1 * v0 = Y at *
    simp only [B_eq] at *; omega
  rw [hYm]
  clear hYm hYe
  unfold pi1PhaseA
  by_cases hc : d0 ≥ k1
  · have hp2 : (B - k1 + d0) % B = d0 - k1 := by simp only [B_eq] at *; omega
    rw [hp2, if_pos (by omega)]
    by_cases hm : d0 - k1 ≥ d1
    · simp only [hm, if_true, and_mask d1 hd1]
      have := hv2 (by omega)
      refine ⟨2, k1 + 2 * d1 - d0, ?_, by omega, ?_, ?_, ?_, ?_⟩ <;> simp only [B_eq] at * <;> omega
    · simp only [hm, if_false, Nat.zero_and]
      have := hv1 hc
      refine ⟨1, k1 + d1 - d0, ?_, by omega, ?_, ?_, ?_, ?_⟩ <;> simp only [B_eq] at * <;> omega
  · have hp2 : (B - k1 + d0) % B = B - k1 + d0 := by simp only [B_eq] at *; omega
    rw [hp2, if_neg (by omega)]
    refine ⟨0, k1 - d0, ?_, by omega, ?_, ?_, ?_, ?_⟩ <;> simp only [B_eq] at * <;> omega

/-- phase B: F(v') = B·G − d0·v + j'·d lands in [1, d] -/
theorem pi1PhaseB_spec (v p G d1 d0 : Nat) (hp : p + G = B) (hG1 : 1 ≤ G) (hG2 : G ≤ d1) (hv : v < B)
    (hnorm : B / 2 ≤ d1) (hd1 : d1 < B) (hd0 : d0 < B) :
    ∃ j, pi1PhaseB v p d1 d0 + j = v ∧ j ≤ 2 ∧ 1 + d0 * v ≤ B * G + j * (d1 * B + d0) ∧
      B * G + j * (d1 * B + d0) ≤ d0 * v + (d1 * B + d0) := by
  have hT : d0 * v < B * B := by
    have h1 : d0 * v ≤ d0 * B := Nat.mul_le_mul_left _ (Nat.le_of_lt hv)
    have h2 : d0 * B < B * B := Nat.mul_lt_mul_of_pos_right hd0 B_pos
    omega
  have hv1 : d0 * v ≥ B → 1 ≤ v := by
    intro h; by_contra h3
    have : v = 0 := by omega
    subst this; simp only [B_eq, Nat.mul_zero] at *; omega
  have hv2 : d0 * v ≥ B → 2 ≤ v := by
    intro h; by_contra h3
    have : v = 0 ∨ v = 1 := by omega
    rcases this with rfl | rfl
    · simp only [B_eq, Nat.mul_zero] at *; omega
    · simp only [B_eq, Nat.mul_one] at *; omega
  unfold pi1PhaseB
  rw [umul_ppmm_eq]
  simp only
  generalize d0 * v = T at *
  by_cases hc : T / B ≥ G
  · have hp' : (p + T / B) % B = T / B - G := by simp only [B_eq] at *; omega
    rw [hp', if_pos (by simp only [B_eq] at *; omega)]
    have := hv2 (by simp only [B_eq] at *; omega)
    by_cases h1 : T / B - G ≥ d1
    · rw [if_pos h1]
      by_cases h2 : (decide (T / B - G > d1) || decide (T % B ≥ d0)) = true
      · rw [if_pos h2]
        simp only [Bool.or_eq_true, decide_eq_true_eq] at h2
        refine ⟨2, ?_, by omega, ?_, ?_⟩ <;> simp only [B_eq] at * <;> omega
      · rw [if_neg h2]
        simp only [Bool.or_eq_true, decide_eq_true_eq, not_or, not_lt, not_le] at h2
        refine ⟨1, ?_, by omega, ?_, ?_⟩ <;> simp only [B_eq] at * <;> omega
    · rw [if_neg h1]
      refine ⟨1, ?_, by omega, ?_, ?_⟩ <;> simp only [B_eq] at * <;> omega
  · have hp' : (p + T / B) % B = p + T / B := by simp only [B_eq] at *; omega
    rw [hp', if_neg (by omega)]
    refine ⟨0, ?_, by omega, ?_, ?_⟩ <;> simp only [B_eq] at * <;> omega

theorem invert_pi1_unfold (d1 d0 : Nat) :
    invert_pi1 d1 d0 =
      pi1PhaseB (pi1PhaseA (invert_limb d1) (((d1 * invert_limb d1) % B + d0) % B) d1 d0).1
        (pi1PhaseA (invert_limb d1) (((d1 * invert_limb d1) % B + d0) % B) d1 d0).2 d1 d0 := rfl

/-- mpir_invert_pi1 returns the 3/2 reciprocal ⌊(B³−1)/(d1·B+d0)⌋ − B for every normalised d1 and every d0 -/
theorem invert_pi1_eq (d1 d0 : Nat) (hnorm : B / 2 ≤ d1) (hd1 : d1 < B) (hd0 : d0 < B) :
    invert_pi1 d1 d0 = (B * B * B - 1) / (d1 * B + d0) - B := by
  obtain ⟨hv, hv1, hv2⟩ := invert_limb_bounds d1 hnorm hd1
  have hBB : 0 < B * B := Nat.mul_pos B_pos B_pos
  rw [invert_pi1_unfold]
  generalize invert_limb d1 = v0 at *
  -- k1 = B² − (B+v0)·d1
  obtain ⟨k1, hY, hk1, hk2⟩ : ∃ k1, (B + v0) * d1 + k1 = B * B ∧ 1 ≤ k1 ∧ k1 ≤ d1 := by
    refine ⟨B * B - (B + v0) * d1, by omega, by omega, ?_⟩
    have : (B + v0 + 1) * d1 = (B + v0) * d1 + d1 := by ring
    omega
  obtain ⟨j, G, hvA, hj, hpA, hG1, hG2, hGe⟩ := pi1PhaseA_spec v0 k1 d1 d0 hY hk1 hk2 hnorm hd1 hd0 hv
  generalize pi1PhaseA v0 (((d1 * v0) % B + d0) % B) d1 d0 = resA at *
  obtain ⟨vA, pA⟩ := resA
  have hvA : vA + j = v0 := hvA
  have hpA : pA + G = B := hpA
  show pi1PhaseB vA pA d1 d0 = _
  obtain ⟨j', hvB, hj', hF1, hF2⟩ := pi1PhaseB_spec vA pA G d1 d0 hpA hG1 hG2 (by omega) hnorm hd1 hd0
  generalize pi1PhaseB vA pA d1 d0 = vB at *
  -- (B + vB)·d + F = B³
  have e1 : (B + vA) * d1 + j * d1 + k1 = B * B := by rw [← hY, ← hvA]; ring
  have e2 : (B + vB) * (d1 * B + d0) + j' * (d1 * B + d0) = ((B + vA) * d1) * B + B * d0 + d0 * vA := by
    rw [← hvB]; ring
  have hd0' : 0 < d1 * B + d0 := by simp only [B_eq] at *; omega
  generalize hd : d1 * B + d0 = d at *
  have hjd : j * d1 ≤ 2 * d1 := Nat.mul_le_mul_right _ hj
  have hj'd : j' * d ≤ 2 * d := Nat.mul_le_mul_right _ hj'
  generalize (B + vA) * d1 = P at *
  generalize d0 * vA = Q at *
  generalize j * d1 = J at *
  generalize j' * d = J' at *
  generalize hE : (B + vB) * d = E at *
  have hBBB : B * B * B = 6277101735386680763835789423207666416102355444464034512896 := by
    rw [B_eq]
  have key : E + (B * G + J') = B * B * B + Q := by
    rw [hBBB]; simp only [B_eq] at *; omega
  have lo : (B + vB) * d ≤ B * B * B - 1 := by rw [hE]; omega
  have hi : B * B * B - 1 < (B + vB + 1) * d := by
    have : (B + vB + 1) * d = (B + vB) * d + d := by ring
    rw [this, hE]; omega
  rw [Nat.div_eq_of_lt_le lo hi]; omega


/-! ### mpn_divexact_by3c -/

theorem by3_core (dx ax δ r x : Nat) (hδ : δ ≤ 3) (hx : x = 3 * dx + δ)
    (hax : ax + dx = δ * 6148914691236517205) (hxB : x < 18446744073709551616) (hr : r ≤ 2) :
    ∃ r', r' ≤ 2 ∧
      (((6148914691236517205 * r + 18446744073709551616 - ax) % 18446744073709551616 + 18446744073709551616 -
        (dx + (if (6148914691236517205 * r + 18446744073709551616 - ax) % 18446744073709551616 > 6148914691236517205 * r then 1 else 0)) % 18446744073709551616) % 18446744073709551616)
        = 6148914691236517205 * r' ∧
      x + r' * 18446744073709551616 = 3 * ((6148914691236517205 * r + 18446744073709551616 - ax) % 18446744073709551616) + r := by
  have hδ4 : δ = 0 ∨ δ = 1 ∨ δ = 2 ∨ δ = 3 := by omega
  have hr3 : r = 0 ∨ r = 1 ∨ r = 2 := by omega
  rcases hδ4 with rfl | rfl | rfl | rfl <;> rcases hr3 with rfl | rfl | rfl
  · exact ⟨0, by omega, by split <;> omega, by omega⟩
  · exact ⟨1, by omega, by split <;> omega, by omega⟩
  · exact ⟨2, by omega, by split <;> omega, by omega⟩
  · exact ⟨2, by omega, by split <;> omega, by omega⟩
  · exact ⟨0, by omega, by split <;> omega, by omega⟩
  · exact ⟨1, by omega, by split <;> omega, by omega⟩
  · exact ⟨1, by omega, by split <;> omega, by omega⟩
  · exact ⟨2, by omega, by split <;> omega, by omega⟩
  · exact ⟨0, by omega, by split <;> omega, by omega⟩
  · exact ⟨0, by omega, by split <;> omega, by omega⟩
  · exact ⟨1, by omega, by split <;> omega, by omega⟩
  · exact ⟨2, by omega, by split <;> omega, by omega⟩

/-- one limb of the division by 3: with accumulator m·r (r = borrow 0..2) the limb produced is the
    exact-division limb and the new accumulator is m·r' -/
theorem by3_step (x r : Nat) (hx : x < B) (hr : r ≤ 2) :
    ∃ r', r' ≤ 2 ∧
      ((((B - 1) / 3 * r + B - (x * ((B - 1) / 3)) % B) % B + B -
        ((x * ((B - 1) / 3)) / B + (if ((B - 1) / 3 * r + B - (x * ((B - 1) / 3)) % B) % B > (B - 1) / 3 * r then 1 else 0)) % B) % B)
        = (B - 1) / 3 * r' ∧
      x + r' * B = 3 * (((B - 1) / 3 * r + B - (x * ((B - 1) / 3)) % B) % B) + r ∧
      ((B - 1) / 3 * r + B - (x * ((B - 1) / 3)) % B) % B < B := by
  have hm : (B - 1) / 3 = 6148914691236517205 := by rw [B_eq]
  rw [hm]
  simp only [B_eq] at *
  have hdm := Nat.div_add_mod (x * 6148914691236517205) 18446744073709551616
  have hml := Nat.mod_lt (x * 6148914691236517205) (by norm_num : 0 < 18446744073709551616)
  generalize (x * 6148914691236517205) / 18446744073709551616 = dx at *
  generalize (x * 6148914691236517205) % 18446744073709551616 = ax at *
  have hdxlt : dx + (if (6148914691236517205 * r + 18446744073709551616 - ax) % 18446744073709551616 >
      6148914691236517205 * r then 1 else 0) < 18446744073709551616 := by split <;> omega
  obtain ⟨r', h1, h2, h3⟩ := by3_core dx ax (x - 3 * dx) r x (by omega) (by omega) (by omega) hx hr
  exact ⟨r', h1, h2, h3, by omega⟩

theorem divexactBy3Go_cons (m x : Nat) (xs : List Nat) (acc : Nat) :
    divexactBy3Go m (x :: xs) acc =
      (((acc + B - (x * m) % B) % B) ::
        (divexactBy3Go m xs
          (((acc + B - (x * m) % B) % B + B -
            ((x * m) / B + (if (acc + B - (x * m) % B) % B > acc then 1 else 0)) % B) % B)).1,
       (divexactBy3Go m xs
          (((acc + B - (x * m) % B) % B + B -
            ((x * m) / B + (if (acc + B - (x * m) % B) % B > acc then 1 else 0)) % B) % B)).2) := rfl

theorem divexactBy3Go_spec (xs : List Nat) : ∀ r, r ≤ 2 → Limbs xs →
    ∃ r', r' ≤ 2 ∧ (divexactBy3Go ((B - 1) / 3) xs ((B - 1) / 3 * r)).2 = (B - 1) / 3 * r' ∧
      val xs + r' * B ^ xs.length = 3 * val (divexactBy3Go ((B - 1) / 3) xs ((B - 1) / 3 * r)).1 + r ∧
      Limbs (divexactBy3Go ((B - 1) / 3) xs ((B - 1) / 3 * r)).1 ∧
      (divexactBy3Go ((B - 1) / 3) xs ((B - 1) / 3 * r)).1.length = xs.length := by
  induction xs with
  | nil => intro r hr _; exact ⟨r, hr, rfl, by simp [divexactBy3Go], Limbs_nil, rfl⟩
  | cons x xs ih =>
    intro r hr hl
    have ⟨hx, hxs⟩ := Limbs_cons.mp hl
    obtain ⟨r1, hr1, hacc, hval, hq⟩ := by3_step x r hx hr
    rw [divexactBy3Go_cons, hacc]
    obtain ⟨r', hr', e1, e2, e3, e4⟩ := ih r1 hr1 hxs
    refine ⟨r', hr', e1, ?_, Limbs_cons.mpr ⟨hq, e3⟩, by rw [List.length_cons, e4, List.length_cons]⟩
    rw [val_cons, val_cons, List.length_cons, pow_succ]
    generalize val (divexactBy3Go ((B - 1) / 3) xs ((B - 1) / 3 * r1)).1 = Vo at *
    generalize ((B - 1) / 3 * r + B - (x * ((B - 1) / 3)) % B) % B = q at *
    generalize val xs = Vx at *
    generalize B ^ xs.length = P at *
    have : x + B * Vx + r' * (P * B) = x + B * (Vx + r' * P) := by ring
    rw [this, e2]
    have : x + B * (3 * Vo + r1) = (x + r1 * B) + B * (3 * Vo) := by ring
    rw [this, hval]; ring

/-- mpn_divexact_by3c: x + ret·B^n = 3·q + c with ret ∈ {0,1,2}, for every length and carry-in c ∈ {0,1,2} -/
theorem divexact_by3c_spec (x : List Nat) (c : Nat) (hx : Limbs x) (hc : c ≤ 2) :
    val x + (divexact_by3c x c).2 * B ^ x.length = 3 * val (divexact_by3c x c).1 + c ∧
    (divexact_by3c x c).2 ≤ 2 ∧ Limbs (divexact_by3c x c).1 ∧ (divexact_by3c x c).1.length = x.length := by
  have hm : (B - 1) / 3 = 6148914691236517205 := by rw [B_eq]
  have hc0 : (c * ((B - 1) / 3)) % B = (B - 1) / 3 * c := by
    rw [hm]; simp only [B_eq]; omega
  obtain ⟨r', hr', e1, e2, e3, e4⟩ := divexactBy3Go_spec x c hc hx
  have hunf : divexact_by3c x c = ((divexactBy3Go ((B - 1) / 3) x ((c * ((B - 1) / 3)) % B)).1,
      ((divexactBy3Go ((B - 1) / 3) x ((c * ((B - 1) / 3)) % B)).2 * (B - 3)) % B) := rfl
  rw [hunf, hc0, e1]
  have hret : ((B - 1) / 3 * r' * (B - 3)) % B = r' := by
    rw [hm]; simp only [B_eq]
    have : r' = 0 ∨ r' = 1 ∨ r' = 2 := by omega
    rcases this with rfl | rfl | rfl <;> norm_num
  simp only
  rw [hret]
  exact ⟨e2, hr', e3, e4⟩


/-! ### mpn_modexact_1c_odd (assembly dataflow) -/

theorem modexactGo_nil (d inv x cb h : Nat) :
    modexactGo d inv [] x cb h = ((modexactStep d inv x cb h).1 + (modexactStep d inv x cb h).2) % B := rfl

theorem modexactGo_cons (d inv s : Nat) (ss : List Nat) (x cb h : Nat) :
    modexactGo d inv (s :: ss) x cb h =
      modexactGo d inv ss ((s + B - (modexactStep d inv x cb h).1) % B)
        (if s < (modexactStep d inv x cb h).1 then 1 else 0) (modexactStep d inv x cb h).2 := by
  unfold modexactGo
  rw [List.foldl_cons]
  rfl

theorem modexactStep_fst (d inv x cb h : Nat) :
    (modexactStep d inv x cb h).1 = cb + (if x < h then 1 else 0) := rfl
theorem modexactStep_snd (d inv x cb h : Nat) :
    (modexactStep d inv x cb h).2 = (((x + B - h) % B * inv) % B * d) / B := rfl

/-- one limb: y = x − h (mod B) with borrow, q = y·inv, new high part -/
theorem modexact_step (x cb h d inv : Nat) (hx : x < B) (hh : h < B) (hcb : cb = 0 ∨ (cb = 1 ∧ x = B - 1))
    (hd0 : 0 < d) (_hdB : d < B) (hinv : (d * inv) % B = 1) :
    ∃ q, q < B ∧ (modexactStep d inv x cb h).1 ≤ 1 ∧ (modexactStep d inv x cb h).2 < d ∧
      x + (modexactStep d inv x cb h).1 * B + (modexactStep d inv x cb h).2 * B = q * d + h + cb * B := by
  rw [modexactStep_fst, modexactStep_snd]
  have hyB : (x + B - h) % B < B := Nat.mod_lt _ B_pos
  have hy : x + (if x < h then 1 else 0) * B = (x + B - h) % B + h := by
    simp only [B_eq] at *; split <;> omega
  have hcb' : cb + (if x < h then 1 else 0) ≤ 1 := by
    rcases hcb with rfl | ⟨rfl, rfl⟩
    · split <;> omega
    · have : ¬ (B - 1 < h) := by omega
      rw [if_neg this]
  generalize (x + B - h) % B = y at *
  have hq := hensel_limb y d inv hyB hinv
  have hqB : (y * inv) % B < B := Nat.mod_lt _ B_pos
  have hh' := (hi_lt ((y * inv) % B) d hqB).resolve_right (by omega)
  refine ⟨(y * inv) % B, hqB, hcb', hh', ?_⟩
  generalize (y * inv) % B = q at *
  generalize q * d / B = h' at *
  generalize (if x < h then 1 else 0) = b at *
  rw [hq]
  have : x + (cb + b) * B + h' * B = (x + b * B) + cb * B + h' * B := by ring
  rw [this, hy]; ring

/-- invariant of the assembly loop: x + B·rest + ret·B^(len+1) = Q·d + h + B·cb -/
theorem modexactGo_spec (d inv : Nat) (hd0 : 0 < d) (hdB : d < B) (hinv : (d * inv) % B = 1) (rest : List Nat) :
    ∀ x cb h, x < B → h < B → (cb = 0 ∨ (cb = 1 ∧ x = B - 1)) → Limbs rest →
    ∃ Q, x + B * val rest + modexactGo d inv rest x cb h * B ^ (rest.length + 1) = Q * d + h + cb * B ∧
      Q < B ^ (rest.length + 1) ∧ modexactGo d inv rest x cb h ≤ d := by
  induction rest with
  | nil =>
    intro x cb h hx hh hcb _
    obtain ⟨q, a1, a2, a3, a4⟩ := modexact_step x cb h d inv hx hh hcb hd0 hdB hinv
    rw [modexactGo_nil]
    have hlt : (modexactStep d inv x cb h).1 + (modexactStep d inv x cb h).2 < B := by omega
    rw [Nat.mod_eq_of_lt hlt]
    refine ⟨q, ?_, by rw [List.length_nil, Nat.zero_add, pow_one]; exact a1, by omega⟩
    rw [val_nil, Nat.mul_zero, Nat.add_zero, List.length_nil, Nat.zero_add, pow_one, ← a4]; ring
  | cons s ss ih =>
    intro x cb h hx hh hcb hl
    have ⟨hs, hss⟩ := Limbs_cons.mp hl
    obtain ⟨q, a1, a2, a3, a4⟩ := modexact_step x cb h d inv hx hh hcb hd0 hdB hinv
    rw [modexactGo_cons]
    generalize (modexactStep d inv x cb h).1 = cb' at *
    generalize (modexactStep d inv x cb h).2 = h' at *
    have hx' : (s + B - cb') % B < B := Nat.mod_lt _ B_pos
    have hxs : s + (if s < cb' then 1 else 0) * B = (s + B - cb') % B + cb' := by
      simp only [B_eq] at *; split <;> omega
    have hcb'' : (if s < cb' then 1 else 0) = 0 ∨ ((if s < cb' then 1 else 0) = 1 ∧ (s + B - cb') % B = B - 1) := by
      simp only [B_eq] at *; split <;> omega
    obtain ⟨Q', e, hQ', hle⟩ := ih ((s + B - cb') % B) (if s < cb' then 1 else 0) h' hx' (by omega) hcb'' hss
    refine ⟨q + B * Q', ?_, ?_, hle⟩
    · rw [val_cons, List.length_cons, pow_succ]
      generalize modexactGo d inv ss ((s + B - cb') % B) (if s < cb' then 1 else 0) h' = ret at *
      generalize (s + B - cb') % B = x' at *
      generalize (if s < cb' then 1 else 0) = cb2 at *
      generalize val ss = Vs at *
      generalize B ^ (ss.length + 1) = P at *
      have g1 : ret * (P * B) = (ret * P) * B := by ring
      have g2 : (q + B * Q') * d = q * d + B * (Q' * d) := by ring
      rw [g1, g2]
      generalize ret * P = RP at *
      generalize Q' * d = Qd at *
      generalize q * d = qd at *
      clear g1 g2 hQ' hle ih hinv
      simp only [B_eq] at *
      omega
    · rw [List.length_cons, pow_succ]
      have : B * Q' + B ≤ B ^ (ss.length + 1) * B := by
        have h1 : (Q' + 1) * B ≤ B ^ (ss.length + 1) * B := Nat.mul_le_mul_right _ hQ'
        have h2 : (Q' + 1) * B = B * Q' + B := by ring
        omega
      omega

/-- mpn_modexact_1c_odd as documented in mpn/generic/modexact_1c_odd.c: r·B^n + a − c = q·d with k = n,
    0 ≤ r ≤ d, and r < d when c < d. -/
theorem modexact_1c_odd_spec (src : List Nat) (d c : Nat) (hsrc : Limbs src) (hne : src ≠ []) (hodd : d % 2 = 1)
    (hdB : d < B) (hc : c < B) :
    ∃ q, val src + modexact_1c_odd src d c * B ^ src.length = q * d + c ∧
      modexact_1c_odd src d c ≤ d ∧ (c < d → modexact_1c_odd src d c < d) := by
  cases src with
  | nil => exact absurd rfl hne
  | cons s ss =>
    have ⟨hs, hss⟩ := Limbs_cons.mp hsrc
    have hd0 : 0 < d := by omega
    have hinv := modlimb_invert_mul d hodd
    obtain ⟨Q, e, hQ, hle⟩ := modexactGo_spec d (modlimb_invert d) hd0 hdB hinv ss s 0 c hs hc (Or.inl rfl) hss
    have hunf : modexact_1c_odd (s :: ss) d c = modexactGo d (modlimb_invert d) ss s 0 c := rfl
    rw [hunf, List.length_cons]
    generalize modexactGo d (modlimb_invert d) ss s 0 c = ret at *
    rw [Nat.zero_mul, Nat.add_zero] at e
    refine ⟨Q, by rw [val_cons]; exact e, hle, ?_⟩
    intro hcd
    have hP : 0 < B ^ (ss.length + 1) := by have := B_pos; positivity
    have h1 : Q * d + c < B ^ (ss.length + 1) * d := by
      have : (Q + 1) * d ≤ B ^ (ss.length + 1) * d := Nat.mul_le_mul_right _ hQ
      have : (Q + 1) * d = Q * d + d := by ring
      omega
    have h2 : ret * B ^ (ss.length + 1) < d * B ^ (ss.length + 1) := by
      rw [Nat.mul_comm d]; omega
    exact Nat.lt_of_mul_lt_mul_right h2


/-! ### mpn_rsh_divrem_hensel_qr_1_1 / _1_2: 2-adic division with on-the-fly right shift -/

/-- the output limbs: right shift by s of the limb vector q :: qs, built as the C does
    (`qo | (q' << (63-s) << 1)`, `qo = q' >> s`) -/
def shrList (s : Nat) : Nat → List Nat → List Nat
  | q, [] => [q >>> s]
  | q, q' :: qs => henselOr (q >>> s) q' s :: shrList s q' qs

theorem henselOr_eq (q q' s : Nat) (hq : q < B) (hs : s ≤ 63) :
    henselOr (q >>> s) q' s < B ∧
    ∀ rest, val (q :: q' :: rest) / 2 ^ s = henselOr (q >>> s) q' s + B * (val (q' :: rest) / 2 ^ s) := by
  unfold henselOr
  rcases Nat.eq_zero_or_pos s with h0 | hpos
  · subst h0
    have e1 : (((q' <<< (63 - 0)) % B) <<< 1) % B = 0 := by
      rw [Nat.shiftLeft_eq, Nat.shiftLeft_eq]
      have hB : B = 2 ^ 63 * 2 := rfl
      have : q' * 2 ^ 63 % B * 2 ^ 1 = (q' * 2 ^ 63 % B) * 2 := by ring
      rw [this, hB, Nat.mul_mod_mul_right]
      have : q' * 2 ^ 63 % (2 ^ 63 * 2) % 2 ^ 63 = 0 := by
        rw [Nat.mod_mul_right_mod, Nat.mul_mod_left]
      rw [this, Nat.zero_mul]
    rw [e1, Nat.shiftRight_zero, Nat.or_zero]
    refine ⟨hq, fun rest => ?_⟩
    rw [pow_zero, Nat.div_one, Nat.div_one, val_cons]
  · have e1 : (((q' <<< (63 - s)) % B) <<< 1) % B = (q' <<< (64 - s)) % B := by
      rw [Nat.shiftLeft_eq, Nat.shiftLeft_eq, Nat.shiftLeft_eq, pow_one, Nat.mod_mul_mod, Nat.mul_assoc, ← pow_succ]
      congr 3; omega
    rw [e1]
    obtain ⟨a, b⟩ := shr_limb q q' s [] hq hpos hs
    refine ⟨a, fun rest => ?_⟩
    exact (shr_limb q q' s rest hq hpos hs).2

theorem shrList_spec (s : Nat) (hs : s ≤ 63) (qs : List Nat) : ∀ q, q < B → Limbs qs →
    val (shrList s q qs) = val (q :: qs) / 2 ^ s ∧ Limbs (shrList s q qs) ∧ (shrList s q qs).length = qs.length + 1 := by
  induction qs with
  | nil =>
    intro q hq _
    have hv : val [q] = q := by rw [val_cons, val_nil, Nat.mul_zero, Nat.add_zero]
    refine ⟨?_, Limbs_cons.mpr ⟨?_, Limbs_nil⟩, rfl⟩
    · show val [q >>> s] = _
      rw [hv, Nat.shiftRight_eq_div_pow]
      have : val [q / 2 ^ s] = q / 2 ^ s := by rw [val_cons, val_nil, Nat.mul_zero, Nat.add_zero]
      rw [this]
    · rw [Nat.shiftRight_eq_div_pow]; exact Nat.lt_of_le_of_lt (Nat.div_le_self _ _) hq
  | cons q' qs ih =>
    intro q hq hl
    have ⟨hq', hqs⟩ := Limbs_cons.mp hl
    obtain ⟨a, b⟩ := henselOr_eq q q' s hq hs
    obtain ⟨i1, i2, i3⟩ := ih q' hq' hqs
    refine ⟨?_, Limbs_cons.mpr ⟨a, i2⟩, by show (shrList s q' qs).length + 1 = _; rw [i3]; rfl⟩
    show val (henselOr (q >>> s) q' s :: shrList s q' qs) = _
    rw [val_cons, i1, b qs]

theorem henselStep_q (d m x h c : Nat) : (henselStep d m x h c).1 = ((x + B - (h + c) % B) % B * m) % B := rfl
theorem henselStep_h (d m x h c : Nat) :
    (henselStep d m x h c).2.1 = (((x + B - (h + c) % B) % B * m) % B * d) / B := rfl
theorem henselStep_c (d m x h c : Nat) : (henselStep d m x h c).2.2 = if (h + c) % B > x then 1 else 0 := rfl

/-- one limb of the 2-adic division: x + (c' + h')·B = q·d + (h + c) -/
theorem henselStep_spec (d m x h c : Nat) (hx : x < B) (hT : h + c < B) (hd0 : 0 < d) (_hdB : d < B)
    (hinv : (d * m) % B = 1) :
    (henselStep d m x h c).1 < B ∧ (henselStep d m x h c).2.1 < d ∧ (henselStep d m x h c).2.2 ≤ 1 ∧
    x + ((henselStep d m x h c).2.2 + (henselStep d m x h c).2.1) * B = (henselStep d m x h c).1 * d + (h + c) := by
  rw [henselStep_q, henselStep_h, henselStep_c, Nat.mod_eq_of_lt hT]
  generalize h + c = t at *
  have hyB : (x + B - t) % B < B := Nat.mod_lt _ B_pos
  have hy : x + (if t > x then 1 else 0) * B = (x + B - t) % B + t := by
    simp only [B_eq] at *; split <;> omega
  have hb : (if t > x then 1 else 0) ≤ 1 := by split <;> omega
  generalize (x + B - t) % B = y at *
  have hq := hensel_limb y d m hyB hinv
  have hqB : (y * m) % B < B := Nat.mod_lt _ B_pos
  have hh' := (hi_lt ((y * m) % B) d hqB).resolve_right (by omega)
  refine ⟨hqB, hh', hb, ?_⟩
  generalize (y * m) % B = q at *
  generalize q * d / B = h' at *
  generalize (if t > x then 1 else 0) = b at *
  rw [hq]
  have : x + (b + h') * B = (x + b * B) + h' * B := by ring
  rw [this, hy]; ring

/-- the unshifted quotient limbs and the final carry of the one-limb-at-a-time loop -/
def henselQ (d m : Nat) : List Nat → Nat → Nat → List Nat × Nat
  | [], h, c => ([], (h + c) % B)
  | x :: xs, h, c =>
      ((henselStep d m x h c).1 :: (henselQ d m xs (henselStep d m x h c).2.1 (henselStep d m x h c).2.2).1,
       (henselQ d m xs (henselStep d m x h c).2.1 (henselStep d m x h c).2.2).2)

theorem henselQ_cons (d m x : Nat) (xs : List Nat) (h c : Nat) :
    henselQ d m (x :: xs) h c =
      ((henselStep d m x h c).1 :: (henselQ d m xs (henselStep d m x h c).2.1 (henselStep d m x h c).2.2).1,
       (henselQ d m xs (henselStep d m x h c).2.1 (henselStep d m x h c).2.2).2) := rfl

theorem hensel11Go_cons (d m s x : Nat) (xs : List Nat) (h c qo : Nat) :
    hensel11Go d m s (x :: xs) h c qo =
      (henselOr qo (henselStep d m x h c).1 s ::
        (hensel11Go d m s xs (henselStep d m x h c).2.1 (henselStep d m x h c).2.2 ((henselStep d m x h c).1 >>> s)).1,
       (hensel11Go d m s xs (henselStep d m x h c).2.1 (henselStep d m x h c).2.2 ((henselStep d m x h c).1 >>> s)).2) := rfl

theorem hensel11Go_eq (d m s : Nat) (xs : List Nat) : ∀ h c qp,
    hensel11Go d m s xs h c (qp >>> s) = (shrList s qp (henselQ d m xs h c).1, (henselQ d m xs h c).2) := by
  induction xs with
  | nil => intro h c qp; rfl
  | cons x xs ih =>
    intro h c qp
    rw [hensel11Go_cons, henselQ_cons, ih]
    rfl

/-- invariant of the 2-adic division: xs + ret·B^len = Q·d + (h + c) -/
theorem henselQ_spec (d m : Nat) (hd0 : 0 < d) (hdB : d < B) (hinv : (d * m) % B = 1) (xs : List Nat) :
    ∀ h c, h + c < B → Limbs xs →
    val xs + (henselQ d m xs h c).2 * B ^ xs.length = val (henselQ d m xs h c).1 * d + (h + c) ∧
      Limbs (henselQ d m xs h c).1 ∧ (henselQ d m xs h c).1.length = xs.length := by
  induction xs with
  | nil =>
    intro h c hT _
    have : (henselQ d m [] h c) = ([], (h + c) % B) := rfl
    rw [this, Nat.mod_eq_of_lt hT]
    exact ⟨by rw [val_nil, List.length_nil, pow_zero, Nat.zero_mul, Nat.mul_one, Nat.zero_add],
      Limbs_nil, rfl⟩
  | cons x xs ih =>
    intro h c hT hl
    have ⟨hx, hxs⟩ := Limbs_cons.mp hl
    obtain ⟨a1, a2, a3, a4⟩ := henselStep_spec d m x h c hx hT hd0 hdB hinv
    rw [henselQ_cons]
    generalize (henselStep d m x h c).1 = q at *
    generalize (henselStep d m x h c).2.1 = h' at *
    generalize (henselStep d m x h c).2.2 = c' at *
    obtain ⟨e, hL, hlen⟩ := ih h' c' (by omega) hxs
    refine ⟨?_, Limbs_cons.mpr ⟨a1, hL⟩, by rw [List.length_cons, hlen, List.length_cons]⟩
    rw [val_cons, val_cons, List.length_cons, pow_succ]
    generalize (henselQ d m xs h' c').2 = ret at *
    generalize val (henselQ d m xs h' c').1 = Vo at *
    generalize val xs = Vx at *
    generalize B ^ xs.length = P at *
    have : x + B * Vx + ret * (P * B) = x + B * (Vx + ret * P) := by ring
    rw [this, e]
    have : x + B * (Vo * d + (h' + c')) = (x + (c' + h') * B) + B * (Vo * d) := by ring
    rw [this, a4]; ring


theorem henselPair_unfold (d ml mh xl xh h c : Nat) :
    henselPair d ml mh xl xh h c =
      (((sub_ddmmss xh xl 0 ((h + c) % B)).2 * ml) % B,
       ((((sub_ddmmss xh xl 0 ((h + c) % B)).2 * ml) / B + ((sub_ddmmss xh xl 0 ((h + c) % B)).1 * ml) % B) % B +
          ((sub_ddmmss xh xl 0 ((h + c) % B)).2 * mh) % B) % B,
       (if (((((sub_ddmmss xh xl 0 ((h + c) % B)).2 * ml) / B + ((sub_ddmmss xh xl 0 ((h + c) % B)).1 * ml) % B) % B +
          ((sub_ddmmss xh xl 0 ((h + c) % B)).2 * mh) % B) % B * d) % B > (sub_ddmmss xh xl 0 ((h + c) % B)).1
        then ((((((sub_ddmmss xh xl 0 ((h + c) % B)).2 * ml) / B + ((sub_ddmmss xh xl 0 ((h + c) % B)).1 * ml) % B) % B +
          ((sub_ddmmss xh xl 0 ((h + c) % B)).2 * mh) % B) % B * d) / B + 1) % B
        else (((((sub_ddmmss xh xl 0 ((h + c) % B)).2 * ml) / B + ((sub_ddmmss xh xl 0 ((h + c) % B)).1 * ml) % B) % B +
          ((sub_ddmmss xh xl 0 ((h + c) % B)).2 * mh) % B) % B * d) / B),
       if xh == 0 && (h + c) % B > xl then 1 else 0) := rfl

/-- the arithmetic core of the two-limb step: with ml·d = hB·B + 1 and mh ≡ −ml·hB (mod B), the
    two-limb quotient ⟨qh,ql⟩ = ⟨xh',xl'⟩·⟨mh,ml⟩ mod B² satisfies ⟨qh,ql⟩·d = ⟨xh',xl'⟩ + H·B² with
    H = hi(qh·d) + [lo(qh·d) > xh'] -/
theorem henselPair_core (d ml mh hB xl' xh' a ql qh h0 h1 : ℤ) (Bz : ℤ) (hBz : 0 < Bz)
    (hmld : ml * d = hB * Bz + 1) (hmh : mh ≡ -(ml * hB) [ZMOD Bz])
    (hxl : 0 ≤ xl') (hxl' : xl' < Bz) (hxh : 0 ≤ xh') (hxh' : xh' < Bz)
    (hp : xl' * ml = a * Bz + ql) (hql : 0 ≤ ql) (hql' : ql < Bz)
    (hqh : qh ≡ a + xh' * ml + xl' * mh [ZMOD Bz])
    (hhh : qh * d = h0 * Bz + h1) (hh1 : 0 ≤ h1) (hh1' : h1 < Bz) (hd0 : 0 < d) (hdB : d < Bz) :
    (ql + qh * Bz) * d = xl' + xh' * Bz + (if h1 > xh' then h0 + 1 else h0) * (Bz * Bz) := by
  -- qh·d ≡ a·d + xh' − xl'·hB (mod B)
  have hmld' : ml * d ≡ 1 [ZMOD Bz] := by
    rw [hmld]; exact Int.modEq_iff_dvd.mpr ⟨-hB, by ring⟩
  have hmhd : mh * d ≡ -hB [ZMOD Bz] := by
    have h1 : mh * d ≡ -(ml * hB) * d [ZMOD Bz] := hmh.mul_right d
    have h2 : -(ml * hB) * d = -hB * (ml * d) := by ring
    rw [h2] at h1
    have h3 : -hB * (ml * d) ≡ -hB * 1 [ZMOD Bz] := hmld'.mul_left _
    rw [mul_one] at h3
    exact h1.trans h3
  have hqhd : qh * d ≡ a * d + xh' - xl' * hB [ZMOD Bz] := by
    have h1 : qh * d ≡ (a + xh' * ml + xl' * mh) * d [ZMOD Bz] := hqh.mul_right d
    have h2 : (a + xh' * ml + xl' * mh) * d = a * d + xh' * (ml * d) + xl' * (mh * d) := by ring
    rw [h2] at h1
    have h3 : a * d + xh' * (ml * d) + xl' * (mh * d) ≡ a * d + xh' * 1 + xl' * (-hB) [ZMOD Bz] :=
      ((Int.ModEq.refl _).add (hmld'.mul_left _)).add (hmhd.mul_left _)
    have h4 : a * d + xh' * 1 + xl' * (-hB) = a * d + xh' - xl' * hB := by ring
    rw [h4] at h3
    exact h1.trans h3
  obtain ⟨k1, hk1⟩ := Int.modEq_iff_dvd.mp hqhd
  -- ql·d = xl' + (xl'·hB − a·d)·B
  have hqld : ql * d = xl' + (xl' * hB - a * d) * Bz := by
    have : ql = xl' * ml - a * Bz := by linarith
    rw [this]
    have : (xl' * ml - a * Bz) * d = xl' * (ml * d) - a * d * Bz := by ring
    rw [this, hmld]; ring
  -- total: (ql + qh B) d = xl' + xh' B − k1 B²
  have htot : (ql + qh * Bz) * d = xl' + xh' * Bz + (-k1) * (Bz * Bz) := by
    have : (ql + qh * Bz) * d = ql * d + (qh * d) * Bz := by ring
    rw [this, hqld]
    have : qh * d = a * d + xh' - xl' * hB - Bz * k1 := by linarith
    rw [this]; ring
  -- identify −k1 with h0 + carry
  have hsum : (qh * d) * Bz + ql * d = xl' + xh' * Bz + (-k1) * (Bz * Bz) := by
    rw [← htot]; ring
  -- low limb of ql·d: write ql·d = hl·B + ll
  have hll : ql * d = (ql * d / Bz) * Bz + (ql * d) % Bz := by
    have := Int.mul_ediv_add_emod (ql * d) Bz; linarith
  have hll0 : 0 ≤ (ql * d) % Bz := Int.emod_nonneg _ (ne_of_gt hBz)
  have hll1 : (ql * d) % Bz < Bz := Int.emod_lt_of_pos _ hBz
  have hhl0 : 0 ≤ ql * d / Bz := Int.ediv_nonneg (mul_nonneg hql (le_of_lt hd0)) (le_of_lt hBz)
  have hhl1 : ql * d / Bz < Bz := by
    have : ql * d < Bz * Bz := by nlinarith
    exact Int.ediv_lt_of_lt_mul hBz this
  generalize ql * d / Bz = hl at *
  generalize (ql * d) % Bz = ll at *
  -- ll = xl'
  have hllx : ll = xl' := by
    have h1 : ll - xl' = Bz * (xl' * hB - a * d - hl) := by linarith
    have h2 : -Bz < ll - xl' := by linarith
    have h3 : ll - xl' < Bz := by linarith
    have : xl' * hB - a * d - hl = 0 := by
      by_contra hne
      rcases lt_or_gt_of_ne hne with hlt | hgt
      · have : Bz * (xl' * hB - a * d - hl) ≤ Bz * (-1) := mul_le_mul_of_nonneg_left (by linarith) (le_of_lt hBz)
        linarith
      · have : Bz * 1 ≤ Bz * (xl' * hB - a * d - hl) := mul_le_mul_of_nonneg_left (by linarith) (le_of_lt hBz)
        linarith
    rw [this] at h1; linarith
  subst hllx
  -- hl + h1 = xh' + (−k1 − h0)·B
  have hmid : hl + h1 - xh' = (-k1 - h0) * Bz := by
    have e1 : (h0 * Bz + h1) * Bz + (hl * Bz + ll) = ll + xh' * Bz + (-k1) * (Bz * Bz) := by
      rw [← hhh, ← hll]; exact hsum
    have e2 : (hl + h1 - xh') * Bz = ((-k1 - h0) * Bz) * Bz := by linarith
    exact mul_right_cancel₀ (ne_of_gt hBz) e2
  have hlo : -Bz < hl + h1 - xh' := by linarith
  have hhi : hl + h1 - xh' < 2 * Bz := by linarith
  have heps : -k1 - h0 = 0 ∨ -k1 - h0 = 1 := by
    have h1' : -1 < -k1 - h0 := by
      by_contra hc; rw [not_lt] at hc
      have : (-k1 - h0) * Bz ≤ (-1) * Bz := mul_le_mul_of_nonneg_right hc (le_of_lt hBz)
      linarith
    have h2' : -k1 - h0 < 2 := by
      by_contra hc; rw [not_lt] at hc
      have : 2 * Bz ≤ (-k1 - h0) * Bz := mul_le_mul_of_nonneg_right hc (le_of_lt hBz)
      linarith
    omega
  rw [htot]
  rcases heps with h | h
  · rw [h] at hmid
    have : ¬ (h1 > xh') := by linarith
    rw [if_neg this]
    have : -k1 = h0 := by linarith
    rw [this]
  · rw [h] at hmid
    have : h1 > xh' := by linarith
    rw [if_pos this]
    have : -k1 = h0 + 1 := by linarith
    rw [this]


theorem henselPair_spec (d ml mh xl xh h c : Nat) (hxl : xl < B) (hxh : xh < B) (hT : h + c < B)
    (hd0 : 0 < d) (hdB : d < B) (hinv : (d * ml) % B = 1) (hml : ml < B)
    (hmh : mh = (ml * ((B - (d * ml) / B) % B)) % B) :
    (henselPair d ml mh xl xh h c).1 < B ∧ (henselPair d ml mh xl xh h c).2.1 < B ∧
    (henselPair d ml mh xl xh h c).2.2.1 + (henselPair d ml mh xl xh h c).2.2.2 < B ∧
    xl + xh * B + ((henselPair d ml mh xl xh h c).2.2.2 + (henselPair d ml mh xl xh h c).2.2.1) * (B * B) =
      ((henselPair d ml mh xl xh h c).1 + (henselPair d ml mh xl xh h c).2.1 * B) * d + (h + c) := by
  have hB := B_pos
  have hBB : 0 < B * B := Nat.mul_pos hB hB
  have hBleBB : B ≤ B * B := Nat.le_mul_of_pos_left _ hB
  rw [henselPair_unfold, Nat.mod_eq_of_lt hT, Nat.add_comm xl (xh * B)]
  generalize h + c = t at *
  -- the two-limb subtraction
  rw [sub_ddmmss_eq xh xl 0 t hxh hxl hB hT, pair2_mod]
  simp only
  have hX : xh * B + xl < B * B := by
    have : (xh + 1) * B ≤ B * B := Nat.mul_le_mul_right _ hxh
    have : (xh + 1) * B = xh * B + B := by ring
    omega
  have hc' : (if (xh == 0 && decide (t > xl)) = true then 1 else 0) = if xh * B + xl < t then 1 else 0 := by
    by_cases h0 : xh = 0
    · subst h0; simp
    · have : ¬ (xh * B + xl < t) := by
        have : B ≤ xh * B := Nat.le_mul_of_pos_left _ (Nat.pos_of_ne_zero h0)
        omega
      simp [h0, this]
  rw [hc', Nat.zero_mul, Nat.zero_add]
  generalize xh * B + xl = X2 at *
  have hR : (X2 + B * B - t) % (B * B) < B * B := Nat.mod_lt _ hBB
  have hRt : ∃ cb, cb ≤ 1 ∧ (if X2 < t then 1 else 0) = cb ∧ (X2 + B * B - t) % (B * B) + t = X2 + cb * (B * B) := by
    by_cases hlt : X2 < t
    · refine ⟨1, le_refl _, if_pos hlt, ?_⟩
      rw [Nat.mod_eq_of_lt (by omega)]; omega
    · refine ⟨0, by omega, if_neg hlt, ?_⟩
      have : X2 + B * B - t = (X2 - t) + B * B := by omega
      rw [this, Nat.add_mod_right, Nat.mod_eq_of_lt (by omega)]; omega
  obtain ⟨cb, hcb, hcbe, hRt⟩ := hRt
  rw [hcbe]
  generalize (X2 + B * B - t) % (B * B) = R at *
  have hxh'B : R / B < B := (Nat.div_lt_iff_lt_mul hB).mpr hR
  have hxl'B : R % B < B := Nat.mod_lt _ hB
  have hRdm := Nat.div_add_mod' R B
  generalize R / B = xh' at *
  generalize R % B = xl' at *
  -- all quotients / remainders as fresh naturals
  have hqlB : (xl' * ml) % B < B := Nat.mod_lt _ hB
  have hp := Nat.div_add_mod' (xl' * ml) B
  generalize (xl' * ml) / B = a at *
  generalize (xl' * ml) % B = ql at *
  have hm1 := Nat.div_add_mod' (xh' * ml) B
  generalize (xh' * ml) / B = j1 at *
  generalize (xh' * ml) % B = m1 at *
  have hm2 := Nat.div_add_mod' (xl' * mh) B
  generalize (xl' * mh) / B = j2 at *
  generalize (xl' * mh) % B = m2 at *
  have hm3 := Nat.div_add_mod' (a + m1) B
  generalize (a + m1) / B = j3 at *
  generalize (a + m1) % B = m3 at *
  have hqhB : (m3 + m2) % B < B := Nat.mod_lt _ hB
  have hm4 := Nat.div_add_mod' (m3 + m2) B
  generalize (m3 + m2) / B = j4 at *
  generalize (m3 + m2) % B = qh at *
  have hhh := Nat.div_add_mod' (qh * d) B
  have hh1B : (qh * d) % B < B := Nat.mod_lt _ hB
  generalize (qh * d) / B = h0 at *
  generalize (qh * d) % B = h1 at *
  have hmld := Nat.div_add_mod' (d * ml) B
  rw [hinv] at hmld
  have hhBlt : d * ml / B < B := by
    rw [Nat.div_lt_iff_lt_mul hB]
    have h1' : d * ml ≤ d * B := Nat.mul_le_mul_left _ (Nat.le_of_lt hml)
    have h2' : d * B < B * B := Nat.mul_lt_mul_of_pos_right hdB hB
    omega
  generalize d * ml / B = hBn at *
  have hnb := Nat.div_add_mod' (B - hBn) B
  have hnbe : (B - hBn) % B + hBn = B * (1 - (B - hBn) / B) := by
    rcases Nat.eq_zero_or_pos hBn with h0 | h0
    · subst h0
      rw [Nat.sub_zero, Nat.mod_self, Nat.div_self hB, Nat.sub_self, Nat.mul_zero]
    · rw [Nat.mod_eq_of_lt (by omega), Nat.div_eq_of_lt (by omega)]; omega
  generalize (B - hBn) / B = j5 at *
  generalize (B - hBn) % B = nb at *
  have hm6 := Nat.div_add_mod' (ml * nb) B
  rw [← hmh] at hm6
  generalize (ml * nb) / B = j6 at *
  -- the core lemma over ℤ
  have z := fun {a b : ℕ} (e : a = b) => congrArg (Nat.cast : ℕ → ℤ) e
  have e_p := z hp; have e_m1 := z hm1; have e_m2 := z hm2; have e_m3 := z hm3; have e_m4 := z hm4
  have e_hh := z hhh; have e_mld := z hmld; have e_nbe := z hnbe; have e_m6 := z hm6
  push_cast at e_p e_m1 e_m2 e_m3 e_m4 e_hh e_mld e_nbe e_m6
  have hj5 : j5 ≤ 1 := by
    by_contra hcon
    have : 2 * B ≤ j5 * B := Nat.mul_le_mul_right _ (by omega)
    omega
  have e_nbe' : (nb : ℤ) + hBn = B * (1 - j5) := by
    rw [Nat.cast_sub hj5] at e_nbe; push_cast at e_nbe; exact e_nbe
  have hmhz : (mh : ℤ) ≡ -((ml : ℤ) * hBn) [ZMOD (B : ℤ)] :=
    Int.modEq_iff_dvd.mpr ⟨j6 - ml * (1 - j5), by linear_combination -e_m6 - (ml : ℤ) * e_nbe'⟩
  have hqhz : (qh : ℤ) ≡ (a : ℤ) + xh' * ml + xl' * mh [ZMOD (B : ℤ)] :=
    Int.modEq_iff_dvd.mpr ⟨(j1 : ℤ) + j2 + j3 + j4, by linear_combination -e_m1 - e_m2 - e_m3 - e_m4⟩
  have core := henselPair_core (d : ℤ) ml mh hBn xl' xh' a ql qh h0 h1 (B : ℤ)
    (Int.natCast_pos.mpr hB) (by linear_combination -e_mld) hmhz (Int.natCast_nonneg _) (Int.ofNat_lt.mpr hxl'B)
    (Int.natCast_nonneg _) (Int.ofNat_lt.mpr hxh'B) (by linear_combination -e_p)
    (Int.natCast_nonneg _) (Int.ofNat_lt.mpr hqlB) hqhz (by linear_combination -e_hh)
    (Int.natCast_nonneg _) (Int.ofNat_lt.mpr hh1B) (Int.natCast_pos.mpr hd0) (Int.ofNat_lt.mpr hdB)
  -- back to ℕ
  have coreN : (ql + qh * B) * d = xl' + xh' * B + (if h1 > xh' then h0 + 1 else h0) * (B * B) := by
    by_cases hc : h1 > xh'
    · rw [if_pos hc]
      rw [if_pos (by exact_mod_cast hc)] at core
      have : (((ql + qh * B) * d : ℕ) : ℤ) = ((xl' + xh' * B + (h0 + 1) * (B * B) : ℕ) : ℤ) := by
        push_cast; exact core
      exact_mod_cast this
    · rw [if_neg hc]
      rw [if_neg (by exact_mod_cast hc)] at core
      have : (((ql + qh * B) * d : ℕ) : ℤ) = ((xl' + xh' * B + h0 * (B * B) : ℕ) : ℤ) := by
        push_cast; exact core
      exact_mod_cast this
  -- H < d
  have hHd : (if h1 > xh' then h0 + 1 else h0) < d := by
    have h1' : (ql + qh * B) * d < (B * B) * d := by
      apply Nat.mul_lt_mul_of_pos_right _ hd0
      have : (qh + 1) * B ≤ B * B := Nat.mul_le_mul_right _ hqhB
      have : (qh + 1) * B = qh * B + B := by ring
      omega
    have h2' : (if h1 > xh' then h0 + 1 else h0) * (B * B) < d * (B * B) := by
      rw [Nat.mul_comm d]; omega
    exact Nat.lt_of_mul_lt_mul_right h2'
  have hHeq : (if h1 > xh' then (h0 + 1) % B else h0) = if h1 > xh' then h0 + 1 else h0 := by
    split
    · rename_i hc; rw [if_pos hc] at hHd; exact Nat.mod_eq_of_lt (by omega)
    · rfl
  rw [hHeq]
  generalize (if h1 > xh' then h0 + 1 else h0) = H at *
  refine ⟨hqlB, hqhB, by omega, ?_⟩
  rw [coreN]
  have : X2 + (cb + H) * (B * B) = (X2 + cb * (B * B)) + H * (B * B) := by ring
  rw [this, ← hRt, ← hRdm]; ring


/-- unshifted quotient limbs and final carry of the two-limbs-at-a-time loop -/
def henselQ2 (d ml mh : Nat) : List Nat → Nat → Nat → List Nat × Nat
  | xl :: xh :: xs, h, c =>
      ((henselPair d ml mh xl xh h c).1 :: (henselPair d ml mh xl xh h c).2.1 ::
        (henselQ2 d ml mh xs (henselPair d ml mh xl xh h c).2.2.1 (henselPair d ml mh xl xh h c).2.2.2).1,
       (henselQ2 d ml mh xs (henselPair d ml mh xl xh h c).2.2.1 (henselPair d ml mh xl xh h c).2.2.2).2)
  | [x], h, c => ([(henselStep d ml x h c).1], ((henselStep d ml x h c).2.1 + (henselStep d ml x h c).2.2) % B)
  | [], h, c => ([], (h + c) % B)

theorem hensel12Go_pair (d ml mh s xl xh : Nat) (xs : List Nat) (h c qo : Nat) :
    hensel12Go d ml mh s (xl :: xh :: xs) h c qo =
      (henselOr qo (henselPair d ml mh xl xh h c).1 s ::
        henselOr ((henselPair d ml mh xl xh h c).1 >>> s) (henselPair d ml mh xl xh h c).2.1 s ::
        (hensel12Go d ml mh s xs (henselPair d ml mh xl xh h c).2.2.1 (henselPair d ml mh xl xh h c).2.2.2
          ((henselPair d ml mh xl xh h c).2.1 >>> s)).1,
       (hensel12Go d ml mh s xs (henselPair d ml mh xl xh h c).2.2.1 (henselPair d ml mh xl xh h c).2.2.2
          ((henselPair d ml mh xl xh h c).2.1 >>> s)).2) := rfl

/-- strong induction principle: lists two elements at a time -/
theorem list_pair_induction {P : List Nat → Prop} (h0 : P []) (h1 : ∀ x, P [x])
    (h2 : ∀ x y xs, P xs → P (x :: y :: xs)) : ∀ l, P l
  | [] => h0
  | [x] => h1 x
  | x :: y :: xs => h2 x y xs (list_pair_induction h0 h1 h2 xs)

theorem hensel12Go_eq (d ml mh s : Nat) (xs : List Nat) : ∀ h c qp,
    hensel12Go d ml mh s xs h c (qp >>> s) = (shrList s qp (henselQ2 d ml mh xs h c).1, (henselQ2 d ml mh xs h c).2) := by
  induction xs using list_pair_induction with
  | h0 => intro h c qp; rfl
  | h1 x => intro h c qp; rfl
  | h2 xl xh xs ih =>
    intro h c qp
    rw [hensel12Go_pair, ih]
    rfl

theorem henselQ2_nil (d ml mh h c : Nat) : henselQ2 d ml mh [] h c = ([], (h + c) % B) := rfl
theorem henselQ2_one (d ml mh x h c : Nat) : henselQ2 d ml mh [x] h c =
      ([(henselStep d ml x h c).1], ((henselStep d ml x h c).2.1 + (henselStep d ml x h c).2.2) % B) := rfl
theorem henselQ2_pair (d ml mh xl xh : Nat) (xs : List Nat) (h c : Nat) : henselQ2 d ml mh (xl :: xh :: xs) h c =
      ((henselPair d ml mh xl xh h c).1 :: (henselPair d ml mh xl xh h c).2.1 ::
        (henselQ2 d ml mh xs (henselPair d ml mh xl xh h c).2.2.1 (henselPair d ml mh xl xh h c).2.2.2).1,
       (henselQ2 d ml mh xs (henselPair d ml mh xl xh h c).2.2.1 (henselPair d ml mh xl xh h c).2.2.2).2) := rfl

theorem val_singleton (y : Nat) : val [y] = y := by rw [val_cons, val_nil, Nat.mul_zero, Nat.add_zero]

theorem henselQ2_one_spec (d ml mh : Nat) (hd0 : 0 < d) (hdB : d < B) (hinv : (d * ml) % B = 1) (x h c : Nat)
    (hT : h + c < B) (hx : x < B) :
    val [x] + (henselQ2 d ml mh [x] h c).2 * B ^ [x].length = val (henselQ2 d ml mh [x] h c).1 * d + (h + c) ∧
      Limbs (henselQ2 d ml mh [x] h c).1 ∧ (henselQ2 d ml mh [x] h c).1.length = [x].length := by
  obtain ⟨a1, a2, a3, a4⟩ := henselStep_spec d ml x h c hx hT hd0 hdB hinv
  rw [henselQ2_one]
  generalize (henselStep d ml x h c).1 = q at *
  generalize (henselStep d ml x h c).2.1 = h' at *
  generalize (henselStep d ml x h c).2.2 = c' at *
  have hlt : h' + c' < B := by omega
  have e1 : ([q], (h' + c') % B).2 = h' + c' := Nat.mod_eq_of_lt hlt
  have e2 : ([q], (h' + c') % B).1 = [q] := rfl
  rw [e1, e2]
  refine ⟨?_, Limbs_cons.mpr ⟨a1, Limbs_nil⟩, by rw [List.length_singleton, List.length_singleton]⟩
  rw [List.length_singleton, pow_one, val_singleton, val_singleton, ← a4]; ring

theorem henselQ2_spec (d ml mh : Nat) (hd0 : 0 < d) (hdB : d < B) (hinv : (d * ml) % B = 1) (hml : ml < B)
    (hmh : mh = (ml * ((B - (d * ml) / B) % B)) % B) (xs : List Nat) :
    ∀ h c, h + c < B → Limbs xs →
    val xs + (henselQ2 d ml mh xs h c).2 * B ^ xs.length = val (henselQ2 d ml mh xs h c).1 * d + (h + c) ∧
      Limbs (henselQ2 d ml mh xs h c).1 ∧ (henselQ2 d ml mh xs h c).1.length = xs.length := by
  induction xs using list_pair_induction with
  | h0 =>
    intro h c hT _
    rw [henselQ2_nil, Nat.mod_eq_of_lt hT]
    exact ⟨by rw [val_nil, List.length_nil, pow_zero, Nat.zero_mul, Nat.mul_one, Nat.zero_add], Limbs_nil, rfl⟩
  | h1 x =>
    intro h c hT hl
    exact henselQ2_one_spec d ml mh hd0 hdB hinv x h c hT (Limbs_cons.mp hl).1
  | h2 xl xh xs ih =>
    intro h c hT hl
    have ⟨hxl, hl'⟩ := Limbs_cons.mp hl
    have ⟨hxh, hxs⟩ := Limbs_cons.mp hl'
    obtain ⟨a1, a2, a3, a4⟩ := henselPair_spec d ml mh xl xh h c hxl hxh hT hd0 hdB hinv hml hmh
    rw [henselQ2_pair]
    generalize (henselPair d ml mh xl xh h c).1 = ql at *
    generalize (henselPair d ml mh xl xh h c).2.1 = qh at *
    generalize (henselPair d ml mh xl xh h c).2.2.1 = h' at *
    generalize (henselPair d ml mh xl xh h c).2.2.2 = c' at *
    obtain ⟨e, hL, hlen⟩ := ih h' c' a3 hxs
    refine ⟨?_, Limbs_cons.mpr ⟨a1, Limbs_cons.mpr ⟨a2, hL⟩⟩,
      by rw [List.length_cons, List.length_cons, hlen, List.length_cons, List.length_cons]⟩
    rw [val_cons, val_cons, val_cons, val_cons, List.length_cons, List.length_cons, pow_succ, pow_succ]
    generalize (henselQ2 d ml mh xs h' c').2 = ret at *
    generalize val (henselQ2 d ml mh xs h' c').1 = Vo at *
    generalize val xs = Vx at *
    generalize B ^ xs.length = P at *
    have : xl + B * (xh + B * Vx) + ret * (P * B * B) = (xl + xh * B) + B * B * (Vx + ret * P) := by ring
    rw [this, e]
    have : xl + xh * B + B * B * (Vo * d + (h' + c')) = (xl + xh * B + (c' + h') * (B * B)) + B * B * (Vo * d) := by ring
    rw [this, a4]; ring

/-- contract of the 2-adic divisions: x + ret·B^n = Q·d + cin with Q < B^n, output = ⌊Q / 2^s⌋ -/
def HenselSpec (x : List Nat) (d s cin : Nat) (res : List Nat × Nat) : Prop :=
  ∃ Q, val x + res.2 * B ^ x.length = Q * d + cin ∧ Q < B ^ x.length ∧ val res.1 = Q / 2 ^ s ∧
    Limbs res.1 ∧ res.1.length = x.length

theorem rsh_divrem_hensel_qr_1_1_spec (x : List Nat) (d s cin : Nat) (hx : Limbs x) (hne : x ≠ [])
    (hodd : d % 2 = 1) (hdB : d < B) (hs : s ≤ 63) (hcin : cin < B) :
    HenselSpec x d s cin (rsh_divrem_hensel_qr_1_1 x d s cin) := by
  cases x with
  | nil => exact absurd rfl hne
  | cons x0 xs =>
    have hd0 : 0 < d := by omega
    have hinv := modlimb_invert_mul d hodd
    have hunf : rsh_divrem_hensel_qr_1_1 (x0 :: xs) d s cin =
        hensel11Go d (modlimb_invert d) s xs (henselStep d (modlimb_invert d) x0 cin 0).2.1
          (henselStep d (modlimb_invert d) x0 cin 0).2.2 ((henselStep d (modlimb_invert d) x0 cin 0).1 >>> s) := rfl
    rw [hunf, hensel11Go_eq]
    obtain ⟨e, hL, hlen⟩ := henselQ_spec d (modlimb_invert d) hd0 hdB hinv (x0 :: xs) cin 0 (by omega) hx
    rw [henselQ_cons] at e hL hlen
    have ⟨hq0, hQs⟩ := Limbs_cons.mp hL
    obtain ⟨s1, s2, s3⟩ := shrList_spec s hs _ _ hq0 hQs
    refine ⟨_, e, val_lt_pow _ _ hL hlen, s1, s2, ?_⟩
    rw [s3]; rw [List.length_cons] at hlen; exact hlen

theorem rsh_divrem_hensel_qr_1_2_spec (x : List Nat) (d s cin : Nat) (hx : Limbs x) (hne : x ≠ [])
    (hodd : d % 2 = 1) (hdB : d < B) (hs : s ≤ 63) (hcin : cin < B) :
    HenselSpec x d s cin (rsh_divrem_hensel_qr_1_2 x d s cin) := by
  cases x with
  | nil => exact absurd rfl hne
  | cons x0 xs =>
    have ⟨hx0, hxs⟩ := Limbs_cons.mp hx
    have hd0 : 0 < d := by omega
    have hinv := modlimb_invert_mul d hodd
    have hml : modlimb_invert d < B := Nat.mod_lt _ B_pos
    generalize hmldef : modlimb_invert d = ml at *
    have hunf : rsh_divrem_hensel_qr_1_2 (x0 :: xs) d s cin =
        hensel12Go d ml ((ml * ((B - (d * ml) / B) % B)) % B) s xs (henselStep d ml x0 cin 0).2.1
          (henselStep d ml x0 cin 0).2.2 ((henselStep d ml x0 cin 0).1 >>> s) := by
      rw [← hmldef]; rfl
    rw [hunf, hensel12Go_eq]
    obtain ⟨a1, a2, a3, a4⟩ := henselStep_spec d ml x0 cin 0 hx0 (by omega) hd0 hdB hinv
    obtain ⟨e, hL, hlen⟩ := henselQ2_spec d ml _ hd0 hdB hinv hml rfl xs (henselStep d ml x0 cin 0).2.1
      (henselStep d ml x0 cin 0).2.2 (by omega) hxs
    generalize (henselStep d ml x0 cin 0).1 = q0 at *
    generalize (henselStep d ml x0 cin 0).2.1 = h' at *
    generalize (henselStep d ml x0 cin 0).2.2 = c' at *
    generalize henselQ2 d ml ((ml * ((B - (d * ml) / B) % B)) % B) xs h' c' = r at *
    obtain ⟨s1, s2, s3⟩ := shrList_spec s hs r.1 q0 a1 hL
    have hLq : Limbs (q0 :: r.1) := Limbs_cons.mpr ⟨a1, hL⟩
    have hlenq : (q0 :: r.1).length = (x0 :: xs).length := by rw [List.length_cons, hlen, List.length_cons]
    refine ⟨val (q0 :: r.1), ?_, val_lt_pow _ _ hLq hlenq, s1, s2, by rw [s3, hlen, List.length_cons]⟩
    show val (x0 :: xs) + r.2 * B ^ (xs.length + 1) = _
    rw [val_cons, val_cons, pow_succ]
    generalize val r.1 = Vo at *
    generalize val xs = Vx at *
    generalize B ^ xs.length = P at *
    have : x0 + B * Vx + r.2 * (P * B) = x0 + B * (Vx + r.2 * P) := by ring
    rw [this, e]
    have : x0 + B * (Vo * d + (h' + c')) = (x0 + (c' + h') * B) + B * (Vo * d) := by ring
    rw [this, a4]; ring

theorem rsh_divrem_hensel_qr_1_spec (x : List Nat) (d s cin : Nat) (hx : Limbs x) (hne : x ≠ [])
    (hodd : d % 2 = 1) (hdB : d < B) (hs : s ≤ 63) (hcin : cin < B) :
    HenselSpec x d s cin (rsh_divrem_hensel_qr_1 x d s cin) := by
  unfold rsh_divrem_hensel_qr_1
  split
  · exact rsh_divrem_hensel_qr_1_1_spec x d s cin hx hne hodd hdB hs hcin
  · exact rsh_divrem_hensel_qr_1_2_spec x d s cin hx hne hodd hdB hs hcin

/-- when d divides x − cin the 2-adic quotient is the true quotient, shifted -/
theorem hensel_exact (x : List Nat) (d s cin : Nat) (res : List Nat × Nat) (h : HenselSpec x d s cin res)
    (hodd : d % 2 = 1) (hle : cin ≤ val x) (hdvd : d ∣ val x - cin) :
    val res.1 = (val x - cin) / d / 2 ^ s ∧ Limbs res.1 ∧ res.1.length = x.length := by
  obtain ⟨Q, e, hQ, hv, hL, hlen⟩ := h
  have hd0 : 0 < d := by omega
  have e' : (val x - cin) + res.2 * B ^ x.length = d * Q := by rw [Nat.mul_comm d Q]; omega
  have := exact_finish d (val x - cin) Q res.2 x.length hodd e' hQ hdvd
  refine ⟨?_, hL, hlen⟩
  rw [hv, this, Nat.mul_div_cancel_left _ hd0]


/-! ### mpn_mod_1_1/2/3 folding and mpn_divrem_euclidean_r_1 -/

/-- two-limb value of a (high, low) pair -/
def v2 (p : Nat × Nat) : Nat := p.1 * B + p.2

/-- a proper two-limb pair with value V -/
def Pair2 (p : Nat × Nat) (V : Nat) : Prop := p.1 < B ∧ p.2 < B ∧ v2 p = V

theorem add2_noovf (ah al bh bl : Nat) (h : ah * B + al + (bh * B + bl) < B * B) :
    Pair2 (add_ssaaaa ah al bh bl) (ah * B + al + (bh * B + bl)) := by
  have hB := B_pos
  rw [add_ssaaaa_eq]
  have hq : (ah * B + al + (bh * B + bl)) / B < B := (Nat.div_lt_iff_lt_mul hB).mpr h
  refine ⟨?_, Nat.mod_lt _ hB, ?_⟩
  · show (ah * B + al + (bh * B + bl)) / B % B < B
    exact Nat.mod_lt _ hB
  · show (ah * B + al + (bh * B + bl)) / B % B * B + (ah * B + al + (bh * B + bl)) % B = _
    rw [Nat.mod_eq_of_lt hq]; exact Nat.div_add_mod' _ _

theorem umul_pair (a b : Nat) (ha : a < B) (hb : b < B) : Pair2 (umul_ppmm a b) (a * b) := by
  have hB := B_pos
  rw [umul_ppmm_eq]
  refine ⟨?_, Nat.mod_lt _ hB, Nat.div_add_mod' _ _⟩
  show a * b / B < B
  rw [Nat.div_lt_iff_lt_mul hB]
  have h1 : a * b ≤ a * B := Nat.mul_le_mul_left _ (Nat.le_of_lt hb)
  have h2 : a * B < B * B := Nat.mul_lt_mul_of_pos_right ha hB
  omega

theorem BB_sub : (B - 1) * (B - 1) + B ≤ B * B := by rw [B_eq]; norm_num

theorem mul_limbs_le (a b : Nat) (ha : a < B) (hb : b < B) : a * b ≤ (B - 1) * (B - 1) :=
  Nat.mul_le_mul (by omega) (by omega)

theorem mulAddLimb_pair (a b x : Nat) (ha : a < B) (hb : b < B) (hx : x < B) :
    Pair2 (mulAddLimb a b x) (a * b + x) := by
  obtain ⟨p1, p2, p3⟩ := umul_pair a b ha hb
  have hab := mul_limbs_le a b ha hb
  have hBB := BB_sub
  simp only [v2] at p3
  have := add2_noovf (umul_ppmm a b).1 (umul_ppmm a b).2 0 x (by omega)
  rw [Nat.zero_mul, Nat.zero_add, p3] at this
  exact this

/-- ⟨s⟩ + a·b without overflow -/
theorem accMul_pair (s : Nat × Nat) (V a b : Nat) (hs : Pair2 s V) (ha : a < B) (hb : b < B) (hlt : V + a * b < B * B) :
    Pair2 (accMul s a b) (V + a * b) := by
  obtain ⟨p1, p2, p3⟩ := umul_pair a b ha hb
  obtain ⟨s1, s2, s3⟩ := hs
  simp only [v2] at p3 s3
  have := add2_noovf s.1 s.2 (umul_ppmm a b).1 (umul_ppmm a b).2 (by omega)
  rw [s3, p3] at this
  exact this

/-- a·b + ⟨s⟩ without overflow -/
theorem mulAcc_pair (a b : Nat) (s : Nat × Nat) (V : Nat) (hs : Pair2 s V) (ha : a < B) (hb : b < B)
    (hlt : a * b + V < B * B) : Pair2 (mulAcc a b s) (a * b + V) := by
  obtain ⟨p1, p2, p3⟩ := umul_pair a b ha hb
  obtain ⟨s1, s2, s3⟩ := hs
  simp only [v2] at p3 s3
  have := add2_noovf (umul_ppmm a b).1 (umul_ppmm a b).2 s.1 s.2 (by omega)
  rw [s3, p3] at this
  exact this

theorem foldFin_pair (db0 th tl : Nat) (hdb : db0 < B) (hth : th < B) (htl : tl < B) :
    (foldFin db0 th tl).2 * B + (foldFin db0 th tl).1 = th * db0 + tl ∧ (foldFin db0 th tl).1 < B := by
  obtain ⟨a, b, c⟩ := mulAddLimb_pair th db0 tl hth hdb htl
  exact ⟨c, b⟩

/-- the closing division of the mpn_mod_1_k_wrap functions -/
theorem modWrapFinal_spec (sl sh d c : Nat) (hc : c ≤ 63) (h1 : B / 2 ≤ d * 2 ^ c) (h2 : d * 2 ^ c < B)
    (hsl : sl < B) (hsh : sh < d) :
    modWrapFinal sl sh c (d * 2 ^ c) (invert_limb (d * 2 ^ c)) = (sh * B + sl) % d := by
  have hB := B_pos
  have hp : 0 < 2 ^ c := by positivity
  unfold modWrapFinal
  obtain ⟨e1, e2⟩ := limb_split sl c hc
  have hhi := limb_hi_lt sl c hsl (by omega)
  have hsum := limb_split_sum sl c (by omega)
  have hshc : sh * 2 ^ c < d * 2 ^ c := Nat.mul_lt_mul_of_pos_right hsh hp
  rw [e1, e2, Nat.shiftLeft_eq, Nat.mod_eq_of_lt (by omega)]
  have hor : sh * 2 ^ c ||| sl / 2 ^ (64 - c) = sh * 2 ^ c + sl / 2 ^ (64 - c) := by
    rw [← Nat.shiftLeft_eq]; exact (Nat.shiftLeft_add_eq_or_of_lt hhi _).symm
  rw [hor]
  have hnh : sh * 2 ^ c + sl / 2 ^ (64 - c) < d * 2 ^ c := by
    have : (sh + 1) * 2 ^ c ≤ d * 2 ^ c := Nat.mul_le_mul_right _ hsh
    have : (sh + 1) * 2 ^ c = sh * 2 ^ c + 2 ^ c := by ring
    omega
  have hlo : sl % 2 ^ (64 - c) * 2 ^ c < B := by
    rw [B_split c (by omega)]
    exact Nat.mul_lt_mul_of_pos_right (Nat.mod_lt _ (by positivity)) hp
  rw [udiv_qrnnd_preinv_eq _ _ _ h1 h2 hnh hlo, udiv_qrnnd_snd]
  have : (sh * 2 ^ c + sl / 2 ^ (64 - c)) * B + sl % 2 ^ (64 - c) * 2 ^ c = (sh * B + sl) * 2 ^ c := by
    have : (sh * B + sl) * 2 ^ c = sh * 2 ^ c * B + sl * 2 ^ c := by ring
    rw [this, ← hsum]; ring
  rw [this]
  exact shifted_rem _ _ _

/-- the power-of-B residues computed by the wraps: one preinv division per power -/
theorem wrap_pow_step (d c X : Nat) (h1 : B / 2 ≤ d * 2 ^ c) (h2 : d * 2 ^ c < B) (hX : X < d) :
    (udiv_qrnnd_preinv (X * 2 ^ c) 0 (d * 2 ^ c) (invert_limb (d * 2 ^ c))).2 = ((X * B) % d) * 2 ^ c := by
  have hp : 0 < 2 ^ c := by positivity
  have hlt : X * 2 ^ c < d * 2 ^ c := Nat.mul_lt_mul_of_pos_right hX hp
  rw [udiv_qrnnd_preinv_eq _ _ _ h1 h2 hlt B_pos, udiv_qrnnd_snd, Nat.add_zero]
  have : X * 2 ^ c * B = (X * B) * 2 ^ c := by ring
  rw [this, Nat.mul_mod_mul_right]

theorem wrap_pow_first (d : Nat) (hd0 : 0 < d) (hdB : d < B) :
    (udiv_qrnnd_preinv ((1 <<< count_leading_zeros d) % B) 0 (d * 2 ^ count_leading_zeros d)
      (invert_limb (d * 2 ^ count_leading_zeros d))).2 = (B % d) * 2 ^ count_leading_zeros d := by
  obtain ⟨hc, h1, h2⟩ := clz_spec d (by omega) hdB
  by_cases hd1 : d = 1
  · subst hd1; decide
  · have hp : 0 < 2 ^ count_leading_zeros d := by positivity
    have h1c : (1 <<< count_leading_zeros d) % B = 1 * 2 ^ count_leading_zeros d := by
      rw [Nat.shiftLeft_eq]
      apply Nat.mod_eq_of_lt
      have : 1 * 2 ^ count_leading_zeros d < d * 2 ^ count_leading_zeros d :=
        Nat.mul_lt_mul_of_pos_right (by omega) hp
      omega
    rw [h1c, wrap_pow_step d _ 1 h1 h2 (by omega), Nat.one_mul]

theorem shr_cancel (Y c : Nat) : (Y * 2 ^ c) >>> c = Y := by
  rw [Nat.shiftRight_eq_div_pow, Nat.mul_div_cancel _ (by positivity)]

/-- one trip of the mpn_mod_1_1 loop -/
theorem fold1Step_pair (d db0 db1 : Nat) (st : Nat × Nat) (V xj : Nat) (hst : Pair2 st V) (hxj : xj < B)
    (hd : 2 * d ≤ B + 2) (hd0 : 0 < d) (hdb0 : db0 = B % d) (hdb1 : db1 = B ^ 2 % d) :
    ∃ V', Pair2 (fold1Step db0 db1 st xj) V' ∧ V' % d = (V * B + xj) % d := by
  obtain ⟨s1, s2, s3⟩ := hst
  have hdb0lt : db0 < d := by rw [hdb0]; exact Nat.mod_lt _ hd0
  have hdb1lt : db1 < d := by rw [hdb1]; exact Nat.mod_lt _ hd0
  have hdB : d < B := by simp only [B_eq] at *; omega
  have hm := mulAddLimb_pair st.2 db0 xj s2 (by omega) hxj
  have b1 : st.2 * db0 ≤ (B - 1) * (d - 1) := Nat.mul_le_mul (by omega) (by omega)
  have b2 : st.1 * db1 ≤ (B - 1) * (d - 1) := Nat.mul_le_mul (by omega) (by omega)
  have hbound : st.1 * db1 + (st.2 * db0 + xj) < B * B := by
    have : (B - 1) * (d - 1) + (B - 1) * (d - 1) + B ≤ B * B := by
      simp only [B_eq] at *; omega
    omega
  have hm2 := mulAcc_pair st.1 db1 _ _ hm s1 (by omega) hbound
  refine ⟨_, hm2, ?_⟩
  simp only [v2] at s3
  rw [← s3, hdb0, hdb1]
  have e1 : st.1 * (B ^ 2 % d) + (st.2 * (B % d) + xj) ≡ st.1 * B ^ 2 + (st.2 * B + xj) [MOD d] :=
    Nat.ModEq.add (Nat.ModEq.mul_left _ (Nat.mod_modEq _ _))
      (Nat.ModEq.add_right _ (Nat.ModEq.mul_left _ (Nat.mod_modEq _ _)))
  have e2 : (st.1 * B + st.2) * B + xj = st.1 * B ^ 2 + (st.2 * B + xj) := by ring
  rw [e2]; exact e1

theorem valMS_congr (d : Nat) (l : List Nat) (a a' : Nat) (h : a % d = a' % d) : valMS a l % d = valMS a' l % d := by
  rw [valMS_mod, h, ← valMS_mod]

theorem foldFin_spec (d db0 th tl : Nat) (hd0 : 0 < d) (hdB : d < B) (hdb0 : db0 = B % d) (hth : th < B) (htl : tl < B) :
    ((foldFin db0 th tl).2 * B + (foldFin db0 th tl).1) % d = (th * B + tl) % d ∧
    (foldFin db0 th tl).2 < d ∧ (foldFin db0 th tl).1 < B := by
  have hdb0lt : db0 < d := by rw [hdb0]; exact Nat.mod_lt _ hd0
  obtain ⟨e, hl⟩ := foldFin_pair db0 th tl (by omega) hth htl
  refine ⟨?_, ?_, hl⟩
  · rw [e, hdb0]
    exact Nat.ModEq.add_right _ (Nat.ModEq.mul_left _ (Nat.mod_modEq _ _))
  · have b1 : th * db0 ≤ (B - 1) * (d - 1) := Nat.mul_le_mul (by omega) (by omega)
    have : (foldFin db0 th tl).2 * B < d * B := by
      have : (B - 1) * (d - 1) + B ≤ d * B := by simp only [B_eq] at *; omega
      omega
    exact Nat.lt_of_mul_lt_mul_right this

theorem mod_1_1Go_spec (d db0 db1 : Nat) (hd : 2 * d ≤ B + 2) (hd0 : 0 < d) (hdb0 : db0 = B % d)
    (hdb1 : db1 = B ^ 2 % d) (rest : List Nat) (h l : Nat) (hh : h < B) (hl : l < B) (hrest : Limbs rest) :
    ((mod_1_1Go db0 db1 rest h l).2 * B + (mod_1_1Go db0 db1 rest h l).1) % d = valMS (h * B + l) rest % d ∧
    (mod_1_1Go db0 db1 rest h l).2 < d ∧ (mod_1_1Go db0 db1 rest h l).1 < B := by
  have hdB : d < B := by simp only [B_eq] at *; omega
  have hfold : ∀ (rest : List Nat) (st : Nat × Nat) (V : Nat), Pair2 st V → Limbs rest →
      ∃ V', Pair2 (rest.foldl (fold1Step db0 db1) st) V' ∧ V' % d = valMS V rest % d := by
    intro rest
    induction rest with
    | nil => intro st V hst _; exact ⟨V, hst, rfl⟩
    | cons xj xs ih =>
      intro st V hst hlim
      have ⟨hxj, hxs⟩ := Limbs_cons.mp hlim
      obtain ⟨V1, p1, e1⟩ := fold1Step_pair d db0 db1 st V xj hst hxj hd hd0 hdb0 hdb1
      obtain ⟨V2, p2, e2⟩ := ih _ V1 p1 hxs
      refine ⟨V2, by rw [List.foldl_cons]; exact p2, ?_⟩
      rw [e2, valMS_cons]; exact valMS_congr d xs _ _ e1
  obtain ⟨V', ⟨q1, q2, q3⟩, e⟩ := hfold rest (h, l) (h * B + l) ⟨hh, hl, rfl⟩ hrest
  unfold mod_1_1Go
  simp only
  obtain ⟨f1, f2, f3⟩ := foldFin_spec d db0 _ _ hd0 hdB hdb0 q1 q2
  refine ⟨?_, f2, f3⟩
  rw [f1, ← e]; simp only [v2] at q3; rw [q3]

theorem mod_1_1_wrap_spec (x : List Nat) (d : Nat) (hx : Limbs x) (hd0 : 0 < d) (hd : 2 * d ≤ B + 2) :
    mod_1_1_wrap x d = val x % d := by
  have hdB : d < B := by simp only [B_eq] at *; omega
  rw [val_eq_valMS]
  unfold mod_1_1_wrap
  have hl := Limbs_reverse hx
  cases hrev : x.reverse with
  | nil => simp [valMS]
  | cons h t =>
    cases t with
    | nil => simp [valMS]
    | cons l rest =>
      rw [hrev] at hl
      have ⟨hh, hl'⟩ := Limbs_cons.mp hl
      have ⟨hll, hrest⟩ := Limbs_cons.mp hl'
      obtain ⟨hc, h1, h2⟩ := clz_spec d (by omega) hdB
      simp only
      rw [Nat.shiftLeft_eq d, Nat.mod_eq_of_lt h2, wrap_pow_first d hd0 hdB,
        wrap_pow_step d _ (B % d) h1 h2 (Nat.mod_lt _ hd0), shr_cancel, shr_cancel]
      have hdb1 : (B % d * B) % d = B ^ 2 % d := by rw [pow_two, Nat.mod_mul_mod]
      obtain ⟨g1, g2, g3⟩ := mod_1_1Go_spec d (B % d) ((B % d * B) % d) hd hd0 rfl hdb1 rest h l hh hll hrest
      rw [modWrapFinal_spec _ _ d _ hc h1 h2 g3 g2, g1, valMS_cons, valMS_cons, Nat.zero_mul, Nat.zero_add]

theorem prod_le (a b d : Nat) (ha : a < B) (hb : b < d) : a * b ≤ (B - 1) * (d - 1) :=
  Nat.mul_le_mul (by omega) (by omega)

/-- one trip of the mpn_mod_1_2 loop -/
theorem fold2Step_pair (d db0 db1 db2 xj1 xj th tl : Nat) (hxj1 : xj1 < B) (hxj : xj < B) (hth : th < B)
    (htl : tl < B) (hd : 3 * d ≤ B + 3) (hd0 : 0 < d) (hdb0 : db0 = B % d) (hdb1 : db1 = B ^ 2 % d)
    (hdb2 : db2 = B ^ 3 % d) :
    ∃ V', Pair2 (fold2Step db0 db1 db2 xj1 xj th tl) V' ∧ V' % d = ((th * B + tl) * B ^ 2 + xj1 * B + xj) % d := by
  have hl0 : db0 < d := by rw [hdb0]; exact Nat.mod_lt _ hd0
  have hl1 : db1 < d := by rw [hdb1]; exact Nat.mod_lt _ hd0
  have hl2 : db2 < d := by rw [hdb2]; exact Nat.mod_lt _ hd0
  have hdB : d < B := by simp only [B_eq] at *; omega
  have b0 := prod_le xj1 db0 d hxj1 hl0
  have b1 := prod_le tl db1 d htl hl1
  have b2 := prod_le th db2 d hth hl2
  have hb : 3 * ((B - 1) * (d - 1)) + B ≤ B * B := by simp only [B_eq] at *; omega
  have m0 := mulAddLimb_pair xj1 db0 xj hxj1 (by omega) hxj
  have m1 := accMul_pair _ _ tl db1 m0 htl (by omega) (by omega)
  have m2 := mulAcc_pair th db2 _ _ m1 hth (by omega) (by omega)
  refine ⟨_, m2, ?_⟩
  rw [hdb0, hdb1, hdb2]
  have e1 : th * (B ^ 3 % d) + (xj1 * (B % d) + xj + tl * (B ^ 2 % d)) ≡
      th * B ^ 3 + (xj1 * B + xj + tl * B ^ 2) [MOD d] :=
    Nat.ModEq.add (Nat.ModEq.mul_left _ (Nat.mod_modEq _ _))
      (Nat.ModEq.add (Nat.ModEq.add_right _ (Nat.ModEq.mul_left _ (Nat.mod_modEq _ _)))
        (Nat.ModEq.mul_left _ (Nat.mod_modEq _ _)))
  have e2 : (th * B + tl) * B ^ 2 + xj1 * B + xj = th * B ^ 3 + (xj1 * B + xj + tl * B ^ 2) := by ring
  rw [e2]; exact e1

theorem mod_1_2Go_pair (db0 db1 db2 xj1 xj : Nat) (xs : List Nat) (th tl : Nat) :
    mod_1_2Go db0 db1 db2 (xj1 :: xj :: xs) th tl =
      mod_1_2Go db0 db1 db2 xs (fold2Step db0 db1 db2 xj1 xj th tl).1 (fold2Step db0 db1 db2 xj1 xj th tl).2 := rfl
theorem mod_1_2Go_one (db0 db1 db2 x0 th tl : Nat) :
    mod_1_2Go db0 db1 db2 [x0] th tl =
      foldFin db0 (fold1Step db0 db1 (th, tl) x0).1 (fold1Step db0 db1 (th, tl) x0).2 := rfl
theorem mod_1_2Go_nil (db0 db1 db2 th tl : Nat) : mod_1_2Go db0 db1 db2 [] th tl = foldFin db0 th tl := rfl

theorem mod_1_2Go_spec (d db0 db1 db2 : Nat) (hd : 3 * d ≤ B + 3) (hd0 : 0 < d) (hdb0 : db0 = B % d)
    (hdb1 : db1 = B ^ 2 % d) (hdb2 : db2 = B ^ 3 % d) (rest : List Nat) :
    ∀ th tl, th < B → tl < B → Limbs rest →
    ((mod_1_2Go db0 db1 db2 rest th tl).2 * B + (mod_1_2Go db0 db1 db2 rest th tl).1) % d =
      valMS (th * B + tl) rest % d ∧
    (mod_1_2Go db0 db1 db2 rest th tl).2 < d ∧ (mod_1_2Go db0 db1 db2 rest th tl).1 < B := by
  have hdB : d < B := by simp only [B_eq] at *; omega
  induction rest using list_pair_induction with
  | h0 =>
    intro th tl hth htl _
    rw [mod_1_2Go_nil]
    exact foldFin_spec d db0 th tl hd0 hdB hdb0 hth htl
  | h1 x0 =>
    intro th tl hth htl hl
    have ⟨hx0, _⟩ := Limbs_cons.mp hl
    rw [mod_1_2Go_one]
    obtain ⟨V', ⟨q1, q2, q3⟩, e⟩ := fold1Step_pair d db0 db1 (th, tl) (th * B + tl) x0 ⟨hth, htl, rfl⟩ hx0
      (by omega) hd0 hdb0 hdb1
    obtain ⟨f1, f2, f3⟩ := foldFin_spec d db0 _ _ hd0 hdB hdb0 q1 q2
    refine ⟨?_, f2, f3⟩
    simp only [v2] at q3
    rw [f1, q3, e, valMS_cons]; rfl
  | h2 xj1 xj xs ih =>
    intro th tl hth htl hl
    have ⟨hxj1, hl'⟩ := Limbs_cons.mp hl
    have ⟨hxj, hxs⟩ := Limbs_cons.mp hl'
    rw [mod_1_2Go_pair]
    obtain ⟨V', ⟨q1, q2, q3⟩, e⟩ := fold2Step_pair d db0 db1 db2 xj1 xj th tl hxj1 hxj hth htl hd hd0 hdb0 hdb1 hdb2
    obtain ⟨g1, g2, g3⟩ := ih _ _ q1 q2 hxs
    refine ⟨?_, g2, g3⟩
    simp only [v2] at q3
    rw [g1, q3, valMS_cons, valMS_cons]
    apply valMS_congr
    have : ((th * B + tl) * B + xj1) * B + xj = (th * B + tl) * B ^ 2 + xj1 * B + xj := by ring
    rw [e, this]

/-- one trip of the mpn_mod_1_3 loop -/
theorem fold3Step_pair (d db0 db1 db2 db3 xj2 xj1 xj th tl : Nat) (hxj2 : xj2 < B) (hxj1 : xj1 < B) (hxj : xj < B)
    (hth : th < B) (htl : tl < B) (hd : 4 * d ≤ B + 4) (hd0 : 0 < d) (hdb0 : db0 = B % d)
    (hdb1 : db1 = B ^ 2 % d) (hdb2 : db2 = B ^ 3 % d) (hdb3 : db3 = B ^ 4 % d) :
    ∃ V', Pair2 (fold3Step db0 db1 db2 db3 xj2 xj1 xj th tl) V' ∧
      V' % d = ((th * B + tl) * B ^ 3 + xj2 * B ^ 2 + xj1 * B + xj) % d := by
  have hl0 : db0 < d := by rw [hdb0]; exact Nat.mod_lt _ hd0
  have hl1 : db1 < d := by rw [hdb1]; exact Nat.mod_lt _ hd0
  have hl2 : db2 < d := by rw [hdb2]; exact Nat.mod_lt _ hd0
  have hl3 : db3 < d := by rw [hdb3]; exact Nat.mod_lt _ hd0
  have hdB : d < B := by simp only [B_eq] at *; omega
  have b0 := prod_le xj1 db0 d hxj1 hl0
  have b1 := prod_le xj2 db1 d hxj2 hl1
  have b2 := prod_le tl db2 d htl hl2
  have b3 := prod_le th db3 d hth hl3
  have hb : 4 * ((B - 1) * (d - 1)) + B ≤ B * B := by simp only [B_eq] at *; omega
  have m0 := mulAddLimb_pair xj1 db0 xj hxj1 (by omega) hxj
  have m1 := accMul_pair _ _ xj2 db1 m0 hxj2 (by omega) (by omega)
  have m2 := accMul_pair _ _ tl db2 m1 htl (by omega) (by omega)
  have m3 := mulAcc_pair th db3 _ _ m2 hth (by omega) (by omega)
  refine ⟨_, m3, ?_⟩
  rw [hdb0, hdb1, hdb2, hdb3]
  have e1 : th * (B ^ 4 % d) + (xj1 * (B % d) + xj + xj2 * (B ^ 2 % d) + tl * (B ^ 3 % d)) ≡
      th * B ^ 4 + (xj1 * B + xj + xj2 * B ^ 2 + tl * B ^ 3) [MOD d] :=
    Nat.ModEq.add (Nat.ModEq.mul_left _ (Nat.mod_modEq _ _))
      (Nat.ModEq.add (Nat.ModEq.add (Nat.ModEq.add_right _ (Nat.ModEq.mul_left _ (Nat.mod_modEq _ _)))
        (Nat.ModEq.mul_left _ (Nat.mod_modEq _ _))) (Nat.ModEq.mul_left _ (Nat.mod_modEq _ _)))
  have e2 : (th * B + tl) * B ^ 3 + xj2 * B ^ 2 + xj1 * B + xj =
      th * B ^ 4 + (xj1 * B + xj + xj2 * B ^ 2 + tl * B ^ 3) := by ring
  rw [e2]; exact e1

/-- the one-limb tail of mod_1_3: `sh = 0; sl = xp[0]`, then tl·db0 and th·db1 -/
theorem tail3b_pair (d db0 db1 x0 th tl : Nat) (hx0 : x0 < B) (hth : th < B) (htl : tl < B)
    (hd : 2 * d ≤ B + 2) (hd0 : 0 < d) (hdb0 : db0 = B % d) (hdb1 : db1 = B ^ 2 % d) :
    ∃ V', Pair2 (mulAcc th db1 (accMul (0, x0) tl db0)) V' ∧ V' % d = ((th * B + tl) * B + x0) % d := by
  have hl0 : db0 < d := by rw [hdb0]; exact Nat.mod_lt _ hd0
  have hl1 : db1 < d := by rw [hdb1]; exact Nat.mod_lt _ hd0
  have hdB : d < B := by simp only [B_eq] at *; omega
  have b0 := prod_le tl db0 d htl hl0
  have b1 := prod_le th db1 d hth hl1
  have hb : 2 * ((B - 1) * (d - 1)) + B ≤ B * B := by simp only [B_eq] at *; omega
  have m0 : Pair2 (0, x0) x0 := ⟨B_pos, hx0, by simp [v2]⟩
  have m1 := accMul_pair _ _ tl db0 m0 htl (by omega) (by omega)
  have m2 := mulAcc_pair th db1 _ _ m1 hth (by omega) (by omega)
  refine ⟨_, m2, ?_⟩
  rw [hdb0, hdb1]
  have e1 : th * (B ^ 2 % d) + (x0 + tl * (B % d)) ≡ th * B ^ 2 + (x0 + tl * B) [MOD d] :=
    Nat.ModEq.add (Nat.ModEq.mul_left _ (Nat.mod_modEq _ _))
      (Nat.ModEq.add_left _ (Nat.ModEq.mul_left _ (Nat.mod_modEq _ _)))
  have e2 : (th * B + tl) * B + x0 = th * B ^ 2 + (x0 + tl * B) := by ring
  rw [e2]; exact e1

theorem mod_1_3Go_triple (db0 db1 db2 db3 xj2 xj1 xj : Nat) (xs : List Nat) (th tl : Nat) :
    mod_1_3Go db0 db1 db2 db3 (xj2 :: xj1 :: xj :: xs) th tl =
      mod_1_3Go db0 db1 db2 db3 xs (fold3Step db0 db1 db2 db3 xj2 xj1 xj th tl).1
        (fold3Step db0 db1 db2 db3 xj2 xj1 xj th tl).2 := rfl
theorem mod_1_3Go_two (db0 db1 db2 db3 x1 x0 th tl : Nat) :
    mod_1_3Go db0 db1 db2 db3 [x1, x0] th tl =
      foldFin db0 (fold2Step db0 db1 db2 x1 x0 th tl).1 (fold2Step db0 db1 db2 x1 x0 th tl).2 := rfl
theorem mod_1_3Go_one (db0 db1 db2 db3 x0 th tl : Nat) :
    mod_1_3Go db0 db1 db2 db3 [x0] th tl =
      foldFin db0 (mulAcc th db1 (accMul (0, x0) tl db0)).1 (mulAcc th db1 (accMul (0, x0) tl db0)).2 := rfl
theorem mod_1_3Go_nil (db0 db1 db2 db3 th tl : Nat) :
    mod_1_3Go db0 db1 db2 db3 [] th tl = foldFin db0 th tl := rfl

theorem list_triple_induction {P : List Nat → Prop} (h0 : P []) (h1 : ∀ x, P [x]) (h2 : ∀ x y, P [x, y])
    (h3 : ∀ x y z xs, P xs → P (x :: y :: z :: xs)) : ∀ l, P l
  | [] => h0
  | [x] => h1 x
  | [x, y] => h2 x y
  | x :: y :: z :: xs => h3 x y z xs (list_triple_induction h0 h1 h2 h3 xs)

theorem mod_1_3Go_spec (d db0 db1 db2 db3 : Nat) (hd : 4 * d ≤ B + 4) (hd0 : 0 < d) (hdb0 : db0 = B % d)
    (hdb1 : db1 = B ^ 2 % d) (hdb2 : db2 = B ^ 3 % d) (hdb3 : db3 = B ^ 4 % d) (rest : List Nat) :
    ∀ th tl, th < B → tl < B → Limbs rest →
    ((mod_1_3Go db0 db1 db2 db3 rest th tl).2 * B + (mod_1_3Go db0 db1 db2 db3 rest th tl).1) % d =
      valMS (th * B + tl) rest % d ∧
    (mod_1_3Go db0 db1 db2 db3 rest th tl).2 < d ∧ (mod_1_3Go db0 db1 db2 db3 rest th tl).1 < B := by
  have hdB : d < B := by simp only [B_eq] at *; omega
  induction rest using list_triple_induction with
  | h0 =>
    intro th tl hth htl _
    rw [mod_1_3Go_nil]
    exact foldFin_spec d db0 th tl hd0 hdB hdb0 hth htl
  | h1 x0 =>
    intro th tl hth htl hl
    have ⟨hx0, _⟩ := Limbs_cons.mp hl
    rw [mod_1_3Go_one]
    obtain ⟨V', ⟨q1, q2, q3⟩, e⟩ := tail3b_pair d db0 db1 x0 th tl hx0 hth htl (by omega) hd0 hdb0 hdb1
    obtain ⟨f1, f2, f3⟩ := foldFin_spec d db0 _ _ hd0 hdB hdb0 q1 q2
    refine ⟨?_, f2, f3⟩
    simp only [v2] at q3
    rw [f1, q3, e, valMS_cons]; rfl
  | h2 x1 x0 =>
    intro th tl hth htl hl
    have ⟨hx1, hl'⟩ := Limbs_cons.mp hl
    have ⟨hx0, _⟩ := Limbs_cons.mp hl'
    rw [mod_1_3Go_two]
    obtain ⟨V', ⟨q1, q2, q3⟩, e⟩ := fold2Step_pair d db0 db1 db2 x1 x0 th tl hx1 hx0 hth htl (by omega) hd0
      hdb0 hdb1 hdb2
    obtain ⟨f1, f2, f3⟩ := foldFin_spec d db0 _ _ hd0 hdB hdb0 q1 q2
    refine ⟨?_, f2, f3⟩
    simp only [v2] at q3
    have : valMS (th * B + tl) [x1, x0] = (th * B + tl) * B ^ 2 + x1 * B + x0 := by
      rw [valMS_cons, valMS_cons]; show ((th * B + tl) * B + x1) * B + x0 = _; ring
    rw [f1, q3, e, this]
  | h3 xj2 xj1 xj xs ih =>
    intro th tl hth htl hl
    have ⟨hxj2, hl'⟩ := Limbs_cons.mp hl
    have ⟨hxj1, hl''⟩ := Limbs_cons.mp hl'
    have ⟨hxj, hxs⟩ := Limbs_cons.mp hl''
    rw [mod_1_3Go_triple]
    obtain ⟨V', ⟨q1, q2, q3⟩, e⟩ := fold3Step_pair d db0 db1 db2 db3 xj2 xj1 xj th tl hxj2 hxj1 hxj hth htl hd hd0
      hdb0 hdb1 hdb2 hdb3
    obtain ⟨g1, g2, g3⟩ := ih _ _ q1 q2 hxs
    refine ⟨?_, g2, g3⟩
    simp only [v2] at q3
    rw [g1, q3, valMS_cons, valMS_cons, valMS_cons]
    apply valMS_congr
    have : (((th * B + tl) * B + xj2) * B + xj1) * B + xj =
        (th * B + tl) * B ^ 3 + xj2 * B ^ 2 + xj1 * B + xj := by ring
    rw [e, this]

theorem pow_mod_step (d k : Nat) : (B ^ k % d * B) % d = B ^ (k + 1) % d := by
  rw [pow_succ, Nat.mod_mul_mod]

theorem mod_1_2_wrap_spec (x : List Nat) (d : Nat) (hx : Limbs x) (hd0 : 0 < d) (hd : 3 * d ≤ B + 3) :
    mod_1_2_wrap x d = val x % d := by
  have hdB : d < B := by simp only [B_eq] at *; omega
  rw [val_eq_valMS]
  unfold mod_1_2_wrap
  have hl := Limbs_reverse hx
  cases hrev : x.reverse with
  | nil => simp [valMS]
  | cons h t =>
    cases t with
    | nil => simp [valMS]
    | cons l rest =>
      rw [hrev] at hl
      have ⟨hh, hl'⟩ := Limbs_cons.mp hl
      have ⟨hll, hrest⟩ := Limbs_cons.mp hl'
      obtain ⟨hc, h1, h2⟩ := clz_spec d (by omega) hdB
      have hm := fun k => Nat.mod_lt (B ^ k) hd0
      have hB1 : B % d = B ^ 1 % d := by rw [pow_one]
      simp only
      rw [Nat.shiftLeft_eq d, Nat.mod_eq_of_lt h2, wrap_pow_first d hd0 hdB, hB1,
        wrap_pow_step d _ _ h1 h2 (hm 1), pow_mod_step, wrap_pow_step d _ _ h1 h2 (hm 2), pow_mod_step,
        shr_cancel, shr_cancel, shr_cancel]
      obtain ⟨g1, g2, g3⟩ := mod_1_2Go_spec d _ _ _ hd hd0 hB1.symm rfl rfl rest h l hh hll hrest
      rw [modWrapFinal_spec _ _ d _ hc h1 h2 g3 g2, g1, valMS_cons, valMS_cons, Nat.zero_mul, Nat.zero_add]

theorem mod_1_3_wrap_spec (x : List Nat) (d : Nat) (hx : Limbs x) (hd0 : 0 < d) (hd : 4 * d ≤ B + 4) :
    mod_1_3_wrap x d = val x % d := by
  have hdB : d < B := by simp only [B_eq] at *; omega
  rw [val_eq_valMS]
  unfold mod_1_3_wrap
  have hl := Limbs_reverse hx
  cases hrev : x.reverse with
  | nil => simp [valMS]
  | cons h t =>
    cases t with
    | nil => simp [valMS]
    | cons l rest =>
      rw [hrev] at hl
      have ⟨hh, hl'⟩ := Limbs_cons.mp hl
      have ⟨hll, hrest⟩ := Limbs_cons.mp hl'
      obtain ⟨hc, h1, h2⟩ := clz_spec d (by omega) hdB
      have hm := fun k => Nat.mod_lt (B ^ k) hd0
      have hB1 : B % d = B ^ 1 % d := by rw [pow_one]
      simp only
      rw [Nat.shiftLeft_eq d, Nat.mod_eq_of_lt h2, wrap_pow_first d hd0 hdB, hB1,
        wrap_pow_step d _ _ h1 h2 (hm 1), pow_mod_step, wrap_pow_step d _ _ h1 h2 (hm 2), pow_mod_step,
        wrap_pow_step d _ _ h1 h2 (hm 3), pow_mod_step,
        shr_cancel, shr_cancel, shr_cancel, shr_cancel]
      obtain ⟨g1, g2, g3⟩ := mod_1_3Go_spec d _ _ _ _ hd hd0 hB1.symm rfl rfl rfl rest h l hh hll hrest
      rw [modWrapFinal_spec _ _ d _ hc h1 h2 g3 g2, g1, valMS_cons, valMS_cons, Nat.zero_mul, Nat.zero_add]

/-- mpn_divrem_euclidean_r_1 returns the remainder on every branch -/
theorem divrem_euclidean_r_1_spec (x : List Nat) (d : Nat) (hx : Limbs x) (hd0 : 0 < d) (hdB : d < B) :
    divrem_euclidean_r_1 x d = val x % d := by
  unfold divrem_euclidean_r_1
  simp only [Bool.and_eq_true, decide_eq_true_eq]
  have hH : HIGHBIT = 9223372036854775808 := by unfold HIGHBIT; rw [B_eq]
  have hM : LIMB_MAX = 18446744073709551615 := by unfold LIMB_MAX; rw [B_eq]
  split
  · rename_i h
    exact mod_1_3_wrap_spec x d hx hd0 (by have := h.1; rw [hH] at this; simp only [B_eq]; omega)
  · split
    · rename_i h
      exact mod_1_2_wrap_spec x d hx hd0 (by have := h.1; rw [hM] at this; simp only [B_eq]; omega)
    · split
      · rename_i h
        exact mod_1_1_wrap_spec x d hx hd0 (by have := h.1; rw [hH] at this; simp only [B_eq]; omega)
      · obtain ⟨hs, h1, h2⟩ := clz_spec d (by omega) hdB
        rw [Nat.shiftLeft_eq, Nat.mod_eq_of_lt h2]
        have := euclidLoop_eq d _ hs h1 h2 x.reverse 0 hd0 (Limbs_reverse hx)
        rw [Nat.zero_mul] at this
        rw [this]
        simp only
        rw [shr_cancel, plainLoop_rem d _ _ hd0 (Limbs_reverse hx), ← val_eq_valMS]


/-- the Hensel path of mpn_divrem_1 (divrem_1.c:102-108): remainder by mpn_divrem_euclidean_r_1,
    quotient by the 2-adic division of n − r by the odd part of d, shifted right on the fly -/
theorem divrem_1_hensel_path (u : List Nat) (d : Nat) (hu : Limbs u) (hne : u ≠ []) (hd0 : 0 < d) (hdB : d < B) :
    Divrem1Spec 0 u d
      ((rsh_divrem_hensel_qr_1 u (d >>> count_trailing_zeros d) (count_trailing_zeros d)
        (divrem_euclidean_r_1 u d)).1, divrem_euclidean_r_1 u d) := by
  rw [divrem_euclidean_r_1_spec u d hu hd0 hdB]
  obtain ⟨hdvd, hodd, hi⟩ := ctz_spec d hd0 hdB
  generalize count_trailing_zeros d = i at *
  rw [Nat.shiftRight_eq_div_pow]
  have hp : 0 < 2 ^ i := by positivity
  obtain ⟨d', hd'⟩ := hdvd
  have hdd : d / 2 ^ i = d' := by rw [hd', Nat.mul_div_cancel_left _ hp]
  rw [hdd] at hodd ⊢
  have hd'le : d' ≤ d := by rw [hd']; exact Nat.le_mul_of_pos_left _ hp
  have hr : val u % d < d := Nat.mod_lt _ hd0
  have hspec := rsh_divrem_hensel_qr_1_spec u d' i (val u % d) hu hne hodd (by omega) hi (by omega)
  have hdvd' : d' ∣ val u - val u % d :=
    Dvd.dvd.trans ⟨2 ^ i, by rw [hd', Nat.mul_comm]⟩ (Nat.dvd_sub_mod (val u))
  obtain ⟨e1, e2, e3⟩ := hensel_exact u d' i (val u % d) _ hspec hodd (Nat.mod_le _ _) hdvd'
  refine ⟨?_, hr, e2, by rw [e3, Nat.add_zero]⟩
  simp only
  rw [e1, Nat.div_div_eq_div_mul, Nat.mul_comm d' (2 ^ i), ← hd', pow_zero, Nat.mul_one]
  have h1 : (val u - val u % d) / d = val u / d := by
    have := Nat.div_add_mod (val u) d
    have h2 : val u - val u % d = d * (val u / d) := by omega
    rw [h2, Nat.mul_div_cancel_left _ hd0]
  rw [h1, Nat.mul_comm]; exact Nat.div_add_mod _ _

/-- mpn_divrem_1 on every path -/
theorem divrem_1_spec (qxn : Nat) (u : List Nat) (d : Nat) (hu : Limbs u) (hd0 : 0 < d) (hdB : d < B) :
    Divrem1Spec qxn u d (divrem_1 qxn u d) := by
  by_cases hnh : (decide (qxn = 0) && (decide (d ≤ HIGHBIT / 2 + 1) &&
      ABOVE_THRESHOLD u.length Gen.DIVREM_EUCLID_HENSEL_THRESHOLD)) = false
  · exact divrem_1_spec_nohensel qxn u d hu hd0 hdB hnh
  · rw [Bool.not_eq_false] at hnh
    unfold divrem_1
    simp only [hnh, if_true]
    split
    · rename_i h0
      have hu0 : u = [] := List.eq_nil_of_length_eq_zero (by omega)
      have hq0 : qxn = 0 := by omega
      subst hu0 hq0
      exact ⟨by simp, hd0, Limbs_nil, rfl⟩
    · rename_i hn0
      have hq : qxn = 0 := by
        simp only [Bool.and_eq_true, decide_eq_true_eq] at hnh; exact hnh.1
      subst hq
      have hne : u ≠ [] := by
        intro h; subst h; simp at hn0
      exact divrem_1_hensel_path u d hu hne hd0 hdB


/-! ### udiv_qrnnd_preinv1 (the branching variant; not selected in this build) -/

/-- the estimate q0 = nh + ⌊nh·di/B⌋ is never too large and at most three too small: 0 ≤ n − q0·d < B + 2d -/
theorem preinv1_core (nh nl d di : Nat) (h1 : B / 2 ≤ d) (h2 : d < B) (hnh : nh < d) (hnl : nl < B)
    (hv1 : (B + di) * d ≤ B * B - 1) (hv2 : B * B - 1 < (B + di + 1) * d) :
    (nh * di / B + nh) * d ≤ nh * B + nl ∧ nh * B + nl < (nh * di / B + nh) * d + B + 2 * d := by
  have hB := B_pos
  have hBB : 0 < B * B := Nat.mul_pos hB hB
  have hdm := Nat.div_add_mod' (nh * di) B
  have hb := Nat.mod_lt (nh * di) hB
  generalize nh * di / B = a at *
  generalize nh * di % B = b at *
  -- k = B² − (B+di)·d
  obtain ⟨k, hk, hk1, hk2⟩ : ∃ k, (B + di) * d + k = B * B ∧ 1 ≤ k ∧ k ≤ d := by
    refine ⟨B * B - (B + di) * d, by omega, by omega, ?_⟩
    have : (B + di + 1) * d = (B + di) * d + d := by ring
    omega
  -- (n − q0 d)·B = nl·B + nh·k + b·d
  have key : (a + nh) * d * B + (nl * B + nh * k + b * d) = (nh * B + nl) * B := by
    have e1 : (a + nh) * d * B = (a * B + nh * B) * d := by ring
    have e2 : a * B = nh * di - b := by omega
    have e3 : (a * B + nh * B) * d + b * d = nh * ((B + di) * d) := by
      have : a * B + b = nh * di := hdm
      calc (a * B + nh * B) * d + b * d = (a * B + b + nh * B) * d := by ring
        _ = (nh * di + nh * B) * d := by rw [this]
        _ = nh * ((B + di) * d) := by ring
    have e4 : nh * ((B + di) * d) + nh * k = nh * (B * B) := by rw [← Nat.mul_add, hk]
    calc (a + nh) * d * B + (nl * B + nh * k + b * d)
        = ((a * B + nh * B) * d + b * d) + nh * k + nl * B := by rw [e1]; ring
      _ = nh * ((B + di) * d) + nh * k + nl * B := by rw [e3]
      _ = nh * (B * B) + nl * B := by rw [e4]
      _ = (nh * B + nl) * B := by ring
  constructor
  · have : (a + nh) * d * B ≤ (nh * B + nl) * B := by omega
    exact Nat.le_of_mul_le_mul_right this hB
  · have b1 : nl * B ≤ (B - 1) * B := Nat.mul_le_mul_right _ (by omega)
    have b2 : nh * k ≤ (d - 1) * d := Nat.mul_le_mul (by omega) hk2
    have b3 : b * d ≤ (B - 1) * d := Nat.mul_le_mul_right _ (by omega)
    have b4 : (d - 1) * d ≤ (d - 1) * B := Nat.mul_le_mul_left _ (Nat.le_of_lt h2)
    have hlt : (nh * B + nl) * B < ((a + nh) * d + B + 2 * d) * B := by
      have e : ((a + nh) * d + B + 2 * d) * B = (a + nh) * d * B + B * B + 2 * d * B := by ring
      rw [e, ← key]
      have : (B - 1) * B + (d - 1) * B + (B - 1) * d < B * B + 2 * d * B := by
        have e1 : (B - 1) * B + B = B * B := by
          have : (B - 1 + 1) * B = B * B := by rw [Nat.sub_add_cancel hB]
          rw [← this]; ring
        have e2 : (d - 1) * B + B = d * B := by
          have : (d - 1 + 1) * B = d * B := by rw [Nat.sub_add_cancel (by omega)]
          rw [← this]; ring
        have e3 : (B - 1) * d + d = B * d := by
          have : (B - 1 + 1) * d = B * d := by rw [Nat.sub_add_cancel hB]
          rw [← this]; ring
        have e4 : 2 * d * B = d * B + B * d := by ring
        omega
      omega
    exact Nat.lt_of_mul_lt_mul_right hlt

theorem udiv_qrnnd_preinv1_eq (nh nl d : Nat) (h1 : B / 2 ≤ d) (h2 : d < B) (hnh : nh < d) (hnl : nl < B) :
    udiv_qrnnd_preinv1 nh nl d (invert_limb d) = ((nh * B + nl) / d, (nh * B + nl) % d) := by
  obtain ⟨hv, hv1, hv2⟩ := invert_limb_bounds d h1 h2
  generalize invert_limb d = di at *
  obtain ⟨c1, c2⟩ := preinv1_core nh nl d di h1 h2 hnh hnl hv1 hv2
  have hB := B_pos
  have hBB : 0 < B * B := Nat.mul_pos hB hB
  have hd0 : 0 < d := by omega
  have hnlt : nh * B + nl < d * B := by
    have : (nh + 1) * B ≤ d * B := Nat.mul_le_mul_right _ hnh
    have : (nh + 1) * B = nh * B + B := by ring
    omega
  have hq0B : nh * di / B + nh < B := by
    have : (nh * di / B + nh) * d < B * d := by rw [Nat.mul_comm B d]; omega
    exact Nat.lt_of_mul_lt_mul_right this
  unfold udiv_qrnnd_preinv1
  simp only [umul_ppmm_eq]
  rw [Nat.mod_eq_of_lt hq0B]
  generalize nh * di / B + nh = q0 at *
  -- the first subtraction: R = n − q0·d, no borrow
  have hdBB : d * B ≤ B * B := Nat.mul_le_mul_right _ (Nat.le_of_lt h2)
  have hXlt : q0 * d < B * B := by omega
  rw [sub_ddmmss_eq nh nl _ _ (by omega) hnl ((Nat.div_lt_iff_lt_mul hB).mpr hXlt) (Nat.mod_lt _ hB),
    Nat.div_add_mod', pair2_mod]
  have hR : (nh * B + nl + B * B - q0 * d) % (B * B) = nh * B + nl - q0 * d := by
    have : nh * B + nl + B * B - q0 * d = (nh * B + nl - q0 * d) + B * B := by omega
    rw [this, Nat.add_mod_right, Nat.mod_eq_of_lt (by omega)]
  rw [hR]
  simp only
  obtain ⟨R, hRdef⟩ : ∃ R, nh * B + nl - q0 * d = R := ⟨_, rfl⟩
  rw [hRdef]
  have hn : nh * B + nl = q0 * d + R := by omega
  have hRlt : R < B + 2 * d := by omega
  have hBd : B ≤ 2 * d := by simp only [B_eq] at *; omega
  -- number of remaining subtractions
  obtain ⟨j, hj, hj1, hj2⟩ : ∃ j, j ≤ 3 ∧ j * d ≤ R ∧ R < j * d + d := by
    refine ⟨R / d, ?_, Nat.div_mul_le_self R d, ?_⟩
    · have : R / d < 4 := by rw [Nat.div_lt_iff_lt_mul hd0]; omega
      omega
    · have := Nat.lt_mul_div_succ R hd0
      rw [Nat.mul_add, Nat.mul_one, Nat.mul_comm d] at this; exact this
  obtain ⟨e1, e2⟩ := divmod_of_eq (nh * B + nl) d (q0 + j) (R - j * d) (by rw [Nat.add_mul]; omega) (by omega)
  rw [e1, e2]
  have hqj : q0 + j < B := by
    have : (q0 + j) * d < B * d := by rw [Nat.add_mul, Nat.mul_comm B d]; omega
    exact Nat.lt_of_mul_lt_mul_right this
  generalize hJ : j * d = J at *
  clear hn hnlt c1 c2 hv1 hv2 hRdef hR e1 e2 hXlt
  unfold preinv1Adj1 preinv1Adj2
  by_cases hx : R / B = 0
  · -- R < B: at most one subtraction
    have hx' : (R / B != 0) = false := by simp [hx]
    rw [hx']
    simp only [Bool.false_eq_true, if_false]
    have hRB : R < B := by
      rcases Nat.lt_or_ge R B with h | h
      · exact h
      · have : 1 ≤ R / B := (Nat.one_le_div_iff hB).mpr h
        omega
    rw [Nat.mod_eq_of_lt hRB]
    have hj01 : j = 0 ∨ j = 1 := by
      rcases Nat.lt_or_ge j 2 with h | h
      · omega
      · have : 2 * d ≤ j * d := Nat.mul_le_mul_right _ h
        omega
    rcases hj01 with rfl | rfl
    · rw [Nat.zero_mul] at hJ; subst hJ
      rw [if_neg (by omega)]; simp
    · rw [Nat.one_mul] at hJ; subst hJ
      rw [if_pos (by omega)]
      refine Prod.ext ?_ ?_
      · exact Nat.mod_eq_of_lt hqj
      · show (R + B - d) % B = R - d
        have : R + B - d = (R - d) + B := by omega
        rw [this, Nat.add_mod_right, Nat.mod_eq_of_lt (by omega)]
  · -- R ≥ B: one or two subtractions inside the first block
    have hx' : (R / B != 0) = true := by simp [hx]
    rw [hx']
    simp only [if_true]
    have hRB : B ≤ R := by
      by_contra hcon
      exact hx (Nat.div_eq_of_lt (by omega))
    have h3B : 3 * B ≤ B * B := Nat.mul_le_mul_right _ (by rw [B_eq]; norm_num)
    have hRBB : R < B * B := by omega
    rw [sub2_eq R 0 d hRBB hB h2, Nat.zero_mul, Nat.zero_add]
    have hR1 : (R + B * B - d) % (B * B) = R - d := by
      have : R + B * B - d = (R - d) + B * B := by omega
      rw [this, Nat.add_mod_right, Nat.mod_eq_of_lt (by omega)]
    rw [hR1]
    have hj4 : j = 0 ∨ j = 1 ∨ j = 2 ∨ j = 3 := by omega
    have hq1 : (q0 + 1) % B = q0 + 1 := Nat.mod_eq_of_lt (by
      rcases hj4 with rfl | rfl | rfl | rfl
      · rw [Nat.zero_mul] at hJ; omega
      all_goals omega)
    rw [hq1]
    by_cases hx2 : (R - d) / B = 0
    · have hx2' : ((R - d) / B != 0) = false := by simp [hx2]
      rw [hx2']
      simp only [Bool.false_eq_true, if_false]
      have hR1B : R - d < B := by
        rcases Nat.lt_or_ge (R - d) B with h | h
        · exact h
        · have : 1 ≤ (R - d) / B := (Nat.one_le_div_iff hB).mpr h
          omega
      rw [Nat.mod_eq_of_lt hR1B]
      rcases hj4 with rfl | rfl | rfl | rfl
      · rw [Nat.zero_mul] at hJ; omega
      · rw [Nat.one_mul] at hJ; subst hJ
        rw [if_neg (by omega)]
      · subst hJ
        rw [if_pos (by omega)]
        refine Prod.ext (Nat.mod_eq_of_lt (by omega)) ?_
        show (R - d + B - d) % B = R - 2 * d
        have : R - d + B - d = (R - 2 * d) + B := by omega
        rw [this, Nat.add_mod_right, Nat.mod_eq_of_lt (by omega)]
      · subst hJ; omega
    · have hx2' : ((R - d) / B != 0) = true := by simp [hx2]
      rw [hx2']
      simp only [if_true]
      have hR1B : B ≤ R - d := by
        by_contra hcon
        exact hx2 (Nat.div_eq_of_lt (by omega))
      have hr2 : ((R - d) % B + B - d) % B = R - 2 * d := by
        have e1 : (R - d) % B = R - d - B := by
          have : R - d = (R - d - B) + B := by omega
          rw [this, Nat.add_mod_right, Nat.mod_eq_of_lt (by omega)]; omega
        rw [e1]
        have : R - d - B + B - d = R - 2 * d := by omega
        rw [this, Nat.mod_eq_of_lt (by omega)]
      rw [hr2]
      rcases hj4 with rfl | rfl | rfl | rfl
      · rw [Nat.zero_mul] at hJ; omega
      · rw [Nat.one_mul] at hJ; subst hJ; omega
      · subst hJ
        rw [if_neg (by omega)]
        exact Prod.ext (Nat.mod_eq_of_lt (by omega)) rfl
      · subst hJ
        rw [if_pos (by omega)]
        refine Prod.ext ?_ ?_
        · show ((q0 + 1 + 1) % B + 1) % B = q0 + 3
          have e1 : (q0 + 1 + 1) % B = q0 + 2 := Nat.mod_eq_of_lt (by omega)
          rw [e1]; exact Nat.mod_eq_of_lt (by omega)
        · show (R - 2 * d + B - d) % B = R - 3 * d
          have : R - 2 * d + B - d = (R - 3 * d) + B := by omega
          rw [this, Nat.add_mod_right, Nat.mod_eq_of_lt (by omega)]


end Mpir.DivWord
